(* C34 — lemmas about the fee-ordered list: sort.Search, compareAndInsert,
   RemoveTx/locate, for every fee-rate order that is a strict weak order. *)
From Coq Require Import ZArith NArith Bool List Lia Permutation Sorted Arith.
From ELA Require Import model.C34_Pool.
Import ListNotations.

(* ------------------------------------------------------------ generic lists *)

Lemma SS_app_iff {A} (R : A -> A -> Prop) (a b : list A) :
  StronglySorted R (a ++ b) <->
  StronglySorted R a /\ StronglySorted R b /\ (forall x y, In x a -> In y b -> R x y).
Proof.
  induction a as [|x a IH]; simpl.
  - split; [intros H; repeat split; [constructor|exact H|intros ? ? []] | intros (_ & H & _); exact H].
  - split.
    + intros H. inversion H as [|? ? Hs Hf]; subst. apply IH in Hs as (Ha & Hb & Hc).
      rewrite Forall_app in Hf. destruct Hf as [Hfa Hfb].
      repeat split; [constructor; assumption | assumption |].
      intros u v [->|Hu] Hv; [rewrite Forall_forall in Hfb; auto | auto].
    + intros (Ha & Hb & Hc). inversion Ha as [|? ? Hs Hf]; subst.
      constructor.
      * apply IH. repeat split; auto.
      * rewrite Forall_app. split; [assumption|]. rewrite Forall_forall. intros; apply Hc; auto.
Qed.

Lemma SS_filter {A} (R : A -> A -> Prop) (f : A -> bool) l :
  StronglySorted R l -> StronglySorted R (filter f l).
Proof.
  induction 1 as [|x l Hs IH Hf]; simpl; [constructor|].
  destruct (f x); [|assumption]. constructor; [assumption|].
  rewrite Forall_forall in *. intros y Hy. apply filter_In in Hy as [Hy _]. auto.
Qed.

Lemma SS_nth {A} (R : A -> A -> Prop) l :
  StronglySorted R l -> forall a b x y, (a < b)%nat ->
  nth_error l a = Some x -> nth_error l b = Some y -> R x y.
Proof.
  induction 1 as [|z l Hs IH Hf]; intros a b x y Hab Ha Hb.
  - destruct a; discriminate.
  - destruct b as [|b]; [lia|]. destruct a as [|a]; simpl in *.
    + inversion Ha; subst. rewrite Forall_forall in Hf. apply Hf. eapply nth_error_In; eauto.
    + eapply IH; [|eassumption|eassumption]. lia.
Qed.

Lemma In_firstn_nth {A} (l : list A) n x :
  In x (firstn n l) -> exists k, (k < n)%nat /\ nth_error l k = Some x.
Proof.
  revert l; induction n as [|n IH]; intros l H; [destruct H|].
  destruct l as [|y l]; [destruct H|]. simpl in H. destruct H as [->|H].
  - exists 0%nat. split; [lia|reflexivity].
  - apply IH in H as (k & Hk & E). exists (S k). split; [lia|exact E].
Qed.

Lemma In_skipn_nth {A} (l : list A) n x :
  In x (skipn n l) -> exists k, (n <= k)%nat /\ nth_error l k = Some x.
Proof.
  revert l; induction n as [|n IH]; intros l H.
  - simpl in H. apply In_nth_error in H as (k & E). exists k. split; [lia|exact E].
  - destruct l as [|y l]; [destruct H|]. simpl in H.
    apply IH in H as (k & Hk & E). exists (S k). split; [lia|exact E].
Qed.

Lemma filter_all {A} (f : A -> bool) l : (forall y, In y l -> f y = true) -> filter f l = l.
Proof.
  induction l as [|x l IH]; intros H; simpl; [reflexivity|].
  rewrite (H x (or_introl eq_refl)). f_equal. apply IH. intros; apply H; right; assumption.
Qed.

Lemma Permutation_filter' {A} (f : A -> bool) l l' :
  Permutation l l' -> Permutation (filter f l) (filter f l').
Proof.
  induction 1; simpl.
  - constructor.
  - destruct (f x); [constructor|]; assumption.
  - destruct (f x), (f y); try apply perm_swap; try reflexivity.
  - etransitivity; eassumption.
Qed.

Lemma NoDup_map_filter {A B} (g : A -> B) (f : A -> bool) l :
  NoDup (map g l) -> NoDup (map g (filter f l)).
Proof.
  induction l as [|x l IH]; simpl; intros H; [constructor|].
  inversion H as [|? ? Hn Hd]; subst. destruct (f x); simpl; [|auto].
  constructor; [|auto]. intros Hin. apply Hn.
  apply in_map_iff in Hin as (y & E & Hy). apply filter_In in Hy as [Hy _].
  apply in_map_iff. exists y; auto.
Qed.

(* ------------------------------------------------------------ sort.Search *)

Lemma div2_mid i j : (i < j)%nat -> (i <= Nat.div2 (i + j) < j)%nat.
Proof.
  intros H. pose proof (Nat.div2_odd (i + j)) as E.
  destruct (Nat.odd (i + j)); simpl in E; lia.
Qed.

Lemma bsearch_spec (f : nat -> bool) (n : nat) :
  (forall a b, (a <= b < n)%nat -> f a = true -> f b = true) ->
  forall fuel i j, (i <= j <= n)%nat -> (j - i < fuel)%nat ->
  (forall k, (k < i)%nat -> f k = false) ->
  (forall k, (j <= k < n)%nat -> f k = true) ->
  let r := bsearch fuel f i j in
  (i <= r <= j)%nat /\ (forall k, (k < r)%nat -> f k = false) /\
  (forall k, (r <= k < n)%nat -> f k = true).
Proof.
  intros Hmono. induction fuel as [|fu IH]; intros i j Hij Hfuel Hlo Hhi; [lia|].
  simpl. destruct (Nat.ltb_spec i j) as [Hlt|Hge].
  - pose proof (div2_mid i j Hlt) as Hm. set (h := Nat.div2 (i + j)) in *.
    destruct (f h) eqn:Efh.
    + assert (Hs : (i <= h <= n)%nat /\ (h - i < fu)%nat) by lia.
      specialize (IH i h (proj1 Hs) (proj2 Hs) Hlo).
      assert (Hhi' : forall k, (h <= k < n)%nat -> f k = true).
      { intros k Hk. apply (Hmono h k); [lia|assumption]. }
      specialize (IH Hhi'). cbv zeta in IH. destruct IH as (Hr & Ha & Hb).
      repeat split; try lia; assumption.
    + assert (Hs : (S h <= j <= n)%nat /\ (j - S h < fu)%nat) by lia.
      assert (Hlo' : forall k, (k < S h)%nat -> f k = false).
      { intros k Hk. destruct (f k) eqn:Ek; [|reflexivity].
        assert (f h = true) by (apply (Hmono k h); [lia|assumption]). congruence. }
      specialize (IH (S h) j (proj1 Hs) (proj2 Hs) Hlo' Hhi). cbv zeta in IH.
      destruct IH as (Hr & Ha & Hb). repeat split; try lia; assumption.
  - assert (i = j) by lia. subst j. repeat split; try lia; assumption.
Qed.

(* ------------------------------------------------------------ fee list *)

Section FeeList.
  Variable rlt : Z * Z -> Z * Z -> bool.
  Hypothesis rlt_irrefl : forall a, rlt a a = false.
  Hypothesis rlt_trans : forall a b c, rlt a b = true -> rlt b c = true -> rlt a c = true.
  Hypothesis rlt_negtrans : forall a b c, rlt a b = false -> rlt b c = false -> rlt a c = false.

  Lemma rlt_asym a b : rlt a b = true -> rlt b a = false.
  Proof.
    intros H. destruct (rlt b a) eqn:E; [|reflexivity].
    rewrite <- (rlt_irrefl a). symmetry. eapply rlt_trans; eassumption.
  Qed.

  (* non-increasing fee rate *)
  Definition fee_sorted (l : list item) : Prop :=
    StronglySorted (fun a b => rlt (rate_of a) (rate_of b) = false) l.

  Lemma search_spec r l :
    fee_sorted l ->
    let idx := search rlt r l in
    (idx <= length l)%nat /\
    (forall k x, (k < idx)%nat -> nth_error l k = Some x -> rlt (rate_of x) r = false) /\
    (forall k x, (idx <= k)%nat -> nth_error l k = Some x -> rlt (rate_of x) r = true).
  Proof.
    intros Hs. unfold search.
    set (f := fun k => match nth_error l k with Some it => rlt (rate_of it) r | None => true end).
    assert (Hmono : forall a b, (a <= b < length l)%nat -> f a = true -> f b = true).
    { intros a b Hab Ha. unfold f in *.
      destruct (nth_error l a) as [x|] eqn:Ea; [|apply nth_error_None in Ea; lia].
      destruct (nth_error l b) as [y|] eqn:Eb; [|reflexivity].
      destruct (Nat.eq_dec a b) as [->|Hne]; [congruence|].
      assert (Hxy : rlt (rate_of x) (rate_of y) = false).
      { eapply (SS_nth _ l Hs a b); [lia|eassumption|eassumption]. }
      destruct (rlt (rate_of y) r) eqn:E; [reflexivity|].
      rewrite (rlt_negtrans _ _ _ Hxy E) in Ha. discriminate. }
    pose proof (bsearch_spec f (length l) Hmono (S (length l)) 0 (length l)) as H.
    assert (H1 : (0 <= length l <= length l)%nat) by lia.
    assert (H2 : (length l - 0 < S (length l))%nat) by lia.
    specialize (H H1 H2). cbv zeta in H.
    destruct H as (Hr & Ha & Hb); [intros; lia|intros; lia|].
    split; [lia|]. split.
    - intros k x Hk E. specialize (Ha k Hk). unfold f in Ha. rewrite E in Ha. exact Ha.
    - intros k x Hk E. assert (Hk' : (k < length l)%nat) by (apply nth_error_Some; congruence).
      specialize (Hb k (conj Hk Hk')). unfold f in Hb. rewrite E in Hb. exact Hb.
  Qed.

  Lemma fee_insert_perm it l : Permutation (it :: l) (fee_insert rlt it l).
  Proof.
    unfold fee_insert, insert_at.
    rewrite <- (firstn_skipn (search rlt (rate_of it) l) l) at 1.
    apply Permutation_middle.
  Qed.

  Lemma fee_insert_sorted it l : fee_sorted l -> fee_sorted (fee_insert rlt it l).
  Proof.
    intros Hs. pose proof (search_spec (rate_of it) l Hs) as H. cbv zeta in H.
    destruct H as (Hlen & Hlo & Hhi).
    unfold fee_insert, insert_at. set (n := search rlt (rate_of it) l) in *.
    pose proof Hs as Hs'. unfold fee_sorted in Hs'.
    rewrite <- (firstn_skipn n l) in Hs'. apply SS_app_iff in Hs' as (Ha & Hb & Hc).
    unfold fee_sorted. apply SS_app_iff. split; [exact Ha|]. split.
    - constructor; [exact Hb|]. rewrite Forall_forall. intros y Hy.
      apply In_skipn_nth in Hy as (k & Hk & E). apply rlt_asym. eapply Hhi; eassumption.
    - intros x y Hx [<-|Hy].
      + apply In_firstn_nth in Hx as (k & Hk & E). eapply Hlo; eassumption.
      + apply Hc; assumption.
  Qed.

  Lemma locate_from_found l h p it :
    nth_error l p = Some it -> i_hash it = h ->
    (forall q x, nth_error l q = Some x -> i_hash x = h -> q = p) ->
    forall n, (p < n <= length l)%nat -> locate_from l h n = Some p.
  Proof.
    intros Ep Eh Huniq. induction n as [|m IH]; intros Hn; [lia|].
    simpl. destruct (nth_error l m) as [y|] eqn:Em; [|apply nth_error_None in Em; lia].
    destruct (N.eqb_spec (i_hash y) h) as [Ey|Ey].
    - f_equal. eapply Huniq; eassumption.
    - apply IH. destruct (Nat.eq_dec p m) as [->|]; [|lia]. congruence.
  Qed.

  Lemma remove_at_filter l : NoDup (map i_hash l) -> forall p it,
    nth_error l p = Some it ->
    remove_at p l = filter (fun x => negb (i_hash x =? i_hash it)%N) l.
  Proof.
    induction l as [|x l IH]; intros Hnd p it Ep; [destruct p; discriminate|].
    simpl in Hnd. inversion Hnd as [|? ? Hn Hd]; subst.
    destruct p as [|p]; simpl in Ep.
    - inversion Ep; subst. unfold remove_at. simpl. rewrite N.eqb_refl. simpl.
      symmetry. apply filter_all. intros y Hy.
      destruct (N.eqb_spec (i_hash y) (i_hash it)) as [E|E]; [|reflexivity].
      exfalso. apply Hn. rewrite <- E. apply in_map. exact Hy.
    - unfold remove_at. simpl.
      destruct (N.eqb_spec (i_hash x) (i_hash it)) as [E|E].
      + exfalso. apply Hn. rewrite E. apply in_map. eapply nth_error_In; eassumption.
      + simpl. f_equal. apply (IH Hd p it Ep).
  Qed.

  (* RemoveTx finds and removes the entry of a listed transaction *)
  Lemma fee_remove_found l h it sz total :
    fee_sorted l -> NoDup (map i_hash l) -> In it l -> i_hash it = h ->
    fee_remove rlt h sz (rate_of it) l total =
      (filter (fun x => negb (i_hash x =? h)%N) l, u64 (total - sz)).
  Proof.
    intros Hs Hnd Hin Eh. apply In_nth_error in Hin as (p & Ep).
    pose proof (search_spec (rate_of it) l Hs) as H. cbv zeta in H.
    destruct H as (Hlen & Hlo & Hhi). unfold fee_remove.
    set (idx := search rlt (rate_of it) l) in *.
    assert (Hp : (p < length l)%nat) by (apply nth_error_Some; congruence).
    assert (Hpi : (p < idx)%nat).
    { destruct (Nat.lt_ge_cases p idx) as [|Hge]; [assumption|].
      specialize (Hhi p it Hge Ep). rewrite rlt_irrefl in Hhi. discriminate. }
    assert (Huniq : forall q x, nth_error l q = Some x -> i_hash x = h -> q = p).
    { intros q x Eq Ex. rewrite NoDup_nth_error in Hnd. apply Hnd.
      - rewrite map_length. apply nth_error_Some. congruence.
      - rewrite (map_nth_error i_hash q l Eq), (map_nth_error i_hash p l Ep). congruence. }
    rewrite (locate_from_found l h p it Ep Eh Huniq).
    - rewrite (remove_at_filter l Hnd p it Ep). rewrite Eh. reflexivity.
    - destruct (Nat.eqb_spec idx (length l)); lia.
  Qed.
End FeeList.
