(* Per-key characterisation of UnspentIndex.ConnectBlock / DisconnectBlock as
   modelled in model/Ledger.v. *)
From Coq Require Import List ZArith NArith Bool Lia Permutation.
From ELA Require Import model.Ledger proof.Ledger_base.
Import ListNotations.
Local Open Scope N_scope.

Definition ids (txs : list tx) : list N := map t_id txs.

(* ---------------------------------------------------------------- connect, projected on one key *)
Definition kf_ins (k : N) (ins : list outpoint) (l : list N) : list N :=
  fold_left (fun l (op : outpoint) => if fst op =? k then swap_pop l (snd op) else l) ins l.
Definition kf_tx (k : N) (t : tx) (l : list N) : list N :=
  let l1 := if t_id t =? k then l ++ idxs (length (t_outs t)) else l in
  if t_cb t then l1 else kf_ins k (t_ins t) l1.
Definition kf_txs (k : N) (txs : list tx) (l : list N) : list N :=
  fold_left (fun l t => kf_tx k t l) txs l.

Definition cins_step (db : N -> list N) := fun (l : ulocal) (op : outpoint) =>
  let cur := match alookup N.eqb l (fst op) with Some v => v | None => db (fst op) end in
  aset N.eqb l (fst op) (swap_pop cur (snd op)).
Definition couts_step (tid : N) := fun (l : ulocal) (i : N) =>
  aset N.eqb l tid (match alookup N.eqb l tid with Some v => v | None => [] end ++ [i]).

Lemma model_ins_key db k ins : forall loc,
  eff db (fold_left (cins_step db) ins loc) k = kf_ins k ins (eff db loc k).
Proof.
  induction ins as [|op r IH]; intros loc; simpl; [reflexivity|].
  rewrite IH. f_equal. unfold cins_step. rewrite eff_aset. rewrite N.eqb_sym.
  destruct (N.eqb_spec (fst op) k) as [->|]; reflexivity.
Qed.

Lemma model_outs_lookup tid l0 : forall loc,
  (match alookup N.eqb (fold_left (couts_step tid) l0 loc) tid with Some v => v | None => [] end
   = match alookup N.eqb loc tid with Some v => v | None => [] end ++ l0)
  /\ (forall k, k <> tid -> alookup N.eqb (fold_left (couts_step tid) l0 loc) k = alookup N.eqb loc k)
  /\ (l0 = [] -> fold_left (couts_step tid) l0 loc = loc).
Proof.
  induction l0 as [|i r IH]; intros loc; simpl.
  - rewrite app_nil_r. auto.
  - destruct (IH (couts_step tid loc i)) as [H1 [H2 _]]. split; [|split].
    + rewrite H1. unfold couts_step at 1. rewrite alookup_aset, N.eqb_refl. now rewrite <- app_assoc.
    + intros k Hk. rewrite H2 by assumption. unfold couts_step. rewrite alookup_aset.
      destruct (N.eqb_spec k tid); [congruence|reflexivity].
    + discriminate.
Qed.

Lemma model_outs_key db tid l0 loc k :
  (alookup N.eqb loc tid = None -> db tid = []) ->
  eff db (fold_left (couts_step tid) l0 loc) k = if tid =? k then eff db loc k ++ l0 else eff db loc k.
Proof.
  intros Hfresh. destruct (model_outs_lookup tid l0 loc) as [H1 [H2 H3]].
  destruct (N.eqb_spec tid k) as [<-|Hne].
  - destruct l0 as [|i r].
    + rewrite H3 by reflexivity. now rewrite app_nil_r.
    + unfold eff. revert H1.
      destruct (alookup N.eqb (fold_left (couts_step tid) (i :: r) loc) tid) eqn:E.
      * intros ->. destruct (alookup N.eqb loc tid); [reflexivity|]. now rewrite Hfresh.
      * exfalso. simpl in E. destruct (model_outs_lookup tid r (couts_step tid loc i)) as [G1 _].
        rewrite E in G1. unfold couts_step in G1 at 1. rewrite alookup_aset, N.eqb_refl in G1.
        destruct (match alookup N.eqb loc tid with Some v => v | None => [] end); discriminate.
  - unfold eff. rewrite H2 by congruence. reflexivity.
Qed.

Lemma model_tx_key db loc t k :
  (alookup N.eqb loc (t_id t) = None -> db (t_id t) = []) ->
  eff db (unspent_connect_tx db loc t) k = kf_tx k t (eff db loc k).
Proof.
  intros Hf. unfold unspent_connect_tx, kf_tx.
  change (fun l i => aset N.eqb l (t_id t) (match alookup N.eqb l (t_id t) with Some v => v | None => [] end ++ [i]))
    with (couts_step (t_id t)).
  change (fun l (op : outpoint) => let cur := match alookup N.eqb l (fst op) with Some v => v | None => db (fst op) end in
            aset N.eqb l (fst op) (swap_pop cur (snd op))) with (cins_step db).
  destruct (t_cb t).
  - now apply model_outs_key.
  - rewrite model_ins_key. f_equal. now apply model_outs_key.
Qed.

Lemma model_txs_key db k txs : forall loc,
  (forall t, In t txs -> db (t_id t) = []) ->
  eff db (fold_left (unspent_connect_tx db) txs loc) k = kf_txs k txs (eff db loc k).
Proof.
  induction txs as [|t r IH]; intros loc Hf; simpl; [reflexivity|].
  rewrite IH by (intros; apply Hf; now right). unfold kf_txs. simpl. f_equal.
  apply model_tx_key. intros _. apply Hf. now left.
Qed.

Lemma connect_tx_keys db t loc : NoDup (map fst loc) -> NoDup (map fst (unspent_connect_tx db loc t)).
Proof.
  intros H. unfold unspent_connect_tx.
  assert (H1 : NoDup (map fst (fold_left (fun l i => aset N.eqb l (t_id t)
             (match alookup N.eqb l (t_id t) with Some v => v | None => [] end ++ [i])) (idxs (length (t_outs t))) loc))).
  { generalize (idxs (length (t_outs t))). intros l0. revert loc H.
    induction l0; intros loc H; simpl; [exact H|]. apply IHl0. now apply aset_keys_nodup. }
  destruct (t_cb t); [exact H1|].
  revert H1. generalize (fold_left (fun l i => aset N.eqb l (t_id t)
             (match alookup N.eqb l (t_id t) with Some v => v | None => [] end ++ [i])) (idxs (length (t_outs t))) loc).
  induction (t_ins t); intros l0 H1; simpl; [exact H1|]. apply IHl. now apply aset_keys_nodup.
Qed.

Lemma connect_txs_keys db txs : forall loc, NoDup (map fst loc) -> NoDup (map fst (fold_left (unspent_connect_tx db) txs loc)).
Proof. induction txs; intros loc H; simpl; [exact H|]. apply IHtxs. now apply connect_tx_keys. Qed.

Theorem unspent_connect_key db b m k :
  unspent_connect db b = Ok m -> (forall t, In t (b_txs b) -> db (t_id t) = []) ->
  m k = kf_txs k (b_txs b) (db k).
Proof.
  unfold unspent_connect. intros H Hf.
  rewrite (writeback_spec _ _ _ H) by (apply connect_txs_keys; constructor).
  rewrite model_txs_key by assumption. reflexivity.
Qed.

(* ---- list-level facts about the projection *)
Lemma kf_ins_app k a b l : kf_ins k (a ++ b) l = kf_ins k b (kf_ins k a l).
Proof. unfold kf_ins. apply fold_left_app. Qed.

Lemma kf_ins_spec k ins : forall l, NoDup l ->
  NoDup (kf_ins k ins l) /\ forall i, In i (kf_ins k ins l) <-> In i l /\ ~ In (k, i) ins.
Proof.
  induction ins as [|op r IH]; intros l Hnd; simpl.
  - split; [exact Hnd|]. intros i; tauto.
  - destruct op as [t j]. simpl. destruct (N.eqb_spec t k) as [->|Hne].
    + destruct (swap_pop_spec l j Hnd) as [S1 S2]. destruct (IH _ S1) as [I1 I2]. split; [exact I1|].
      intros i. rewrite I2, S2. split.
      * intros [[H1 H2] H3]. split; [exact H1|]. intros [E|E]; [inversion E; congruence|contradiction].
      * intros [H1 H2]. split; [split; [exact H1|]|]; intro; apply H2; [left; congruence|now right].
    + destruct (IH _ Hnd) as [I1 I2]. split; [exact I1|]. intros i. rewrite I2. split.
      * intros [H1 H2]. split; [exact H1|]. intros [E|E]; [inversion E; congruence|contradiction].
      * intros [H1 H2]. split; [exact H1|]. intro; apply H2; now right.
Qed.

Lemma kf_ins_untouched k ins l : (forall op, In op ins -> fst op <> k) -> kf_ins k ins l = l.
Proof.
  revert l. induction ins as [|op r IH]; intros l H; simpl; [reflexivity|].
  destruct (N.eqb_spec (fst op) k) as [E|_]; [exfalso; eapply H; [now left|exact E]|].
  apply IH. intros; apply H; now right.
Qed.

Lemma kf_txs_notid k txs : forall l, ~ In k (ids txs) -> kf_txs k txs l = kf_ins k (flat_map spends txs) l.
Proof.
  induction txs as [|t r IH]; intros l H; simpl; [reflexivity|].
  simpl in H. rewrite kf_ins_app. rewrite IH by tauto. f_equal.
  unfold kf_tx, spends. destruct (N.eqb_spec (t_id t) k); [tauto|]. destruct (t_cb t); reflexivity.
Qed.

Lemma kf_txs_noref k txs : forall l, (forall op, In op (flat_map spends txs) -> fst op <> k) ->
  kf_txs k txs l = l ++ flat_map (fun t => if t_id t =? k then idxs (length (t_outs t)) else []) txs.
Proof.
  induction txs as [|t r IH]; intros l H; simpl; [now rewrite app_nil_r|].
  rewrite IH by (intros; apply H; simpl; apply in_or_app; now right).
  assert (E : kf_tx k t l = l ++ (if t_id t =? k then idxs (length (t_outs t)) else [])).
  { unfold kf_tx. assert (Hs : forall op, In op (spends t) -> fst op <> k)
      by (intros; apply H; simpl; apply in_or_app; now left).
    unfold spends in Hs. destruct (t_cb t).
    - destruct (t_id t =? k); [reflexivity|now rewrite app_nil_r].
    - rewrite kf_ins_untouched by exact Hs. destruct (t_id t =? k); [reflexivity|now rewrite app_nil_r]. }
  rewrite E. now rewrite <- app_assoc.
Qed.

Lemma flat_pick_unique (txs : list tx) x : NoDup (ids txs) -> In x txs ->
  flat_map (fun t => if t_id t =? t_id x then idxs (length (t_outs t)) else []) txs = idxs (length (t_outs x)).
Proof.
  induction txs as [|t r IH]; simpl; intros Hnd Hin; [contradiction|].
  inversion Hnd as [|? ? Hn Hr]; subst. destruct Hin as [->|Hin].
  - rewrite N.eqb_refl.
    assert (E : flat_map (fun t => if t_id t =? t_id x then idxs (length (t_outs t)) else []) r = []).
    { clear -Hn. induction r as [|a r IH]; simpl in *; [reflexivity|].
      destruct (N.eqb_spec (t_id a) (t_id x)) as [E|_]; [exfalso; apply Hn; left; congruence|]. apply IH. tauto. }
    rewrite E. apply app_nil_r.
  - destruct (N.eqb_spec (t_id t) (t_id x)) as [E|_].
    + exfalso. apply Hn. rewrite E. now apply in_map.
    + simpl. now apply IH.
Qed.

(* ---------------------------------------------------------------- disconnect, projected on one key *)
Definition dk_ins (k : N) (ins : list outpoint) (l : list N) : list N :=
  fold_left (fun l (op : outpoint) => if fst op =? k then l ++ [snd op] else l) ins l.
Definition dk_tx (k : N) (t : tx) (l : list N) : list N :=
  let l1 := if (t_id t =? k) && negb (match t_outs t with [] => true | _ => false end) then [] else l in
  if t_cb t then l1 else dk_ins k (t_ins t) l1.
Definition dk_txs (k : N) (txs : list tx) (l : list N) : list N :=
  fold_left (fun l t => dk_tx k t l) txs l.

Definition dins_step (db1 : N -> list N) := fun (l : ulocal) (op : outpoint) =>
  let l1 := match alookup N.eqb l (fst op) with
            | Some _ => l
            | None => match db1 (fst op) with [] => l | v => aset N.eqb l (fst op) v end
            end in
  aset N.eqb l1 (fst op) (match alookup N.eqb l1 (fst op) with Some v => v | None => [] end ++ [snd op]).

Lemma dins_step_eff db1 l op k :
  eff db1 (dins_step db1 l op) k = if fst op =? k then eff db1 l k ++ [snd op] else eff db1 l k.
Proof.
  unfold dins_step. rewrite eff_aset. rewrite (N.eqb_sym k).
  destruct (N.eqb_spec (fst op) k) as [<-|Hne].
  - unfold eff. destruct (alookup N.eqb l (fst op)) eqn:E.
    + now rewrite E.
    + destruct (db1 (fst op)) eqn:D.
      * now rewrite E.
      * now rewrite alookup_aset, N.eqb_refl.
  - unfold eff. destruct (alookup N.eqb l (fst op)) eqn:E; [reflexivity|].
    destruct (db1 (fst op)) eqn:D; [reflexivity|].
    rewrite alookup_aset. destruct (N.eqb_spec k (fst op)); [congruence|reflexivity].
Qed.

Lemma dins_step_keys db1 l op : NoDup (map fst l) -> NoDup (map fst (dins_step db1 l op)).
Proof.
  intros H. unfold dins_step. apply aset_keys_nodup.
  destruct (alookup N.eqb l (fst op)); [exact H|]. destruct (db1 (fst op)); [exact H|]. now apply aset_keys_nodup.
Qed.

Lemma dins_step_none db1 l op k : k <> fst op -> alookup N.eqb l k = None -> alookup N.eqb (dins_step db1 l op) k = None.
Proof.
  intros Hk Hn. unfold dins_step. rewrite alookup_aset. destruct (N.eqb_spec k (fst op)); [congruence|].
  destruct (alookup N.eqb l (fst op)); [exact Hn|]. destruct (db1 (fst op)); [exact Hn|].
  rewrite alookup_aset. destruct (N.eqb_spec k (fst op)); [congruence|exact Hn].
Qed.

Lemma dins_fold db1 k ins : forall l,
  eff db1 (fold_left (dins_step db1) ins l) k = dk_ins k ins (eff db1 l k).
Proof.
  induction ins as [|op r IH]; intros l; simpl; [reflexivity|]. rewrite IH. f_equal. apply dins_step_eff.
Qed.
Lemma dins_fold_keys db1 ins : forall l, NoDup (map fst l) -> NoDup (map fst (fold_left (dins_step db1) ins l)).
Proof. induction ins; intros l H; simpl; [exact H|]. apply IHins. now apply dins_step_keys. Qed.
Lemma dins_fold_none db1 k ins : forall l, ~ In k (map fst ins) -> alookup N.eqb l k = None ->
  alookup N.eqb (fold_left (dins_step db1) ins l) k = None.
Proof.
  induction ins as [|op r IH]; intros l Hk Hn; simpl; [exact Hn|]. simpl in Hk.
  apply IH; [tauto|]. apply dins_step_none; [intro; apply Hk; left; congruence|exact Hn].
Qed.

(* all keys of the block are outside the references of the block ("no
   transaction of the block spends an output of the block") *)
Definition no_self_ref (txs : list tx) : Prop :=
  forall op, In op (flat_map spends txs) -> ~ In (fst op) (ids txs).

Definition dis_del (db : N -> list N) (t : tx) : res (N -> list N) :=
  match t_outs t with
  | [] => Ok db
  | _ => match db (t_id t) with [] => Err | _ => Ok (upd db (t_id t) []) end
  end.

Lemma dis_tx_step db loc t :
  unspent_disconnect_tx (Ok (db, loc)) t =
  match dis_del db t with
  | Ok db1 => Ok (db1, if t_cb t then loc else fold_left (dins_step db1) (t_ins t) loc)
  | Err => Err | Panic => Panic
  end.
Proof.
  unfold unspent_disconnect_tx, dis_del. simpl.
  destruct (t_outs t); simpl.
  - destruct (t_cb t); reflexivity.
  - destruct (db (t_id t)); simpl; [reflexivity|]. destruct (t_cb t); reflexivity.
Qed.

Lemma dis_fold_err txs : fold_left unspent_disconnect_tx txs Err = Err.
Proof. induction txs; simpl; auto. Qed.
Lemma dis_fold_panic txs : fold_left unspent_disconnect_tx txs Panic = Panic.
Proof. induction txs; simpl; auto. Qed.

Lemma dis_txs_key k : forall txs db loc db' loc',
  fold_left unspent_disconnect_tx txs (Ok (db, loc)) = Ok (db', loc') ->
  NoDup (map fst loc) ->
  (forall t, In t txs -> alookup N.eqb loc (t_id t) = None) ->
  (forall op, In op (flat_map spends txs) -> ~ In (fst op) (ids txs)) ->
  NoDup (map fst loc') /\ eff db' loc' k = dk_txs k txs (eff db loc k).
Proof.
  induction txs as [|t r IH]; intros db loc db' loc' H Hnd Hnone Hself.
  - simpl in H. inversion H; subst. split; [exact Hnd|reflexivity].
  - cbn [fold_left] in H. rewrite dis_tx_step in H.
    destruct (dis_del db t) as [db1| |] eqn:Edb;
      [|rewrite dis_fold_err in H; discriminate|rewrite dis_fold_panic in H; discriminate].
    assert (Hdb1 : forall k', eff db1 loc k' =
              if (t_id t =? k') && negb (match t_outs t with [] => true | _ => false end) then [] else eff db loc k').
    { intros k'. unfold dis_del in Edb. destruct (t_outs t) eqn:Eo.
      - inversion Edb; subst. rewrite andb_false_r. reflexivity.
      - destruct (db (t_id t)) eqn:Ed; [discriminate|]. inversion Edb; subst. simpl. rewrite andb_true_r.
        unfold eff. destruct (N.eqb_spec (t_id t) k') as [<-|Hne].
        + rewrite (Hnone t) by now left. apply upd_same.
        + destruct (alookup N.eqb loc k'); [reflexivity|]. apply upd_other. congruence. }
    set (loc1 := if t_cb t then loc else fold_left (dins_step db1) (t_ins t) loc) in *.
    assert (Hnd1 : NoDup (map fst loc1)).
    { unfold loc1. destruct (t_cb t); [exact Hnd|]. now apply dins_fold_keys. }
    assert (Hnone1 : forall t', In t' r -> alookup N.eqb loc1 (t_id t') = None).
    { intros t' Ht'. unfold loc1. destruct (t_cb t) eqn:Ecb; [apply Hnone; now right|].
      apply dins_fold_none; [|apply Hnone; now right].
      intros Hin. apply in_map_iff in Hin. destruct Hin as [op [E Hop]].
      apply (Hself op).
      - simpl. apply in_or_app. left. unfold spends. now rewrite Ecb.
      - right. rewrite E. now apply in_map. }
    destruct (IH db1 loc1 db' loc' H Hnd1 Hnone1) as [R1 R2].
    { intros op Hop Hin. apply (Hself op); [simpl; apply in_or_app; now right|now right]. }
    split; [exact R1|]. rewrite R2. unfold dk_txs. simpl. f_equal.
    unfold dk_tx, loc1. destruct (t_cb t).
    + apply Hdb1.
    + rewrite dins_fold. f_equal. apply Hdb1.
Qed.

Theorem unspent_disconnect_key db b m k :
  unspent_disconnect db b = Ok m -> no_self_ref (b_txs b) ->
  m k = dk_txs k (b_txs b) (db k).
Proof.
  unfold unspent_disconnect. intros H Hself.
  destruct (fold_left unspent_disconnect_tx (b_txs b) (Ok (db, []))) as [[db1 loc1]| |] eqn:E; simpl in H; try discriminate.
  destruct (dis_txs_key k _ _ _ _ _ E) as [R1 R2]; [constructor|reflexivity|exact Hself|].
  rewrite (writeback_spec _ _ _ H R1). exact R2.
Qed.

(* ---- list-level facts *)
Lemma dk_ins_spec k ins : forall l i, In i (dk_ins k ins l) <-> In i l \/ In (k, i) ins.
Proof.
  induction ins as [|[t j] r IH]; intros l i; simpl; [tauto|].
  rewrite IH. destruct (N.eqb_spec t k) as [->|Hne].
  - rewrite in_app_iff. simpl. split.
    + intros [[H|[<-|[]]]|H]; auto.
    + intros [H|[E|H]]; auto. inversion E; subst. left. right. now left.
  - split.
    + intros [H|H]; auto.
    + intros [H|[E|H]]; auto. inversion E; congruence.
Qed.

Lemma NoDup_snoc {A} (l : list A) x : NoDup l -> ~ In x l -> NoDup (l ++ [x]).
Proof.
  intros H Hn. induction H as [|a l Ha Hl IH]; simpl.
  - constructor; [intros []|constructor].
  - constructor.
    + rewrite in_app_iff. simpl. intros [H|[->|[]]]; [contradiction|]. apply Hn. now left.
    + apply IH. intros H. apply Hn. now right.
Qed.

Lemma dk_ins_nodup k ins : forall l, NoDup l -> NoDup ins -> (forall i, In i l -> ~ In (k, i) ins) -> NoDup (dk_ins k ins l).
Proof.
  induction ins as [|[t j] r IH]; intros l Hl Hins Hdisj; simpl; [exact Hl|].
  inversion Hins as [|? ? Hn Hr]; subst. destruct (N.eqb_spec t k) as [->|Hne].
  - apply IH; [|exact Hr|].
    + apply NoDup_snoc; [exact Hl|]. intros Hin. apply (Hdisj j Hin). now left.
    + intros i Hin Hr'. apply in_app_iff in Hin. destruct Hin as [Hin|[<-|[]]].
      * apply (Hdisj i Hin). now right.
      * contradiction.
  - apply IH; [exact Hl|exact Hr|]. intros i Hin Hr'. apply (Hdisj i Hin). now right.
Qed.

Lemma dk_ins_app k a b l : dk_ins k (a ++ b) l = dk_ins k b (dk_ins k a l).
Proof. unfold dk_ins. apply fold_left_app. Qed.

Lemma dk_txs_notid k txs : forall l, ~ In k (ids txs) -> dk_txs k txs l = dk_ins k (flat_map spends txs) l.
Proof.
  induction txs as [|t r IH]; intros l H; simpl; [reflexivity|]. simpl in H.
  rewrite dk_ins_app, IH by tauto. f_equal. unfold dk_tx, spends.
  destruct (N.eqb_spec (t_id t) k); [tauto|]. simpl. destruct (t_cb t); reflexivity.
Qed.

Lemma dk_ins_untouched k ins l : (forall op, In op ins -> fst op <> k) -> dk_ins k ins l = l.
Proof.
  revert l. induction ins as [|op r IH]; intros l H; simpl; [reflexivity|].
  destruct (N.eqb_spec (fst op) k) as [E|_]; [exfalso; eapply H; [now left|exact E]|]. apply IH. intros; apply H; now right.
Qed.

(* a key of the block that is never referenced: its entry is empty afterwards
   whenever it was empty-or-created by the block *)
Lemma dk_txs_tid k txs : forall l,
  (forall op, In op (flat_map spends txs) -> fst op <> k) ->
  (exists x, In x txs /\ t_id x = k /\ t_outs x <> []) -> dk_txs k txs l = [].
Proof.
  induction txs as [|t r IH]; intros l Href [x [Hin [Hid Ho]]]; [contradiction|]. simpl.
  assert (Ht : forall l0, dk_tx k t l0 = if (t_id t =? k) && negb (match t_outs t with [] => true | _ => false end) then [] else l0).
  { intros l0. unfold dk_tx. assert (Hs : forall op, In op (spends t) -> fst op <> k)
      by (intros; apply Href; simpl; apply in_or_app; now left).
    unfold spends in Hs. destruct (t_cb t); [reflexivity|]. now rewrite dk_ins_untouched. }
  assert (Href' : forall op, In op (flat_map spends r) -> fst op <> k)
    by (intros; apply Href; simpl; apply in_or_app; now right).
  destruct Hin as [->|Hin].
  - rewrite Ht. rewrite Hid, N.eqb_refl. destruct (t_outs x) eqn:E; [congruence|]. simpl.
    (* the rest keeps [] *)
    clear -Href'. induction r as [|t r IH]; simpl; [reflexivity|].
    assert (E : dk_tx k t [] = []).
    { unfold dk_tx. assert (Hs : forall op, In op (spends t) -> fst op <> k)
        by (intros; apply Href'; simpl; apply in_or_app; now left).
      unfold spends in Hs. destruct ((t_id t =? k) && _); destruct (t_cb t); try reflexivity; now rewrite dk_ins_untouched. }
    rewrite E. apply IH. intros; apply Href'; simpl; apply in_or_app; now right.
  - apply IH; [exact Href'|]. exists x. auto.
Qed.
