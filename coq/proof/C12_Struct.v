(* Structural facts about model/Chain.v shared by the C12 and C30 proofs:
   lookups, what each transition does to the index / orphan pool, the
   invariant "every block is indexed at most once" and a generic schema that
   lifts an invariant of [maybe_accept] to [process_block] / [run]. *)
From Coq Require Import ZArith NArith Bool List Lia.
From ELA Require Import model.Chain.
Import ListNotations.
Local Open Scope Z_scope.

(* ------------------------------------------------------------------ *)
(* lookups *)

Lemma lookup_some id l n : lookup id l = Some n -> In n l /\ n_id n = id.
Proof.
  unfold lookup. intros H. apply find_some in H. destruct H as [H1 H2].
  apply N.eqb_eq in H2. auto.
Qed.

Lemma has_id_true id l : has_id id l = true <-> exists n, In n l /\ n_id n = id.
Proof.
  unfold has_id. rewrite existsb_exists.
  split; intros [n [H1 H2]]; exists n; split; auto; apply N.eqb_eq; auto.
Qed.

Lemma has_id_false id l : has_id id l = false <-> forall n, In n l -> n_id n <> id.
Proof.
  split.
  - intros H n Hn E. assert (has_id id l = true) by (apply has_id_true; eauto). congruence.
  - intros H. destruct (has_id id l) eqn:E; auto. apply has_id_true in E.
    destruct E as [n [H1 H2]]. exfalso. eapply H; eauto.
Qed.

Lemma has_id_app id l1 l2 : has_id id (l1 ++ l2) = has_id id l1 || has_id id l2.
Proof. apply existsb_app. Qed.

Lemma has_id_in n l : In n l -> has_id (n_id n) l = true.
Proof. intros. apply has_id_true. eauto. Qed.

Lemma lookup_app_l id l1 l2 n : lookup id l1 = Some n -> lookup id (l1 ++ l2) = Some n.
Proof.
  unfold lookup. induction l1 as [|a l1 IH]; simpl; [discriminate|].
  destruct (N.eqb (n_id a) id); auto.
Qed.

Lemma lookup_app_r id l1 l2 : has_id id l1 = false -> lookup id (l1 ++ l2) = lookup id l2.
Proof.
  unfold lookup, has_id. induction l1 as [|a l1 IH]; simpl; auto.
  destruct (N.eqb (n_id a) id); simpl; [discriminate|auto].
Qed.

Lemma lookup_none id l : lookup id l = None <-> has_id id l = false.
Proof.
  unfold lookup, has_id. induction l as [|a l IH]; simpl; [tauto|].
  destruct (N.eqb (n_id a) id); simpl; [split; discriminate|auto].
Qed.

Lemma lookup_has id l : has_id id l = true -> exists n, lookup id l = Some n.
Proof.
  intros H. destruct (lookup id l) eqn:E; eauto.
  apply lookup_none in E. congruence.
Qed.

Lemma lookup_self id l n : lookup id l = Some n -> lookup (n_id n) l = Some n.
Proof. intros H. destruct (lookup_some _ _ _ H) as [_ E]. rewrite E. exact H. Qed.

Lemma lookup_nodup l n : NoDup (map n_id l) -> In n l -> lookup (n_id n) l = Some n.
Proof.
  unfold lookup. induction l as [|a l IH]; simpl; [tauto|].
  intros ND [->|Hin].
  - rewrite N.eqb_refl. reflexivity.
  - inversion ND as [|x xs Hnot ND']; subst.
    destruct (N.eqb (n_id a) (n_id n)) eqn:E.
    + apply N.eqb_eq in E. exfalso. apply Hnot. rewrite E. apply in_map. exact Hin.
    + auto.
Qed.

Lemma nodup_same_id l n m : NoDup (map n_id l) -> In n l -> In m l -> n_id n = n_id m -> n = m.
Proof.
  intros ND Hn Hm E.
  pose proof (lookup_nodup _ _ ND Hn) as L1. pose proof (lookup_nodup _ _ ND Hm) as L2.
  rewrite E in L1. congruence.
Qed.

Lemma NoDup_app_snoc {A} (l : list A) x : NoDup l -> ~ In x l -> NoDup (l ++ [x]).
Proof.
  induction l as [|a l IH]; simpl; intros ND Hx.
  - constructor; auto.
  - inversion ND; subst. constructor.
    + rewrite in_app_iff. simpl. intuition.
    + apply IH; auto.
Qed.

(* ------------------------------------------------------------------ *)
(* frames: what a transition changes *)

Definition same_core (s s' : state) : Prop :=
  index s' = index s /\ main s' = main s /\ ir s' = ir s /\
  refused s' = refused s /\ evlog s' = evlog s.

Lemma detach_n_index k : forall s, index (detach_n k s) = index s /\ orphans (detach_n k s) = orphans s
  /\ refused (detach_n k s) = refused s /\ evlog (detach_n k s) = evlog s /\ main (detach_n k s) = skipn k (main s).
Proof.
  induction k; intros s; simpl.
  - auto.
  - destruct (IHk (detach_one s)) as (A & B & C & D & E). simpl in *.
    repeat split; auto. rewrite E. destruct (main s); simpl; auto. destruct k; reflexivity.
Qed.

Lemma attach_all_frame p att : forall s s' ok, attach_all p att s = (s', ok) ->
  index s' = index s /\ orphans s' = orphans s /\ refused s' = refused s /\ evlog s' = evlog s.
Proof.
  induction att as [|a att IH]; simpl; intros s s' ok H.
  - inversion H; subst; auto.
  - destruct (b_valid (n_blk a)).
    + apply IH in H. simpl in H. exact H.
    + inversion H; subst; auto.
Qed.

Lemma reorganize_frame p det att s s' ok : reorganize p det att s = (s', ok) ->
  index s' = index s /\ orphans s' = orphans s /\ refused s' = refused s /\
  exists e, evlog s' = e :: evlog s /\ reorg_failed e = negb ok.
Proof.
  unfold reorganize. destruct (attach_all p att (detach_n (length det) s)) as [s1 ok1] eqn:A.
  intros H. inversion H; subst. simpl.
  apply attach_all_frame in A. destruct A as (A1 & A2 & A3 & A4).
  destruct (detach_n_index (length det) s) as (B1 & B2 & B3 & B4 & _).
  repeat split; try congruence.
  eexists. split. rewrite A4, B4. reflexivity. reflexivity.
Qed.

Lemma cbc_frame p n s s' r : connect_best_chain p n s = (s', r) ->
  orphans s' = orphans s /\ ((s' = s /\ r = None) \/ index s' = index s ++ [n]).
Proof.
  unfold connect_best_chain.
  destruct (N.eqb (n_parent n) (n_id (tip s))).
  - destruct (b_valid (n_blk n)); intros H; inversion H; subst; simpl; auto.
  - destruct (n_worksum n <=? n_worksum (tip (add_index n s))).
    + intros H; inversion H; subst; simpl; auto.
    + destruct (get_reorganize_nodes (add_index n s) n) as [det att].
      destruct (is_irreversible _ _ _ _ _).
      * intros H; inversion H; subst; simpl; auto.
      * destruct (reorganize p det att (add_index n s)) as [s2 ok] eqn:R.
        intros H; inversion H; subst.
        apply reorganize_frame in R. destruct R as (R1 & R2 & _). simpl in *. auto.
Qed.

Lemma maybe_accept_frame p b s s' r : maybe_accept p b s = (s', r) ->
  orphans s' = orphans s /\
  ((s' = s /\ r = None) \/
   (exists n, n_blk n = b /\ index s' = index s ++ [n]) /\ has_id (b_parent b) (index s) = true).
Proof.
  unfold maybe_accept. destruct (lookup (b_parent b) (index s)) as [pn|] eqn:L.
  - destruct (negb (b_height b =? n_height pn + 1)).
    + intros H; inversion H; subst; auto.
    + intros H. apply cbc_frame in H. destruct H as [H1 [H2|H2]]; split; auto.
      right. split. eexists; split; [|exact H2]; reflexivity.
      apply lookup_some in L. apply has_id_true. exists pn. tauto.
  - intros H; inversion H; subst; auto.
Qed.

(* ------------------------------------------------------------------ *)
(* orphan pool facts *)

Lemma remove_orphan_in id os o : In o (remove_orphan id os) -> In o os.
Proof.
  induction os as [|a os IH]; simpl; auto.
  destruct (N.eqb (b_id a) id); simpl; intuition.
Qed.

Lemma remove_orphan_nodup id os : NoDup (map b_id os) -> NoDup (map b_id (remove_orphan id os)).
Proof.
  induction os as [|a os IH]; simpl; auto.
  intros ND. inversion ND; subst.
  destruct (N.eqb (b_id a) id); simpl; auto.
  constructor; auto. intros Hin. apply H1.
  apply in_map_iff in Hin. destruct Hin as [x [E Hx]]. apply remove_orphan_in in Hx.
  apply in_map_iff. eauto.
Qed.

Lemma remove_orphan_neq id os o : NoDup (map b_id os) -> In o (remove_orphan id os) -> b_id o <> id.
Proof.
  induction os as [|a os IH]; simpl; [tauto|].
  intros ND. inversion ND; subst.
  destruct (N.eqb (b_id a) id) eqn:E; simpl.
  - apply N.eqb_eq in E. intros Hin Eo. apply H1. rewrite E, <- Eo. apply in_map. exact Hin.
  - intros [->|Hin]; auto. apply N.eqb_neq in E. exact E.
Qed.

Lemma is_orphan_false s id : is_orphan s id = false <-> forall o, In o (orphans s) -> b_id o <> id.
Proof.
  unfold is_orphan. split.
  - intros H o Ho E. assert (existsb (fun b => N.eqb (b_id b) id) (orphans s) = true).
    { apply existsb_exists. exists o. split; auto. apply N.eqb_eq; auto. }
    congruence.
  - intros H. destruct (existsb _ _) eqn:E; auto. apply existsb_exists in E.
    destruct E as [o [H1 H2]]. apply N.eqb_eq in H2. exfalso. eapply H; eauto.
Qed.

Lemma nodup_bid_same os a b : NoDup (map b_id os) -> In a os -> In b os -> b_id a = b_id b -> a = b.
Proof.
  induction os as [|x os IH]; simpl; [tauto|].
  intros ND. inversion ND; subst. intros [->|Ha] [->|Hb] E; auto.
  - exfalso. apply H1. rewrite E. apply in_map. exact Hb.
  - exfalso. apply H1. rewrite <- E. apply in_map. exact Ha.
Qed.

(* ------------------------------------------------------------------ *)
(* structural invariant: no id is indexed twice; an orphan that is also
   indexed (left behind by a failed reorganisation) has its parent indexed *)

Definition Kinv (s : state) : Prop :=
  forall o, In o (orphans s) -> has_id (b_id o) (index s) = true ->
            has_id (b_parent o) (index s) = true.

Record SInv (s : state) : Prop := mkSInv {
  s_on : NoDup (map b_id (orphans s));
  s_k : Kinv s;
  s_in : NoDup (map n_id (index s))
}.

Lemma SInv_init : SInv init.
Proof.
  split; simpl.
  - constructor.
  - intros o [].
  - constructor; [simpl; tauto|constructor].
Qed.

Lemma SInv_accept p s b s' r :
  SInv s -> has_id (b_id b) (index s) = false ->
  (In b (orphans s) \/ is_orphan s (b_id b) = false) ->
  maybe_accept p b s = (s', r) -> SInv s'.
Proof.
  intros [ON K IN] Hfresh Hb MA. apply maybe_accept_frame in MA.
  destruct MA as [EO [[-> _]|[[n [En EI]] Hp]]]; [split; auto|].
  split.
  - rewrite EO. exact ON.
  - intros o Ho Hidx. rewrite EO in Ho. rewrite EI in *. rewrite has_id_app in *.
    apply orb_true_iff in Hidx. destruct Hidx as [Hidx|Hidx].
    + rewrite (K o Ho Hidx). reflexivity.
    + simpl in Hidx. rewrite orb_false_r in Hidx. apply N.eqb_eq in Hidx.
      unfold n_id in Hidx. rewrite En in Hidx.
      destruct Hb as [Hb|Hb].
      * assert (o = b) by (eapply nodup_bid_same; eauto). subst o. rewrite Hp. reflexivity.
      * exfalso. rewrite is_orphan_false in Hb. apply (Hb o Ho). auto.
  - rewrite EI, map_app. simpl. apply NoDup_app_snoc; auto.
    intros Hin. apply in_map_iff in Hin. destruct Hin as [m [E Hm]].
    rewrite has_id_false in Hfresh. apply (Hfresh m Hm). rewrite E. unfold n_id. rewrite En. reflexivity.
Qed.

(* ------------------------------------------------------------------ *)
(* schema: an invariant of maybe_accept (on fresh blocks) that ignores the
   orphan pool is an invariant of process_block *)

Section Schema.
  Variable p : params.
  Variable I : state -> Prop.
  Hypothesis I_core : forall s s', same_core s s' -> I s -> I s'.
  Variable Pb : block -> Prop.
  Hypothesis I_accept : forall s b, SInv s -> I s -> Pb b -> has_id (b_id b) (index s) = false ->
    has_id (b_parent b) (index s) = true -> I (fst (maybe_accept p b s)).

  Definition OP (s : state) : Prop := forall o, In o (orphans s) -> Pb o.

  Definition Linv (q : list N) (s : state) : Prop :=
    forall h o, In h q -> In o (orphans s) -> b_parent o = h -> has_id (b_id o) (index s) = false.

  Lemma drop_core id s : same_core s (drop_orphan id s).
  Proof. unfold same_core; simpl; auto. Qed.

  Lemma SInv_drop id s : SInv s -> SInv (drop_orphan id s).
  Proof.
    intros [ON K IN]. split; simpl; auto.
    - apply remove_orphan_nodup; auto.
    - intros o Ho. simpl in *. apply K. eapply remove_orphan_in; eauto.
  Qed.

  Lemma process_orphans_pres fuel : forall q s,
    SInv s -> I s -> OP s -> Linv q s -> (forall h, In h q -> has_id h (index s) = true) ->
    SInv (fst (process_orphans p fuel q s)) /\ I (fst (process_orphans p fuel q s)) /\
    OP (fst (process_orphans p fuel q s)).
  Proof.
    induction fuel as [|f IH]; simpl; intros q s HS HI HOP HL HQ; auto.
    destruct q as [|h q]; simpl; auto.
    destruct (find (fun o => N.eqb (b_parent o) h) (orphans s)) as [o|] eqn:F.
    - apply find_some in F. destruct F as [Ho Ep]. apply N.eqb_eq in Ep.
      assert (Hfresh : has_id (b_id o) (index s) = false) by (eapply HL; eauto; simpl; auto).
      assert (Hpar : has_id (b_parent o) (index s) = true) by (rewrite Ep; apply HQ; simpl; auto).
      pose proof (I_accept s o HS HI (HOP o Ho) Hfresh Hpar) as HI1.
      destruct (maybe_accept p o s) as [s1 r] eqn:MA. simpl in HI1.
      assert (HS1 : SInv s1) by (eapply SInv_accept; eauto).
      assert (HOP1 : OP s1).
      { intros o' Ho'. apply maybe_accept_frame in MA. destruct MA as [EO _]. rewrite EO in Ho'. auto. }
      destruct r as [inm|]; simpl; auto.
      pose proof (maybe_accept_frame _ _ _ _ _ MA) as [EO [[_ C]|[[n [En EI]] _]]]; [discriminate|].
      apply IH.
      + apply SInv_drop; auto.
      + eapply I_core; [apply drop_core|]; auto.
      + intros o' Ho'. simpl in Ho'. apply remove_orphan_in in Ho'. auto.
      + intros h' o' Hh' Ho' Ep'. simpl in *.
        destruct HS as [ON K IN].
        rewrite EO in Ho'.
        pose proof (remove_orphan_neq _ _ _ ON Ho') as Hne.
        apply remove_orphan_in in Ho'.
        rewrite EI, has_id_app. simpl. rewrite orb_false_r.
        assert (N.eqb (n_id n) (b_id o') = false) as ->.
        { apply N.eqb_neq. unfold n_id. rewrite En. auto. }
        rewrite orb_false_r.
        assert (Hin : h' = h \/ In h' q \/ h' = b_id o).
        { destruct Hh' as [->|Hh']; auto. apply in_app_iff in Hh'. destruct Hh' as [Hh'|[<-|[]]]; auto. }
        destruct Hin as [->|[Hq| ->]].
        * eapply HL; eauto; simpl; auto.
        * eapply HL; eauto; simpl; auto.
        * destruct (has_id (b_id o') (index s)) eqn:E; auto.
          apply K in E; auto. rewrite Ep' in E. congruence.
      + intros h' Hh'. simpl. rewrite EI, has_id_app.
        destruct Hh' as [->|Hh'].
        * rewrite HQ; simpl; auto.
        * apply in_app_iff in Hh'. destruct Hh' as [Hh'|[<-|[]]].
          -- rewrite HQ; simpl; auto.
          -- simpl. unfold n_id. rewrite En, N.eqb_refl. rewrite orb_true_r. reflexivity.
    - apply IH; auto.
      + intros h' o' Hh'. apply HL. simpl; auto.
      + intros h' Hh'. apply HQ. simpl; auto.
  Qed.

  Lemma add_orphan_core b s : same_core s (add_orphan p b s).
  Proof. unfold same_core; simpl; auto. Qed.

  Lemma SInv_add_orphan b s :
    SInv s -> is_orphan s (b_id b) = false -> block_exists s (b_id b) = false ->
    SInv (add_orphan p b s).
  Proof.
    intros [ON K IN] HO HE.
    assert (Hsub : forall o, In o (if Nat.ltb (p_cap p) (length (orphans s) + 1) then tl (orphans s) else orphans s) -> In o (orphans s)).
    { destruct (Nat.ltb _ _); auto. destruct (orphans s); simpl; auto. }
    split; simpl; auto.
    - rewrite map_app. simpl. apply NoDup_app_snoc.
      + destruct (Nat.ltb _ _); auto. destruct (orphans s); simpl in *; auto. inversion ON; auto.
      + intros Hin. apply in_map_iff in Hin. destruct Hin as [o [E Ho]].
        rewrite is_orphan_false in HO. apply (HO o); auto.
    - intros o Ho Hidx. simpl in *. apply in_app_iff in Ho. destruct Ho as [Ho|[<-|[]]].
      + apply K; auto.
      + unfold block_exists in HE. congruence.
  Qed.

  Lemma process_block_pres s b :
    (sane_ok b = true -> Pb b) ->
    SInv s -> I s -> OP s ->
    SInv (fst (process_block p s b)) /\ I (fst (process_block p s b)) /\ OP (fst (process_block p s b)).
  Proof.
    intros Pb_sane HS HI HOP. unfold process_block.
    destruct (block_exists s (b_id b)) eqn:HE; [simpl; auto|].
    destruct (is_orphan s (b_id b)) eqn:HO; [simpl; auto|].
    destruct (sane_ok b) eqn:HSane; cbv [negb]; [|simpl; auto].
    pose proof (Pb_sane eq_refl) as HPb. clear HSane. rename HPb into HSane.
    destruct (block_exists s (b_parent b)) eqn:HP; cbv [negb].
    2:{ simpl. split; [|split]. apply SInv_add_orphan; auto. eapply I_core; [apply add_orphan_core|]; auto.
        intros o Ho. simpl in Ho. apply in_app_iff in Ho. destruct Ho as [Ho|[<-|[]]]; auto.
        apply HOP. destruct (Nat.ltb _ _); auto. destruct (orphans s); simpl in *; auto. }
    unfold block_exists in *.
    pose proof (I_accept s b HS HI HSane HE HP) as HI1.
    destruct (maybe_accept p b s) as [s1 r] eqn:MA. simpl in HI1.
    assert (HS1 : SInv s1) by (eapply SInv_accept; eauto).
    assert (HOP1 : OP s1).
    { intros o' Ho'. apply maybe_accept_frame in MA. destruct MA as [EO _]. rewrite EO in Ho'. auto. }
    destruct r as [inm|]; [|simpl; auto].
    pose proof (maybe_accept_frame _ _ _ _ _ MA) as [EO [[_ C]|[[n [En EI]] _]]]; [discriminate|].
    generalize (2 * length (orphans s1) + 2)%nat. intros fuel.
    pose proof (process_orphans_pres fuel [b_id b] s1 HS1 HI1 HOP1) as PO.
    destruct (process_orphans p fuel [b_id b] s1) as [s2 ok].
    simpl in PO.
    assert (SInv s2 /\ I s2 /\ OP s2) as R.
    { apply PO.
      - intros h o [<-|[]] Ho Ep. rewrite EO in Ho. rewrite EI, has_id_app. simpl. rewrite orb_false_r.
        assert (N.eqb (n_id n) (b_id o) = false) as ->.
        { apply N.eqb_neq. unfold n_id. rewrite En. rewrite is_orphan_false in HO. intro E. apply (HO o Ho). auto. }
        rewrite orb_false_r. destruct (has_id (b_id o) (index s)) eqn:E; auto.
        destruct HS as [ON K IN]. apply K in E; auto. congruence.
      - intros h [<-|[]]. rewrite EI, has_id_app. simpl. unfold n_id. rewrite En, N.eqb_refl.
        rewrite orb_true_r. reflexivity. }
    destruct ok; simpl; exact R.
  Qed.

  Lemma run_pres bs : Forall (fun b => sane_ok b = true -> Pb b) bs ->
    forall s, SInv s -> I s -> OP s ->
    SInv (run p s bs) /\ I (run p s bs) /\ OP (run p s bs).
  Proof.
    induction 1 as [|b bs Hb Hbs IH]; simpl; intros s HS HI HOP; auto.
    destruct (process_block_pres s b Hb HS HI HOP) as (A & B & C). apply IH; auto.
  Qed.
End Schema.
