(* Per-key characterisation of UtxoIndex.ConnectBlock / DisconnectBlock as
   modelled in model/Ledger.v: projected on one (address, height) key the
   block is a sequence of atomic actions (append an entry / swap-and-pop one /
   reset the key), and the effect of such a sequence on a list whose entries
   have distinct outpoints is described as a set. *)
From Coq Require Import List ZArith NArith Bool Lia Permutation.
From ELA Require Import model.Ledger proof.Ledger_base proof.Ledger_unspent.
Import ListNotations.
Local Open Scope N_scope.

(* ---------------------------------------------------------------- assoc lists keyed by (address, height) *)
Lemma akey_eqb_eq a b : akey_eqb a b = true <-> a = b.
Proof.
  unfold akey_eqb. destruct a as [a1 a2], b as [b1 b2]. simpl. rewrite andb_true_iff, !N.eqb_eq.
  split; [intros [-> ->]; reflexivity|intros E; inversion E; auto].
Qed.
Lemma akey_eqb_refl a : akey_eqb a a = true.
Proof. now apply akey_eqb_eq. Qed.
Lemma akey_eqb_sym a b : akey_eqb a b = akey_eqb b a.
Proof.
  destruct (akey_eqb a b) eqn:E1, (akey_eqb b a) eqn:E2; auto.
  - apply akey_eqb_eq in E1. subst. now rewrite akey_eqb_refl in E2.
  - apply akey_eqb_eq in E2. subst. now rewrite akey_eqb_refl in E1.
Qed.

Lemma alookup_aset2 {A} (l : list (akey * A)) k v k' :
  alookup akey_eqb (aset akey_eqb l k v) k' = if akey_eqb k k' then Some v else alookup akey_eqb l k'.
Proof.
  induction l as [|[a x] r IH]; simpl.
  - reflexivity.
  - destruct (akey_eqb a k) eqn:Eak; simpl.
    + apply akey_eqb_eq in Eak. subst a. destruct (akey_eqb k k'); reflexivity.
    + destruct (akey_eqb a k') eqn:Eak'.
      * apply akey_eqb_eq in Eak'. subst a. now rewrite akey_eqb_sym, Eak.
      * apply IH.
Qed.

Lemma aget_aset db l k v k' :
  aget db (aset akey_eqb l k v) k' = if akey_eqb k k' then v else aget db l k'.
Proof. unfold aget. rewrite alookup_aset2. destruct (akey_eqb k k'); reflexivity. Qed.

Lemma aset_keys_nodup2 {A} (l : list (akey * A)) k v : NoDup (map fst l) -> NoDup (map fst (aset akey_eqb l k v)).
Proof.
  induction l as [|[a x] r IH]; simpl; intros H.
  - constructor; [intros []|constructor].
  - inversion H as [|? ? Hn Hr]; subst. destruct (akey_eqb a k) eqn:Eak; simpl.
    + constructor; assumption.
    + constructor; [|apply IH; assumption].
      intros Hin. apply Hn. clear -Hin Eak.
      induction r as [|[b y] r IH]; simpl in *.
      * destruct Hin as [->|[]]. now rewrite akey_eqb_refl in Eak.
      * destruct (akey_eqb b k) eqn:Eb; simpl in *; [exact Hin|].
        destruct Hin as [->|Hin]; [now left|right; apply IH; exact Hin].
Qed.

Lemma awriteback_spec loc : forall db, NoDup (map fst loc) -> forall a h, awriteback db loc a h = aget db loc (a, h).
Proof.
  unfold awriteback. induction loc as [|[k v] r IH]; intros db Hnd a h; simpl; [reflexivity|].
  inversion Hnd as [|? ? Hn Hr]; subst. rewrite IH by assumption. unfold aget. simpl.
  destruct (akey_eqb k (a, h)) eqn:E.
  - apply akey_eqb_eq in E. subst k.
    destruct (alookup akey_eqb r (a, h)) eqn:El.
    + exfalso. apply Hn. clear -El. induction r as [|[b y] r IH]; simpl in *; [discriminate|].
      destruct (akey_eqb b (a, h)) eqn:Eb; [apply akey_eqb_eq in Eb; left; now subst|right; auto].
    + unfold upd2. simpl. now rewrite !N.eqb_refl.
  - destruct (alookup akey_eqb r (a, h)); [reflexivity|]. unfold upd2.
    destruct ((a =? fst k) && (h =? snd k)) eqn:E2; [|reflexivity].
    exfalso. apply andb_true_iff in E2. destruct E2 as [E3 E4]. apply N.eqb_eq in E3, E4.
    destruct k as [k1 k2]. simpl in *. subst. now rewrite akey_eqb_refl in E.
Qed.

(* ---------------------------------------------------------------- atomic actions on one key *)
Inductive act := AAdd (u : utxo) | ADel (t i : N) | AReset.

Definition apply_act (l : list utxo) (a : act) : list utxo :=
  match a with AAdd u => l ++ [u] | ADel t i => swap_pop_u l t i | AReset => [] end.
Definition apply_acts (acts : list act) (l : list utxo) : list utxo := fold_left apply_act acts l.

Lemma apply_acts_app a b l : apply_acts (a ++ b) l = apply_acts b (apply_acts a l).
Proof. unfold apply_acts. apply fold_left_app. Qed.

Definition ukey (u : utxo) : N * N := (u_tx u, u_idx u).
Definition udistinct (l : list utxo) : Prop := NoDup (map ukey l).

Lemma utxo_is_spec t i u : utxo_is t i u = true <-> ukey u = (t, i).
Proof.
  unfold utxo_is, ukey. rewrite andb_true_iff, !N.eqb_eq. split; [intros [-> ->]; reflexivity|intros E; inversion E; auto].
Qed.

Lemma swap_pop_u_spec l t i : udistinct l ->
  udistinct (swap_pop_u l t i) /\ forall u, In u (swap_pop_u l t i) <-> In u l /\ ukey u <> (t, i).
Proof.
  unfold udistinct. induction l as [|a r IH]; simpl; intros Hnd.
  - split; [constructor|]. intros u; tauto.
  - inversion Hnd as [|? ? Hn Hr]; subst.
    destruct (utxo_is t i a) eqn:Ea.
    + apply utxo_is_spec in Ea. destruct r as [|b r'].
      * split; [constructor|]. intros u; simpl. split; [tauto|]. intros [[->|[]] Hne]; congruence.
      * assert (Hp : Permutation (last (b :: r') a :: removelast (b :: r')) (b :: r'))
          by (apply last_removelast_perm; discriminate).
        split.
        -- eapply Permutation_NoDup; [apply Permutation_map; symmetry; exact Hp|exact Hr].
        -- intros u. split.
           ++ intros Hin. assert (Hx : In u (b :: r')) by (eapply Permutation_in; [exact Hp|exact Hin]).
              split; [now right|]. intros E. apply Hn. rewrite Ea, <- E. now apply in_map.
           ++ intros [[->|Hin] Hne]; [congruence|].
              eapply Permutation_in; [symmetry; exact Hp|exact Hin].
    + destruct (IH Hr) as [IH1 IH2]. split.
      * simpl. constructor; [|exact IH1]. intros Hin. apply in_map_iff in Hin. destruct Hin as [u [E Hu]].
        apply IH2 in Hu. apply Hn. rewrite <- E. apply in_map. tauto.
      * intros u. simpl. rewrite IH2. split.
        -- intros [->|[H1 H2]]; [split; [now left|]|split; [now right|assumption]].
           intros E. apply utxo_is_spec in E. congruence.
        -- intros [[->|H1] H2]; [now left|right; tauto].
Qed.

Definition adds (acts : list act) : list utxo := flat_map (fun a => match a with AAdd u => [u] | _ => [] end) acts.
Definition dels (acts : list act) : list (N * N) := flat_map (fun a => match a with ADel t i => [(t, i)] | _ => [] end) acts.
Definition no_reset (acts : list act) : Prop := forall a, In a acts -> a <> AReset.

(* a sequence of adds and deletes: the added entries are new and pairwise
   distinct, and no delete targets an added entry *)
Lemma apply_acts_spec acts : forall l,
  no_reset acts -> udistinct l ->
  NoDup (map ukey (adds acts)) ->
  (forall u, In u (adds acts) -> ~ In (ukey u) (map ukey l)) ->
  (forall u, In u (adds acts) -> ~ In (ukey u) (dels acts)) ->
  udistinct (apply_acts acts l) /\
  forall u, In u (apply_acts acts l) <-> (In u l /\ ~ In (ukey u) (dels acts)) \/ In u (adds acts).
Proof.
  induction acts as [|a r IH]; intros l Hnr Hl Hadd Hfresh Hself; simpl.
  - split; [exact Hl|]. intros u; tauto.
  - assert (Hnr' : no_reset r) by (intros x Hx; apply Hnr; now right).
    destruct a as [v|t i|]; simpl in *.
    + (* add *)
      inversion Hadd as [|? ? Hn Hr]; subst.
      assert (Hl' : udistinct (l ++ [v])).
      { unfold udistinct. rewrite map_app. simpl. apply NoDup_snoc; [exact Hl|]. apply Hfresh. now left. }
      destruct (IH (l ++ [v]) Hnr' Hl' Hr) as [I1 I2].
      * intros u Hu Hin. rewrite map_app, in_app_iff in Hin. destruct Hin as [Hin|[E|[]]].
        -- apply (Hfresh u); [now right|exact Hin].
        -- apply Hn. rewrite E. now apply in_map.
      * intros u Hu. apply Hself. now right.
      * split; [exact I1|]. intros u. rewrite I2, in_app_iff. simpl. split.
        -- intros [[[H1|[<-|[]]] H2]|H3]; auto.
        -- intros [[H1 H2]|[E|H3]]; [left; split; [now left|exact H2]| |now right].
           subst u. left. split; [right; now left|]. apply Hself. now left.
    + (* delete *)
      destruct (swap_pop_u_spec l t i Hl) as [S1 S2].
      destruct (IH (swap_pop_u l t i) Hnr' S1 Hadd) as [I1 I2].
      * intros u Hu Hin. apply in_map_iff in Hin. destruct Hin as [w [E Hw]]. apply S2 in Hw.
        apply (Hfresh u Hu). rewrite <- E. apply in_map. tauto.
      * intros u Hu Hin. apply (Hself u Hu). now right.
      * split; [exact I1|]. intros u. rewrite I2, S2. split.
        -- intros [[[H1 H2] H3]|H4]; [left; split; [exact H1|]|now right]. intros [E|E]; [congruence|contradiction].
        -- intros [[H1 H2]|H4]; [left|now right]. split; [split; [exact H1|]|]; intro; apply H2; [left; congruence|now right].
    + exfalso. apply (Hnr AReset); [now left|reflexivity].
Qed.

(* ---------------------------------------------------------------- the model, projected on one key *)
Fixpoint out_acts (K : akey) (tid bh i : N) (outs : list output) : list act :=
  match outs with
  | [] => []
  | o :: r => (if (o_val o =? 0)%Z then [] else if akey_eqb (o_addr o, bh) K then [AAdd (mkU tid i (o_val o))] else [])
              ++ out_acts K tid bh (i + 1) r
  end.
Definition in_act (K : akey) (fetch : N -> option (N * tx)) (op : outpoint) : list act :=
  match fetch (fst op) with
  | Some (rh, rt) => match nth_error (t_outs rt) (N.to_nat (snd op)) with
                     | Some ro => if akey_eqb (o_addr ro, rh) K then [ADel (fst op) (snd op)] else []
                     | None => [] end
  | None => []
  end.
Definition tx_acts K fetch bh (t : tx) : list act :=
  out_acts K (t_id t) bh 0 (t_outs t) ++ (if t_cb t then [] else flat_map (in_act K fetch) (t_ins t)).
Definition block_acts K fetch bh (txs : list tx) : list act := flat_map (tx_acts K fetch bh) txs.

Lemma connect_outs_proj db K tid h outs : forall loc i,
  aget db (utxo_connect_outs db loc tid h i outs) K = apply_acts (out_acts K tid h i outs) (aget db loc K).
Proof.
  induction outs as [|o r IH]; intros loc i; simpl; [reflexivity|].
  rewrite IH, apply_acts_app. f_equal.
  destruct (o_val o =? 0)%Z; [reflexivity|]. rewrite aget_aset.
  destruct (akey_eqb (o_addr o, h) K) eqn:E; [|reflexivity].
  apply akey_eqb_eq in E. subst K. reflexivity.
Qed.

Lemma connect_outs_keys db tid h outs : forall loc i, NoDup (map fst loc) -> NoDup (map fst (utxo_connect_outs db loc tid h i outs)).
Proof.
  induction outs as [|o r IH]; intros loc i H; simpl; [exact H|]. apply IH.
  destruct (o_val o =? 0)%Z; [exact H|]. now apply aset_keys_nodup2.
Qed.

Definition cin_step fetch db := fun (r : res alocal) (op : outpoint) => bind r (fun l =>
        match fetch (fst op) with
        | None => Err
        | Some (rh, rt) =>
            match nth_error (t_outs rt) (N.to_nat (snd op)) with
            | None => Panic
            | Some ro => Ok (aset akey_eqb l (o_addr ro, rh) (swap_pop_u (aget db l (o_addr ro, rh)) (fst op) (snd op)))
            end
        end).

Lemma fold_err {T} (f : res alocal -> T -> res alocal) (Hf : forall x, f Err x = Err) xs : fold_left f xs Err = Err.
Proof. induction xs; simpl; [reflexivity|]. now rewrite Hf. Qed.
Lemma fold_panic {T} (f : res alocal -> T -> res alocal) (Hf : forall x, f Panic x = Panic) xs : fold_left f xs Panic = Panic.
Proof. induction xs; simpl; [reflexivity|]. now rewrite Hf. Qed.

Lemma connect_ins_proj fetch db K ins : forall loc loc',
  fold_left (cin_step fetch db) ins (Ok loc) = Ok loc' -> NoDup (map fst loc) ->
  NoDup (map fst loc') /\ aget db loc' K = apply_acts (flat_map (in_act K fetch) ins) (aget db loc K).
Proof.
  induction ins as [|op r IH]; intros loc loc' H Hnd; simpl in H.
  - inversion H; subst. split; [exact Hnd|reflexivity].
  - destruct (fetch (fst op)) as [[rh rt]|] eqn:Ef.
    2:{ rewrite fold_err in H by reflexivity. discriminate. }
    destruct (nth_error (t_outs rt) (N.to_nat (snd op))) as [ro|] eqn:En.
    2:{ rewrite fold_panic in H by reflexivity. discriminate. }
    assert (Ei : in_act K fetch op = if akey_eqb (o_addr ro, rh) K then [ADel (fst op) (snd op)] else [])
      by (unfold in_act; now rewrite Ef, En).
    destruct (IH _ _ H) as [I1 I2]; [now apply aset_keys_nodup2|]. split; [exact I1|].
    cbn [flat_map]. rewrite I2, apply_acts_app, Ei. f_equal. rewrite aget_aset.
    destruct (akey_eqb (o_addr ro, rh) K) eqn:E; [|reflexivity]. apply akey_eqb_eq in E. subst K. reflexivity.
Qed.

Lemma connect_tx_step fetch db h loc t :
  utxo_connect_tx fetch db h (Ok loc) t =
  if t_cb t then Ok (utxo_connect_outs db loc (t_id t) h 0 (t_outs t))
  else fold_left (cin_step fetch db) (t_ins t) (Ok (utxo_connect_outs db loc (t_id t) h 0 (t_outs t))).
Proof. reflexivity. Qed.

Lemma connect_txs_proj fetch db h K txs : forall loc loc',
  fold_left (utxo_connect_tx fetch db h) txs (Ok loc) = Ok loc' -> NoDup (map fst loc) ->
  NoDup (map fst loc') /\ aget db loc' K = apply_acts (block_acts K fetch h txs) (aget db loc K).
Proof.
  induction txs as [|t r IH]; intros loc loc' H Hnd.
  - simpl in H. inversion H; subst. split; [exact Hnd|reflexivity].
  - cbn [fold_left] in H. rewrite connect_tx_step in H.
    pose proof (connect_outs_keys db (t_id t) h (t_outs t) loc 0 Hnd) as Hk1.
    unfold block_acts. simpl. rewrite apply_acts_app. fold (block_acts K fetch h r). unfold tx_acts.
    destruct (t_cb t).
    + destruct (IH _ _ H Hk1) as [I1 I2]. split; [exact I1|]. rewrite I2, app_nil_r, connect_outs_proj. reflexivity.
    + destruct (fold_left (cin_step fetch db) (t_ins t) (Ok (utxo_connect_outs db loc (t_id t) h 0 (t_outs t)))) as [loc1| |] eqn:E.
      2:{ rewrite fold_err in H by reflexivity. discriminate. }
      2:{ rewrite fold_panic in H by reflexivity. discriminate. }
      destruct (connect_ins_proj fetch db K _ _ _ E Hk1) as [J1 J2].
      destruct (IH _ _ H J1) as [I1 I2]. split; [exact I1|].
      rewrite I2, J2, connect_outs_proj, apply_acts_app. reflexivity.
Qed.

Theorem utxo_connect_key fetch db b db' a h :
  utxo_connect fetch db b = Ok db' ->
  db' a h = apply_acts (block_acts (a, h) fetch (b_height b) (b_txs b)) (db a h).
Proof.
  unfold utxo_connect. intros H.
  destruct (fold_left (utxo_connect_tx fetch db (b_height b)) (b_txs b) (Ok [])) as [loc| |] eqn:E; simpl in H; try discriminate.
  inversion H; subst. destruct (connect_txs_proj fetch db (b_height b) (a, h) _ _ _ E) as [I1 I2]; [constructor|].
  rewrite awriteback_spec by exact I1. exact I2.
Qed.

(* ---- disconnect *)
Definition dout_acts (K : akey) (bh : N) (outs : list output) : list act :=
  flat_map (fun o => if akey_eqb (o_addr o, bh) K then [AReset] else []) outs.
Definition din_act (K : akey) (fetch : N -> option (N * tx)) (op : outpoint) : list act :=
  match fetch (fst op) with
  | Some (rh, rt) => match nth_error (t_outs rt) (N.to_nat (snd op)) with
                     | Some ro => if (o_val ro =? 0)%Z then [] else
                                  if akey_eqb (o_addr ro, rh) K then [AAdd (mkU (fst op) (snd op) (o_val ro))] else []
                     | None => [] end
  | None => []
  end.
Definition dtx_acts K fetch bh (t : tx) : list act :=
  dout_acts K bh (t_outs t) ++ (if t_cb t then [] else flat_map (din_act K fetch) (t_ins t)).
Definition dblock_acts K fetch bh (txs : list tx) : list act := flat_map (dtx_acts K fetch bh) txs.

Lemma reset_outs_proj db K h outs : forall loc,
  aget db (fold_left (fun l o => aset akey_eqb l (o_addr o, h) []) outs loc) K = apply_acts (dout_acts K h outs) (aget db loc K)
  /\ (NoDup (map fst loc) -> NoDup (map fst (fold_left (fun l o => aset akey_eqb l (o_addr o, h) []) outs loc))).
Proof.
  induction outs as [|o r IH]; intros loc; simpl; [split; auto|].
  destruct (IH (aset akey_eqb loc (o_addr o, h) [])) as [I1 I2]. split.
  - rewrite I1. unfold dout_acts. simpl. rewrite apply_acts_app. f_equal. rewrite aget_aset.
    destruct (akey_eqb (o_addr o, h) K); reflexivity.
  - intros H. apply I2. now apply aset_keys_nodup2.
Qed.

Definition din_step fetch db := fun (r : res alocal) (op : outpoint) => bind r (fun l =>
        match fetch (fst op) with
        | None => Err
        | Some (rh, rt) =>
            match nth_error (t_outs rt) (N.to_nat (snd op)) with
            | None => Panic
            | Some ro => if (o_val ro =? 0)%Z then Ok l
                         else Ok (aset akey_eqb l (o_addr ro, rh)
                                    (aget db l (o_addr ro, rh) ++ [mkU (fst op) (snd op) (o_val ro)]))
            end
        end).

Lemma disconnect_ins_proj fetch db K ins : forall loc loc',
  fold_left (din_step fetch db) ins (Ok loc) = Ok loc' -> NoDup (map fst loc) ->
  NoDup (map fst loc') /\ aget db loc' K = apply_acts (flat_map (din_act K fetch) ins) (aget db loc K).
Proof.
  induction ins as [|op r IH]; intros loc loc' H Hnd; simpl in H.
  - inversion H; subst. split; [exact Hnd|reflexivity].
  - destruct (fetch (fst op)) as [[rh rt]|] eqn:Ef.
    2:{ rewrite fold_err in H by reflexivity. discriminate. }
    destruct (nth_error (t_outs rt) (N.to_nat (snd op))) as [ro|] eqn:En.
    2:{ rewrite fold_panic in H by reflexivity. discriminate. }
    assert (Ei : din_act K fetch op = if (o_val ro =? 0)%Z then [] else
               if akey_eqb (o_addr ro, rh) K then [AAdd (mkU (fst op) (snd op) (o_val ro))] else [])
      by (unfold din_act; now rewrite Ef, En).
    cbn [flat_map]. rewrite apply_acts_app, Ei.
    destruct (o_val ro =? 0)%Z eqn:Ez.
    + destruct (IH _ _ H Hnd) as [I1 I2]. split; [exact I1|]. rewrite I2. reflexivity.
    + destruct (IH _ _ H) as [I1 I2]; [now apply aset_keys_nodup2|]. split; [exact I1|].
      rewrite I2. f_equal. rewrite aget_aset.
      destruct (akey_eqb (o_addr ro, rh) K) eqn:E; [|reflexivity]. apply akey_eqb_eq in E. subst K. reflexivity.
Qed.

Lemma disconnect_tx_step fetch db h loc t :
  utxo_disconnect_tx fetch db h (Ok loc) t =
  if t_cb t then Ok (fold_left (fun l o => aset akey_eqb l (o_addr o, h) []) (t_outs t) loc)
  else fold_left (din_step fetch db) (t_ins t) (Ok (fold_left (fun l o => aset akey_eqb l (o_addr o, h) []) (t_outs t) loc)).
Proof. reflexivity. Qed.

Lemma disconnect_txs_proj fetch db h K txs : forall loc loc',
  fold_left (utxo_disconnect_tx fetch db h) txs (Ok loc) = Ok loc' -> NoDup (map fst loc) ->
  NoDup (map fst loc') /\ aget db loc' K = apply_acts (dblock_acts K fetch h txs) (aget db loc K).
Proof.
  induction txs as [|t r IH]; intros loc loc' H Hnd.
  - simpl in H. inversion H; subst. split; [exact Hnd|reflexivity].
  - cbn [fold_left] in H. rewrite disconnect_tx_step in H.
    destruct (reset_outs_proj db K h (t_outs t) loc) as [R1 R2]. specialize (R2 Hnd).
    unfold dblock_acts. simpl. rewrite apply_acts_app. fold (dblock_acts K fetch h r). unfold dtx_acts.
    destruct (t_cb t).
    + destruct (IH _ _ H R2) as [I1 I2]. split; [exact I1|]. rewrite I2, app_nil_r, R1. reflexivity.
    + destruct (fold_left (din_step fetch db) (t_ins t) (Ok (fold_left (fun l o => aset akey_eqb l (o_addr o, h) []) (t_outs t) loc))) as [loc1| |] eqn:E.
      2:{ rewrite fold_err in H by reflexivity. discriminate. }
      2:{ rewrite fold_panic in H by reflexivity. discriminate. }
      destruct (disconnect_ins_proj fetch db K _ _ _ E R2) as [J1 J2].
      destruct (IH _ _ H J1) as [I1 I2]. split; [exact I1|].
      rewrite I2, J2, R1, apply_acts_app. reflexivity.
Qed.

Theorem utxo_disconnect_key fetch db b db' a h :
  utxo_disconnect fetch db b = Ok db' ->
  db' a h = apply_acts (dblock_acts (a, h) fetch (b_height b) (b_txs b)) (db a h).
Proof.
  unfold utxo_disconnect. intros H.
  destruct (fold_left (utxo_disconnect_tx fetch db (b_height b)) (b_txs b) (Ok [])) as [loc| |] eqn:E; simpl in H; try discriminate.
  inversion H; subst. destruct (disconnect_txs_proj fetch db (b_height b) (a, h) _ _ _ E) as [I1 I2]; [constructor|].
  rewrite awriteback_spec by exact I1. exact I2.
Qed.
