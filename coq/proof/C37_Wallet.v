(* C37 proofs: amount codec and address codec round-trips, and the glue
   between the programs the wallet builds and the node's check (C05 model). *)
From Coq Require Import ZArith Bool List Lia.
From ELA Require Import model.C05_Sig model.C37_Wallet proof.C05_Sig.
Import ListNotations.
Local Open Scope Z_scope.

(* ================================================================ generic digit lemmas *)

Definition le_val (base : Z) (l : list Z) : Z := fold_right (fun d acc => d + base * acc) 0 l.

Lemma len_app : forall (A : Type) (a b : list A), len (a ++ b) = len a + len b.
Proof. intros. unfold len. rewrite app_length. lia. Qed.

Lemma len_cons : forall (A : Type) (x : A) l, len (x :: l) = 1 + len l.
Proof. intros. unfold len. simpl length. lia. Qed.

Lemma len_nonneg : forall (A : Type) (l : list A), 0 <= len l.
Proof. intros. unfold len. lia. Qed.

Lemma len_repeat : forall (x : Z) n, len (repeat x n) = Z.of_nat n.
Proof. intros. unfold len. rewrite repeat_length. reflexivity. Qed.

Lemma gtb_false : forall a b, a <= b -> (a >? b) = false.
Proof. intros. rewrite Z.gtb_ltb. apply Z.ltb_ge. lia. Qed.
Lemma geb_false : forall a b, a < b -> (a >=? b) = false.
Proof. intros. rewrite Z.geb_leb. apply Z.leb_gt. lia. Qed.

(* ================================================================ amount codec *)

Definition digits (l : bytes) : Prop := Forall (fun c => 48 <= c <= 57) l.

Lemma digits_forallb : forall l, digits l -> forallb is_digit l = true.
Proof.
  induction 1; simpl; [reflexivity|]. rewrite IHForall. unfold is_digit.
  replace (48 <=? x) with true by (symmetry; apply Z.leb_le; lia).
  replace (x <=? 57) with true by (symmetry; apply Z.leb_le; lia). reflexivity.
Qed.

Lemma digits_app : forall a b, digits a -> digits b -> digits (a ++ b).
Proof. intros. apply Forall_app. split; assumption. Qed.

Lemma digits_repeat : forall n, digits (repeat 48 n).
Proof. induction n; simpl; constructor; [lia|assumption]. Qed.

Lemma digits_rev : forall l, digits l -> digits (rev l).
Proof. intros. apply Forall_rev. assumption. Qed.

Lemma dec_rev_digits : forall fuel n, 0 <= n -> digits (dec_rev fuel n).
Proof.
  induction fuel as [|f IH]; intros n Hn; cbn [dec_rev]; [constructor|].
  constructor. { assert (0 <= n mod 10 < 10) by (apply Z.mod_pos_bound; lia). lia. }
  destruct (n / 10 =? 0); [constructor|]. apply IH. apply Z.div_pos; lia.
Qed.

Definition val_rev (l : bytes) : Z := fold_right (fun c acc => acc * 10 + (c - 48)) 0 l.

Lemma dec_value_rev : forall l, dec_value (rev l) = val_rev l.
Proof.
  intro l. unfold dec_value, val_rev.
  rewrite <- (rev_involutive l) at 2. rewrite fold_left_rev_right. reflexivity.
Qed.

Lemma dec_rev_val : forall fuel n, 0 <= n < 10 ^ Z.of_nat fuel -> val_rev (dec_rev fuel n) = n.
Proof.
  induction fuel as [|f IH]; intros n Hn.
  - simpl in Hn. assert (n = 0) by lia. subst. reflexivity.
  - cbn [dec_rev]. cbn [val_rev fold_right]. fold (val_rev (if n / 10 =? 0 then [] else dec_rev f (n / 10))).
    destruct (n / 10 =? 0) eqn:E.
    + apply Z.eqb_eq in E. cbn [val_rev fold_right]. pose proof (Z.div_mod n 10). lia.
    + rewrite IH.
      * pose proof (Z.div_mod n 10). lia.
      * rewrite Nat2Z.inj_succ, Z.pow_succ_r in Hn by lia. split; [apply Z.div_pos; lia|].
        apply Z.div_lt_upper_bound; lia.
Qed.

Lemma dec_rev_length : forall fuel k n, (1 <= k)%nat -> 0 <= n < 10 ^ Z.of_nat k ->
  (1 <= length (dec_rev (S fuel) n) <= k)%nat.
Proof.
  induction fuel as [|f IH]; intros k n Hk Hn.
  - simpl. destruct (n / 10 =? 0); simpl; lia.
  - change (dec_rev (S (S f)) n) with ((48 + n mod 10) :: (if n / 10 =? 0 then [] else dec_rev (S f) (n / 10))).
    destruct (n / 10 =? 0) eqn:E; [simpl; lia|]. apply Z.eqb_neq in E.
    destruct k as [|[|k]]; [lia| |].
    + simpl in Hn. assert (n / 10 = 0) by (apply Z.div_small; lia). contradiction.
    + assert (H10 : 0 <= n / 10 < 10 ^ Z.of_nat (S k)).
      { rewrite (Nat2Z.inj_succ (S k)), Z.pow_succ_r in Hn by lia. split; [apply Z.div_pos; lia|].
        apply Z.div_lt_upper_bound; lia. }
      specialize (IH (S k) (n / 10) ltac:(lia) H10). cbn [length]. lia.
Qed.

Lemma format_uint_digits : forall n, 0 <= n -> digits (format_uint n).
Proof. intros. apply digits_rev, dec_rev_digits. assumption. Qed.

Lemma format_uint_value : forall n, 0 <= n < 10 ^ 20 -> dec_value (format_uint n) = n.
Proof. intros. unfold format_uint. rewrite dec_value_rev. apply dec_rev_val. exact H. Qed.

Lemma format_uint_length : forall k n, (1 <= k)%nat -> 0 <= n < 10 ^ Z.of_nat k ->
  (1 <= length (format_uint n) <= k)%nat.
Proof. intros. unfold format_uint. rewrite rev_length. apply dec_rev_length; assumption. Qed.

Lemma fold_dec_acc : forall l acc,
  fold_left (fun a c => a * 10 + (c - 48)) l acc = acc * 10 ^ len l + dec_value l.
Proof.
  unfold dec_value. induction l as [|c l IH]; intro acc; cbn [fold_left].
  - unfold len. simpl. lia.
  - rewrite IH, (IH (0 * 10 + (c - 48))). rewrite len_cons, Z.pow_add_r by (try lia; apply len_nonneg). lia.
Qed.

Lemma dec_value_app : forall a b, dec_value (a ++ b) = dec_value a * 10 ^ len b + dec_value b.
Proof. intros. unfold dec_value at 1. rewrite fold_left_app. apply fold_dec_acc. Qed.

Lemma dec_value_zeros : forall n, dec_value (repeat 48 n) = 0.
Proof.
  induction n; [reflexivity|]. change (repeat 48 (S n)) with ([48] ++ repeat 48 n).
  rewrite dec_value_app, IHn. reflexivity.
Qed.

(* strings.Index *)
Definition no_dot (l : bytes) : Prop := Forall (fun c => c <> 46) l.

Lemma digits_no_dot : forall l, digits l -> no_dot l.
Proof. intros l H. eapply Forall_impl; [|exact H]. simpl. intros. lia. Qed.

Lemma index_dot_none : forall l i, no_dot l -> index_dot l i = -1.
Proof.
  induction l as [|c l IH]; intros i H; simpl; [reflexivity|]. inversion H; subst.
  destruct (c =? 46) eqn:E; [apply Z.eqb_eq in E; contradiction|]. apply IH. assumption.
Qed.

Lemma index_dot_at : forall a b i, no_dot a -> index_dot (a ++ 46 :: b) i = i + len a.
Proof.
  induction a as [|c a IH]; intros b i H; simpl.
  - unfold len. simpl. lia.
  - inversion H; subst. destruct (c =? 46) eqn:E; [apply Z.eqb_eq in E; contradiction|].
    rewrite IH by assumption. rewrite len_cons. lia.
Qed.

Lemma stf_nodot : forall s, no_dot s -> string_to_fixed64 true s = parse_int (s ++ repeat 48 8).
Proof. intros s H. unfold string_to_fixed64. rewrite index_dot_none by assumption. reflexivity. Qed.

Lemma stf_dot : forall pre post, no_dot pre -> len post = 8 ->
  string_to_fixed64 true (pre ++ 46 :: post) = parse_int (pre ++ post).
Proof.
  intros pre post H Hl. unfold string_to_fixed64. rewrite index_dot_at by assumption.
  rewrite len_app, len_cons, Hl. pose proof (len_nonneg _ pre).
  replace (0 + len pre =? -1) with false by (symmetry; apply Z.eqb_neq; lia).
  replace (len pre + (1 + 8) - (0 + len pre) >? 9) with false by (symmetry; apply gtb_false; lia).
  simpl andb. cbv iota.
  replace (Z.to_nat (0 + len pre)) with (length pre) by (unfold len; lia).
  replace (Z.to_nat (0 + len pre + 1)) with (length pre + 1)%nat by (unfold len; lia).
  replace (Z.to_nat (8 - (len pre + (1 + 8) - (0 + len pre) - 1))) with 0%nat by lia.
  rewrite firstn_app, firstn_all, Nat.sub_diag. simpl firstn.
  rewrite skipn_app, skipn_all2 by lia. replace (length pre + 1 - length pre)%nat with 1%nat by lia.
  simpl. rewrite !app_nil_r. reflexivity.
Qed.

Lemma parse_uint_digits : forall d, digits d -> d <> [] -> dec_value d < 2 ^ 64 ->
  parse_uint d = Some (dec_value d).
Proof.
  intros d Hd Hne Hv. unfold parse_uint. destruct d as [|c d]; [contradiction|].
  rewrite (digits_forallb _ Hd). replace (dec_value (c :: d) <? 2 ^ 64) with true by (symmetry; apply Z.ltb_lt; exact Hv).
  reflexivity.
Qed.

Lemma parse_int_pos : forall d, digits d -> d <> [] -> dec_value d < 2 ^ 63 -> parse_int d = Some (dec_value d).
Proof.
  intros d Hd Hne Hv. destruct d as [|c d]; [contradiction|]. unfold parse_int.
  inversion Hd; subst.
  replace (c =? 45) with false by (symmetry; apply Z.eqb_neq; lia).
  replace (c =? 43) with false by (symmetry; apply Z.eqb_neq; lia). simpl orb. cbv iota.
  rewrite parse_uint_digits by (auto; try discriminate; lia).
  replace (dec_value (c :: d) >=? 2 ^ 63) with false by (symmetry; apply geb_false; lia).
  reflexivity.
Qed.

Lemma parse_int_neg : forall d, digits d -> d <> [] -> dec_value d <= 2 ^ 63 -> parse_int (45 :: d) = Some (- dec_value d).
Proof.
  intros d Hd Hne Hv. unfold parse_int. rewrite Z.eqb_refl. simpl orb. cbv iota.
  rewrite parse_uint_digits by (auto; lia).
  replace (dec_value d >? 2 ^ 63) with false by (symmetry; apply gtb_false; lia).
  reflexivity.
Qed.

Lemma app_not_nil_l : forall (A : Type) (a b : list A), a <> [] -> a ++ b <> [].
Proof. intros A [|x a] b H; [contradiction|discriminate]. Qed.

Lemma length_pos_not_nil : forall (A : Type) (l : list A), (1 <= length l)%nat -> l <> [].
Proof. intros A [|x l] H; [simpl in H; lia|discriminate]. Qed.

(* magnitude v printed as Q [. zero-padded R] parses back to v (unsigned part) *)
Lemma magnitude_roundtrip : forall v, 0 <= v <= 2 ^ 63 ->
  let q := v / 100000000 in let r := v mod 100000000 in
  let body := format_uint q ++ (if r >? 0 then 46 :: repeat 48 (8 - length (format_uint r)) ++ format_uint r else []) in
  exists d, digits d /\ d <> [] /\ dec_value d = v /\
    (forall sign, no_dot sign -> string_to_fixed64 true (sign ++ body) = parse_int (sign ++ d)).
Proof.
  intros v Hv q r body.
  assert (Hq : 0 <= q < 10 ^ 20).
  { unfold q. split; [apply Z.div_pos; lia|]. apply Z.div_lt_upper_bound; [lia|].
    change (2 ^ 63) with 9223372036854775808 in Hv. change (10 ^ 20) with 100000000000000000000. lia. }
  assert (Hr : 0 <= r < 10 ^ Z.of_nat 8) by (unfold r; change (10 ^ Z.of_nat 8) with 100000000; apply Z.mod_pos_bound; lia).
  assert (HQd := format_uint_digits q (proj1 Hq)).
  assert (HQl := format_uint_length 20 q ltac:(lia) Hq).
  assert (HQv := format_uint_value q Hq).
  assert (Hvqr : v = q * 100000000 + r) by (unfold q, r; pose proof (Z.div_mod v 100000000); lia).
  unfold body. destruct (r >? 0) eqn:Er.
  - assert (HRd := format_uint_digits r (proj1 Hr)).
    assert (HRl := format_uint_length 8 r ltac:(lia) Hr).
    assert (HRv : dec_value (format_uint r) = r).
    { apply format_uint_value. change (10 ^ Z.of_nat 8) with 100000000 in Hr. change (10 ^ 20) with 100000000000000000000. lia. }
    set (R := format_uint r) in *. set (Q := format_uint q) in *.
    set (Zs := repeat 48 (8 - length R)).
    exists (Q ++ Zs ++ R). split; [|split; [|split]].
    + apply digits_app; [assumption|]. apply digits_app; [apply digits_repeat|assumption].
    + apply app_not_nil_l, length_pos_not_nil. lia.
    + rewrite !dec_value_app. unfold Zs. rewrite dec_value_zeros, HQv, HRv.
      rewrite len_app, len_repeat. unfold len.
      replace (Z.of_nat (8 - length R) + Z.of_nat (length R)) with 8 by lia.
      change (10 ^ 8) with 100000000. lia.
    + intros sign Hs. rewrite app_assoc, stf_dot.
      * rewrite <- app_assoc. reflexivity.
      * apply Forall_app. split; [assumption|]. apply digits_no_dot. assumption.
      * rewrite len_app. unfold Zs. rewrite len_repeat. unfold len. lia.
  - rewrite Z.gtb_ltb in Er. apply Z.ltb_ge in Er. assert (r = 0) by lia.
    set (Q := format_uint q) in *.
    exists (Q ++ repeat 48 8). split; [|split; [|split]].
    + apply digits_app; [assumption|apply digits_repeat].
    + apply app_not_nil_l, length_pos_not_nil. lia.
    + rewrite dec_value_app, dec_value_zeros, HQv, len_repeat. change (10 ^ Z.of_nat 8) with 100000000. lia.
    + intros sign Hs. rewrite app_nil_r, stf_nodot.
      * rewrite <- app_assoc. reflexivity.
      * apply Forall_app. split; [assumption|]. apply digits_no_dot. assumption.
Qed.

Theorem fixed64_roundtrip : forall f, - 2 ^ 63 <= f < 2 ^ 63 ->
  string_to_fixed64 true (fixed64_string f) = Some f.
Proof.
  intros f Hf. unfold fixed64_string. destruct (f <? 0) eqn:Eneg.
  - apply Z.ltb_lt in Eneg.
    assert (Hm : (- f) mod 2 ^ 64 = - f).
    { apply Z.mod_small. change (2 ^ 63) with 9223372036854775808 in Hf. change (2 ^ 64) with 18446744073709551616. lia. }
    rewrite Hm.
    destruct (magnitude_roundtrip (- f) ltac:(lia)) as [d [Hd [Hne [Hv Hs]]]].
    specialize (Hs [45]). cbv zeta in Hs. rewrite Hs by (constructor; [lia|constructor]).
    simpl app. rewrite parse_int_neg by (auto; lia). rewrite Hv. f_equal. lia.
  - apply Z.ltb_ge in Eneg.
    destruct (magnitude_roundtrip f ltac:(lia)) as [d [Hd [Hne [Hv Hs]]]].
    specialize (Hs []). cbv zeta in Hs. rewrite Hs by constructor.
    simpl app. rewrite parse_int_pos by (auto; lia). rewrite Hv. reflexivity.
Qed.

(* before the repair: whole amounts of nine or more characters do not parse back *)
Lemma fixed64_roundtrip_refuted_before_fix :
  string_to_fixed64 false (fixed64_string 10000000000000000) = None /\
  string_to_fixed64 false (fixed64_string (-1000000000000000)) = None.
Proof. split; vm_compute; reflexivity. Qed.

(* ================================================================ address codec *)

Definition in_range (base : Z) (l : list Z) : Prop := Forall (fun d => 0 <= d < base) l.

Lemma le_digits_range : forall base fuel n, 1 < base -> 0 <= n -> in_range base (le_digits base fuel n).
Proof.
  induction fuel as [|f IH]; intros n Hb Hn; cbn [le_digits]; [constructor|].
  destruct (n =? 0); [constructor|]. constructor.
  - apply Z.mod_pos_bound. lia.
  - apply IH; [assumption|]. apply Z.div_pos; lia.
Qed.

Lemma le_digits_val : forall base fuel n, 1 < base -> 0 <= n < base ^ Z.of_nat fuel ->
  le_val base (le_digits base fuel n) = n.
Proof.
  induction fuel as [|f IH]; intros n Hb Hn.
  - simpl in Hn. assert (n = 0) by lia. subst. reflexivity.
  - cbn [le_digits]. destruct (n =? 0) eqn:E.
    + apply Z.eqb_eq in E. subst. reflexivity.
    + cbn [le_val fold_right]. fold (le_val base (le_digits base f (n / base))). rewrite IH.
      * pose proof (Z.div_mod n base). lia.
      * assumption.
      * rewrite Nat2Z.inj_succ, Z.pow_succ_r in Hn by lia. split; [apply Z.div_pos; lia|].
        apply Z.div_lt_upper_bound; lia.
Qed.

Lemma le_digits_length : forall base k fuel n, 1 < base -> (k <= fuel)%nat -> (1 <= k)%nat ->
  base ^ Z.of_nat (k - 1) <= n < base ^ Z.of_nat k -> length (le_digits base fuel n) = k.
Proof.
  induction k as [|k IH]; intros fuel n Hb Hf Hk Hn; [lia|].
  destruct fuel as [|f]; [lia|]. cbn [le_digits].
  replace (S k - 1)%nat with k in Hn by lia.
  assert (Hpos : 0 < base ^ Z.of_nat k) by (apply Z.pow_pos_nonneg; lia).
  destruct (n =? 0) eqn:E; [apply Z.eqb_eq in E; lia|]. cbn [length]. f_equal.
  rewrite Nat2Z.inj_succ, Z.pow_succ_r in Hn by lia.
  destruct k as [|k].
  - simpl in Hn. assert (n / base = 0) by (apply Z.div_small; lia). rewrite H.
    destruct f; reflexivity.
  - apply IH; try lia.
    replace (S k - 1)%nat with k by lia. rewrite Nat2Z.inj_succ, Z.pow_succ_r in Hn |- * by lia.
    split; [apply Z.div_le_lower_bound; lia | apply Z.div_lt_upper_bound; lia].
Qed.

(* base-58 characters *)
Lemma b58_digit_alpha : forall d, 0 <= d < 58 -> b58_digit (alpha d) = Some d.
Proof.
  intros d Hd.
  assert (H : forallb (fun i => match b58_digit (alpha i) with Some j => j =? i | None => false end)
                      (map Z.of_nat (seq 0 58)) = true) by (vm_compute; reflexivity).
  rewrite forallb_forall in H. specialize (H d).
  assert (Hin : In d (map Z.of_nat (seq 0 58))).
  { apply in_map_iff. exists (Z.to_nat d). split; [lia|]. apply in_seq. lia. }
  specialize (H Hin). destruct (b58_digit (alpha d)) as [j|]; [|discriminate].
  apply Z.eqb_eq in H. subst. reflexivity.
Qed.

Lemma b58_value_digits : forall ds, in_range 58 ds ->
  b58_value (map alpha (rev ds)) = Some (le_val 58 ds).
Proof.
  unfold b58_value. induction ds as [|d ds IH]; intro H; [reflexivity|].
  inversion H; subst. cbn [rev]. rewrite map_app, fold_left_app, IH by assumption.
  cbn [map fold_left]. rewrite b58_digit_alpha by assumption. cbn [le_val fold_right].
  f_equal. fold (le_val 58 ds). lia.
Qed.

(* big-endian bytes *)
Lemma be_value_le_val : forall l, be_value l = le_val 256 (rev l).
Proof.
  intro l. unfold be_value, le_val. rewrite fold_left_rev_right.
  assert (G : forall l a, fold_left (fun acc b => acc * 256 + b) l a = fold_left (fun x y => y + 256 * x) l a).
  { induction l0 as [|x l0 IH]; intro a; cbn [fold_left]; [reflexivity|]. rewrite IH. f_equal. lia. }
  apply G.
Qed.

Lemma le_val_nonneg : forall l, in_range 256 l -> 0 <= le_val 256 l.
Proof.
  induction 1; cbn [le_val fold_right]; [lia|]. fold (le_val 256 l). lia.
Qed.

Lemma le_val_pos : forall l, in_range 256 l -> l <> [] -> last l 0 <> 0 -> 0 < le_val 256 l.
Proof.
  induction 1 as [|x l Hx Hl IH]; intros Hne Hlast; [contradiction|].
  cbn [le_val fold_right]. fold (le_val 256 l). destruct l as [|y l].
  - simpl in Hlast. cbn [le_val fold_right]. lia.
  - assert (0 < le_val 256 (y :: l)) by (apply IH; [discriminate|exact Hlast]). lia.
Qed.

Lemma le_val_bound : forall l, in_range 256 l -> le_val 256 l < 256 ^ len l.
Proof.
  induction 1 as [|x l Hx Hl IH]; [unfold len; simpl; lia|].
  cbn [le_val fold_right]. fold (le_val 256 l). rewrite len_cons, Z.pow_add_r by (try lia; apply len_nonneg).
  change (256 ^ 1) with 256. lia.
Qed.

Lemma le_digits_le_val : forall l fuel, in_range 256 l -> (l = [] \/ last l 0 <> 0) -> (length l <= fuel)%nat ->
  le_digits 256 fuel (le_val 256 l) = l.
Proof.
  induction l as [|b r IH]; intros fuel Hr Hlast Hf.
  - destruct fuel; reflexivity.
  - destruct fuel as [|f]; [simpl in Hf; lia|]. inversion Hr; subst.
    destruct Hlast as [Hnil|Hlast]; [discriminate|].
    assert (Hv : le_val 256 (b :: r) = b + 256 * le_val 256 r) by reflexivity.
    assert (Hpos : 0 < le_val 256 (b :: r)) by (apply le_val_pos; [assumption|discriminate|assumption]).
    cbn [le_digits]. destruct (le_val 256 (b :: r) =? 0) eqn:E; [apply Z.eqb_eq in E; lia|].
    rewrite Hv. pose proof (le_val_nonneg r H2).
    set (v := le_val 256 r) in *.
    assert (X : (b + 256 * v) mod 256 = b /\ (b + 256 * v) / 256 = v) by (Z.div_mod_to_equations; lia).
    destruct X as [X1 X2]. rewrite X1, X2. unfold v.
    f_equal. apply IH; [assumption| |simpl in Hf; lia].
    destruct r as [|y r]; [left; reflexivity|right; exact Hlast].
Qed.

Lemma be_bytes_be_value : forall l, in_range 256 l -> hd 0 l <> 0 -> (length l <= 64)%nat ->
  be_bytes (be_value l) = l.
Proof.
  intros l Hr Hh Hl. unfold be_bytes. rewrite be_value_le_val, le_digits_le_val.
  - apply rev_involutive.
  - apply Forall_rev. assumption.
  - destruct l as [|x l]; [left; reflexivity|right]. cbn [rev]. rewrite last_last. exact Hh.
  - rewrite rev_length. assumption.
Qed.

Lemma le_val_snoc : forall p t, le_val 256 (t ++ [p]) = le_val 256 t + 256 ^ len t * p.
Proof.
  intros p. induction t as [|x t IH].
  - cbn [app le_val fold_right]. unfold len. cbn [length]. change (Z.of_nat 0) with 0. rewrite Z.pow_0_r. lia.
  - cbn [app le_val fold_right]. fold (le_val 256 (t ++ [p])). fold (le_val 256 t).
    rewrite IH, len_cons, Z.pow_add_r by (try lia; apply len_nonneg). change (256 ^ 1) with 256. lia.
Qed.

Section AddressProofs.
  Variable hash : bytes -> bytes.

  Lemma cks4_length : forall u, length (cks4 hash u) = 4%nat.
  Proof.
    intro u. unfold cks4. rewrite map_length, firstn_length, app_length. apply Nat.min_l. simpl length. lia.
  Qed.

  Lemma cks4_range : forall u, in_range 256 (cks4 hash u).
  Proof.
    intro u. unfold cks4. apply Forall_forall. intros x Hx. apply in_map_iff in Hx as [y [<- _]].
    apply Z.mod_pos_bound. lia.
  Qed.

  (* ToAddress then Uint168FromAddress is the identity on every 21-byte
     program hash whose prefix byte is in 3..143 (all issued prefixes:
     0x12, 0x1f, 0x21, 0x3f, 0x4b, 0x67), for every checksum function. *)
  Theorem address_roundtrip : forall guarded u,
    length u = 21%nat -> in_range 256 u -> 3 <= hd 0 u <= 143 ->
    from_address hash guarded (to_address hash u) = AOk u.
  Proof.
    intros guarded u Hlen Hr Hp.
    set (data := u ++ cks4 hash u).
    assert (Hdl : length data = 25%nat) by (unfold data; rewrite app_length, cks4_length; lia).
    assert (Hdr : in_range 256 data) by (apply Forall_app; split; [assumption|apply cks4_range]).
    assert (Hdh : hd 0 data = hd 0 u) by (unfold data; destruct u; [discriminate|reflexivity]).
    set (n := be_value data).
    (* bounds on n *)
    assert (Hn : 58 ^ 33 <= n < 58 ^ 34).
    { unfold n. rewrite be_value_le_val.
      destruct u as [|p rest]; [discriminate|]. simpl in Hp.
      unfold data. cbn [app rev]. set (tail := rev (rest ++ cks4 hash (p :: rest))).
      assert (Htl : length tail = 24%nat).
      { unfold tail. rewrite rev_length, app_length, cks4_length. simpl in Hlen. lia. }
      assert (Htr : in_range 256 tail).
      { unfold tail. apply Forall_rev. inversion Hdr; subst. assumption. }
      assert (Hv : le_val 256 (tail ++ [p]) = le_val 256 tail + 256 ^ 24 * p).
      { rewrite le_val_snoc. unfold len. rewrite Htl. reflexivity. }
      rewrite Hv. pose proof (le_val_nonneg tail Htr). pose proof (le_val_bound tail Htr) as Hb.
      unfold len in Hb. rewrite Htl in Hb. change (Z.of_nat 24) with 24 in Hb.
      assert (E1 : 58 ^ 33 <= 256 ^ 24 * 3) by (apply Z.leb_le; vm_compute; reflexivity).
      assert (E2 : 256 ^ 24 * 144 <= 58 ^ 34) by (apply Z.leb_le; vm_compute; reflexivity).
      assert (E3 : 0 < 256 ^ 24) by (apply Z.ltb_lt; vm_compute; reflexivity).
      set (P := 256 ^ 24) in *. set (A := 58 ^ 33) in *. set (B := 58 ^ 34) in *.
      clearbody P A B. nia. }
    assert (Hn0 : n <> 0).
    { assert (0 < 58 ^ 33) by (apply Z.ltb_lt; vm_compute; reflexivity). lia. }
    (* the address string *)
    set (ds := le_digits 58 64 n).
    assert (Haddr : to_address hash u = map alpha (rev ds)).
    { unfold to_address, b58_encode. fold data. fold n.
      destruct (n =? 0) eqn:E; [apply Z.eqb_eq in E; contradiction|reflexivity]. }
    assert (Hn64 : 0 <= n < 58 ^ Z.of_nat 64).
    { assert (58 ^ 34 <= 58 ^ Z.of_nat 64) by (apply Z.leb_le; vm_compute; reflexivity).
      assert (0 <= 58 ^ 33) by (apply Z.leb_le; vm_compute; reflexivity). lia. }
    assert (Hdsl : length ds = 34%nat).
    { unfold ds. apply le_digits_length; try lia. exact Hn. }
    assert (Hdsr : in_range 58 ds) by (apply le_digits_range; lia).
    assert (Hval : b58_value (map alpha (rev ds)) = Some n).
    { rewrite b58_value_digits by assumption. f_equal. apply le_digits_val; [lia|exact Hn64]. }
    rewrite Haddr. unfold from_address.
    replace (len (map alpha (rev ds))) with 34 by (unfold len; rewrite map_length, rev_length, Hdsl; reflexivity).
    cbn [Z.eqb negb Pos.eqb]. rewrite Hval.
    assert (Hbe : be_bytes n = data).
    { apply be_bytes_be_value; [assumption| |lia]. rewrite Hdh. lia. }
    rewrite Hbe. replace (len data) with 25 by (unfold len; rewrite Hdl; reflexivity).
    cbn [Z.ltb Z.compare Pos.compare Pos.compare_cont].
    replace (firstn 21 data) with u.
    2:{ unfold data. rewrite <- Hlen, firstn_app, firstn_all, Nat.sub_diag. simpl. rewrite app_nil_r. reflexivity. }
    rewrite Haddr, beq_refl. reflexivity.
  Qed.

  (* whatever Uint168FromAddress accepts is the address of what it returns *)
  Theorem address_parse_canonical : forall guarded s u,
    from_address hash guarded s = AOk u -> to_address hash u = s /\ length u = 21%nat.
  Proof.
    intros guarded s u. unfold from_address.
    destruct (negb (len s =? 34)); [discriminate|].
    destruct (b58_value s) as [n|]; [|discriminate].
    destruct (len (be_bytes n) <? 21) eqn:E; [destruct guarded; discriminate|].
    assert (Hl : length (firstn 21 (be_bytes n)) = 21%nat).
    { apply Z.ltb_ge in E. unfold len in E. rewrite firstn_length. lia. }
    remember (firstn 21 (be_bytes n)) as ph.
    destruct (beq (to_address hash ph) s) eqn:Hb; [|discriminate].
    intro H. injection H as Hu. subst u. apply beq_eq in Hb. split; assumption.
  Qed.
End AddressProofs.

(* before the repair a 34-character string decoding to a short number made
   x.Bytes()[0:21] panic *)
Lemma from_address_panic_before_fix : forall hash,
  from_address hash false (repeat 49 34) = APanic /\ from_address hash true (repeat 49 34) = AErr.
Proof. intro hash. split; vm_compute; reflexivity. Qed.

(* ================================================================ wallet programs pass the node's check *)

Section Glue.
  Variable codehash : bytes -> bytes.
  Variable point_ok : bytes -> bool.
  Variable verify_ecdsa : bytes -> bytes -> bytes -> bool.
  Variable verify_schnorr : bytes -> bytes -> bytes -> bool.
  Variable keyhash : bytes -> bytes.
  Variable sign_ecdsa : bytes -> bytes -> bytes.

  Notation run_programs := (run_programs codehash point_ok verify_ecdsa verify_schnorr keyhash).
  Notation check_one := (check_one codehash point_ok verify_ecdsa verify_schnorr keyhash).

  Lemma std_code_shape : forall key, length key = 33%nat ->
    is_standard (std_code key) = true /\ is_schnorr (std_code key) = false /\
    firstn (length (std_code key) - 2) (tl (std_code key)) = key /\ len (std_code key) = 35.
  Proof.
    intros key Hl. unfold is_standard, is_schnorr, std_code, byte_at, len.
    cbn [length tl nth]. rewrite app_length, Hl. cbn [length Nat.add Z.of_nat].
    repeat split.
    - change (nth 34 (33 :: key ++ [172]) 0) with (nth 33 (key ++ [172]) 0).
      rewrite app_nth2 by lia. rewrite Hl. reflexivity.
    - change (35 - 2)%nat with (33 + 0)%nat. rewrite <- Hl. rewrite firstn_app_2. simpl. apply app_nil_r.
  Qed.

  (* SignStandardTransaction: if the signature the wallet obtained verifies
     under the account's key (and that key decodes), the program it builds
     is accepted for the account's Standard or Deposit address. *)
  Theorem wallet_standard_accepted : forall key data prefix,
    length key = 33%nat -> prefix = 33 \/ prefix = 31 ->
    point_ok key = true -> len (sign_ecdsa key data) = 64 ->
    verify_ecdsa key data (sign_ecdsa key data) = true ->
    run_programs true data [prefix :: codehash (std_code key)] [sign_standard sign_ecdsa key data] = true.
  Proof.
    intros key data prefix Hl Hp Hok Hsl Hv.
    destruct (std_code_shape key Hl) as [Hst [Hsc [Hkey Hlen]]].
    unfold C05_Sig.run_programs, sign_standard. cbn [length Nat.eqb andb run_loop].
    unfold C05_Sig.check_one. cbn [prefix_of byte_at nth tl].
    replace (prefix =? 75) with false by (destruct Hp; subst; reflexivity).
    rewrite beq_refl. cbn [negb].
    replace ((prefix =? 33) || (prefix =? 31)) with true by (destruct Hp; subst; reflexivity).
    rewrite Hsc, Hst. unfold check_standard. rewrite len_cons, Hsl. cbn [Z.add Z.eqb Pos.add Pos.eqb Pos.succ negb].
    rewrite Hlen. cbn [Z.ltb Z.compare Pos.compare Pos.compare_cont]. rewrite Hkey, Hok. cbn [negb tl].
    rewrite Hv. reflexivity.
  Qed.

  Lemma schnorr_code_shape : forall key, length key = 33%nat ->
    is_schnorr (schnorr_code key) = true /\ skipn 2 (schnorr_code key) = key.
  Proof.
    intros key Hl. unfold is_schnorr, schnorr_code, byte_at, len. cbn [length nth skipn]. rewrite Hl.
    split; reflexivity.
  Qed.

  (* signSchnorrTx: a verifying aggregated signature is accepted for the
     aggregate key's address (Standard, Deposit or CrossChain prefix path). *)
  Theorem wallet_schnorr_accepted : forall aggkey aggsig data prefix,
    length aggkey = 33%nat -> prefix = 33 \/ prefix = 31 -> length aggsig = 64%nat ->
    verify_schnorr aggkey data aggsig = true ->
    run_programs true data [prefix :: codehash (schnorr_code aggkey)] [sign_schnorr aggkey aggsig] = true.
  Proof.
    intros k sg data prefix Hl Hp Hsl Hv.
    destruct (schnorr_code_shape k Hl) as [Hsc Hkey].
    unfold C05_Sig.run_programs, sign_schnorr. cbn [length Nat.eqb andb run_loop].
    unfold C05_Sig.check_one. cbn [prefix_of byte_at nth tl].
    replace (prefix =? 75) with false by (destruct Hp; subst; reflexivity).
    rewrite beq_refl. cbn [negb].
    replace ((prefix =? 33) || (prefix =? 31)) with true by (destruct Hp; subst; reflexivity).
    rewrite Hsc. unfold check_schnorr. unfold len. rewrite Hsl. cbn [Z.of_nat Pos.of_succ_nat Pos.succ Z.ltb Z.compare Pos.compare Pos.compare_cont].
    rewrite Hkey. rewrite <- Hsl, firstn_all. rewrite Hv. reflexivity.
  Qed.

  (* ... and with every verification failing for changed data, the same
     programs are rejected (instance of C05_no_valid_signature_rejected). *)
  Theorem wallet_signature_only_for_signed_data : forall data' hs ps h,
    (forall k s, verify_ecdsa k data' s = false) -> (forall k s, verify_schnorr k data' s = false) ->
    In h hs -> prefix_of h <> 75 -> run_programs true data' hs ps = false.
  Proof. intros. eapply no_valid_signature_rejected; eauto. Qed.
End Glue.

(* ================================================================ multisig programs *)

Lemma chunks_concat : forall (k : nat) (l : list bytes) fuel,
  (0 < k)%nat -> (forall x, In x l -> length x = k) -> (length l <= fuel)%nat ->
  chunks fuel k (concat l) = l.
Proof.
  intros k. induction l as [|x l IH]; intros fuel Hk Hall Hf.
  - destruct fuel; reflexivity.
  - destruct fuel as [|f]; [simpl in Hf; lia|].
    assert (Hx : length x = k) by (apply Hall; simpl; auto).
    cbn [concat chunks]. destruct (x ++ concat l) eqn:E.
    + destruct x; [simpl in Hx; lia|discriminate].
    + rewrite <- E. clear E. replace k with (length x + 0)%nat at 1 by lia. rewrite firstn_app_2.
      replace (skipn k (x ++ concat l)) with (concat l)
        by (rewrite <- Hx, skipn_app, skipn_all, Nat.sub_diag; reflexivity).
      simpl. rewrite app_nil_r. f_equal. apply IH; [assumption| |simpl in Hf; lia].
      intros y Hy. apply Hall. simpl. auto.
Qed.

Lemma concat_length_const : forall (k : nat) (l : list bytes),
  (forall x, In x l -> length x = k) -> length (concat l) = (k * length l)%nat.
Proof.
  induction l as [|x l IH]; intro H; [simpl; lia|]. cbn [concat length]. rewrite app_length.
  rewrite (H x) by (simpl; auto). rewrite IH by (intros y Hy; apply H; simpl; auto). lia.
Qed.

Section GlueMulti.
  Variable codehash : bytes -> bytes.
  Variable point_ok : bytes -> bool.
  Variable verify_ecdsa : bytes -> bytes -> bytes -> bool.
  Variable verify_schnorr : bytes -> bytes -> bytes -> bool.
  Variable keyhash : bytes -> bytes.
  Variable sign_ecdsa : bytes -> bytes -> bytes.

  Notation match_sig := (match_sig point_ok verify_ecdsa keyhash).
  Notation sig_loop := (sig_loop point_ok verify_ecdsa keyhash).

  Definition sig_entry (data k : bytes) : bytes := len (sign_ecdsa k data) :: sign_ecdsa k data.

  (* the signature of k is matched by k's own script entry, first *)
  Lemma match_sig_own : forall data k ks v,
    In k ks -> (forall a, In a ks -> point_ok a = true) ->
    verify_ecdsa k data (sign_ecdsa k data) = true ->
    (forall a, In a ks -> verify_ecdsa a data (sign_ecdsa k data) = true -> a = k) ->
    match_sig data (sign_ecdsa k data) (map key_entry ks) v =
      if mem (keyhash (key_entry k)) v then None else Some (keyhash (key_entry k) :: v).
  Proof.
    induction ks as [|a ks IH]; intros v Hin Hok Hv Hcross; [contradiction|].
    cbn [map C05_Sig.match_sig key_entry tl]. rewrite (Hok a) by (simpl; auto). cbn [negb].
    destruct (verify_ecdsa a data (sign_ecdsa k data)) eqn:Ea.
    - assert (a = k) by (apply Hcross; simpl; auto). subst. reflexivity.
    - destruct Hin as [->|Hin]; [rewrite Hv in Ea; discriminate|].
      apply IH; auto. + intros. apply Hok. simpl. auto. + intros. apply Hcross; simpl; auto.
  Qed.

  Lemma sig_loop_wallet : forall data keys signers v,
    NoDup signers -> incl signers keys ->
    (forall a, In a keys -> point_ok a = true) ->
    (forall k, In k signers -> verify_ecdsa k data (sign_ecdsa k data) = true) ->
    (forall a k, In a keys -> In k signers -> verify_ecdsa a data (sign_ecdsa k data) = true -> a = k) ->
    (forall k, In k signers -> ~ In (keyhash (key_entry k)) v) ->
    (forall k k', In k signers -> In k' signers -> keyhash (key_entry k) = keyhash (key_entry k') -> k = k') ->
    exists v', sig_loop data (map (sig_entry data) signers) (map key_entry keys) v = Some v' /\
               length v' = (length signers + length v)%nat.
  Proof.
    intros data keys. induction signers as [|k ss IH]; intros v Hnd Hincl Hok Hv Hcross Hfresh Hinj.
    - exists v. split; reflexivity.
    - cbn [map C05_Sig.sig_loop sig_entry tl].
      rewrite match_sig_own.
      + assert (Hm : mem (keyhash (key_entry k)) v = false) by (apply mem_false, Hfresh; simpl; auto).
        rewrite Hm. inversion Hnd; subst.
        destruct (IH (keyhash (key_entry k) :: v)) as [v' [Hl Hlen]]; auto.
        * intros x Hx. apply Hincl. simpl. auto.
        * intros. apply Hv. simpl. auto.
        * intros. apply (Hcross a k0); simpl; auto.
        * intros k0 Hk0 [Heq|Hin].
          -- assert (k = k0) by (apply Hinj; simpl; auto). subst. contradiction.
          -- apply (Hfresh k0); simpl; auto.
        * intros. apply Hinj; simpl; auto.
        * exists v'. split; [exact Hl|]. rewrite Hlen. simpl. lia.
      + apply Hincl. simpl. auto.
      + exact Hok.
      + apply Hv. simpl. auto.
      + intros. apply (Hcross a k); simpl; auto.
  Qed.

  Lemma verify_multisig_wallet : forall m keys signers data param,
    param = concat (map (sig_entry data) signers) ->
    (forall x, In x (map (sig_entry data) signers) -> length x = 65%nat) ->
    1 <= m -> m <= len signers -> (length signers <= length keys)%nat ->
    NoDup signers -> incl signers keys ->
    (forall a, In a keys -> point_ok a = true) ->
    (forall k, In k signers -> verify_ecdsa k data (sign_ecdsa k data) = true) ->
    (forall a k, In a keys -> In k signers -> verify_ecdsa a data (sign_ecdsa k data) = true -> a = k) ->
    (forall k k', In k signers -> In k' signers -> keyhash (key_entry k) = keyhash (key_entry k') -> k = k') ->
    verify_multisig point_ok verify_ecdsa keyhash m (len keys) (map key_entry keys) param data = true.
  Proof.
    intros m keys signers data param Hparam Hent Hm1 Hms Hsn Hnd Hincl Hok Hv Hcross Hinj.
    assert (Hpl : length param = (65 * length signers)%nat).
    { rewrite Hparam. rewrite (concat_length_const 65) by exact Hent. rewrite map_length. reflexivity. }
    assert (Hchunks : chunks (length param) 65 param = map (sig_entry data) signers).
    { rewrite Hpl. rewrite Hparam. apply chunks_concat; [lia|exact Hent|]. rewrite map_length.
      apply Nat.le_trans with (1 * length signers)%nat; [rewrite Nat.mul_1_l; apply le_n|].
      apply Nat.mul_le_mono_r. clear. lia. }
    assert (Hplz : len param = 65 * len signers) by (unfold len; rewrite Hpl; lia).
    clear Hparam. unfold C05_Sig.verify_multisig.
    replace (len (map key_entry keys)) with (len keys) by (unfold len; rewrite map_length; reflexivity).
    rewrite Z.eqb_refl. cbn [negb]. rewrite Hplz.
    replace (65 * len signers mod 65 =? 0) with true by (symmetry; apply Z.eqb_eq; rewrite Z.mul_comm; apply Z.mod_mul; lia).
    cbn [negb].
    replace (65 * len signers / 65) with (len signers) by (symmetry; rewrite Z.mul_comm; apply Z.div_mul; lia).
    replace (len signers <? m) with false by (symmetry; apply Z.ltb_ge; lia).
    replace (len signers >? len keys) with false by (symmetry; apply gtb_false; unfold len; lia).
    rewrite Hchunks.
    destruct (sig_loop_wallet data keys signers [] Hnd Hincl Hok Hv Hcross) as [v' [Hl Hlen]].
    - intros k _ [].
    - exact Hinj.
    - rewrite Hl. apply negb_true_iff. apply Z.ltb_ge. unfold len in *. rewrite Hlen. simpl. lia.
  Qed.

  Lemma code_parse_generic : forall a b (entries : list bytes),
    (forall x, In x entries -> length x = 34%nat) -> (2 <= length entries)%nat ->
    parse_keys 174 (a :: concat entries ++ [b; 174]) = Some entries /\
    nthz (a :: concat entries ++ [b; 174]) 0 = Some a /\
    nthz (a :: concat entries ++ [b; 174]) (len (a :: concat entries ++ [b; 174]) - 2) = Some b.
  Proof.
    intros a b entries Hent Hn.
    set (body := concat entries).
    assert (Hbl : length body = (34 * length entries)%nat) by (apply concat_length_const; exact Hent).
    assert (Hlen : length (a :: body ++ [b; 174]) = (length body + 3)%nat).
    { cbn [length]. rewrite app_length. simpl. lia. }
    split; [|split].
    - unfold parse_keys. unfold len. rewrite Hlen.
      replace (Z.of_nat (length body + 3) <? 71) with false by (symmetry; apply Z.ltb_ge; lia).
      unfold byte_at. replace (length body + 3 - 1)%nat with (S (length body + 1)) by lia.
      cbn [nth]. rewrite app_nth2 by lia. replace (length body + 1 - length body)%nat with 1%nat by lia.
      cbn [nth Z.eqb Pos.eqb negb orb].
      cbn [tl]. replace (length body + 3 - 3)%nat with (length body + 0)%nat by lia.
      rewrite firstn_app_2. cbn [firstn]. rewrite app_nil_r.
      rewrite Hbl.
      replace (Z.of_nat (34 * length entries) mod 34 =? 0) with true.
      2:{ symmetry. apply Z.eqb_eq. rewrite Nat2Z.inj_mul, Z.mul_comm. apply Z.mod_mul. lia. }
      cbn [negb]. f_equal. unfold body. apply chunks_concat; [lia|exact Hent|lia].
    - reflexivity.
    - unfold len. rewrite Hlen. unfold nthz.
      replace (Z.of_nat (length body + 3) - 2 <? 0) with false by (symmetry; apply Z.ltb_ge; lia).
      replace (Z.to_nat (Z.of_nat (length body + 3) - 2)) with (S (length body)) by lia.
      cbn [nth_error]. rewrite nth_error_app2 by lia. rewrite Nat.sub_diag. reflexivity.
  Qed.

  Lemma multi_code_parse : forall m keys,
    (forall k, In k keys -> length k = 33%nat) -> (2 <= length keys)%nat ->
    parse_keys 174 (multi_code m keys) = Some (map key_entry keys) /\
    nthz (multi_code m keys) 0 = Some (80 + m) /\
    nthz (multi_code m keys) (len (multi_code m keys) - 2) = Some (80 + len keys).
  Proof.
    intros m keys Hk Hn. unfold multi_code. apply code_parse_generic.
    - intros x Hx. apply in_map_iff in Hx as [k [<- Hin]]. simpl. rewrite (Hk k Hin). reflexivity.
    - rewrite map_length. exact Hn.
  Qed.

  (* A multisig account over n >= 2 distinct keys, signed through
     AppendSignature by m..n distinct signers of the script: accepted by the
     node, provided each wallet signature verifies under its own key and under
     no other key of the script, and the SHA-256 of the script entries does not
     collide. *)
  Theorem wallet_multisig_accepted : forall m keys signers data,
    (forall k, In k keys -> length k = 33%nat) -> (2 <= length keys)%nat ->
    1 <= m -> m <= len signers -> (length signers <= length keys)%nat -> m <= len keys ->
    NoDup signers -> incl signers keys ->
    (forall a, In a keys -> point_ok a = true) ->
    (forall k, In k signers -> len (sign_ecdsa k data) = 64 /\ verify_ecdsa k data (sign_ecdsa k data) = true) ->
    (forall a k, In a keys -> In k signers -> verify_ecdsa a data (sign_ecdsa k data) = true -> a = k) ->
    (forall k k', In k signers -> In k' signers -> keyhash (key_entry k) = keyhash (key_entry k') -> k = k') ->
    run_programs codehash point_ok verify_ecdsa verify_schnorr keyhash true data
      [18 :: codehash (multi_code m keys)] [sign_multi sign_ecdsa m keys signers data] = true.
  Proof.
    intros m keys signers data Hk Hn Hm1 Hms Hsn Hmn Hnd Hincl Hok Hsig Hcross Hinj.
    destruct (multi_code_parse m keys Hk Hn) as [Hparse [H0 Hn2]].
    unfold C05_Sig.run_programs, sign_multi. cbn [length Nat.eqb andb run_loop].
    unfold C05_Sig.check_one. cbn [prefix_of byte_at nth tl Z.eqb Pos.eqb orb]. rewrite beq_refl. cbn [negb].
    rewrite andb_true_r.
    unfold C05_Sig.check_multisig. rewrite Hn2, H0, Hparse.
    replace (80 + m - 81 + 1) with m by lia. replace (80 + len keys - 81 + 1) with (len keys) by lia.
    replace ((m <? 1) || (m >? len keys)) with false.
    2:{ symmetry. apply orb_false_iff. split; [apply Z.ltb_ge; lia|apply gtb_false; lia]. }
    cbn [andb]. apply verify_multisig_wallet with (signers := signers); auto.
    - intros x Hx. apply in_map_iff in Hx as [k [<- Hin]]. unfold sig_entry. cbn [length].
      destruct (Hsig k Hin) as [Hl _]. unfold len in Hl. lia.
    - intros k Hk0. apply Hsig. exact Hk0.
  Qed.
End GlueMulti.

(* ================================================================ keystore blob *)

Lemma be_value_zeros_app : forall k d, be_value (repeat 0 k ++ d) = be_value d.
Proof.
  intros k d. unfold be_value. rewrite fold_left_app. f_equal.
  induction k as [|k IH]; [reflexivity|]. cbn [repeat fold_left]. exact IH.
Qed.

(* saving and reloading an account keeps the private scalar, whatever the
   length of D.Bytes() *)
Theorem keystore_blob_roundtrip : forall xy d,
  length xy = 64%nat -> (length d <= 32)%nat ->
  length (blob_priv (key_blob xy d)) = 32%nat /\ be_value (blob_priv (key_blob xy d)) = be_value d.
Proof.
  intros xy d Hxy Hd. unfold blob_priv, key_blob.
  replace (firstn 64 xy) with xy by (rewrite <- Hxy; symmetry; apply firstn_all).
  set (R := repeat 0 (32 - length d) ++ d).
  assert (Hl : length R = 32%nat) by (unfold R; rewrite app_length, repeat_length; lia).
  replace (skipn 64 (xy ++ R)) with R
    by (rewrite <- Hxy, skipn_app, skipn_all, Nat.sub_diag; reflexivity).
  replace (firstn 32 R) with R by (rewrite <- Hl; symmetry; apply firstn_all).
  split; [exact Hl|apply be_value_zeros_app].
Qed.
