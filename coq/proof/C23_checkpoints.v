(* C23 lemmas, second part: the checkpoint envelopes are lawful codecs; the
   decoders seen as methods on a receiver. *)
From Coq Require Import List NArith Bool Lia Permutation Sorted.
From ELA Require Import lib.Bytes lib.VarInt lib.C23_codec lib.C23_codec2.
From ELA Require Import model.C23_KeyFrame model.C23_Checkpoints proof.C23_codec.
Import ListNotations.
Local Open Scope N_scope.

Ltac ok_tac :=
  repeat first
    [ apply dpos_state_key_frame_ok | apply producer_ok | apply reward_data_ok | apply cr_member_ok
    | apply cr_key_frame_ok | apply cr_state_key_frame_ok | apply votes_lock_ok
    | apply c_pair_ok | apply c_map_ok | apply c_set_ok | apply c_list_ok | apply c_uint_ok
    | apply c_bool_ok | apply c_varuint_ok | apply c_fixed_ok | apply c_varbytes_ok | apply c_unit_ok
    | apply c_listn_ok | apply c_mapn_ok | apply c_none_ok | apply c_some_ok ].

Lemma arbiter_ok : codec_ok arbiter.
Proof.
  unfold arbiter. apply c_tagged3_ok; try discriminate;
    unfold origin_arbiter, dpos_arbiter, crc_arbiter, pubkey, h168; ok_tac.
Qed.

Lemma dpos_checkpoint_ok : codec_ok dpos_checkpoint.
Proof.
  unfold dpos_checkpoint, arbiters, arbiter_map, smap, m168, set256, c_string, h168, h256, u32, u64.
  repeat first [ apply arbiter_ok | progress ok_tac ].
Qed.

Lemma crc_proposal_info_ok : codec_ok crc_proposal_info.
Proof.
  unfold crc_proposal_info, budget, side_chain_info, strings, pubkey, c_string, h168, h256, u8, u16, u32, u64.
  ok_tac.
Qed.

Lemma proposal_state_ok : codec_ok proposal_state.
Proof.
  unfold proposal_state, u8map, m168, pubkey, h168, h256, u8, u32, u64.
  repeat first [ apply crc_proposal_info_ok | progress ok_tac ].
Qed.

Lemma proposal_key_frame_ok : codec_ok proposal_key_frame.
Proof.
  unfold proposal_key_frame, m256, m168, set256, sset, strings, output_info, side_chain_info, c_string,
    h168, h256, u32, u64.
  repeat first [ apply proposal_state_ok | progress ok_tac ].
Qed.

Lemma cr_checkpoint_ok : codec_ok cr_checkpoint.
Proof. unfold cr_checkpoint, u32. repeat first [ apply proposal_key_frame_ok | progress ok_tac ]. Qed.

Lemma tx_fee_list_ok : codec_ok tx_fee_list.
Proof. unfold tx_fee_list, tx_item, h256, u32, u64. ok_tac. Qed.

Lemma txpool_checkpoint_ok {T} (ctx : codec T) : codec_ok ctx -> codec_ok (txpool_checkpoint ctx).
Proof.
  intros H. unfold txpool_checkpoint, m256, h256, u32.
  repeat first [ apply tx_fee_list_ok | exact H | progress ok_tac ].
Qed.

Lemma output_ok {P} (pl : N -> codec P) : (forall t, codec_ok (pl t)) -> forall v, codec_ok (output pl v).
Proof.
  intros H v. unfold output, output_ext, h256, h168, u8, u32, u64.
  destruct (v <? 9); repeat first [ apply H | apply c_bind_ok | progress ok_tac ].
Qed.

Lemma coin_ok {P} (pl : N -> codec P) : (forall t, codec_ok (pl t)) -> codec_ok (coin pl).
Proof.
  intros H. unfold coin. apply c_bind_ok; [apply c_uint_ok|].
  intros v. apply c_pair_ok; [apply output_ok; auto | apply c_uint_ok].
Qed.

Lemma wallet_checkpoint_ok {P} (pl : N -> codec P) :
  (forall t, codec_ok (pl t)) -> codec_ok (wallet_checkpoint pl).
Proof.
  intros H. unfold wallet_checkpoint, coins_map, owned_coins, ownership, linked_item, out_point,
    c_string, h256, u16, u32.
  repeat first [ apply coin_ok; exact H | progress ok_tac ].
Qed.

Lemma default_payloads_ok : forall t, codec_ok (default_payloads t).
Proof. intros t. unfold default_payloads. destruct (t =? 0); [apply c_unit_ok | apply c_fail_ok]. Qed.

(* ---- mempool: the Go Deserialize does not follow the wire format *)

Section TxPool.
  Context {T : Type} (ctx : codec T) (Hc : codec_ok ctx).

  (* with an empty txnList the real Deserialize is exact ... *)
  Lemma txpool_go_partial : forall h fees wire rest,
    wf (txpool_checkpoint ctx) (h, ([], fees)) -> encs (txpool_checkpoint ctx) (h, ([], fees)) wire ->
    txpool_deserialize_go ctx (wire ++ rest) = Some ((h, ([], fees)), rest).
  Proof.
    intros h fees wire rest W E. unfold txpool_deserialize_go.
    rewrite (dec_encs _ (txpool_checkpoint_ok ctx Hc) _ _ _ W E). reflexivity.
  Qed.

  (* ... and with any transaction in it, it is not *)
  Lemma txpool_go_refuted : forall h k tx fees wire,
    wf (txpool_checkpoint ctx) (h, ([(k, tx)], fees)) -> encs (txpool_checkpoint ctx) (h, ([(k, tx)], fees)) wire ->
    txpool_deserialize_go ctx wire = Some ((h, ([], fees)), []) /\
    txpool_deserialize_go ctx wire <> Some ((h, ([(k, tx)], fees)), []).
  Proof.
    intros h k tx fees wire W E. unfold txpool_deserialize_go.
    rewrite <- (app_nil_r wire).
    rewrite (dec_encs _ (txpool_checkpoint_ok ctx Hc) _ _ _ W E). split; [reflexivity | discriminate].
  Qed.
End TxPool.

(* ---- receivers *)

Lemma r_dpos_checkpoint_replaces : replaces r_dpos_checkpoint.
Proof. apply r_assign_replaces. Qed.

Lemma r_cr_checkpoint_replaces : replaces r_cr_checkpoint.
Proof. unfold r_cr_checkpoint. repeat apply r_pair_replaces; apply r_assign_replaces. Qed.

Lemma rc_r_cr_checkpoint : rc r_cr_checkpoint = cr_checkpoint.
Proof. reflexivity. Qed.

Lemma dpos_restore_into_any : forall live x wire rest,
  wf dpos_checkpoint x -> encs dpos_checkpoint x wire ->
  deci r_dpos_checkpoint live (wire ++ rest) = Some (x, rest).
Proof. apply (restore_into r_dpos_checkpoint r_dpos_checkpoint_replaces dpos_checkpoint_ok). Qed.

Lemma cr_restore_into_any : forall live x wire rest,
  wf cr_checkpoint x -> encs cr_checkpoint x wire ->
  deci r_cr_checkpoint live (wire ++ rest) = Some (x, rest).
Proof. apply (restore_into r_cr_checkpoint r_cr_checkpoint_replaces cr_checkpoint_ok). Qed.

(* the history clause for the real composition: whatever the live node holds
   when the checkpoint is loaded into it, continuing from the restored state
   equals the uninterrupted run *)
Section RestoreInto.
  Context {S B : Type} (r : rcodec S) (Hr : replaces r) (Hc : codec_ok (rc r)) (step : S -> B -> S).

  Lemma restore_into_then_continue : forall live s0 b1 b2 wire,
    wf (rc r) (run step s0 b1) -> encs (rc r) (run step s0 b1) wire ->
    option_map (fun s => run step s b2) (restore_live r live wire)
      = Some (run step s0 (b1 ++ b2)).
  Proof.
    intros live s0 b1 b2 wire W E. unfold restore_live.
    rewrite <- (app_nil_r wire). rewrite (restore_into r Hr Hc live _ wire [] W E).
    simpl. unfold run. rewrite fold_left_app. reflexivity.
  Qed.
End RestoreInto.

(* the appending list reader (seed C23b) is NOT receiver independent: a
   receiver that already holds ["ID"] ends with ["ID";"ID";"ESC"] *)
Definition names_wire : bytes := enc strings [[73; 68]; [69; 83; 67]].

Lemma appending_reader_refuted :
  deci r_strings_appending [[73; 68]] names_wire = Some ([[73; 68]; [73; 68]; [69; 83; 67]], []) /\
  dec strings names_wire = Some ([[73; 68]; [69; 83; 67]], []) /\
  ~ replaces r_strings_appending.
Proof.
  assert (A : deci r_strings_appending [[73; 68]] names_wire = Some ([[73; 68]; [73; 68]; [69; 83; 67]], []))
    by (vm_compute; reflexivity).
  assert (D : dec strings names_wire = Some ([[73; 68]; [69; 83; 67]], [])) by (vm_compute; reflexivity).
  repeat split; auto. intros R. specialize (R [[73; 68]] names_wire).
  change (rc r_strings_appending) with strings in R. rewrite A, D in R. discriminate.
Qed.

(* wallet: Deserialize merges into the receiver's maps.  Into an empty
   CoinsCheckPoint (NewCoinCheckPoint(): every path the node uses) it is exact *)
Section Wallet.
  Context {P : Type} (pl : N -> codec P) (Hp : forall t, codec_ok (pl t)).

  Lemma wallet_restore_into_empty : forall h0 x wire rest,
    wf (wallet_checkpoint pl) x -> encs (wallet_checkpoint pl) x wire ->
    deci (r_wallet_checkpoint pl) (h0, ([], [])) (wire ++ rest) = Some (x, rest).
  Proof.
    intros h0 x wire rest W E.
    assert (R : deci (r_wallet_checkpoint pl) (h0, ([], [])) (wire ++ rest) =
                dec (wallet_checkpoint pl) (wire ++ rest)) by reflexivity.
    rewrite R. apply (dec_encs _ (wallet_checkpoint_ok pl Hp)); auto.
  Qed.
End Wallet.

(* ... into a receiver that already holds a coin under another outpoint, the
   stale coin survives *)
Definition op1 : bytes * N := (repeat 1 32, 0).
Definition op2 : bytes * N := (repeat 2 32, 1).
Definition coin_v0 (value : N) : N * ((bytes * (N * (N * (bytes * option (N * unit))))) * N) :=
  (0, ((repeat 0 32, (value, (0, (repeat 33 21, None)))), 7)).
Definition wallet_new : N * (list ((bytes * N) * _) * list ((bytes * (bytes * N)) * ((bytes * N) * (bytes * N)))) :=
  (9, ([(op2, coin_v0 500)], [])).
Definition wallet_old : N * (list ((bytes * N) * _) * list ((bytes * (bytes * N)) * ((bytes * N) * (bytes * N)))) :=
  (5, ([(op1, coin_v0 100)], [])).

Lemma wallet_merge_refuted :
  deci (r_wallet_checkpoint default_payloads) wallet_old (enc (wallet_checkpoint default_payloads) wallet_new)
    = Some ((9, ([(op1, coin_v0 100); (op2, coin_v0 500)], [])), []) /\
  dec (wallet_checkpoint default_payloads) (enc (wallet_checkpoint default_payloads) wallet_new)
    = Some (wallet_new, []) /\
  ~ replaces (r_wallet_checkpoint default_payloads).
Proof.
  assert (A : deci (r_wallet_checkpoint default_payloads) wallet_old (enc (wallet_checkpoint default_payloads) wallet_new)
              = Some ((9, ([(op1, coin_v0 100); (op2, coin_v0 500)], [])), [])) by (vm_compute; reflexivity).
  assert (D : dec (wallet_checkpoint default_payloads) (enc (wallet_checkpoint default_payloads) wallet_new)
              = Some (wallet_new, [])) by (vm_compute; reflexivity).
  repeat split; auto. intros R.
  specialize (R wallet_old (enc (wallet_checkpoint default_payloads) wallet_new)).
  change (rc (r_wallet_checkpoint default_payloads)) with (wallet_checkpoint default_payloads) in R.
  rewrite A, D in R. discriminate.
Qed.

(* ---- concrete well-formed values (non-vacuity of the new round-trip theorems) *)

Definition ex_cr_member : ty cr_member :=
  (([33; 1; 2; 172], (h21 3, (h21 4, ([110], ([117], 1))))),
   (5, (h21 6, (0, ([2; 9], (1, (2, (3, (4, (5, (6, true))))))))))).

Definition ex_arbiters : ty arbiters :=
  [In1 (h21 7, [3; 1]); In3 (ex_cr_member, ([2; 8], (h21 9, true))); In2 (ex_producer, h21 10)].

Definition ex_proposal_state : ty proposal_state :=
  ((1, ([99], ([2; 1], (h32 1, ([(1, (0, 100)); (2, (1, 200))], (h21 2, (h32 0,
     ([[97]], ([], (h21 0, (3, (4, (h21 5, ([], ([3; 3], (h21 6, (h21 7,
     (([115], (5, (h32 8, (9, (10, [114]))))), h32 11)))))))))))))))))),
   (2, (3, (100, (101, (7, ([(h21 1, 1)], ([(0, 50)], ([(1, 60)], ([(0, 1); (1, 2)],
   (true, (4, (0, ([2; 5], (h21 8, h32 9))))))))))))))).

Definition ex_proposal_key_frame : ty proposal_key_frame :=
  ([(h32 9, ex_proposal_state)], ([(h21 1, [(h32 9, tt)])], ([(6, [h32 9])], ([(h32 4, (h21 33, 77))],
   ([112; 107], ([[97]; [98]], ([([99], tt)], ([[100]], ([[73; 68]; [69; 83; 67]], ([2018201; 23],
   ([h32 44; h32 45], ([(1000, [(h32 46, ([69], (23, (h32 45, (1, (2, [47]))))))])], true)))))))))))).

Ltac wf_tac2 :=
  repeat match goal with
  | |- _ /\ _ => split
  | |- True => exact I
  | |- Forall _ [] => constructor
  | |- Forall _ (_ :: _) => constructor
  | |- StronglySorted _ [] => constructor
  | |- StronglySorted _ (_ :: _) => constructor
  | |- klt _ _ _ => vm_compute; reflexivity
  | |- (_ < _)%N => vm_compute; reflexivity
  | |- (_ <= _)%N => vm_compute; discriminate
  | |- @eq nat _ _ => vm_compute; reflexivity
  | |- _ => progress cbn [wf c_pair c_map c_set c_list c_uint c_bool c_varuint c_fixed c_varbytes c_unit c_string fst snd
                          c_tagged3 arbiter arbiters origin_arbiter dpos_arbiter crc_arbiter pubkey cr_member cr_info_unsigned
                          proposal_key_frame proposal_state crc_proposal_info budget side_chain_info strings u8map
                          producer producer_info detailed_vote votes_lock nft_info output_info
                          smap sset m168 m256 set168 set256 u8 u16 u32 u64 h168 h256
                          ex_arbiters ex_cr_member ex_producer ex_proposal_state ex_proposal_key_frame]
  end.

Lemma ex_arbiters_wf : wf arbiters ex_arbiters.
Proof. unfold ex_arbiters, ex_cr_member, ex_producer. wf_tac2. Qed.

Lemma ex_arbiters_roundtrip : dec arbiters (enc arbiters ex_arbiters) = Some (ex_arbiters, []).
Proof. vm_compute. reflexivity. Qed.

Lemma ex_proposal_key_frame_wf : wf proposal_key_frame ex_proposal_key_frame.
Proof. unfold ex_proposal_key_frame, ex_proposal_state. wf_tac2. Qed.

Lemma ex_proposal_key_frame_roundtrip :
  dec proposal_key_frame (enc proposal_key_frame ex_proposal_key_frame) = Some (ex_proposal_key_frame, []) /\
  (200 <? N.of_nat (length (enc proposal_key_frame ex_proposal_key_frame))) = true.
Proof. vm_compute. split; reflexivity. Qed.

(* restoring that key frame into a receiver that already holds the built-in
   side-chain name "ID" (NewProposalKeyFrame) gives exactly the saved lists *)
Lemma ex_restore_into_builtin :
  deci (r_assign proposal_key_frame) ex_proposal_key_frame (enc proposal_key_frame ex_proposal_key_frame)
    = Some (ex_proposal_key_frame, []).
Proof. vm_compute. reflexivity. Qed.
