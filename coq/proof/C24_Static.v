(* C24 — the static obligation, re-checked against the regenerated graph
   (gen/C24_graph.v) on every run. *)
From Coq Require Import List PArith NArith Bool.
From ELA Require Import lib.Graph proof.Graph gen.C24_graph.
Import ListNotations.

Lemma static_ok :
  no_bad_reference C24_graph.graph C24_graph.sources C24_graph.bad C24_graph.allowed.
Proof. apply no_bad_reference_sound. vm_compute. reflexivity. Qed.

(* every float64 running sum in a consensus function that ranges over a map
   adds integer-valued operands only *)
Lemma float_map_sums_integral :
  forall f ok, In (f, ok) C24_graph.float_map_sums -> ok = true.
Proof.
  assert (H : forallb (fun s => snd s) C24_graph.float_map_sums = true) by (vm_compute; reflexivity).
  rewrite forallb_forall in H. intros f ok Hin. exact (H _ Hin).
Qed.

(* no slice filled in map iteration order reaches a consumer unsorted, except
   the classified sites *)
Lemma map_order_sites_sorted :
  forall f v, In (f, v) C24_graph.map_order_sites -> (v <= 5)%N.
Proof.
  assert (H : forallb (fun s => N.leb (snd s) 5) C24_graph.map_order_sites = true) by (vm_compute; reflexivity).
  rewrite forallb_forall in H. intros f v Hin. apply N.leb_le. exact (H _ Hin).
Qed.

(* the table is not degenerate: the anchors named by the property are source
   nodes with out-edges, there are bad nodes, and the search ran to completion *)
Lemma static_nonvacuous :
  forallb (fun a => existsb (Pos.eqb (fst a)) C24_graph.sources
                    && existsb (fun e => Pos.eqb (fst e) (fst a)) C24_graph.graph) C24_graph.anchors = true
  /\ negb (Nat.eqb (length C24_graph.anchors) 0) = true
  /\ negb (Nat.eqb (length C24_graph.bad) 0) = true
  /\ (match reach_set C24_graph.graph C24_graph.sources with Some _ => true | None => false end) = true
  /\ negb (Nat.eqb (length C24_graph.float_map_sums) 0) = true
  /\ negb (Nat.eqb (length (filter (fun s => N.eqb (snd s) 0) C24_graph.map_order_sites)) 0) = true.
Proof. vm_compute. repeat split. Qed.
