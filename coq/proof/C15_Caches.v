(* C15 proofs: transparency and bounds of the four cache models. *)
From Coq Require Import NArith ZArith List Bool Lia.
From ELA Require Import model.C15_Caches.
Import ListNotations.
Local Open Scope N_scope.

(* ------------------------------------------------------------ Go maps *)
Section AMapFacts.
  Context {K V : Type} (keq : K -> K -> bool).
  Hypothesis keq_spec : forall a b, keq a b = true <-> a = b.

  Lemma keq_refl a : keq a a = true.
  Proof. apply keq_spec; reflexivity. Qed.

  Lemma keq_neq a b : a <> b -> keq a b = false.
  Proof. intros H; destruct (keq a b) eqn:E; [apply keq_spec in E; contradiction|reflexivity]. Qed.

  Lemma aget_adel_same (m : list (K * V)) k : aget keq (adel keq m k) k = None.
  Proof.
    induction m as [|[k' v] r IH]; simpl; [reflexivity|].
    destruct (keq k k') eqn:E; [exact IH|]. simpl. rewrite E. exact IH.
  Qed.

  Lemma aget_adel_other (m : list (K * V)) k k' : k <> k' -> aget keq (adel keq m k) k' = aget keq m k'.
  Proof.
    intros N0. induction m as [|[k0 v] r IH]; simpl; [reflexivity|].
    destruct (keq k k0) eqn:E.
    - apply keq_spec in E; subst k0. rewrite (keq_neq k' k) by congruence. exact IH.
    - simpl. destruct (keq k' k0); [reflexivity|exact IH].
  Qed.

  Lemma aget_adel_sub (m : list (K * V)) k k' v : aget keq (adel keq m k) k' = Some v -> aget keq m k' = Some v /\ k <> k'.
  Proof.
    intros H. assert (k <> k') by (intros ->; rewrite aget_adel_same in H; discriminate).
    rewrite aget_adel_other in H by assumption. auto.
  Qed.

  Lemma aget_app (m1 m2 : list (K * V)) k :
    aget keq (m1 ++ m2) k = match aget keq m1 k with Some v => Some v | None => aget keq m2 k end.
  Proof.
    induction m1 as [|[k' v] r IH]; simpl; [reflexivity|]. destruct (keq k k'); [reflexivity|exact IH].
  Qed.

  Lemma aget_aset_same (m : list (K * V)) k v : aget keq (aset keq m k v) k = Some v.
  Proof. unfold aset. rewrite aget_app, aget_adel_same. simpl. rewrite keq_refl. reflexivity. Qed.

  Lemma aget_aset_other (m : list (K * V)) k v k' : k <> k' -> aget keq (aset keq m k v) k' = aget keq m k'.
  Proof.
    intros N0. unfold aset. rewrite aget_app, aget_adel_other by assumption.
    destruct (aget keq m k'); [reflexivity|]. simpl. rewrite (keq_neq k' k) by congruence. reflexivity.
  Qed.

  Lemma aget_aset_inv (m : list (K * V)) k v k' v' :
    aget keq (aset keq m k v) k' = Some v' -> (k = k' /\ v = v') \/ (k <> k' /\ aget keq m k' = Some v').
  Proof.
    intros H. destruct (keq k k') eqn:E.
    - apply keq_spec in E; subst k'. rewrite aget_aset_same in H. left; split; congruence.
    - assert (k <> k') by (intros ->; rewrite keq_refl in E; discriminate).
      rewrite aget_aset_other in H by assumption. auto.
  Qed.

  Lemma length_adel_le (m : list (K * V)) k : (length (adel keq m k) <= length m)%nat.
  Proof. induction m as [|[k' v] r IH]; simpl; [lia|]. destruct (keq k k'); simpl; lia. Qed.

  Lemma length_adel_lt (m : list (K * V)) k : ahas keq m k = true -> (length (adel keq m k) < length m)%nat.
  Proof.
    unfold ahas. induction m as [|[k' v] r IH]; simpl; [discriminate|].
    destruct (keq k k') eqn:E; intros H.
    - pose proof (length_adel_le r k). lia.
    - simpl. apply IH in H. lia.
  Qed.

  Lemma length_aset_le (m : list (K * V)) k v : (length (aset keq m k v) <= S (length m))%nat.
  Proof. unfold aset. rewrite app_length. simpl. pose proof (length_adel_le m k). lia. Qed.

  Lemma aget_none_notin (m : list (K * V)) k : aget keq m k = None <-> ~ In k (map fst m).
  Proof.
    induction m as [|[k' v] r IH]; simpl; [tauto|].
    destruct (keq k k') eqn:E.
    - apply keq_spec in E; subst. split; [discriminate|intros H; exfalso; apply H; auto].
    - rewrite IH. split; [intros H [H1|H1]; [subst; rewrite keq_refl in E; discriminate|tauto]|tauto].
  Qed.

  Lemma adel_notin (m : list (K * V)) k : ~ In k (map fst m) -> adel keq m k = m.
  Proof.
    induction m as [|[k' v] r IH]; simpl; [reflexivity|]. intros H.
    rewrite keq_neq by (intros ->; apply H; auto). f_equal. apply IH. tauto.
  Qed.

  Lemma aset_notin (m : list (K * V)) k v : aget keq m k = None -> aset keq m k v = m ++ [(k, v)].
  Proof. intros H. unfold aset. rewrite adel_notin; [reflexivity|]. apply aget_none_notin; assumption. Qed.
End AMapFacts.

Lemma ieqb_spec a b : ieqb a b = true <-> a = b.
Proof.
  destruct a as [[a1 a2] a3], b as [[b1 b2] b3]. unfold ieqb, in_txid, in_idx. simpl.
  rewrite !andb_true_iff, !N.eqb_eq. split; [intros [[-> ->] ->]; reflexivity|intros H; inversion H; auto].
Qed.
Lemma hceqb_spec a b : hceqb a b = true <-> a = b.
Proof.
  destruct a as [a1 a2], b as [b1 b2]. unfold hceqb. simpl.
  rewrite andb_true_iff, N.eqb_eq, Bool.eqb_true_iff. split; [intros [-> ->]; reflexivity|intros H; inversion H; auto].
Qed.
Definition Neqb_spec := N.eqb_eq.
Definition Beqb_spec := Bool.eqb_true_iff.

Lemma len_le {A} (l : list A) (n : N) : (len l <=? n) = true <-> len l <= n.
Proof. apply N.leb_le. Qed.

(* ============================================================ 1. UTXOCache *)

(* every cached answer is the store's answer *)
Definition uinv (db : txstore) (s : ustate) : Prop :=
  (forall i o, aget ieqb (u_ref s) i = Some o ->
     exists x, aget N.eqb db (in_txid i) = Some x /\ nth_error x (N.to_nat (in_idx i)) = Some o) /\
  (forall t x, aget N.eqb (u_txc s) t = Some x -> aget N.eqb db t = Some x).

Definition sub_map {K V} (keq : K -> K -> bool) (m' m : list (K * V)) : Prop :=
  forall k v, aget keq m' k = Some v -> aget keq m k = Some v.

Lemma evict_tx_sub max : forall ch m m' ch', evict_tx max m ch = Some (m', ch') -> sub_map N.eqb m' m.
Proof.
  induction ch as [|v ch IH]; intros m m' ch' H.
  - simpl in H. destruct (len m <=? max); inversion H; subst. intros k x; auto.
  - simpl in H. destruct (len m <=? max); [inversion H; subst; intros k x; auto|].
    destruct (ahas N.eqb m v); [|discriminate].
    apply IH in H. intros k x Hk. apply H in Hk. apply (aget_adel_sub N.eqb Neqb_spec) in Hk. tauto.
Qed.

Lemma evict_tx_len max : forall ch m m' ch', evict_tx max m ch = Some (m', ch') -> len m' <= max.
Proof.
  induction ch as [|v ch IH]; intros m m' ch' H; simpl in H.
  - destruct (len m <=? max) eqn:E; inversion H; subst. apply N.leb_le; assumption.
  - destruct (len m <=? max) eqn:E; [inversion H; subst; apply N.leb_le; assumption|].
    destruct (ahas N.eqb m v); [|discriminate]. eapply IH; eassumption.
Qed.

Lemma get_tx_ok max db c t ch :
  sub_map N.eqb c db ->
  match get_tx max db c t ch with
  | GTx x c' _ => aget N.eqb db t = Some x /\ sub_map N.eqb c' db
  | GMiss => aget N.eqb db t = None
  | GBad => True
  end.
Proof.
  intros Hc. unfold get_tx. destruct (aget N.eqb c t) as [x|] eqn:E.
  - split; [apply Hc; assumption|assumption].
  - destruct (aget N.eqb db t) as [x|] eqn:E2; [|reflexivity].
    unfold insert_tx. destruct (evict_tx max c ch) as [[m' ch']|] eqn:E3; [|exact I].
    split; [reflexivity|]. intros k v Hk.
    apply (aget_aset_inv N.eqb Neqb_spec) in Hk. destruct Hk as [[-> ->]|[_ Hk]]; [assumption|].
    apply Hc. eapply evict_tx_sub; eassumption.
Qed.

Definition ref_pre (max : N) (s : ustate) : list input * list (input * N) :=
  if max <=? len (u_inputs s) then
    match u_inputs s with [] => (u_inputs s, u_ref s) | e :: r => (r, adel ieqb (u_ref s) e) end
  else (u_inputs s, u_ref s).

Lemma ref_pre_sub max s : sub_map ieqb (snd (ref_pre max s)) (u_ref s).
Proof.
  unfold ref_pre. destruct (max <=? len (u_inputs s)); [destruct (u_inputs s)|]; simpl; intros k v Hk; auto.
  apply (aget_adel_sub ieqb ieqb_spec) in Hk. tauto.
Qed.

Lemma insert_ref_eq max s i o :
  insert_ref max s i o = mkU (fst (ref_pre max s) ++ [i]) (aset ieqb (snd (ref_pre max s)) i o) (u_txc s).
Proof. unfold insert_ref. fold (ref_pre max s). destruct (ref_pre max s); reflexivity. Qed.

Lemma insert_ref_inv max db s i o x :
  uinv db s -> aget N.eqb db (in_txid i) = Some x -> nth_error x (N.to_nat (in_idx i)) = Some o ->
  uinv db (insert_ref max s i o).
Proof.
  intros [Hr Ht] Hx Ho. rewrite insert_ref_eq. pose proof (ref_pre_sub max s) as E.
  split; simpl; [|assumption].
  intros i' o' H. apply (aget_aset_inv ieqb ieqb_spec) in H. destruct H as [[-> ->]|[_ H]].
  - exists x; auto.
  - apply Hr. apply E. assumption.
Qed.

Lemma get_refs_ok max db : forall ins s ch acc s' ch' r,
  uinv db s -> get_refs max db s ins ch acc = (s', ch', r) ->
  uinv db s' /\ (r = RBadSchedule \/ r = spec_refs db ins acc).
Proof.
  induction ins as [|i ins IH]; intros s ch acc s' ch' r Hinv H; simpl in H.
  - inversion H; subst. auto.
  - destruct (aget ieqb (u_ref s) i) as [o|] eqn:E.
    + destruct Hinv as [Hr Ht]. destruct (Hr _ _ E) as [x [Hx Ho]].
      apply IH in H; [|split; assumption]. simpl. rewrite Hx, Ho. assumption.
    + pose proof (get_tx_ok max db (u_txc s) (in_txid i) ch (proj2 Hinv)) as G.
      destruct (get_tx max db (u_txc s) (in_txid i) ch) as [x c' ch1| |].
      * destruct G as [Hx Hc'].
        assert (Hinv1 : uinv db (mkU (u_inputs s) (u_ref s) c')) by (split; [apply Hinv|exact Hc']).
        simpl. rewrite Hx.
        destruct (nth_error x (N.to_nat (in_idx i))) as [o|] eqn:Eo.
        -- apply IH in H; [assumption|]. eapply insert_ref_inv; eassumption.
        -- inversion H; subst. auto.
      * inversion H; subst. simpl. rewrite G. auto.
      * inversion H; subst. auto.
Qed.

Definition ures_ok (r spec : ures) : Prop := r = RBadSchedule \/ r = spec.

Lemma uinv_store_add db s t x : ahas N.eqb db t = false -> uinv db s -> uinv (aset N.eqb db t x) s.
Proof.
  unfold ahas. intros Hn [Hr Ht]. destruct (aget N.eqb db t) eqn:E; [discriminate|]. split.
  - intros i o H. destruct (Hr _ _ H) as [y [Hy Ho]]. exists y. split; [|assumption].
    rewrite (aget_aset_other N.eqb Neqb_spec); [assumption|congruence].
  - intros t' y H. apply Ht in H. rewrite (aget_aset_other N.eqb Neqb_spec); [assumption|congruence].
Qed.

Lemma uinv_empty db : uinv db uempty.
Proof. split; simpl; intros; discriminate. Qed.

Lemma utxo_transparent_gen max : forall ops db s dirty,
  udisc db dirty ops = true -> (dirty = false -> uinv db s) ->
  Forall2 ures_ok (map fst (urun max (db, s) ops)) (uspec_run db ops).
Proof.
  induction ops as [|op ops IH]; intros db s dirty Hd Hinv; simpl; [constructor|].
  destruct op as [ins ch|t ch| | |t x|t]; simpl in Hd.
  - (* UGetRef *)
    apply andb_true_iff in Hd. destruct Hd as [Hnd Hd]. destruct dirty; [discriminate|]. specialize (Hinv eq_refl).
    simpl. destruct (get_refs max db s ins ch []) as [[s' ch'] r] eqn:E.
    apply get_refs_ok in E; [|assumption]. destruct E as [Hinv' Hr].
    destruct ch'; simpl; (constructor; [|eapply IH; [exact Hd|intros _; exact Hinv']]).
    + exact Hr.
    + left; reflexivity.
  - (* UGetTx *)
    apply andb_true_iff in Hd. destruct Hd as [Hnd Hd]. destruct dirty; [discriminate|]. specialize (Hinv eq_refl).
    simpl. pose proof (get_tx_ok max db (u_txc s) t ch (proj2 Hinv)) as G.
    destruct (get_tx max db (u_txc s) t ch) as [x c' [|v ch']| |]; simpl.
    + destruct G as [Hx Hc']. rewrite Hx. constructor; [right; reflexivity|].
      eapply IH; [exact Hd|intros _; split; [apply Hinv|exact Hc']].
    + constructor; [left; reflexivity|]. eapply IH; [exact Hd|intros _; exact Hinv].
    + rewrite G. constructor; [right; reflexivity|]. eapply IH; [exact Hd|intros _; exact Hinv].
    + constructor; [left; reflexivity|]. eapply IH; [exact Hd|intros _; exact Hinv].
  - constructor; [right; reflexivity|]. eapply IH; [exact Hd|intros _; apply uinv_empty].
  - constructor; [right; reflexivity|]. eapply IH; [exact Hd|].
    intros Hz. specialize (Hinv Hz). split; [apply Hinv|simpl; intros; discriminate].
  - apply andb_true_iff in Hd. destruct Hd as [Hf Hd]. apply negb_true_iff in Hf.
    constructor; [right; reflexivity|]. eapply IH; [exact Hd|].
    intros Hz. apply uinv_store_add; auto.
  - constructor; [right; reflexivity|]. eapply IH; [exact Hd|discriminate].
Qed.

Theorem utxo_transparent max ops db :
  udisc db false ops = true ->
  Forall2 ures_ok (map fst (urun max (db, uempty) ops)) (uspec_run db ops).
Proof. intros H. eapply utxo_transparent_gen; [exact H|intros _; apply uinv_empty]. Qed.

(* the repaired reorganisation schedule is disciplined, whatever the lookups
   the disconnect events trigger *)
Lemma udisc_dels : forall ts db dirty rest,
  udisc db dirty (map UStoreDel ts ++ rest) = udisc (fold_left (fun d t => adel N.eqb d t) ts db) (dirty || negb (length ts =? 0)%nat) rest.
Proof.
  induction ts as [|t ts IH]; intros db dirty rest; simpl.
  - rewrite orb_false_r. reflexivity.
  - rewrite IH. simpl. rewrite orb_true_r. reflexivity.
Qed.

Lemma udisc_lookups : forall l db rest,
  forallb is_lookup l = true -> udisc db false (l ++ rest) = udisc db false rest.
Proof.
  induction l as [|op l IH]; intros db rest H; simpl in *; [reflexivity|].
  apply andb_true_iff in H. destruct H as [H1 H2]. destruct op; try discriminate; simpl; apply IH; assumption.
Qed.

Lemma reorg_fixed_disciplined_gen : forall detach db dirty rest,
  forallb (fun b => forallb is_lookup (snd b)) detach = true ->
  exists db', udisc db dirty (flat_map (fun b : dblock => map UStoreDel (fst b) ++ UClean :: snd b) detach ++ rest)
              = udisc db' (match detach with [] => dirty | _ => false end) rest.
Proof.
  induction detach as [|[ts ls] detach IH]; intros db dirty rest H; simpl in *.
  - exists db; reflexivity.
  - apply andb_true_iff in H. destruct H as [H1 H2].
    rewrite <- !app_assoc. rewrite udisc_dels. simpl. rewrite udisc_lookups by assumption.
    destruct (IH (fold_left (fun d t => adel N.eqb d t) ts db) false rest H2) as [db' E].
    exists db'. rewrite E. destruct detach; reflexivity.
Qed.

Theorem reorg_fixed_disciplined detach db rest :
  forallb (fun b => forallb is_lookup (snd b)) detach = true ->
  exists db', udisc db false (reorg_fixed detach ++ rest) = udisc db' false rest.
Proof.
  intros H.
  destruct (reorg_fixed_disciplined_gen detach db false rest H) as [db' E]. exists db'.
  change (udisc db false (reorg_fixed detach ++ rest))
    with (udisc db false (flat_map (fun b : dblock => map UStoreDel (fst b) ++ UClean :: snd b) detach ++ rest)).
  rewrite E. destruct detach; reflexivity.
Qed.

(* ---- bounds *)
Definition ubound (max : N) (s : ustate) : Prop :=
  map fst (u_ref s) = u_inputs s /\ NoDup (u_inputs s) /\ len (u_inputs s) <= max /\ len (u_txc s) <= max + 1.

Lemma NoDup_snoc {A} (l : list A) x : NoDup l -> ~ In x l -> NoDup (l ++ [x]).
Proof.
  induction l as [|a l IH]; intros Hnd Hx; simpl.
  - constructor; [intros []|constructor].
  - inversion Hnd; subst. constructor.
    + rewrite in_app_iff. simpl. intros [H|[H|[]]]; [contradiction|subst; apply Hx; left; reflexivity].
    + apply IH; [assumption|intros H; apply Hx; right; assumption].
Qed.

Lemma len_app1 {A} (l : list A) x : len (l ++ [x]) = len l + 1.
Proof. unfold len. rewrite app_length. simpl. lia. Qed.

Lemma get_tx_len max db c t ch x c' ch' :
  len c <= max + 1 -> get_tx max db c t ch = GTx x c' ch' -> len c' <= max + 1.
Proof.
  unfold get_tx. intros Hc H. destruct (aget N.eqb c t); [inversion H; subst; assumption|].
  destruct (aget N.eqb db t); [|discriminate]. unfold insert_tx in H.
  destruct (evict_tx max c ch) as [[m' ch1]|] eqn:E; [|discriminate]. inversion H; subst.
  apply evict_tx_len in E. unfold len in *. pose proof (length_aset_le N.eqb m' t x). lia.
Qed.

Lemma insert_ref_bound max s i o :
  1 <= max -> ubound max s -> aget ieqb (u_ref s) i = None -> ubound max (insert_ref max s i o).
Proof.
  intros Hm (Hmap & Hnd & Hlen & Htx) Hi. unfold insert_ref.
  assert (Hnin : ~ In i (u_inputs s)) by (rewrite <- Hmap; apply (aget_none_notin ieqb ieqb_spec); assumption).
  destruct (max <=? len (u_inputs s)) eqn:E.
  - apply N.leb_le in E. destruct (u_inputs s) as [|e r] eqn:Ein.
    + unfold len in E. simpl in E. lia.
    + destruct (u_ref s) as [|[e' v] rtl] eqn:Eref; [discriminate|]. simpl in Hmap. inversion Hmap; subst e'.
      inversion Hnd as [|? ? He Hr']; subst. simpl. rewrite (keq_refl ieqb ieqb_spec).
      rewrite (adel_notin ieqb ieqb_spec) by assumption.
      assert (Hir : aget ieqb rtl i = None).
      { simpl in Hi. destruct (ieqb i e); [discriminate|assumption]. }
      rewrite (aset_notin ieqb ieqb_spec) by assumption.
      split; [simpl; rewrite map_app; reflexivity|]. split.
      * simpl. apply NoDup_snoc; [assumption|]. intros Hin. apply Hnin. right; assumption.
      * split; [|assumption]. simpl. rewrite len_app1. unfold len in *. simpl in *. lia.
  - apply N.leb_gt in E. simpl.
    rewrite (aset_notin ieqb ieqb_spec) by assumption.
    split; [simpl; rewrite map_app, Hmap; reflexivity|]. split.
    + simpl. apply NoDup_snoc; assumption.
    + split; [|assumption]. simpl. rewrite len_app1. lia.
Qed.

Lemma get_refs_bound max db : forall ins s ch acc s' ch' r,
  1 <= max -> ubound max s -> get_refs max db s ins ch acc = (s', ch', r) -> ubound max s'.
Proof.
  induction ins as [|i ins IH]; intros s ch acc s' ch' r Hm Hb H; simpl in H.
  - inversion H; subst; assumption.
  - destruct (aget ieqb (u_ref s) i) as [o|] eqn:E; [eapply IH; eassumption|].
    destruct (get_tx max db (u_txc s) (in_txid i) ch) as [x c' ch1| |] eqn:G; [|inversion H; subst; assumption..].
    assert (Hb1 : ubound max (mkU (u_inputs s) (u_ref s) c')).
    { destruct Hb as (A & B & C & D). repeat split; try assumption. simpl. eapply get_tx_len; eassumption. }
    destruct (nth_error x (N.to_nat (in_idx i))) as [o|]; [|inversion H; subst; assumption].
    eapply IH; [assumption| |exact H]. apply insert_ref_bound; assumption.
Qed.

Lemma ubound_empty max : ubound max uempty.
Proof. unfold ubound, uempty, len; simpl. repeat split; try constructor; lia. Qed.

Lemma ustep_bound max db s op :
  1 <= max -> ubound max s -> ubound max (snd (fst (ustep max (db, s) op))).
Proof.
  intros Hm Hb. destruct op as [ins ch|t ch| | |t x|t]; simpl; try assumption.
  - destruct (get_refs max db s ins ch []) as [[s' ch'] r] eqn:E. apply get_refs_bound in E; try assumption.
    destruct ch'; simpl; assumption.
  - destruct (get_tx max db (u_txc s) t ch) as [x c' [|v ch']| |] eqn:G; simpl; try assumption.
    destruct Hb as (A & B & C & D). repeat split; try assumption. simpl. eapply get_tx_len; eassumption.
  - apply ubound_empty.
  - destruct Hb as (A & B & C & D). repeat split; try assumption. unfold len; simpl; lia.
Qed.

Lemma utxo_bounds_gen max : forall ops db s,
  1 <= max -> ubound max s -> Forall (fun rs => ubound max (snd rs)) (urun max (db, s) ops).
Proof.
  induction ops as [|op ops IH]; intros db s Hm Hb; [constructor|].
  cbn [urun]. pose proof (ustep_bound max db s op Hm Hb) as Hs.
  destruct (ustep max (db, s) op) as [[db' s'] r]. cbn [fst snd] in Hs. constructor; [exact Hs|]. apply IH; assumption.
Qed.

Theorem utxo_bounds max ops db :
  1 <= max ->
  Forall (fun rs : ures * ustate =>
            len (u_inputs (snd rs)) <= max /\ len (u_ref (snd rs)) <= max /\ len (u_txc (snd rs)) <= max + 1)
         (urun max (db, uempty) ops).
Proof.
  intros Hm. eapply Forall_impl; [|apply utxo_bounds_gen; [assumption|apply ubound_empty]].
  intros [r s] (A & B & C & D). simpl in *. repeat split; try assumption.
  unfold len in *. rewrite <- (map_length fst), A. assumption.
Qed.

(* ============================================================ 2. TxCache *)
Definition tinv (regf : N -> bool) (db c : list (N * N)) : Prop :=
  forall t h, aget N.eqb c t = Some h -> aget N.eqb db t = Some h /\ regf t = false.

Lemma trim_loop_nil extra ch : trim_loop [] extra ch = Some ([], ch).
Proof. destruct ch; reflexivity. Qed.

Lemma trim_loop_cons m extra v ch : m <> [] ->
  trim_loop m extra (v :: ch) =
  if ahas N.eqb m v then
    if (extra - 1 <? 0)%Z then Some (adel N.eqb m v, ch) else trim_loop (adel N.eqb m v) (extra - 1)%Z ch
  else None.
Proof. destruct m; [contradiction|reflexivity]. Qed.

Lemma trim_loop_sub : forall ch m extra m' ch', trim_loop m extra ch = Some (m', ch') -> sub_map N.eqb m' m.
Proof.
  induction ch as [|v ch IH]; intros m extra m' ch' H.
  - destruct m; simpl in H; [inversion H; subst; intros k x; auto|discriminate].
  - destruct m as [|e m0]; [rewrite trim_loop_nil in H; inversion H; subst; intros k x; auto|].
    rewrite trim_loop_cons in H by discriminate. set (m := e :: m0) in *. clearbody m.
    destruct (ahas N.eqb m v); [|discriminate].
    assert (S1 : sub_map N.eqb (adel N.eqb m v) m).
    { intros k x Hk. apply (aget_adel_sub N.eqb Neqb_spec) in Hk. tauto. }
    destruct ((extra - 1 <? 0)%Z).
    + inversion H; subst m' ch'. exact S1.
    + apply IH in H. intros k x Hk. apply S1. apply H. assumption.
Qed.

Lemma trim_sub p c ch c' ch' : trim p c ch = Some (c', ch') -> sub_map N.eqb c' c.
Proof.
  unfold trim. destruct (t_memfirst p); [intros H; inversion H; subst; intros k x; auto|].
  destruct (u32 (t_volume p + t_interval p) <? len c); [apply trim_loop_sub|intros H; inversion H; subst; intros k x; auto].
Qed.

Lemma tinv_sub regf db c c' : sub_map N.eqb c' c -> tinv regf db c -> tinv regf db c'.
Proof. intros S I t h H. apply I. apply S. assumption. Qed.

Lemma fold_delete_sub p : forall l c, sub_map N.eqb (fold_left (delete_txn p) l c) c.
Proof.
  induction l as [|t l IH]; intros c; simpl; [intros k x; auto|].
  intros k x Hk. apply IH in Hk. unfold delete_txn in Hk. destruct (t_memfirst p); [assumption|].
  apply (aget_adel_sub N.eqb Neqb_spec) in Hk. tauto.
Qed.

Lemma fresh_txs_db regf h : forall txs d d',
  fresh_txs regf d h txs = Some d' ->
  d' = fold_left (fun (d : list (N * N)) (e : N * bool * bool) => aset N.eqb d (fst (fst e)) h) txs d.
Proof.
  induction txs as [|e txs IH]; intros d d' F; simpl in F; [inversion F; reflexivity|].
  destruct (negb (ahas N.eqb d (fst (fst e))) && Bool.eqb (snd (fst e)) (regf (fst (fst e)))); [|discriminate].
  simpl. apply IH. assumption.
Qed.

Definition cfold (p : tparams) (h : N) (txs : list (N * bool * bool)) (c : list (N * N)) :=
  fold_left (fun (c : list (N * N)) (e : N * bool * bool) =>
               let '(t, reg, small) := e in if reg then c else set_txn p c h t small) txs c.
Definition dfold (p : tparams) (txs : list (N * bool * bool)) (c : list (N * N)) :=
  fold_left (fun (c : list (N * N)) (e : N * bool * bool) =>
               if snd (fst e) then c else delete_txn p c (fst (fst e))) txs c.

Lemma connect_inv regf p h : t_memfirst p = false -> forall txs d c d',
  tinv regf d c -> fresh_txs regf d h txs = Some d' -> tinv regf d' (cfold p h txs c).
Proof.
  intros M. induction txs as [|[[t reg] small] txs IH]; intros d c d' I F; simpl in F.
  - inversion F; subst. assumption.
  - destruct (negb (ahas N.eqb d t) && Bool.eqb reg (regf t)) eqn:E; [|discriminate].
    apply andb_true_iff in E. destruct E as [E1 E2]. apply negb_true_iff in E1. apply Bool.eqb_prop in E2.
    unfold cfold. simpl. eapply IH; [|exact F].
    assert (Hnone : aget N.eqb d t = None) by (unfold ahas in E1; destruct (aget N.eqb d t); [discriminate|reflexivity]).
    assert (Keep : tinv regf (aset N.eqb d t h) c).
    { intros t' h' H. destruct (N.eq_dec t t') as [->|Ne].
      - apply I in H. destruct H as [H _]. congruence.
      - apply I in H. rewrite (aget_aset_other N.eqb Neqb_spec) by assumption. assumption. }
    destruct reg; [exact Keep|]. unfold set_txn. rewrite M.
    destruct small; [|exact Keep].
    intros t' h' H. apply (aget_aset_inv N.eqb Neqb_spec) in H. destruct H as [[-> ->]|[Ne H]].
    + rewrite (aget_aset_same N.eqb Neqb_spec). split; [reflexivity|congruence].
    + apply I in H. rewrite (aget_aset_other N.eqb Neqb_spec) by assumption. assumption.
Qed.

Lemma disconnect_inv regf p : t_memfirst p = false -> forall txs d c,
  tinv regf d c ->
  forallb (fun e : N * bool * bool => Bool.eqb (snd (fst e)) (regf (fst (fst e)))) txs = true ->
  tinv regf (fold_left (fun (d : list (N * N)) (e : N * bool * bool) => adel N.eqb d (fst (fst e))) txs d)
            (dfold p txs c).
Proof.
  intros M. induction txs as [|[[t reg] small] txs IH]; intros d c I F; simpl in *; [assumption|].
  apply andb_true_iff in F. destruct F as [F1 F2]. apply Bool.eqb_prop in F1.
  unfold dfold; simpl. apply IH; [|assumption].
  destruct reg.
  - (* a RegisterAsset transaction is never in the cache *)
    intros t' h' H. pose proof (I _ _ H) as [Hd Hr]. split; [|assumption].
    rewrite (aget_adel_other N.eqb Neqb_spec); [assumption|]. intros ->. congruence.
  - unfold delete_txn. rewrite M.
    intros t' h' H. apply (aget_adel_sub N.eqb Neqb_spec) in H. destruct H as [H Ne].
    pose proof (I _ _ H) as [Hd Hr]. split; [|assumption].
    rewrite (aget_adel_other N.eqb Neqb_spec); assumption.
Qed.

(* MemoryFirst: the cache is never filled *)
Lemma memfirst_cfold p h : t_memfirst p = true -> forall txs c, cfold p h txs c = c.
Proof.
  intros M. induction txs as [|[[t reg] small] txs IH]; intros c; [reflexivity|].
  change (cfold p h ((t, reg, small) :: txs) c) with (cfold p h txs (if reg then c else set_txn p c h t small)).
  unfold set_txn. rewrite M. destruct reg; apply IH.
Qed.
Lemma memfirst_dfold p : t_memfirst p = true -> forall txs c, dfold p txs c = c.
Proof.
  intros M. induction txs as [|[[t reg] small] txs IH]; intros c; [reflexivity|].
  change (dfold p ((t, reg, small) :: txs) c) with (dfold p txs (if reg then c else delete_txn p c t)).
  unfold delete_txn. rewrite M. destruct reg; apply IH.
Qed.
Lemma memfirst_delete p : t_memfirst p = true -> forall l c, fold_left (delete_txn p) l c = c.
Proof.
  intros M. induction l as [|t l IH]; intros c; [reflexivity|]. simpl. unfold delete_txn at 2. rewrite M. apply IH.
Qed.

Definition tinvP (regf : N -> bool) (p : tparams) (db c : list (N * N)) : Prop :=
  if t_memfirst p then c = [] else tinv regf db c.

Lemma tstep_connect_eq p db c h txs spent ch :
  tstep p (db, c) (TConnect h txs spent ch) =
  match trim p c ch with
  | Some (c1, _) =>
    ((fold_left (fun (d : list (N * N)) (e : N * bool * bool) => aset N.eqb d (fst (fst e)) h) txs db,
      fold_left (delete_txn p) spent (cfold p h txs c1)), TUnit)
  | None => ((db, c), TBadSchedule)
  end.
Proof. simpl. destruct (trim p c ch) as [[c1 ch1]|]; reflexivity. Qed.

Lemma tstep_disconnect_eq p db c txs :
  tstep p (db, c) (TDisconnect txs) =
  ((fold_left (fun (d : list (N * N)) (e : N * bool * bool) => adel N.eqb d (fst (fst e))) txs db, dfold p txs c), TUnit).
Proof. reflexivity. Qed.

Lemma tstep_fetch_eq regf p db c t : tinvP regf p db c ->
  tstep p (db, c) (TFetch t) = ((db, c), match aget N.eqb db t with Some h => TFound h | None => TMissing end).
Proof.
  intros I. simpl. destruct (aget N.eqb c t) as [h|] eqn:Ec.
  - unfold tinvP in I. destruct (t_memfirst p); [subst c; discriminate|].
    apply I in Ec. destruct Ec as [Ec _]. rewrite Ec. reflexivity.
  - destruct (aget N.eqb db t); reflexivity.
Qed.

Theorem txc_transparent_gen regf p : forall ops db c,
  tdisc regf db ops = true -> tinvP regf p db c ->
  ~ In TBadSchedule (map fst (trun p (db, c) ops)) ->
  map fst (trun p (db, c) ops) = tspec_run db ops.
Proof.
  induction ops as [|op ops IH]; intros db c D I NB; [reflexivity|].
  destruct op as [h txs spent ch|txs|t|h t cb|h lo n|t|ch]; simpl in D; try discriminate.
  - (* TConnect *)
    destruct (fresh_txs regf db h txs) as [d'|] eqn:F; [|discriminate].
    pose proof (fresh_txs_db _ _ _ _ _ F) as Ed.
    cbn [trun]. rewrite tstep_connect_eq in *. cbn [tspec_run tspec].
    cbn [trun] in NB. rewrite tstep_connect_eq in NB.
    destruct (trim p c ch) as [[c1 ch1]|] eqn:T.
    + cbn [map fst snd]. f_equal. rewrite <- Ed. apply IH; [assumption| |].
      * unfold tinvP in *. destruct (t_memfirst p) eqn:M.
        -- unfold trim in T. rewrite M in T. inversion T; subst.
           rewrite memfirst_cfold, memfirst_delete by assumption. reflexivity.
        -- eapply tinv_sub; [apply fold_delete_sub|].
           eapply connect_inv; [assumption| |exact F]. eapply tinv_sub; [eapply trim_sub; exact T|assumption].
      * cbn [map fst snd] in NB. rewrite <- Ed in NB. intros H. apply NB. right. assumption.
    + exfalso. apply NB. cbn [map fst]. left. reflexivity.
  - (* TDisconnect *)
    apply andb_true_iff in D. destruct D as [D1 D2].
    cbn [trun]. rewrite tstep_disconnect_eq. cbn [tspec_run tspec map fst snd]. f_equal.
    cbn [trun] in NB. rewrite tstep_disconnect_eq in NB. cbn [map fst snd] in NB.
    apply IH; [assumption| |intros H; apply NB; right; assumption].
    unfold tinvP in *. destruct (t_memfirst p) eqn:M.
    + rewrite memfirst_dfold by assumption. assumption.
    + apply disconnect_inv; assumption.
  - (* TFetch *)
    cbn [trun]. cbn [trun] in NB. rewrite (tstep_fetch_eq regf) in * by assumption.
    cbn [map fst snd tspec_run tspec]. cbn [map fst snd] in NB. f_equal.
    apply IH; [assumption|assumption|intros H; apply NB; right; assumption].
Qed.

Theorem txc_transparent regf p ops :
  tdisc regf [] ops = true ->
  ~ In TBadSchedule (map fst (trun p ([], []) ops)) ->
  map fst (trun p ([], []) ops) = tspec_run [] ops.
Proof.
  intros D NB. apply (txc_transparent_gen regf); [assumption| |assumption].
  unfold tinvP. destruct (t_memfirst p); [reflexivity|intros t h H; discriminate].
Qed.

(* ---- bounds *)
Lemma trim_loop_len : forall ch m extra m' ch',
  trim_loop m extra ch = Some (m', ch') -> (0 <= extra)%Z ->
  m' = [] \/ (Z.of_nat (length m') + extra + 1 <= Z.of_nat (length m))%Z.
Proof.
  induction ch as [|v ch IH]; intros m extra m' ch' H He.
  - destruct m; simpl in H; [inversion H; auto|discriminate].
  - destruct m as [|e m0]; [rewrite trim_loop_nil in H; inversion H; auto|].
    rewrite trim_loop_cons in H by discriminate. set (m := e :: m0) in *. clearbody m.
    destruct (ahas N.eqb m v) eqn:A; [|discriminate].
    pose proof (length_adel_lt N.eqb m v A) as L.
    destruct ((extra - 1 <? 0)%Z) eqn:E.
    + inversion H; subst. apply Z.ltb_lt in E. right. lia.
    + apply Z.ltb_ge in E. apply IH in H; [|lia]. destruct H as [H|H]; [auto|right; lia].
Qed.

Lemma trim_len p c ch c' ch' :
  t_memfirst p = false -> t_volume p + t_interval p < 4294967296 ->
  trim p c ch = Some (c', ch') -> len c' <= t_volume p + t_interval p.
Proof.
  intros M W. unfold trim. rewrite M. unfold u32. rewrite N.mod_small by assumption.
  destruct (t_volume p + t_interval p <? len c) eqn:E.
  - apply N.ltb_lt in E. intros H. apply trim_loop_len in H; [|unfold len in *; lia].
    destruct H as [->|H]; unfold len in *; simpl; lia.
  - apply N.ltb_ge in E. intros H. inversion H; subst. assumption.
Qed.

Lemma cfold_len p h : forall txs c, len (cfold p h txs c) <= len c + len txs.
Proof.
  induction txs as [|[[t reg] small] txs IH]; intros c; [unfold len; simpl; lia|].
  change (cfold p h ((t, reg, small) :: txs) c) with (cfold p h txs (if reg then c else set_txn p c h t small)).
  etransitivity; [apply IH|]. unfold set_txn.
  assert (len (aset N.eqb c t h) <= len c + 1) by (unfold len; pose proof (length_aset_le N.eqb c t h); lia).
  destruct reg, (t_memfirst p), small; unfold len in *; simpl; lia.
Qed.

Lemma dfold_len p : forall txs c, len (dfold p txs c) <= len c.
Proof.
  induction txs as [|[[t reg] small] txs IH]; intros c; [simpl; lia|].
  change (dfold p ((t, reg, small) :: txs) c) with (dfold p txs (if reg then c else delete_txn p c t)).
  etransitivity; [apply IH|]. unfold delete_txn.
  pose proof (length_adel_le N.eqb c t). destruct reg, (t_memfirst p); unfold len; lia.
Qed.

Lemma fold_delete_len p : forall l c, len (fold_left (delete_txn p) l c) <= len c.
Proof.
  induction l as [|t l IH]; intros c; simpl; [lia|]. etransitivity; [apply IH|].
  unfold delete_txn. pose proof (length_adel_le N.eqb c t). destruct (t_memfirst p); unfold len; lia.
Qed.

Theorem txc_bounds p B : t_memfirst p = false -> t_volume p + t_interval p < 4294967296 ->
  forall ops db c, forallb (block_small B) ops = true -> len c <= t_volume p + t_interval p + B ->
  Forall (fun rs : tres * list (N * N) => len (snd rs) <= t_volume p + t_interval p + B) (trun p (db, c) ops).
Proof.
  intros M W. induction ops as [|op ops IH]; intros db c S L; [constructor|].
  simpl in S. apply andb_true_iff in S. destruct S as [S1 S2].
  destruct op as [h txs spent ch|txs|t|h t cb|h lo n|t|ch]; simpl in S1; try discriminate.
  - cbn [trun]. rewrite tstep_connect_eq. destruct (trim p c ch) as [[c1 ch1]|] eqn:T.
    + apply trim_len in T; try assumption. apply N.leb_le in S1.
      assert (len (fold_left (delete_txn p) spent (cfold p h txs c1)) <= t_volume p + t_interval p + B).
      { etransitivity; [apply fold_delete_len|]. etransitivity; [apply cfold_len|]. lia. }
      constructor; [assumption|]. apply IH; assumption.
    + constructor; [assumption|]. apply IH; assumption.
  - cbn [trun]. rewrite tstep_disconnect_eq.
    assert (len (dfold p txs c) <= t_volume p + t_interval p + B) by (etransitivity; [apply dfold_len|assumption]).
    constructor; [assumption|]. apply IH; assumption.
  - cbn [trun tstep].
    destruct (aget N.eqb c t); [|destruct (aget N.eqb db t)]; (constructor; [assumption|apply IH; assumption]).
Qed.

(* ============================================================ 3. GetBlock *)
Definition binv (db : list (N * dblk)) (s : bstate) : Prop := sub_map N.eqb (b_cache s) db.

Lemma bget_ok db s h : binv db s ->
  binv db (fst (bget db s h)) /\
  snd (bget db s h) = match aget N.eqb db h with Some v => BFound v | None => BMissing end.
Proof.
  intros I. unfold bget. destruct (aget N.eqb (b_cache s) h) as [v|] eqn:E.
  - simpl. split; [assumption|]. apply I in E. rewrite E. reflexivity.
  - destruct (aget N.eqb db h) as [v|] eqn:D; [|simpl; auto].
    destruct (if bsize <=? len (b_order s) then _ else _) as [ord c] eqn:P. simpl. split; [|reflexivity].
    assert (S : sub_map N.eqb c (b_cache s)).
    { destruct (bsize <=? len (b_order s)); [destruct (b_order s)|]; inversion P; subst; intros k x Hk; auto.
      apply (aget_adel_sub N.eqb Neqb_spec) in Hk. tauto. }
    intros k x Hk. simpl in Hk. apply (aget_aset_inv N.eqb Neqb_spec) in Hk.
    destruct Hk as [[-> ->]|[_ Hk]]; [assumption|]. apply I. apply S. assumption.
Qed.

Lemma bstore_inv db s h v : binv db s -> binv (if ahas N.eqb db h then db else aset N.eqb db h v) s.
Proof.
  intros I. unfold ahas. destruct (aget N.eqb db h) eqn:E; [assumption|].
  intros k x Hk. apply I in Hk. rewrite (aget_aset_other N.eqb Neqb_spec); [assumption|congruence].
Qed.

Theorem blk_transparent_gen : forall ops db s, binv db s ->
  map fst (brun true (db, s) ops) = bspec_run db ops.
Proof.
  induction ops as [|op ops IH]; intros db s I; [reflexivity|].
  destruct op as [h|h v|h]; cbn [brun bstep bspec_run bspec].
  - pose proof (bget_ok db s h I) as [I' R]. destruct (bget db s h) as [s' r]. simpl in *. subst r.
    f_equal. apply IH; assumption.
  - cbn [map fst snd]. f_equal. apply IH. apply bstore_inv; assumption.
  - pose proof (bget_ok db s h I) as [I' R]. destruct (bget db s h) as [s' r]. simpl in *.
    f_equal. apply IH; assumption.
Qed.

Theorem blk_transparent ops : map fst (brun true ([], bempty) ops) = bspec_run [] ops.
Proof. apply blk_transparent_gen. intros k x H; discriminate. Qed.

Definition bshape (s : bstate) : Prop :=
  map fst (b_cache s) = b_order s /\ NoDup (b_order s) /\ (length (b_order s) <= 2)%nat.

Lemma bget_shape db s h : bshape s -> bshape (fst (bget db s h)).
Proof.
  intros (Hm & Hn & Hl). unfold bget. destruct (aget N.eqb (b_cache s) h) as [v|] eqn:E; [simpl; repeat split; assumption|].
  destruct (aget N.eqb db h) as [v|]; [|simpl; repeat split; assumption].
  assert (Hnin : ~ In h (b_order s)) by (rewrite <- Hm; apply (aget_none_notin N.eqb Neqb_spec); assumption).
  destruct s as [ord c]. simpl in *.
  destruct ord as [|e [|x [|y r]]]; simpl in Hl; try lia.
  - destruct c; [|discriminate]. simpl. repeat split; simpl; try lia. constructor; [intros []|constructor].
  - destruct c as [|[e' ve] [|]]; try discriminate. inversion Hm; subst e'.
    change (bsize <=? len [e]) with false. cbn iota. simpl fst.
    rewrite (aset_notin N.eqb Neqb_spec) by assumption. repeat split; simpl; try lia.
    apply (NoDup_snoc [e]); assumption.
  - destruct c as [|[e' ve] [|[x' vx] [|]]]; try discriminate. inversion Hm; subst e' x'.
    change (bsize <=? len [e; x]) with true. cbn iota. change (slice [e; x] 1 bsize) with [x].
    inversion Hn as [|? ? He Hx]; subst. simpl in He.
    assert (Eex : (e =? x) = false) by (apply N.eqb_neq; intros ->; apply He; left; reflexivity).
    simpl adel. rewrite N.eqb_refl, Eex. simpl fst.
    assert (Hh : aget N.eqb [(x, vx)] h = None).
    { simpl. simpl in E. destruct (h =? e); [discriminate|]. assumption. }
    rewrite (aset_notin N.eqb Neqb_spec) by assumption. repeat split; simpl; try lia.
    apply (NoDup_snoc [x]); [assumption|]. intros [->|[]]. apply Hnin. right; left; reflexivity.
Qed.

Theorem blk_bounds : forall ops db s, bshape s ->
  Forall (fun rs : bres * bstate => len (b_order (snd rs)) <= 2 /\ len (b_cache (snd rs)) <= 2) (brun true (db, s) ops).
Proof.
  induction ops as [|op ops IH]; intros db s Sh; [constructor|].
  assert (Fin : forall s', bshape s' -> len (b_order s') <= 2 /\ len (b_cache s') <= 2).
  { intros s' (A & B & C). unfold len. rewrite <- (map_length fst (b_cache s')), A. lia. }
  destruct op as [h|h v|h]; cbn [brun bstep].
  - pose proof (bget_shape db s h Sh) as Sh'. destruct (bget db s h) as [s' r]. simpl in *.
    constructor; [apply Fin; assumption|apply IH; assumption].
  - constructor; [apply Fin; assumption|apply IH; assumption].
  - pose proof (bget_shape db s h Sh) as Sh'. destruct (bget db s h) as [s' r]. simpl in *.
    constructor; [apply Fin; assumption|apply IH; assumption].
Qed.

Lemma bshape_empty : bshape bempty.
Proof. repeat split; simpl; [constructor|lia]. Qed.

(* ============================================================ 4. WriteMessage *)
Definition sinv (seen : list (N * bool * N)) (st : sstate) : Prop :=
  forall h c p inner, aget N.eqb (s_outer st) h = Some inner -> aget Bool.eqb inner c = Some p ->
                      aget hceqb seen (h, c) = Some p.

Lemma sevict_sub fixed st h inner' c p :
  aget N.eqb (s_outer (sevict fixed st)) h = Some inner' -> aget Bool.eqb inner' c = Some p ->
  exists inner, aget N.eqb (s_outer st) h = Some inner /\ aget Bool.eqb inner c = Some p.
Proof.
  unfold sevict. destruct (ssize <=? len (s_hashes st)); [|eauto].
  destruct (s_hashes st) as [|h0 hs]; [eauto|]. destruct (s_confirms st) as [|c0 cs]; [eauto|].
  simpl. destruct (aget N.eqb (s_outer st) h0) as [inner0|] eqn:E0; [|eauto].
  destruct (fixed && (len (adel Bool.eqb inner0 c0) =? 0)).
  - intros H Hc. apply (aget_adel_sub N.eqb Neqb_spec) in H. destruct H as [H _]. eauto.
  - intros H Hc. apply (aget_aset_inv N.eqb Neqb_spec) in H. destruct H as [[-> <-]|[_ H]]; [|eauto].
    apply (aget_adel_sub Bool.eqb Beqb_spec) in Hc. destruct Hc as [Hc _]. eauto.
Qed.

Lemma sinv_ext seen st h c s : sinv seen st -> aget hceqb seen (h, c) = None -> sinv (((h, c), s) :: seen) st.
Proof.
  intros I Hn h1 c1 p inner H1 H2. pose proof (I _ _ _ _ H1 H2) as Hs. simpl.
  destruct (hceqb (h1, c1) (h, c)) eqn:E; [|assumption].
  apply hceqb_spec in E. inversion E; subst. congruence.
Qed.

Lemma sstep_send_ok fixed seen st h c s :
  sinv seen st -> aget hceqb seen (h, c) = Some s ->
  snd (sstep fixed st (SSend h c s)) = s /\ sinv seen (fst (sstep fixed st (SSend h c s))).
Proof.
  intros I Hs. simpl. destruct (aget N.eqb (s_outer st) h) as [inner|] eqn:Eo.
  - destruct (aget Bool.eqb inner c) as [p|] eqn:Ei; simpl; [|auto].
    pose proof (I _ _ _ _ Eo Ei). split; [congruence|assumption].
  - simpl. split; [reflexivity|].
    intros h1 c1 p inner H1 H2. simpl in H1.
    apply (aget_aset_inv N.eqb Neqb_spec) in H1. destruct H1 as [[<- <-]|[Ne H1]].
    + destruct (aget N.eqb (s_outer (sevict fixed st)) h) as [i|] eqn:Ei.
      * apply (aget_aset_inv Bool.eqb Beqb_spec) in H2. destruct H2 as [[<- <-]|[_ H2]]; [assumption|].
        destruct (sevict_sub _ _ _ _ _ _ Ei H2) as [inner0 [A B]]. eapply I; eassumption.
      * simpl in H2. destruct (Bool.eqb c1 c) eqn:Ec; [|discriminate].
        apply Bool.eqb_prop in Ec. inversion H2; subst. assumption.
    + destruct (sevict_sub _ _ _ _ _ _ H1 H2) as [inner0 [A B]]. eapply I; eassumption.
Qed.

Theorem send_transparent_gen fixed : forall ops seen st,
  sconsistent seen ops = true -> sinv seen st ->
  map fst (srun fixed st ops) = map sop_out ops.
Proof.
  induction ops as [|op ops IH]; intros seen st C I; [reflexivity|].
  destruct op as [h c s|s].
  - cbn [sconsistent] in C. cbn [srun].
    assert (exists seen', sconsistent seen' ops = true /\ sinv seen' st /\ aget hceqb seen' (h, c) = Some s) as (seen' & C' & I' & Hs).
    { destruct (aget hceqb seen (h, c)) as [s'|] eqn:E.
      - apply andb_true_iff in C. destruct C as [C1 C2]. apply N.eqb_eq in C1. subst s'. exists seen; auto.
      - exists (((h, c), s) :: seen). split; [assumption|]. split; [apply sinv_ext; assumption|].
        simpl. rewrite (keq_refl hceqb hceqb_spec). reflexivity. }
    pose proof (sstep_send_ok fixed seen' st h c s I' Hs) as [O I''].
    destruct (sstep fixed st (SSend h c s)) as [st' out]. simpl in *. subst out. f_equal.
    eapply IH; eassumption.
  - cbn [sconsistent] in C. cbn [srun sstep map fst sop_out]. f_equal. eapply IH; eassumption.
Qed.

Theorem send_transparent fixed ops :
  sconsistent [] ops = true -> map fst (srun fixed sempty ops) = map sop_out ops.
Proof. intros C. eapply send_transparent_gen; [exact C|]. intros h c p inner H; discriminate. Qed.

(* ---- bounds of the repaired code *)
Inductive sshape : sstate -> Prop :=
| sh0 : sshape (mkS [] [] [])
| sh1 h c p : sshape (mkS [h] [c] [(h, [(c, p)])])
| sh2 h1 c1 p1 h2 c2 p2 : h1 <> h2 -> sshape (mkS [h1; h2] [c1; c2] [(h1, [(c1, p1)]); (h2, [(c2, p2)])]).

Lemma Neqb_false a b : a <> b -> (a =? b) = false.
Proof. apply N.eqb_neq. Qed.

Lemma sstep_shape st op : sshape st -> sshape (fst (sstep true st op)).
Proof.
  intros Sh. destruct op as [h c s|s]; [|exact Sh].
  inversion Sh as [|h1 c1 p1|h1 c1 p1 h2 c2 p2 Hne]; subst.
  - simpl. apply sh1.
  - simpl. destruct (N.eqb_spec h h1) as [->|Ne].
    + simpl. destruct (Bool.eqb c c1); simpl; apply sh1.
    + simpl. unfold aset. simpl. rewrite (Neqb_false h h1) by assumption. simpl. apply sh2. congruence.
  - simpl. destruct (N.eqb_spec h h1) as [->|Ne1].
    + simpl. destruct (Bool.eqb c c1); simpl; apply sh2; assumption.
    + destruct (N.eqb_spec h h2) as [->|Ne2].
      * simpl. destruct (Bool.eqb c c2); simpl; apply sh2; assumption.
      * simpl. unfold sevict. simpl.
        repeat (rewrite ?N.eqb_refl, ?Bool.eqb_reflx, ?(Neqb_false h1 h2), ?(Neqb_false h h2) by assumption; simpl).
        unfold aset. simpl.
        repeat (rewrite ?N.eqb_refl, ?Bool.eqb_reflx, ?(Neqb_false h1 h2), ?(Neqb_false h h2) by assumption; simpl).
        apply sh2. congruence.
Qed.

Theorem send_bounds : forall ops st, sshape st ->
  Forall (fun os : N * sstate => len (s_hashes (snd os)) <= 2 /\ len (s_outer (snd os)) <= 2 /\ payloads (snd os) <= 2)
         (srun true st ops).
Proof.
  induction ops as [|op ops IH]; intros st Sh; [constructor|].
  cbn [srun]. pose proof (sstep_shape st op Sh) as Sh'. destruct (sstep true st op) as [st' out]. simpl in Sh'.
  constructor; [|apply IH; assumption].
  simpl. inversion Sh'; subst; unfold payloads, len; simpl; lia.
Qed.
