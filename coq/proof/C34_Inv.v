(* C34 — the pool invariant and its preservation by doRemoveTransaction and
   appendToTxPool. *)
From Coq Require Import ZArith NArith Bool List Lia Permutation Sorted Arith.
From ELA Require Import model.C34_Pool proof.C34_FeeList.
Import ListNotations.
Local Open Scope Z_scope.

(* ------------------------------------------------------------ small facts *)

Lemma keq_eq a b : keq a b = true <-> a = b.
Proof.
  destruct a as [a1 a2], b as [b1 b2]. unfold keq; simpl.
  rewrite andb_true_iff, !N.eqb_eq. split.
  - intros [-> ->]; reflexivity.
  - intros E; inversion E; auto.
Qed.

Lemma keq_refl a : keq a a = true.
Proof. apply keq_eq. reflexivity. Qed.

Lemma keq_neq a b : keq a b = false <-> a <> b.
Proof.
  split.
  - intros H E. apply keq_eq in E. congruence.
  - intros H. destruct (keq a b) eqn:E; [apply keq_eq in E; contradiction|reflexivity].
Qed.

Lemma skey_dec (a b : skey) : {a = b} + {a <> b}.
Proof. decide equality; apply N.eq_dec. Qed.

Lemma memN_In h l : memN h l = true <-> In h l.
Proof.
  unfold memN. rewrite existsb_exists. split.
  - intros (x & Hx & E). apply N.eqb_eq in E. subst. exact Hx.
  - intros H. exists h. split; [exact H|apply N.eqb_refl].
Qed.

Lemma memN_nIn h l : memN h l = false <-> ~ In h l.
Proof.
  rewrite <- memN_In. destruct (memN h l); split; intros H; congruence.
Qed.

Lemma In_delN x h l : In x (delN h l) <-> In x l /\ x <> h.
Proof. unfold delN. rewrite filter_In, negb_true_iff, N.eqb_neq. tauto. Qed.

Lemma NoDup_delN h l : NoDup l -> NoDup (delN h l).
Proof. apply NoDup_filter. Qed.

Lemma In_slot_del e k sm : In e (slot_del k sm) <-> In e sm /\ fst e <> k.
Proof. unfold slot_del. rewrite filter_In, negb_true_iff, keq_neq. tauto. Qed.

Lemma slot_has_In k sm : slot_has k sm = true <-> exists h, In (k, h) sm.
Proof.
  unfold slot_has. rewrite existsb_exists. split.
  - intros ((k', h) & Hin & E). simpl in E. apply keq_eq in E. subst. eauto.
  - intros (h & Hin). exists (k, h). split; [exact Hin|apply keq_refl].
Qed.

Lemma slot_get_In k sm h : slot_get k sm = Some h -> In (k, h) sm.
Proof.
  unfold slot_get. destruct (find (fun e => keq (fst e) k) sm) as [[k' h']|] eqn:E; [|discriminate].
  intros H; inversion H; subst. apply find_some in E as [Hin E]. simpl in E.
  apply keq_eq in E. subst. exact Hin.
Qed.

Lemma In_fold_del e ks sm :
  In e (fold_left (fun m k => slot_del k m) ks sm) <-> In e sm /\ ~ In (fst e) ks.
Proof.
  revert sm; induction ks as [|k ks IH]; simpl; intros sm; [tauto|].
  rewrite IH, In_slot_del. split.
  - intros [[H1 H2] H3]. split; [exact H1|]. intros [E|E]; [congruence|contradiction].
  - intros [H1 H2]. repeat split; [exact H1| |]; intros E; apply H2; [left; congruence|right; exact E].
Qed.

Lemma NoDup_fold_del ks sm :
  NoDup (map fst sm) -> NoDup (map fst (fold_left (fun m k => slot_del k m) ks sm)).
Proof.
  revert sm; induction ks as [|k ks IH]; simpl; intros sm H; [exact H|].
  apply IH. unfold slot_del. apply NoDup_map_filter. exact H.
Qed.

Lemma In_fold_set h e ks sm :
  In e (fold_left (fun m k => slot_set k h m) ks sm) <->
  (In (fst e) ks /\ snd e = h) \/ (~ In (fst e) ks /\ In e sm).
Proof.
  revert sm; induction ks as [|k ks IH]; simpl; intros sm; [tauto|].
  rewrite IH. unfold slot_set. simpl. rewrite In_slot_del.
  destruct e as [k' x]; simpl. destruct (skey_dec k k') as [->|Hne].
  - split.
    + intros [[H1 H2]|[H1 [H2|[H2 H3]]]]; [left; auto| inversion H2; left; auto | congruence].
    + intros [[H1 H2]|[H1 H2]].
      * subst. destruct (in_dec skey_dec k' ks); [left; auto|right; split; auto].
      * exfalso; apply H1; left; reflexivity.
  - split.
    + intros [[H1 H2]|[H1 [H2|[H2 H3]]]].
      * left; auto.
      * inversion H2; congruence.
      * right; split; [|exact H2]. intros [E|E]; [congruence|contradiction].
    + intros [[[E|H1] H2]|[H1 H2]]; [congruence|left; auto|].
      right. split; [intros E; apply H1; right; exact E|]. right. split; [exact H2|congruence].
Qed.

Lemma NoDup_fold_set h ks sm :
  NoDup (map fst sm) -> NoDup (map fst (fold_left (fun m k => slot_set k h m) ks sm)).
Proof.
  revert sm; induction ks as [|k ks IH]; simpl; intros sm H; [exact H|].
  apply IH. unfold slot_set. simpl. constructor.
  - intros Hin. apply in_map_iff in Hin as (e & E & He). apply In_slot_del in He as [_ He]. congruence.
  - unfold slot_del. apply NoDup_map_filter. exact H.
Qed.

Lemma i64_add a b : i64 (i64 a + b) = i64 (a + b).
Proof.
  unfold i64. f_equal.
  replace ((a + two63) mod two64 - two63 + b + two63) with ((a + two63) mod two64 + b) by ring.
  rewrite Zplus_mod_idemp_l. f_equal. ring.
Qed.

Lemma i64_sub a b : i64 (i64 a - b) = i64 (a - b).
Proof.
  replace (i64 a - b) with (i64 a + (- b)) by ring.
  replace (a - b) with (a + (- b)) by ring. apply i64_add.
Qed.

(* ------------------------------------------------------------ invariant *)

Section Inv.
  Variable rlt : Z * Z -> Z * Z -> bool.
  Hypothesis rlt_irrefl : forall a, rlt a a = false.
  Hypothesis rlt_trans : forall a b c, rlt a b = true -> rlt b c = true -> rlt a c = true.
  Hypothesis rlt_negtrans : forall a b c, rlt a b = false -> rlt b c = false -> rlt a c = false.
  Variable U : N -> txinfo.
  Variable tbl : list slot_desc.
  (* tx.GetSize() of a real transaction *)
  Hypothesis size_ok : forall h, 0 < t_size (U h) < two32.

  Notation keys := (keys_of U tbl).

  Definition sum_sizes (l : list N) : Z := fold_right (fun h a => size32 U h + a) 0 l.
  Definition budget_of (h : N) : Z := if is_prop U h then t_budget (U h) else 0.
  Definition sum_budget (l : list N) : Z := fold_right (fun h a => budget_of h + a) 0 l.

  Lemma size32_eq h : size32 U h = t_size (U h).
  Proof. unfold size32. apply Z.mod_small. pose proof (size_ok h). lia. Qed.

  Lemma sum_sizes_nonneg l : 0 <= sum_sizes l.
  Proof.
    induction l as [|x l IH]; simpl; [lia|]. rewrite size32_eq. pose proof (size_ok x). lia.
  Qed.

  Lemma sum_sizes_delN h l : NoDup l -> In h l -> sum_sizes (delN h l) = sum_sizes l - size32 U h.
  Proof.
    induction l as [|x l IH]; intros Hnd Hin; [destruct Hin|].
    inversion Hnd as [|? ? Hn Hd]; subst. simpl.
    destruct (N.eqb_spec x h) as [->|Hne]; simpl.
    - assert (E : delN h l = l).
      { unfold delN. apply filter_all. intros y Hy.
        destruct (N.eqb_spec y h); [subst; contradiction|reflexivity]. }
      fold (delN h l). rewrite E. lia.
    - destruct Hin as [E|Hin]; [congruence|]. fold (delN h l). rewrite (IH Hd Hin). lia.
  Qed.

  Lemma sum_budget_delN h l : NoDup l -> In h l -> sum_budget (delN h l) = sum_budget l - budget_of h.
  Proof.
    induction l as [|x l IH]; intros Hnd Hin; [destruct Hin|].
    inversion Hnd as [|? ? Hn Hd]; subst. simpl.
    destruct (N.eqb_spec x h) as [->|Hne]; simpl.
    - assert (E : delN h l = l).
      { unfold delN. apply filter_all. intros y Hy.
        destruct (N.eqb_spec y h); [subst; contradiction|reflexivity]. }
      fold (delN h l). rewrite E. lia.
    - destruct Hin as [E|Hin]; [congruence|]. fold (delN h l). rewrite (IH Hd Hin). lia.
  Qed.

  Lemma sum_sizes_app a b : sum_sizes (a ++ b) = sum_sizes a + sum_sizes b.
  Proof. induction a as [|x a IH]; simpl; [reflexivity|]. rewrite IH. lia. Qed.

  Lemma sum_budget_app a b : sum_budget (a ++ b) = sum_budget a + sum_budget b.
  Proof. induction a as [|x a IH]; simpl; [reflexivity|]. rewrite IH. lia. Qed.

  Lemma map_item_delN h l :
    map (item_of U) (delN h l) = filter (fun x => negb (i_hash x =? h)%N) (map (item_of U) l).
  Proof.
    induction l as [|x l IH]; simpl; [reflexivity|].
    destruct (negb (x =? h)%N); simpl; rewrite IH; reflexivity.
  Qed.

  (* everything except "every key of a held tx is indexed" *)
  Record weak (p : pool) : Prop := mkWeak {
    w_nodup : NoDup (p_txs p);
    w_wf : forall h, In h (p_txs p) -> err_slot U tbl h = None;
    w_sound : forall k h, In (k, h) (p_slots p) -> In h (p_txs p) /\ In k (keys h);
    w_fun : NoDup (map fst (p_slots p));
    w_disj : forall a b k, In a (p_txs p) -> In b (p_txs p) ->
                           In k (keys a) -> In k (keys b) -> a = b;
    w_perm : Permutation (map (item_of U) (p_txs p)) (p_fees p);
    w_sorted : fee_sorted rlt (p_fees p);
    w_total : p_total p = sum_sizes (p_txs p);
    w_max : p_total p <= p_max p;
    w_maxr : 0 <= p_max p < two63;
    w_used : p_used p = i64 (sum_budget (p_txs p))
  }.

  Definition indexed (p : pool) (h : N) : Prop :=
    forall k, In k (keys h) -> In (k, h) (p_slots p).

  Definition consistent (p : pool) : Prop :=
    weak p /\ forall h, In h (p_txs p) -> indexed p h.

  Lemma empty_consistent m : 0 <= m < two63 -> consistent (empty_pool m).
  Proof.
    intros Hm. split.
    - constructor; simpl; try constructor; try tauto; try lia; try reflexivity.
    - intros h [].
  Qed.

  (* ---------------------------------------------------------- do_remove *)

  Lemma do_remove_txs h p :
    p_txs (do_remove rlt U tbl h p) = if memN h (p_txs p) then delN h (p_txs p) else p_txs p.
  Proof.
    unfold do_remove. destruct (memN h (p_txs p)); [|reflexivity].
    destruct (fee_remove _ _ _ _ _ _); reflexivity.
  Qed.

  Lemma do_remove_slots h p :
    p_slots (do_remove rlt U tbl h p) =
    if memN h (p_txs p) then remove_keys U tbl h (p_slots p) else p_slots p.
  Proof.
    unfold do_remove. destruct (memN h (p_txs p)); [|reflexivity].
    destruct (fee_remove _ _ _ _ _ _); reflexivity.
  Qed.

  Lemma do_remove_max h p : p_max (do_remove rlt U tbl h p) = p_max p.
  Proof.
    unfold do_remove. destruct (memN h (p_txs p)); [|reflexivity].
    destruct (fee_remove _ _ _ _ _ _); reflexivity.
  Qed.

  Lemma remove_keys_held p h : weak p -> In h (p_txs p) ->
    remove_keys U tbl h (p_slots p) = fold_left (fun m k => slot_del k m) (keys h) (p_slots p).
  Proof.
    intros Hw Hin. unfold remove_keys, removable_keys. rewrite (w_wf p Hw h Hin). reflexivity.
  Qed.

  Lemma do_remove_weak h p : weak p -> weak (do_remove rlt U tbl h p).
  Proof.
    intros Hw. unfold do_remove. destruct (memN h (p_txs p)) eqn:Em; [|exact Hw].
    apply memN_In in Em. pose proof (remove_keys_held p h Hw Em) as Erk.
    destruct Hw as [Hnd Hwf Hsound Hfun Hdisj Hperm Hsorted Htotal Hmax Hmaxr Hused].
    assert (Hin : In (item_of U h) (p_fees p)).
    { eapply Permutation_in; [exact Hperm|]. apply in_map. exact Em. }
    assert (Hndf : NoDup (map i_hash (p_fees p))).
    { eapply Permutation_NoDup; [apply Permutation_map; exact Hperm|].
      rewrite map_map. simpl. rewrite map_id. exact Hnd. }
    assert (Hrate : (t_fee (U h), t_size (U h)) = rate_of (item_of U h)).
    { unfold rate_of, item_of; simpl. rewrite size32_eq. reflexivity. }
    rewrite Hrate.
    rewrite (fee_remove_found rlt rlt_irrefl rlt_negtrans (p_fees p) h (item_of U h)
               (t_size (U h)) (p_total p) Hsorted Hndf Hin eq_refl).
    pose proof (sum_sizes_delN h (p_txs p) Hnd Em) as Esz.
    pose proof (sum_sizes_nonneg (delN h (p_txs p))) as Hnn.
    pose proof (size_ok h) as Hsz.
    assert (Htot : u64 (p_total p - t_size (U h)) = sum_sizes (delN h (p_txs p))).
    { rewrite Esz, size32_eq, <- Htotal. unfold u64. apply Z.mod_small.
      rewrite Esz, size32_eq, <- Htotal in Hnn. unfold two63, two64 in *. lia. }
    rewrite Erk.
    constructor; simpl.
    - apply NoDup_delN. exact Hnd.
    - intros x Hx. apply In_delN in Hx as [Hx _]. auto.
    - intros k x Hx. apply In_fold_del in Hx as [Hx Hk]. simpl in Hk.
      destruct (Hsound k x Hx) as [Hxt Hkx]. split; [|exact Hkx].
      apply In_delN. split; [exact Hxt|]. intros ->. contradiction.
    - apply NoDup_fold_del. exact Hfun.
    - intros a b k Ha Hb. apply In_delN in Ha as [Ha _]. apply In_delN in Hb as [Hb _].
      apply Hdisj; assumption.
    - rewrite map_item_delN. apply Permutation_filter'. exact Hperm.
    - apply SS_filter. exact Hsorted.
    - exact Htot.
    - rewrite Htot, Esz, size32_eq. rewrite <- Htotal. lia.
    - exact Hmaxr.
    - rewrite (sum_budget_delN h (p_txs p) Hnd Em). unfold budget_of.
      destruct (is_prop U h).
      + rewrite Hused. apply i64_sub.
      + rewrite Hused. f_equal. lia.
  Qed.

  Lemma do_remove_consistent h p : consistent p -> consistent (do_remove rlt U tbl h p).
  Proof.
    intros [Hw Hidx]. split; [apply do_remove_weak; exact Hw|].
    intros x Hx k Hk. rewrite do_remove_txs in Hx. rewrite do_remove_slots.
    destruct (memN h (p_txs p)) eqn:Em; [|apply Hidx; assumption].
    apply memN_In in Em. apply In_delN in Hx as [Hx Hne].
    rewrite (remove_keys_held p h Hw Em). apply In_fold_del. split; [apply Hidx; assumption|].
    simpl. intros Hkh. apply Hne. eapply (w_disj p Hw); eassumption.
  Qed.

  (* any property kept by doRemoveTransaction is kept by the loops built on it *)
  Definition stable (P : pool -> Prop) : Prop :=
    forall x p, P p -> P (do_remove rlt U tbl x p).

  Lemma weak_stable : stable weak.
  Proof. intros x p. apply do_remove_weak. Qed.
  Lemma consistent_stable : stable consistent.
  Proof. intros x p. apply do_remove_consistent. Qed.

  Lemma fold_sel_stable P (sel : N -> bool) l p : stable P -> P p ->
    P (fold_left (fun q h => if sel h then do_remove rlt U tbl h q else q) l p).
  Proof.
    intros Hs. revert p; induction l as [|x l IH]; simpl; intros p Hp; [exact Hp|].
    apply IH. destruct (sel x); [apply Hs|]; exact Hp.
  Qed.

  Lemma purge_stable P sel p : stable P -> P p -> P (purge rlt U tbl sel p).
  Proof. intros. unfold purge. apply fold_sel_stable; assumption. Qed.

  Lemma fold_get_stable P l p : stable P -> P p ->
    P (fold_left (fun q o =>
         match inputs_slot tbl with
         | Some s => match slot_get (s, o) (p_slots q) with
                     | Some x => do_remove rlt U tbl x q
                     | None => q end
         | None => q end) l p).
  Proof.
    intros Hs. revert p; induction l as [|x l IH]; simpl; intros p Hp; [exact Hp|].
    apply IH. destruct (inputs_slot tbl); [|exact Hp].
    destruct (slot_get _ _); [apply Hs|]; exact Hp.
  Qed.

  Lemma remove_api_stable P h p : stable P -> P p -> P (remove_api rlt U tbl h p).
  Proof. intros. unfold remove_api. apply fold_get_stable; assumption. Qed.

  (* ---------------------------------------------------------- append *)

  Lemma over_size_false p sz : weak p -> 0 < sz < two32 -> over_size p sz = false ->
    u64 (p_total p + sz) = p_total p + sz /\ p_total p + sz <= p_max p.
  Proof.
    intros Hw Hsz Ho. unfold over_size in Ho.
    assert (E : u64 (p_total p + sz) = p_total p + sz).
    { unfold u64. apply Z.mod_small. pose proof (w_max p Hw). pose proof (w_maxr p Hw).
      pose proof (sum_sizes_nonneg (p_txs p)). rewrite <- (w_total p Hw) in H1.
      unfold two32, two63, two64 in *. lia. }
    rewrite E in Ho. split; [exact E|]. lia.
  Qed.

  Lemma NoDup_snoc (l : list N) h : NoDup l -> ~ In h l -> NoDup (l ++ [h]).
  Proof.
    intros Hnd Hn. eapply Permutation_NoDup; [apply Permutation_cons_append|].
    constructor; assumption.
  Qed.

  Lemma do_add_not_over h p :
    over_size p (size32 U h) = false -> 0 < size32 U h ->
    do_add rlt U tbl h p =
      (mkPool (if memN h (p_txs p) then p_txs p else p_txs p ++ [h])
              (fee_insert rlt (item_of U h) (p_fees p)) (u64 (p_total p + size32 U h))
              (p_max p) (p_slots p)
              (if is_prop U h then i64 (p_used p + t_budget (U h)) else p_used p), Ok).
  Proof.
    intros Ho Hs. unfold do_add. cbv zeta. rewrite Ho.
    destruct (Z.leb_spec (size32 U h) 0); [lia|].
    destruct (rev (p_fees p)); reflexivity.
  Qed.

  (* the body of appendToTxPool after the duplicate / chain / conflict checks *)
  Lemma add_consistent h p :
    consistent p -> ~ In h (p_txs p) -> verify_tx U tbl h (p_slots p) = true ->
    over_size p (t_size (U h)) = false ->
    let p1 := mkPool (p_txs p) (p_fees p) (p_total p) (p_max p)
                     (append_keys U tbl h (p_slots p)) (p_used p) in
    snd (do_add rlt U tbl h p1) = Ok /\ consistent (fst (do_add rlt U tbl h p1)).
  Proof.
    intros [Hw Hidx] Hnin Hver Hover p1.
    pose proof (size_ok h) as Hsz.
    destruct (over_size_false p _ Hw Hsz Hover) as [Eu Hle].
    unfold verify_tx in Hver. destruct (err_slot U tbl h) eqn:Eerr; [discriminate|].
    rewrite forallb_forall in Hver.
    assert (Hfree : forall k x, In k (keys h) -> ~ In (k, x) (p_slots p)).
    { intros k x Hk Hin. specialize (Hver k Hk). apply negb_true_iff in Hver.
      assert (slot_has k (p_slots p) = true) by (apply slot_has_In; eauto). congruence. }
    rewrite (do_add_not_over h p1); [|rewrite size32_eq; exact Hover|rewrite size32_eq; lia].
    subst p1. simpl. rewrite size32_eq.
    assert (Em : memN h (p_txs p) = false) by (apply memN_nIn; exact Hnin).
    rewrite Em. split; [reflexivity|].
    destruct Hw as [Hnd Hwf Hsound Hfun Hdisj Hperm Hsorted Htotal Hmax Hmaxr Hused].
    unfold append_keys.
    split; [constructor; simpl|]; simpl.
    - apply NoDup_snoc; assumption.
    - intros x Hx. apply in_app_or in Hx as [Hx|[<-|[]]]; auto.
    - intros k x Hx. apply In_fold_set in Hx. simpl in Hx. destruct Hx as [[Hk E]|[Hk Hx]].
      + subst x. split; [apply in_or_app; right; left; reflexivity|exact Hk].
      + destruct (Hsound k x Hx) as [Ha Hb]. split; [apply in_or_app; left; exact Ha|exact Hb].
    - apply NoDup_fold_set. exact Hfun.
    - intros a b k Ha Hb Hka Hkb.
      apply in_app_or in Ha as [Ha|[<-|[]]]; apply in_app_or in Hb as [Hb|[<-|[]]].
      + eapply Hdisj; eassumption.
      + exfalso. eapply Hfree; [exact Hkb|]. apply Hidx; eassumption.
      + exfalso. eapply Hfree; [exact Hka|]. apply Hidx; eassumption.
      + reflexivity.
    - rewrite map_app. simpl.
      eapply Permutation_trans; [apply Permutation_sym, Permutation_cons_append|].
      eapply Permutation_trans; [apply perm_skip; exact Hperm|].
      apply fee_insert_perm.
    - apply fee_insert_sorted; assumption.
    - rewrite Eu, sum_sizes_app. simpl. rewrite size32_eq. lia.
    - rewrite Eu. exact Hle.
    - exact Hmaxr.
    - rewrite sum_budget_app. simpl. unfold budget_of. destruct (is_prop U h).
      + rewrite Hused, i64_add. f_equal. lia.
      + rewrite Hused. f_equal. lia.
    - intros x Hx k Hk. apply In_fold_set. simpl.
      apply in_app_or in Hx as [Hx|[<-|[]]].
      + right. split; [|apply Hidx; assumption].
        intros Hkh. eapply Hfree; [exact Hkh|]. apply Hidx; eassumption.
      + left. split; [exact Hk|reflexivity].
  Qed.
End Inv.
