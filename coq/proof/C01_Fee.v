(* C01 proofs about model/C01_Fee.v *)
From Coq Require Import ZArith Bool Lia List.
From ELA Require Import model.C01_Fee.
Import ListNotations.
Local Open Scope Z_scope.

Local Notation M := 18446744073709551616.
Local Notation H := 9223372036854775808.

(* ---------- int64 wrap ---------- *)

Lemma wrap64_range z : i64_min <= wrap64 z <= i64_max.
Proof.
  unfold wrap64, i64_min, i64_max.
  pose proof (Z.mod_pos_bound (z + H) M ltac:(lia)). lia.
Qed.

Lemma wrap64_id z : i64_min <= z <= i64_max -> wrap64 z = z.
Proof.
  unfold wrap64, i64_min, i64_max. intros Hz.
  rewrite Z.mod_small by lia. lia.
Qed.

Lemma wrap64_mod z : wrap64 z mod M = z mod M.
Proof.
  unfold wrap64.
  rewrite Zminus_mod_idemp_l.
  f_equal. lia.
Qed.

Lemma in_i64_spec z : in_i64 z = true <-> i64_min <= z <= i64_max.
Proof. unfold in_i64. rewrite andb_true_iff, !Z.leb_le. tauto. Qed.

Lemma mod_eq_in_range a b :
  i64_min <= a <= i64_max -> i64_min <= b <= i64_max -> a mod M = b mod M -> a = b.
Proof.
  unfold i64_min, i64_max. intros Ha Hb E.
  rewrite <- (wrap64_id a), <- (wrap64_id b) by (unfold i64_min, i64_max; lia).
  unfold wrap64.
  rewrite <- (Zplus_mod_idemp_l a), <- (Zplus_mod_idemp_l b), E. reflexivity.
Qed.

(* ---------- sums ---------- *)

Lemma wsum_acc_mod l a :
  fold_left (fun a v => wrap64 (a + v)) l a mod M = (a + exact_sum l) mod M.
Proof.
  revert a. induction l as [|x l IH]; intros a; cbn [fold_left exact_sum fold_right].
  - f_equal. lia.
  - rewrite IH. rewrite <- Zplus_mod_idemp_l, wrap64_mod, Zplus_mod_idemp_l.
    f_equal. unfold exact_sum. lia.
Qed.

Lemma wsum_mod l : wsum l mod M = exact_sum l mod M.
Proof. unfold wsum. rewrite wsum_acc_mod. reflexivity. Qed.

Lemma wsum_acc_range l a :
  i64_min <= a <= i64_max ->
  i64_min <= fold_left (fun a v => wrap64 (a + v)) l a <= i64_max.
Proof.
  revert a. induction l as [|x l IH]; intros a Ha; cbn [fold_left]; [exact Ha|].
  apply IH, wrap64_range.
Qed.

Lemma wsum_range l : i64_min <= wsum l <= i64_max.
Proof. apply wsum_acc_range. unfold i64_min, i64_max. lia. Qed.

Lemma wsum_exact l : i64_min <= exact_sum l <= i64_max -> wsum l = exact_sum l.
Proof.
  intros Hr. apply mod_eq_in_range; [apply wsum_range|exact Hr|apply wsum_mod].
Qed.

Lemma exact_sum_nonneg l : Forall (fun v => 0 <= v) l -> 0 <= exact_sum l.
Proof.
  unfold exact_sum. induction 1 as [|x l Hx _ IH]; cbn [fold_right]; lia.
Qed.

(* ---------- the repaired fee ---------- *)

Lemma tx_fee_some refs outs f :
  tx_fee refs outs = Some f ->
  f = exact_sum refs - exact_sum outs /\ i64_min <= f <= i64_max.
Proof.
  unfold tx_fee. destruct (in_i64 _) eqn:E; [|discriminate].
  intros [= <-]. apply in_i64_spec in E. split; [reflexivity|exact E].
Qed.

Lemma check_fee_some k pr refs outs f :
  check_fee k pr refs outs = Some f ->
  f = exact_sum refs - exact_sum outs /\ i64_min <= f <= i64_max /\
  match k with KActivate => f = 0 | _ => p_minfee pr <= f end.
Proof.
  unfold check_fee. destruct (tx_fee refs outs) as [g|] eqn:E; [|discriminate].
  apply tx_fee_some in E. destruct E as [E R].
  destruct k.
  - destruct (Z.ltb_spec g (p_minfee pr)); [discriminate|]. intros [= <-]. auto.
  - destruct (Z.ltb_spec g (p_minfee pr)); [discriminate|]. intros [= <-]. auto.
  - destruct (Z.eqb_spec g 0); [|discriminate]. intros [= <-]. auto.
Qed.

(* accepted through the fee check => exact outputs <= exact inputs *)
Theorem accept_no_inflation k pr outs refs :
  0 <= p_minfee pr ->
  accept k pr false outs refs = true ->
  exact_sum (map o_val outs) <= exact_sum refs.
Proof.
  intros Hm. unfold accept. rewrite andb_true_iff, orb_false_l.
  intros [_ Hf]. destruct (check_fee k pr refs (map o_val outs)) as [f|] eqn:E; [|discriminate].
  apply check_fee_some in E. destruct E as (E & _ & Hk).
  destruct k; lia.
Qed.

(* the fee that is recorded for an accepted transaction is the exact difference *)
Theorem accept_fee_exact k pr refs outs f :
  check_fee k pr refs outs = Some f ->
  f = exact_sum refs - exact_sum outs.
Proof. intros E. apply check_fee_some in E. tauto. Qed.

(* no combination of (individually valid or not) amounts whose exact total
   exceeds the inputs passes *)
Theorem no_wrap_combination k pr outs refs :
  0 <= p_minfee pr ->
  exact_sum refs < exact_sum (map o_val outs) ->
  accept k pr false outs refs = false.
Proof.
  intros Hm Hlt. destruct (accept k pr false outs refs) eqn:E; [|reflexivity].
  apply accept_no_inflation in E; [lia|exact Hm].
Qed.

(* transaction types that end in SpecialContextCheck without a fee check:
   those with the "no output" CheckTransactionOutput create nothing *)
Lemma length_zero_nil {A} (l : list A) : Z.of_nat (length l) =? 0 = true -> l = [].
Proof. destruct l; [reflexivity|]. cbn [length]. intros E. apply Z.eqb_eq in E. lia. Qed.

Theorem no_output_kinds k pr e outs refs :
  (k = KNone \/ (k = KActivate /\ p_height pr <= p_nft pr)) ->
  accept k pr e outs refs = true -> outs = [].
Proof.
  unfold accept. rewrite andb_true_iff. intros [->|[-> Hh]] [Ho _]; cbn [check_outputs] in Ho.
  - apply length_zero_nil, Ho.
  - destruct (Z.leb_spec (p_height pr) (p_nft pr)); [|lia]. apply length_zero_nil, Ho.
Qed.

(* every output of an accepted standard transaction is individually valid *)
Theorem std_outputs_valid pr e outs refs :
  accept KStd pr e outs refs = true ->
  1 <= Z.of_nat (length outs) <= 65535 /\ Forall (fun o => 0 <= o_val o /\ o_asset o = true) outs.
Proof.
  unfold accept. rewrite andb_true_iff. intros [Ho _]. cbn [check_outputs] in Ho.
  rewrite !andb_true_iff, Z.leb_le, Z.leb_le, forallb_forall in Ho.
  destruct Ho as [[H1 H2] H3]. split; [lia|].
  apply Forall_forall. intros o Hin. specialize (H3 o Hin).
  unfold std_output_ok in H3. rewrite !andb_true_iff, Z.leb_le in H3. tauto.
Qed.

(* ActivateProducer at any height: every output is individually valid *)
Theorem activate_outputs_valid pr e outs refs :
  accept KActivate pr e outs refs = true ->
  Forall (fun o => 0 <= o_val o /\ o_asset o = true) outs.
Proof.
  unfold accept. rewrite andb_true_iff. intros [Ho _]. cbn [check_outputs] in Ho.
  destruct (p_height pr <=? p_nft pr).
  - apply length_zero_nil in Ho. subst. constructor.
  - rewrite orb_true_iff in Ho. destruct Ho as [Ho|Ho].
    + apply length_zero_nil in Ho. subst. constructor.
    + rewrite !andb_true_iff, forallb_forall in Ho. destruct Ho as [_ H3].
      apply Forall_forall. intros o Hin. specialize (H3 o Hin).
      unfold std_output_ok in H3. rewrite !andb_true_iff, Z.leb_le in H3. tauto.
Qed.

(* ---------- what was wrong before the repair ---------- *)

Definition legacy_pr : params := P 2000000 88812 1405000 true 100.
Definition legacy_out : outp := O 4611686018427387904 true 33 false 0.

Theorem legacy_wrapping_fee_unsound :
  exists pr outs refs,
    0 <= p_minfee pr /\
    Forall (fun o => 0 <= o_val o <= i64_max) outs /\
    Forall (fun v => 0 <= v <= i64_max) refs /\
    legacy_accept pr outs refs = true /\
    exact_sum refs < exact_sum (map o_val outs) /\
    accept KStd pr false outs refs = false.
Proof.
  exists legacy_pr, [legacy_out; legacy_out; legacy_out; legacy_out], [10000].
  split; [cbn; lia|]. split.
  { repeat constructor; cbn; unfold i64_max; lia. }
  split. { repeat constructor; unfold i64_max; lia. }
  split; [vm_compute; reflexivity|].
  split; [vm_compute; reflexivity|vm_compute; reflexivity].
Qed.

(* ---------- block side ---------- *)

Lemma ela_vals_all l : forallb snd l = true -> ela_vals l = map fst l.
Proof.
  unfold ela_vals. induction l as [|[v b] l IH]; cbn [forallb filter map snd fst]; [reflexivity|].
  rewrite andb_true_iff. intros [-> Hl]. cbn [map fst]. f_equal. apply IH, Hl.
Qed.

Lemma wsum_nil : wsum [] = 0.
Proof. reflexivity. Qed.

(* GetTxFee agrees with the fee the checker accepted (all amounts int64, all
   assets ELA as CheckTransactionOutput demands) *)
Theorem fee_map_agrees k pr refs outs f :
  forallb snd refs = true -> forallb snd outs = true ->
  i64_min <= exact_sum (map fst refs) <= i64_max ->
  i64_min <= exact_sum (map fst outs) <= i64_max ->
  check_fee k pr (map fst refs) (map fst outs) = Some f ->
  tx_fee_map_ela refs outs = f.
Proof.
  intros Hr Ho Rr Ro E. apply check_fee_some in E. destruct E as (E & R & _).
  unfold tx_fee_map_ela. rewrite (ela_vals_all _ Hr), (ela_vals_all _ Ho).
  assert (G : wrap64 (wsum (map fst refs) - wsum (map fst outs)) = f).
  { rewrite !wsum_exact by assumption. rewrite <- E. apply wrap64_id, R. }
  destruct (map fst outs) as [|o os] eqn:Eo, (map fst refs) as [|r rs] eqn:Er.
  - rewrite E. reflexivity.
  - rewrite <- G. rewrite wsum_nil, Z.sub_0_r. symmetry. apply wrap64_id, wsum_range.
  - rewrite <- G. rewrite wsum_nil. reflexivity.
  - exact G.
Qed.

(* the block's fee total is exact as long as it is representable *)
Theorem block_fee_exact fees :
  i64_min <= exact_sum fees <= i64_max -> block_fee fees = exact_sum fees.
Proof. apply wsum_exact. Qed.

(* ---------- every type that reaches the fee check, whatever its output check ---------- *)

Theorem fee_check_bounds k pr refs outs f :
  0 <= p_minfee pr -> check_fee k pr refs outs = Some f ->
  exact_sum outs <= exact_sum refs.
Proof.
  intros Hm E. apply check_fee_some in E. destruct E as (E & _ & Hk). destruct k; lia.
Qed.

(* ---------- types that end early with outputs ---------- *)

Theorem sidepow_new_creates_nothing outs :
  sidepow_new_outputs_ok outs = true -> exact_sum (map o_val outs) = 0.
Proof.
  destruct outs as [|o [|o' outs]]; cbn [sidepow_new_outputs_ok]; try discriminate.
  rewrite andb_true_iff, Z.eqb_eq. intros [E _]. cbn [map exact_sum fold_right]. lia.
Qed.

Lemma mod_le_self a : 0 <= a -> a mod M <= a.
Proof. intros Ha. apply Z.mod_le; lia. Qed.

(* an accepted appropriation moves CR assets, it does not create value *)
Theorem approp_moves_not_creates pr h0 h1 needed amount outs refs :
  accept_approp pr h0 h1 needed amount outs refs = true ->
  Forall (fun o => o_val o <= i64_max) outs ->
  Forall (fun r => 0 <= fst r) refs ->
  exact_sum (map o_val outs) <= exact_sum (map fst refs) /\
  (exact_sum (map fst refs) <= i64_max ->
   exact_sum (map o_val outs) = exact_sum (map fst refs)) /\
  Forall (fun r => snd r = true) refs.
Proof.
  unfold accept_approp, approp_outputs_ok, approp_special_ok.
  rewrite !andb_true_iff. intros [[[[Hn _] _] Hstd] [[[_ Htag] Hsum] _]] Hmax Hpos.
  apply Z.eqb_eq in Hn, Hsum.
  destruct outs as [|a [|b [|c outs]]]; cbn [length] in Hn; try lia.
  cbn [forallb] in Hstd. rewrite !andb_true_iff in Hstd. destruct Hstd as [Ha [Hb _]].
  unfold std_output_ok in Ha, Hb. rewrite !andb_true_iff, Z.leb_le in Ha, Hb.
  assert (Ha0 : 0 <= o_val a) by tauto. assert (Hb0 : 0 <= o_val b) by tauto.
  inversion Hmax as [|? ? Ha1 Hmax']; subst. inversion Hmax' as [|? ? Hb1 _]; subst.
  cbn [map] in *.
  assert (Ho : exact_sum [o_val a; o_val b] = o_val a + o_val b) by (cbn; lia).
  assert (Hr : 0 <= exact_sum (map fst refs)).
  { apply exact_sum_nonneg. apply Forall_forall. intros x Hx. apply in_map_iff in Hx.
    destruct Hx as [r [<- Hr]]. rewrite Forall_forall in Hpos. apply Hpos, Hr. }
  assert (Hmod : exact_sum (map fst refs) mod M = (o_val a + o_val b) mod M).
  { rewrite <- Ho, <- !wsum_mod, Hsum. reflexivity. }
  unfold i64_max in *.
  rewrite (Z.mod_small (o_val a + o_val b)) in Hmod by lia.
  pose proof (mod_le_self _ Hr) as Hle.
  rewrite Ho. split; [lia|]. split.
  - intros Hsmall. rewrite Z.mod_small in Hmod by lia. lia.
  - apply Forall_forall. intros r Hin. rewrite forallb_forall in Htag. apply Htag, Hin.
Qed.

(* ---------- distinct spent outputs ---------- *)

Lemma nodup_dedup seen ins :
  nodup_ops seen ins = true -> dedup_from seen (map i_op ins) = map i_op ins.
Proof.
  revert seen. induction ins as [|i r IH]; intros seen; cbn [nodup_ops map dedup_from]; [reflexivity|].
  rewrite andb_true_iff, negb_true_iff. intros [Hm Hr]. rewrite Hm. f_equal. apply IH, Hr.
Qed.

Lemma references_spent utxo ins :
  check_inputs ins = true -> exact_sum (references utxo ins) = spent_total utxo ins.
Proof.
  unfold check_inputs, spent_total, spent_outpoints, references. rewrite !andb_true_iff.
  intros [_ Hn]. rewrite (nodup_dedup _ _ Hn), map_map. reflexivity.
Qed.

(* accepted => exact outputs <= exact sum over the DISTINCT outpoints spent *)
Theorem accept_tx_no_inflation k pr utxo ins outs :
  0 <= p_minfee pr ->
  accept_tx k pr utxo ins outs = true ->
  exact_sum (map o_val outs) <= spent_total utxo ins.
Proof.
  intros Hm. unfold accept_tx. rewrite andb_true_iff. intros [Hi Ha].
  rewrite <- (references_spent utxo ins Hi). apply (accept_no_inflation k pr); assumption.
Qed.

(* an outpoint named twice - whatever the Sequence fields - is rejected *)
Theorem repeated_outpoint_rejected pre mid post a b :
  i_op a = i_op b -> check_inputs (pre ++ a :: mid ++ b :: post) = false.
Proof.
  intros E. unfold check_inputs.
  assert (G : forall seen l, nodup_ops seen (l ++ a :: mid ++ b :: post) = false).
  { intros seen l. revert seen. induction l as [|x l IH]; intros seen; cbn [app nodup_ops].
    - assert (H2 : forall s m, memz (i_op a) s = true -> nodup_ops s (m ++ b :: post) = false).
      { intros s m. revert s. induction m as [|y m IHm]; intros s Hs; cbn [app nodup_ops].
        - rewrite <- E, Hs. reflexivity.
        - destruct (memz (i_op y) s); [reflexivity|]. cbn [negb andb]. apply IHm.
          cbn [memz existsb]. fold (memz (i_op a) s). rewrite Hs. apply orb_true_r. }
      destruct (memz (i_op a) seen); [reflexivity|]. cbn [negb andb]. apply H2.
      cbn [memz existsb]. rewrite Z.eqb_refl. reflexivity.
    - destruct (memz (i_op x) seen); [reflexivity|]. cbn [negb andb]. apply IH. }
  rewrite G. apply andb_false_r.
Qed.
