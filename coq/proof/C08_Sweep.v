(* C08 — iterative checker vs recursive parser: an exhaustive sweep of a finite
   domain.  The general equality is not proved (see notes/C08.md); this file is
   separate so that it is compiled (about a minute) only when the model changes. *)
From Coq Require Import List Bool Arith NArith.
From ELA Require Import model.C08_PMT.
Import ListNotations.

(* Hashes are numbers, the parent function is a deliberately colliding one
   (values 1..5), so that the duplicate-sibling paths are exercised as well.
   Roots: the one the recursive parser computes (accept path) and 0 (reject). *)
Section Sweep.
  Local Open Scope N_scope.
  Definition sweep_h2 (a b : N) : N := (a * 3 + b) mod 5 + 1.

  Definition agree (o : outcome N) (p : option (list N)) : bool :=
    match o, p with
    | OkMatches _ ms, Some ms' => if list_eq_dec N.eq_dec ms ms' then true else false
    | Reject _, None => true
    | _, _ => false
    end.

  Fixpoint lists_upto (alpha : list N) (len : nat) : list (list N) :=
    match len with
    | O => [[]]
    | S l => [] :: flat_map (fun t => map (fun a => a :: t) alpha) (lists_upto alpha l)
    end.

  Definition sweep_counts : list N := [0; 1; 2; 3; 4; 5; 6].
  Definition sweep_flags : list (list N) := [] :: map (fun x => [x]) (map N.of_nat (seq 0 256)).
  Definition sweep_hashes : list (list N) := lists_upto [1; 2; 3] 3.
  Definition parsed_root (n : N) (fl hs : list N) : N :=
    match parse N N.eq_dec sweep_h2 (N.to_nat n) (pheight (N.to_nat n)) 0 (unpack_flags fl) hs with
    | Some (x, _, _, _) => x
    | None => 0
    end.
  Definition sweep_roots (n : N) (fl hs : list N) : list N := [0; parsed_root n fl hs].

  Definition sweep_ok : bool :=
    forallb (fun n => forallb (fun fl => forallb (fun hs => forallb (fun r =>
      agree (check_merkle_block N N.eq_dec sweep_h2 n r fl hs)
            (parse_top N N.eq_dec sweep_h2 (N.to_nat n) r fl hs))
      (sweep_roots n fl hs)) sweep_hashes) sweep_flags) sweep_counts.

  Lemma sweep_ok_true : sweep_ok = true.
  Proof. vm_compute. reflexivity. Qed.

  Theorem iter_eq_parse_bounded : forall n fl hs r,
    In n sweep_counts -> In fl sweep_flags -> In hs sweep_hashes -> In r (sweep_roots n fl hs) ->
    agree (check_merkle_block N N.eq_dec sweep_h2 n r fl hs)
          (parse_top N N.eq_dec sweep_h2 (N.to_nat n) r fl hs) = true.
  Proof.
    intros n fl hs r Hn Hf Hh Hr. pose proof sweep_ok_true as S. unfold sweep_ok in S.
    rewrite forallb_forall in S. specialize (S n Hn).
    rewrite forallb_forall in S. specialize (S fl Hf).
    rewrite forallb_forall in S. specialize (S hs Hh).
    rewrite forallb_forall in S. exact (S r Hr).
  Qed.
End Sweep.
