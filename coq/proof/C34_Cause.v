(* C34 — which index entries CleanSubmittedTransactions can delete: only keys
   of a block transaction, or the own owner/node/CID keys of an Update* tx it
   purged (RemoveKey).  This turns the hypothesis of the check-and-clean
   theorem into a condition on the block alone. *)
From Coq Require Import ZArith NArith Bool List Lia Permutation Sorted Arith String.
From ELA Require Import model.C34_Pool proof.C34_FeeList proof.C34_Inv proof.C34_Hist.
Import ListNotations.
Local Open Scope Z_scope.

Section Cause.
  Variable rlt : Z * Z -> Z * Z -> bool.
  Hypothesis rlt_irrefl : forall a, rlt a a = false.
  Hypothesis rlt_trans : forall a b c, rlt a b = true -> rlt b c = true -> rlt a c = true.
  Hypothesis rlt_negtrans : forall a b c, rlt a b = false -> rlt b c = false -> rlt a c = false.
  Variable U : N -> txinfo.
  Variable tbl : list slot_desc.
  Hypothesis size_ok : forall h, 0 < t_size (U h) < two32.
  Variable p0 : pool.
  Variable blk : list N.

  Notation keys := (keys_of U tbl).
  Notation weak := (weak rlt U tbl).
  Notation do_remove := (do_remove rlt U tbl).

  Definition cause (k : skey) : Prop :=
    (exists b, In b blk /\ In k (keys b)) \/
    (exists y nm, In y (p_txs p0) /\ In nm [name_owner; name_node; name_crdid] /\
                  find_slot nm tbl = Some (fst k) /\ In (snd k) (own_keys U tbl nm y)).

  Definition tracked (q : pool) : Prop :=
    weak q /\ (forall y, In y (p_txs q) -> In y (p_txs p0)) /\
    (forall x k, In x (p_txs q) -> In k (keys x) -> In (k, x) (p_slots q) \/ cause k).

  Definition okdel (m' m : list (skey * N)) : Prop :=
    shrink m' m /\ forall e, In e m -> In e m' \/ cause (fst e).

  Lemma okdel_refl m : okdel m m.
  Proof. split; [apply shrink_refl|auto]. Qed.

  Lemma okdel_trans a b c : okdel a b -> okdel b c -> okdel a c.
  Proof.
    intros [S1 D1] [S2 D2]. split; [eapply shrink_trans; eassumption|].
    intros e He. destruct (D2 e He) as [H|H]; [|auto]. apply D1. exact H.
  Qed.

  Lemma okdel_del k m : cause k -> okdel (slot_del k m) m.
  Proof.
    intros Hc. split; [apply shrink_del|]. intros e He.
    destruct (skey_dec (fst e) k) as [E|E]; [right; rewrite E; exact Hc|].
    left. apply In_slot_del. auto.
  Qed.

  Lemma okdel_fold {A} (f : list (skey * N) -> A -> list (skey * N)) l :
    (forall m a, In a l -> okdel (f m a) m) -> forall m, okdel (fold_left f l m) m.
  Proof.
    induction l as [|a l IH]; simpl; intros Hf m; [apply okdel_refl|].
    eapply okdel_trans; [apply IH; intros; apply Hf; right; assumption|apply Hf; left; reflexivity].
  Qed.

  Lemma tracked_remove z q : tracked q -> tracked (do_remove z q).
  Proof.
    intros (Hw & Hincl & Ht). split; [apply (do_remove_weak rlt rlt_irrefl rlt_negtrans U tbl size_ok); exact Hw|].
    split.
    - intros y Hy. apply Hincl. rewrite do_remove_txs in Hy.
      destruct (memN z (p_txs q)); [apply In_delN in Hy as [Hy _]|]; exact Hy.
    - intros x k Hx Hk. rewrite do_remove_txs in Hx. rewrite do_remove_slots.
      destruct (memN z (p_txs q)) eqn:Em; [|auto].
      apply memN_In in Em. apply In_delN in Hx as [Hx Hne].
      destruct (Ht x k Hx Hk) as [H|H]; [|right; exact H]. left.
      rewrite (remove_keys_held rlt U tbl q z Hw Em). apply In_fold_del. split; [exact H|].
      simpl. intros Hkz. apply Hne. eapply (w_disj _ _ _ q Hw); eassumption.
  Qed.

  Lemma tracked_del q sm : tracked q -> okdel sm (p_slots q) ->
    tracked (mkPool (p_txs q) (p_fees q) (p_total q) (p_max q) sm (p_used q)).
  Proof.
    intros (Hw & Hincl & Ht) [Hs Hd]. split; [apply (weak_shrink rlt U tbl); assumption|].
    split; [exact Hincl|]. simpl. intros x k Hx Hk.
    destruct (Ht x k Hx Hk) as [H|H]; [|right; exact H].
    destruct (Hd _ H) as [H'|H']; [left; exact H'|right; exact H'].
  Qed.

  Lemma tracked_stable : stable rlt U tbl tracked.
  Proof. intros x q. apply tracked_remove. Qed.

  Lemma remove_keys_okdel b m : In b blk -> okdel (remove_keys U tbl b m) m.
  Proof.
    intros Hb. unfold remove_keys. apply okdel_fold. intros m' k Hk. apply okdel_del.
    left. exists b. split; [exact Hb|]. unfold removable_keys in Hk.
    destruct (err_slot U tbl b); [apply filter_In in Hk as [Hk _]|]; exact Hk.
  Qed.

  Lemma clean_block_tx_tracked q b : In b blk -> tracked q -> tracked (clean_block_tx rlt U tbl q b).
  Proof.
    intros Hb Hq. unfold clean_block_tx.
    destruct (t_type (U b) =? ty_coinbase)%N; [exact Hq|].
    destruct (is_direct U b).
    { destruct (memN b (p_txs q)); [apply tracked_remove|]; exact Hq. }
    destruct (negb (t_refok (U b))); [exact Hq|].
    match goal with |- tracked (mkPool (p_txs ?r) _ _ _ _ _) => set (p1 := r) end.
    assert (H1 : tracked p1) by (apply fold_get_stable; [apply tracked_stable|exact Hq]).
    apply tracked_del; [exact H1|apply remove_keys_okdel; exact Hb].
  Qed.

  Lemma clean_cancel_one_tracked cr k q x : In x (p_txs p0) -> tracked q ->
    tracked (clean_cancel_one rlt U tbl cr k q x).
  Proof.
    intros Hx Hq. unfold clean_cancel_one.
    destruct (t_type (U x) =? ty_transfer)%N.
    { destruct (existsb _ _); [apply tracked_remove|]; exact Hq. }
    destruct (_ && _); [|exact Hq].
    apply tracked_del; [apply tracked_remove; exact Hq|].
    apply okdel_fold. intros m nm Hnm. apply okdel_fold. intros m' kk Hkk.
    unfold del_named. destruct (find_slot nm tbl) as [s|] eqn:Es; [|apply okdel_refl].
    apply okdel_del. right. exists x, nm. simpl. repeat split; try assumption.
    destruct cr; simpl in Hnm; simpl; intuition.
  Qed.

  Lemma fold_tracked {A} (f : pool -> A -> pool) l :
    (forall q a, In a l -> tracked q -> tracked (f q a)) ->
    forall q, tracked q -> tracked (fold_left f l q).
  Proof.
    induction l as [|a l IH]; simpl; intros Hf q Hq; [exact Hq|].
    apply IH; [intros; apply Hf; [right|]; assumption|]. apply Hf; [left; reflexivity|exact Hq].
  Qed.

  Lemma cancel_fold_tracked cr k q : tracked q ->
    tracked (fold_left (clean_cancel_one rlt U tbl cr k) (p_txs q) q).
  Proof.
    intros Hq. apply fold_tracked; [|exact Hq].
    intros r a Ha Hr. apply clean_cancel_one_tracked; [|exact Hr].
    destruct Hq as (_ & Hincl & _). apply Hincl. exact Ha.
  Qed.

  Lemma clean_submitted_tracked d : p0 = p0 -> consistent rlt U tbl p0 ->
    tracked (clean_submitted rlt U tbl blk d p0).
  Proof.
    intros _ [Hw Hidx].
    assert (H0 : tracked p0).
    { split; [exact Hw|]. split; [auto|]. intros x k Hx Hk. left. apply Hidx; assumption. }
    unfold clean_submitted, clean_canceled.
    apply fold_tracked.
    - intros q b _ Hq.
      assert (H1 : tracked (if (t_type (U b) =? ty_cancel_producer)%N
                            then fold_left (clean_cancel_one rlt U tbl false (t_subject (U b))) (p_txs q) q
                            else q)).
      { destruct (_ =? _)%N; [|exact Hq]. apply cancel_fold_tracked. exact Hq. }
      destruct (t_type (U b) =? ty_unregister_cr)%N; [|exact H1].
      apply cancel_fold_tracked. exact H1.
    - apply purge_stable; [apply tracked_stable|].
      apply fold_tracked; [|exact H0]. intros q b Hb Hq. apply clean_block_tx_tracked; assumption.
  Qed.
End Cause.

(* After CleanSubmittedTransactions on a consistent pool, a key of a still-held
   transaction is indexed unless a block transaction claims the same key or it
   is an own owner/node/CID key of a held Update* transaction (RemoveKey). *)
Lemma deindexed_only_by_block rlt U tbl :
  (forall a, rlt a a = false) ->
  (forall a b c, rlt a b = true -> rlt b c = true -> rlt a c = true) ->
  (forall a b c, rlt a b = false -> rlt b c = false -> rlt a c = false) ->
  (forall h, 0 < t_size (U h) < two32) ->
  forall p blk d, consistent rlt U tbl p ->
  let q := clean_submitted rlt U tbl blk d p in
  forall x k, In x (p_txs q) -> In k (keys_of U tbl x) ->
  In (k, x) (p_slots q) \/ cause U tbl p blk k.
Proof.
  intros H1 H2 H3 Hs p blk d Hc q x k Hx Hk.
  destruct (clean_submitted_tracked rlt H1 H3 U tbl Hs p blk d eq_refl Hc) as (_ & _ & Ht).
  apply Ht; assumption.
Qed.
