(* C21 — proofs about model/C21_Dpos.v.

   1. change discipline: a list of changes that all pass [disciplined] at the
      pre-block state s is a good History entry at s (undoing it in forward
      order right after executing it gives s back), coordinate by coordinate:
      additive locations get the exact negations, assigned locations get the
      pre-block value written by whichever undo touches them.
   2. with C20's refinement theorem: processing blocks and rolling back equals
      processing the prefix. *)
From Coq Require Import ZArith NArith List Bool Lia.
From ELA Require Import lib.History proof.C20_History model.C21_Dpos.
Import ListNotations.
Local Open Scope Z_scope.

(* ------------------------------------------------------------ vectors *)
Lemma setnth_length i v x : length (setnth i v x) = length x.
Proof.
  unfold setnth. destruct (Nat.ltb i (length x)) eqn:E; auto.
  apply Nat.ltb_lt in E. rewrite app_length. cbn [length]. rewrite firstn_length, skipn_length. lia.
Qed.

Lemma get_setnth i v x j :
  get (setnth i v x) j = if Nat.eqb i j && Nat.ltb i (length x) then v else get x j.
Proof.
  unfold setnth, get. destruct (Nat.ltb i (length x)) eqn:E.
  - apply Nat.ltb_lt in E. destruct (Nat.eqb i j) eqn:Eij; simpl.
    + apply Nat.eqb_eq in Eij. subst j.
      rewrite app_nth2; rewrite firstn_length; [|lia].
      replace (i - Nat.min i (length x))%nat with 0%nat by lia. reflexivity.
    + apply Nat.eqb_neq in Eij.
      destruct (Nat.lt_ge_cases j i) as [Hlt|Hge].
      * rewrite app_nth1 by (rewrite firstn_length; lia).
        rewrite <- (firstn_skipn i x) at 2. rewrite app_nth1 by (rewrite firstn_length; lia). reflexivity.
      * rewrite app_nth2; rewrite firstn_length; [|lia].
        replace (Nat.min i (length x)) with i by lia.
        destruct (j - i)%nat as [|d] eqn:Ed; [lia|]. simpl.
        rewrite <- (firstn_skipn (S i) x) at 2. rewrite app_nth2; rewrite firstn_length; [|lia].
        replace (Nat.min (S i) (length x)) with (S i) by lia.
        f_equal. lia.
  - rewrite andb_false_r. reflexivity.
Qed.

Lemma apply_prim_length x p : length (apply_prim x p) = length x.
Proof.
  destruct p; simpl; rewrite ?setnth_length; auto.
  destruct (_ && _); rewrite ?setnth_length; auto.
Qed.

Lemma apply_prims_length ps : forall x, length (apply_prims ps x) = length x.
Proof.
  induction ps as [|p r IH]; intros x; simpl; auto.
  unfold apply_prims in *. simpl. rewrite IH. apply apply_prim_length.
Qed.

Lemma apply_prims_app a b x : apply_prims (a ++ b) x = apply_prims b (apply_prims a x).
Proof. apply fold_left_app. Qed.

Lemma targets_spec j p : targets j p = true <-> In j (prim_target p).
Proof.
  unfold targets. rewrite existsb_exists. split.
  - intros [x [H E]]. apply Nat.eqb_eq in E. subst; auto.
  - intros H. exists j. split; auto. apply Nat.eqb_refl.
Qed.

(* a primitive only changes its target locations *)
Lemma apply_prim_frame x p j : targets j p = false -> get (apply_prim x p) j = get x j.
Proof.
  intros T. assert (H : ~ In j (prim_target p)).
  { intros C. apply targets_spec in C. congruence. }
  clear T. destruct p; simpl in *.
  - rewrite get_setnth. destruct (Nat.eqb i j) eqn:E; [apply Nat.eqb_eq in E; tauto|reflexivity].
  - rewrite get_setnth. destruct (Nat.eqb i j) eqn:E; [apply Nat.eqb_eq in E; tauto|reflexivity].
  - rewrite get_setnth. destruct (Nat.eqb i j) eqn:E; [apply Nat.eqb_eq in E; tauto|reflexivity].
  - destruct (_ && _); auto. rewrite get_setnth.
    destruct (Nat.eqb ist j) eqn:E; [apply Nat.eqb_eq in E; tauto|reflexivity].
  - rewrite !get_setnth.
    destruct (Nat.eqb ilih j) eqn:E1; [apply Nat.eqb_eq in E1; tauto|].
    destruct (Nat.eqb idst j) eqn:E2; [apply Nat.eqb_eq in E2; tauto|]. reflexivity.
Qed.

Lemma frame_list j ps : forall x,
  existsb (targets j) ps = false -> get (apply_prims ps x) j = get x j.
Proof.
  induction ps as [|p r IH]; intros x H; [reflexivity|].
  simpl in H. apply orb_false_iff in H. destruct H as [H1 H2].
  unfold apply_prims in *. simpl. rewrite (IH _ H2). apply apply_prim_frame; auto.
Qed.

Lemma last_toucher_none j ps : last_toucher j ps = None -> existsb (targets j) ps = false.
Proof.
  induction ps as [|p r IH]; simpl; auto.
  destruct (last_toucher j r); [discriminate|]. destruct (targets j p); [discriminate|]. auto.
Qed.

(* (C) the last primitive targeting j is an assignment of v *)
Lemma last_set j v ps : forall x i,
  last_toucher j ps = Some (PSet i v) -> (j < length x)%nat -> get (apply_prims ps x) j = v.
Proof.
  induction ps as [|p r IH]; intros x i H Hl; [discriminate|].
  simpl in H. unfold apply_prims in *. simpl fold_left.
  destruct (last_toucher j r) as [q|] eqn:E.
  - inversion H; subst q. apply (IH _ i); auto. rewrite apply_prim_length; auto.
  - destruct (targets j p) eqn:T; [|discriminate]. inversion H; subst p.
    rewrite (frame_list j r _ (last_toucher_none j r E)).
    apply targets_spec in T. simpl in T. destruct T as [<-|[]].
    simpl. rewrite get_setnth, Nat.eqb_refl. simpl.
    replace (Nat.ltb i (length x)) with true by (symmetry; apply Nat.ltb_lt; auto). reflexivity.
Qed.

(* (B) only additions target j *)
Lemma adds_only j ps : forall x,
  forallb (add_or_other j) ps = true -> (j < length x)%nat ->
  get (apply_prims ps x) j = get x j + add_sum j ps.
Proof.
  induction ps as [|p r IH]; intros x H Hl; [simpl; lia|].
  simpl in H. apply andb_true_iff in H. destruct H as [Hp Hr].
  unfold apply_prims in *. simpl fold_left. rewrite (IH _ Hr) by (rewrite apply_prim_length; auto).
  unfold add_or_other in Hp. destruct (targets j p) eqn:T; simpl in Hp.
  - destruct p; try discriminate. apply targets_spec in T. simpl in T. destruct T as [<-|[]].
    simpl. rewrite get_setnth, !Nat.eqb_refl. simpl.
    replace (Nat.ltb i (length x)) with true by (symmetry; apply Nat.ltb_lt; auto). lia.
  - rewrite (apply_prim_frame x p j T).
    assert (E : add_sum j (p :: r) = add_sum j r).
    { simpl. destruct p; auto. destruct (Nat.eqb i j) eqn:Ei; auto.
      apply Nat.eqb_eq in Ei. subst i. unfold targets in T. simpl in T. rewrite Nat.eqb_refl in T. discriminate. }
    rewrite E. reflexivity.
Qed.

(* (B') exactly one primitive targets j *)
Lemma single_toucher j q ps : forall x,
  filter (targets j) ps = [q] ->
  exists x1, get (apply_prims ps x) j = get (apply_prim x1 q) j /\ get x1 j = get x j /\ length x1 = length x.
Proof.
  induction ps as [|p r IH]; intros x H; [discriminate|].
  simpl in H. unfold apply_prims in *. simpl fold_left.
  destruct (targets j p) eqn:T.
  - inversion H as [[Hq Hr]]. subst p. exists x. split; [|split; reflexivity].
    apply frame_list.
    clear -Hr. induction r as [|a r IH]; simpl in *; auto.
    destruct (targets j a); [discriminate|]. auto.
  - destruct (IH (apply_prim x p) H) as [x1 [A [B C]]].
    exists x1. split; [exact A|]. split; [rewrite B; apply apply_prim_frame; auto|].
    rewrite C. apply apply_prim_length.
Qed.

Section Discipline.
  Variable s : vec.

  Definition dos (cs : list dchg) (x : vec) : vec := do_all (map interp cs) x.
  Definition undos (cs : list dchg) (x : vec) : vec := undo_fwd (map interp cs) x.

  Lemma dos_flat cs : forall x, dos cs x = apply_prims (all_dos cs) x.
  Proof.
    induction cs as [|c r IH]; intros x; [reflexivity|].
    unfold all_dos. simpl flat_map. rewrite apply_prims_app. fold (all_dos r). rewrite <- IH. reflexivity.
  Qed.

  Lemma undos_flat cs : forall x, undos cs x = apply_prims (all_undos cs) x.
  Proof.
    induction cs as [|c r IH]; intros x; [reflexivity|].
    unfold all_undos. simpl flat_map. rewrite apply_prims_app. fold (all_undos r). rewrite <- IH. reflexivity.
  Qed.

  (* change_discipline, coordinate by coordinate *)
  Lemma coord_restored cs j :
    coord_ok s cs j = true -> (j < length s)%nat -> get (undos cs (dos cs s)) j = get s j.
  Proof.
    intros H Hl. rewrite undos_flat, dos_flat.
    set (D := all_dos cs) in *. set (U := all_undos cs) in *.
    assert (HlD : (j < length (apply_prims D s))%nat) by (rewrite apply_prims_length; exact Hl).
    unfold coord_ok in H. fold D U in H.
    apply orb_true_iff in H. destruct H as [H|H4].
    apply orb_true_iff in H. destruct H as [H|H3].
    apply orb_true_iff in H. destruct H as [H1|H2].
    - (* A *) apply andb_true_iff in H1. destruct H1 as [A B].
      apply negb_true_iff in A. apply negb_true_iff in B.
      rewrite (frame_list j U _ B), (frame_list j D _ A). reflexivity.
    - (* C *) destruct (last_toucher j U) as [q|] eqn:E; [|discriminate].
      destruct q; try discriminate. apply Z.eqb_eq in H2. subst v.
      apply (last_set j _ U _ i E HlD).
    - (* B *) apply andb_true_iff in H3. destruct H3 as [H3 S0]. apply andb_true_iff in H3. destruct H3 as [AD AU].
      apply Z.eqb_eq in S0.
      rewrite (adds_only j U _ AU HlD), (adds_only j D _ AD Hl). lia.
    - (* B' *) destruct (filter (targets j) D) as [|qd ld] eqn:FD; [discriminate|].
      destruct qd; try discriminate. destruct ld; [|discriminate].
      destruct (filter (targets j) U) as [|qu lu] eqn:FU; [discriminate|].
      destruct qu; try discriminate. destruct lu; [|discriminate].
      apply andb_true_iff in H4. destruct H4 as [H4 Hs]. apply andb_true_iff in H4. destruct H4 as [Hpq Hp].
      apply Z.eqb_eq in Hpq. apply Z.leb_le in Hp. apply Z.leb_le in Hs. subst p.
      assert (Ti : i = j).
      { assert (T : targets j (PAdd i d) = true).
        { assert (In (PAdd i d) (filter (targets j) D)) by (rewrite FD; left; reflexivity).
          apply filter_In in H. tauto. }
        apply targets_spec in T. simpl in T. destruct T as [T|[]]; auto. }
      assert (Ti0 : i0 = j).
      { assert (T : targets j (PSubSat i0 d) = true).
        { assert (In (PSubSat i0 d) (filter (targets j) U)) by (rewrite FU; left; reflexivity).
          apply filter_In in H. tauto. }
        apply targets_spec in T. simpl in T. destruct T as [T|[]]; auto. }
      subst i i0.
      destruct (single_toucher j _ D s FD) as [x1 [A1 [B1 C1]]].
      destruct (single_toucher j _ U (apply_prims D s) FU) as [x2 [A2 [B2 C2]]].
      rewrite A2. simpl. rewrite get_setnth, Nat.eqb_refl. simpl.
      replace (Nat.ltb j (length x2)) with true
        by (symmetry; apply Nat.ltb_lt; rewrite C2, apply_prims_length; exact Hl).
      rewrite B2, A1. simpl. rewrite get_setnth, Nat.eqb_refl. simpl.
      replace (Nat.ltb j (length x1)) with true by (symmetry; apply Nat.ltb_lt; rewrite C1; exact Hl).
      rewrite B1. destruct (get s j + d <? d) eqn:E; [apply Z.ltb_lt in E; lia|lia].
  Qed.

  Lemma dos_length cs x : length (dos cs x) = length x.
  Proof. rewrite dos_flat. apply apply_prims_length. Qed.
  Lemma undos_length cs x : length (undos cs x) = length x.
  Proof. rewrite undos_flat. apply apply_prims_length. Qed.

  Theorem change_discipline cs :
    changes_disciplined s cs = true -> undos cs (dos cs s) = s.
  Proof.
    intros H.
    assert (Hl : length (undos cs (dos cs s)) = length s) by (rewrite undos_length, dos_length; reflexivity).
    apply (nth_ext _ _ 0 0 Hl). intros j Hj. rewrite Hl in Hj.
    fold (get (undos cs (dos cs s)) j). fold (get s j).
    apply coord_restored; auto.
    unfold changes_disciplined in H. rewrite forallb_forall in H. apply H.
    apply in_seq. lia.
  Qed.

End Discipline.

(* ------------------------------------------------------------ glue with C20 *)
Arguments g_temp {S} _.
Arguments g_tx {S} _.
Arguments g_pend {S} _.
Arguments G {S} _ _ _ _ _ _.
Arguments i_log {S s0 g st} _.
Arguments i_top {S s0 g st} _.
Arguments i_cached {S s0 g st} _.
Arguments i_temp {S s0 g st} _.
Arguments i_pos {S s0 g st} _.
Arguments i_gtop {S s0 g st} _.
Arguments i_state {S s0 g st} _.
Section Rollback.
  Variable P : params.
  Let s0 : vec := init_state P.

  Definition hN (b : block) : N := Z.to_N (b_height b).

  (* the blocks are processed at strictly increasing heights (below 2^32) and
     every block's changes are disciplined at the state before the block *)
  Fixpoint blocks_ok (bs : list block) (st : mstate) : Prop :=
    match bs with
    | [] => True
    | b :: r =>
        (h_height (fst st) < hN b)%N /\ (hN b < 4294967296)%N /\
        block_disciplined P (snd st) b = true /\
        match process_block P (Some st) b with
        | Some st' => blocks_ok r st'
        | None => False
        end
    end.

  Definition shape (g : ghost vec) (h : history vec) : Prop :=
    h_cached h = None /\ g_temp g = [] /\ g_tx g = false /\ h_seek h = h_height h.

  Lemma append_eq hb c (h : history vec) s :
    hb <> 0%N -> h_temp h = [] ->
    match h_cached h with None => (h_height h < hb)%N | Some hc => hc_height hc = hb end ->
    append hb c (h, s) =
    ROk (Hist (h_cap h) (h_height h) (h_changes h)
              (Some (HC hb (match h_cached h with None => [] | Some hc => hc_changes hc end ++ [c])))
              [] (h_seek h), s).
  Proof.
    intros Hb Ht Hc. unfold append. destruct (N.eqb_spec hb 0); [contradiction|].
    rewrite Ht. destruct (h_cached h) as [hc|].
    - subst hb. rewrite N.eqb_refl. reflexivity.
    - replace (hb <? h_height h)%N with false by (symmetry; apply N.ltb_ge; lia).
      rewrite andb_false_r. reflexivity.
  Qed.

  Lemma appends_run hb (Hb0 : hb <> 0%N) (Hb32 : (hb < 4294967296)%N) : forall cs g (h : history vec) s,
    Inv s0 g (h, s) -> g_temp g = [] -> g_tx g = false ->
    match h_cached h with None => (h_height h < hb)%N | Some hc => hc_height hc = hb end ->
    exists h1,
      run (map (OAppend hb) cs) (h, s) = Some (h1, s) /\
      Inv s0 (G (g_log g) (g_pend g ++ cs) [] false (g_pos g) (g_top g)) (h1, s) /\
      h_height h1 = h_height h /\ h_seek h1 = h_seek h /\
      match h_cached h1 with None => (h_height h1 < hb)%N | Some hc => hc_height hc = hb end.
  Proof.
    induction cs as [|c r IH]; intros g h s I GT TX Hc.
    - exists h. split; [reflexivity|]. split; [|split; [reflexivity|split; [reflexivity|exact Hc]]].
      rewrite app_nil_r. destruct g; simpl in *; subst; exact I.
    - assert (Ht : h_temp h = []) by (rewrite <- GT; apply (i_temp I)).
      assert (Pre : pre s0 g (h, s) (OAppend hb c)).
      { simpl. split; [exact Hb32|]. destruct (N.eqb_spec hb 0); [contradiction|]. split; [left; exact GT|exact Hc]. }
      destruct (@step_inv vec s0 g (h, s) (OAppend hb c) I Pre) as [st' [E I']].
      change (step (OAppend hb c) (h, s)) with (append hb c (h, s)) in E.
      rewrite (append_eq hb c h s Hb0 Ht Hc) in E. simpl in E. inversion E; subst st'; clear E.
      unfold gstep in I'. destruct (N.eqb_spec hb 0); [contradiction|].
      set (h' := Hist _ _ _ _ _ _) in I'.
      destruct (IH _ h' s I' eq_refl eq_refl) as [h1 [R [I1 [H1 [H2 H3]]]]]; [reflexivity|].
      exists h1. simpl map. rewrite run_cons.
      change (step (OAppend hb c) (h, s)) with (append hb c (h, s)).
      rewrite (append_eq hb c h s Hb0 Ht Hc). simpl res_state.
      fold h'. split; [exact R|]. simpl in I1. rewrite <- app_assoc in I1. simpl in I1.
      split; [exact I1|]. split; [rewrite H1; reflexivity|]. split; [rewrite H2; reflexivity|exact H3].
  Qed.

  Lemma commit_eq hb (h : history vec) s : h_temp h = [] ->
    exists ch s', commit hb (h, s) = ROk (Hist (h_cap h) hb ch None [] hb, s').
  Proof. intros Ht. unfold commit. rewrite Ht. eexists; eexists; reflexivity. Qed.

  (* one block *)
  Lemma block_inv b g (h : history vec) s :
    Inv s0 g (h, s) -> shape g h ->
    (h_height h < hN b)%N -> (hN b < 4294967296)%N -> block_disciplined P s b = true ->
    exists g' h' s',
      process_block P (Some (h, s)) b = Some (h', s') /\ Inv s0 g' (h', s') /\ shape g' h' /\
      g_log g' = g_log g ++ [HC (hN b) (map interp (block_changes P s b))] /\ h_height h' = hN b.
  Proof.
    intros I [Hc [GT [TX Hs]]] Hlt H32 Hd.
    set (hb := hN b) in *. set (cs := map interp (block_changes P s b)).
    assert (Hb0 : hb <> 0%N) by lia.
    assert (Hc' : match h_cached h with None => (h_height h < hb)%N | Some hc => hc_height hc = hb end)
      by (rewrite Hc; exact Hlt).
    destruct (appends_run hb Hb0 H32 cs g h s I GT TX Hc') as [h1 [R [I1 [H1 [H2 H3]]]]].
    assert (Gp : g_pend g = []) by (pose proof (i_cached I) as C; simpl in C; rewrite Hc in C; exact C).
    rewrite Gp in I1. simpl in I1.
    set (g1 := G (g_log g) cs [] false (g_pos g) (g_top g)) in *.
    assert (Ht1 : h_temp h1 = []) by (apply (i_temp I1)).
    assert (KT : keep_prefix (h_height h) (g_log g) = g_log g) by (apply keep_all, (i_top I)).
    assert (Ss : s = commit_entries (g_log g) s0).
    { pose proof (i_state I) as St. simpl in St. rewrite St. unfold ideal. rewrite TX, (i_pos I). simpl.
      rewrite Hs, KT. reflexivity. }
    assert (Pre : pre s0 g1 (h1, s) (OCommit hb)).
    { simpl. split; [exact H32|]. split; [lia|]. split.
      - destruct (h_cached h1); auto.
      - unfold good_entry, hc_rollback, hc_commit, undo_order. simpl. rewrite <- Ss.
        apply (change_discipline s (block_changes P s b)). exact Hd. }
    destruct (@step_inv vec s0 g1 (h1, s) (OCommit hb) I1 Pre) as [st2 [E I2]].
    change (step (OCommit hb) (h1, s)) with (commit hb (h1, s)) in E.
    destruct (commit_eq hb h1 s Ht1) as [ch [s' Ec]]. rewrite Ec in E. simpl in E.
    inversion E; subst st2; clear E.
    unfold gstep in I2. simpl in I2.
    eexists; eexists; eexists. split; [|split; [exact I2|]].
    - unfold process_block, block_ops. simpl snd. change (Z.to_N (b_height b)) with hb. rewrite <- map_map. fold cs.
      rewrite run_app, R. rewrite run_cons.
      change (step (OCommit hb) (h1, s)) with (commit hb (h1, s)). rewrite Ec. reflexivity.
    - split; [|split; reflexivity]. repeat split; reflexivity.
  Qed.

  Lemma blocks_inv : forall bs g (h : history vec) s,
    Inv s0 g (h, s) -> shape g h -> blocks_ok bs (h, s) ->
    exists g' h' s' L2,
      process_all P bs (h, s) = Some (h', s') /\ Inv s0 g' (h', s') /\ shape g' h' /\
      g_log g' = g_log g ++ L2 /\ all_gt vec (h_height h) L2 /\ (h_height h <= h_height h')%N /\
      (bs <> [] -> (h_height h < h_height h')%N) /\ length L2 = length bs.
  Proof.
    induction bs as [|b r IH]; intros g h s I Sh Ok.
    - exists g, h, s, []. rewrite app_nil_r.
      split; [reflexivity|]. split; [exact I|]. split; [exact Sh|]. split; [reflexivity|].
      split; [constructor|]. split; [lia|]. split; [congruence|reflexivity].
    - destruct Ok as [Hlt [H32 [Hd Ok]]]. simpl fst in Hlt. simpl snd in Hd.
      destruct (block_inv b g h s I Sh Hlt H32 Hd) as [g1 [h1 [s1 [R [I1 [Sh1 [L1 Hh1]]]]]]].
      unfold mstate in Ok. rewrite R in Ok.
      destruct (IH g1 h1 s1 I1 Sh1 Ok) as [g' [h' [s' [L2 [R2 [I2 [Sh2 [L' [G2 [Hle [_ Hlen]]]]]]]]]]].
      exists g', h', s', (HC (hN b) (map interp (block_changes P s b)) :: L2).
      split; [change (process_all P (b :: r) (h, s)) with (fold_left (process_block P) r (process_block P (Some (h, s)) b));
              unfold mstate in *; rewrite R; exact R2|].
      split; [exact I2|]. split; [exact Sh2|]. split; [rewrite L', L1, <- app_assoc; reflexivity|].
      split; [|split; [lia|split; [intros _; lia|simpl; rewrite Hlen; reflexivity]]].
      constructor; [simpl; exact Hlt|].
      eapply Forall_impl; [|exact G2]. simpl. intros e He. lia.
  Qed.

  Lemma inv_init : Inv s0 (g0 vec) (init P) /\ shape (g0 vec) (fst (init P)).
  Proof. split; [apply inv0|]. repeat split; reflexivity. Qed.

  (* rollback_eq_direct: processing bs1 ++ bs2 and rolling back to the height
     reached after bs1 gives exactly the state (and best height) of
     processing bs1 only, provided the history still holds the entries of bs2
     (no entry above that height has been evicted). *)
  Theorem rollback_eq_direct bs1 bs2 st1 st2 :
    blocks_ok (bs1 ++ bs2) (init P) ->
    process_all P bs1 (init P) = Some st1 ->
    process_all P bs2 st1 = Some st2 ->
    (length (h_changes (fst st2)) >= length bs2)%nat ->
    exists st', rollback (Z.of_N (h_height (fst st1))) (Some st2) = Some st' /\
                snd st' = snd st1 /\ h_height (fst st') = h_height (fst st1).
  Proof.
    intros Ok R1 R2 Hcap.
    destruct inv_init as [I0 Sh0].
    assert (Ok1 : blocks_ok bs1 (init P) /\ blocks_ok bs2 st1).
    { clear -Ok R1. revert Ok R1. generalize (init P). induction bs1 as [|b r IH]; intros st Ok R1.
      - simpl in *. inversion R1; subst. auto.
      - simpl in Ok. destruct Ok as [A [B [C D]]]. unfold process_all in R1. simpl in R1. unfold mstate in *.
        destruct (run (block_ops P (snd st) b) st) as [st'|] eqn:E; [|contradiction].
        destruct (IH st' D R1) as [X Y]. split; auto. simpl. rewrite E. auto. }
    destruct Ok1 as [Ok1 Ok2].
    destruct (init P) as [hi si] eqn:Ei.
    destruct (blocks_inv bs1 (g0 vec) hi si I0 Sh0 Ok1) as [g1 [h1 [s1 [L1 [R1' [I1 [Sh1 [HL1 _]]]]]]]].
    rewrite R1 in R1'. inversion R1'; subst st1; clear R1'.
    destruct (blocks_inv bs2 g1 h1 s1 I1 Sh1 Ok2) as [g2 [h2 [s2 [L2 [R2' [I2 [Sh2 [HL2 [G2 [Hle [Hlt Hlen]]]]]]]]]]].
    rewrite R2 in R2'. inversion R2'; subst st2; clear R2'.
    simpl fst in *. simpl snd in *.
    unfold rollback. rewrite N2Z.id.
    destruct Sh1 as [Hc1 [GT1 [TX1 Hs1]]]. destruct Sh2 as [Hc2 [GT2 [TX2 Hs2]]].
    assert (KT1 : keep_prefix (h_height h1) (g_log g1) = g_log g1) by (apply keep_all, (i_top I1)).
    assert (S1 : s1 = commit_entries (g_log g1) s0).
    { pose proof (i_state I1) as St. simpl in St. rewrite St. unfold ideal. rewrite TX1, (i_pos I1). simpl.
      rewrite Hs1, KT1. reflexivity. }
    destruct bs2 as [|b2 r2].
    - (* nothing to roll back *)
      unfold process_all in R2. simpl in R2. inversion R2; subst h2 s2.
      unfold rollback_to. rewrite N.leb_refl. eexists; split; [reflexivity|]. auto.
    - specialize (Hlt ltac:(discriminate)).
      assert (A1 : all_le vec (h_height h1) (g_log g1)) by apply (i_top I1).
      assert (Pre : pre s0 g2 (h2, s2) (ORollbackTo (h_height h1))).
      { simpl. right. split; [exact Hs2|]. split; [left; exact GT2|].
        unfold evicted. rewrite HL2, app_length, Hlen.
        set (m := (length (g_log g1) + length (b2 :: r2) - length (h_changes h2))%nat).
        assert (Hm : (m <= length (g_log g1))%nat) by (subst m; lia).
        rewrite firstn_app. replace (m - length (g_log g1))%nat with 0%nat by lia.
        rewrite firstn_O, app_nil_r.
        unfold all_le in *. rewrite <- (firstn_skipn m (g_log g1)) in A1.
        apply Forall_app in A1. tauto. }
      destruct (@step_inv vec s0 g2 (h2, s2) (ORollbackTo (h_height h1)) I2 Pre) as [st' [E I']].
      change (step (ORollbackTo (h_height h1)) (h2, s2)) with (rollback_to (h_height h1) (h2, s2)) in E.
      assert (RS : exists st2, rollback_to (h_height h1) (h2, s2) = ROk st2).
      { unfold rollback_to. destruct (h_height h2 <=? h_height h1)%N; eexists; reflexivity. }
      destruct RS as [st2 RS]. rewrite RS in *. simpl in E. inversion E; subst st2; clear E.
      exists st'. split; [reflexivity|].
      unfold gstep in I'. rewrite (i_gtop I2) in I'. simpl in I'.
      replace (h_height h2 <=? h_height h1)%N with false in I' by (symmetry; apply N.leb_gt; exact Hlt).
      assert (K : keep_prefix (h_height h1) (g_log g2) = g_log g1).
      { rewrite HL2. apply keep_split; assumption. }
      rewrite K in I'.
      pose proof (i_state I') as St. pose proof (i_gtop I') as Gt. simpl in St, Gt.
      split; [|symmetry; exact Gt].
      rewrite St. unfold ideal. simpl. rewrite KT1. symmetry. exact S1.
  Qed.
End Rollback.

(* ------------------------------------------------------------ boolean form, witnesses *)
Fixpoint blocks_okb (P : params) (bs : list block) (st : mstate) : bool :=
  match bs with
  | [] => true
  | b :: r =>
      (h_height (fst st) <? hN b)%N && (hN b <? 4294967296)%N && block_disciplined P (snd st) b &&
      match process_block P (Some st) b with
      | Some st' => blocks_okb P r st'
      | None => false
      end
  end.

Lemma blocks_okb_ok P : forall bs st, blocks_okb P bs st = true -> blocks_ok P bs st.
Proof.
  induction bs as [|b r IH]; intros st H; simpl in *; auto.
  apply andb_true_iff in H. destruct H as [H H4]. apply andb_true_iff in H. destruct H as [H H3].
  apply andb_true_iff in H. destruct H as [H1 H2].
  apply N.ltb_lt in H1. apply N.ltb_lt in H2. repeat split; auto.
  destruct (run (block_ops P (snd st) b) st) as [st'|]; [apply IH; exact H4|discriminate].
Qed.

Fixpoint vec_eqb (a b : list Z) : bool :=
  match a, b with
  | [], [] => true
  | x :: a', y :: b' => (x =? y) && vec_eqb a' b'
  | _, _ => false
  end.

(* rollback of the last [n2] blocks equals the direct build, as a boolean *)
Definition rollback_agrees (P : params) (bs1 bs2 : list block) : bool :=
  match process_all P bs1 (init P) with
  | Some st1 =>
      match rollback (Z.of_N (h_height (fst st1))) (process_all P bs2 st1) with
      | Some st' => vec_eqb (snd st') (snd st1)
      | None => false
      end
  | None => false
  end.

Definition empty_blocks (from : Z) (n : nat) : list block :=
  map (fun i => Block (from + Z.of_nat i) (1000 + from + Z.of_nat i) []) (seq 0 n).

(* the known defect: a CancelProducer in the very block that activates the
   pending producer leaves it both canceled and active; a second cancel is
   then accepted and its rollback (cancelHeight = 0, removal from the canceled
   set) does not restore the state.  Slot 0 registers at height 10, is
   canceled at 15 (= activation block) and again at 17. *)
Definition wP : params := Params 2 3 3 3 1000000 100 720 0 0.
Definition w_blocks1 : list block :=
  [Block 10 1010 [TRegister 0 0 500000000000 0]] ++ empty_blocks 11 4 ++
  [Block 15 1015 [TCancel 0]; Block 16 1016 []].
Definition w_blocks2 : list block := [Block 17 1017 [TCancel 0]].

Lemma cancel_in_activation_block_refuted :
  rollback_agrees wP w_blocks1 w_blocks2 = false /\
  blocks_okb wP w_blocks1 (init wP) = true /\
  blocks_okb wP (w_blocks1 ++ w_blocks2) (init wP) = false.
Proof. repeat split; vm_compute; reflexivity. Qed.

(* non-vacuity: a sequence with register / update / votes / vote cancel /
   top-up / cancel / deposit release / deposit return / activation and the
   irreversibility bookkeeping satisfies the hypotheses, and rolling back its
   last 6 blocks agrees (computed). *)
Definition dP : params := Params 3 6 8 3 12 100 720 50000000000 20000000000.
Definition d_blocks1 : list block :=
  [Block 10 1010 [TRegister 0 0 500000000000 0; TRegister 1 1 500100000000 1];
   Block 11 1011 [TUpdate 0 2];
   Block 12 1012 []; Block 13 1013 []; Block 14 1014 [];
   Block 15 1015 [TVote 2 [(0%nat, 5); (1%nat, 3)]];
   Block 16 1016 [TTopup 1 700000000 3; TVote 4 [(1%nat, 2)]]].
Definition d_blocks2 : list block :=
  [Block 17 1017 [TCancel 0; TUnvote 2 [(0%nat, 5); (1%nat, 3)]];
   Block 18 1018 [TUpdate 1 4];
   Block 19 1019 [];
   Block 20 1020 [TTopup 1 100000000 5];
   Block 21 1021 [TReturn 0 [0%nat] 0];
   Block 22 1022 [TCancel 1]].

Lemma demo_blocks_ok :
  blocks_okb dP (d_blocks1 ++ d_blocks2) (init dP) = true /\
  rollback_agrees dP d_blocks1 d_blocks2 = true /\
  match process_all dP (d_blocks1 ++ d_blocks2) (init dP) with
  | Some st => get (snd st) (iP 0 fSt) = stReturned /\ get (snd st) (iP 1 fSt) = stCanceled /\
               get (snd st) (iLih dP) = 16 /\ length (h_changes (fst st)) = 13%nat
  | None => False
  end.
Proof. split; [vm_compute; reflexivity|]. split; [vm_compute; reflexivity|]. vm_compute. repeat split. Qed.

(* ---- inactive / illegal producers: what the discipline excludes (replayed on
   the real code by the corpus traces of harness/cmd/c21) ---- *)
Definition iPar : params := Params 2 3 3 3 1000000 100 720 500 200.

(* producer 0 registers at 10 (active at 15), is set inactive at 17, asks for
   activation at 18 (active again at 23) *)
Definition i_prefix : list block :=
  [Block 10 1010 [TRegister 0 0 500000000000 0]] ++ empty_blocks 11 6 ++
  [Block 17 1017 [TInactive 0]; Block 18 1018 [TActivate 0]] ++ empty_blocks 19 7.

(* the first inactivity and its reactivation are disciplined and roll back
   exactly (computed for the last 9 blocks) *)
Lemma inactive_first_time_ok :
  blocks_okb iPar i_prefix (init iPar) = true /\
  rollback_agrees iPar (firstn 7 i_prefix) (skipn 7 i_prefix) = true /\
  match process_all iPar i_prefix (init iPar) with
  | Some st => get (snd st) (iP 0 fSt) = stActive /\ get (snd st) (iP 0 fPenalty) = 500 /\
               get (snd st) (iP 0 fInactiveSince) = 17 /\ get (snd st) (iP 0 fActReq) = 18
  | None => False
  end.
Proof. split; [vm_compute; reflexivity|]. split; [vm_compute; reflexivity|]. vm_compute. repeat split. Qed.

(* revertSettingInactiveProducer writes constants (inactiveSince = 0,
   activateRequestHeight = MaxUint32, removal from EmergencyInactiveArbiters):
   the second inactivity of the producer does not roll back exactly *)
Lemma inactive_again_refuted :
  rollback_agrees iPar i_prefix [Block 26 1026 [TInactive 0]] = false /\
  blocks_okb iPar (i_prefix ++ [Block 26 1026 [TInactive 0]]) (init iPar) = false.
Proof. split; vm_compute; reflexivity. Qed.

(* illegal evidence (penalty += , undo penalty = ori) and emergency inactivity
   (penalty +=, undo saturating -=) on one producer in one block: exact when
   the illegal evidence comes last, the penalty is lost (500 -> 0) when the
   inactivity comes last.  (Both blocks also show the constants above, so the
   comparison is on the penalty coordinate.) *)
Definition penalty_after_rollback (txs : list tx) : option Z :=
  match process_all iPar i_prefix (init iPar) with
  | Some st1 =>
      match rollback (Z.of_N (h_height (fst st1))) (process_all iPar [Block 26 1026 txs] st1) with
      | Some st' => Some (get (snd st') (iP 0 fPenalty))
      | None => None
      end
  | None => None
  end.

Lemma penalty_mix_refuted :
  penalty_after_rollback [TInactive 0; TIllegal 0] = Some 500 /\
  penalty_after_rollback [TIllegal 0; TInactive 0] = Some 0.
Proof. split; vm_compute; reflexivity. Qed.
