(* C03 proofs: none of the modelled validation functions can panic. *)
From Coq Require Import ZArith List Bool Lia.
From ELA Require Import lib.C03_GoSem model.C03_Script model.C03_Validate.
Import ListNotations.
Local Open Scope Z_scope.

(* ---------------------------------------------------------------- GoSem facts *)

Lemma len_nonneg {A} (l : list A) : 0 <= len l.
Proof. unfold len. lia. Qed.

Lemma idx_ok {A} (l : list A) i : 0 <= i < len l -> exists a, idx l i = Ok a.
Proof.
  intros H. unfold idx. destruct (Z.ltb_spec i 0); [lia|].
  destruct (nth_error l (Z.to_nat i)) eqn:E; [eauto|].
  apply nth_error_None in E. unfold len in H. lia.
Qed.

Lemma len_firstn_skipn {A} (l : list A) lo hi :
  0 <= lo <= hi -> hi <= len l ->
  len (firstn (Z.to_nat (hi - lo)) (skipn (Z.to_nat lo) l)) = hi - lo.
Proof.
  intros H1 H2. unfold len in *. rewrite firstn_length, skipn_length. lia.
Qed.

Lemma slice_ok {A} (l : list A) lo hi :
  0 <= lo <= hi -> hi <= len l -> exists s, slice l lo hi = Ok s /\ len s = hi - lo.
Proof.
  intros H1 H2. unfold slice.
  replace ((0 <=? lo) && (lo <=? hi) && (hi <=? len l)) with true.
  - eexists. split; [reflexivity|]. apply len_firstn_skipn; assumption.
  - symmetry. rewrite !andb_true_iff, !Z.leb_le. lia.
Qed.

Lemma gomod_ok a b : b <> 0 -> exists r, gomod a b = Ok r.
Proof. intros H. unfold gomod. destruct (Z.eqb_spec b 0); [contradiction|eauto]. Qed.

Definition np {A} (r : res A) : Prop := is_panic r = false.

Lemma np_no_panic {A} (r : res A) : np r -> forall k, r <> Panic k.
Proof. unfold np. intros H k E. subst r. discriminate. Qed.

Lemma np_ok {A} (r : res A) : np r -> exists a, r = Ok a.
Proof. unfold np. destruct r; [eauto|discriminate]. Qed.

Lemma np_bind {A B} (e : res A) (f : A -> res B) :
  np e -> (forall a, e = Ok a -> np (f a)) -> np (bind e f).
Proof. intros H1 H2. destruct e; [apply H2; reflexivity|discriminate]. Qed.

(* boolean tests to propositions *)
Ltac b2p :=
  repeat match goal with
  | H : negb _ = true |- _ => apply negb_true_iff in H
  | H : negb _ = false |- _ => apply negb_false_iff in H
  | H : (_ || _) = true |- _ => apply orb_true_iff in H
  | H : (_ || _) = false |- _ => apply orb_false_iff in H; destruct H
  | H : (_ && _) = true |- _ => apply andb_true_iff in H; destruct H
  | H : (_ && _) = false |- _ => apply andb_false_iff in H
  | H : (_ <? _) = true |- _ => apply Z.ltb_lt in H
  | H : (_ <? _) = false |- _ => apply Z.ltb_ge in H
  | H : (_ <=? _) = true |- _ => apply Z.leb_le in H
  | H : (_ <=? _) = false |- _ => apply Z.leb_gt in H
  | H : (_ =? _) = true |- _ => apply Z.eqb_eq in H
  | H : (_ =? _) = false |- _ => apply Z.eqb_neq in H
  end.

Ltac lens :=
  repeat match goal with
  | |- context [len ?l] =>
      lazymatch goal with
      | _ : 0 <= len l |- _ => fail
      | _ => pose proof (len_nonneg l)
      end
  | _ : context [len ?l] |- _ =>
      lazymatch goal with
      | _ : 0 <= len l |- _ => fail
      | _ => pose proof (len_nonneg l)
      end
  end.

Ltac bounds := b2p; lens; lia.

(* one step through a model body; leaves bound side conditions to [bounds] *)
Ltac np_step :=
  lazymatch goal with
  | |- np (Ok _) => reflexivity
  | |- np (if ?b then _ else _) => let E := fresh "E" in destruct b eqn:E
  | |- np (bind (idx ?l ?i) _) =>
      let v := fresh "v" in let Hv := fresh "Hv" in
      destruct (idx_ok l i) as [v Hv]; [bounds | rewrite Hv; cbn [bind]]
  | |- np (bind (slice ?l ?lo ?hi) _) =>
      let v := fresh "s" in let Hv := fresh "Hs" in let Hl := fresh "Hl" in
      destruct (slice_ok l lo hi) as [v [Hv Hl]]; [bounds | bounds | rewrite Hv; cbn [bind]]
  | |- np (bind (Ok _) _) => cbn [bind]
  | |- np (let '(_, _) := ?p in _) => destruct p
  | |- np (match ?x with Some _ => _ | None => _ end) => destruct x
  end.

Ltac np_steps := unfold slice_from, slice_to in *; repeat np_step.

(* ---------------------------------------------------------------- contract *)

Lemma is_standard_np code : np (is_standard code).
Proof. unfold is_standard. np_steps. Qed.

Lemma is_schnorr_np code : np (is_schnorr code).
Proof. unfold is_schnorr. np_steps. Qed.

Lemma ms_loop_ok fuel : forall code i n, 0 <= i < len code ->
  ms_loop fuel code i n = Ok None \/
  exists i' n', ms_loop fuel code i n = Ok (Some (i', n')) /\ 0 <= i' < len code.
Proof.
  induction fuel as [|f IH]; intros code i n Hi; cbn [ms_loop]; [left; reflexivity|].
  destruct (idx_ok code i Hi) as [c Hc]. rewrite Hc. cbn [bind].
  destruct (c =? 33).
  - destruct (Z.leb_spec (len code) (i + 34)); [left; reflexivity|].
    apply IH. lia.
  - right. eauto.
Qed.

Lemma is_multisig_np code : np (is_multisig code).
Proof.
  unfold is_multisig.
  np_step; [reflexivity|].
  np_step. np_step; [reflexivity|]. np_step; [reflexivity|].
  (* the first operand *)
  assert (Hmi : exists m i, (if v =? 1 then c1 <- idx code 1;; Ok (c1, 2)
             else if v =? 2 then s <- slice_from code 1;; Ok (bytes_to_int16 s, 3)
             else Ok (v - 80, 1)) = Ok (m, i) /\ 1 <= i <= 3).
  { destruct (v =? 1).
    - destruct (idx_ok code 1) as [c1 H1]; [bounds|]. rewrite H1. cbn [bind]. eexists _, _. split; [reflexivity|lia].
    - destruct (v =? 2).
      + unfold slice_from. destruct (slice_ok code 1 (len code)) as [s [Hs _]]; [bounds|bounds|].
        rewrite Hs. cbn [bind]. eexists _, _. split; [reflexivity|lia].
      + eexists _, _. split; [reflexivity|lia]. }
  destruct Hmi as [m [i [Hmi Hi]]]. rewrite Hmi. cbn [bind].
  np_step; [reflexivity|].
  destruct (ms_loop_ok (S (length code)) code i 0) as [Hl | [i' [n' [Hl Hi']]]]; [bounds| |];
    rewrite Hl; cbn [bind]; [reflexivity|].
  np_step; [reflexivity|].
  np_step.
  (* the second operand *)
  assert (Hti : exists ti, (if v0 =? 1 then
             if len code <=? i' + 1 then Ok None else
             c <- idx code (i' + 1) ;;
             if negb (n' =? c) then Ok None else Ok (Some (i' + 1 + 1))
           else if v0 =? 2 then
             s <- slice_from code (i' + 1) ;;
             if negb (n' =? bytes_to_int16 s) then Ok None else Ok (Some (i' + 1 + 2))
           else
             if negb (n' =? v0 - 80) then Ok None else Ok (Some (i' + 1))) = Ok ti /\
          match ti with Some j => 0 <= j | None => True end).
  { destruct (v0 =? 1).
    - destruct (Z.leb_spec (len code) (i' + 1)); [eexists; split; [reflexivity|exact I]|].
      destruct (idx_ok code (i' + 1)) as [c Hc]; [lia|]. rewrite Hc. cbn [bind].
      destruct (negb (n' =? c)); eexists; (split; [reflexivity|]); [exact I|cbn beta iota; lia].
    - destruct (v0 =? 2).
      + unfold slice_from.
        destruct (slice_ok code (i' + 1) (len code)) as [s [Hs _]]; [lia|lia|].
        rewrite Hs. cbn [bind].
        destruct (negb (n' =? bytes_to_int16 s)); eexists; (split; [reflexivity|]); [exact I|cbn beta iota; lia].
      + destruct (negb (n' =? v0 - 80)); eexists; (split; [reflexivity|]); [exact I|cbn beta iota; lia]. }
  destruct Hti as [ti [Hti Hj]]. rewrite Hti. cbn [bind].
  destruct ti as [j|]; [|reflexivity].
  np_step; [reflexivity|].
  np_step. np_step; reflexivity.
Qed.

Lemma get_code_type_np code : np (get_code_type code).
Proof.
  unfold get_code_type.
  apply np_bind; [apply is_standard_np|]. intros s _. destruct s; [reflexivity|].
  apply np_bind; [apply is_multisig_np|]. intros m _. destruct m; [reflexivity|].
  apply np_bind; [apply is_schnorr_np|]. intros c _. destruct c; reflexivity.
Qed.

(* ---------------------------------------------------------------- auxpow *)

Lemma shl32_pos h : 0 <= h < 32 -> shl32 h <> 0.
Proof.
  intros H. unfold shl32, u32.
  rewrite (Z.mod_small h) by lia.
  destruct (Z.ltb_spec h 32); [|lia].
  assert (0 < 2 ^ h) by (apply Z.pow_pos_nonneg; lia).
  assert (2 ^ h < 2 ^ 32) by (apply Z.pow_lt_mono_r; lia).
  rewrite Z.mod_small; lia.
Qed.

Lemma expected_index_np nonce chainID h : np (expected_index nonce chainID h).
Proof.
  unfold expected_index. cbv zeta.
  destruct ((h <? 0) || (32 <=? h)) eqn:E; [reflexivity|].
  match goal with |- np (gomod ?a ?b) => destruct (gomod_ok a b) as [r Hr] end.
  - apply shl32_pos. bounds.
  - rewrite Hr. reflexivity.
Qed.

Lemma prefix_eqb_len p : forall s, prefix_eqb p s = true -> len p <= len s.
Proof.
  induction p as [|x p IH]; intros s H; [apply len_nonneg|].
  destruct s as [|y s]; [discriminate|].
  cbn [prefix_eqb] in H. apply andb_true_iff in H. destruct H as [_ H].
  apply IH in H. unfold len in *. cbn [length]. lia.
Qed.

Lemma index_from_spec p : forall s k r, index_from p s k = r ->
  r = -1 \/ (k <= r /\ r - k + len p <= len s).
Proof.
  induction s as [|y s IH]; intros k r H; cbn [index_from] in H.
  - destruct (prefix_eqb p []) eqn:E; [|left; auto].
    right. apply prefix_eqb_len in E. lia.
  - destruct (prefix_eqb p (y :: s)) eqn:E.
    + right. apply prefix_eqb_len in E. lia.
    + apply IH in H. destruct H as [H|H]; [left; exact H|right].
      unfold len in *. cbn [length]. lia.
Qed.

Lemma index_of_spec p s :
  index_of p s = -1 \/ (0 <= index_of p s /\ index_of p s + len p <= len s).
Proof.
  unfold index_of. destruct (index_from_spec p s 0 _ eq_refl) as [H|H]; [left; exact H|right; lia].
Qed.

Lemma auxpow_check_np H cbhash cbbranch parindex hdrroot auxhash auxbranch auxindex txin chainID :
  np (auxpow_check H cbhash cbbranch parindex hdrroot auxhash auxbranch auxindex txin chainID).
Proof.
  unfold auxpow_check. cbv zeta.
  np_step; [reflexivity|]. np_step; [reflexivity|].
  np_step. np_step; [reflexivity|].
  pose proof (index_of_spec mm_header (hex v)) as Hh.
  assert (len mm_header = 8) by reflexivity.
  set (hi := index_of mm_header (hex v)) in *.
  set (ri := index_of (root_rev_hex (merkle_root H auxhash auxbranch auxindex)) (hex v)) in *.
  pose proof (index_of_spec (root_rev_hex (merkle_root H auxhash auxbranch auxindex)) (hex v)) as Hr.
  fold ri in Hr.
  unfold slice_from.
  np_step. np_step; [reflexivity|]. np_step; [reflexivity|].
  np_step; [reflexivity|]. np_step; [reflexivity|].
  assert (0 <= (ri + 64) / 2) by (apply Z.div_pos; bounds).
  np_step. np_step; [reflexivity|]. np_step; [reflexivity|].
  np_step.
  apply np_bind; [apply expected_index_np|]. intros; reflexivity.
Qed.

(* ---------------------------------------------------------------- crypto *)

Lemma pk_loop_np fuel : forall c i acc,
  0 <= i -> i mod 34 = 0 -> len c mod 34 = 0 ->
  Forall (fun k => len k = 34) acc ->
  exists ks, pk_loop fuel c i acc = Ok ks /\ Forall (fun k => len k = 34) ks.
Proof.
  induction fuel as [|f IH]; intros c i acc Hi Hm Hc Ha; cbn [pk_loop].
  - eexists. split; [reflexivity|]. apply Forall_rev. exact Ha.
  - destruct (Z.ltb_spec i (len c)).
    + destruct (slice_ok c i (i + 34)) as [s [Hs Hl]]; [lia| |].
      { pose proof (Z.div_mod i 34). pose proof (Z.div_mod (len c) 34). lia. }
      rewrite Hs. cbn [bind]. apply IH; try lia.
      * rewrite <- Zplus_mod_idemp_l, Hm. reflexivity.
      * constructor; [lia|exact Ha].
    + eexists. split; [reflexivity|]. apply Forall_rev. exact Ha.
Qed.

Lemma parse_public_keys_np code : 3 <= len code ->
  exists r, parse_public_keys code = Ok r /\
            match r with Some ks => Forall (fun k => len k = 34) ks | None => True end.
Proof.
  intros H. unfold parse_public_keys, slice_to, slice_from.
  destruct (slice_ok code 0 (len code - 1)) as [c1 [H1 L1]]; [lia|lia|]. rewrite H1. cbn [bind].
  destruct (slice_ok c1 1 (len c1)) as [c2 [H2 L2]]; [lia|lia|]. rewrite H2. cbn [bind].
  destruct (slice_ok c2 0 (len c2 - 1)) as [c3 [H3 L3]]; [lia|lia|]. rewrite H3. cbn [bind].
  destruct (negb (len c3 mod 34 =? 0)) eqn:E; [eexists; split; [reflexivity|exact I]|].
  b2p.
  destruct (pk_loop_np (S (length c3)) c3 0 []) as [ks [Hk Hf]]; try lia; [reflexivity|constructor|].
  rewrite Hk. cbn [bind]. eexists; split; [reflexivity|exact Hf].
Qed.

Lemma parse_script_np last code :
  exists r, parse_script last code = Ok r /\
            match r with Some ks => Forall (fun k => len k = 34) ks | None => True end.
Proof.
  unfold parse_script.
  destruct (Z.ltb_spec (len code) 71); [eexists; split; [reflexivity|exact I]|].
  destruct (idx_ok code (len code - 1)) as [c Hc]; [lia|]. rewrite Hc. cbn [bind].
  destruct (negb (c =? last)); [eexists; split; [reflexivity|exact I]|].
  apply parse_public_keys_np. lia.
Qed.

Section Oracles.
Variable decode : list Z -> bool.
Variable verify : list Z -> list Z -> bool.
Variable schnorr : list Z -> list Z -> bool.

Lemma match_keys_np pks : forall sign verified,
  Forall (fun k => len k = 34) pks -> np (match_keys decode verify pks sign verified).
Proof.
  induction pks as [|pk rest IH]; intros sign verified Hf; cbn [match_keys]; [reflexivity|].
  inversion Hf as [|? ? Hpk Hrest]; subst.
  unfold slice_from.
  destruct (slice_ok pk 1 (len pk)) as [k [Hk _]]; [lia|lia|]. rewrite Hk. cbn [bind].
  destruct (negb (decode k)); [reflexivity|].
  destruct (verify k sign).
  - destruct (existsb (bytes_eqb pk) verified); reflexivity.
  - apply IH. exact Hrest.
Qed.

Lemma sig_loop_np fuel : forall pks sigs i verified,
  Forall (fun k => len k = 34) pks -> 0 <= i -> i mod 65 = 0 -> len sigs mod 65 = 0 ->
  np (sig_loop decode verify fuel pks sigs i verified).
Proof.
  induction fuel as [|f IH]; intros pks sigs i verified Hf Hi Hm Hs; cbn [sig_loop]; [reflexivity|].
  destruct (Z.ltb_spec i (len sigs)); [|reflexivity].
  destruct (slice_ok sigs i (i + 65)) as [s0 [H0 L0]]; [lia| |].
  { pose proof (Z.div_mod i 65). pose proof (Z.div_mod (len sigs) 65). lia. }
  rewrite H0. cbn [bind]. unfold slice_from.
  destruct (slice_ok s0 1 (len s0)) as [sg [Hsg _]]; [lia|lia|]. rewrite Hsg. cbn [bind].
  apply np_bind; [apply match_keys_np; exact Hf|].
  intros r _. destruct r; [reflexivity|].
  apply IH; try assumption; try lia.
  rewrite <- Zplus_mod_idemp_l, Hm. reflexivity.
Qed.

Lemma verify_multisig_np m n pks sigs :
  Forall (fun k => len k = 34) pks -> np (verify_multisig decode verify m n pks sigs).
Proof.
  intros Hf. unfold verify_multisig.
  np_step; [reflexivity|]. np_step; [reflexivity|]. np_step; [reflexivity|]. np_step; [reflexivity|].
  apply np_bind.
  - apply sig_loop_np; [assumption|lia|reflexivity|bounds].
  - intros r _. destruct r; reflexivity.
Qed.

Lemma check_multisig_np code param : np (check_multisig decode verify code param).
Proof.
  unfold check_multisig. cbv zeta.
  np_step; [reflexivity|]. np_step. np_step. np_step; [reflexivity|].
  destruct (parse_script_np 174 code) as [r [Hr Hf]]. rewrite Hr. cbn [bind].
  destruct r; [|reflexivity]. apply verify_multisig_np. exact Hf.
Qed.

Lemma check_crosschain_np code param : np (check_crosschain decode verify code param).
Proof.
  unfold check_crosschain. cbv zeta.
  np_step; [reflexivity|]. np_step. np_step.
  destruct (parse_script_np 175 code) as [r [Hr Hf]]. rewrite Hr. cbn [bind].
  destruct r; [|reflexivity]. apply verify_multisig_np. exact Hf.
Qed.

(* guard of every caller: the code is standard-shaped or has at least 23
   bytes; two bytes are enough *)
Lemma check_standard_np code param : 2 <= len code -> np (check_standard decode verify code param).
Proof. intros H. unfold check_standard. np_steps. Qed.

Lemma check_schnorr_np code param : np (check_schnorr schnorr code param).
Proof. unfold check_schnorr. np_steps. Qed.

Lemma is_standard_len code : is_standard code = Ok true -> len code = 35.
Proof.
  unfold is_standard. destruct (Z.eqb_spec (len code) 35); [auto|]. cbn. discriminate.
Qed.

Lemma sig_step_np (r : res bool) :
  np r -> np (b <- r ;; if b then Ok (@None bool) else Ok (Some false)).
Proof. intros H. apply np_bind; [exact H|]. intros b _. destruct b; reflexivity. Qed.

Lemma run_one_np prefix p : np (run_one decode verify schnorr prefix p).
Proof.
  destruct p as [[hm code] param]. unfold run_one.
  destruct (prefix =? 75).
  { apply np_bind; [apply is_schnorr_np|]. intros s _. destruct s; apply sig_step_np;
      [apply check_schnorr_np|apply check_crosschain_np]. }
  destruct (negb hm); [reflexivity|].
  destruct ((prefix =? 33) || (prefix =? 31)).
  { apply np_bind; [apply is_schnorr_np|]. intros s _.
    destruct s; [apply sig_step_np; apply check_schnorr_np|].
    apply np_bind; [apply is_standard_np|]. intros st Hst.
    destruct st.
    - apply sig_step_np. apply check_standard_np. apply is_standard_len in Hst. lia.
    - apply np_bind; [apply is_multisig_np|]. intros ms _.
      destruct ms; [apply sig_step_np; apply check_multisig_np|reflexivity]. }
  destruct (prefix =? 18); [apply sig_step_np; apply check_multisig_np|reflexivity].
Qed.

Lemma run_loop_np progs : forall hashes i,
  0 <= i -> i + len progs <= len hashes -> np (run_loop decode verify schnorr hashes progs i).
Proof.
  induction progs as [|p rest IH]; intros hashes i Hi Hl; cbn [run_loop]; [reflexivity|].
  assert (len (p :: rest) = len rest + 1) as E by (unfold len; cbn [length]; lia).
  pose proof (len_nonneg rest).
  destruct (idx_ok hashes i) as [ph Hp]; [lia|]. rewrite Hp. cbn [bind].
  apply np_bind; [apply run_one_np|]. intros r _.
  destruct r; [reflexivity|]. apply IH; lia.
Qed.

Lemma run_programs_np hashes progs : np (run_programs decode verify schnorr hashes progs).
Proof.
  unfold run_programs.
  destruct (negb (len hashes =? len progs)) eqn:E; [reflexivity|].
  b2p. apply run_loop_np; lia.
Qed.

End Oracles.

(* ---------------------------------------------------------------- coinbase *)

Lemma coinbase_sanity_np pre outs f1 f2 : np (coinbase_sanity pre outs f1 f2).
Proof. unfold coinbase_sanity. np_steps. Qed.

Lemma coinbase_sanity_len pre outs f1 f2 :
  coinbase_sanity pre outs f1 f2 = Ok true -> 2 <= len outs.
Proof.
  unfold coinbase_sanity.
  destruct (65535 <? len outs); [discriminate|].
  destruct (Z.ltb_spec (len outs) 2); [discriminate|]. intros _. assumption.
Qed.

Lemma reward_loop_np fuel : forall outs i, 0 <= i -> np (reward_loop fuel outs i).
Proof.
  induction fuel as [|f IH]; intros outs i Hi; cbn [reward_loop]; [reflexivity|].
  destruct (Z.ltb_spec i (len outs)); [|reflexivity].
  destruct (idx_ok outs i) as [o Ho]; [lia|]. rewrite Ho. cbn [bind].
  destruct (o_reward o); [|reflexivity]. cbn [bind].
  destruct (negb (z =? o_value o)); [reflexivity|]. apply IH. lia.
Qed.

(* guard established by CheckTransactionOutput: at least two outputs *)
Lemma coinbase_context_np regime pow outs rcr rmm rdpos expected nrewards :
  2 <= len outs -> np (coinbase_context regime pow outs rcr rmm rdpos expected nrewards).
Proof.
  intros H. unfold coinbase_context.
  destruct (regime =? 0).
  { np_steps. }
  destruct (regime =? 1).
  { np_step. np_step. np_step; [reflexivity|]. np_step; [reflexivity|].
    apply reward_loop_np. lia. }
  reflexivity.
Qed.

(* ---------------------------------------------------------------- tx sites *)

Lemma attr_loop_np allowed ps : np (attr_loop allowed ps).
Proof.
  induction ps as [|[[cn pn] code] rest IH]; cbn [attr_loop]; [reflexivity|].
  destruct (negb cn); [reflexivity|]. destruct (len code <? 23); [reflexivity|].
  destruct (negb pn); [reflexivity|]. destruct allowed; [exact IH|].
  apply np_bind; [apply is_schnorr_np|]. intros s _. destruct s; [reflexivity|exact IH].
Qed.

Lemma check_attribute_program_np allowed ps : np (check_attribute_program allowed ps).
Proof. unfold check_attribute_program. destruct (len ps =? 0); [reflexivity|apply attr_loop_np]. Qed.

(* what the guard gives the later checks: every program code has >= 23 bytes *)
Lemma attr_loop_guard allowed ps :
  attr_loop allowed ps = Ok true -> Forall (fun p => 23 <= len (snd p)) ps.
Proof.
  induction ps as [|[[cn pn] code] rest IH]; cbn [attr_loop]; intros H; [constructor|].
  destruct (negb cn); [discriminate|].
  destruct (Z.ltb_spec (len code) 23); [discriminate|].
  destruct (negb pn); [discriminate|].
  destruct allowed.
  - constructor; [assumption|apply IH; exact H].
  - destruct (is_schnorr code) as [s|]; [|discriminate]. cbn [bind] in H.
    destruct s; [discriminate|]. constructor; [assumption|apply IH; exact H].
Qed.

Lemma check_attribute_program_guard allowed ps :
  check_attribute_program allowed ps = Ok true ->
  1 <= len ps /\ Forall (fun p => 23 <= len (snd p)) ps.
Proof.
  unfold check_attribute_program. destruct (Z.eqb_spec (len ps) 0); [discriminate|].
  intros H. split; [pose proof (len_nonneg ps); lia|]. eapply attr_loop_guard; exact H.
Qed.

Lemma return_deposit_loop_np known codes :
  Forall (fun c => 23 <= len c) codes -> np (return_deposit_loop known codes).
Proof.
  induction codes as [|code rest IH]; intros Hf; cbn [return_deposit_loop]; [reflexivity|].
  inversion Hf as [|? ? Hc Hr]; subst.
  apply np_bind; [apply is_multisig_np|]. intros ms _.
  assert (np (if ms then Ok code else slice code 1 (len code - 1))) as Hk.
  { destruct ms; [reflexivity|].
    destruct (slice_ok code 1 (len code - 1)) as [s [Hs _]]; [lia|lia|]. rewrite Hs. reflexivity. }
  apply np_bind; [exact Hk|]. intros key _.
  destruct (negb (known key)); [reflexivity|]. apply IH. exact Hr.
Qed.

Lemma is_schnorr_len code : is_schnorr code = Ok true -> len code = 35.
Proof.
  unfold is_schnorr. destruct (Z.eqb_spec (len code) 35); [auto|]. cbn. discriminate.
Qed.

Lemma is_multisig_len code : is_multisig code = Ok true -> 37 <= len code.
Proof.
  unfold is_multisig. destruct (Z.ltb_spec (len code) 37); [discriminate|auto].
Qed.

(* guard: at least one program (CheckAttributeProgram) *)
Lemma register_producer_code_np version sigok codes owner :
  1 <= len codes -> np (register_producer_code version sigok codes owner).
Proof.
  intros H. unfold register_producer_code.
  destruct (version <? 2); [reflexivity|].
  destruct (version =? 2).
  { destruct (negb (len codes =? 1)); [reflexivity|].
    destruct (idx_ok codes 0) as [c Hc]; [lia|]. rewrite Hc. cbn [bind].
    apply np_bind; [apply is_schnorr_np|]. intros s Hs.
    destruct s; [|reflexivity]. cbn [negb bind]. apply is_schnorr_len in Hs.
    unfold slice_from.
    destruct (slice_ok c 2 (len c)) as [pk [Hp _]]; [lia|lia|]. rewrite Hp. reflexivity. }
  destruct (version =? 3); [|reflexivity].
  destruct (idx_ok codes 0) as [c Hc]; [lia|]. rewrite Hc. cbn [bind].
  apply np_bind; [apply is_multisig_np|]. intros ms Hms.
  destruct ms; [|reflexivity]. cbn [negb bind]. apply is_multisig_len in Hms.
  destruct (negb (bytes_eqb c owner)); [reflexivity|]. cbn [bind].
  destruct (idx_ok c (len c - 2)) as [cn Hn]; [lia|]. rewrite Hn. reflexivity.
Qed.

Lemma signer_loop_np validate arbiters signers : forall seen,
  Forall (fun s => 0 <= s) signers ->
  np (signer_loop validate (len arbiters) arbiters signers seen).
Proof.
  induction signers as [|index rest IH]; intros seen Hf; cbn [signer_loop]; [reflexivity|].
  inversion Hf as [|? ? Hi Hr]; subst.
  destruct (Z.leb_spec (len arbiters) index); [reflexivity|].
  destruct (validate && existsb (Z.eqb index) seen); [reflexivity|].
  destruct (idx_ok arbiters index) as [a Ha]; [lia|]. rewrite Ha. cbn [bind].
  destruct (a =? 0); [reflexivity|].
  apply IH. exact Hr.
Qed.

(* signer indexes are uint8 values *)
Lemma schnorr_withdraw_signers_np validate arbiters signers :
  Forall (fun s => 0 <= s) signers -> np (schnorr_withdraw_signers validate arbiters signers).
Proof. intros H. unfold schnorr_withdraw_signers. apply signer_loop_np. exact H. Qed.

Lemma withdraw_programs_np redeem codes : np (withdraw_programs redeem codes).
Proof.
  induction codes as [|c rest IH]; cbn [withdraw_programs]; [reflexivity|].
  apply np_bind; [apply is_schnorr_np|]. intros s _.
  destruct s; [|reflexivity]. destruct (bytes_eqb c redeem); [exact IH|reflexivity].
Qed.

Lemma schnorr_withdraw_np validate arbiters signers agg_ok redeem codes :
  Forall (fun s => 0 <= s) signers ->
  np (schnorr_withdraw validate arbiters signers agg_ok redeem codes).
Proof.
  intros H. unfold schnorr_withdraw.
  apply np_bind; [apply schnorr_withdraw_signers_np; exact H|]. intros l _.
  destruct (negb l); [reflexivity|]. destruct (negb agg_ok); [reflexivity|].
  apply withdraw_programs_np.
Qed.

(* TransferCrossChainAsset V0 *)
Lemma idx_in {A} (l : list A) i a : idx l i = Ok a -> In a l.
Proof.
  unfold idx. destruct (i <? 0); [discriminate|].
  destruct (nth_error l (Z.to_nat i)) eqn:E; [|discriminate].
  intros H. inversion H; subst. eapply nth_error_In; exact E.
Qed.

Lemma v0_index_loop_bound n idxs : forall seen,
  v0_index_loop n idxs seen = true -> Forall (fun k => k < n) idxs.
Proof.
  induction idxs as [|i rest IH]; intros seen H; [constructor|].
  cbn [v0_index_loop] in H.
  destruct (existsb (Z.eqb i) seen || (n <=? i)) eqn:E; [discriminate|].
  b2p. constructor; [lia|]. eapply IH; exact H.
Qed.

Lemma v0_addr_loop_np fuel : forall addrs idxs outs i seen,
  0 <= i -> len addrs = len idxs ->
  Forall (fun k => 0 <= k < len outs) idxs ->
  np (v0_addr_loop fuel addrs idxs outs i seen).
Proof.
  induction fuel as [|f IH]; intros addrs idxs outs i seen Hi Hl Hf; cbn [v0_addr_loop]; [reflexivity|].
  destruct (Z.ltb_spec i (len addrs)); [|reflexivity].
  destruct (idx_ok addrs i) as [a Ha]; [lia|]. rewrite Ha. cbn [bind].
  destruct (existsb (Z.eqb a) seen); [reflexivity|].
  destruct (idx_ok idxs i) as [k Hk]; [lia|]. rewrite Hk. cbn [bind].
  pose proof (proj1 (Forall_forall _ _) Hf k (idx_in _ _ _ Hk)) as Hb. cbn beta in Hb.
  destruct (idx_ok outs k) as [o Ho]; [lia|]. rewrite Ho. cbn [bind].
  destruct (negb (fst o =? 75)); [reflexivity|].
  destruct (a =? 0); [reflexivity|].
  apply IH; try assumption; lia.
Qed.

Lemma v0_amount_loop_np fuel : forall amounts idxs outs minfee i,
  0 <= i -> len amounts = len idxs ->
  Forall (fun k => 0 <= k < len outs) idxs ->
  np (v0_amount_loop fuel amounts idxs outs minfee i).
Proof.
  induction fuel as [|f IH]; intros amounts idxs outs minfee i Hi Hl Hf; cbn [v0_amount_loop]; [reflexivity|].
  destruct (Z.ltb_spec i (len amounts)); [|reflexivity].
  destruct (idx_ok amounts i) as [a Ha]; [lia|]. rewrite Ha. cbn [bind].
  destruct (a <? 0); [reflexivity|].
  destruct (idx_ok idxs i) as [k Hk]; [lia|]. rewrite Hk. cbn [bind].
  pose proof (proj1 (Forall_forall _ _) Hf k (idx_in _ _ _ Hk)) as Hb. cbn beta in Hb.
  destruct (idx_ok outs k) as [o Ho]; [lia|]. rewrite Ho. cbn [bind].
  destruct (i64 (snd o - minfee) <? a); [reflexivity|].
  apply IH; try assumption; lia.
Qed.

(* OutputIndexes are uint64 values *)
Lemma crosschain_v0_np is_payload addrs idxs amounts outs minfee total_in :
  Forall (fun k => 0 <= k) idxs ->
  np (crosschain_v0 is_payload addrs idxs amounts outs minfee total_in).
Proof.
  intros Hp. unfold crosschain_v0.
  destruct (negb is_payload); [reflexivity|].
  destruct ((len addrs =? 0) || (len outs <? len addrs) || negb (len addrs =? len amounts) ||
            negb (len amounts =? len idxs)) eqn:E; [reflexivity|].
  destruct (v0_index_loop (len outs) idxs []) eqn:El; [|reflexivity]. cbn [negb].
  apply v0_index_loop_bound in El.
  assert (Forall (fun k => 0 <= k < len outs) idxs) as Hf.
  { apply Forall_forall. intros k Hk.
    pose proof (proj1 (Forall_forall _ _) Hp k Hk). pose proof (proj1 (Forall_forall _ _) El k Hk).
    cbn beta in *. lia. }
  b2p.
  apply np_bind; [apply v0_addr_loop_np; [lia|lia|exact Hf]|]. intros r _.
  destruct (negb r); [reflexivity|].
  apply np_bind; [apply v0_amount_loop_np; [lia|lia|exact Hf]|]. intros r' _.
  destruct (negb r'); reflexivity.
Qed.

(* ReturnSideChainDepositCoin: a transaction found in the chain store was
   validated when it was stored: its first input spends an existing output and
   (V0) its payload's output indexes are within its outputs *)
Definition deposit_wf (tx : deposit_tx) : Prop :=
  (forall i0 refouts, idx (d_inputs tx) 0 = Ok i0 -> snd i0 = Some refouts -> 0 <= fst i0 < len refouts) /\
  Forall (fun k => 0 <= k < len (d_outs tx)) (d_idxs tx).

Lemma dep_amount_v0_np idxs : forall outs side acc,
  Forall (fun k => 0 <= k < len outs) idxs -> np (dep_amount_v0 idxs outs side acc).
Proof.
  induction idxs as [|k rest IH]; intros outs side acc Hf; cbn [dep_amount_v0]; [reflexivity|].
  inversion Hf as [|? ? Hk Hr]; subst.
  destruct (idx_ok outs k) as [o Ho]; [lia|]. rewrite Ho. cbn [bind].
  destruct (negb (fst (fst o) =? side)); apply IH; exact Hr.
Qed.

Lemma return_deposit_output_np out_ph out_value fee dup dep addr_ok side :
  (forall tx, dep = Some tx -> deposit_wf tx) ->
  np (return_deposit_output out_ph out_value fee dup dep addr_ok side).
Proof.
  intros Hwf. unfold return_deposit_output.
  destruct dup; [reflexivity|]. destruct dep as [tx|]; [|reflexivity].
  destruct (Hwf tx eq_refl) as [Hin Hidx].
  destruct (Z.eqb_spec (len (d_inputs tx)) 0); [reflexivity|].
  destruct (idx_ok (d_inputs tx) 0) as [i0 H0]; [pose proof (len_nonneg (d_inputs tx)); lia|].
  rewrite H0. cbn [bind].
  destruct (snd i0) as [refouts|] eqn:Er; [|reflexivity].
  destruct (idx_ok refouts (fst i0)) as [ro Hro]; [eapply Hin; [exact H0|exact Er]|].
  rewrite Hro. cbn [bind].
  destruct (negb (out_ph =? ro)); [reflexivity|]. destruct (negb addr_ok); [reflexivity|].
  apply np_bind.
  - destruct (d_pver tx =? 0).
    + destruct (negb (d_is_tcca tx)); [reflexivity|].
      apply np_bind; [apply dep_amount_v0_np; exact Hidx|]. intros; reflexivity.
    + destruct (d_pver tx =? 1); [destruct (negb (d_is_tcca tx)); reflexivity|reflexivity].
  - intros amt _. destruct amt; [|reflexivity].
    destruct (negb (i64 (out_value + fee) =? z)); reflexivity.
Qed.

Lemma members_loop_np member pks :
  Forall (fun k => len k = 34) pks -> np (members_loop member pks).
Proof.
  induction pks as [|pk rest IH]; intros Hf; cbn [members_loop]; [reflexivity|].
  inversion Hf as [|? ? Hpk Hrest]; subst. unfold slice_from.
  destruct (slice_ok pk 1 (len pk)) as [k [Hk _]]; [lia|lia|]. rewrite Hk. cbn [bind].
  destruct (negb (member k)); [reflexivity|]. apply IH. exact Hrest.
Qed.

Lemma arbiter_signatures_np counts_ok member codes : np (arbiter_signatures counts_ok member codes).
Proof.
  unfold arbiter_signatures.
  np_step; [reflexivity|]. np_step. np_step; [reflexivity|]. np_step. np_step.
  np_step; [reflexivity|].
  destruct (parse_script_np 174 v) as [r [Hr Hf]]. rewrite Hr. cbn [bind].
  destruct r; [|reflexivity]. apply members_loop_np. exact Hf.
Qed.

(* ---------------------------------------------------------------- composition *)

Lemma validate_tx_programs_np decode verify schnorr allowed ps hashes progs known version sigok owner :
  np (validate_tx_programs decode verify schnorr allowed ps hashes progs known version sigok owner).
Proof.
  unfold validate_tx_programs.
  apply np_bind; [apply check_attribute_program_np|]. intros a Ha.
  destruct a; [|reflexivity]. cbn [negb].
  apply check_attribute_program_guard in Ha. destruct Ha as [Hn Hg].
  apply np_bind; [apply run_programs_np|]. intros r _.
  apply np_bind.
  { apply return_deposit_loop_np. apply Forall_map. exact Hg. }
  intros d _.
  apply np_bind.
  { apply register_producer_code_np. unfold len in *. rewrite map_length. exact Hn. }
  intros g _. reflexivity.
Qed.

Lemma validate_block_header_coinbase_np H cbhash cbbranch parindex hdrroot auxhash auxbranch
    auxindex txin chainID pre outs f1 f2 regime pow rcr rmm rdpos expected nrewards :
  np (validate_block_header_coinbase H cbhash cbbranch parindex hdrroot auxhash auxbranch auxindex
        txin chainID pre outs f1 f2 regime pow rcr rmm rdpos expected nrewards).
Proof.
  unfold validate_block_header_coinbase.
  apply np_bind; [apply auxpow_check_np|]. intros a _. destruct a; [|reflexivity]. cbn [negb].
  apply np_bind; [apply coinbase_sanity_np|]. intros s Hs. destruct s; [|reflexivity]. cbn [negb].
  apply coinbase_context_np. eapply coinbase_sanity_len. exact Hs.
Qed.
