(* C33 — lemmas about the model of the WithdrawFromSideChain checks. *)
From Coq Require Import ZArith List Bool Lia Permutation.
From ELA Require Import model.C33_Withdraw.
Import ListNotations.
Local Open Scope Z_scope.

(* ---------------------------------------------------------------- basics *)

Lemma bytes_eqb_eq : forall a b, bytes_eqb a b = true <-> a = b.
Proof.
  induction a as [|x a IH]; destruct b as [|y b]; simpl; split; intro H; try discriminate; auto.
  - apply andb_true_iff in H as [H1 H2]. apply Z.eqb_eq in H1. apply IH in H2. congruence.
  - inversion H; subst. apply andb_true_iff; split; [apply Z.eqb_refl | apply IH; reflexivity].
Qed.

Lemma memN_In : forall h l, memN h l = true <-> In h l.
Proof.
  intros h l; unfold memN; rewrite existsb_exists; split.
  - intros [x [Hx E]]. apply N.eqb_eq in E. subst; auto.
  - intro H; exists h; split; auto. apply N.eqb_refl.
Qed.

Lemma memN_false : forall h l, memN h l = false <-> ~ In h l.
Proof.
  intros h l. rewrite <- memN_In. destruct (memN h l); split; intro H; auto; try discriminate.
  exfalso; apply H; reflexivity.
Qed.

Lemma memZ_In : forall h l, memZ h l = true <-> In h l.
Proof.
  intros h l; unfold memZ; rewrite existsb_exists; split.
  - intros [x [Hx E]]. apply Z.eqb_eq in E. subst; auto.
  - intro H; exists h; split; auto. apply Z.eqb_refl.
Qed.

Lemma in_somes : forall (A : Type) (h : A) l, In h (somes l) <-> In (Some h) l.
Proof.
  induction l as [|[x|] l IH]; simpl; [tauto| |].
  - rewrite IH. split; intros [H|H]; auto; left; congruence.
  - rewrite IH. split; [auto | intros [H|H]; [discriminate | auto]].
Qed.

Lemma refs_ok_all : forall t, refs_ok t = true -> Forall (fun p => p = PrefixCrossChain) (ref_prefixes t).
Proof.
  unfold refs_ok; intros t H. apply Forall_forall; intros p Hp.
  rewrite forallb_forall in H. apply H in Hp. apply Z.eqb_eq in Hp; auto.
Qed.

Lemma has_cc_false : forall l, has_cc l = false -> Forall (fun p => p <> PrefixCrossChain) l.
Proof.
  unfold has_cc; intros l H. apply Forall_forall; intros p Hp E; subst.
  assert (existsb (Z.eqb PrefixCrossChain) l = true) as C
    by (apply existsb_exists; exists PrefixCrossChain; split; auto; apply Z.eqb_refl).
  congruence.
Qed.

(* ---------------------------------------------------------------- key set *)

Lemma dedup_length_le : forall l, (length (dedup l) <= length l)%nat.
Proof. induction l as [|x l IH]; simpl; auto. destruct (existsb (bytes_eqb x) l); simpl; lia. Qed.

Lemma dedup_full_nodup : forall l, length (dedup l) = length l -> NoDup l.
Proof.
  induction l as [|x l IH]; simpl; intro H; [constructor|].
  destruct (existsb (bytes_eqb x) l) eqn:E.
  - pose proof (dedup_length_le l). lia.
  - simpl in H. constructor.
    + intro Hin. assert (existsb (bytes_eqb x) l = true) as C.
      { apply existsb_exists; exists x; split; auto. apply bytes_eqb_eq; reflexivity. }
      congruence.
    + apply IH. lia.
Qed.

Lemma zlen_eq : forall (A B : Type) (a : list A) (b : list B), zlen a = zlen b -> length a = length b.
Proof. unfold zlen; intros; lia. Qed.

(* checkCrossChainArbitrators accepts only scripts whose keys are exactly the
   (pairwise distinct) normal cross-chain arbiters *)
Lemma check_arbitrators_sound : forall cc pks,
  check_arbitrators cc pks = true ->
  NoDup (normal_keys cc) /\ Permutation (normal_keys cc) (map (@tl Z) pks).
Proof.
  unfold check_arbitrators; intros cc pks H.
  apply andb_true_iff in H as [H H3]. apply andb_true_iff in H as [H1 H2].
  apply Z.eqb_eq in H2, H3. unfold distinct_count in H3.
  assert (NoDup (normal_keys cc)) as ND by (apply dedup_full_nodup; symmetry; apply zlen_eq; exact H3).
  split; auto.
  apply NoDup_Permutation_bis; auto.
  - rewrite map_length. apply zlen_eq in H2. apply Nat.eq_le_incl. symmetry. exact H2.
  - intros k Hk. rewrite forallb_forall in H1. apply H1 in Hk.
    apply existsb_exists in Hk as [pk [Hpk E]]. apply bytes_eqb_eq in E. subst.
    apply in_map; auto.
Qed.

(* what an accepted program carries under the rule of V1 (and V0 from CRClaimDPOSNodeStartHeight) *)
Definition quorum_script (c : cfg) (e : env) (code : bytes) : Prop :=
  exists pks m n, parse_script code = Some (pks, m, n) /\
    min_count c <= m /\ n = count_normal (sel_arbs c e) /\
    NoDup (normal_keys (cc_arbs e)) /\ Permutation (normal_keys (cc_arbs e)) (map (@tl Z) pks).

Definition legacy_quorum_script (e : env) (code : bytes) : Prop :=
  exists pks m n, parse_script code = Some (pks, m, n) /\
    1 <= m <= n /\ n = cc_count e /\ cc_majority e < m /\
    NoDup (normal_keys (cc_arbs e)) /\ Permutation (normal_keys (cc_arbs e)) (map (@tl Z) pks).

Lemma prog_ok_new_sound : forall c e code, prog_ok_new c e code = true -> quorum_script c e code.
Proof.
  unfold prog_ok_new, quorum_script; intros c e code H.
  destruct (parse_script code) as [[[pks m] n]|]; [|discriminate].
  apply andb_true_iff in H as [H H3]. apply andb_true_iff in H as [H1 H2].
  apply Z.eqb_eq in H1. apply negb_true_iff in H2. apply Z.ltb_ge in H2.
  apply check_arbitrators_sound in H3 as [ND P].
  exists pks, m, n; repeat split; auto.
Qed.

Lemma prog_ok_old_sound : forall e code, prog_ok_old e code = true -> legacy_quorum_script e code.
Proof.
  unfold prog_ok_old, legacy_quorum_script; intros e code H.
  destruct (parse_script code) as [[[pks m] n]|]; [|discriminate].
  apply andb_true_iff in H as [H H3]. apply negb_true_iff in H.
  apply orb_false_iff in H as [H H4]. apply orb_false_iff in H as [H H5]. apply orb_false_iff in H as [H1 H2].
  apply Z.ltb_ge in H1, H2. apply negb_false_iff in H5. apply Z.eqb_eq in H5. apply Z.leb_gt in H4.
  apply check_arbitrators_sound in H3 as [ND P].
  exists pks, m, n; repeat split; auto; lia.
Qed.

(* ---------------------------------------------------------------- signer indexes *)

Definition dflt_arb := {| a_key := []; a_normal := false |}.
Definition key_at (cc : list arbiter) (i : Z) : bytes := a_key (nth (Z.to_nat i) cc dflt_arb).

Lemma collect_sound : forall ss validate cc seen acc ks,
  collect validate cc seen ss acc = CKeys ks ->
  ks = rev acc ++ map (key_at cc) ss /\
  Forall (fun i => i < zlen cc) ss /\
  (validate = true -> NoDup ss /\ Forall (fun i => ~ In i seen) ss).
Proof.
  induction ss as [|i r IH]; intros validate cc seen acc ks H; simpl in H.
  - inversion H; subst. rewrite app_nil_r. repeat split; constructor.
  - destruct (zlen cc <=? i) eqn:E1; [discriminate|].
    destruct (validate && memZ i seen) eqn:E2; [discriminate|].
    apply IH in H as [Hk [Hr Hv]]. apply Z.leb_gt in E1.
    split; [|split].
    + subst ks. simpl. rewrite <- app_assoc. reflexivity.
    + constructor; auto.
    + intro V. subst validate. simpl in E2. specialize (Hv eq_refl) as [ND Hs].
      assert (~ In i seen) as Hi by (intro C; apply memZ_In in C; congruence).
      split.
      * constructor; auto. intro C. rewrite Forall_forall in Hs. apply (Hs i C). left; reflexivity.
      * constructor; auto. eapply Forall_impl; [|exact Hs]. intros a Ha C. apply Ha. right; exact C.
Qed.

(* ---------------------------------------------------------------- acceptance, by payload version *)

Section Acc.
  Variable agg : list bytes -> option bytes.

  Lemma accept_policy : forall lk c e t,
    withdraw_check_gen agg lk c e t = Accept -> policy c t = true /\ special_check agg lk c e t = Accept.
  Proof. unfold withdraw_check_gen; intros lk c e t H. destruct (policy c t); [auto|discriminate]. Qed.

  Lemma special_v0 : forall lk c e t, pver t = 0 ->
    special_check agg lk c e t = Accept -> check_v0 c e t = Accept.
  Proof.
    unfold special_check; intros lk c e t P H. rewrite P in H. simpl in H.
    destruct (schnorr_start c <? height c); simpl in H; [discriminate|exact H].
  Qed.

  Lemma special_v1 : forall lk c e t, pver t = 1 ->
    special_check agg lk c e t = Accept -> check_v1 c e t = Accept.
  Proof.
    unfold special_check; intros lk c e t P H. rewrite P in H. simpl in H.
    destruct (schnorr_start c <? height c); simpl in H; [discriminate|exact H].
  Qed.

  Lemma special_v2 : forall lk c e t, pver t = 2 ->
    special_check agg lk c e t = Accept -> check_v2 agg lk c e t = Accept.
  Proof.
    unfold special_check; intros lk c e t P H. rewrite P in H. simpl in H.
    rewrite andb_false_r in H. exact H.
  Qed.

  Lemma v0_inv : forall c e t, check_v0 c e t = Accept ->
    existsb (fun h => memN h (tx3 e)) (payload_hashes t) = false /\ refs_ok t = true /\
    forallb (fun code => if cr_claim_start c <=? height c then prog_ok_new c e code
                         else prog_ok_old e code) (programs t) = true.
  Proof.
    unfold check_v0; intros c e t H.
    destruct (existsb _ (payload_hashes t)); [discriminate|].
    destruct (refs_ok t); simpl in H; [|discriminate].
    destruct (forallb _ (programs t)); [auto|discriminate].
  Qed.

  Lemma v1_inv : forall c e t, check_v1 c e t = Accept ->
    outs_fresh e t = true /\ refs_ok t = true /\ forallb (prog_ok_new c e) (programs t) = true.
  Proof.
    unfold check_v1; intros c e t H.
    destruct (outs_fresh e t); simpl in H; [|discriminate].
    destruct (refs_ok t); simpl in H; [|discriminate].
    destruct (forallb _ (programs t)); [auto|discriminate].
  Qed.

  Lemma v2_inv : forall lk c e t, check_v2 agg lk c e t = Accept ->
    (lk = true -> outs_fresh e t = true) /\
    v2_threshold c <= zlen (signers t) /\ refs_ok t = true /\
    exists ks script,
      collect (validate_indexes c) (cc_arbs e) [] (signers t) [] = CKeys ks /\
      agg ks = Some script /\
      forallb (fun code => is_schnorr code && bytes_eqb code script) (programs t) = true.
  Proof.
    unfold check_v2; intros lk c e t H.
    destruct (lk && negb (outs_fresh e t)) eqn:E0; [discriminate|].
    destruct (zlen (signers t) <? v2_threshold c) eqn:E1; [discriminate|].
    destruct (refs_ok t); simpl in H; [|discriminate].
    destruct (collect _ _ _ _ _) as [ks|] eqn:E2; [|discriminate].
    destruct (agg ks) as [script|] eqn:E3; [|discriminate].
    destruct (forallb _ (programs t)) eqn:E4; [|discriminate].
    apply Z.ltb_ge in E1. repeat split; auto.
    - intro L; subst lk. simpl in E0. apply negb_false_iff in E0; exact E0.
    - exists ks, script; auto.
  Qed.

  Lemma known_cases : forall v, known_pver v = true -> v = 0 \/ v = 1 \/ v = 2.
  Proof.
    unfold known_pver; intros v H.
    apply orb_true_iff in H as [H|H]; [apply orb_true_iff in H as [H|H]|]; apply Z.eqb_eq in H; auto.
  Qed.

  (* ------------------------------------------------ property 1: inputs *)

  Lemma only_crosschain_inputs : forall lk c e t,
    known_pver (pver t) = true ->
    withdraw_check_gen agg lk c e t = Accept ->
    Forall (fun p => p = PrefixCrossChain) (ref_prefixes t).
  Proof.
    intros lk c e t K H. apply accept_policy in H as [_ H]. apply refs_ok_all.
    destruct (known_cases _ K) as [P|[P|P]].
    - apply special_v0 in H; auto. apply v0_inv in H; tauto.
    - apply special_v1 in H; auto. apply v1_inv in H; tauto.
    - apply special_v2 in H; auto. apply v2_inv in H; tauto.
  Qed.

  Lemma unknown_version_no_crosschain_input : forall lk c e t,
    known_pver (pver t) = false -> freeze_height c <= height c ->
    withdraw_check_gen agg lk c e t = Accept ->
    Forall (fun p => p <> PrefixCrossChain) (ref_prefixes t).
  Proof.
    intros lk c e t K F H. apply accept_policy in H as [H _]. unfold policy in H.
    assert (height c <? freeze_height c = false) as E by (apply Z.ltb_ge; exact F).
    rewrite E in H. simpl in H.
    destruct (has_cc (ref_prefixes t)) eqn:HC; simpl in H.
    - destruct (height c <? restriction_height c); [discriminate | congruence].
    - apply has_cc_false; exact HC.
  Qed.

  (* ------------------------------------------------ property 2: quorum *)

  Lemma quorum_required_v1 : forall lk c e t,
    pver t = 1 \/ (pver t = 0 /\ cr_claim_start c <= height c) ->
    withdraw_check_gen agg lk c e t = Accept ->
    forall code, In code (programs t) -> quorum_script c e code.
  Proof.
    intros lk c e t [P|[P Hh]] H code Hin; apply accept_policy in H as [_ H].
    - apply special_v1 in H; auto. apply v1_inv in H as [_ [_ H]].
      rewrite forallb_forall in H. apply prog_ok_new_sound; auto.
    - apply special_v0 in H; auto. apply v0_inv in H as [_ [_ H]].
      rewrite forallb_forall in H. apply H in Hin.
      apply Z.leb_le in Hh. rewrite Hh in Hin. apply prog_ok_new_sound; auto.
  Qed.

  Lemma quorum_required_v0_legacy : forall lk c e t,
    pver t = 0 -> height c < cr_claim_start c ->
    withdraw_check_gen agg lk c e t = Accept ->
    forall code, In code (programs t) -> legacy_quorum_script e code.
  Proof.
    intros lk c e t P Hh H code Hin. apply accept_policy in H as [_ H].
    apply special_v0 in H; auto. apply v0_inv in H as [_ [_ H]].
    rewrite forallb_forall in H. apply H in Hin.
    apply Z.leb_gt in Hh. rewrite Hh in Hin. apply prog_ok_old_sound; auto.
  Qed.

  Lemma quorum_required_v2 : forall lk c e t,
    pver t = 2 ->
    withdraw_check_gen agg lk c e t = Accept ->
    v2_threshold c <= zlen (signers t) /\
    Forall (fun i => i < zlen (cc_arbs e)) (signers t) /\
    exists script, agg (map (key_at (cc_arbs e)) (signers t)) = Some script /\
      forall code, In code (programs t) -> code = script /\ is_schnorr code = true.
  Proof.
    intros lk c e t P H. apply accept_policy in H as [_ H].
    apply special_v2 in H; auto. apply v2_inv in H as [_ [T [_ [ks [script [C [A F]]]]]]].
    apply collect_sound in C as [Hk [Hr _]]. simpl in Hk. subst ks.
    repeat split; auto. exists script; split; auto.
    intros code Hin. rewrite forallb_forall in F. apply F in Hin.
    apply andb_true_iff in Hin as [S E]. apply bytes_eqb_eq in E. auto.
  Qed.

  (* ------------------------------------------------ property 3: signer indexes *)

  Lemma indexes_distinct_in_range : forall lk c e t,
    pver t = 2 -> restriction_height c <= height c ->
    withdraw_check_gen agg lk c e t = Accept ->
    NoDup (signers t) /\ Forall (fun i => i < zlen (cc_arbs e)) (signers t).
  Proof.
    intros lk c e t P R H. apply accept_policy in H as [_ H].
    apply special_v2 in H; auto. apply v2_inv in H as [_ [_ [_ [ks [script [C _]]]]]].
    apply collect_sound in C as [_ [Hr Hv]].
    assert (validate_indexes c = true) as V by (unfold validate_indexes; apply Z.leb_le; exact R).
    specialize (Hv V) as [ND _]. auto.
  Qed.

  (* ------------------------------------------------ property 4: single use *)

  Lemma outs_fresh_not_in : forall e t h,
    outs_fresh e t = true -> In h (somes (out_hashes t)) -> ~ In h (tx3 e).
  Proof.
    unfold outs_fresh; intros e t h F Hin. apply in_somes in Hin.
    rewrite forallb_forall in F. apply F in Hin. simpl in Hin.
    apply negb_true_iff in Hin. apply memN_false in Hin. exact Hin.
  Qed.

  Lemma single_use : forall c e t h,
    known_pver (pver t) = true ->
    In h (recorded_hashes t) -> In h (tx3 e) ->
    withdraw_check agg c e t <> Accept.
  Proof.
    intros c e t h K Hr Hs H. unfold withdraw_check in H. apply accept_policy in H as [_ H].
    unfold recorded_hashes in Hr.
    destruct (known_cases _ K) as [P|[P|P]]; rewrite P in Hr; simpl in Hr.
    - apply special_v0 in H; auto. apply v0_inv in H as [H _].
      assert (existsb (fun h0 => memN h0 (tx3 e)) (payload_hashes t) = true) as C.
      { apply existsb_exists. exists h; split; auto. apply memN_In; auto. }
      congruence.
    - apply special_v1 in H; auto. apply v1_inv in H as [H _].
      eapply outs_fresh_not_in; eauto.
    - apply special_v2 in H; auto. apply v2_inv in H as [H _].
      eapply outs_fresh_not_in; eauto.
  Qed.

  Lemma accept_fresh : forall c e t h,
    withdraw_check agg c e t = Accept -> In h (recorded_hashes t) -> ~ In h (tx3 e).
  Proof.
    intros c e t h H Hr Hs.
    destruct (known_pver (pver t)) eqn:K.
    - eapply single_use; eauto.
    - unfold recorded_hashes, known_pver in *.
      apply orb_false_iff in K as [K K2]. apply orb_false_iff in K as [K0 K1].
      rewrite K0, K1, K2 in Hr. simpl in Hr. exact Hr.
  Qed.

  Lemma mempool_keys_cover_recorded : forall t,
    known_pver (pver t) = true -> incl (recorded_hashes t) (mempool_keys t).
  Proof.
    intros t K h Hr. unfold recorded_hashes, mempool_keys in *.
    destruct (known_cases _ K) as [P|[P|P]]; rewrite P in *; simpl in *; exact Hr.
  Qed.
End Acc.

(* ---------------------------------------------------------------- histories *)

Lemma nodupN_sound : forall l seen, nodupN seen l = true -> NoDup l /\ forall h, In h l -> ~ In h seen.
Proof.
  induction l as [|x l IH]; intros seen H; simpl in H.
  - split; [constructor | intros h []].
  - apply andb_true_iff in H as [H1 H2]. apply negb_true_iff in H1. apply memN_false in H1.
    apply IH in H2 as [ND Hs]. split.
    + constructor; auto. intro C. apply (Hs x C). left; reflexivity.
    + intros h [E|Hin]; [subst; auto|]. intro C. apply (Hs h Hin). right; exact C.
Qed.

Lemma in_fold_save : forall txs s h,
  In h (fold_left save txs s) <-> In h s \/ In h (flat_map recorded_hashes txs).
Proof.
  induction txs as [|t txs IH]; intros s h; simpl.
  - tauto.
  - rewrite IH. unfold save. rewrite !in_app_iff. tauto.
Qed.

Lemma in_remove_all : forall hs s h, In h (remove_all hs s) <-> In h s /\ ~ In h hs.
Proof.
  unfold remove_all; intros hs s h. rewrite filter_In. rewrite negb_true_iff, memN_false. tauto.
Qed.

Lemma rollback_keeps : forall v2rb s t h,
  In h s -> ~ In h (recorded_hashes t) -> In h (rollback v2rb s t).
Proof.
  intros v2rb s t h Hs Hn. unfold rollback, recorded_hashes in *.
  destruct (pver t =? 0) eqn:P0.
  - apply in_remove_all; auto.
  - destruct (pver t =? 1) eqn:P1; simpl in *.
    + apply in_remove_all; auto.
    + destruct (pver t =? 2) eqn:P2; simpl in *; [|exact Hs].
      destruct v2rb; [apply in_remove_all; auto | exact Hs].
Qed.

Lemma fold_rollback_keeps : forall v2rb b s h,
  In h s -> ~ In h (flat_map recorded_hashes b) -> In h (fold_left (rollback v2rb) b s).
Proof.
  induction b as [|t b IH]; intros s h Hs Hn; simpl; auto.
  simpl in Hn. rewrite in_app_iff in Hn.
  apply IH; [apply rollback_keeps; tauto | tauto].
Qed.

Lemma NoDup_app_iff_local : forall (A : Type) (l1 l2 : list A),
  NoDup l1 -> NoDup l2 -> (forall x, In x l1 -> In x l2 -> False) -> NoDup (l1 ++ l2).
Proof.
  induction l1 as [|a l1 IH]; intros l2 H1 H2 D; simpl; auto.
  inversion H1; subst. constructor.
  - rewrite in_app_iff. intros [C|C]; [auto | apply (D a); [left; reflexivity | exact C]].
  - apply IH; auto. intros x Hx. apply D. right; exact Hx.
Qed.

Lemma NoDup_app_disjoint_local : forall (A : Type) (l1 l2 : list A) x,
  NoDup (l1 ++ l2) -> In x l1 -> In x l2 -> False.
Proof.
  induction l1 as [|a l1 IH]; intros l2 x ND H1 H2; simpl in *; [contradiction|].
  inversion ND; subst. destruct H1 as [E|H1].
  - subst. apply H3. apply in_app_iff; auto.
  - eapply IH; eauto.
Qed.

Lemma NoDup_app_tail_local : forall (A : Type) (l1 l2 : list A), NoDup (l1 ++ l2) -> NoDup l2.
Proof. induction l1 as [|a l1 IH]; intros l2 H; simpl in H; auto. inversion H; subst; auto. Qed.

Section Hist.
  Variable agg : list bytes -> option bytes.
  Variable v2rb : bool.
  Variable cfg_at : nat -> cfg.
  Variable env_at : nat -> env.

  (* the side condition: the withdrawals of one connected block carry pairwise
     different side-chain hashes (not enforced by the code for V1/V2, see
     [same_block_refuted]) *)
  Definition block_hashes_distinct (ev : event) : bool :=
    match ev with
    | Connect txs => nodupN [] (flat_map recorded_hashes txs)
    | Disconnect => true
    end.

  Definition inv (ch : chain) : Prop :=
    NoDup (active ch) /\ incl (active ch) (store ch).

  Lemma block_ok_fresh : forall k s txs h,
    block_ok agg cfg_at env_at k s txs = true -> In h (flat_map recorded_hashes txs) -> ~ In h s.
  Proof.
    unfold block_ok; intros k s txs h H Hin.
    apply andb_true_iff in H as [_ H]. rewrite forallb_forall in H.
    apply in_flat_map in Hin as [t [Ht Hh]]. apply H in Ht.
    destruct (withdraw_check agg (cfg_at k) (with_store (env_at k) s) t) eqn:W; try discriminate.
    eapply accept_fresh in W; eauto.
  Qed.

  Lemma step_inv : forall k ch ev,
    block_hashes_distinct ev = true -> inv ch -> inv (step agg v2rb cfg_at env_at k ch ev).
  Proof.
    intros k [s bl] ev D [ND IN]; unfold step, inv, active in *; simpl in *.
    destruct ev as [txs|].
    - destruct (block_ok agg cfg_at env_at k s txs) eqn:B; simpl; [|split; auto].
      rewrite flat_map_app. simpl in D. apply nodupN_sound in D as [D _].
      split.
      + apply NoDup_app_iff_local; auto.
        intros h H1 H2. eapply block_ok_fresh in B; eauto.
      + intros h Hh. apply in_fold_save. apply in_app_iff in Hh as [Hh|Hh]; auto.
    - destruct bl as [|b r]; simpl; [split; auto|].
      simpl in ND, IN. rewrite flat_map_app in ND, IN.
      split.
      + eapply NoDup_app_tail_local; eauto.
      + intros h Hh. apply fold_rollback_keeps.
        * apply IN. apply in_app_iff; auto.
        * intro C. eapply NoDup_app_disjoint_local; eauto.
  Qed.
  Fixpoint all_distinct (evs : list event) : bool :=
    match evs with [] => true | ev :: r => block_hashes_distinct ev && all_distinct r end.

  Lemma run_inv : forall evs k ch,
    all_distinct evs = true -> inv ch -> inv (run agg v2rb cfg_at env_at k ch evs).
  Proof.
    induction evs as [|ev r IH]; intros k ch D I; simpl; auto.
    simpl in D. apply andb_true_iff in D as [D1 D2].
    apply IH; auto. apply step_inv; auto.
  Qed.

  Definition genesis : chain := {| store := []; blocks := [] |}.

  Lemma inv_genesis : inv genesis.
  Proof. split; [constructor | intros h []]. Qed.

  (* single use over histories: whatever blocks were connected and
     disconnected, a withdrawal carrying a hash that is withdrawn on the active
     chain is not accepted *)
  Lemma single_use_history : forall evs k t h,
    all_distinct evs = true ->
    let ch := run agg v2rb cfg_at env_at 0 genesis evs in
    known_pver (pver t) = true ->
    In h (recorded_hashes t) -> In h (active ch) ->
    withdraw_check agg (cfg_at k) (with_store (env_at k) (store ch)) t <> Accept.
  Proof.
    intros evs k t h D ch K Hr Ha.
    destruct (run_inv evs 0%nat genesis D inv_genesis) as [_ IN].
    apply single_use with (h := h); [exact K | exact Hr | simpl; apply IN; exact Ha].
  Qed.
End Hist.
