(* C19 — the treap iterator is the in-order walk of the abstract map.
   Positions are (node, parent stack); [path] says the stack is the ancestor
   chain of the node, [cbefore]/[cafter] are the in-order contents to the left
   and right of the node's subtree (zipper reading of the stack). *)
From Coq Require Import ZArith List Bool Lia.
From ELA Require Import lib.OMap model.C19_Treap proof.C19_Treap.
Import ListNotations.
Local Open Scope Z_scope.

Definition kvn (t : tree) : omap val :=
  match t with Leaf => [] | Node _ k v _ _ => [(k, v)] end.

Lemma elements_split t : is_node t = true ->
  elements t = elements (left_of t) ++ kvn t ++ elements (right_of t).
Proof. destruct t; simpl; [discriminate|auto]. Qed.

Fixpoint path (n : tree) (ps : list tree) (rt : tree) : Prop :=
  match ps with
  | [] => n = rt
  | p :: ps' => is_node p = true /\ (left_of p = n \/ right_of p = n) /\ path p ps' rt
  end.

Fixpoint cbefore (n : tree) (ps : list tree) : omap val :=
  match ps with
  | [] => []
  | p :: ps' => if same_node (right_of p) n then cbefore p ps' ++ elements (left_of p) ++ kvn p
                else cbefore p ps'
  end.

Fixpoint cafter (n : tree) (ps : list tree) : omap val :=
  match ps with
  | [] => []
  | p :: ps' => if same_node (right_of p) n then cafter p ps'
                else kvn p ++ elements (right_of p) ++ cafter p ps'
  end.

Lemma bst_left t : bst t -> bst (left_of t).
Proof. destruct t; simpl; auto. intros B. apply bst_node in B. tauto. Qed.
Lemma bst_right t : bst t -> bst (right_of t).
Proof. destruct t; simpl; auto. intros B. apply bst_node in B. tauto. Qed.

Lemma path_bst ps : forall n rt, path n ps rt -> bst rt -> bst n.
Proof.
  induction ps as [|p ps IH]; simpl; intros n rt H B.
  - subst; auto.
  - destruct H as (_ & [E|E] & H); subst n; [apply bst_left|apply bst_right]; eauto.
Qed.

Lemma same_node_refl n : is_node n = true -> same_node n n = true.
Proof. destruct n; simpl; [discriminate|]. intros _. apply keqb_refl. Qed.

Lemma root_in_elements n : is_node n = true -> In (node_key n, match n with Leaf => [] | Node _ _ v _ _ => v end) (elements n).
Proof. destruct n; simpl; [discriminate|]. intros _. apply in_or_app. right. left. auto. Qed.

(* the pointer test of the Go code decides the direction correctly *)
Lemma left_child_not_right p n : bst p -> is_node n = true -> left_of p = n ->
  same_node (right_of p) n = false.
Proof.
  destruct p as [|l k v q r]; simpl; intros B Hn E; [subst; discriminate|]. subst l.
  destruct r as [|rl rk rv rp rr]; auto. destruct n as [|nl nk nv np nr]; [discriminate|]. simpl.
  apply bst_node in B. destruct B as (_ & _ & Hu & Hl & _).
  assert (klt nk k).
  { unfold ub in Hu. rewrite Forall_forall in Hu.
    apply (Hu (nk, nv)). simpl. apply in_or_app. right. left. auto. }
  assert (klt k rk).
  { unfold lb in Hl. rewrite Forall_forall in Hl.
    apply (Hl (rk, rv)). simpl. apply in_or_app. right. left. auto. }
  rewrite keqb_sym. apply klt_keqb_false. eapply klt_trans; eauto.
Qed.

Lemma right_child_not_left p n : bst p -> is_node n = true -> right_of p = n ->
  same_node (left_of p) n = false.
Proof.
  destruct p as [|l k v q r]; simpl; intros B Hn E; [subst; discriminate|]. subst r.
  destruct l as [|ll lk lv lp lr]; auto. destruct n as [|nl nk nv np nr]; [discriminate|]. simpl.
  apply bst_node in B. destruct B as (_ & _ & Hu & Hl & _).
  assert (klt lk k).
  { unfold ub in Hu. rewrite Forall_forall in Hu.
    apply (Hu (lk, lv)). simpl. apply in_or_app. right. left. auto. }
  assert (klt k nk).
  { unfold lb in Hl. rewrite Forall_forall in Hl.
    apply (Hl (nk, nv)). simpl. apply in_or_app. right. left. auto. }
  apply klt_keqb_false. eapply klt_trans; eauto.
Qed.

Lemma plug ps : forall n rt, path n ps rt -> bst rt -> is_node n = true ->
  elements rt = cbefore n ps ++ elements n ++ cafter n ps.
Proof.
  induction ps as [|p ps IH]; simpl; intros n rt H B Hn.
  - subst. rewrite app_nil_r. auto.
  - destruct H as (Hp & Hc & H). rewrite (IH p rt H B Hp).
    assert (Bp : bst p) by (eapply path_bst; eauto).
    rewrite (elements_split p Hp).
    destruct Hc as [E|E].
    + rewrite left_child_not_right by auto. subst n. rewrite <- !app_assoc. auto.
    + rewrite E. rewrite same_node_refl by auto. subst n. rewrite <- !app_assoc. auto.
Qed.

(* ---------------------------------------------------------------- Next: climbing *)

Lemma climb_right ps : forall n rt, path n ps rt -> bst rt -> is_node n = true ->
  let '(n', ps') := climb true n ps in
  (n' = Leaf /\ cafter n ps = []) \/
  (is_node n' = true /\ path n' ps' rt /\
   cbefore n' ps' ++ elements (left_of n') = cbefore n ps ++ elements n /\
   cafter n ps = kvn n' ++ elements (right_of n') ++ cafter n' ps').
Proof.
  induction ps as [|p ps IH]; simpl; intros n rt H B Hn.
  - left. auto.
  - destruct H as (Hp & Hc & H).
    assert (Bp : bst p) by (eapply path_bst; eauto).
    destruct Hc as [E|E].
    + rewrite left_child_not_right by auto. right. subst n. repeat split; auto.
    + rewrite E. rewrite same_node_refl by auto.
      specialize (IH p rt H B Hp). destruct (climb true p ps) as [n' ps'].
      destruct IH as [[-> A]|(N' & P' & Bf & Af)]; [left; auto|right].
      repeat split; auto. rewrite Bf. rewrite (elements_split p Hp). subst n.
      rewrite <- !app_assoc. auto.
Qed.

Lemma climb_left ps : forall n rt, path n ps rt -> bst rt -> is_node n = true ->
  let '(n', ps') := climb false n ps in
  (n' = Leaf /\ cbefore n ps = []) \/
  (is_node n' = true /\ path n' ps' rt /\
   elements (right_of n') ++ cafter n' ps' = elements n ++ cafter n ps /\
   cbefore n ps = cbefore n' ps' ++ elements (left_of n') ++ kvn n').
Proof.
  induction ps as [|p ps IH]; simpl; intros n rt H B Hn.
  - left. auto.
  - destruct H as (Hp & Hc & H).
    assert (Bp : bst p) by (eapply path_bst; eauto).
    destruct Hc as [E|E].
    + rewrite E. rewrite same_node_refl by auto.
      rewrite left_child_not_right by auto.
      specialize (IH p rt H B Hp). destruct (climb false p ps) as [n' ps'].
      destruct IH as [[-> A]|(N' & P' & Af & Bf)]; [left; auto|right].
      repeat split; auto. rewrite Af. rewrite (elements_split p Hp). subst n.
      rewrite <- !app_assoc. auto.
    + rewrite right_child_not_left by auto. right. rewrite <- E.
      rewrite same_node_refl by (rewrite E; auto). repeat split; auto.
Qed.

(* ---------------------------------------------------------------- Next: descending *)

Lemma leftmost_spec t : forall ps rt n' ps', path t ps rt -> bst rt ->
  leftmost t ps = Some (n', ps') ->
  is_node n' = true /\ path n' ps' rt /\ left_of n' = Leaf /\
  cbefore n' ps' = cbefore t ps /\
  kvn n' ++ elements (right_of n') ++ cafter n' ps' = elements t ++ cafter t ps.
Proof.
  induction t as [|l IHl k v p r IHr]; simpl; intros ps rt n' ps' H B E; [discriminate|].
  destruct l as [|ll lk lv lp lr].
  - inversion E; subst. simpl. repeat split; auto.
  - assert (Bt : bst (Node (Node ll lk lv lp lr) k v p r)) by (eapply path_bst; eauto).
    assert (Hpath : path (Node ll lk lv lp lr) (Node (Node ll lk lv lp lr) k v p r :: ps) rt).
    { simpl. auto. }
    destruct (IHl _ rt n' ps' Hpath B E) as (N & P & L & Bf & Af).
    repeat split; auto.
    + rewrite Bf. simpl cbefore.
      rewrite (left_child_not_right _ _ Bt) by auto. auto.
    + rewrite Af. simpl cafter.
      rewrite (left_child_not_right _ _ Bt) by auto.
      simpl. rewrite <- !app_assoc. auto.
Qed.

Lemma rightmost_spec t : forall ps rt n' ps', path t ps rt -> bst rt ->
  rightmost t ps = Some (n', ps') ->
  is_node n' = true /\ path n' ps' rt /\ right_of n' = Leaf /\
  cafter n' ps' = cafter t ps /\
  cbefore n' ps' ++ elements (left_of n') ++ kvn n' = cbefore t ps ++ elements t.
Proof.
  induction t as [|l IHl k v p r IHr]; simpl; intros ps rt n' ps' H B E; [discriminate|].
  destruct r as [|rl rk rv rp rr].
  - inversion E; subst. simpl. repeat split; auto.
  - assert (Bt : bst (Node l k v p (Node rl rk rv rp rr))) by (eapply path_bst; eauto).
    assert (Hpath : path (Node rl rk rv rp rr) (Node l k v p (Node rl rk rv rp rr) :: ps) rt).
    { simpl. auto. }
    destruct (IHr _ rt n' ps' Hpath B E) as (N & P & L & Af & Bf).
    repeat split; auto.
    + rewrite Af. simpl cafter. rewrite keqb_refl. auto.
    + rewrite Bf. simpl cbefore. rewrite keqb_refl.
      simpl. rewrite <- !app_assoc. auto.
Qed.

(* ---------------------------------------------------------------- positions *)

Definition pbefore (n : tree) (ps : list tree) : omap val := cbefore n ps ++ elements (left_of n).
Definition pafter (n : tree) (ps : list tree) : omap val := elements (right_of n) ++ cafter n ps.

Lemma pos_split n ps rt : path n ps rt -> bst rt -> is_node n = true ->
  elements rt = pbefore n ps ++ kvn n ++ pafter n ps.
Proof.
  intros H B N. rewrite (plug ps n rt H B N). rewrite (elements_split n N).
  unfold pbefore, pafter. rewrite <- !app_assoc. auto.
Qed.

Definition next_pos (n : tree) (ps : list tree) : option (tree * list tree) :=
  match right_of n with
  | Leaf => Some (climb true n ps)
  | r => leftmost r (n :: ps)
  end.

Definition prev_pos (n : tree) (ps : list tree) : option (tree * list tree) :=
  match left_of n with
  | Leaf => Some (climb false n ps)
  | l => rightmost l (n :: ps)
  end.

Lemma leftmost_some t ps : is_node t = true -> exists x, leftmost t ps = Some x.
Proof.
  revert ps. induction t as [|l IHl k v p r IHr]; simpl; intros ps N; [discriminate|].
  destruct l; eauto.
Qed.
Lemma rightmost_some t ps : is_node t = true -> exists x, rightmost t ps = Some x.
Proof.
  revert ps. induction t as [|l IHl k v p r IHr]; simpl; intros ps N; [discriminate|].
  destruct r; eauto.
Qed.

Lemma next_pos_spec n ps rt : path n ps rt -> bst rt -> is_node n = true ->
  exists n' ps', next_pos n ps = Some (n', ps') /\
  ((n' = Leaf /\ pafter n ps = []) \/
   (is_node n' = true /\ path n' ps' rt /\
    pbefore n' ps' = pbefore n ps ++ kvn n /\ pafter n ps = kvn n' ++ pafter n' ps')).
Proof.
  intros H B N. unfold next_pos, pbefore, pafter.
  destruct (right_of n) as [|rl rk rv rp rr] eqn:R.
  - pose proof (climb_right ps n rt H B N) as C. destruct (climb true n ps) as [n' ps'].
    exists n', ps'. split; auto. destruct C as [[-> A]|(N' & P' & Bf & Af)]; [left|right].
    + simpl. auto.
    + repeat split; auto. rewrite Bf. rewrite (elements_split n N), R. simpl.
      rewrite app_nil_r, <- app_assoc. auto.
  - destruct (leftmost_some (Node rl rk rv rp rr) (n :: ps) eq_refl) as [[n' ps'] E].
    exists n', ps'. split; auto. right.
    assert (Bn : bst n) by (eapply path_bst; eauto).
    assert (Hp : path (Node rl rk rv rp rr) (n :: ps) rt). { simpl. rewrite R. auto. }
    destruct (leftmost_spec _ _ rt n' ps' Hp B E) as (N' & P' & L & Bf & Af).
    repeat split; auto.
    + rewrite Bf, L. simpl cbefore. rewrite R. simpl same_node. rewrite keqb_refl.
      simpl. rewrite app_nil_r, <- app_assoc. auto.
    + rewrite Af. simpl cafter. rewrite R. simpl same_node. rewrite keqb_refl. auto.
Qed.

Lemma prev_pos_spec n ps rt : path n ps rt -> bst rt -> is_node n = true ->
  exists n' ps', prev_pos n ps = Some (n', ps') /\
  ((n' = Leaf /\ pbefore n ps = []) \/
   (is_node n' = true /\ path n' ps' rt /\
    pafter n' ps' = kvn n ++ pafter n ps /\ pbefore n ps = pbefore n' ps' ++ kvn n')).
Proof.
  intros H B N. unfold prev_pos, pbefore, pafter.
  destruct (left_of n) as [|ll lk lv lp lr] eqn:L.
  - pose proof (climb_left ps n rt H B N) as C. destruct (climb false n ps) as [n' ps'].
    exists n', ps'. split; auto. destruct C as [[-> A]|(N' & P' & Af & Bf)]; [left|right].
    + simpl. rewrite app_nil_r. auto.
    + repeat split; auto.
      * rewrite Af. rewrite (elements_split n N), L. simpl. rewrite <- app_assoc. auto.
      * rewrite Bf. simpl. rewrite app_nil_r, <- app_assoc. auto.
  - destruct (rightmost_some (Node ll lk lv lp lr) (n :: ps) eq_refl) as [[n' ps'] E].
    exists n', ps'. split; auto. right.
    assert (Bn : bst n) by (eapply path_bst; eauto).
    assert (Hp : path (Node ll lk lv lp lr) (n :: ps) rt). { simpl. rewrite L. auto. }
    destruct (rightmost_spec _ _ rt n' ps' Hp B E) as (N' & P' & R & Af & Bf).
    assert (NR : same_node (right_of n) (Node ll lk lv lp lr) = false).
    { apply left_child_not_right; auto. }
    repeat split; auto.
    + rewrite R, Af. simpl cafter. rewrite NR. simpl. auto.
    + rewrite <- app_assoc. rewrite Bf. simpl cbefore. rewrite NR. auto.
Qed.

(* ---------------------------------------------------------------- seeking *)

Lemma find_app_false {A} (P : A -> bool) B X :
  (forall e, In e B -> P e = false) -> find P (B ++ X) = find P X.
Proof.
  induction B as [|b B IH]; simpl; auto. intros H.
  rewrite (H b) by auto. apply IH. intros; apply H; auto.
Qed.

Lemma find_all_false {A} (P : A -> bool) B :
  (forall e, In e B -> P e = false) -> find P B = None.
Proof. intros H. rewrite <- (app_nil_r B). rewrite find_app_false; auto. Qed.

Definition fwdP (k : key) (exact : bool) (e : key * val) : bool :=
  if exact then kleb k (fst e) else kltb k (fst e).

Lemma fwdP_below k exact e : klt (fst e) k -> fwdP k exact e = false.
Proof.
  unfold fwdP. intros H. destruct exact.
  - apply kleb_gt; auto.
  - unfold kltb. apply kcmp_gt_lt in H. rewrite H. auto.
Qed.

Lemma fwdP_above k exact e : klt k (fst e) -> fwdP k exact e = true.
Proof.
  unfold fwdP, kleb, kltb, klt. intros ->. destruct exact; auto.
Qed.

Lemma skipn_top {A} (top rest : list A) :
  skipn (length (top ++ rest) - length rest) (top ++ rest) = rest.
Proof.
  rewrite app_length.
  replace (length top + length rest - length rest)%nat with (length top) by lia.
  induction top; simpl; auto.
Qed.

Lemma seek_loop_fwd k exact : forall t ps sel seld rt B A top psel,
  bst rt -> path t ps rt -> elements rt = B ++ elements t ++ A ->
  (forall e, In e B -> fwdP k exact e = false) ->
  ((sel = Leaf /\ A = []) \/
   (is_node sel = true /\ (exists A', A = kvn sel ++ A') /\
    (forall e, In e (kvn sel) -> fwdP k exact e = true) /\
    ps = top ++ psel /\ seld = length psel /\ path sel psel rt)) ->
  let '(n, ps') := seek_loop t k exact true ps sel seld in
  (n = Leaf /\ find (fwdP k exact) (elements rt) = None) \/
  (is_node n = true /\ path n ps' rt /\ find (fwdP k exact) (elements rt) = hd_error (kvn n)).
Proof.
  induction t as [|l IHl k' v' p' r IHr]; intros ps sel seld rt B A top psel Brt Hp He HB Hc.
  - simpl. simpl in He. destruct Hc as [[-> ->]|(N & [A' ->] & HP & -> & -> & Hs)].
    + left. split; auto. rewrite He, app_nil_r. apply find_all_false; auto.
    + right. rewrite skipn_top. repeat split; auto.
      rewrite He, find_app_false by auto.
      destruct sel; [discriminate|]. simpl. simpl in HP. rewrite HP; auto.
  - assert (Bt : bst (Node l k' v' p' r)) by (eapply path_bst; eauto).
    apply bst_node in Bt. destruct Bt as (Bl & Br & Hu & Hl & _).
    assert (Pl : path l (Node l k' v' p' r :: ps) rt) by (simpl; auto).
    assert (Pr : path r (Node l k' v' p' r :: ps) rt) by (simpl; auto).
    simpl seek_loop.
    destruct (kcmp_cases k k') as [[Hk E]|[[-> E]|[Hk E]]]; rewrite E.
    + (* k < k' : remember this node, go left *)
      apply (IHl _ _ _ rt B (kvn (Node l k' v' p' r) ++ elements r ++ A) [Node l k' v' p' r] ps); auto.
      * rewrite He. simpl. rewrite <- !app_assoc. auto.
      * right. repeat split; eauto.
        intros e [<-|[]]. apply fwdP_above. auto.
    + (* equal *)
      destruct exact.
      * right. repeat split; auto. rewrite He. rewrite find_app_false by auto.
        simpl. rewrite <- app_assoc. rewrite find_app_false.
        -- simpl. unfold kleb. rewrite kcmp_refl. auto.
        -- intros e He'. apply fwdP_below. unfold ub in Hu. rewrite Forall_forall in Hu. auto.
      * apply (IHr _ _ _ rt (B ++ elements l ++ [(k', v')]) A (Node l k' v' p' r :: top) psel); auto.
        -- rewrite He. simpl. rewrite <- !app_assoc. auto.
        -- intros e He'. apply in_app_or in He'. destruct He' as [He'|He']; auto.
           apply in_app_or in He'. destruct He' as [He'|[<-|[]]].
           ++ apply fwdP_below. unfold ub in Hu. rewrite Forall_forall in Hu. auto.
           ++ simpl. unfold kltb. rewrite kcmp_refl. auto.
        -- destruct Hc as [?|(N & HA & HP & -> & -> & Hs)]; [left; auto|right].
           repeat split; auto.
    + (* k > k' : go right *)
      apply (IHr _ _ _ rt (B ++ elements l ++ [(k', v')]) A (Node l k' v' p' r :: top) psel); auto.
      * rewrite He. simpl. rewrite <- !app_assoc. auto.
      * intros e He'. apply in_app_or in He'. destruct He' as [He'|He']; auto.
        apply in_app_or in He'. destruct He' as [He'|[<-|[]]].
        -- apply fwdP_below. unfold ub in Hu. rewrite Forall_forall in Hu.
           eapply klt_trans; [apply Hu|]; eauto.
        -- apply fwdP_below. auto.
      * destruct Hc as [?|(N & HA & HP & -> & -> & Hs)]; [left; auto|right].
        repeat split; auto.
Qed.

Definition bwdP (k : key) (exact : bool) (e : key * val) : bool :=
  if exact then kleb (fst e) k else kltb (fst e) k.

Lemma bwdP_above k exact e : klt k (fst e) -> bwdP k exact e = false.
Proof.
  unfold bwdP. intros H. destruct exact.
  - apply kleb_gt; auto.
  - unfold kltb. apply kcmp_gt_lt in H. rewrite H. auto.
Qed.

Lemma bwdP_below k exact e : klt (fst e) k -> bwdP k exact e = true.
Proof. unfold bwdP, kleb, kltb, klt. intros ->. destruct exact; auto. Qed.

Lemma find_rev_app_false {A} (P : A -> bool) X Y :
  (forall e, In e Y -> P e = false) -> find P (rev (X ++ Y)) = find P (rev X).
Proof.
  intros H. rewrite rev_app_distr. apply find_app_false. intros e He. apply H. apply in_rev; auto.
Qed.

Lemma seek_loop_bwd k exact : forall t ps sel seld rt B A top psel,
  bst rt -> path t ps rt -> elements rt = B ++ elements t ++ A ->
  (forall e, In e A -> bwdP k exact e = false) ->
  ((sel = Leaf /\ B = []) \/
   (is_node sel = true /\ (exists B', B = B' ++ kvn sel) /\
    (forall e, In e (kvn sel) -> bwdP k exact e = true) /\
    ps = top ++ psel /\ seld = length psel /\ path sel psel rt)) ->
  let '(n, ps') := seek_loop t k exact false ps sel seld in
  (n = Leaf /\ find (bwdP k exact) (rev (elements rt)) = None) \/
  (is_node n = true /\ path n ps' rt /\ find (bwdP k exact) (rev (elements rt)) = hd_error (kvn n)).
Proof.
  induction t as [|l IHl k' v' p' r IHr]; intros ps sel seld rt B A top psel Brt Hp He HA Hc.
  - simpl. simpl in He. destruct Hc as [[-> ->]|(N & [B' ->] & HP & -> & -> & Hs)].
    + left. split; auto. rewrite He. simpl. apply find_all_false. intros e H. apply HA. apply in_rev; auto.
    + right. rewrite skipn_top. repeat split; auto.
      rewrite He, find_rev_app_false by auto. rewrite rev_app_distr.
      destruct sel; [discriminate|]. simpl. simpl in HP. rewrite HP; auto.
  - assert (Bt : bst (Node l k' v' p' r)) by (eapply path_bst; eauto).
    apply bst_node in Bt. destruct Bt as (Bl & Br & Hu & Hl & _).
    assert (Pl : path l (Node l k' v' p' r :: ps) rt) by (simpl; auto).
    assert (Pr : path r (Node l k' v' p' r :: ps) rt) by (simpl; auto).
    simpl seek_loop.
    destruct (kcmp_cases k k') as [[Hk E]|[[-> E]|[Hk E]]]; rewrite E.
    + (* k < k' : go left *)
      apply (IHl _ _ _ rt B ((k', v') :: elements r ++ A) (Node l k' v' p' r :: top) psel); auto.
      * rewrite He. simpl. rewrite <- !app_assoc. auto.
      * intros e [<-|He']; [apply bwdP_above; auto|].
        apply in_app_or in He'. destruct He' as [He'|He']; auto.
        apply bwdP_above. unfold lb in Hl. rewrite Forall_forall in Hl.
        eapply klt_trans; [|apply Hl]; eauto.
      * destruct Hc as [?|(N & HB & HP & -> & -> & Hs)]; [left; auto|right].
        repeat split; auto.
    + (* equal *)
      destruct exact.
      * right. repeat split; auto. rewrite He.
        rewrite app_assoc. rewrite find_rev_app_false by auto.
        simpl elements. rewrite app_assoc.
        change ((k', v') :: elements r) with ([(k', v')] ++ elements r). rewrite app_assoc.
        rewrite find_rev_app_false.
        -- rewrite rev_app_distr. simpl. unfold kleb. rewrite kcmp_refl. auto.
        -- intros e He'. apply bwdP_above. unfold lb in Hl. rewrite Forall_forall in Hl. auto.
      * apply (IHl _ _ _ rt B ((k', v') :: elements r ++ A) (Node l k' v' p' r :: top) psel); auto.
        -- rewrite He. simpl. rewrite <- !app_assoc. auto.
        -- intros e [<-|He']; [simpl; unfold kltb; rewrite kcmp_refl; auto|].
           apply in_app_or in He'. destruct He' as [He'|He']; auto.
           apply bwdP_above. unfold lb in Hl. rewrite Forall_forall in Hl. auto.
        -- destruct Hc as [?|(N & HB & HP & -> & -> & Hs)]; [left; auto|right].
           repeat split; auto.
    + (* k > k' : remember this node, go right *)
      apply (IHr _ _ _ rt (B ++ elements l ++ [(k', v')]) A [Node l k' v' p' r] ps); auto.
      * rewrite He. simpl. rewrite <- !app_assoc. auto.
      * right. repeat split; eauto.
        -- exists (B ++ elements l). simpl. rewrite <- app_assoc. auto.
        -- intros e [<-|[]]. apply bwdP_below. auto.
Qed.

(* ---------------------------------------------------------------- iterator level *)

Definition ofilter (P : key -> bool) (o : option (key * val)) : option (key * val) :=
  match o with Some e => if P (fst e) then Some e else None | None => None end.
Definition is_some {A} (o : option A) : bool := match o with Some _ => true | None => false end.

Definition it_same (it it' : iter) : Prop :=
  i_root it' = i_root it /\ i_start it' = i_start it /\ i_limit it' = i_limit it /\ i_mut it' = i_mut it.

Definition irange (it : iter) : key -> bool := in_range (i_start it) (i_limit it).

(* the position is meaningful: the parent stack is the ancestor chain *)
Definition pos_ok (it : iter) : Prop :=
  is_node (i_node it) = true -> path (i_node it) (i_parents it) (i_root it).

Lemma limit_iterator_spec it it' b : limit_iterator it = (it', b) ->
  current it' = ofilter (irange it) (current it) /\ b = is_some (current it') /\
  it_same it it' /\ i_parents it' = i_parents it /\ i_seek it' = i_seek it /\ i_new it' = i_new it /\
  (is_node (i_node it') = true -> i_node it' = i_node it).
Proof.
  unfold limit_iterator, current, irange, in_range, it_same.
  destruct (i_node it) as [|l k v p r] eqn:N.
  - intros [= <- <-]. rewrite N. simpl. repeat split; auto.
  - simpl.
    destruct (i_start it) as [s|] eqn:Es; destruct (i_limit it) as [li|] eqn:El; rewrite ?kleb_negb_kltb;
      try destruct (kltb k s); try destruct (kltb k li); simpl;
      intros [= <- <-]; simpl; rewrite ?N; simpl; repeat split; auto; try discriminate.
Qed.

Lemma node_kv_kvn n : node_kv n = hd_error (kvn n).
Proof. destruct n; auto. Qed.

Lemma seek_spec_fwd it k exact it' b : bst (i_root it) -> seek it k exact true = (it', b) ->
  current it' = ofilter (irange it) (find (fwdP k exact) (elements (i_root it))) /\
  b = is_some (current it') /\ it_same it it' /\ i_seek it' = i_seek it /\ i_new it' = i_new it /\
  pos_ok it'.
Proof.
  intros B. unfold seek.
  pose proof (seek_loop_fwd k exact (i_root it) [] Leaf 0%nat (i_root it) [] [] [] [] B eq_refl) as L.
  destruct (seek_loop (i_root it) k exact true [] Leaf 0) as [n ps].
  intros E. apply limit_iterator_spec in E.
  destruct E as (C & Hb & S & Pp & Sk & Nw & Nd). simpl in *.
  assert (F : find (fwdP k exact) (elements (i_root it)) = node_kv n /\
              (is_node n = true -> path n ps (i_root it))).
  { destruct L as [[-> F]|(N & P & F)]; simpl; try rewrite app_nil_r; auto; try (intros ? []).
    - split; auto. discriminate.
    - rewrite node_kv_kvn. auto. }
  destruct F as [F Pn]. rewrite F. unfold current in *. repeat split; auto; try apply S.
  unfold pos_ok. intros Hn. pose proof (Nd Hn) as En. rewrite En in Hn |- *. rewrite Pp. destruct S as [-> _]. simpl. auto.
Qed.

Lemma seek_spec_bwd it k exact it' b : bst (i_root it) -> seek it k exact false = (it', b) ->
  current it' = ofilter (irange it) (find (bwdP k exact) (rev (elements (i_root it)))) /\
  b = is_some (current it') /\ it_same it it' /\ i_seek it' = i_seek it /\ i_new it' = i_new it /\
  pos_ok it'.
Proof.
  intros B. unfold seek.
  pose proof (seek_loop_bwd k exact (i_root it) [] Leaf 0%nat (i_root it) [] [] [] [] B eq_refl) as L.
  destruct (seek_loop (i_root it) k exact false [] Leaf 0) as [n ps].
  intros E. apply limit_iterator_spec in E.
  destruct E as (C & Hb & S & Pp & Sk & Nw & Nd). simpl in *.
  assert (F : find (bwdP k exact) (rev (elements (i_root it))) = node_kv n /\
              (is_node n = true -> path n ps (i_root it))).
  { destruct L as [[-> F]|(N & P & F)]; simpl; try rewrite app_nil_r; auto; try (intros ? []).
    - split; auto. discriminate.
    - rewrite node_kv_kvn. auto. }
  destruct F as [F Pn]. rewrite F. unfold current in *. repeat split; auto; try apply S.
  unfold pos_ok. intros Hn. pose proof (Nd Hn) as En. rewrite En in Hn |- *. rewrite Pp. destruct S as [-> _]. simpl. auto.
Qed.
Lemma seek_gt_split (B A : omap val) k v : sorted (B ++ (k, v) :: A) ->
  OMap.seek_gt (B ++ (k, v) :: A) k = hd_error A.
Proof.
  intros S. apply sorted_mid in S. destruct S as (_ & _ & Hu & Hl & _). simpl in *.
  unfold OMap.seek_gt. rewrite find_app_false.
  - simpl. unfold kltb at 1. rewrite kcmp_refl. destruct A as [|a A]; auto.
    simpl. inversion Hl; subst. unfold kltb. rewrite H1. auto.
  - intros e He. unfold ub in Hu. rewrite Forall_forall in Hu. specialize (Hu e He).
    unfold kltb. apply kcmp_gt_lt in Hu. rewrite Hu. auto.
Qed.

Lemma seek_lt_split (B A : omap val) k v : sorted (B ++ (k, v) :: A) ->
  OMap.seek_lt (B ++ (k, v) :: A) k = hd_error (rev B).
Proof.
  intros S. apply sorted_mid in S. destruct S as (_ & _ & Hu & Hl & _). simpl in *.
  unfold OMap.seek_lt. rewrite rev_app_distr. simpl. rewrite <- app_assoc. rewrite find_app_false.
  - simpl. unfold kltb at 1. rewrite kcmp_refl.
    destruct (rev B) as [|a RB] eqn:E; auto. simpl.
    assert (In a B) by (apply in_rev; rewrite E; left; auto).
    unfold ub in Hu. rewrite Forall_forall in Hu. specialize (Hu a H). unfold kltb. rewrite Hu. auto.
  - intros e He. apply in_rev in He. unfold lb in Hl. rewrite Forall_forall in Hl. specialize (Hl e He).
    unfold kltb. apply kcmp_gt_lt in Hl. rewrite Hl. auto.
Qed.

Lemma kvn_node n : is_node n = true -> kvn n = [(node_key n, match n with Leaf => [] | Node _ _ v _ _ => v end)].
Proof. destruct n; simpl; [discriminate|auto]. Qed.

Lemma next_spec it it' b : bst (i_root it) -> i_new it = false -> is_node (i_node it) = true ->
  (i_seek it = None -> pos_ok it) -> next it = (it', b) ->
  current it' = ofilter (irange it)
                  (OMap.seek_gt (elements (i_root it))
                     (match i_seek it with Some sk => sk | None => node_key (i_node it) end)) /\
  b = is_some (current it') /\ it_same it it' /\ i_seek it' = None /\ i_new it' = false /\ pos_ok it'.
Proof.
  intros B Nw Nn Pk. unfold next. rewrite Nw.
  destruct (i_node it) as [|l k v p r] eqn:N; [discriminate|].
  destruct (i_seek it) as [sk|] eqn:Sk.
  - intros E. apply seek_spec_fwd in E; auto.
    destruct E as (C & Hb & S & Sk' & Nw' & P). simpl in *.
    repeat split; auto; try apply S. rewrite Nw'. auto.
  - specialize (Pk eq_refl). unfold pos_ok in Pk. rewrite N in Pk. specialize (Pk eq_refl).
    destruct (next_pos_spec _ _ _ Pk B eq_refl) as (n' & ps' & E & D).
    pose proof (pos_split _ _ _ Pk B eq_refl) as Sp.
    assert (Srt : sorted (elements (i_root it))) by exact B.
    rewrite Sp in Srt. simpl kvn in Srt. simpl app in Srt.
    assert (G : OMap.seek_gt (elements (i_root it)) k = node_kv n' /\
                (is_node n' = true -> path n' ps' (i_root it))).
    { rewrite Sp. simpl kvn. simpl app. rewrite seek_gt_split by auto.
      destruct D as [[-> ->]|(N' & P' & _ & ->)]; simpl; [split; auto; discriminate|].
      rewrite node_kv_kvn. destruct n'; [discriminate|]. simpl. auto. }
    destruct G as [G Pn'].
    assert (X : limit_iterator (with_pos it n' ps') = (it', b) ->
      current it' = ofilter (irange it) (OMap.seek_gt (elements (i_root it)) (node_key (Node l k v p r))) /\
      b = is_some (current it') /\ it_same it it' /\ i_seek it' = None /\ i_new it' = false /\ pos_ok it').
    { intros E'. apply limit_iterator_spec in E'.
      destruct E' as (C & Hb & S & Pp & Sk' & Nw' & Nd). simpl in *.
      rewrite G. repeat split; auto; try apply S; try congruence.
      unfold pos_ok. intros Hn. pose proof (Nd Hn) as En. rewrite En in Hn |- *. rewrite Pp.
      destruct S as [-> _]. simpl. auto. }
    unfold next_pos in E. cbn [right_of] in E.
    destruct r as [|rl rk rv rp rr].
    + inversion E as [E1]. rewrite E1. exact X.
    + rewrite E. exact X.
Qed.

Lemma prev_spec it it' b : bst (i_root it) -> i_new it = false -> is_node (i_node it) = true ->
  (i_seek it = None -> pos_ok it) -> prev it = (it', b) ->
  current it' = ofilter (irange it)
                  (OMap.seek_lt (elements (i_root it))
                     (match i_seek it with Some sk => sk | None => node_key (i_node it) end)) /\
  b = is_some (current it') /\ it_same it it' /\ i_seek it' = None /\ i_new it' = false /\ pos_ok it'.
Proof.
  intros B Nw Nn Pk. unfold prev. rewrite Nw.
  destruct (i_node it) as [|l k v p r] eqn:N; [discriminate|].
  destruct (i_seek it) as [sk|] eqn:Sk.
  - intros E. apply seek_spec_bwd in E; auto.
    destruct E as (C & Hb & S & Sk' & Nw' & P). simpl in *.
    repeat split; auto; try apply S. rewrite Nw'. auto.
  - specialize (Pk eq_refl). unfold pos_ok in Pk. rewrite N in Pk. specialize (Pk eq_refl).
    destruct (prev_pos_spec _ _ _ Pk B eq_refl) as (n' & ps' & E & D).
    pose proof (pos_split _ _ _ Pk B eq_refl) as Sp.
    assert (Srt : sorted (elements (i_root it))) by exact B.
    rewrite Sp in Srt. simpl kvn in Srt. simpl app in Srt.
    assert (G : OMap.seek_lt (elements (i_root it)) k = node_kv n' /\
                (is_node n' = true -> path n' ps' (i_root it))).
    { rewrite Sp. simpl kvn. simpl app. rewrite seek_lt_split by auto.
      destruct D as [[-> ->]|(N' & P' & _ & ->)]; simpl; [split; auto; discriminate|].
      rewrite rev_app_distr. rewrite node_kv_kvn. destruct n'; [discriminate|]. simpl. auto. }
    destruct G as [G Pn'].
    assert (X : limit_iterator (with_pos it n' ps') = (it', b) ->
      current it' = ofilter (irange it) (OMap.seek_lt (elements (i_root it)) (node_key (Node l k v p r))) /\
      b = is_some (current it') /\ it_same it it' /\ i_seek it' = None /\ i_new it' = false /\ pos_ok it').
    { intros E'. apply limit_iterator_spec in E'.
      destruct E' as (C & Hb & S & Pp & Sk' & Nw' & Nd). simpl in *.
      rewrite G. repeat split; auto; try apply S; try congruence.
      unfold pos_ok. intros Hn. pose proof (Nd Hn) as En. rewrite En in Hn |- *. rewrite Pp.
      destruct S as [-> _]. simpl. auto. }
    unfold prev_pos in E. cbn [left_of] in E.
    destruct l as [|ll lk lv lp lr].
    + inversion E as [E1]. rewrite E1. exact X.
    + rewrite E. exact X.
Qed.

Lemma first_spec it it' b : bst (i_root it) -> first it = (it', b) ->
  current it' = ofilter (irange it)
                  (match i_start it with Some s => OMap.seek_ge (elements (i_root it)) s
                                       | None => OMap.first (elements (i_root it)) end) /\
  b = is_some (current it') /\ it_same it it' /\ i_seek it' = None /\ i_new it' = false /\ pos_ok it'.
Proof.
  intros B. unfold first.
  destruct (i_start it) as [s|] eqn:Es; cbn [i_start with_seek with_new]; rewrite Es.
  - intros E. apply seek_spec_fwd in E; [exact E|exact B].
  - cbn [i_root with_seek with_new].
    destruct (leftmost (i_root it) []) as [[n ps]|] eqn:E.
    + assert (Hp : path (i_root it) [] (i_root it)) by reflexivity.
      destruct (leftmost_spec _ _ _ n ps Hp B E) as (N & P & L & Bf & Af).
      pose proof (pos_split _ _ _ P B N) as Sp. unfold pbefore in Sp. rewrite Bf, L in Sp. simpl in Sp.
      intros E'. apply limit_iterator_spec in E'.
      destruct E' as (C & Hb & S & Pp & Sk' & Nw' & Nd). simpl in *.
      assert (G : OMap.first (elements (i_root it)) = node_kv n).
      { rewrite Sp. destruct n; [discriminate|]. reflexivity. }
      rewrite G. repeat split; auto; try apply S.
      unfold pos_ok. intros Hn. pose proof (Nd Hn) as En. rewrite En in Hn |- *. rewrite Pp.
      destruct S as [-> _]. simpl. auto.
    + intros [= <- <-]. simpl. unfold it_same, pos_ok. simpl.
      destruct (i_root it) as [|l k v p r]; simpl in *.
      * repeat split; auto; discriminate.
      * destruct (leftmost_some (Node l k v p r) [] eq_refl) as [x Hx]. simpl in Hx. congruence.
Qed.

Lemma last_spec it it' b : bst (i_root it) -> last it = (it', b) ->
  current it' = ofilter (irange it)
                  (match i_limit it with Some l => OMap.seek_lt (elements (i_root it)) l
                                       | None => OMap.last (elements (i_root it)) end) /\
  b = is_some (current it') /\ it_same it it' /\ i_seek it' = None /\ i_new it' = false /\ pos_ok it'.
Proof.
  intros B. unfold last.
  destruct (i_limit it) as [s|] eqn:Es; cbn [i_limit with_seek with_new]; rewrite Es.
  - intros E. apply seek_spec_bwd in E; [exact E|exact B].
  - cbn [i_root with_seek with_new].
    destruct (rightmost (i_root it) []) as [[n ps]|] eqn:E.
    + assert (Hp : path (i_root it) [] (i_root it)) by reflexivity.
      destruct (rightmost_spec _ _ _ n ps Hp B E) as (N & P & R & Af & Bf).
      pose proof (pos_split _ _ _ P B N) as Sp. unfold pafter in Sp. rewrite Af, R in Sp. simpl in Sp.
      intros E'. apply limit_iterator_spec in E'.
      destruct E' as (C & Hb & S & Pp & Sk' & Nw' & Nd). simpl in *.
      assert (G : OMap.last (elements (i_root it)) = node_kv n).
      { rewrite Sp. unfold OMap.last. rewrite rev_app_distr. rewrite app_nil_r.
        destruct n; [discriminate|]. reflexivity. }
      rewrite G. repeat split; auto; try apply S.
      unfold pos_ok. intros Hn. pose proof (Nd Hn) as En. rewrite En in Hn |- *. rewrite Pp.
      destruct S as [-> _]. simpl. auto.
    + intros [= <- <-]. simpl. unfold it_same, pos_ok. simpl.
      destruct (i_root it) as [|l k v p r]; simpl in *.
      * repeat split; auto; discriminate.
      * destruct (rightmost_some (Node l k v p r) [] eq_refl) as [x Hx]. simpl in Hx. congruence.
Qed.

Lemma seek_ge_spec it k it' b : bst (i_root it) -> seek_ge it k = (it', b) ->
  current it' = ofilter (irange it) (OMap.seek_ge (elements (i_root it)) k) /\
  b = is_some (current it') /\ it_same it it' /\ i_seek it' = None /\ i_new it' = false /\ pos_ok it'.
Proof.
  intros B E. unfold seek_ge in E. apply seek_spec_fwd in E; [exact E|exact B].
Qed.

(* ForceReseek on an iterator of a Mutable treap, then Next/Prev: the
   successor/predecessor, in the NEW contents, of the key the iterator was on *)
Lemma reseek_next_spec it t it' b : bst t -> i_mut it = true -> i_new it = false ->
  is_node (i_node it) = true -> next (force_reseek it t) = (it', b) ->
  current it' = ofilter (irange it) (OMap.seek_gt (elements t) (node_key (i_node it))) /\
  b = is_some (current it') /\ i_root it' = t /\ i_seek it' = None /\ pos_ok it'.
Proof.
  intros B M Nw Nn E. unfold force_reseek in E. rewrite M in E.
  apply next_spec in E; auto.
  - simpl in E. destruct (i_node it) eqn:N; [discriminate|]. simpl in *.
    destruct E as (C & Hb & S & Sk & _ & P). repeat split; auto. apply S.
  - simpl. destruct (i_node it); [discriminate|]. discriminate.
Qed.

Lemma reseek_prev_spec it t it' b : bst t -> i_mut it = true -> i_new it = false ->
  is_node (i_node it) = true -> prev (force_reseek it t) = (it', b) ->
  current it' = ofilter (irange it) (OMap.seek_lt (elements t) (node_key (i_node it))) /\
  b = is_some (current it') /\ i_root it' = t /\ i_seek it' = None /\ pos_ok it'.
Proof.
  intros B M Nw Nn E. unfold force_reseek in E. rewrite M in E.
  apply prev_spec in E; auto.
  - simpl in E. destruct (i_node it) eqn:N; [discriminate|]. simpl in *.
    destruct E as (C & Hb & S & Sk & _ & P). repeat split; auto. apply S.
  - simpl. destruct (i_node it); [discriminate|]. discriminate.
Qed.

(* ---------------------------------------------------------------- range form (forward) *)

Lemma kltb_false_trans a b c : kltb a c = false -> klt a b -> kltb b c = false.
Proof.
  intros H1 H2. destruct (kltb b c) eqn:E; auto. apply kltb_lt in E.
  assert (klt a c) by (eapply klt_trans; eauto). apply kltb_lt in H. congruence.
Qed.

Lemma range_rest_out (m : omap val) (e : key * val) start l :
  lb (fst e) m -> kltb (fst e) l = false ->
  filter (fun x => in_range start (Some l) (fst x)) m = [].
Proof.
  intros L H. induction m as [|x m IH]; simpl; auto. inversion L; subst.
  unfold in_range at 1. rewrite (kltb_false_trans (fst e) (fst x) l) by auto.
  rewrite andb_false_r. auto.
Qed.

Lemma in_range_limit_false start limit k :
  match start with Some s => kleb s k | None => true end = true ->
  in_range start limit k = false -> exists l, limit = Some l /\ kltb k l = false.
Proof.
  unfold in_range. intros ->. simpl. destruct limit as [l|]; [eauto|discriminate].
Qed.

Lemma range_first (m : omap val) start limit : sorted m ->
  ofilter (in_range start limit)
    (match start with Some s => OMap.seek_ge m s | None => OMap.first m end) =
  OMap.first (OMap.range m start limit).
Proof.
  unfold OMap.first, OMap.range, OMap.seek_ge.
  induction m as [|e m IH]; simpl; intros S.
  - destruct start; auto.
  - destruct S as [L S]. specialize (IH S).
    destruct start as [s|].
    + destruct (kleb s (fst e)) eqn:K; simpl.
      * destruct (in_range (Some s) limit (fst e)) eqn:R; auto.
        destruct (in_range_limit_false (Some s) limit (fst e) K R) as (l & -> & Hl).
        rewrite (range_rest_out m e (Some s) l) by auto. auto.
      * unfold in_range at 2. rewrite K. simpl. auto.
    + simpl. destruct (in_range None limit (fst e)) eqn:R; auto.
      destruct (in_range_limit_false None limit (fst e) eq_refl R) as (l & -> & Hl).
      rewrite (range_rest_out m e None l) by auto. auto.
Qed.

Lemma range_seek_gt (m : omap val) start limit k : sorted m -> in_range start limit k = true ->
  ofilter (in_range start limit) (OMap.seek_gt m k) = OMap.seek_gt (OMap.range m start limit) k.
Proof.
  unfold OMap.range, OMap.seek_gt. intros S Rk.
  induction m as [|e m IH]; simpl; auto.
  destruct S as [L S]. specialize (IH S).
  destruct (kltb k (fst e)) eqn:K; simpl.
  - destruct (in_range start limit (fst e)) eqn:R; simpl; [rewrite K; auto|].
    assert (St : match start with Some s => kleb s (fst e) | None => true end = true).
    { unfold in_range in Rk. apply andb_true_iff in Rk. destruct Rk as [Rs _].
      destruct start as [s|]; auto. apply kleb_le. intros H. apply kleb_le in Rs. apply Rs.
      apply kltb_lt in K. eapply klt_trans; eauto. }
    destruct (in_range_limit_false start limit (fst e) St R) as (l & -> & Hl).
    rewrite (range_rest_out m e start l) by auto. auto.
  - destruct (in_range start limit (fst e)); simpl; [rewrite K|]; auto.
Qed.

Lemma range_sorted (m : omap val) start limit : sorted m -> sorted (OMap.range m start limit).
Proof.
  unfold OMap.range. induction m as [|e m IH]; simpl; auto. intros [L S].
  destruct (in_range start limit (fst e)); simpl; auto. split; auto.
  unfold lb in *. rewrite Forall_forall in *. intros x Hx. apply filter_In in Hx. apply L. tauto.
Qed.

(* ---------------------------------------------------------------- the whole walk *)

Lemma current_node_key it e : current it = Some e -> node_key (i_node it) = fst e /\ is_node (i_node it) = true.
Proof. unfold current. destruct (i_node it); simpl; [discriminate|]. intros [= <-]. auto. Qed.

Lemma collect_next_from f : forall it pre e post,
  bst (i_root it) -> i_new it = false -> i_seek it = None -> pos_ok it -> current it = Some e ->
  OMap.range (elements (i_root it)) (i_start it) (i_limit it) = pre ++ e :: post ->
  (length post < f)%nat -> collect_next f it = post.
Proof.
  induction f as [|f IH]; intros it pre e post B Nw Sk P C E Hf; [lia|].
  simpl. destruct (next it) as [it' b] eqn:N.
  destruct (current_node_key it e C) as [Ke Nn].
  apply next_spec in N; auto. rewrite Sk, Ke in N.
  destruct N as (C' & Hb & S & Sk' & Nw' & P').
  assert (Srt : sorted (elements (i_root it))) by exact B.
  assert (Re : in_range (i_start it) (i_limit it) (fst e) = true).
  { assert (In e (OMap.range (elements (i_root it)) (i_start it) (i_limit it))).
    { rewrite E. apply in_or_app. right. left. auto. }
    unfold OMap.range in H. apply filter_In in H. tauto. }
  unfold irange in C'. rewrite range_seek_gt in C' by auto.
  pose proof (range_sorted _ (i_start it) (i_limit it) Srt) as Sr. rewrite E in *.
  destruct e as [ke ve]. simpl in C'. rewrite seek_gt_split in C' by auto.
  destruct post as [|e' post]; simpl in C'; rewrite C' in *; simpl in Hb; subst b; auto.
  f_equal. destruct S as (R1 & R2 & R3 & _).
  apply (IH it' (pre ++ [(ke, ve)]) e' post); auto; try congruence.
  - rewrite R1, R2, R3. rewrite <- app_assoc. auto.
  - simpl in Hf. lia.
Qed.

Lemma filter_length_le {A} (f : A -> bool) l : (length (filter f l) <= length l)%nat.
Proof. induction l; simpl; auto. destruct (f a); simpl; lia. Qed.

Lemma collect_next_all t start limit mut : bst t ->
  collect_next (S (length (elements t))) (new_iter t start limit mut) = OMap.range (elements t) start limit.
Proof.
  intros B. simpl. unfold next. simpl i_new. cbv iota.
  destruct (first (new_iter t start limit mut)) as [it' b] eqn:F.
  apply first_spec in F; auto. simpl in F.
  destruct F as (C & Hb & S & Sk & Nw & P).
  unfold irange in C. simpl in C. rewrite range_first in C by exact B.
  destruct S as (R1 & R2 & R3 & _). simpl in *.
  destruct (OMap.range (elements t) start limit) as [|e post] eqn:E; simpl in C; rewrite C in *; simpl in Hb; subst b; auto.
  f_equal. apply (collect_next_from _ it' [] e post); auto; try congruence.
  - rewrite R1, R2, R3. auto.
  - pose proof (filter_length_le (fun e => in_range start limit (fst e)) (elements t)) as Hl.
    unfold OMap.range in E. rewrite E in Hl. simpl in Hl. lia.
Qed.

(* ---------------------------------------------------------------- packaged statements *)

Lemma first_range_spec it it' b : bst (i_root it) -> first it = (it', b) ->
  current it' = OMap.first (OMap.range (elements (i_root it)) (i_start it) (i_limit it)) /\
  b = is_some (current it') /\ it_same it it' /\ i_seek it' = None /\ i_new it' = false /\ pos_ok it'.
Proof.
  intros B E. destruct (first_spec it it' b B E) as (C & R).
  split; auto. rewrite C. apply range_first. exact B.
Qed.

Lemma reseek_spec it t : bst t -> i_mut it = true -> i_new it = false ->
  is_node (i_node it) = true ->
  (forall it' b, next (force_reseek it t) = (it', b) ->
     current it' = ofilter (irange it) (OMap.seek_gt (elements t) (node_key (i_node it))) /\
     b = is_some (current it') /\ i_root it' = t /\ i_seek it' = None /\ pos_ok it') /\
  (forall it' b, prev (force_reseek it t) = (it', b) ->
     current it' = ofilter (irange it) (OMap.seek_lt (elements t) (node_key (i_node it))) /\
     b = is_some (current it') /\ i_root it' = t /\ i_seek it' = None /\ pos_ok it').
Proof.
  intros B M N H. split; intros it' b E;
    [exact (reseek_next_spec it t it' b B M N H E)|exact (reseek_prev_spec it t it' b B M N H E)].
Qed.

Lemma walk_reachable ops start limit mut :
  let t := root (run_ops ops empty) in
  collect_next (S (length (elements t))) (new_iter t start limit mut) =
  OMap.range (spec_ops ops []) start limit.
Proof.
  intros t. rewrite <- reachable_abs.
  apply collect_next_all. apply (reachable_wf ops).
Qed.

(* ---------------------------------------------------------------- range form (backward) *)

(* descending lists: what [rev] of a sorted map is *)
Fixpoint dsorted (X : omap val) : Prop :=
  match X with [] => True | e :: X' => Forall (fun x => klt (fst x) (fst e)) X' /\ dsorted X' end.

Lemma dsorted_app_single X e : dsorted X -> Forall (fun x => klt (fst e) (fst x)) X -> dsorted (X ++ [e]).
Proof.
  induction X as [|x X IH]; simpl; intros S F; [split; auto|].
  destruct S as [Fx S]. inversion F; subst. split; auto.
  apply Forall_app. split; auto.
Qed.

Lemma rev_dsorted (m : omap val) : sorted m -> dsorted (rev m).
Proof.
  induction m as [|e m IH]; simpl; auto. intros [L S]. apply dsorted_app_single; auto.
  unfold lb in L. rewrite Forall_forall in *. intros x Hx. apply L. apply in_rev. auto.
Qed.

Lemma range_rest_out_desc (X : omap val) (e : key * val) s limit :
  Forall (fun x => klt (fst x) (fst e)) X -> kleb s (fst e) = false ->
  filter (fun x => in_range (Some s) limit (fst x)) X = [].
Proof.
  intros F H. induction X as [|x X IH]; simpl; auto. inversion F; subst.
  unfold in_range at 1. assert (kleb s (fst x) = false) as ->.
  { apply kleb_gt. apply kleb_gt in H. eapply klt_trans; eauto. }
  simpl. auto.
Qed.

Lemma in_range_start_false start limit k :
  match limit with Some l => kltb k l | None => true end = true ->
  in_range start limit k = false -> exists s, start = Some s /\ kleb s k = false.
Proof.
  unfold in_range. intros ->. rewrite andb_true_r. destruct start as [s|]; [eauto|discriminate].
Qed.

Lemma filter_rev {A} (f : A -> bool) l : filter f (rev l) = rev (filter f l).
Proof.
  induction l; simpl; auto. rewrite filter_app. simpl. rewrite IHl. destruct (f a); simpl; auto.
  rewrite app_nil_r. auto.
Qed.

Lemma range_last_desc (X : omap val) start limit : dsorted X ->
  ofilter (in_range start limit)
    (match limit with Some l => find (fun e => kltb (fst e) l) X | None => hd_error X end) =
  hd_error (filter (fun e => in_range start limit (fst e)) X).
Proof.
  induction X as [|e X IH]; simpl; intros S.
  - destruct limit; auto.
  - destruct S as [F S]. specialize (IH S).
    destruct limit as [l|].
    + destruct (kltb (fst e) l) eqn:K; simpl.
      * destruct (in_range start (Some l) (fst e)) eqn:R; auto.
        destruct (in_range_start_false start (Some l) (fst e) K R) as (s & -> & Hs).
        rewrite (range_rest_out_desc X e s (Some l)) by auto. auto.
      * unfold in_range at 2. rewrite K. rewrite andb_false_r. auto.
    + simpl. destruct (in_range start None (fst e)) eqn:R; auto.
      destruct (in_range_start_false start None (fst e) eq_refl R) as (s & -> & Hs).
      rewrite (range_rest_out_desc X e s None) by auto. auto.
Qed.

Lemma range_last (m : omap val) start limit : sorted m ->
  ofilter (in_range start limit)
    (match limit with Some l => OMap.seek_lt m l | None => OMap.last m end) =
  OMap.last (OMap.range m start limit).
Proof.
  intros S. unfold OMap.seek_lt, OMap.last, OMap.range. rewrite <- filter_rev.
  apply range_last_desc. apply rev_dsorted; auto.
Qed.

Lemma range_seek_lt_desc (X : omap val) start limit k : dsorted X -> in_range start limit k = true ->
  ofilter (in_range start limit) (find (fun e => kltb (fst e) k) X) =
  find (fun e => kltb (fst e) k) (filter (fun e => in_range start limit (fst e)) X).
Proof.
  intros S Rk. induction X as [|e X IH]; simpl; auto.
  destruct S as [F S]. specialize (IH S).
  destruct (kltb (fst e) k) eqn:K; simpl.
  - destruct (in_range start limit (fst e)) eqn:R; simpl; [rewrite K; auto|].
    assert (Lt : match limit with Some l => kltb (fst e) l | None => true end = true).
    { unfold in_range in Rk. apply andb_true_iff in Rk. destruct Rk as [_ Rl].
      destruct limit as [l|]; auto. apply kltb_lt. apply kltb_lt in K, Rl. eapply klt_trans; eauto. }
    destruct (in_range_start_false start limit (fst e) Lt R) as (s & -> & Hs).
    rewrite (range_rest_out_desc X e s limit) by auto. auto.
  - destruct (in_range start limit (fst e)); simpl; [rewrite K|]; auto.
Qed.

Lemma range_seek_lt (m : omap val) start limit k : sorted m -> in_range start limit k = true ->
  ofilter (in_range start limit) (OMap.seek_lt m k) = OMap.seek_lt (OMap.range m start limit) k.
Proof.
  intros S R. unfold OMap.seek_lt, OMap.range. rewrite <- filter_rev.
  apply range_seek_lt_desc; auto. apply rev_dsorted; auto.
Qed.

(* ---------------------------------------------------------------- the whole backward walk *)

Lemma collect_prev_from f : forall it pre e post,
  bst (i_root it) -> i_new it = false -> i_seek it = None -> pos_ok it -> current it = Some e ->
  OMap.range (elements (i_root it)) (i_start it) (i_limit it) = pre ++ e :: post ->
  (length pre < f)%nat -> collect_prev f it = rev pre.
Proof.
  induction f as [|f IH]; intros it pre e post B Nw Sk P C E Hf; [lia|].
  simpl. destruct (prev it) as [it' b] eqn:N.
  destruct (current_node_key it e C) as [Ke Nn].
  apply prev_spec in N; auto. rewrite Sk, Ke in N.
  destruct N as (C' & Hb & S & Sk' & Nw' & P').
  assert (Srt : sorted (elements (i_root it))) by exact B.
  assert (Re : in_range (i_start it) (i_limit it) (fst e) = true).
  { assert (In e (OMap.range (elements (i_root it)) (i_start it) (i_limit it))).
    { rewrite E. apply in_or_app. right. left. auto. }
    unfold OMap.range in H. apply filter_In in H. tauto. }
  unfold irange in C'. rewrite range_seek_lt in C' by auto.
  pose proof (range_sorted _ (i_start it) (i_limit it) Srt) as Sr. rewrite E in *.
  destruct e as [ke ve]. simpl in C'. rewrite seek_lt_split in C' by auto.
  destruct (rev pre) as [|e' rp] eqn:Erp; simpl in C'; rewrite C' in *; simpl in Hb; subst b; auto.
  f_equal. destruct S as (R1 & R2 & R3 & _).
  assert (Epre : pre = rev rp ++ [e']).
  { rewrite <- (rev_involutive pre), Erp. simpl. auto. }
  rewrite <- (rev_involutive rp).
  apply (IH it' (rev rp) e' ((ke, ve) :: post)); auto; try congruence.
  - rewrite R1, R2, R3. rewrite E, Epre, <- app_assoc. auto.
  - rewrite Epre, app_length in Hf. simpl in Hf. lia.
Qed.

Lemma collect_prev_all t start limit mut : bst t ->
  collect_prev (S (length (elements t))) (new_iter t start limit mut) =
  rev (OMap.range (elements t) start limit).
Proof.
  intros B. simpl. unfold prev. simpl i_new. cbv iota.
  destruct (last (new_iter t start limit mut)) as [it' b] eqn:F.
  apply last_spec in F; auto. simpl in F.
  destruct F as (C & Hb & S & Sk & Nw & P).
  unfold irange in C. simpl in C. rewrite range_last in C by exact B.
  destruct S as (R1 & R2 & R3 & _). simpl in *.
  unfold OMap.last in C.
  destruct (rev (OMap.range (elements t) start limit)) as [|e rp] eqn:E; simpl in C; rewrite C in *;
    simpl in Hb; subst b; auto.
  f_equal.
  assert (Er : OMap.range (elements t) start limit = rev rp ++ [e]).
  { rewrite <- (rev_involutive (OMap.range (elements t) start limit)), E. simpl. auto. }
  rewrite <- (rev_involutive rp).
  apply (collect_prev_from _ it' (rev rp) e []); auto; try congruence.
  - pose proof (filter_length_le (fun e => in_range start limit (fst e)) (elements t)) as Hl.
    unfold OMap.range in Er. rewrite Er, app_length in Hl. simpl in Hl. lia.
Qed.

Lemma walk_back_reachable ops start limit mut :
  let t := root (run_ops ops empty) in
  collect_prev (S (length (elements t))) (new_iter t start limit mut) =
  rev (OMap.range (spec_ops ops []) start limit).
Proof.
  intros t. rewrite <- reachable_abs.
  apply collect_prev_all. apply (reachable_wf ops).
Qed.

Lemma last_range_spec it it' b : bst (i_root it) -> last it = (it', b) ->
  current it' = OMap.last (OMap.range (elements (i_root it)) (i_start it) (i_limit it)) /\
  b = is_some (current it') /\ it_same it it' /\ i_seek it' = None /\ i_new it' = false /\ pos_ok it'.
Proof.
  intros B E. destruct (last_spec it it' b B E) as (C & R).
  split; auto. rewrite C. apply range_last. exact B.
Qed.
