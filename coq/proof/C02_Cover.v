(* C02: the regenerated tables of the Go source agree with the registry. *)
From Coq Require Import NArith List Bool String Lia.
From ELA Require Import lib.GoSem lib.Bytes model.C02_Fmt model.C02_Descr model.C02_Cover
  proof.C02_Safe proof.C02_Registry gen.C02_decoders.
Import ListNotations.
Local Open Scope N_scope.

Lemma all_decoders_covered : forallb covered decoders = true.
Proof. vm_compute. reflexivity. Qed.

Lemma out_of_scope_is : out_of_scope = ["crypto|PublicKey.Deserialize"%string; "p2p|Header.Deserialize"%string].
Proof. vm_compute. reflexivity. Qed.

Lemma existsb_eqb_In : forall n l, existsb (N.eqb n) l = true -> In n l.
Proof.
  intros n l H. apply existsb_exists in H. destruct H as [x [I E]]. apply N.eqb_eq in E. subst. exact I.
Qed.

(* every Deserialize method found in the decoder packages of the source is
   either explicitly out of scope or covered by a registered descriptor, which
   is safe on every input *)
Theorem every_decoder_safe : forall d, In d decoders ->
  In d out_of_scope \/
  exists id, lookup d cover = Some (Id id) /\ In id format_ids /\
    forall c bs, fst (decode (fmt_of id) c bs) <> Panic /\
                 snd (decode (fmt_of id) c bs) <= kf (fmt_of id) * len bs + cf (fmt_of id).
Proof.
  intros d I. pose proof all_decoders_covered as A. rewrite forallb_forall in A. specialize (A d I).
  unfold covered in A. destruct (lookup d cover) as [[n|]|] eqn:L; [| |discriminate].
  - right. exists n. split; [reflexivity|]. apply existsb_eqb_In in A. split; [exact A|].
    intros c bs. destruct (registry_safe n A c bs) as [S1 [S2 _]]. auto.
  - left. unfold out_of_scope. apply in_flat_map. exists (d, Out). split; [|simpl; auto].
    clear - L. induction cover as [|[k t] r IH]; [discriminate|]. simpl in L.
    destruct (String.eqb d k) eqn:E.
    + apply String.eqb_eq in E. inversion L; subst. left. reflexivity.
    + right. apply IH. exact L.
Qed.

(* every make() with a non-constant size found in a decoder function is one of
   the three bounded byte buffers of common/serialize.go, or belongs to a
   decoder whose descriptor declares that many bounded pre-allocations *)
Lemma all_make_sites_ok : forallb site_ok make_sites = true.
Proof. vm_compute. reflexivity. Qed.

Theorem make_sites_agree : forall fn k, In (fn, k) make_sites ->
  In (fn, k) buffer_sites \/
  exists id, lookup fn cover = Some (Id id) /\ In id format_ids /\
             k = 2 * count_pre (fmt_of id) /\ wf_alloc (fmt_of id) = true.
Proof.
  intros fn k I. pose proof all_make_sites_ok as A. rewrite forallb_forall in A. specialize (A _ I).
  unfold site_ok in A.
  destruct (existsb (fun b => String.eqb fn (fst b) && (k =? snd b)) buffer_sites) eqn:B.
  - left. apply existsb_exists in B. destruct B as [[f0 k0] [IB E]]. simpl in E.
    apply andb_true_iff in E. destruct E as [E1 E2]. apply String.eqb_eq in E1. apply N.eqb_eq in E2. subst. exact IB.
  - right. destruct (lookup fn cover) as [[n|]|]; try discriminate.
    apply andb_true_iff in A. destruct A as [A W]. apply andb_true_iff in A. destruct A as [A1 A2].
    exists n. split; [reflexivity|]. split; [apply existsb_eqb_In; exact A1|]. apply N.eqb_eq in A2. auto.
Qed.
