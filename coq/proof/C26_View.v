(* C26 proofs: the view-change schedule (model/C26_View.v). *)
From Coq Require Import ZArith List Bool Lia Znumtheory.
From ELA Require Import model.C26_View.
Import ListNotations.
Local Open Scope Z_scope.

Lemma sec_val : sec = 1000000000. Proof. reflexivity. Qed.
Lemma sec_pos : 0 < sec. Proof. reflexivity. Qed.
Lemma u32_range : forall x, 0 <= u32 x < 4294967296.
Proof. intro; unfold u32; apply Z.mod_pos_bound; lia. Qed.
Lemma u32_small : forall x, 0 <= x < 4294967296 -> u32 x = x.
Proof. intros; unfold u32; apply Z.mod_small; lia. Qed.

(* ------------------------------------------------------------------ V0 *)

Lemma offset_v0_pos : forall tol d, 0 < tol -> 0 <= d ->
  offset_v0 tol d = Ok (u32 (d / tol)) (d mod tol).
Proof.
  intros. unfold offset_v0. destruct (tol =? 0) eqn:E; [lia|].
  rewrite Z.quot_div_nonneg, Z.rem_mod_nonneg by lia. reflexivity.
Qed.

Lemma cv0_pos : forall tol k r dt, 0 < tol -> 0 <= r + dt ->
  cv0 tol k r dt = Ok (u32 (k + u32 ((r + dt) / tol))) ((r + dt) mod tol).
Proof. intros. unfold cv0. rewrite offset_v0_pos by lia. reflexivity. Qed.

Lemma u32_add3 : forall k a b, u32 (u32 (k + u32 a) + u32 b) = u32 (k + u32 (a + b)).
Proof.
  intros. unfold u32.
  rewrite Z.add_mod_idemp_l, Z.add_mod_idemp_r by lia.
  replace (k + a mod 4294967296 + b) with (k + b + a mod 4294967296) by lia.
  rewrite !Z.add_mod_idemp_r by lia. f_equal. lia.
Qed.

Lemma sum_nonneg : forall l, Forall (fun x => 0 <= x) l -> 0 <= sum l.
Proof. induction 1; simpl; lia. Qed.

Lemma v0_compositional : forall tol dts k r,
  0 < tol -> 0 <= k < 4294967296 -> 0 <= r < tol ->
  Forall (fun x => 0 <= x) dts ->
  v0_poll tol k r dts = cv0 tol k r (sum dts).
Proof.
  intros tol dts. induction dts as [|dt rest IH]; intros k r Ht Hk Hr Hd.
  - simpl. rewrite cv0_pos by lia. rewrite Z.add_0_r, Z.div_small, Z.mod_small by lia.
    simpl. rewrite Z.add_0_r, u32_small by lia. reflexivity.
  - inversion Hd as [|? ? Hdt Hrest]; subst. pose proof (sum_nonneg _ Hrest) as Hs.
    unfold v0_poll in *. simpl poll. rewrite cv0_pos by lia.
    rewrite IH; try lia; auto.
    2: apply u32_range. 2: apply Z.mod_pos_bound; lia.
    simpl sum. rewrite !cv0_pos by (try lia; pose proof (Z.mod_pos_bound (r + dt) tol); lia).
    pose proof (Z.div_mod (r + dt) tol ltac:(lia)) as E.
    set (q := (r + dt) / tol) in *. set (m := (r + dt) mod tol) in *.
    replace (r + (dt + sum rest)) with (q * tol + (m + sum rest)) by lia.
    rewrite Z.div_add_l by lia. rewrite (Z.add_comm (q * tol)), Z_mod_plus_full.
    f_equal. apply u32_add3.
Qed.

Lemma v0_monotone : forall tol d1 d2 k1 r1 k2 r2,
  0 < tol -> 0 <= d1 <= d2 -> d2 / tol < 4294967296 ->
  offset_v0 tol d1 = Ok k1 r1 -> offset_v0 tol d2 = Ok k2 r2 -> k1 <= k2.
Proof.
  intros tol d1 d2 k1 r1 k2 r2 Ht Hd Hw H1 H2.
  rewrite offset_v0_pos in H1, H2 by lia. inversion H1; inversion H2; subst.
  assert (d1 / tol <= d2 / tol) by (apply Z.div_le_mono; lia).
  assert (0 <= d1 / tol) by (apply Z.div_pos; lia).
  rewrite !u32_small by lia. lia.
Qed.

(* ------------------------------------------------------------------ V1: slots *)

Lemma pow20_mod4 : forall j, 1 <= j -> pow20 j mod 4 = 0.
Proof.
  intros j Hj. unfold pow20. destruct (j <=? 14); [|reflexivity].
  unfold u32. rewrite <- Zmod_div_mod; try lia.
  2: exists 1073741824; reflexivity.
  replace j with (Z.succ (j - 1)) by lia. rewrite Z.pow_succ_r by lia.
  replace (20 * 20 ^ (j - 1)) with (5 * 20 ^ (j - 1) * 4) by lia.
  apply Z_mod_mult.
Qed.

Lemma slot_val_ge1 : forall x j, 1 <= j -> 1 <= u32 (5 + x * 3 * pow20 j).
Proof.
  intros x j Hj. pose proof (pow20_mod4 j Hj) as Hp.
  apply Z.mod_divide in Hp; [|lia]. destruct Hp as [q Hq].
  assert (M : u32 (5 + x * 3 * pow20 j) mod 4 = 1).
  { unfold u32. rewrite <- Zmod_div_mod; try lia.
    2: exists 1073741824; reflexivity.
    rewrite Hq. replace (5 + x * 3 * (q * 4)) with (1 + (1 + x * 3 * q) * 4) by lia.
    rewrite Z_mod_plus_full. reflexivity. }
  pose proof (u32_range (5 + x * 3 * pow20 j)).
  destruct (Z.eq_dec (u32 (5 + x * 3 * pow20 j)) 0) as [E|E]; [rewrite E in M; discriminate|lia].
Qed.

Lemma round_ge1 : forall n k, 0 < n -> n <= k -> 1 <= k / n.
Proof. intros. apply Z.div_le_lower_bound; lia. Qed.

Lemma slot_loop_ge : forall n k, 0 < n -> sec <= slot_loop n k.
Proof.
  intros n k Hn. unfold slot_loop. destruct (k <? n) eqn:E.
  - rewrite sec_val; lia.
  - apply Z.ltb_ge in E. pose proof (slot_val_ge1 (k - n) (k / n) (round_ge1 n k Hn E)).
    rewrite sec_val in *. lia.
Qed.

Lemma slot_init_ge : forall n k, 0 < n -> sec <= slot_init n k.
Proof.
  intros n k Hn. unfold slot_init. destruct (k <? n) eqn:E.
  - rewrite sec_val; lia.
  - apply Z.ltb_ge in E. pose proof (slot_val_ge1 (1 + k - n) (k / n) (round_ge1 n k Hn E)).
    rewrite sec_val in *. lia.
Qed.

Lemma slot_init_below : forall n k, k < n -> slot_init n k = slot_loop n k.
Proof.
  intros. unfold slot_init, slot_loop. destruct (k <? n) eqn:E; [reflexivity|].
  apply Z.ltb_ge in E. lia.
Qed.

(* ------------------------------------------------------------------ V1: the loop *)

Lemma loop_fuel_mono : forall f1 f2 n k d s a b,
  v1_loop f1 n k d s = Ok a b -> (f1 <= f2)%nat -> v1_loop f2 n k d s = Ok a b.
Proof.
  induction f1; intros f2 n k d s a b H Hle; simpl in H; [discriminate|].
  destruct f2; [lia|]. simpl. destruct (s <=? d); [|assumption].
  eapply IHf1; eauto. lia.
Qed.

Lemma loop_fuel_det : forall f1 f2 n k d s a b a' b',
  v1_loop f1 n k d s = Ok a b -> v1_loop f2 n k d s = Ok a' b' -> a = a' /\ b = b'.
Proof.
  intros. pose proof (loop_fuel_mono f1 (max f1 f2) _ _ _ _ _ _ H (Nat.le_max_l _ _)) as A.
  pose proof (loop_fuel_mono f2 (max f1 f2) _ _ _ _ _ _ H0 (Nat.le_max_r _ _)) as B.
  rewrite A in B. inversion B. auto.
Qed.

Lemma loop_not_divzero : forall f n k d s, v1_loop f n k d s <> DivZero.
Proof. induction f; intros; simpl; [discriminate|]. destruct (s <=? d); [apply IHf|discriminate]. Qed.

(* With a fuel above the number of whole seconds the loop finishes. *)
Lemma loop_total : forall f n k d s, 0 < n -> sec <= s ->
  d < Z.of_nat (S f) * sec -> exists a b, v1_loop (S f) n k d s = Ok a b.
Proof.
  induction f; intros n k d s Hn Hs Hd.
  - simpl. destruct (s <=? d) eqn:E; [apply Z.leb_le in E; rewrite sec_val in *; lia|eauto].
  - remember (S f) as f'. simpl. destruct (s <=? d) eqn:E; [|eauto]. subst f'.
    apply Z.leb_le in E. apply IHf; auto using slot_loop_ge.
    rewrite sec_val in *. lia.
Qed.

Lemma fuel_exists : forall d, exists f, d < Z.of_nat (S f) * sec.
Proof.
  intro d. destruct (Z_lt_le_dec d 0).
  - exists O. rewrite sec_val. lia.
  - exists (Z.to_nat (d / sec)). rewrite Nat2Z.inj_succ, Z2Nat.id by (apply Z.div_pos; [lia|apply sec_pos]).
    pose proof (Z.div_mod d sec ltac:(pose proof sec_pos; lia)).
    pose proof (Z.mod_pos_bound d sec sec_pos). rewrite sec_val in *. lia.
Qed.

(* Adding time to an evaluation = continuing from where it stopped with the
   slot length it stopped at: the first slot if it did not move, the in-loop
   slot of the reached offset otherwise. *)
Lemma loop_add : forall f1 n k d1 s k1 r1 d2,
  0 < n -> sec <= s -> 0 <= d2 ->
  v1_loop f1 n k d1 s = Ok k1 r1 ->
  exists s1, ((s1 = s /\ k1 = k /\ r1 = d1) \/ (s1 = slot_loop n k1 /\ r1 < d1)) /\
    forall f2 a b, v1_loop f2 n k1 (r1 + d2) s1 = Ok a b ->
                   v1_loop (f1 + f2) n k (d1 + d2) s = Ok a b.
Proof.
  induction f1; intros n k d1 s k1 r1 d2 Hn Hs Hd2 H; simpl in H; [discriminate|].
  destruct (s <=? d1) eqn:E.
  - apply Z.leb_le in E.
    destruct (IHf1 n _ _ _ _ _ d2 Hn (slot_loop_ge n (u32 (k + 1)) Hn) Hd2 H) as [s1 [Hs1 Hc]].
    exists s1. split.
    + right. rewrite sec_val in *. destruct Hs1 as [[-> [-> ->]]|[-> ?]]; split; auto; lia.
    + intros f2 a b Hr. simpl. replace (s <=? d1 + d2) with true by (symmetry; apply Z.leb_le; lia).
      replace (d1 + d2 - s) with (d1 - s + d2) by lia. apply Hc; assumption.
  - inversion H; subst. exists s. split; [left; auto|].
    intros f2 a b Hr. eapply loop_fuel_mono; eauto. lia.
Qed.

(* As long as the uint32 offset cannot wrap (every view lasts at least one
   second) the loop only moves forward and accounts for all the time. *)
Lemma loop_bound : forall f n k d s k' r',
  0 < n -> sec <= s -> 0 <= k -> k * sec + d < 4294967296 * sec ->
  v1_loop f n k d s = Ok k' r' ->
  k <= k' /\ k' * sec + r' <= k * sec + d /\ (k' = k -> r' = d) /\ (0 <= d -> 0 <= r') /\ r' <= d.
Proof.
  induction f; intros n k d s k' r' Hn Hs Hk Hw H; simpl in H; [discriminate|].
  destruct (s <=? d) eqn:E.
  - apply Z.leb_le in E. rewrite sec_val in *.
    rewrite (u32_small (k + 1)) in H by lia.
    apply IHf in H; auto using slot_loop_ge; rewrite ?sec_val in *; lia.
  - inversion H; subst. lia.
Qed.

(* ------------------------------------------------------------------ V1: evaluations *)

Lemma offset_v1_unfold : forall f n k d, 0 < n ->
  offset_v1 f n k d = v1_loop f n k d (slot_init n k).
Proof. intros. unfold offset_v1. destruct (n =? 0) eqn:E; [lia|reflexivity]. Qed.

Lemma v1_total : forall fuel n k d, 0 < n -> Z.max 1 (d / sec + 1) <= Z.of_nat fuel ->
  exists k' r', offset_v1 fuel n k d = Ok k' r'.
Proof.
  intros fuel n k d Hn Hf. rewrite offset_v1_unfold by lia.
  destruct fuel as [|f]; [lia|]. apply loop_total; auto using slot_init_ge.
  pose proof (Z.div_mod d sec ltac:(pose proof sec_pos; lia)).
  pose proof (Z.mod_pos_bound d sec sec_pos). rewrite sec_val in *. lia.
Qed.

Lemma v1_fuel_irrelevant : forall f1 f2 n k d a b a' b',
  offset_v1 f1 n k d = Ok a b -> offset_v1 f2 n k d = Ok a' b' -> a = a' /\ b = b'.
Proof.
  intros f1 f2 n k d a b a' b'. unfold offset_v1. destruct (n =? 0); [discriminate|].
  apply loop_fuel_det.
Qed.

Lemma v1_monotone : forall f1 f2 n k d1 d2 k1 r1 k2 r2,
  0 < n -> 0 <= k -> d1 <= d2 -> k * sec + d2 < 4294967296 * sec ->
  offset_v1 f1 n k d1 = Ok k1 r1 -> offset_v1 f2 n k d2 = Ok k2 r2 -> k1 <= k2.
Proof.
  intros f1 f2 n k d1 d2 k1 r1 k2 r2 Hn Hk Hd Hw H1 H2.
  rewrite offset_v1_unfold in H1, H2 by lia.
  assert (Hdd : 0 <= d2 - d1) by lia.
  assert (Hw1 : k * sec + d1 < 4294967296 * sec) by lia.
  destruct (loop_add _ _ _ _ _ _ _ (d2 - d1) Hn (slot_init_ge n k Hn) Hdd H1) as [s1 [Hs1 Hc]].
  pose proof (loop_bound _ _ _ _ _ _ _ Hn (slot_init_ge n k Hn) Hk Hw1 H1) as B1.
  assert (Hs1ge : sec <= s1) by (destruct Hs1 as [[-> _]|[-> _]]; auto using slot_init_ge, slot_loop_ge).
  destruct (fuel_exists (r1 + (d2 - d1))) as [f Hf].
  destruct (loop_total f n k1 (r1 + (d2 - d1)) s1 Hn Hs1ge Hf) as [a [b Hab]].
  pose proof (Hc _ _ _ Hab) as Hfull. replace (d1 + (d2 - d1)) with d2 in Hfull by lia.
  destruct (loop_fuel_det _ _ _ _ _ _ _ _ _ _ Hfull H2) as [-> ->].
  apply loop_bound in Hab; auto; lia.
Qed.

(* cv1 = offset_v1 when the offset cannot wrap *)
Lemma cv1_eq : forall fuel n k r dt k' r',
  0 < n -> 0 <= k -> k * sec + (r + dt) < 4294967296 * sec ->
  cv1 fuel n k r dt = Ok k' r' -> offset_v1 fuel n k (r + dt) = Ok k' r'.
Proof.
  intros fuel n k r dt k' r' Hn Hk Hw H. unfold cv1 in H.
  destruct (offset_v1 fuel n k (r + dt)) as [a b| |] eqn:E; try discriminate.
  destruct (a =? k) eqn:Ea; [|assumption].
  apply Z.eqb_eq in Ea. subst a. inversion H; subst.
  rewrite offset_v1_unfold in E by lia.
  apply loop_bound in E; auto using slot_init_ge. destruct E as (_ & _ & Hr & _). rewrite Hr; auto.
Qed.

(* The invariant behind compositionality: after any prefix of the schedule the
   polled state equals the one-shot state at the same total time T. *)
Lemma v1_poll_inv : forall fuel n k0 dts k r T f0 ka ra fb kb rb,
  0 < n -> 0 <= k0 ->
  offset_v1 f0 n k0 T = Ok k r ->
  Forall (fun x => 0 <= x) dts ->
  k0 * sec + (T + sum dts) < 4294967296 * sec ->
  v1_sched_ok fuel n k0 k r dts = true ->
  v1_poll fuel n k r dts = Ok ka ra ->
  offset_v1 fb n k0 (T + sum dts) = Ok kb rb ->
  ka = kb /\ ra = rb.
Proof.
  intros fuel n k0 dts. induction dts as [|dt rest IH];
    intros k r T f0 ka ra fb kb rb Hn Hk0 H0 Hd Hw Hok Hp Hone.
  - simpl in *. rewrite Z.add_0_r in Hone. inversion Hp; subst.
    eapply v1_fuel_irrelevant; eauto.
  - inversion Hd as [|? ? Hdt Hrest]; subst. pose proof (sum_nonneg _ Hrest) as Hs.
    change (sum (dt :: rest)) with (dt + sum rest) in Hw, Hone.
    simpl in Hok. unfold v1_poll in *. simpl in Hp.
    apply andb_prop in Hok. destruct Hok as [Hstart Hok].
    destruct (cv1 fuel n k r dt) as [k2 r2| |] eqn:Ecv; try discriminate.
    pose proof H0 as H0'. rewrite offset_v1_unfold in H0' by lia.
    assert (HwT : k0 * sec + T < 4294967296 * sec) by lia.
    pose proof (loop_bound _ _ _ _ _ _ _ Hn (slot_init_ge n k0 Hn) Hk0 HwT H0') as B.
    apply cv1_eq in Ecv; try lia.
    (* the one-shot evaluation at T + dt reaches (k2, r2) *)
    assert (Hstep : offset_v1 (f0 + fuel) n k0 (T + dt) = Ok k2 r2).
    { rewrite offset_v1_unfold by lia.
      destruct (loop_add _ _ _ _ _ _ _ dt Hn (slot_init_ge n k0 Hn) Hdt H0') as [s1 [Hs1 Hc]].
      apply Hc. rewrite offset_v1_unfold in Ecv by lia.
      assert (s1 = slot_init n k) as ->; [|assumption].
      apply orb_prop in Hstart. destruct Hstart as [Hlt|Heq].
      - apply Z.ltb_lt in Hlt. destruct Hs1 as [[-> [-> _]]|[-> _]]; auto using slot_init_below.
        symmetry; auto using slot_init_below.
      - apply Z.eqb_eq in Heq. subst k. destruct Hs1 as [[-> _]|[_ Hlt]]; auto. lia. }
    eapply (IH k2 r2 (T + dt)); eauto.
    + lia.
    + replace (T + dt + sum rest) with (T + (dt + sum rest)) by lia. eassumption.
Qed.

Lemma v1_compositional : forall fuel fuel' n k0 dts ka ra kb rb,
  0 < n -> 0 <= k0 ->
  Forall (fun x => 0 <= x) dts ->
  k0 * sec + sum dts < 4294967296 * sec ->
  v1_sched_ok fuel n k0 k0 0 dts = true ->
  v1_poll fuel n k0 0 dts = Ok ka ra ->
  offset_v1 fuel' n k0 (sum dts) = Ok kb rb ->
  ka = kb /\ ra = rb.
Proof.
  intros fuel fuel' n k0 dts ka ra kb rb Hn Hk Hd Hw Hok Hp Hone.
  eapply (v1_poll_inv fuel n k0 dts k0 0 0 1%nat); eauto.
  rewrite offset_v1_unfold by lia. simpl.
  pose proof (slot_init_ge n k0 Hn). rewrite sec_val in *.
  destruct (slot_init n k0 <=? 0) eqn:E; [apply Z.leb_le in E; lia|reflexivity].
Qed.

Lemma starts_below_sched_ok : forall fuel n k0 dts k r,
  v1_starts_below fuel n k r dts = true -> v1_sched_ok fuel n k0 k r dts = true.
Proof.
  intros fuel n k0 dts. induction dts as [|dt rest IH]; intros k r H; simpl in *; auto.
  apply andb_prop in H. destruct H as [A B]. rewrite A. simpl.
  destruct (cv1 fuel n k r dt); auto.
Qed.

Lemma v1_compositional_below_round : forall fuel fuel' n k0 dts ka ra kb rb,
  0 < n -> 0 <= k0 ->
  Forall (fun x => 0 <= x) dts ->
  k0 * sec + sum dts < 4294967296 * sec ->
  v1_starts_below fuel n k0 0 dts = true ->
  v1_poll fuel n k0 0 dts = Ok ka ra ->
  offset_v1 fuel' n k0 (sum dts) = Ok kb rb ->
  ka = kb /\ ra = rb.
Proof. intros. eapply v1_compositional; eauto using starts_below_sched_ok. Qed.

(* Two arbiters that poll at different moments but look at the clock at the
   same final time agree. *)
Lemma v1_pollers_agree : forall fuel n k0 dts1 dts2 ka ra kb rb,
  0 < n -> 0 <= k0 ->
  Forall (fun x => 0 <= x) dts1 -> Forall (fun x => 0 <= x) dts2 ->
  sum dts1 = sum dts2 -> k0 * sec + sum dts1 < 4294967296 * sec ->
  v1_sched_ok fuel n k0 k0 0 dts1 = true -> v1_sched_ok fuel n k0 k0 0 dts2 = true ->
  v1_poll fuel n k0 0 dts1 = Ok ka ra -> v1_poll fuel n k0 0 dts2 = Ok kb rb ->
  ka = kb /\ ra = rb.
Proof.
  intros fuel n k0 dts1 dts2 ka ra kb rb Hn Hk H1 H2 Hs Hw O1 O2 P1 P2.
  destruct (v1_total (Z.to_nat (Z.max 1 (sum dts1 / sec + 1))) n k0 (sum dts1) Hn ltac:(lia)) as [k [r E]].
  destruct (v1_compositional _ _ _ _ _ _ _ _ _ Hn Hk H1 Hw O1 P1 E) as [-> ->].
  rewrite Hs in *.
  destruct (v1_compositional _ _ _ _ _ _ _ _ _ Hn Hk H2 Hw O2 P2 E) as [-> ->]. auto.
Qed.

(* The full statement is false of the code: 3 arbiters, offset 2; evaluations
   5 s and 69 s after the view start give (3, 64 s), one evaluation after 69 s
   gives (4, 59 s). *)
Lemma v1_compositional_refuted : exists n k0 dts,
  0 < n /\ 0 <= k0 /\ Forall (fun x => 0 <= x) dts /\
  k0 * sec + sum dts < 4294967296 * sec /\
  v1_poll 10 n k0 0 dts = Ok 3 (64 * sec) /\
  offset_v1 10 n k0 (sum dts) = Ok 4 (59 * sec).
Proof.
  exists 3, 2, [5 * sec; 64 * sec]. repeat split; try (vm_compute; congruence).
  repeat constructor; vm_compute; congruence.
Qed.
