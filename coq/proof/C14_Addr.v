(* C14: the per-address UTXO index (and the tx index with heights) refine the
   active chain after every history. *)
From Coq Require Import List ZArith NArith Bool Lia Permutation.
From ELA Require Import model.Ledger proof.Ledger_base proof.Ledger_unspent proof.C06_Ledger proof.C13_Ledger
  proof.Ledger_addr proof.Ledger_addr_inv.
Import ListNotations.
Local Open Scope N_scope.

Definition Inv2 (st : state * chain) : Prop := inv2 (fst st) (snd st) /\ snd st <> [].

Lemma hstep_inv2 mat st e : Inv2 st -> Inv2 (hstep_run cfg_fixed mat st e).
Proof.
  destruct st as [s c]. intros [I Hne]. simpl in *. destruct e as [b|]; simpl.
  - destruct (connect cfg_fixed mat (chain_height c) s b) as [s'| |] eqn:E; try (split; assumption).
    split; simpl; [|destruct c; discriminate].
    unfold connect in E.
    destruct (block_sanity_ok b) eqn:Hs; simpl in E; [|discriminate].
    destruct (block_context_ok cfg_fixed mat (chain_height c) s b) eqn:Hc; simpl in E; [|discriminate].
    destruct (N.eqb_spec (b_prev b) (s_tip s)) as [Hprev|]; [|discriminate]. simpl in E.
    destruct (N.eqb_spec (b_height b) (chain_height c + 1)) as [Hht|]; [|discriminate].
    destruct (save_block s b) as [s1| |] eqn:Hsave; try discriminate. inversion E; subst s1.
    destruct (sanity_facts b Hs) as [Hids [Hsp _]].
    destruct (context_facts _ _ _ _ Hs Hc) as [Hfresh0 Hunsp].
    eapply save_inv2; eauto.
    intros b' Hb'. pose proof (hinc_le _ (i2_hinc _ _ I) b' Hb'). lia.
  - destruct (rev c) as [|b [|b2 r]] eqn:Er; try (split; assumption).
    assert (Ec : c = rev (b2 :: r) ++ [b]) by (rewrite <- (rev_involutive c), Er; reflexivity).
    destruct (rollback_block cfg_fixed s b) as [s'| |] eqn:E; try (split; assumption).
    assert (Erl : removelast c = rev (b2 :: r)) by (rewrite Ec; apply removelast_last).
    rewrite Erl. assert (Hne' : rev (b2 :: r) <> []) by (simpl; destruct (rev r); discriminate).
    split; [|exact Hne']. cbn [fst snd]. eapply rollback_inv2; [|exact Hne'|exact E]. rewrite <- Ec. exact I.
Qed.

Theorem history_inv2 mat h : forall st, Inv2 st -> Inv2 (history_run cfg_fixed mat st h).
Proof. induction h as [|e r IH]; intros st H; simpl; [exact H|]. apply IH. now apply hstep_inv2. Qed.

(* the list GetUTXO returns (concatenation over the heights [hs]) *)
Lemma q_utxos_in s a hs u : In u (q_utxos s a hs) <-> exists h, In h hs /\ In u (s_addr s a h).
Proof. unfold q_utxos. apply in_flat_map. Qed.

Lemma inv2_height_of_key s c a1 h1 a2 h2 u1 u2 :
  inv2 s c -> In u1 (s_addr s a1 h1) -> In u2 (s_addr s a2 h2) -> ukey u1 = ukey u2 -> h1 = h2 /\ a1 = a2 /\ u1 = u2.
Proof.
  intros I H1 H2 E. apply (i2_addr _ _ I) in H1, H2.
  destruct H1 as [x1 [o1 [Hc1 [Hn1 [Ea1 [Ev1 _]]]]]]. destruct H2 as [x2 [o2 [Hc2 [Hn2 [Ea2 [Ev2 _]]]]]].
  unfold ukey in E. inversion E as [[Et Ei]]. rewrite Et in Hc1. apply (i2_tx _ _ I) in Hc1, Hc2.
  rewrite Hc1 in Hc2. inversion Hc2; subst. rewrite Ei in Hn1. rewrite Hn1 in Hn2. inversion Hn2; subst.
  split; [reflexivity|]. split; [reflexivity|]. destruct u1, u2. simpl in *. congruence.
Qed.

Lemma q_utxos_distinct s c a hs : inv2 s c -> NoDup hs -> udistinct (q_utxos s a hs).
Proof.
  intros I. unfold q_utxos, udistinct. induction hs as [|h r IH]; simpl; intros Hnd; [constructor|].
  inversion Hnd as [|? ? Hn Hr]; subst. rewrite map_app. apply NoDup_app_intro; [apply (i2_dist _ _ I)|now apply IH|].
  intros k Hk Hk2. apply in_map_iff in Hk, Hk2. destruct Hk as [u1 [E1 H1]]. destruct Hk2 as [u2 [E2 H2]].
  apply in_flat_map in H2. destruct H2 as [h2 [Hh2 H2]].
  destruct (inv2_height_of_key _ _ _ _ _ _ _ _ I H1 H2) as [Eh _]; [congruence|]. subst h2. contradiction.
Qed.

(* ---- the theorems *)
Theorem addr_index_refines_ledger mat st h : Inv2 st ->
  let '(s, c) := history_run cfg_fixed mat st h in
  (forall a ht u, In u (s_addr s a ht) <-> owns c a ht u) /\
  (forall a hs, NoDup hs -> udistinct (q_utxos s a hs)) /\
  (forall a hs u, In u (q_utxos s a hs) <-> exists ht, In ht hs /\ owns c a ht u).
Proof.
  intros H. pose proof (history_inv2 mat h st H) as [I _].
  destruct (history_run cfg_fixed mat st h) as [s c]. simpl in I. split; [exact (i2_addr _ _ I)|]. split.
  - intros a hs Hnd. eapply q_utxos_distinct; eauto.
  - intros a hs u. rewrite q_utxos_in. split; intros [ht [Hh Hu]]; exists ht; (split; [exact Hh|]); now apply (i2_addr _ _ I).
Qed.

Theorem tx_lookup_height mat st h : Inv2 st ->
  let '(s, c) := history_run cfg_fixed mat st h in
  forall t ht, q_tx s t = Some ht <-> exists x, on_chain c t ht x.
Proof.
  intros H. pose proof (history_inv2 mat h st H) as [I _].
  destruct (history_run cfg_fixed mat st h) as [s c]. simpl in I. intros t ht. unfold q_tx. split.
  - destruct (s_txidx s t) as [[h0 x]|] eqn:E; simpl; [|discriminate]. intros E2. inversion E2; subst. exists x. now apply (i2_tx _ _ I).
  - intros [x Hoc]. apply (i2_tx _ _ I) in Hoc. now rewrite Hoc.
Qed.
