(* C35 proofs about model/C35_Framing.v: generic in the checksum hash, the
   command table and the decoder verdict. *)
From Coq Require Import NArith ZArith List Bool Lia.
From ELA Require Import model.C35_Framing.
Import ListNotations.
Local Open Scope N_scope.


Definition bytes (l : list N) : Prop := Forall (fun b => b < 256) l.

(* ------------------------------------------------------------------ lists *)

Lemma list_eqb_eq a b : list_eqb a b = true <-> a = b.
Proof.
  revert b; induction a as [|x a IH]; intros [|y b]; simpl; split; intros H; try congruence; try discriminate.
  - apply andb_true_iff in H as [H1 H2]. apply N.eqb_eq in H1. apply IH in H2. congruence.
  - injection H as -> ->. rewrite N.eqb_refl. apply IH. reflexivity.
Qed.

Lemma list_eqb_neq a b : a <> b -> list_eqb a b = false.
Proof.
  intros H. destruct (list_eqb a b) eqn:E; [|reflexivity]. apply list_eqb_eq in E. contradiction.
Qed.

Lemma firstn_app_exact {A} (a b : list A) n : length a = n -> firstn n (a ++ b) = a.
Proof. intros <-. rewrite firstn_app, Nat.sub_diag, firstn_all. simpl. apply app_nil_r. Qed.

Lemma skipn_app_exact {A} (a b : list A) n : length a = n -> skipn n (a ++ b) = b.
Proof. intros <-. rewrite skipn_app, Nat.sub_diag, skipn_all. reflexivity. Qed.

Lemma skipn_add {A} (l : list A) a b : skipn a (skipn b l) = skipn (b + a) l.
Proof.
  revert l; induction b as [|b IH]; intros l; [reflexivity|].
  destruct l; [rewrite !skipn_nil; reflexivity|]. simpl. apply IH.
Qed.

Lemma to_nat_blen p : N.to_nat (blen p) = length p.
Proof. unfold blen. apply Nat2N.id. Qed.

Lemma blen_app a b : blen (a ++ b) = blen a + blen b.
Proof. unfold blen. rewrite app_length. lia. Qed.

(* ------------------------------------------------------------------ uint32 codec *)

Lemma ser32_length x : length (ser32 x) = 4%nat.
Proof. reflexivity. Qed.

Lemma div_steps x :
  x / 65536 = x / 256 / 256 /\ x / 16777216 = x / 256 / 256 / 256.
Proof.
  split.
  - change 65536 with (256 * 256). rewrite N.div_div by discriminate. reflexivity.
  - change 16777216 with (256 * 256 * 256). rewrite !N.div_div by discriminate. reflexivity.
Qed.

Lemma euclid x : x = 256 * (x / 256) + x mod 256 /\ x mod 256 < 256.
Proof. split; [apply N.div_mod; discriminate|apply N.mod_lt; discriminate]. Qed.

Lemma le32_ser32 x : x < 4294967296 -> le32 (ser32 x) = x.
Proof.
  intros Hx. unfold le32, ser32. destruct (div_steps x) as [-> ->].
  set (q1 := x / 256). set (q2 := q1 / 256). set (q3 := q2 / 256).
  destruct (euclid x) as [E0 B0]. destruct (euclid q1) as [E1 B1].
  destruct (euclid q2) as [E2 B2]. destruct (euclid q3) as [E3 B3].
  fold q1 in E0. fold q2 in E1. fold q3 in E2.
  assert (q3 / 256 = 0) as Z3.
  { apply N.div_small. unfold q3, q2, q1. rewrite !N.div_div by discriminate.
    apply N.div_lt_upper_bound; [discriminate|]. exact Hx. }
  rewrite Z3 in E3.
  generalize dependent (x mod 256). generalize dependent (q1 mod 256).
  generalize dependent (q2 mod 256). generalize dependent (q3 mod 256). intros. lia.
Qed.

Lemma ser32_le32 a : length a = 4%nat -> bytes a -> ser32 (le32 a) = a.
Proof.
  destruct a as [|b0 [|b1 [|b2 [|b3 [|? ?]]]]]; intros Hlen Hb; try discriminate Hlen.
  inversion Hb as [|? ? H0 Hb1]; subst. inversion Hb1 as [|? ? H1 Hb2]; subst.
  inversion Hb2 as [|? ? H2 Hb3]; subst. inversion Hb3 as [|? ? H3 _]; subst.
  unfold ser32, le32. set (x := b0 + 256 * b1 + 65536 * b2 + 16777216 * b3).
  destruct (div_steps x) as [-> ->].
  assert (D1 : x / 256 = b1 + 256 * b2 + 65536 * b3).
  { symmetry. apply (N.div_unique x 256 _ b0); [exact H0|unfold x; lia]. }
  assert (M0 : x mod 256 = b0).
  { symmetry. apply (N.mod_unique x 256 (b1 + 256 * b2 + 65536 * b3) b0); [exact H0|unfold x; lia]. }
  rewrite D1, M0. set (y := b1 + 256 * b2 + 65536 * b3).
  assert (D2 : y / 256 = b2 + 256 * b3).
  { symmetry. apply (N.div_unique y 256 _ b1); [exact H1|unfold y; lia]. }
  assert (M1 : y mod 256 = b1).
  { symmetry. apply (N.mod_unique y 256 (b2 + 256 * b3) b1); [exact H1|unfold y; lia]. }
  rewrite D2, M1. set (z := b2 + 256 * b3).
  assert (D3 : z / 256 = b3).
  { symmetry. apply (N.div_unique z 256 _ b2); [exact H2|unfold z; lia]. }
  assert (M2 : z mod 256 = b2).
  { symmetry. apply (N.mod_unique z 256 b3 b2); [exact H2|unfold z; lia]. }
  rewrite D3, M2. rewrite (N.mod_small b3 256 H3). reflexivity.
Qed.

Lemma ser32_inj x y : x < 4294967296 -> y < 4294967296 -> ser32 x = ser32 y -> x = y.
Proof. intros Hx Hy E. rewrite <- (le32_ser32 x Hx), <- (le32_ser32 y Hy), E. reflexivity. Qed.

Lemma ser32_bytes x : bytes (ser32 x).
Proof.
  unfold bytes, ser32.
  repeat (apply Forall_cons; [apply N.mod_lt; discriminate|]). apply Forall_nil.
Qed.

(* ------------------------------------------------------------------ command field *)

Lemma trim_right_zeros k : trim_right (repeat 0 k) = [].
Proof. induction k; simpl; [reflexivity|]. rewrite IHk. reflexivity. Qed.

Definition no_nul (c : list N) : Prop := Forall (fun b => b <> 0) c.

Lemma trim_right_pad c k : no_nul c -> trim_right (c ++ repeat 0 k) = c.
Proof.
  induction 1 as [|x c Hx Hc IH]; simpl; [apply trim_right_zeros|].
  rewrite IH. destruct c; [|reflexivity].
  destruct (N.eqb_spec x 0); [contradiction|reflexivity].
Qed.

Lemma pad_cmd_length c : (length c <= 12)%nat -> length (pad_cmd c) = 12%nat.
Proof. intros H. unfold pad_cmd. rewrite app_length, repeat_length. lia. Qed.

Lemma has_nul_pad c : (length c < 12)%nat -> has_nul (pad_cmd c) = true.
Proof.
  intros H. unfold has_nul, pad_cmd. rewrite existsb_app.
  destruct (12 - length c)%nat eqn:E; [lia|]. simpl. apply orb_true_r.
Qed.

(* every field is its trimmed content followed by zeros *)
Lemma trim_right_length l : (length (trim_right l) <= length l)%nat.
Proof.
  induction l as [|x r IH]; simpl; [lia|].
  destruct (trim_right r); [destruct (x =? 0); simpl; lia|simpl in *; lia].
Qed.

Lemma trim_right_spec l : l = trim_right l ++ repeat 0 (length l - length (trim_right l))%nat.
Proof.
  induction l as [|x r IH]; [reflexivity|].
  pose proof (trim_right_length r) as Hl.
  cbn [trim_right]. destruct (trim_right r) as [|t ts] eqn:E.
  - cbn [app length] in IH. rewrite Nat.sub_0_r in IH.
    destruct (N.eqb_spec x 0) as [->|ne]; cbn [app length repeat].
    + rewrite Nat.sub_0_r. cbn [repeat]. f_equal. exact IH.
    + replace (S (length r) - 1)%nat with (length r) by lia. f_equal. exact IH.
  - cbn [app length] in *. f_equal.
    replace (S (length r) - S (S (length ts)))%nat with (length r - S (length ts))%nat by lia.
    exact IH.
Qed.

Lemma pad_trim raw : length raw = 12%nat -> pad_cmd (trim_right raw) = raw.
Proof.
  intros H. unfold pad_cmd. rewrite <- H. symmetry. apply trim_right_spec.
Qed.

Section Generic.
Variable H : list N -> list N.
Variable tbl : list N -> option N.
Variable decodes : list N -> list N -> bool.
Hypothesis H_len : forall x, (4 <= length (H x))%nat.

Notation cks4 := (cks4 H).
Notation frame := (frame H).
Notation read_message := (read_message H tbl decodes).
Notation write_message := (write_message H).

Lemma cks4_length p : length (cks4 p) = 4%nat.
Proof. unfold C35_Framing.cks4. rewrite firstn_length. pose proof (H_len p). lia. Qed.

(* ReadMessage after the 24 header bytes have been split into fields *)
Definition read_fields (magic : N) (a raw l k body : list N) : result :=
  if negb (has_nul raw) then RErr EInvalidHeader 0 24 else
  if negb (le32 a =? magic) then RErr EUnmatchedMagic 0 24 else
  match tbl (trim_right raw) with
  | None => RErr EUnknown 0 24
  | Some mx =>
      if mx <? le32 l then RErr ESizeExceeded 0 24 else
      if blen body <? le32 l then RErr EShort (le32 l) (24 + blen body) else
      let p := firstn (N.to_nat (le32 l)) body in
      if negb (list_eqb k (cks4 p)) then RErr EInvalidPayload (le32 l) (24 + le32 l) else
      if negb (decodes (trim_right raw) p) then RErr EDecode (le32 l) (24 + le32 l) else
      ROk (trim_right raw) p (skipn (N.to_nat (le32 l)) body) (le32 l)
  end.

Lemma read_message_fields magic a raw l k body :
  length a = 4%nat -> length raw = 12%nat -> length l = 4%nat -> length k = 4%nat ->
  read_message magic (a ++ raw ++ l ++ k ++ body) = read_fields magic a raw l k body.
Proof.
  intros Ha Hr Hl Hk. unfold C35_Framing.read_message, read_fields.
  assert (Hs : a ++ raw ++ l ++ k ++ body = (a ++ raw ++ l ++ k) ++ body)
    by (rewrite <- !app_assoc; reflexivity).
  assert (Hh : length (a ++ raw ++ l ++ k) = 24%nat) by (rewrite !app_length; lia).
  rewrite Hs. rewrite blen_app. unfold blen at 1. rewrite Hh.
  destruct (N.ltb_spec (N.of_nat 24 + blen body) 24) as [Hlt|_]; [lia|].
  rewrite (firstn_app_exact _ body 24 Hh), (skipn_app_exact _ body 24 Hh).
  rewrite (firstn_app_exact a _ 4 Ha), (skipn_app_exact a _ 4 Ha).
  rewrite (firstn_app_exact raw _ 12 Hr).
  replace (a ++ raw ++ l ++ k) with ((a ++ raw) ++ l ++ k) by (rewrite <- app_assoc; reflexivity).
  rewrite (skipn_app_exact (a ++ raw) _ 16) by (rewrite app_length; lia).
  rewrite (firstn_app_exact l _ 4 Hl).
  replace ((a ++ raw) ++ l ++ k) with ((a ++ raw ++ l) ++ k) by (rewrite <- !app_assoc; reflexivity).
  rewrite (skipn_app_exact (a ++ raw ++ l) _ 20) by (rewrite !app_length; lia).
  reflexivity.
Qed.

(* any connection holding at least 24 bytes splits into the fields *)
Lemma split_fields s :
  24 <= blen s ->
  exists a raw l k body, s = a ++ raw ++ l ++ k ++ body /\
    length a = 4%nat /\ length raw = 12%nat /\ length l = 4%nat /\ length k = 4%nat.
Proof.
  intros Hs. unfold blen in Hs.
  exists (firstn 4 s), (firstn 12 (skipn 4 s)), (firstn 4 (skipn 16 s)), (firstn 4 (skipn 20 s)), (skipn 24 s).
  split.
  - rewrite <- (firstn_skipn 4 s) at 1. f_equal.
    rewrite <- (firstn_skipn 12 (skipn 4 s)) at 1. f_equal.
    rewrite (skipn_add s 12 4). change (4 + 12)%nat with 16%nat.
    rewrite <- (firstn_skipn 4 (skipn 16 s)) at 1. f_equal.
    rewrite (skipn_add s 4 16). change (16 + 4)%nat with 20%nat.
    rewrite <- (firstn_skipn 4 (skipn 20 s)) at 1. f_equal.
    rewrite (skipn_add s 4 20). reflexivity.
  - rewrite !firstn_length, !skipn_length. lia.
Qed.

(* ------------------------------------------------------------------ round trip *)

Definition valid_cmd (c : list N) : Prop := no_nul c /\ (length c < 12)%nat.

Lemma read_frame magic cmd p rest mx :
  magic < 4294967296 -> valid_cmd cmd -> tbl cmd = Some mx -> blen p <= mx ->
  blen p < 4294967296 -> decodes cmd p = true ->
  read_message magic (frame magic cmd p ++ rest) = ROk cmd p rest (blen p).
Proof.
  intros Hm [Hn Hc] Ht Hle Hp Hd. unfold C35_Framing.frame.
  rewrite <- !app_assoc.
  rewrite read_message_fields;
    [|apply ser32_length|apply pad_cmd_length; lia|apply ser32_length|apply cks4_length].
  unfold read_fields. rewrite has_nul_pad by exact Hc. cbn [negb].
  rewrite !le32_ser32 by assumption. rewrite N.eqb_refl. cbn [negb].
  unfold pad_cmd. rewrite trim_right_pad by exact Hn. rewrite Ht.
  destruct (N.ltb_spec mx (blen p)) as [?|_]; [lia|].
  rewrite blen_app. destruct (N.ltb_spec (blen p + blen rest) (blen p)) as [?|_]; [lia|].
  rewrite !to_nat_blen.
  rewrite (firstn_app_exact p rest _ eq_refl), (skipn_app_exact p rest _ eq_refl).
  assert (list_eqb (cks4 p) (cks4 p) = true) as -> by (apply list_eqb_eq; reflexivity).
  rewrite Hd. reflexivity.
Qed.

Lemma read_write_roundtrip magic cmd p rest mx :
  magic < 4294967296 -> valid_cmd cmd -> tbl cmd = Some mx -> blen p <= mx ->
  blen p <= max_message_payload -> decodes cmd p = true ->
  exists w, write_message magic cmd p = Some w /\
            read_message magic (w ++ rest) = ROk cmd p rest (blen p).
Proof.
  intros Hm Hc Ht Hle Hp Hd. exists (frame magic cmd p). split.
  - unfold C35_Framing.write_message. destruct (N.ltb_spec max_message_payload (blen p)); [lia|reflexivity].
  - apply (read_frame magic cmd p rest mx); auto. unfold max_message_payload in Hp. lia.
Qed.

(* ------------------------------------------------------------------ soundness of acceptance *)

Lemma read_fields_ok magic a raw l k body c p r al :
  read_fields magic a raw l k body = ROk c p r al ->
  has_nul raw = true /\ le32 a = magic /\ c = trim_right raw /\
  (exists mx, tbl c = Some mx /\ le32 l <= mx) /\
  le32 l <= blen body /\ p = firstn (N.to_nat (le32 l)) body /\
  r = skipn (N.to_nat (le32 l)) body /\ k = cks4 p /\ decodes c p = true /\ al = le32 l.
Proof.
  unfold read_fields.
  destruct (has_nul raw); cbn [negb]; [|discriminate].
  destruct (N.eqb_spec (le32 a) magic) as [Hm|]; cbn [negb]; [|discriminate].
  destruct (tbl (trim_right raw)) as [mx|] eqn:Ht; [|discriminate].
  destruct (N.ltb_spec mx (le32 l)); [discriminate|].
  destruct (N.ltb_spec (blen body) (le32 l)); [discriminate|].
  destruct (list_eqb k _) eqn:Ek; cbn [negb]; [|discriminate].
  destruct (decodes _ _) eqn:Ed; cbn [negb]; [|discriminate].
  intros E. injection E as <- <- <- <-. apply list_eqb_eq in Ek.
  repeat split; auto. exists mx. split; auto.
Qed.

Lemma read_sound magic s c p r al :
  bytes s -> read_message magic s = ROk c p r al ->
  s = frame magic c p ++ r /\ al = blen p /\
  (exists mx, tbl c = Some mx /\ blen p <= mx) /\ decodes c p = true.
Proof.
  intros Hb Hr.
  destruct (N.ltb_spec (blen s) 24) as [Hlt|Hge].
  { unfold C35_Framing.read_message in Hr. destruct (N.ltb_spec (blen s) 24); [discriminate|lia]. }
  destruct (split_fields s Hge) as (a & raw & l & k & body & -> & Ha & Hraw & Hl & Hk).
  rewrite read_message_fields in Hr by assumption.
  apply read_fields_ok in Hr as (Hn & Hm & -> & (mx & Ht & Hmx) & Hlen & -> & -> & -> & Hd & ->).
  unfold bytes in Hb. rewrite !Forall_app in Hb. destruct Hb as (Ba & _ & Bl & _ & _).
  set (n := N.to_nat (le32 l)) in *.
  assert (Hpl : blen (firstn n body) = le32 l).
  { unfold blen. rewrite firstn_length. unfold blen in Hlen. lia. }
  split; [|split; [|split]].
  - unfold C35_Framing.frame. rewrite <- !app_assoc. rewrite Hpl.
    rewrite <- Hm, (ser32_le32 a Ha Ba), (ser32_le32 l Hl Bl), (pad_trim raw Hraw).
    rewrite firstn_skipn. reflexivity.
  - symmetry. exact Hpl.
  - exists mx. rewrite Hpl. auto.
  - exact Hd.
Qed.

(* ------------------------------------------------------------------ rejections *)

Definition rejected (r : result) : Prop := exists e al n, r = RErr e al n.
Definition rejected0 (r : result) : Prop := exists e n, r = RErr e 0 n.   (* nothing allocated *)

Lemma short_header magic s : blen s < 24 -> read_message magic s = RErr EShort 0 (blen s).
Proof. intros Hs. unfold C35_Framing.read_message. destruct (N.ltb_spec (blen s) 24); [reflexivity|lia]. Qed.

Lemma bad_magic magic a raw l k body :
  length a = 4%nat -> length raw = 12%nat -> length l = 4%nat -> length k = 4%nat ->
  le32 a <> magic ->
  read_message magic (a ++ raw ++ l ++ k ++ body) = RErr EUnmatchedMagic 0 24 \/
  read_message magic (a ++ raw ++ l ++ k ++ body) = RErr EInvalidHeader 0 24.
Proof.
  intros Ha Hr Hl Hk Hm. rewrite read_message_fields by assumption. unfold read_fields.
  destruct (has_nul raw); cbn [negb]; [|auto].
  destruct (N.eqb_spec (le32 a) magic); [contradiction|auto].
Qed.

Lemma bad_magic_frame magic m' cmd p rest :
  m' < 4294967296 -> m' <> magic -> valid_cmd cmd ->
  read_message magic (frame m' cmd p ++ rest) = RErr EUnmatchedMagic 0 24.
Proof.
  intros Hm Hne [Hn Hc]. unfold C35_Framing.frame. rewrite <- !app_assoc.
  rewrite read_message_fields;
    [|apply ser32_length|apply pad_cmd_length; lia|apply ser32_length|apply cks4_length].
  unfold read_fields. rewrite has_nul_pad by exact Hc. cbn [negb].
  rewrite le32_ser32 by exact Hm. destruct (N.eqb_spec m' magic); [contradiction|reflexivity].
Qed.

Lemma bad_command magic a raw l k body :
  length a = 4%nat -> length raw = 12%nat -> length l = 4%nat -> length k = 4%nat ->
  has_nul raw = false \/ tbl (trim_right raw) = None ->
  rejected0 (read_message magic (a ++ raw ++ l ++ k ++ body)).
Proof.
  intros Ha Hr Hl Hk Hc. rewrite read_message_fields by assumption. unfold read_fields, rejected0.
  destruct (has_nul raw) eqn:En; cbn [negb]; [|eauto].
  destruct Hc as [Hc|Hc]; [discriminate|].
  destruct (negb _); [eauto|]. rewrite Hc. eauto.
Qed.

Lemma bad_length magic a raw l k body mx :
  length a = 4%nat -> length raw = 12%nat -> length l = 4%nat -> length k = 4%nat ->
  tbl (trim_right raw) = Some mx ->
  (mx < le32 l -> rejected0 (read_message magic (a ++ raw ++ l ++ k ++ body))) /\
  (blen body < le32 l -> exists e al n,
      read_message magic (a ++ raw ++ l ++ k ++ body) = RErr e al n /\ al <= mx).
Proof.
  intros Ha Hr Hl Hk Ht. rewrite read_message_fields by assumption. unfold read_fields, rejected0.
  split; intros Hlt.
  - destruct (negb (has_nul raw)); [eauto|]. destruct (negb _); [eauto|]. rewrite Ht.
    destruct (N.ltb_spec mx (le32 l)); [eauto|lia].
  - destruct (negb (has_nul raw)); [exists EInvalidHeader, 0, 24; split; [reflexivity|lia]|].
    destruct (negb _); [exists EUnmatchedMagic, 0, 24; split; [reflexivity|lia]|]. rewrite Ht.
    destruct (N.ltb_spec mx (le32 l)); [exists ESizeExceeded, 0, 24; split; [reflexivity|lia]|].
    destruct (N.ltb_spec (blen body) (le32 l)); [|lia].
    eexists _, _, _. split; [reflexivity|lia].
Qed.

Lemma bad_checksum magic a raw l k p rest :
  length a = 4%nat -> length raw = 12%nat -> length l = 4%nat -> length k = 4%nat ->
  le32 l = blen p -> k <> cks4 p ->
  rejected (read_message magic (a ++ raw ++ l ++ k ++ p ++ rest)).
Proof.
  intros Ha Hr Hl Hk Hlen Hne. rewrite read_message_fields by assumption. unfold read_fields, rejected.
  destruct (negb (has_nul raw)); [eauto|]. destruct (negb _); [eauto|].
  destruct (tbl _); [|eauto]. destruct (_ <? _); [eauto|]. destruct (_ <? _); [eauto|].
  rewrite Hlen, !to_nat_blen. rewrite (firstn_app_exact p rest _ eq_refl).
  rewrite (list_eqb_neq _ _ Hne). cbn [negb]. eauto.
Qed.

(* ------------------------------------------------------------------ single-field corruptions of a frame *)

(* the frame with each field replaced independently *)
Definition frame_with (a raw l k p : list N) : list N := a ++ raw ++ l ++ k ++ p.

Lemma frame_as_fields magic cmd p :
  frame magic cmd p = frame_with (ser32 magic) (pad_cmd cmd) (ser32 (blen p)) (cks4 p) p.
Proof. reflexivity. Qed.

(* payload corrupted (same length): rejected, or the 32-bit checksum collides *)
Lemma corrupt_payload magic cmd p p' rest :
  length p' = length p -> p' <> p -> blen p < 4294967296 -> (length cmd <= 12)%nat ->
  rejected (read_message magic (frame_with (ser32 magic) (pad_cmd cmd) (ser32 (blen p)) (cks4 p) p' ++ rest)) \/
  cks4 p' = cks4 p.
Proof.
  intros Hl Hne Hp Hc. unfold frame_with. rewrite <- !app_assoc.
  rewrite read_message_fields;
    [|apply ser32_length|apply pad_cmd_length; exact Hc|apply ser32_length|apply cks4_length].
  unfold read_fields, rejected.
  destruct (negb (has_nul _)); [eauto|]. destruct (negb _); [eauto|].
  destruct (tbl _); [|eauto]. destruct (_ <? _); [eauto|]. destruct (_ <? _); [eauto|].
  rewrite le32_ser32 by exact Hp.
  rewrite !to_nat_blen, <- Hl, (firstn_app_exact p' rest _ eq_refl).
  destruct (list_eqb (cks4 p) (cks4 p')) eqn:E; cbn [negb]; [|eauto].
  right. apply list_eqb_eq in E. auto.
Qed.

(* declared length corrupted: rejected, or a different payload with the same checksum is read *)
Lemma corrupt_length magic cmd p l' rest :
  length l' = 4%nat -> le32 l' <> blen p -> (length cmd <= 12)%nat ->
  rejected (read_message magic (frame_with (ser32 magic) (pad_cmd cmd) l' (cks4 p) p ++ rest)) \/
  exists p', p' <> p /\ cks4 p' = cks4 p.
Proof.
  intros Hl Hne Hc. unfold frame_with. rewrite <- !app_assoc.
  rewrite read_message_fields;
    [|apply ser32_length|apply pad_cmd_length; exact Hc|exact Hl|apply cks4_length].
  unfold read_fields, rejected.
  destruct (negb (has_nul _)); [eauto|]. destruct (negb _); [eauto|].
  destruct (tbl _); [|eauto]. destruct (_ <? _); [eauto|].
  destruct (N.ltb_spec (blen (p ++ rest)) (le32 l')) as [|Hge]; [eauto|].
  set (p' := firstn (N.to_nat (le32 l')) (p ++ rest)).
  destruct (list_eqb (cks4 p) (cks4 p')) eqn:E; cbn [negb]; [|eauto].
  right. exists p'. apply list_eqb_eq in E. split; [|auto].
  intros Heq. apply Hne. rewrite <- Heq. unfold p', blen. rewrite firstn_length.
  unfold blen in Hge. lia.
Qed.

(* checksum field corrupted: always rejected *)
Lemma corrupt_checksum magic cmd p k' rest :
  length k' = 4%nat -> k' <> cks4 p -> blen p < 4294967296 -> (length cmd <= 12)%nat ->
  rejected (read_message magic (frame_with (ser32 magic) (pad_cmd cmd) (ser32 (blen p)) k' p ++ rest)).
Proof.
  intros Hk Hne Hp Hc. unfold frame_with. rewrite <- !app_assoc.
  apply bad_checksum; auto using ser32_length, pad_cmd_length. apply le32_ser32, Hp.
Qed.

(* magic corrupted: always rejected, nothing allocated *)
Lemma corrupt_magic magic cmd p a' rest :
  length a' = 4%nat -> le32 a' <> magic -> (length cmd <= 12)%nat ->
  rejected0 (read_message magic (frame_with a' (pad_cmd cmd) (ser32 (blen p)) (cks4 p) p ++ rest)).
Proof.
  intros Ha Hne Hc. unfold frame_with. rewrite <- !app_assoc.
  destruct (bad_magic magic a' (pad_cmd cmd) (ser32 (blen p)) (cks4 p) (p ++ rest)) as [E|E];
    auto using ser32_length, pad_cmd_length, cks4_length; rewrite E; unfold rejected0; eauto.
Qed.

(* command field corrupted: rejected, or read as a DIFFERENT command of the
   table (the checksum does not cover the command) *)
Lemma corrupt_command magic cmd p raw' rest :
  length raw' = 12%nat -> raw' <> pad_cmd cmd -> blen p < 4294967296 ->
  rejected (read_message magic (frame_with (ser32 magic) raw' (ser32 (blen p)) (cks4 p) p ++ rest)) \/
  exists c' r al, read_message magic (frame_with (ser32 magic) raw' (ser32 (blen p)) (cks4 p) p ++ rest) = ROk c' p r al
                  /\ c' <> cmd /\ tbl c' <> None.
Proof.
  intros Hr Hne Hp. unfold frame_with. rewrite <- !app_assoc.
  rewrite read_message_fields; [|apply ser32_length|exact Hr|apply ser32_length|apply cks4_length].
  destruct (read_fields magic (ser32 magic) raw' (ser32 (blen p)) (cks4 p) (p ++ rest)) as [c pp r al|e al n] eqn:E;
    [|left; unfold rejected; eauto].
  right. apply read_fields_ok in E as (Hn & Hm & -> & (mx & Ht & Hmx) & Hlen & -> & -> & Hk & Hd & ->).
  rewrite le32_ser32 in * by exact Hp. rewrite !to_nat_blen.
  rewrite (firstn_app_exact p rest _ eq_refl). eexists _, _, _. split; [reflexivity|]. split.
  - intros Heq. apply Hne. rewrite <- Heq. symmetry. apply pad_trim, Hr.
  - congruence.
Qed.

(* ------------------------------------------------------------------ allocation *)

Lemma alloc_le_limit magic s :
  alloc_of (read_message magic s) = 0 \/
  exists raw mx, tbl (trim_right raw) = Some mx /\ alloc_of (read_message magic s) <= mx.
Proof.
  destruct (N.ltb_spec (blen s) 24) as [Hlt|Hge].
  { rewrite short_header by exact Hlt. left. reflexivity. }
  destruct (split_fields s Hge) as (a & raw & l & k & body & -> & Ha & Hraw & Hl & Hk).
  rewrite read_message_fields by assumption. unfold read_fields.
  destruct (negb (has_nul raw)); [left; reflexivity|].
  destruct (negb _); [left; reflexivity|].
  destruct (tbl (trim_right raw)) as [mx|] eqn:Ht; [|left; reflexivity].
  destruct (N.ltb_spec mx (le32 l)); [left; reflexivity|].
  right. exists raw, mx. split; [exact Ht|].
  destruct (_ <? _); [simpl; lia|]. destruct (negb _); [simpl; lia|]. destruct (negb _); simpl; lia.
Qed.

(* a reader that rejected for magic / command / oversize declared length allocated nothing *)
Lemma early_reject_no_alloc magic s e al n :
  read_message magic s = RErr e al n ->
  e = EInvalidHeader \/ e = EUnmatchedMagic \/ e = EUnknown \/ e = ESizeExceeded -> al = 0.
Proof.
  destruct (N.ltb_spec (blen s) 24) as [Hlt|Hge].
  { rewrite short_header by exact Hlt. intros E _. congruence. }
  destruct (split_fields s Hge) as (a & raw & l & k & body & -> & Ha & Hraw & Hl & Hk).
  rewrite read_message_fields by assumption. unfold read_fields.
  destruct (negb (has_nul raw)); [congruence|].
  destruct (negb _); [congruence|].
  destruct (tbl _); [|congruence].
  destruct (_ <? _); [congruence|].
  destruct (_ <? _); [intros E [X|[X|[X|X]]]; injection E as <- _ _; discriminate|].
  destruct (negb _); [intros E [X|[X|[X|X]]]; injection E as <- _ _; discriminate|].
  destruct (negb _); [intros E [X|[X|[X|X]]]; injection E as <- _ _; discriminate|discriminate].
Qed.

End Generic.

(* ------------------------------------------------------------------ concrete tables *)

Fixpoint table_max (t : list (String.string * N)) : N :=
  match t with [] => 0 | (_, mx) :: r => N.max mx (table_max r) end.

Lemma lookup_le_max t cmd mx : lookup t cmd = Some mx -> mx <= table_max t.
Proof.
  induction t as [|[c m] r IH]; simpl; [discriminate|].
  destruct (list_eqb _ _); intros E.
  - injection E as ->. lia.
  - apply IH in E. lia.
Qed.

Lemma alloc_bounded_table H t decodes magic s :
  alloc_of (read_message H (lookup t) decodes magic s) <= table_max t.
Proof.
  destruct (alloc_le_limit H (lookup t) decodes magic s) as [->|(raw & mx & Ht & Hle)]; [lia|].
  apply lookup_le_max in Ht. lia.
Qed.

Lemma alloc_bounded_real_tables H dec magic s :
  alloc_of (read_message H (lookup (table_main 8000000 1000000)) dec magic s) <= 18000000 /\
  alloc_of (read_message H (lookup (table_dpos 8000000 1000000)) dec magic s) <= 80000000.
Proof.
  split.
  - pose proof (alloc_bounded_table H (table_main 8000000 1000000) dec magic s) as B.
    assert (E : table_max (table_main 8000000 1000000) = 18000000) by (vm_compute; reflexivity).
    rewrite E in B. exact B.
  - pose proof (alloc_bounded_table H (table_dpos 8000000 1000000) dec magic s) as B.
    assert (E : table_max (table_dpos 8000000 1000000) = 80000000) by (vm_compute; reflexivity).
    rewrite E in B. exact B.
Qed.

(* ------------------------------------------------------------------ the refuted full statement *)
From ELA Require Import lib.Sha256.

Definition pp_payload : list N := [1;2;3;4;5;6;7;8].
Definition pp_pong_raw : list N := pad_cmd cmd_pong.

Lemma ping_read_as_pong : exists magic cmd p raw',
  length raw' = 12%nat /\ raw' <> pad_cmd cmd /\
  (exists i, forall j, j <> i -> nth j raw' 0 = nth j (pad_cmd cmd) 0) /\
  exists c', c' <> cmd /\
  read_message sha256d (lookup (table_main 8000000 1000000)) (fun _ _ => true) magic
    (frame_with (ser32 magic) raw' (ser32 (blen p)) (cks4 sha256d p) p) = ROk c' p [] (blen p).
Proof.
  exists 2017, cmd_ping, pp_payload, pp_pong_raw.
  split; [reflexivity|]. split; [vm_compute; discriminate|]. split.
  - exists 1%nat. intros j Hj.
    do 13 (destruct j as [|j]; [try reflexivity; contradiction|]). destruct j; reflexivity.
  - exists cmd_pong. split; [vm_compute; discriminate|]. vm_compute. reflexivity.
Qed.
