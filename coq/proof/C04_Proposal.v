(* C04: the typed CRCProposal record round-trips (every proposal type). *)
From Coq Require Import NArith List Bool Lia.
From ELA Require Import lib.GoSem lib.Bytes model.C02_Fmt model.C02_Descr model.C04_Codec model.C04_Payloads
  model.C04_Proposal proof.C02_Safe proof.C04_Roundtrip proof.C04_Tx proof.C04_Payloads.
Import ListNotations.
Local Open Scope N_scope.

(* the generic theorem with a per-value inverse hypothesis *)
Theorem typed_roundtrip_at : forall (A : Type) (f : fmt) (c : ctx) (to : A -> value) (of : value -> option A)
  (a : A) rest,
  wf_alloc f = true -> of (to a) = Some a -> wt f c (to a) = true ->
  lift of (decode f c (encode f c (to a) ++ rest)) = Ok (a, rest).
Proof.
  intros A f c to of a rest WF INV W.
  pose proof (roundtrip f WF c (to a) rest W) as R.
  destruct (decode f c (encode f c (to a) ++ rest)) as [r m]. simpl in R. subst r.
  unfold lift. rewrite INV. reflexivity.
Qed.

Lemma budget_inv : forall b, budget_of (budget_v b) = Some b.
Proof. destruct b as [[t s] a]. reflexivity. Qed.

Lemma proposal_inv : forall p, kind_ok p = true -> proposal_of (proposal_v p) = Some p.
Proof.
  intros [t c o h d b s i g] K. unfold kind_ok in K. cbn [p_type p_body p_draft_data] in K.
  apply andb_true_iff in K. destruct K as [K1 K2]. apply N.eqb_eq in K1.
  unfold proposal_of, proposal_v. cbn [p_type p_category p_owner p_draft_hash p_draft_data p_body p_signature p_cr_did p_cr_signature].
  rewrite K1.
  destruct b; cbn [kind_of_body app vseq vunseq]; rewrite ?optB_of_v.
  - rewrite (traverse_map _ _ budget_of budget_v _ budget_inv). reflexivity.
  - reflexivity.
  - reflexivity.
  - reflexivity.
  - destruct d; [discriminate|reflexivity].
  - reflexivity.
  - rewrite (traverse_map _ _ vb_of VB) by reflexivity. reflexivity.
  - rewrite (traverse_map _ _ vb_of VB) by reflexivity. reflexivity.
  - reflexivity.
Qed.

Theorem proposal_roundtrip : forall pv p rest, kind_ok p = true ->
  wt_payload 37 pv (proposal_v p) = true ->
  dec_payload 37 pv proposal_of (enc_payload 37 pv (proposal_v p) ++ rest) = Ok (p, rest).
Proof.
  intros pv p rest K W. unfold dec_payload, enc_payload.
  apply typed_roundtrip_at; [reflexivity|apply proposal_inv; exact K|exact W].
Qed.

(* non-vacuity: a ChangeProposalOwner proposal (payload version 1, with draft
   data, new recipient and new owner key) and one of every other shape *)
Definition h32 := repeat 7 32.
Definition h21 := repeat 5 21.
Definition sample_proposals : list (N * proposal) :=
  [(1, mkProposal 1025 [97] [2;1] h32 (Some [9;9]) (PChangeOwner h32 h21 [3;3] [4;4]) [5] h21 [6]);
   (0, mkProposal 0 [97] [2;1] h32 None (PNormal [(0, 1, 100); (2, 3, 5)] h21) [5] h21 [6]);
   (1, mkProposal 256 [] [] h32 (Some []) (PNormal [] h21) [] h21 []);
   (1, mkProposal 1026 [97] [2] h32 (Some [1]) (PClose h32) [5] h21 [6]);
   (0, mkProposal 1024 [97] [2] h32 None (PSecretary [8] h21 [7]) [5] h21 [6]);
   (1, mkProposal 513 [97] [2] h32 None (PUpgrade 1000 [49] [50] h32 1) [5] h21 [6]);
   (1, mkProposal 1040 [97] [2] h32 (Some [1]) (PRegisterSideChain [98] 7 h32 100 200 [99]) [5] h21 [6]);
   (1, mkProposal 1280 [97] [2] h32 (Some [1]) (PReserveID [[100]; [101; 102]]) [5] h21 [6]);
   (0, mkProposal 1281 [97] [2] h32 None (PReceiveID [[100]] h21) [5] h21 [6]);
   (1, mkProposal 1282 [97] [2] h32 (Some [1]) (PChangeFee 3 4) [5] h21 [6])].
Example proposal_samples :
  forallb (fun x => kind_ok (snd x) && wt_payload 37 (fst x) (proposal_v (snd x))) sample_proposals = true.
Proof. vm_compute. reflexivity. Qed.
