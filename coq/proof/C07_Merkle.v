(* C07 — proofs about the merkle-root / block-sanity model, for an arbitrary
   parent function H2 on an arbitrary hash type with decidable equality. *)
From Coq Require Import List Bool Arith Lia.
From ELA Require Import model.C07_Merkle.
Import ListNotations.

Section MerkleProofs.
  Variable hash : Type.
  Variable hash_eq_dec : forall a b : hash, {a = b} + {a <> b}.
  Variable H2 : hash -> hash -> hash.

  Notation level := (level hash H2).
  Notation root_fuel := (root_fuel hash H2).
  Notation merkle_root := (merkle_root hash H2).
  Notation collision := (collision hash H2).
  Notation leaf_is_node := (leaf_is_node hash H2).
  Notation tx := (tx hash).
  Notation check := (check_block_sanity_core hash hash_eq_dec H2).
  Notation accepted := (accepted hash hash_eq_dec H2).
  Notation anomaly := (anomaly hash H2).
  Notation single_mutation := (single_mutation hash).
  Notation has_dup := (has_dup hash hash_eq_dec).
  Notation mem := (mem hash hash_eq_dec).
  Notation hash_eqb := (hash_eqb hash hash_eq_dec).

  (* ---------- two-step list induction ---------- *)
  Lemma list_ind2 (P : list hash -> Prop) :
    P [] -> (forall a, P [a]) -> (forall a b r, P r -> P (a :: b :: r)) -> forall l, P l.
  Proof.
    intros H0 H1 H2'. fix IH 1. intros [|a [|b r]]; [exact H0|exact (H1 a)|exact (H2' a b r (IH r))].
  Qed.

  (* ---------- H2 injective or collision ---------- *)
  Lemma h2_inj a b c d : H2 a b = H2 c d -> (a = c /\ b = d) \/ collision.
  Proof.
    intros E. destruct (hash_eq_dec a c) as [->|N].
    - destruct (hash_eq_dec b d) as [->|N]; [left; auto|].
      right. exists c, b, c, d. split; [congruence|exact E].
    - right. exists a, b, c, d. split; [congruence|exact E].
  Qed.

  (* ---------- level ---------- *)
  Lemma level_length l : length (level l) = Nat.div2 (S (length l)).
  Proof.
    induction l using list_ind2; simpl in *; auto.
  Qed.

  Lemma level_nil l : level l = [] -> l = [].
  Proof. destruct l as [|a [|b r]]; simpl; congruence. Qed.

  Lemma in_level x l : In x (level l) -> exists c d, In c l /\ x = H2 c d.
  Proof.
    induction l using list_ind2; simpl; intros HI.
    - contradiction.
    - destruct HI as [<-|[]]. exists a, a. auto.
    - destruct HI as [<-|HI].
      + exists a, b. auto.
      + destruct (IHl HI) as (c & d & Hc & ->). exists c, d. auto.
  Qed.

  (* equal-length lists with equal next level are equal, or a collision is exhibited *)
  Lemma level_inj_len l : forall l', length l = length l' -> level l = level l' ->
    l = l' \/ collision.
  Proof.
    induction l using list_ind2; intros l' HL HE.
    - destruct l'; [auto|discriminate].
    - destruct l' as [|a' [|? ?]]; try discriminate. simpl in HE.
      injection HE as HE. destruct (h2_inj _ _ _ _ HE) as [[-> _]|C]; auto.
    - destruct l' as [|a' [|b' r']]; try discriminate. simpl in HE, HL.
      injection HE as HE HR.
      destruct (h2_inj _ _ _ _ HE) as [[-> ->]|C]; auto.
      destruct (IHl r' ltac:(lia) HR) as [->|C]; auto.
  Qed.

  (* duplicate-free lists (of any lengths) with equal next level are equal, or collision:
     the only length-changing coincidence, [..;a] vs [..;a;a], needs a duplicate *)
  Lemma level_inj_nodup l : forall l', NoDup l -> NoDup l' -> level l = level l' ->
    l = l' \/ collision.
  Proof.
    induction l using list_ind2; intros l' ND ND' HE.
    - symmetry in HE. apply level_nil in HE. auto.
    - destruct l' as [|a' [|b' r']]; simpl in HE; try discriminate.
      + injection HE as HE. destruct (h2_inj _ _ _ _ HE) as [[-> _]|C]; auto.
      + injection HE as HE HR. destruct (h2_inj _ _ _ _ HE) as [[-> <-]|C]; auto.
        exfalso. inversion ND' as [|? ? HN _]. apply HN. left; auto.
    - destruct l' as [|a' [|b' r']]; simpl in HE; try discriminate.
      + injection HE as HE HR. destruct (h2_inj _ _ _ _ HE) as [[-> ->]|C]; auto.
        exfalso. inversion ND as [|? ? HN _]. apply HN. left; auto.
      + injection HE as HE HR. destruct (h2_inj _ _ _ _ HE) as [[-> ->]|C]; auto.
        inversion ND as [|? ? _ ND1]. inversion ND1 as [|? ? _ ND2].
        inversion ND' as [|? ? _ ND1']. inversion ND1' as [|? ? _ ND2'].
        destruct (IHl r' ND2 ND2' HR) as [->|C]; auto.
  Qed.

  (* levelling preserves duplicate-freeness, or a collision is exhibited *)
  Lemma nodup_level l : NoDup l -> NoDup (level l) \/ collision.
  Proof.
    induction l using list_ind2; intros ND; simpl.
    - left; constructor.
    - left; constructor; [intros []|constructor].
    - inversion ND as [|? ? HNa ND1]. inversion ND1 as [|? ? HNb ND2]. subst.
      destruct (IHl ND2) as [NDl|C]; auto.
      destruct (in_dec hash_eq_dec (H2 a b) (level l)) as [HI|HNI].
      + destruct (in_level _ _ HI) as (c & d & Hc & E).
        destruct (h2_inj _ _ _ _ E) as [[-> ->]|C]; auto.
        exfalso. apply HNa. right; auto.
      + left. constructor; auto.
  Qed.

  (* ---------- depth-indexed root relation ---------- *)
  (* [root_at l k r]: [l] reaches the single node [r] after exactly [k] levellings *)
  Inductive root_at : list hash -> nat -> hash -> Prop :=
  | root_one a : root_at [a] 0 a
  | root_up l k r : 2 <= length l -> root_at (level l) k r -> root_at l (S k) r.

  Lemma root_fuel_at fuel : forall l r, root_fuel fuel l = Some r -> exists k, root_at l k r.
  Proof.
    induction fuel; intros l r HR.
    - destruct l as [|a [|b t]]; simpl in HR; try discriminate.
      injection HR as <-. exists 0. constructor.
    - destruct l as [|a [|b t]]; try discriminate.
      + simpl in HR. injection HR as <-. exists 0. constructor.
      + change (root_fuel fuel (level (a :: b :: t)) = Some r) in HR.
        destruct (IHfuel _ _ HR) as [k Hk]. exists (S k). constructor; [simpl; lia|exact Hk].
  Qed.

  Lemma merkle_root_at l r : merkle_root l = Some r -> exists k, root_at l k r.
  Proof. apply root_fuel_at. Qed.

  Lemma root_at_nonempty l k r : root_at l k r -> l <> [].
  Proof. intros H; inversion H; subst; intro; subst; simpl in *; try discriminate; lia. Qed.

  (* same depth, duplicate-free: equal or collision *)
  Lemma root_at_inj_nodup k : forall l l' r, root_at l k r -> root_at l' k r ->
    NoDup l -> NoDup l' -> l = l' \/ collision.
  Proof.
    induction k; intros l l' r HA HB ND ND'.
    - inversion HA; inversion HB; subst. auto.
    - inversion HA as [|? ? ? _ HA']; inversion HB as [|? ? ? _ HB']; subst.
      destruct (nodup_level _ ND) as [NL|C]; auto.
      destruct (nodup_level _ ND') as [NL'|C]; auto.
      destruct (IHk _ _ _ HA' HB' NL NL') as [E|C]; auto.
      apply level_inj_nodup; auto.
  Qed.

  (* same length (no duplicate-freeness needed): equal or collision *)
  Lemma root_at_inj_len k : forall k' l l' r, root_at l k r -> root_at l' k' r ->
    length l = length l' -> l = l' \/ collision.
  Proof.
    induction k; intros k' l l' r HA HB HL.
    - inversion HA; subst. inversion HB; subst; simpl in HL; [auto|lia].
    - inversion HA as [|? ? ? H2l HA']; subst. inversion HB as [|? ? ? _ HB']; subst.
      + simpl in HL. lia.
      + assert (HLL : length (level l) = length (level l')) by (rewrite !level_length; congruence).
        destruct (IHk _ _ _ _ HA' HB' HLL) as [E|C]; auto.
        apply level_inj_len; auto.
  Qed.

  (* peel [j] levels off a deeper tree *)
  Fixpoint iter_level (j : nat) (l : list hash) : list hash :=
    match j with O => l | S j' => iter_level j' (level l) end.

  Lemma root_at_iter j : forall l k r, root_at l (j + k) r -> root_at (iter_level j l) k r.
  Proof.
    induction j; intros l k r HA; simpl in *; auto.
    inversion HA; subst. apply IHj. assumption.
  Qed.

  Lemma nodup_iter j : forall l, NoDup l -> NoDup (iter_level j l) \/ collision.
  Proof.
    induction j; intros l ND; simpl; auto.
    destruct (nodup_level _ ND) as [N|C]; auto.
  Qed.

  Lemma iter_level_S j l : iter_level (S j) l = level (iter_level j l).
  Proof. revert l; induction j; intros l; simpl in *; auto. Qed.

  (* shallower tree vs deeper tree with the same root: collision, or the
     leaves of the shallow one are interior nodes of the deep one *)
  Lemma root_at_depth_lt k j l l' r : root_at l k r -> root_at l' (S j + k) r ->
    NoDup l -> NoDup l' -> collision \/ leaf_is_node l.
  Proof.
    intros HA HB ND ND'.
    apply root_at_iter in HB.
    destruct (nodup_iter (S j) _ ND') as [NI|C]; auto.
    destruct (root_at_inj_nodup _ _ _ _ HA HB ND NI) as [E|C]; auto.
    right. pose proof (root_at_nonempty _ _ _ HA) as NE.
    destruct l as [|x t]; [congruence|].
    assert (HI : In x (iter_level (S j) l')) by (rewrite <- E; left; auto).
    rewrite iter_level_S in HI. destruct (in_level _ _ HI) as (c & d & _ & Hx).
    exists x, c, d. split; [left; auto|exact Hx].
  Qed.

  (* ---------- the merkle root binds a duplicate-free list ---------- *)
  Theorem root_inj_nodup l l' r : NoDup l -> NoDup l' ->
    merkle_root l = Some r -> merkle_root l' = Some r ->
    l = l' \/ collision \/ leaf_is_node l \/ leaf_is_node l'.
  Proof.
    intros ND ND' HR HR'.
    destruct (merkle_root_at _ _ HR) as [k HA]. destruct (merkle_root_at _ _ HR') as [k' HB].
    destruct (lt_eq_lt_dec k k') as [[LT|EQ]|GT].
    - replace k' with (S (k' - k - 1) + k) in HB by lia.
      destruct (root_at_depth_lt _ _ _ _ _ HA HB ND ND') as [C|L]; auto.
    - subst. destruct (root_at_inj_nodup _ _ _ _ HA HB ND ND') as [E|C]; auto.
    - replace k with (S (k - k' - 1) + k') in HA by lia.
      destruct (root_at_depth_lt _ _ _ _ _ HB HA ND' ND) as [C|L]; auto.
  Qed.

  Lemma root_fuel_some f : forall l0, l0 <> [] -> length l0 <= S f -> root_fuel f l0 <> None.
  Proof.
    induction f; intros l0 NE HL.
    - destruct l0 as [|a [|b t]]; simpl in *; try congruence; lia.
    - destruct l0 as [|a [|b t]]; try congruence; [simpl; congruence|].
      change (root_fuel f (level (a :: b :: t)) <> None). apply IHf.
      + simpl; congruence.
      + rewrite level_length. simpl length in *.
        change (Nat.div2 (S (S (S (length t))))) with (S (Nat.div2 (S (length t)))).
        assert (Nat.div2 (S (length t)) <= f) by (apply Nat.div2_decr; lia). lia.
  Qed.

  (* the root of a non-empty list is defined *)
  Lemma merkle_root_some l : l <> [] -> exists r, merkle_root l = Some r.
  Proof.
    intros NE. destruct (merkle_root l) as [r|] eqn:E; [eauto|].
    exfalso. apply (root_fuel_some (length l) l NE); [lia|exact E].
  Qed.

  Theorem root_inj_same_length l l' : length l = length l' ->
    merkle_root l = merkle_root l' -> l = l' \/ collision.
  Proof.
    intros HL HR.
    destruct l as [|x t]; [destruct l'; [auto|discriminate]|].
    destruct (merkle_root_some (x :: t)) as [r E]; [congruence|].
    rewrite E in HR. symmetry in HR.
    destruct (merkle_root_at _ _ E) as [k HA]. destruct (merkle_root_at _ _ HR) as [k' HB].
    eapply root_at_inj_len; eauto.
  Qed.
  Lemma verdict_eq_dec (a b : verdict) : {a = b} + {a <> b}.
  Proof. decide equality. Qed.

  (* ---------- block level ---------- *)
  Lemma hash_eqb_true a b : hash_eqb a b = true <-> a = b.
  Proof. unfold C07_Merkle.hash_eqb. destruct (hash_eq_dec a b); split; congruence. Qed.

  Lemma mem_In x l : mem x l = true <-> In x l.
  Proof.
    induction l as [|y r IH]; simpl; [split; [discriminate|tauto]|].
    rewrite orb_true_iff, hash_eqb_true, IH. split; intros [?|?]; auto.
  Qed.

  Lemma has_dup_spec l : forall seen,
    has_dup seen l = false <-> (NoDup l /\ forall x, In x l -> ~ In x seen).
  Proof.
    induction l as [|x r IH]; intros seen; simpl.
    - split; [intros _; split; [constructor|tauto]|auto].
    - rewrite orb_false_iff, IH. split.
      + intros (HM & ND & HS). split.
        * constructor; auto. intros HI. apply (HS x HI). left; auto.
        * intros y [<-|HI].
          -- intros HI. apply mem_In in HI. congruence.
          -- intros HI'. apply (HS y HI). right; auto.
      + intros (ND & HS). inversion ND as [|? ? HN ND']; subst. repeat split; auto.
        * destruct (mem x seen) eqn:E; auto. apply mem_In in E. exfalso. apply (HS x); auto.
        * intros y HI [<-|HI']; [contradiction|]. apply (HS y); auto.
  Qed.

  (* What acceptance means: the first sentence of the property. *)
  Theorem accepted_iff r (l : list tx) :
    accepted r l <->
    exists t0 rest, l = t0 :: rest /\ tx_cb hash t0 = true /\
      (forall t, In t rest -> tx_cb hash t = false) /\
      NoDup (map (tx_id hash) l) /\ merkle_root (map (tx_id hash) l) = Some r.
  Proof.
    unfold C07_Merkle.accepted, C07_Merkle.check_block_sanity_core.
    destruct l as [|t0 rest].
    - split; [discriminate|intros (? & ? & ? & _); discriminate].
    - destruct (tx_cb hash t0) eqn:Ecb; simpl negb; cbv iota.
      2:{ split; [discriminate|]. intros (t & re & E & Hc & _). injection E as <- <-. congruence. }
      destruct (existsb (tx_cb hash) rest) eqn:Eex.
      { split; [discriminate|]. intros (t & re & E & _ & Hall & _). injection E as <- <-.
        apply existsb_exists in Eex. destruct Eex as (x & Hx & Hc). rewrite (Hall x Hx) in Hc. discriminate. }
      destruct (has_dup [] (map (tx_id hash) (t0 :: rest))) eqn:Edup.
      { split; [discriminate|]. intros (t & re & E & _ & _ & ND & _). 
        assert (has_dup [] (map (tx_id hash) (t0 :: rest)) = false) by (apply has_dup_spec; split; auto).
        congruence. }
      apply has_dup_spec in Edup. destruct Edup as [ND _].
      assert (Hall : forall t, In t rest -> tx_cb hash t = false).
      { intros t Ht. destruct (tx_cb hash t) eqn:E; auto.
        assert (existsb (tx_cb hash) rest = true) by (apply existsb_exists; eauto). congruence. }
      destruct (merkle_root (map (tx_id hash) (t0 :: rest))) as [r'|] eqn:ER.
      + destruct (hash_eqb r r') eqn:EQ.
        * apply hash_eqb_true in EQ. subst r'. split; [intros _|auto].
          exists t0, rest. repeat split; auto.
        * split; [discriminate|]. intros (_ & _ & _ & _ & _ & _ & HR). injection HR as ->.
          assert (hash_eqb r r = true) by (apply hash_eqb_true; auto). congruence.
      + split; [discriminate|]. intros (_ & _ & _ & _ & _ & _ & HR). discriminate.
  Qed.

  (* At most one transaction list is accepted under a given header root. *)
  Theorem accepted_unique r (l l' : list tx) :
    accepted r l -> accepted r l' -> l = l' \/ anomaly l l'.
  Proof.
    intros HA HB. apply accepted_iff in HA, HB.
    destruct HA as (t0 & rest & -> & Hc & Hall & ND & HR).
    destruct HB as (t0' & rest' & -> & Hc' & Hall' & ND' & HR').
    destruct (root_inj_nodup _ _ _ ND ND' HR HR') as [E|[C|[L|L]]];
      [|right; left; exact C|right; right; left; exact L|right; right; right; exact L].
    left. simpl in E. injection E as E0 ER.
    f_equal.
    - destruct t0, t0'; unfold tx_cb, tx_id in *; simpl in *; congruence.
    - clear -ER Hall Hall'. revert rest' ER Hall'. induction rest as [|a r IH]; intros [|a' r'] ER Hall'; try discriminate; auto.
      simpl in ER. injection ER as Ea Er. f_equal.
      + assert (tx_cb hash a = false) by (apply Hall; left; auto).
        assert (tx_cb hash a' = false) by (apply Hall'; left; auto).
        destruct a, a'; unfold tx_cb, tx_id in *; simpl in *; congruence.
      + apply IH; auto; intros; [apply Hall|apply Hall']; right; auto.
  Qed.

  Lemma accepted_nodup r (l : list tx) : accepted r l -> NoDup l.
  Proof.
    intros HA. apply accepted_iff in HA. destruct HA as (_ & _ & _ & _ & _ & ND & _).
    eapply NoDup_map_inv; eauto.
  Qed.

  (* Any single mutation of an accepted block is rejected, or an anomaly is exhibited. *)
  Theorem mutation_rejected r (l l' : list tx) :
    accepted r l -> single_mutation l l' -> ~ accepted r l' \/ anomaly l l'.
  Proof.
    intros HA HM.
    destruct (verdict_eq_dec (check r l') Accept) as [HB|HB]; [|left; exact HB].
    destruct (accepted_unique _ _ _ HA HB) as [E|A]; [|right; exact A].
    exfalso. pose proof (accepted_nodup _ _ HA) as ND.
    clear HA HB. destruct HM.
    - apply app_inv_head in E. congruence.
    - apply (f_equal (@length _)) in E. rewrite !app_length in E. simpl in E. lia.
    - apply app_inv_head in E. injection E as E _. subst u.
      apply NoDup_remove_2 in ND. apply ND. rewrite !in_app_iff. right. right. left. reflexivity.
    - apply (f_equal (@length _)) in E. rewrite !app_length in E. simpl in E. lia.
    - apply (f_equal (@length _)) in E. rewrite !app_length in E. simpl in E. lia.
  Qed.

  (* The CVE-2012-2459 shape on its own: appending a copy of the tail that
     leaves the merkle root unchanged is rejected by the duplicate check. *)
  Theorem duplicated_tail_rejected r (l : list tx) t :
    In t l -> check r (l ++ [t]) <> Accept.
  Proof.
    intros HI HA. apply accepted_nodup in HA.
    apply in_split in HI. destruct HI as (l1 & l2 & ->).
    rewrite <- app_assoc in HA. simpl in HA. apply NoDup_remove_2 in HA.
    apply HA. rewrite !in_app_iff. right. right. left. auto.
  Qed.
End MerkleProofs.
