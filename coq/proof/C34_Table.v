(* C34 — facts about the regenerated slot table (rebuilt on every run). *)
From Coq Require Import ZArith NArith Bool List String Permutation Lia.
From ELA Require Import model.C34_Pool proof.C34_FeeList proof.C34_Inv proof.C34_Hist
     proof.C34_Cover gen.C34_slots model.C34_Spec.
Import ListNotations.
Local Open Scope string_scope.
Local Open Scope Z_scope.

Lemma slots_cover : uncovered slots required = [].
Proof. vm_compute. reflexivity. Qed.

Lemma type_constants :
  [ty "CoinBase"; ty "TransferAsset"; ty "SideChainPow"; ty "CancelProducer"; ty "UpdateProducer";
   ty "UpdateVersion"; ty "NextTurnDPOSInfo"; ty "UnregisterCR"; ty "UpdateCR"; ty "CRCProposal";
   ty "CRCAppropriation"; ty "CRAssetsRectify"; ty "RecordSponsor"] =
  [ty_coinbase; ty_transfer; ty_scpow; ty_cancel_producer; ty_update_producer;
   ty_update_version; ty_next_turn; ty_unregister_cr; ty_update_cr; ty_proposal;
   ty_appropriation; ty_rectify; ty_record_sponsor]
  /\ existsb (N.eqb 999) (flat_map (fun r => snd r) required) = false.
Proof. split; vm_compute; reflexivity. Qed.

Lemma no_shared_resource rlt U :
  (forall a, rlt a a = false) ->
  (forall a b c, rlt a b = true -> rlt b c = true -> rlt a c = true) ->
  (forall a b c, rlt a b = false -> rlt b c = false -> rlt a c = false) ->
  (forall h, 0 < t_size (U h) < two32) ->
  forall m ops, 0 <= m < two63 -> admissible rlt U slots ops (empty_pool m) ->
  let p := run rlt U slots ops (empty_pool m) in
  forall a b, In a (p_txs p) -> In b (p_txs p) ->
  (forall name sname tys s k, In (name, sname, tys) required -> find_slot sname slots = Some s ->
     In (t_type (U a)) tys -> In (t_type (U b)) tys ->
     In (s, k) (t_keys (U a)) -> In (s, k) (t_keys (U b)) -> a = b) /\
  (forall o, In (t_type (U a)) (map snd txtypes) -> In (t_type (U b)) (map snd txtypes) ->
     In o (t_ins (U a)) -> In o (t_ins (U b)) -> a = b).
Proof.
  intros H1 H2 H3 Hs m ops Hm Hadm p a b Ha Hb.
  assert (Hc : consistent rlt U slots p).
  { apply (run_consistent rlt H1 H2 H3 U slots Hs); [apply empty_consistent; exact Hm|exact Hadm]. }
  split.
  - intros name sname tys s k Hr Hf Hta Htb Hka Hkb.
    pose proof (covered_in slots required _ slots_cover Hr) as Hcov.
    apply (no_shared_key rlt U slots p a b (s, k) Hc Ha Hb);
      eapply resource_key_effective; eassumption.
  - intros o Hta Htb Hoa Hob.
    assert (Hr : In ("outpoint", name_inputs, map snd txtypes) required) by (left; reflexivity).
    pose proof (covered_in slots required _ slots_cover Hr) as Hcov.
    destruct (inputs_slot slots) as [s|] eqn:Es; [|vm_compute in Es; discriminate].
    apply (no_shared_key rlt U slots p a b (s, o) Hc Ha Hb);
      eapply inputs_effective; eassumption.
Qed.

(* the example history of props/C34.v *)
Definition ex_U (h : N) : txinfo :=
  let nick := 6%N in
  match h with
  | 1%N => mkTx 9 200 1000 [1%N] [] [(0, 11); (2, 12); (nick, 13)]%N true None 0 0 0 [] 0
  | 2%N => mkTx 9 210 5000 [2%N] [] [(0, 21); (2, 22); (nick, 13)]%N true None 0 0 0 [] 0
  | 3%N => mkTx 2 150 3000 [1%N] [] [] true None 0 0 0 [] 0
  | 4%N => mkTx 9 220 2000 [4%N] [] [(0, 41); (2, 42); (nick, 43)]%N true None 0 0 0 [] 0
  | 5%N => mkTx 9 230 2000 [5%N] [] [(0, 51); (2, 52); (nick, 43)]%N true None 0 0 0 [] 0
  | _ => mkTx 2 100 100 [] [] [] true None 0 0 0 [] 0
  end.
Definition ex_ops : list op :=
  [OAppend 1 [] 0; OAppend 2 [] 0; OAppend 3 [] 0; OAppend 4 [] 0;
   OConnect [5%N] 0 [] [4%N] 0].

Lemma example_history :
  (forall h, 0 < t_size (ex_U h) < two32) /\ admissible rlt_q ex_U slots ex_ops (empty_pool 1000) /\
  p_txs (run rlt_q ex_U slots ex_ops (empty_pool 1000)) = [1%N] /\
  p_txs (run rlt_q ex_U slots (firstn 4 ex_ops) (empty_pool 1000)) = [1%N; 4%N] /\
  p_total (run rlt_q ex_U slots (firstn 4 ex_ops) (empty_pool 1000)) = 420.
Proof.
  split.
  { intros h. unfold ex_U, two32.
    destruct h as [|[[[|[]|]|[[]|[]|]|]|[[|[]|]|[]|]|]]; simpl; lia. }
  split.
  { unfold ex_ops. cbn [admissible op_ok].
    split; [exact I|]. split; [exact I|]. split; [exact I|]. split; [exact I|]. split; [|exact I].
    cbv zeta.
    match goal with |- forall x u, In x (p_txs ?q) -> _ =>
      let v := eval vm_compute in q in replace q with v by (vm_compute; reflexivity) end.
    intros x u Hx Hc. cbn [p_txs In] in Hx. destruct Hx as [<-|[<-|[]]].
    - intros k Hk. vm_compute in Hk. cbn [p_slots].
      repeat (destruct Hk as [<-|Hk]; [simpl; auto 10|]). destruct Hk.
    - unfold ctx in Hc. cbn in Hc. discriminate. }
  vm_compute. repeat split; reflexivity.
Qed.
