(* C28 — lemmas about the reduced model of deposit and vote-right bookkeeping. *)
From Coq Require Import ZArith List Bool Lia.
From ELA Require Import model.C28_Deposit.
Import ListNotations.
Local Open Scope Z_scope.

Definition B62 : Z := 4611686018427387904.   (* 2^62 *)

Arguments wrap64 : simpl never.
Arguments add64 : simpl never.
Arguments sub64 : simpl never.
Arguments sum64 : simpl never.
Arguments Z.mul : simpl never.
Arguments Z.add : simpl never.
Arguments Z.sub : simpl never.

Lemma wrap64_small : forall x, -9223372036854775808 <= x < 9223372036854775808 -> wrap64 x = x.
Proof. intros x H. unfold wrap64. rewrite Z.mod_small; lia. Qed.

(* exact sum *)
Definition lsum (l : list Z) : Z := fold_right Z.add 0 l.

Definition nonneg (l : list Z) : bool := forallb (fun x => 0 <=? x) l.

Lemma nonneg_cons : forall x l, nonneg (x :: l) = true -> 0 <= x /\ nonneg l = true.
Proof. unfold nonneg; simpl; intros x l H. apply andb_true_iff in H as [H1 H2]. apply Z.leb_le in H1. auto. Qed.

Lemma lsum_nonneg : forall l, nonneg l = true -> 0 <= lsum l.
Proof. induction l as [|x l IH]; simpl; intro H; [lia|]. apply nonneg_cons in H as [H1 H2]. specialize (IH H2). lia. Qed.

Lemma fold_add64_exact : forall l acc,
  nonneg l = true -> 0 <= acc -> acc + lsum l < 9223372036854775808 ->
  fold_left add64 l acc = acc + lsum l.
Proof.
  induction l as [|x l IH]; intros acc N A S; simpl in *; [lia|].
  apply nonneg_cons in N as [Hx N]. pose proof (lsum_nonneg l N).
  unfold add64 at 2. rewrite wrap64_small by lia. rewrite IH; auto; lia.
Qed.

Lemma sum64_single : forall x, sum64 [x] = wrap64 x.
Proof. intros x. unfold sum64. simpl. unfold add64. f_equal. Qed.

Lemma sum64_exact : forall l, nonneg l = true -> lsum l < 9223372036854775808 -> sum64 l = lsum l.
Proof. intros l N S. unfold sum64. rewrite fold_add64_exact; auto; lia. Qed.

(* ---------------------------------------------------------------- deposits *)

Definition avail_exact (a : acct) : Z := tot a - lock a - pen a.

Definition dinv (B : Z) (a : acct) : Prop :=
  0 <= lock a <= tot a /\ tot a <= B /\ 0 <= pen a <= B.

Lemma avail_is_exact : forall B a, dinv B a -> B < B62 -> avail a = avail_exact a.
Proof.
  unfold dinv, avail, avail_exact, sub64, B62; intros B a H Hb.
  rewrite (wrap64_small (tot a - lock a)) by lia. rewrite wrap64_small by lia. reflexivity.
Qed.

(* amounts of an operation are non-negative; an unlock releases at most the lock *)
Definition dop_ok (a : acct) (o : dop) : bool :=
  match o with
  | DDeposit x => 0 <=? x
  | DPenalty x => 0 <=? x
  | DUnlock d => (0 <=? d) && (d <=? lock a)
  | DReturn refs change outs => nonneg refs && nonneg change && nonneg outs
  end.

Definition dcost (o : dop) : Z :=
  match o with
  | DDeposit x => x
  | DPenalty x => x
  | DUnlock _ => 0
  | DReturn refs change outs => lsum refs + lsum change + lsum outs
  end.

Fixpoint dops_ok (a : acct) (ops : list dop) : bool :=
  match ops with [] => true | o :: r => dop_ok a o && dops_ok (dstep a o) r end.

Definition dcosts (ops : list dop) : Z := lsum (map dcost ops).

Lemma dcost_nonneg : forall a o, dop_ok a o = true -> 0 <= dcost o.
Proof.
  intros a [x|x|d|refs change outs]; simpl; intro H.
  - apply Z.leb_le in H; auto.
  - apply Z.leb_le in H; auto.
  - lia.
  - apply andb_true_iff in H as [H H3]. apply andb_true_iff in H as [H1 H2].
    pose proof (lsum_nonneg _ H1). pose proof (lsum_nonneg _ H2). pose proof (lsum_nonneg _ H3). lia.
Qed.

(* what an accepted return check means, in exact arithmetic *)
Lemma return_check_exact : forall B a refs change outs,
  dinv B a -> nonneg refs = true -> nonneg change = true -> nonneg outs = true ->
  B + (lsum refs + lsum change + lsum outs) < B62 ->
  return_check true refs change outs [Some a] = true ->
  lsum refs - lsum change <= avail_exact a /\ lsum outs < avail_exact a.
Proof.
  intros B a refs change outs I N1 N2 N3 Hb H.
  pose proof (lsum_nonneg _ N1). pose proof (lsum_nonneg _ N2). pose proof (lsum_nonneg _ N3).
  assert (B < B62) as Hb' by (destruct I as [? [? ?]]; lia).
  unfold return_check in H. simpl in H. rewrite sum64_single in H.
  rewrite (avail_is_exact B a I Hb') in H.
  unfold B62 in *. destruct I as [I1 [I2 I3]]. unfold avail_exact in *.
  rewrite (wrap64_small (tot a - lock a - pen a)) in H by lia.
  rewrite !sum64_exact in H by (auto; lia).
  unfold sub64 in H. rewrite wrap64_small in H by lia.
  apply negb_true_iff in H. apply orb_false_iff in H as [Hc1 Hc2].
  apply Z.ltb_ge in Hc1. apply Z.leb_gt in Hc2. lia.
Qed.

Lemma dstep_return_exact : forall B a refs change outs,
  dinv B a -> nonneg refs = true -> nonneg change = true -> nonneg outs = true ->
  B + (lsum refs + lsum change + lsum outs) < B62 ->
  return_check true refs change outs [Some a] = true ->
  dstep a (DReturn refs change outs) =
    {| tot := tot a - (lsum refs - lsum change); lock := lock a; pen := pen a |}.
Proof.
  intros B a refs change outs I N1 N2 N3 Hb H. simpl. rewrite H.
  pose proof (lsum_nonneg _ N1). pose proof (lsum_nonneg _ N2). pose proof (lsum_nonneg _ N3).
  destruct I as [I1 [I2 I3]]. unfold B62 in *.
  rewrite fold_add64_exact by (auto; lia). rewrite sum64_exact by (auto; lia).
  unfold sub64. rewrite wrap64_small by lia. f_equal. lia.
Qed.

Lemma dstep_inv : forall B a o,
  dinv B a -> dop_ok a o = true -> B + dcost o < B62 -> dinv (B + dcost o) (dstep a o).
Proof.
  intros B a o I OK Hb. pose proof (dcost_nonneg a o OK) as Hc.
  destruct o as [x|x|d|refs change outs].
  - simpl in *. apply Z.leb_le in OK. destruct I as [I1 [I2 I3]]. unfold dinv, add64, B62 in *; simpl.
    rewrite wrap64_small by lia. lia.
  - simpl in *. apply Z.leb_le in OK. destruct I as [I1 [I2 I3]]. unfold dinv, add64, B62 in *; simpl.
    rewrite wrap64_small by lia. lia.
  - simpl in *. apply andb_true_iff in OK as [O1 O2]. apply Z.leb_le in O1, O2.
    destruct I as [I1 [I2 I3]]. unfold dinv, sub64, B62 in *; simpl.
    rewrite wrap64_small by lia. lia.
  - simpl in OK. apply andb_true_iff in OK as [OK N3]. apply andb_true_iff in OK as [N1 N2].
    destruct (return_check true refs change outs [Some a]) eqn:RC.
    + rewrite (dstep_return_exact B a refs change outs I N1 N2 N3 Hb RC).
      apply (return_check_exact B a refs change outs I N1 N2 N3 Hb) in RC as [W _].
      pose proof (lsum_nonneg _ N1). pose proof (lsum_nonneg _ N2). pose proof (lsum_nonneg _ N3).
      destruct I as [I1 [I2 I3]]. unfold dinv, avail_exact, dcost in *; simpl in *. lia.
    + simpl. rewrite RC. destruct I as [I1 [I2 I3]]. unfold dinv, dcost in *. lia.
Qed.

Lemma drun_inv : forall ops B a,
  dinv B a -> dops_ok a ops = true -> B + dcosts ops < B62 ->
  dinv (B + dcosts ops) (drun a ops).
Proof.
  induction ops as [|o r IH]; intros B a I OK Hb; unfold drun, dcosts in *; simpl in *.
  - replace (B + 0) with B by lia. exact I.
  - apply andb_true_iff in OK as [O1 O2].
    assert (0 <= lsum (map dcost r)) as Hr.
    { clear - O2. revert O2. generalize (dstep a o). induction r as [|o' r IH]; intros a' H; simpl in *; [lia|].
      apply andb_true_iff in H as [H1 H2]. pose proof (dcost_nonneg _ _ H1). specialize (IH _ H2). lia. }
    pose proof (dcost_nonneg a o O1).
    replace (B + (dcost o + lsum (map dcost r))) with ((B + dcost o) + lsum (map dcost r)) by lia.
    apply IH; auto; [|lia]. apply dstep_inv; auto; lia.
Qed.

Lemma dops_ok_app : forall pre post a, dops_ok a (pre ++ post) = true ->
  dops_ok a pre = true /\ dops_ok (drun a pre) post = true.
Proof.
  induction pre as [|o r IH]; intros post a H; simpl in *; [auto|].
  apply andb_true_iff in H as [H1 H2]. apply IH in H2 as [H2 H3]. rewrite H1, H2. auto.
Qed.

Lemma dcosts_app : forall a b, dcosts (a ++ b) = dcosts a + dcosts b.
Proof. unfold dcosts; induction a as [|x a IH]; intros b; simpl; [lia|]. rewrite IH; lia. Qed.

Lemma dcosts_nonneg : forall ops a, dops_ok a ops = true -> 0 <= dcosts ops.
Proof.
  unfold dcosts; induction ops as [|o r IH]; intros a H; simpl in *; [lia|].
  apply andb_true_iff in H as [H1 H2]. pose proof (dcost_nonneg _ _ H1). specialize (IH _ H2). lia.
Qed.

(* T1 *)
Lemma locked_deposit_backed : forall a ops B,
  dinv B a -> dops_ok a ops = true -> B + dcosts ops < B62 ->
  0 <= lock (drun a ops) <= tot (drun a ops) /\ 0 <= pen (drun a ops).
Proof.
  intros a ops B I OK Hb. destruct (drun_inv ops B a I OK Hb) as [H1 [H2 H3]]. lia.
Qed.

(* T2 *)
Lemma withdrawn_le_available : forall a pre refs change outs B,
  dinv B a -> dops_ok a (pre ++ [DReturn refs change outs]) = true ->
  B + dcosts (pre ++ [DReturn refs change outs]) < B62 ->
  return_check true refs change outs [Some (drun a pre)] = true ->
  let a1 := drun a pre in
  let a2 := dstep a1 (DReturn refs change outs) in
  lsum refs - lsum change <= avail_exact a1 /\ lsum outs < avail_exact a1 /\
  tot a2 = tot a1 - (lsum refs - lsum change) /\ lock a2 = lock a1 /\ pen a2 = pen a1 /\
  0 <= avail_exact a2.
Proof.
  intros a pre refs change outs B I OK Hb RC a1 a2.
  apply dops_ok_app in OK as [OK1 OK2]. rewrite dcosts_app in Hb.
  pose proof (dcosts_nonneg _ _ OK1) as Hp.
  assert (dcosts [DReturn refs change outs] = lsum refs + lsum change + lsum outs) as Hc
    by (unfold dcosts; simpl; lia).
  rewrite Hc in Hb.
  simpl in OK2. rewrite andb_true_r in OK2. apply andb_true_iff in OK2 as [OK2 N3]. apply andb_true_iff in OK2 as [N1 N2].
  pose proof (lsum_nonneg _ N1). pose proof (lsum_nonneg _ N2). pose proof (lsum_nonneg _ N3).
  assert (dinv (B + dcosts pre) a1) as I1 by (apply drun_inv; auto; lia).
  assert (B + dcosts pre + (lsum refs + lsum change + lsum outs) < B62) as Hb1 by lia.
  destruct (return_check_exact _ _ _ _ _ I1 N1 N2 N3 Hb1 RC) as [W O].
  subst a2. rewrite (dstep_return_exact _ _ _ _ _ I1 N1 N2 N3 Hb1 RC).
  unfold avail_exact in *; simpl. repeat split; auto; lia.
Qed.

(* available amount stays non-negative under every operation but a penalty *)
Definition is_penalty (o : dop) : bool := match o with DPenalty _ => true | _ => false end.

Lemma available_nonneg_step : forall B a o,
  dinv B a -> dop_ok a o = true -> B + dcost o < B62 -> is_penalty o = false ->
  0 <= avail_exact a -> 0 <= avail_exact (dstep a o).
Proof.
  intros B a o I OK Hb NP A. destruct o as [x|x|d|refs change outs]; try discriminate.
  - simpl in *. apply Z.leb_le in OK. destruct I as [I1 [I2 I3]]. unfold avail_exact, add64, B62 in *; simpl.
    rewrite wrap64_small by lia. lia.
  - simpl in *. apply andb_true_iff in OK as [O1 O2]. apply Z.leb_le in O1, O2.
    destruct I as [I1 [I2 I3]]. unfold avail_exact, sub64, B62 in *; simpl.
    rewrite wrap64_small by lia. lia.
  - simpl in OK. apply andb_true_iff in OK as [OK N3]. apply andb_true_iff in OK as [N1 N2].
    destruct (return_check true refs change outs [Some a]) eqn:RC.
    + rewrite (dstep_return_exact B a refs change outs I N1 N2 N3 Hb RC).
      apply (return_check_exact B a refs change outs I N1 N2 N3 Hb) in RC as [W _].
      unfold avail_exact in *; simpl. lia.
    + simpl. rewrite RC. exact A.
Qed.

(* ---------------------------------------------------------------- vote rights *)

Definition vinv (B : Z) (s : stake) : Prop := 0 <= used2 s <= rights s /\ rights s <= B.

Definition vop_ok (s : stake) (o : vop) : bool :=
  match o with
  | VStake a => 0 <=? a
  | VVote _ => true
  | VExpire v => (0 <=? v) && (v <=? used2 s)
  | VReturn _ _ => true
  end.

Definition vcost (o : vop) : Z := match o with VStake a => a | _ => 0 end.

Fixpoint vops_ok (g : bool) (fee : Z) (s : stake) (ops : list vop) : bool :=
  match ops with [] => true | o :: r => vop_ok s o && vops_ok g fee (vstep g fee s o) r end.

Definition vcosts (ops : list vop) : Z := lsum (map vcost ops).

(* the guarded loop never lets the running total pass [vr], whatever the votes are *)
Lemma votes_fit_guarded : forall vs vr total,
  0 <= total <= vr -> vr < B62 -> forallb (fun v => 0 <? v) vs = true ->
  votes_fit true vr total vs = true ->
  fold_left add64 vs total = total + lsum vs /\ total + lsum vs <= vr.
Proof.
  induction vs as [|v r IH]; intros vr total T Hb P H; simpl in *.
  - lia.
  - apply andb_true_iff in P as [Pv P]. apply Z.ltb_lt in Pv.
    destruct (vr <? v) eqn:E1; simpl in H; [discriminate|]. apply Z.ltb_ge in E1.
    unfold B62 in *.
    unfold sub64 in H. rewrite wrap64_small in H by lia.
    destruct (vr - v <? total) eqn:E2; [discriminate|]. apply Z.ltb_ge in E2.
    unfold add64 at 1 in H. rewrite wrap64_small in H by lia.
    unfold add64 at 2. rewrite wrap64_small by lia.
    apply IH in H; auto; try lia.
Qed.

Lemma vstep_inv : forall fee B s o,
  0 <= fee -> vinv B s -> vop_ok s o = true -> B + vcost o < B62 ->
  vinv (B + vcost o) (vstep true fee s o).
Proof.
  intros fee B s o F [I1 I2] OK Hb. unfold B62 in *.
  destruct o as [a|vs|v|others value]; simpl in *.
  - apply Z.leb_le in OK. unfold vinv, add64; simpl. rewrite wrap64_small by lia. lia.
  - destruct (vote_check true true true s vs) eqn:VC; [|unfold vinv; lia].
    unfold vote_check in VC. simpl in VC. apply andb_true_iff in VC as [VC1 VC2].
    rewrite andb_true_r in VC1.
    unfold sub64 in VC2. rewrite wrap64_small in VC2 by lia.
    apply votes_fit_guarded in VC2 as [E L]; auto; try (unfold B62; lia).
    unfold vinv; simpl. unfold sum64. rewrite E.
    assert (0 <= lsum vs).
    { clear - VC1. induction vs as [|x vs IH]; simpl in *; [lia|].
      apply andb_true_iff in VC1 as [P1 P2]. apply Z.ltb_lt in P1. specialize (IH P2). lia. }
    unfold add64. rewrite wrap64_small by lia. lia.
  - apply andb_true_iff in OK as [O1 O2]. apply Z.leb_le in O1, O2.
    unfold vinv, sub64; simpl. rewrite wrap64_small by lia. lia.
  - destruct (retvotes_check fee s others value) eqn:RC; [|unfold vinv; lia].
    unfold retvotes_check in RC. apply andb_true_iff in RC as [R1 R2]. simpl in R2.
    apply andb_true_iff in R2 as [R2 _].
    apply negb_true_iff in R1, R2. apply Z.leb_gt in R1. apply Z.ltb_ge in R2.
    unfold sub64 in R2. rewrite wrap64_small in R2 by lia.
    unfold vinv, sub64; simpl. rewrite wrap64_small by lia. lia.
Qed.

Lemma vrun_inv : forall fee ops B s,
  0 <= fee -> vinv B s -> vops_ok true fee s ops = true -> B + vcosts ops < B62 ->
  vinv (B + vcosts ops) (vrun true fee s ops).
Proof.
  intros fee; induction ops as [|o r IH]; intros B s F I OK Hb; unfold vrun, vcosts in *; simpl in *.
  - replace (B + 0) with B by lia. exact I.
  - apply andb_true_iff in OK as [O1 O2].
    assert (0 <= lsum (map vcost r)) as Hr.
    { clear - O2. revert O2. generalize (vstep true fee s o). induction r as [|o' r IH]; intros s' H; simpl in *; [lia|].
      apply andb_true_iff in H as [H1 H2]. specialize (IH _ H2).
      destruct o'; simpl in *; lia. }
    assert (0 <= vcost o) by (destruct o; simpl in *; lia).
    replace (B + (vcost o + lsum (map vcost r))) with ((B + vcost o) + lsum (map vcost r)) by lia.
    apply IH; auto; [|lia]. apply vstep_inv; auto; lia.
Qed.

(* T4 *)
Lemma used_votes_le_rights : forall fee s ops B,
  0 <= fee -> vinv B s -> vops_ok true fee s ops = true -> B + vcosts ops < B62 ->
  0 <= used2 (vrun true fee s ops) <= rights (vrun true fee s ops).
Proof. intros fee s ops B F I OK Hb. destruct (vrun_inv fee ops B s F I OK Hb) as [H _]. exact H. Qed.

(* an accepted vote fits into the unused rights, in exact arithmetic, whatever the numbers *)
Lemma vote_check_exact : forall B s present wf vs,
  vinv B s -> B < B62 -> vote_check true present wf s vs = true ->
  lsum vs <= rights s - used2 s /\ Forall (fun v => 0 < v) vs.
Proof.
  intros B s present wf vs [I1 I2] Hb VC. unfold B62 in *.
  unfold vote_check in VC. apply andb_true_iff in VC as [VC VC2]. apply andb_true_iff in VC as [VC _].
  apply andb_true_iff in VC as [_ VC1].
  unfold sub64 in VC2. rewrite wrap64_small in VC2 by lia.
  apply votes_fit_guarded in VC2 as [_ L]; auto; try (unfold B62; lia).
  split; [lia|]. apply Forall_forall. intros v Hv. rewrite forallb_forall in VC1. apply VC1 in Hv. apply Z.ltb_lt in Hv; auto.
Qed.

(* T5 *)
Lemma returned_votes_le_unused : forall B fee s others value,
  vinv B s -> B < B62 -> 0 <= fee ->
  Forall (fun u => 0 <= u < B62) others ->
  retvotes_check fee s others value = true ->
  fee < value /\ value <= rights s - used2 s /\ Forall (fun u => value <= rights s - u) others.
Proof.
  intros B fee s others value [I1 I2] Hb F O RC. unfold B62 in *.
  unfold retvotes_check in RC. apply andb_true_iff in RC as [R1 R2].
  apply negb_true_iff in R1. apply Z.leb_gt in R1. simpl in R2. apply andb_true_iff in R2 as [R2 R3].
  apply negb_true_iff in R2. apply Z.ltb_ge in R2. unfold sub64 in R2. rewrite wrap64_small in R2 by lia.
  repeat split; auto.
  apply Forall_forall. intros u Hu. rewrite Forall_forall in O. specialize (O u Hu).
  rewrite forallb_forall in R3. apply R3 in Hu. apply negb_true_iff in Hu. apply Z.ltb_ge in Hu.
  unfold sub64 in Hu. rewrite wrap64_small in Hu by lia. exact Hu.
Qed.

(* ---------------------------------------------------------------- votes with lock times *)

Definition ids (l : list lvote) : list N := map v_id l.

Definition linv (B : Z) (s : vstate) : Prop :=
  NoDup (ids (vs_votes s)) /\ Forall (fun v => 0 < v_amt v) (vs_votes s) /\
  vs_used s = locked_sum (vs_votes s) /\ locked_sum (vs_votes s) <= vs_rights s /\ vs_rights s <= B.

(* a stake is non-negative, a new vote carries a fresh id *)
Definition btx_ok (s : vstate) (t : btx) : bool :=
  match t with
  | BStake a => 0 <=? a
  | BVote id _ _ => negb (existsb (fun v => N.eqb (v_id v) id) (vs_votes s))
  | _ => true
  end.

Definition bcost (b : Z * option btx) : Z :=
  match snd b with Some (BStake a) => a | _ => 0 end.

Fixpoint bops_ok (fee : Z) (s : vstate) (bs : list (Z * option btx)) : bool :=
  match bs with
  | [] => true
  | b :: r => (match snd b with Some t => btx_ok s t | None => true end) && bops_ok fee (bstep fee s b) r
  end.

Definition bcosts (bs : list (Z * option btx)) : Z := lsum (map bcost bs).

Lemma locked_sum_nonneg : forall l, Forall (fun v => 0 < v_amt v) l -> 0 <= locked_sum l.
Proof. induction l as [|v l IH]; simpl; intro H; [lia|]. inversion H; subst. specialize (IH H3). lia. Qed.

Lemma locked_sum_partition : forall p l,
  locked_sum l = locked_sum (filter p l) + locked_sum (filter (fun v => negb (p v)) l).
Proof. intros p; induction l as [|v l IH]; simpl; [lia|]. destruct (p v); simpl; lia. Qed.

Lemma Forall_filter_local : forall (A : Type) (P : A -> Prop) p l, Forall P l -> Forall P (filter p l).
Proof.
  intros A P p; induction l as [|v l IH]; simpl; intro H; [constructor|].
  inversion H; subst. destruct (p v); auto.
Qed.

Lemma ids_filter_incl : forall p l x, In x (ids (filter p l)) -> In x (ids l).
Proof.
  unfold ids; intros p l x H. apply in_map_iff in H as [v [E Hv]]. apply filter_In in Hv as [Hv _].
  apply in_map_iff; exists v; auto.
Qed.

Lemma NoDup_ids_filter : forall p l, NoDup (ids l) -> NoDup (ids (filter p l)).
Proof.
  intros p; induction l as [|v l IH]; simpl; intro H; [constructor|].
  inversion H; subst. destruct (p v); simpl; auto.
  constructor; auto. intro C. apply H2. eapply ids_filter_incl; eauto.
Qed.

Lemma fold_sub_exact : forall l u,
  Forall (fun v => 0 < v_amt v) l -> locked_sum l <= u -> u < B62 ->
  fold_left (fun u v => sub64 u (v_amt v)) l u = u - locked_sum l.
Proof.
  induction l as [|v l IH]; intros u F L Hb; simpl in *; [lia|].
  inversion F; subst. pose proof (locked_sum_nonneg l H2). unfold B62 in *.
  unfold sub64 at 2. rewrite wrap64_small by lia. rewrite IH; auto; unfold B62; lia.
Qed.

Lemma sweep_inv : forall B h marker s, B < B62 -> linv B s -> linv B (sweep h marker s).
Proof.
  intros B h marker s Hb [ND [F [U [L R]]]]. unfold linv, sweep; simpl.
  pose proof (locked_sum_partition (expires h marker) (vs_votes s)) as P.
  pose proof (locked_sum_nonneg _ (Forall_filter_local _ _ (expires h marker) _ F)) as G.
  pose proof (locked_sum_nonneg _ (Forall_filter_local _ _ (fun v => negb (expires h marker v)) _ F)) as K.
  repeat split.
  - apply NoDup_ids_filter; auto.
  - apply Forall_filter_local; auto.
  - rewrite fold_sub_exact; [lia | apply Forall_filter_local; auto | lia | lia].
  - lia.
  - lia.
Qed.

Lemma ids_map_relock : forall id nl l,
  ids (map (fun v => if N.eqb (v_id v) id then {| v_id := v_id v; v_amt := v_amt v; v_lock := nl |} else v) l) = ids l.
Proof. unfold ids; induction l as [|v l IH]; simpl; auto. rewrite IH. destruct (N.eqb (v_id v) id); reflexivity. Qed.

Lemma sum_map_relock : forall id nl l,
  locked_sum (map (fun v => if N.eqb (v_id v) id then {| v_id := v_id v; v_amt := v_amt v; v_lock := nl |} else v) l) = locked_sum l.
Proof. induction l as [|v l IH]; simpl; auto. rewrite IH. destruct (N.eqb (v_id v) id); reflexivity. Qed.

Lemma Forall_map_relock : forall id nl l, Forall (fun v => 0 < v_amt v) l ->
  Forall (fun v => 0 < v_amt v)
    (map (fun v => if N.eqb (v_id v) id then {| v_id := v_id v; v_amt := v_amt v; v_lock := nl |} else v) l).
Proof.
  induction l as [|v l IH]; simpl; intro H; constructor; inversion H; subst; auto.
  destruct (N.eqb (v_id v) id); simpl; auto.
Qed.

Lemma apply_btx_inv : forall fee h B s t,
  0 <= fee -> linv B s -> btx_ok s t = true -> B + bcost (h, Some t) < B62 ->
  linv (B + bcost (h, Some t)) (fst (apply_btx fee h s t)).
Proof.
  intros fee h B s t Fe [ND [F [U [L R]]]] OK Hb. pose proof (locked_sum_nonneg _ F) as NN.
  unfold B62 in *. destruct t as [a|id amt lock|id nl|others value]; unfold bcost in *; simpl in *.
  - apply Z.leb_le in OK. unfold linv; simpl. unfold add64. rewrite wrap64_small by lia. repeat split; auto; lia.
  - destruct (vote_check true true (h <? lock) (stake_of s) [amt]) eqn:VC; simpl; [|unfold linv; repeat split; auto; lia].
    assert (vinv B (stake_of s)) as VI by (unfold vinv, stake_of; simpl; lia).
    destruct (vote_check_exact B (stake_of s) true (h <? lock) [amt] VI ltac:(unfold B62; lia) VC) as [S P].
    simpl in S. inversion P; subst. unfold stake_of in S; simpl in S.
    unfold linv; simpl. unfold add64. rewrite wrap64_small by lia. repeat split; auto; try lia.
    constructor; auto. intro C. apply negb_true_iff in OK.
    assert (existsb (fun v => N.eqb (v_id v) id) (vs_votes s) = true) as E.
    { unfold ids in C. apply in_map_iff in C as [v [E Hv]]. apply existsb_exists. exists v; split; auto. apply N.eqb_eq; auto. }
    congruence.
  - destruct (existsb _ (vs_votes s)); simpl; [|unfold linv; repeat split; auto; lia].
    unfold linv; simpl. rewrite ids_map_relock, sum_map_relock. repeat split; auto; try lia.
    apply Forall_map_relock; auto.
  - destruct (retvotes_check fee (stake_of s) others value) eqn:RC; simpl; [|unfold linv; repeat split; auto; lia].
    unfold retvotes_check in RC. apply andb_true_iff in RC as [R1 R2]. simpl in R2. apply andb_true_iff in R2 as [R2 _].
    apply negb_true_iff in R1, R2. apply Z.leb_gt in R1. apply Z.ltb_ge in R2.
    unfold sub64 in R2. rewrite wrap64_small in R2 by lia.
    unfold linv; simpl. unfold sub64. rewrite wrap64_small by lia. repeat split; auto; lia.
Qed.

Lemma bstep_inv : forall fee B s b,
  0 <= fee -> linv B s -> (match snd b with Some t => btx_ok s t | None => true end) = true ->
  B + bcost b < B62 -> linv (B + bcost b) (bstep fee s b).
Proof.
  intros fee B s [h [t|]] Fe I OK Hb; unfold bstep; simpl in *.
  - assert (0 <= bcost (h, Some t)) as C by (unfold bcost; simpl; destruct t; simpl in *; lia).
    apply sweep_inv; [lia|]. apply apply_btx_inv; auto.
  - unfold bcost in *; simpl in *. replace (B + 0) with B by lia. apply sweep_inv; [lia | exact I].
Qed.

Lemma brun_inv : forall fee bs B s,
  0 <= fee -> linv B s -> bops_ok fee s bs = true -> B + bcosts bs < B62 ->
  linv (B + bcosts bs) (brun fee s bs).
Proof.
  intros fee; induction bs as [|b r IH]; intros B s Fe I OK Hb; unfold brun, bcosts in *; simpl in *.
  - replace (B + 0) with B by lia. exact I.
  - apply andb_true_iff in OK as [O1 O2].
    assert (0 <= bcost b) as C by (destruct b as [h [[a|? ? ?|? ?|? ?]|]]; unfold bcost; simpl in *; lia).
    assert (0 <= lsum (map bcost r)) as Hr.
    { clear - O2. revert O2. generalize (bstep fee s b). induction r as [|b' r IH]; intros s' H; simpl in *; [lia|].
      apply andb_true_iff in H as [H1 H2]. specialize (IH _ H2).
      destruct b' as [h [[a|? ? ?|? ?|? ?]|]]; unfold bcost in *; simpl in *; lia. }
    replace (B + (bcost b + lsum (map bcost r))) with ((B + bcost b) + lsum (map bcost r)) by lia.
    apply IH; auto; [|lia]. apply bstep_inv; auto; lia.
Qed.

Lemma used_equals_locked_votes : forall fee bs B s,
  0 <= fee -> linv B s -> bops_ok fee s bs = true -> B + bcosts bs < B62 ->
  let s' := brun fee s bs in
  vs_used s' = locked_sum (vs_votes s') /\ 0 <= vs_used s' <= vs_rights s'.
Proof.
  intros fee bs B s Fe I OK Hb s'. destruct (brun_inv fee bs B s Fe I OK Hb) as [_ [F [U [L _]]]].
  fold s' in F, U, L. pose proof (locked_sum_nonneg _ F). split; auto. lia.
Qed.
