(* C04: typed payload records round-trip. *)
From Coq Require Import NArith List Bool Lia.
From ELA Require Import lib.GoSem lib.Bytes model.C02_Fmt model.C02_Descr model.C04_Codec model.C04_Payloads
  proof.C02_Safe proof.C04_Roundtrip proof.C04_Tx.
Import ListNotations.
Local Open Scope N_scope.

(* generic: a record type with a left-invertible conversion to values inherits
   the round trip of the descriptor *)
Theorem typed_roundtrip : forall (A : Type) (f : fmt) (c : ctx) (to : A -> value) (of : value -> option A),
  wf_alloc f = true -> (forall a, of (to a) = Some a) ->
  forall a rest, wt f c (to a) = true ->
  lift of (decode f c (encode f c (to a) ++ rest)) = Ok (a, rest).
Proof.
  intros A f c to of WF INV a rest W.
  pose proof (roundtrip f WF c (to a) rest W) as R.
  destruct (decode f c (encode f c (to a) ++ rest)) as [r m]. simpl in R. subst r.
  unfold lift. rewrite INV. reflexivity.
Qed.

Lemma payloads_wf : forallb (fun ty => wf_alloc (payload_fmt ty 0)) tx_types = true /\
                    forallb (fun t => wf_alloc (outpayload_fmt t)) out_types = true.
Proof. vm_compute. auto. Qed.

Lemma payload_wf : forall ty, In ty tx_types -> wf_alloc (payload_fmt ty 0) = true.
Proof. intros ty I. pose proof (proj1 payloads_wf) as H. rewrite forallb_forall in H. auto. Qed.

(* ---- inverses *)
Lemma optN_of_v : forall o, optN_of (opt_v VN o) = Some o. Proof. destruct o; reflexivity. Qed.
Lemma optB_of_v : forall o, optB_of (opt_v VB o) = Some o. Proof. destruct o; reflexivity. Qed.

Lemma producer_info_inv : forall p, producer_info_of (producer_info_v p) = Some p.
Proof. destruct p. unfold producer_info_of, producer_info_v. simpl. rewrite optN_of_v, optB_of_v. reflexivity. Qed.

Lemma cr_info_inv : forall p, cr_info_of (cr_info_v p) = Some p.
Proof. destruct p. unfold cr_info_of, cr_info_v. simpl. rewrite !optB_of_v. reflexivity. Qed.

Lemma withdraw_inv : forall w, withdraw_of (withdraw_v w) = Some w.
Proof.
  destruct w; simpl; auto.
  - rewrite (traverse_map _ _ vb_of VB) by reflexivity. reflexivity.
  - rewrite (traverse_map _ _ vn_of VN) by reflexivity. reflexivity.
Qed.

Lemma cross_item_inv : forall i, cross_item_of (cross_item_v i) = Some i.
Proof. destruct i as [[a x] y]. reflexivity. Qed.
Lemma cross_chain_inv : forall c, cross_chain_of (cross_chain_v c) = Some c.
Proof. destruct c; simpl; auto. rewrite (traverse_map _ _ cross_item_of cross_item_v _ cross_item_inv). reflexivity. Qed.

Lemma cand_inv : forall c, cand_of (cand_v c) = Some c.
Proof. destruct c as [b o]. unfold cand_of, cand_v. simpl. rewrite optN_of_v. reflexivity. Qed.
Lemma content_inv : forall c, content_of (content_v c) = Some c.
Proof. destruct c as [t l]. unfold content_of, content_v. simpl. rewrite (traverse_map _ _ cand_of cand_v _ cand_inv). reflexivity. Qed.
Lemma vote_output_inv : forall o, vote_output_of (vote_output_v o) = Some o.
Proof. destruct o. unfold vote_output_of, vote_output_v. simpl. rewrite (traverse_map _ _ content_of content_v _ content_inv). reflexivity. Qed.

Lemma vwl_inv : forall x, vwl_of (vwl_v x) = Some x.
Proof. destruct x as [[c v] l]. reflexivity. Qed.
Lemma vcontent_inv : forall c, vcontent_of (vcontent_v c) = Some c.
Proof. destruct c as [t l]. unfold vcontent_of, vcontent_v. simpl. rewrite (traverse_map _ _ vwl_of vwl_v _ vwl_inv). reflexivity. Qed.
Lemma renewal_inv : forall c, renewal_of (renewal_v c) = Some c.
Proof. destruct c as [k w]. unfold renewal_of, renewal_v. simpl. rewrite vwl_inv. reflexivity. Qed.

(* ---- typed round trips *)
Theorem producer_info_roundtrip : forall ty pv p rest, (ty = 9 \/ ty = 11) ->
  wt_payload ty pv (producer_info_v p) = true ->
  dec_payload ty pv producer_info_of (enc_payload ty pv (producer_info_v p) ++ rest) = Ok (p, rest).
Proof.
  intros ty pv p rest T W. apply typed_roundtrip; [|exact producer_info_inv|exact W].
  apply payload_wf. destruct T; subst; vm_compute; auto 50.
Qed.

Theorem cr_info_roundtrip : forall ty pv p rest, (ty = 33 \/ ty = 35) ->
  wt_payload ty pv (cr_info_v p) = true ->
  dec_payload ty pv cr_info_of (enc_payload ty pv (cr_info_v p) ++ rest) = Ok (p, rest).
Proof.
  intros ty pv p rest T W. apply typed_roundtrip; [|exact cr_info_inv|exact W].
  apply payload_wf. destruct T; subst; vm_compute; auto 50.
Qed.

Theorem withdraw_roundtrip : forall pv w rest,
  wt_payload 7 pv (withdraw_v w) = true ->
  dec_payload 7 pv withdraw_of (enc_payload 7 pv (withdraw_v w) ++ rest) = Ok (w, rest).
Proof.
  intros pv w rest W. apply typed_roundtrip; [|exact withdraw_inv|exact W]. reflexivity.
Qed.

Theorem cross_chain_roundtrip : forall pv c rest,
  wt_payload 8 pv (cross_chain_v c) = true ->
  dec_payload 8 pv cross_chain_of (enc_payload 8 pv (cross_chain_v c) ++ rest) = Ok (c, rest).
Proof.
  intros pv c rest W. apply typed_roundtrip; [|exact cross_chain_inv|exact W]. reflexivity.
Qed.

Theorem vote_output_roundtrip : forall o rest,
  wt voteoutput_fmt [] (vote_output_v o) = true ->
  lift vote_output_of (decode voteoutput_fmt [] (encode voteoutput_fmt [] (vote_output_v o) ++ rest)) = Ok (o, rest).
Proof.
  intros o rest W. apply typed_roundtrip; [reflexivity|exact vote_output_inv|exact W].
Qed.

(* Voting: the value alone does not say which list shape it is; the payload
   version does (wt forces version 0 for VotingV0, 1 for VotingRenewal) *)
Theorem voting_roundtrip : forall pv x rest,
  wt_payload 99 pv (voting_v x) = true ->
  (match x with VotingV0 _ => pv = 0 | VotingRenewal _ => pv <> 0 | VotingEmpty => True end) ->
  dec_payload 99 pv (voting_of pv) (enc_payload 99 pv (voting_v x) ++ rest) = Ok (x, rest).
Proof.
  intros pv x rest W V. unfold dec_payload, enc_payload, wt_payload in *.
  pose proof (roundtrip (payload_fmt 99 0) eq_refl [pv] (voting_v x) rest W) as R.
  destruct (decode (payload_fmt 99 0) [pv] (encode (payload_fmt 99 0) [pv] (voting_v x) ++ rest)) as [r m].
  simpl in R. subst r. unfold lift. destruct x; simpl.
  - subst pv. simpl. rewrite (traverse_map _ _ vcontent_of vcontent_v _ vcontent_inv). reflexivity.
  - replace (pv =? 0) with false by (symmetry; apply N.eqb_neq; exact V).
    rewrite (traverse_map _ _ renewal_of renewal_v _ renewal_inv). reflexivity.
  - reflexivity.
Qed.

(* non-vacuity: concrete well-typed values of each record *)
Example payload_samples :
  wt_payload 9 1 (producer_info_v (mkProducerInfo [2;1] [3;1] [97] [98] 7 [99] (Some 100) (Some [5;5]))) = true /\
  wt_payload 33 2 (cr_info_v (mkCRInfo None (repeat 1 21) (Some (repeat 2 21)) [97] [98] 3 None)) = true /\
  wt_payload 7 0 (withdraw_v (WithdrawV0 5 [97] [repeat 9 32])) = true /\
  wt_payload 7 2 (withdraw_v (WithdrawV2 [1; 2; 3])) = true /\
  wt_payload 8 0 (cross_chain_v (Some [([97], 0, 100)])) = true /\
  wt voteoutput_fmt [] (vote_output_v (mkVoteOutput 1 [(0, [([2;2], Some 10)])])) = true /\
  wt_payload 99 0 (voting_v (VotingV0 [(4, [([2;2], 10, 20)])])) = true /\
  wt_payload 99 1 (voting_v (VotingRenewal [(repeat 3 32, ([2;2], 10, 20))])) = true.
Proof. vm_compute. repeat split. Qed.
