(* C12: the only reasons for the tip not being the heaviest known node are a
   refusal by the irreversibility guard (recorded with the values the guard
   saw) or a reorganisation that failed half-way. *)
From Coq Require Import ZArith NArith Bool List Lia.
From ELA Require Import model.Chain proof.C12_Struct proof.C12_Chain proof.C30_Irr.
Import ListNotations.
Local Open Scope Z_scope.

Definition refusal_ok (p : params) (cur d l : Z) : Prop :=
  (exists dpos, is_irreversible p dpos l cur d = true) /\ 0 <= d <= cur.

Record RInv (p : params) (s : state) : Prop := mkRInv {
  r_b : BInv s;
  r_ref : forall id, In id (refused s) -> exists cur d l, In (EvRefused id cur d l) (evlog s);
  r_ev : forall id cur d l, In (EvRefused id cur d l) (evlog s) -> refusal_ok p cur d l
}.

Lemma RInv_core p s s' : same_core s s' -> RInv p s -> RInv p s'.
Proof.
  intros C [A B D]. pose proof C as (A1 & A2 & A3 & A4 & A5). split.
  - eapply BInv_core; eauto.
  - rewrite A4, A5. exact B.
  - rewrite A5. exact D.
Qed.

Lemma RInv_cbc p s n pn :
  NoDup (map n_id (index s)) -> RInv p s -> has_id (n_id n) (index s) = false ->
  lookup (n_parent n) (index s) = Some pn -> rel n pn -> 0 < b_work (n_blk n) ->
  RInv p (fst (connect_best_chain p n s)).
Proof.
  intros ND [HB Rf Ev] Hf L R Hw.
  pose proof (BInv_cbc p s n pn ND HB Hf L R Hw) as HB'.
  pose proof (b_wf _ HB) as W.
  unfold connect_best_chain in *.
  destruct (N.eqb (n_parent n) (n_id (tip s))).
  { destruct (b_valid (n_blk n)); simpl in *; split; auto. }
  destruct (n_worksum n <=? n_worksum (tip (add_index n s))); simpl in *.
  { split; auto. }
  destruct (get_reorganize_nodes (add_index n s) n) as [det att] eqn:G.
  destruct (is_irreversible p (b_dpos (n_blk (tip (add_index n s)))) (lih (ir s))
              (n_height (tip (add_index n s))) (Z.of_nat (length det))) eqn:Gd; simpl in *.
  - split; auto.
    + intros id [<-|Hin].
      * do 3 eexists. left. reflexivity.
      * destruct (Rf id Hin) as (c & d & l & H). exists c, d, l. right. exact H.
    + intros id cur d l [E|Hin]; [|eapply Ev; eauto].
      inversion E; subst. split; [eexists; exact Gd|].
      destruct (reorg_nodes_spec' (add_index n s) n) with (det := det) (att := att)
        as (anc & rest & Em & _); auto.
      { simpl. apply nodup_add_index; auto. }
      { apply wf_add_index with (pn := pn); auto. }
      { simpl. apply in_app_iff; simpl; auto. }
      simpl in Em. pose proof (wf_chain _ W) as Hch. rewrite Em in Hch.
      destruct (chain_heights _ _ _ Hch) as [_ Hh2].
      assert (Ha0 : 0 <= n_height anc).
      { apply (idx_ok_height _ (wf_idx _ W)). apply (wf_sub _ W). rewrite Em. apply in_app_iff. simpl; auto. }
      assert (Htip : n_height (tip (add_index n s)) = n_height anc + Z.of_nat (length det)).
      { unfold tip. simpl. rewrite Em. destruct det; simpl in *; auto. }
      lia.
  - destruct (reorganize p det att (add_index n s)) as [s2 ok] eqn:Rg. simpl in *.
    pose proof (reorganize_frame _ _ _ _ _ _ Rg) as (_ & _ & F3 & e & F4 & _).
    split; auto.
    + intros id Hin. rewrite F3 in Hin. simpl in Hin. destruct (Rf id Hin) as (c & d & l & H).
      exists c, d, l. rewrite F4. right. exact H.
    + unfold reorganize in Rg.
      destruct (attach_all p att (detach_n (length det) (add_index n s))) as [s1 ok1] eqn:AA.
      inversion Rg; subst. simpl.
      pose proof (attach_all_frame _ _ _ _ _ AA) as (_ & _ & _ & A4).
      pose proof (detach_n_index (length det) (add_index n s)) as (_ & _ & _ & D4 & _).
      intros id cur d l [E|Hin]; [discriminate|].
      rewrite A4, D4 in Hin. eapply Ev; eauto.
Qed.

Lemma RInv_accept p s b :
  SInv s -> RInv p s -> 0 < b_work b -> has_id (b_id b) (index s) = false ->
  has_id (b_parent b) (index s) = true -> RInv p (fst (maybe_accept p b s)).
Proof.
  intros HS HR Hw Hf _. unfold maybe_accept.
  destruct (lookup (b_parent b) (index s)) as [pn|] eqn:L; simpl; auto.
  destruct (b_height b =? n_height pn + 1) eqn:Eh; simpl; auto.
  eapply RInv_cbc; eauto.
  - apply (s_in _ HS).
  - pose proof (lookup_some _ _ _ L) as [_ Lid]. unfold rel, n_parent; simpl; auto.
Qed.

Lemma RInv_init p : RInv p init.
Proof.
  split.
  - apply BInv_init.
  - intros id [].
  - intros id cur d l [].
Qed.

Lemma run_RInv p bs : RInv p (run p init bs).
Proof.
  destruct (run_pres p (RInv p) (RInv_core p) (fun b => 0 < b_work b)
              (fun s b HS HR Hw Hf Hp => RInv_accept p s b HS HR Hw Hf Hp) bs) with (s := init)
    as (_ & B & _); auto.
  - apply Forall_forall. intros b _. apply sane_pos.
  - apply SInv_init.
  - apply RInv_init.
  - intros o [].
Qed.

(* statement used by props/C12.v *)
Theorem heavier_only_if_refused_or_failed p bs :
  let s := run p init bs in
  forall n, In n (index s) -> n_worksum (tip s) < n_worksum n ->
    no_failed_switch s = false \/
    exists cur d l dpos, In (EvRefused (n_id n) cur d l) (evlog s) /\
      is_irreversible p dpos l cur d = true /\ 0 <= d <= cur.
Proof.
  intros s n Hn Hlt. destruct (run_RInv p bs) as [HB Rf Ev]. fold s in HB, Rf, Ev.
  destruct (no_failed_switch s) eqn:NF; auto. right.
  destruct (b_best _ HB NF) as (pre & post & E & Hpre & Hpost).
  assert (Hr : In (n_id n) (refused s)).
  { rewrite E in Hn. apply in_app_iff in Hn. destruct Hn as [Hn|[<-|Hn]].
    - destruct (Hpre n Hn) as [H|H]; auto. lia.
    - lia.
    - destruct (Hpost n Hn) as [H|H]; auto. lia. }
  destruct (Rf _ Hr) as (cur & d & l & Hin).
  destruct (Ev _ _ _ _ Hin) as [[dpos G] Hd]. exists cur, d, l, dpos. auto.
Qed.
