(* C10 proofs about model/C10_AuxPow.v: generic in the merkle step hash. *)
From Coq Require Import ZArith NArith List Bool Lia.
From ELA Require Import model.C10_AuxPow.
Import ListNotations.
Local Open Scope Z_scope.

Definition bytes (l : list N) : Prop := Forall (fun b => (b < 256)%N) l.
Definition len32 (l : list N) : Prop := length l = 32%nat.

(* ------------------------------------------------------------------ lists, prefixes, search *)

Lemma list_eqb_eq a b : list_eqb a b = true <-> a = b.
Proof.
  revert b; induction a as [|x a IH]; intros [|y b]; simpl; split; intros H; try congruence; try discriminate.
  - apply andb_true_iff in H as [H1 H2]. apply N.eqb_eq in H1. apply IH in H2. congruence.
  - injection H as -> ->. rewrite N.eqb_refl. apply IH. reflexivity.
Qed.

Lemma is_prefix_app p s : is_prefix p s = true -> exists r, s = p ++ r.
Proof.
  revert s; induction p as [|x p IH]; intros s H; simpl in *; [exists s; reflexivity|].
  destruct s as [|y s]; [discriminate|]. apply andb_true_iff in H as [H1 H2].
  apply N.eqb_eq in H1. subst y. destruct (IH s H2) as [r ->]. exists r. reflexivity.
Qed.

Lemma is_prefix_refl_app p r : is_prefix p (p ++ r) = true.
Proof. induction p; simpl; [reflexivity|]. rewrite N.eqb_refl. exact IHp. Qed.

Lemma is_prefix_same_len a b t :
  is_prefix a t = true -> is_prefix b t = true -> length a = length b -> a = b.
Proof.
  intros Ha Hb Hl. apply is_prefix_app in Ha as [ra Ea]. apply is_prefix_app in Hb as [rb Eb].
  rewrite Ea in Eb. clear Ea.
  revert b Hl Eb; induction a as [|x a IH]; intros [|y b] Hl Eb; simpl in *; try discriminate Hl; [reflexivity|].
  injection Eb as -> Eb. f_equal. apply IH; [lia|exact Eb].
Qed.

Lemma skipn_add {A} (l : list A) a b : skipn a (skipn b l) = skipn (b + a) l.
Proof.
  revert l; induction b as [|b IH]; intros l; [reflexivity|].
  destruct l; [rewrite !skipn_nil; reflexivity|]. simpl. apply IH.
Qed.

Lemma index_from_some sub s i j :
  index_from sub s i = Some j ->
  exists n, j = i + Z.of_nat n /\ (n < length s)%nat /\ is_prefix sub (skipn n s) = true /\
            forall m, (m < n)%nat -> is_prefix sub (skipn m s) = false.
Proof.
  revert i; induction s as [|x s IH]; intros i H; simpl in H; [discriminate|].
  destruct (is_prefix sub (x :: s)) eqn:E.
  - injection H as <-. exists 0%nat. split; [lia|]. split; [simpl; lia|]. split; [exact E|].
    intros m Hm; lia.
  - apply IH in H as (n & -> & Hn & Hp & Hm). exists (S n).
    split; [lia|]. split; [simpl; lia|]. split; [exact Hp|].
    intros [|m] Hlt; simpl; [exact E|apply Hm; lia].
Qed.

Lemma index_from_none sub s i :
  index_from sub s i = None -> forall n, (n < length s)%nat -> is_prefix sub (skipn n s) = false.
Proof.
  revert i; induction s as [|x s IH]; intros i H n Hn; simpl in *; [lia|].
  destruct (is_prefix sub (x :: s)) eqn:E; [discriminate|].
  destruct n as [|n]; simpl; [exact E|]. apply (IH _ H). lia.
Qed.

(* ------------------------------------------------------------------ hex *)

Lemma hexs_length l : length (hexs l) = (2 * length l)%nat.
Proof. induction l; simpl; lia. Qed.

Lemma hexs_app a b : hexs (a ++ b) = hexs a ++ hexs b.
Proof. induction a; simpl; [reflexivity|]. rewrite IHa. reflexivity. Qed.

Lemma nibbles_inj x y : (x < 256)%N -> (y < 256)%N -> (x / 16 = y / 16)%N -> (x mod 16 = y mod 16)%N -> x = y.
Proof.
  intros Hx Hy Hd Hm.
  rewrite (N.div_mod x 16), (N.div_mod y 16) by discriminate. rewrite Hd, Hm. reflexivity.
Qed.

Lemma hexs_inj a b : bytes a -> bytes b -> hexs a = hexs b -> a = b.
Proof.
  intros Ha; revert b; induction Ha as [|x a Hx Ha IH]; intros b Hb E; destruct Hb as [|y b Hy Hb]; simpl in E;
    try discriminate; [reflexivity|].
  injection E as E1 E2 E3. f_equal; [apply nibbles_inj; assumption|apply IH; assumption].
Qed.

Lemma hexs_skipn k l : skipn (2 * k) (hexs l) = hexs (skipn k l).
Proof.
  revert l; induction k as [|k IH]; intros l; [reflexivity|].
  destruct l as [|x l]; [reflexivity|].
  replace (2 * S k)%nat with (S (S (2 * k))) by lia. simpl. apply IH.
Qed.

Lemma hexs_prefix a b : bytes a -> bytes b -> is_prefix (hexs a) (hexs b) = true -> is_prefix a b = true.
Proof.
  intros Ha; revert b; induction Ha as [|x a Hx Ha IH]; intros b Hb E; [reflexivity|].
  destruct Hb as [|y b Hy Hb]; simpl in E; [discriminate|].
  apply andb_true_iff in E as [E1 E]. apply andb_true_iff in E as [E2 E].
  apply N.eqb_eq in E1, E2. simpl. rewrite (nibbles_inj x y Hx Hy E1 E2), N.eqb_refl. apply IH; assumption.
Qed.

Lemma bytes_rev l : bytes l -> bytes (rev l).
Proof. unfold bytes. apply Forall_rev. Qed.

Lemma bytes_skipn k l : bytes l -> bytes (skipn k l).
Proof.
  unfold bytes. revert l; induction k; intros l H; [exact H|]. destruct l; [exact H|].
  simpl. apply IHk. inversion H; assumption.
Qed.

Lemma rev_inj {A} (a b : list A) : rev a = rev b -> a = b.
Proof. intros H. rewrite <- (rev_involutive a), <- (rev_involutive b), H. reflexivity. Qed.

(* ------------------------------------------------------------------ the facts behind an acceptance *)

Definition marker_hex : list N := hexs marker.

Section Generic.
Variable Hh : list N -> list N.
Hypothesis Hh_len : forall x, len32 (Hh x).
Hypothesis Hh_bytes : forall x, bytes (Hh x).

Notation merkle_fold := (merkle_fold Hh).
Notation get_merkle_root := (get_merkle_root Hh).
Notation check := (check Hh).

Definition aux_root (ap : auxpow) (hb : list N) : list N :=
  get_merkle_root (rev hb) (aux_branch ap) (aux_index ap).
Definition root_hex (ap : auxpow) (hb : list N) : list N := hexs (rev (aux_root ap hb)).

(* position (in bytes) of the size field given the nibble offset of the marker *)
Definition tail_pos (ap : auxpow) (hb : list N) (hi : Z) : Z :=
  (hi + zlen marker_hex + zlen (root_hex ap hb)) / 2.

Record accepted_at (ap : auxpow) (hb : list N) (cid : Z) (hi : Z) : Prop := {
  acc_parent : get_merkle_root (cb_hash ap) (par_branch ap) (par_index ap) = par_root ap;
  acc_txin : has_txin ap = true;
  acc_marker : index_of marker_hex (hexs (script ap)) = Some hi;
  acc_single : index_of marker_hex (skipn (Z.to_nat (hi + 2)) (hexs (script ap))) = None;
  acc_root : index_of (root_hex ap hb) (hexs (script ap)) = Some (hi + zlen marker_hex);
  acc_tail_hex : 8 <= zlen (hexs (script ap)) - (hi + zlen marker_hex + zlen (root_hex ap hb));
  acc_tail : tail_pos ap hb hi + 8 <= zlen (script ap);
  acc_height : zlen (aux_branch ap) < 32;
  acc_size : le32 (slice (script ap) (tail_pos ap hb hi) 4) = 2 ^ zlen (aux_branch ap);
  acc_index : aux_index ap =
              expected_index (le32 (slice (script ap) (tail_pos ap hb hi + 4) 4)) cid (zlen (aux_branch ap)) }.

Lemma check_true_inv ap hb cid : check ap hb cid = true -> exists hi, accepted_at ap hb cid hi.
Proof.
  unfold C10_AuxPow.check.
  destruct (list_eqb _ (par_root ap)) eqn:Ep; cbn [negb]; [|discriminate].
  destruct (has_txin ap) eqn:Et; cbn [negb]; [|discriminate].
  fold (aux_root ap hb). fold (root_hex ap hb). fold marker_hex.
  destruct (index_of marker_hex (hexs (script ap))) as [hi|] eqn:Em; [|discriminate].
  destruct (index_of (root_hex ap hb) (hexs (script ap))) as [ri|] eqn:Er; [|discriminate].
  destruct (index_of marker_hex (skipn _ _)) eqn:E2; [discriminate|].
  destruct (Z.eqb_spec (hi + zlen marker_hex) ri) as [Eri|]; cbn [negb]; [|discriminate].
  subst ri.
  destruct (Z.ltb_spec (zlen (hexs (script ap)) - (hi + zlen marker_hex + zlen (root_hex ap hb))) 8); [discriminate|].
  fold (tail_pos ap hb hi).
  destruct (Z.ltb_spec (zlen (script ap)) (tail_pos ap hb hi + 8)); [discriminate|].
  destruct (Z.leb_spec 32 (zlen (aux_branch ap))); [discriminate|].
  destruct (Z.eqb_spec (le32 (slice (script ap) (tail_pos ap hb hi) 4)) (2 ^ zlen (aux_branch ap))); cbn [negb]; [|discriminate].
  intros Hi. apply Z.eqb_eq in Hi. apply list_eqb_eq in Ep.
  exists hi. constructor; auto; lia.
Qed.

Lemma accepted_check ap hb cid hi : accepted_at ap hb cid hi -> check ap hb cid = true.
Proof.
  intros [A1 A2 A3 A4 A5 A6 A7 A8 A9 A10]. unfold C10_AuxPow.check.
  rewrite A1. assert (list_eqb (par_root ap) (par_root ap) = true) as -> by (apply list_eqb_eq; reflexivity).
  rewrite A2. cbn [negb]. fold (aux_root ap hb). fold (root_hex ap hb). fold marker_hex.
  rewrite A3, A5, A4, Z.eqb_refl. cbn [negb].
  destruct (Z.ltb_spec (zlen (hexs (script ap)) - (hi + zlen marker_hex + zlen (root_hex ap hb))) 8); [lia|].
  fold (tail_pos ap hb hi).
  destruct (Z.ltb_spec (zlen (script ap)) (tail_pos ap hb hi + 8)); [lia|].
  destruct (Z.leb_spec 32 (zlen (aux_branch ap))); [lia|].
  rewrite A9, Z.eqb_refl. cbn [negb]. apply Z.eqb_eq. exact A10.
Qed.

(* the hex string of the script around the marker *)
Lemma accepted_layout ap hb cid hi :
  accepted_at ap hb cid hi ->
  exists n post, hi = Z.of_nat n /\
    skipn n (hexs (script ap)) = marker_hex ++ root_hex ap hb ++ post /\
    (forall m, (m < n)%nat -> is_prefix marker_hex (skipn m (hexs (script ap))) = false) /\
    (forall m, (n + 2 <= m)%nat -> (m < length (hexs (script ap)))%nat ->
               is_prefix marker_hex (skipn m (hexs (script ap))) = false).
Proof.
  intros A. destruct A as [_ _ A3 A4 A5 _ _ _ _ _].
  unfold index_of in *.
  apply index_from_some in A3 as (n & Hn & Hlt & Hp & Hfirst). simpl in Hn. subst hi.
  apply index_from_some in A5 as (n2 & Hn2 & _ & Hp2 & _). simpl in Hn2.
  assert (E8 : zlen marker_hex = 8) by reflexivity. rewrite E8 in Hn2.
  assert (n2 = n + 8)%nat by lia. subst n2.
  exists n. apply is_prefix_app in Hp as [r Hr].
  assert (Hsk : skipn (n + 8) (hexs (script ap)) = r).
  { rewrite <- (skipn_add _ 8 n), Hr. reflexivity. }
  rewrite Hsk in Hp2. apply is_prefix_app in Hp2 as [post ->].
  exists post. split; [reflexivity|]. split; [exact Hr|]. split; [exact Hfirst|].
  intros m Hm Hlen.
  replace (Z.to_nat (Z.of_nat n + 2)) with (n + 2)%nat in A4 by lia.
  pose proof (index_from_none _ _ _ A4 (m - (n + 2))%nat) as Hnone.
  rewrite skipn_length in Hnone. specialize (Hnone ltac:(lia)).
  rewrite skipn_add in Hnone. replace (n + 2 + (m - (n + 2)))%nat with m in Hnone by lia. exact Hnone.
Qed.

(* ------------------------------------------------------------------ merkle paths bind their leaf and branch *)

Definition collision : Prop := exists x y, x <> y /\ Hh x = Hh y.

Lemma app_inj_len {A} (a c b d : list A) : length a = length c -> a ++ b = c ++ d -> a = c /\ b = d.
Proof.
  revert c; induction a as [|x a IH]; intros [|y c] Hl E; simpl in *; try discriminate Hl; [auto|].
  injection E as -> E. destruct (IH c ltac:(lia) E) as [-> ->]. auto.
Qed.

Lemma app_inj32 (a b c d : list N) : len32 a -> len32 c -> a ++ b = c ++ d -> a = c /\ b = d.
Proof. unfold len32. intros Ha Hc. apply app_inj_len. congruence. Qed.

Lemma list_N_dec (a b : list N) : {a = b} + {a <> b}.
Proof. apply list_eq_dec, N.eq_dec. Qed.

Lemma merkle_fold_inj br1 : forall br2 a b idx,
  length br1 = length br2 -> len32 a -> len32 b -> Forall len32 br1 -> Forall len32 br2 ->
  merkle_fold a br1 idx = merkle_fold b br2 idx ->
  (a = b /\ br1 = br2) \/ collision.
Proof.
  induction br1 as [|x r1 IH]; intros [|y r2] a b idx Hl Ha Hb F1 F2 E; simpl in *; try discriminate Hl.
  - left. auto.
  - inversion F1 as [|? ? Hx F1']; subst. inversion F2 as [|? ? Hy F2']; subst.
    destruct (Z.odd idx).
    + destruct (IH r2 _ _ _ ltac:(lia) (Hh_len _) (Hh_len _) F1' F2' E) as [[E1 ->]|C]; [|right; exact C].
      destruct (list_N_dec (x ++ a) (y ++ b)) as [Eq|Ne].
      * apply app_inj32 in Eq as [-> ->]; auto.
      * right. exists (x ++ a), (y ++ b). auto.
    + destruct (IH r2 _ _ _ ltac:(lia) (Hh_len _) (Hh_len _) F1' F2' E) as [[E1 ->]|C]; [|right; exact C].
      destruct (list_N_dec (a ++ x) (b ++ y)) as [Eq|Ne].
      * apply app_inj32 in Eq as [-> ->]; auto.
      * right. exists (a ++ x), (b ++ y). auto.
Qed.

Lemma zero_hash_len : len32 zero_hash.
Proof. reflexivity. Qed.
Lemma zero_hash_bytes : bytes zero_hash.
Proof. unfold bytes, zero_hash. apply Forall_forall. intros x Hx. apply repeat_spec in Hx. subst. reflexivity. Qed.

Lemma merkle_fold_len h br idx : len32 h -> len32 (merkle_fold h br idx).
Proof. revert h idx; induction br; intros h idx Hl; simpl; [exact Hl|]. apply IHbr. destruct (Z.odd idx); apply Hh_len. Qed.
Lemma merkle_fold_bytes h br idx : bytes h -> bytes (merkle_fold h br idx).
Proof. revert h idx; induction br; intros h idx Hl; simpl; [exact Hl|]. apply IHbr. destruct (Z.odd idx); apply Hh_bytes. Qed.

Lemma gmr_len h br idx : len32 h -> len32 (get_merkle_root h br idx).
Proof. intros. unfold C10_AuxPow.get_merkle_root. destruct (idx =? -1); [apply zero_hash_len|apply merkle_fold_len; assumption]. Qed.
Lemma gmr_bytes h br idx : bytes h -> bytes (get_merkle_root h br idx).
Proof. intros. unfold C10_AuxPow.get_merkle_root. destruct (idx =? -1); [apply zero_hash_bytes|apply merkle_fold_bytes; assumption]. Qed.

Lemma len32_rev h : len32 h -> len32 (rev h).
Proof. unfold len32. rewrite rev_length. auto. Qed.

Lemma root_hex_len ap hb : len32 hb -> zlen (root_hex ap hb) = 64.
Proof.
  intros H. unfold zlen, root_hex. rewrite hexs_length, rev_length.
  rewrite (gmr_len (rev hb) (aux_branch ap) (aux_index ap) (len32_rev _ H)). reflexivity.
Qed.

Lemma expected_index_nonneg n cid h : 0 <= h < 32 -> 0 <= expected_index n cid h.
Proof.
  intros Hh'. unfold expected_index.
  destruct (Z.ltb_spec h 0); [lia|]. destruct (Z.leb_spec 32 h); [lia|]. simpl.
  apply Z.mod_pos_bound. apply Z.pow_pos_nonneg; lia.
Qed.

Lemma zlen_nonneg {A} (l : list A) : 0 <= zlen l.
Proof. unfold zlen. lia. Qed.

(* two accepted proofs sharing the coinbase script commit to the same height,
   slot, block hash and branch, or exhibit a collision of the step hash *)
Lemma check_binds ap1 ap2 hb1 hb2 cid :
  len32 hb1 -> len32 hb2 -> bytes hb1 -> bytes hb2 ->
  Forall len32 (aux_branch ap1) -> Forall len32 (aux_branch ap2) ->
  script ap1 = script ap2 ->
  check ap1 hb1 cid = true -> check ap2 hb2 cid = true ->
  length (aux_branch ap1) = length (aux_branch ap2) /\ aux_index ap1 = aux_index ap2 /\
  ((hb1 = hb2 /\ aux_branch ap1 = aux_branch ap2) \/ collision).
Proof.
  intros L1 L2 B1 B2 F1 F2 Es C1 C2.
  apply check_true_inv in C1 as [hi1 A1]. apply check_true_inv in C2 as [hi2 A2].
  pose proof (acc_marker _ _ _ _ A1) as M1. pose proof (acc_marker _ _ _ _ A2) as M2.
  rewrite Es in M1. rewrite M1 in M2. injection M2 as <-.
  (* equal roots *)
  pose proof (acc_root _ _ _ _ A1) as R1. pose proof (acc_root _ _ _ _ A2) as R2. rewrite Es in R1.
  unfold index_of in R1, R2.
  apply index_from_some in R1 as (n1 & Hn1 & _ & P1 & _). apply index_from_some in R2 as (n2 & Hn2 & _ & P2 & _).
  assert (n1 = n2) by lia. subst n2.
  assert (Erh : root_hex ap1 hb1 = root_hex ap2 hb2).
  { apply (is_prefix_same_len _ _ _ P1 P2).
    pose proof (root_hex_len ap1 hb1 L1). pose proof (root_hex_len ap2 hb2 L2). unfold zlen in *. lia. }
  assert (Er : aux_root ap1 hb1 = aux_root ap2 hb2).
  { apply rev_inj. apply hexs_inj; [| |exact Erh]; apply bytes_rev, gmr_bytes, bytes_rev; assumption. }
  (* equal heights *)
  assert (Et : tail_pos ap1 hb1 hi1 = tail_pos ap2 hb2 hi1) by (unfold tail_pos; rewrite Erh; reflexivity).
  pose proof (acc_size _ _ _ _ A1) as S1. pose proof (acc_size _ _ _ _ A2) as S2.
  rewrite Es, Et, S2 in S1.
  pose proof (acc_height _ _ _ _ A1) as H1. pose proof (acc_height _ _ _ _ A2) as H2.
  pose proof (zlen_nonneg (aux_branch ap1)). pose proof (zlen_nonneg (aux_branch ap2)).
  assert (Eh : zlen (aux_branch ap1) = zlen (aux_branch ap2)).
  { symmetry. apply (Z.pow_inj_r 2); lia. }
  assert (El : length (aux_branch ap1) = length (aux_branch ap2)) by (unfold zlen in Eh; lia).
  (* equal slots *)
  pose proof (acc_index _ _ _ _ A1) as I1. pose proof (acc_index _ _ _ _ A2) as I2.
  rewrite Es, Et, Eh in I1. rewrite <- I2 in I1.
  split; [exact El|]. split; [exact I1|].
  (* the merkle paths *)
  assert (Hnn : aux_index ap2 <> -1).
  { rewrite I2. pose proof (expected_index_nonneg (le32 (slice (script ap2) (tail_pos ap2 hb2 hi1 + 4) 4)) cid (zlen (aux_branch ap2)) ltac:(lia)). lia. }
  unfold aux_root, C10_AuxPow.get_merkle_root in Er. rewrite I1 in Er.
  destruct (Z.eqb_spec (aux_index ap2) (-1)); [contradiction|].
  destruct (merkle_fold_inj _ _ _ _ _ El (len32_rev _ L1) (len32_rev _ L2) F1 F2 Er) as [[E1 E2]|C]; [|right; exact C].
  left. split; [apply rev_inj; exact E1|exact E2].
Qed.

(* the same proof accepted under two chain ids: both map the committed nonce to the same slot *)
Lemma check_chain_id ap hb cid cid' :
  check ap hb cid = true -> check ap hb cid' = true ->
  exists nonce, aux_index ap = expected_index nonce cid (zlen (aux_branch ap)) /\
                aux_index ap = expected_index nonce cid' (zlen (aux_branch ap)).
Proof.
  intros C1 C2. apply check_true_inv in C1 as [hi1 A1]. apply check_true_inv in C2 as [hi2 A2].
  pose proof (acc_marker _ _ _ _ A1) as M1. pose proof (acc_marker _ _ _ _ A2) as M2.
  rewrite M1 in M2. injection M2 as <-.
  eexists. split; [apply (acc_index _ _ _ _ A1)|apply (acc_index _ _ _ _ A2)].
Qed.

(* ------------------------------------------------------------------ aligned markers: the byte-level commitment *)

Lemma is_prefix_hexs a b : is_prefix a b = true -> is_prefix (hexs a) (hexs b) = true.
Proof. intros H. apply is_prefix_app in H as [r ->]. rewrite hexs_app. apply is_prefix_refl_app. Qed.

Lemma is_prefix_nil_false p : p <> [] -> is_prefix p [] = false.
Proof. destruct p; [congruence|reflexivity]. Qed.

Lemma aligned_commit ap hb cid hi :
  bytes (script ap) -> len32 hb -> bytes hb ->
  accepted_at ap hb cid hi -> Z.even hi = true ->
  exists k, hi = 2 * Z.of_nat k /\
    is_prefix (marker ++ rev (aux_root ap hb)) (skipn k (script ap)) = true /\
    tail_pos ap hb hi = Z.of_nat k + 36 /\
    forall j, j <> k -> is_prefix marker (skipn j (script ap)) = false.
Proof.
  intros Bs L B A Hev.
  destruct (accepted_layout ap hb cid hi A) as (n & post & Hn & Hsk & Hbefore & Hafter).
  assert (exists k, n = (2 * k)%nat) as [k ->].
  { subst hi. rewrite Z.even_spec in Hev. destruct Hev as [q Hq]. exists (Z.to_nat q). lia. }
  exists k. split; [lia|].
  rewrite hexs_skipn in Hsk.
  assert (Bk : bytes (skipn k (script ap))) by (apply bytes_skipn, Bs).
  assert (Br : bytes (rev (aux_root ap hb))) by (apply bytes_rev, gmr_bytes, bytes_rev, B).
  assert (Bm : bytes marker) by (unfold bytes, marker; repeat constructor).
  split; [|split].
  - apply hexs_prefix; [unfold bytes in *; apply Forall_app; split; assumption|exact Bk|].
    rewrite hexs_app, Hsk. unfold marker_hex, root_hex.
    rewrite (app_assoc (hexs marker)). apply is_prefix_refl_app.
  - unfold tail_pos. rewrite (root_hex_len ap hb L). change (zlen marker_hex) with 8. subst hi.
    replace (Z.of_nat (2 * k) + 8 + 64) with ((Z.of_nat k + 36) * 2) by lia. apply Z.div_mul. lia.
  - intros j Hj. destruct (is_prefix marker (skipn j (script ap))) eqn:E; [|reflexivity]. exfalso.
    apply is_prefix_hexs in E. rewrite <- hexs_skipn in E. fold marker_hex in E.
    destruct (Nat.lt_ge_cases (2 * j) (2 * k)) as [Hlt|Hge].
    + rewrite (Hbefore (2 * j)%nat Hlt) in E. discriminate.
    + destruct (Nat.lt_ge_cases (2 * j) (length (hexs (script ap)))) as [Hin|Hout].
      * rewrite (Hafter (2 * j)%nat ltac:(lia) Hin) in E. discriminate.
      * rewrite skipn_all2 in E by lia. discriminate.
Qed.

End Generic.

(* ------------------------------------------------------------------ the refuted byte-level statement *)
From ELA Require Import lib.Sha256.

(* witness: hex(script) = "0" fabe6d6d <block hash> "1" 000000 ...: the marker
   only exists at nibble offset 1; cb_hash is the hash the Go code computes
   for the coinbase carrying this script (harness corpus, stats.extra) *)
Definition w_script : list N := [15;171;230;214;209;1;17;33;49;65;81;97;113;129;145;161;177;193;209;225;242;2;18;34;50;66;82;98;114;130;146;162;178;194;210;234;1;0;0;0;0;0;0;0;0;0]%N.
Definition w_hash : list N := [16;17;18;19;20;21;22;23;24;25;26;27;28;29;30;31;32;33;34;35;36;37;38;39;40;41;42;43;44;45;46;160]%N.
Definition w_cb : list N := [39;151;135;23;8;125;205;243;6;16;226;14;178;111;19;133;228;171;76;156;239;140;24;94;69;89;61;79;210;235;70;56]%N.
Definition w_ap : auxpow := mkAuxPow [] 0 w_cb true w_script [] 0 w_cb.

Definition byte_marker_free (s : list N) : Prop :=
  forall k, is_prefix marker (skipn k s) = false.

Lemma nibble_witness :
  exists ap hb cid, check sha256d ap hb cid = true /\ bytes (script ap) /\ byte_marker_free (script ap).
Proof.
  exists w_ap, w_hash, 1224. split; [vm_compute; reflexivity|]. split.
  - unfold bytes. apply Forall_forall. intros x Hx.
    assert (Hb : forallb (fun b => (b <? 256)%N) (script w_ap) = true) by (vm_compute; reflexivity).
    rewrite forallb_forall in Hb. apply N.ltb_lt, Hb, Hx.
  - intros k. destruct (Nat.lt_ge_cases k (length (script w_ap))) as [Hlt|Hge].
    + assert (Hall : forallb (fun j => negb (is_prefix marker (skipn j (script w_ap)))) (seq 0 (length (script w_ap))) = true)
        by (vm_compute; reflexivity).
      rewrite forallb_forall in Hall. specialize (Hall k). rewrite in_seq in Hall.
      specialize (Hall ltac:(lia)). apply negb_true_iff in Hall. exact Hall.
    + rewrite skipn_all2 by exact Hge. reflexivity.
Qed.

Lemma check_iff_accepted Hh ap hb cid :
  check Hh ap hb cid = true <-> exists hi, accepted_at Hh ap hb cid hi.
Proof.
  split; [apply check_true_inv|]. intros [hi A]. apply (accepted_check Hh ap hb cid hi A).
Qed.
