(* C18 proofs about model/C18_Flat.v: the flat-file store invariant, reads of
   placed records, regions, reopen, histories. *)
From Coq Require Import NArith ZArith Bool Lia List.
From ELA Require Import model.C18_Flat proof.C18_Bytes.
Import ListNotations.
Local Open Scope N_scope.

(* ------------------------------------------------------------ directories *)

Lemma nth_error_map_some (ds : list bytes) j :
  nth_error (map Some ds) j = option_map Some (nth_error ds j).
Proof. revert j; induction ds; destruct j; simpl; auto. Qed.

Lemma get_file_map ds j : get_file (map Some ds) j = nth_error ds (N.to_nat j).
Proof.
  unfold get_file. rewrite map_length.
  destruct (N.leb_spec (N.of_nat (length ds)) j).
  - symmetry. apply nth_error_None. lia.
  - rewrite nth_error_map_some. destruct (nth_error ds (N.to_nat j)); reflexivity.
Qed.
Lemma get_file_nil j : get_file [] j = None.
Proof. pose proof (get_file_map [] j) as H; simpl in H; rewrite H. now destruct (N.to_nat j). Qed.

Lemma set_nth_last ds0 (x v : option bytes) :
  set_nth (map Some ds0 ++ [x]) (length ds0) v = map Some ds0 ++ [v].
Proof. induction ds0; simpl; auto. now f_equal. Qed.
Lemma set_nth_new ds (v : option bytes) :
  set_nth (map Some ds) (length ds) v = map Some ds ++ [v].
Proof. induction ds; simpl; auto. now f_equal. Qed.

Lemma set_nth_new_some ds (x : bytes) :
  set_nth (map Some ds) (length ds) (Some x) = map Some (ds ++ [x]).
Proof. rewrite set_nth_new, map_app. reflexivity. Qed.

Definition active (ds0 : list bytes) (d : bytes) : store :=
  mkstore (map Some (ds0 ++ [d])) (N.of_nat (length ds0)) (len d).

Lemma get_file_active ds0 d : get_file (map Some (ds0 ++ [d])) (N.of_nat (length ds0)) = Some d.
Proof. rewrite get_file_map, Nat2N.id, nth_error_app2, Nat.sub_diag by lia. reflexivity. Qed.

Lemma write_at_end d data : write_at d (len d) data = d ++ data.
Proof.
  unfold write_at. rewrite takeN_all, N.sub_diag by lia. simpl.
  rewrite dropN_all by lia. now rewrite app_nil_r.
Qed.

Lemma write_data_last ds0 d data :
  len d + len data < 4294967296 ->
  write_data (active ds0 d) data = active ds0 (d ++ data).
Proof.
  intros H. unfold write_data, active; simpl.
  rewrite get_file_active, write_at_end. unfold set_file. rewrite Nat2N.id, map_app. simpl.
  rewrite set_nth_last, u32_small, len_app by exact H. now rewrite map_app.
Qed.

Lemma len_concat_cons p ps : len (concat (p :: ps)) = len p + len (concat ps).
Proof. simpl. apply len_app. Qed.

Lemma write_pieces ps : forall ds0 d,
  len d + len (concat ps) < 4294967296 ->
  fold_left write_data ps (active ds0 d) = active ds0 (d ++ concat ps).
Proof.
  induction ps as [|p ps IH]; intros ds0 d H; simpl.
  - now rewrite app_nil_r.
  - rewrite len_concat_cons in H. rewrite write_data_last by lia.
    rewrite IH by (rewrite len_app; lia). now rewrite app_assoc.
Qed.

(* directory extension: every file keeps its content as a prefix *)
Definition fext (fs fs' : files) : Prop :=
  forall j x, get_file fs j = Some x -> exists suf, get_file fs' j = Some (x ++ suf).
Lemma fext_refl fs : fext fs fs.
Proof. intros j x H; exists []; now rewrite app_nil_r. Qed.
Lemma fext_nil fs : fext [] fs.
Proof. intros j x H; rewrite get_file_nil in H; discriminate. Qed.
Lemma fext_trans a b c : fext a b -> fext b c -> fext a c.
Proof.
  intros H1 H2 j x H. destruct (H1 _ _ H) as [s1 E1]. destruct (H2 _ _ E1) as [s2 E2].
  exists (s1 ++ s2). now rewrite app_assoc.
Qed.
Lemma fext_grow ds0 d x : fext (map Some (ds0 ++ [d])) (map Some (ds0 ++ [d ++ x])).
Proof.
  intros j y. rewrite !get_file_map.
  destruct (Nat.lt_ge_cases (N.to_nat j) (length ds0)) as [Hlt|Hge].
  - rewrite !nth_error_app1 by lia. intros ->. exists []; now rewrite app_nil_r.
  - rewrite !nth_error_app2 by lia.
    destruct (N.to_nat j - length ds0)%nat as [|k]; simpl.
    + intros [= <-]. now exists x.
    + destruct k; discriminate.
Qed.
Lemma fext_new ds x : fext (map Some ds) (map Some (ds ++ [x])).
Proof.
  intros j y. rewrite !get_file_map. intros H.
  assert (N.to_nat j < length ds)%nat by (apply nth_error_Some; congruence).
  rewrite nth_error_app1 by lia. exists []; now rewrite app_nil_r.
Qed.

Lemma Forall2_mono {A B} (R S : A -> B -> Prop) l1 l2 :
  (forall a b, R a b -> S a b) -> Forall2 R l1 l2 -> Forall2 S l1 l2.
Proof. intros H F; induction F; constructor; auto. Qed.

Lemma Forall2_len {A B} (R : A -> B -> Prop) l1 l2 : Forall2 R l1 l2 -> length l1 = length l2.
Proof. intros F; induction F; simpl; auto. Qed.

(* ------------------------------------------------------------ the store *)

Section Flat.
Variable max : N.
Variable net : N.
Variable cksum : bytes -> bytes.
Hypothesis Hck : forall x, length (cksum x) = 4%nat.
Hypothesis Hmax : max < 4294967296.
Hypothesis Hnet : net < 4294967296.

Notation record := (record net cksum).
Notation pieces := (pieces net cksum).
Notation write_block := (write_block max net cksum).
Notation read_block := (read_block net cksum).

Definition fits (raw : bytes) : Prop := len raw + 12 <= max.

Lemma len_ck x : len (cksum x) = 4.
Proof. unfold len; now rewrite Hck. Qed.

Lemma blen_fits raw : fits raw -> blen_of raw = len raw.
Proof. intros H; unfold blen_of; apply u32_small; unfold fits in H; lia. Qed.
Lemma full_fits raw : fits raw -> full_len raw = len raw + 12.
Proof. intros H; unfold full_len; rewrite blen_fits by auto; apply u32_small; unfold fits in H; lia. Qed.

Lemma record_eq raw :
  record raw = le32 net ++ le32 (blen_of raw) ++ raw ++ cksum (le32 net ++ le32 (blen_of raw) ++ raw).
Proof. unfold C18_Flat.record, C18_Flat.pieces. simpl. now rewrite app_nil_r. Qed.
Lemma len_record raw : len (record raw) = len raw + 12.
Proof. rewrite record_eq, !len_app, !le32_len, len_ck. lia. Qed.

Lemma rollover_spec off raw :
  off <= max -> fits raw -> rollover_needed max off raw = (max <? off + (len raw + 12)).
Proof.
  intros Ho Hf. unfold rollover_needed. rewrite full_fits by auto. unfold fits in Hf. unfold u32.
  destruct (N.ltb_spec max (off + (len raw + 12))) as [H|H].
  - apply orb_true_iff. rewrite !N.ltb_lt. zlia.
  - apply orb_false_iff. rewrite !N.ltb_ge. zlia.
Qed.

Definition good_store (st : store) : Prop :=
  s_off st <= max /\ (st = mkstore [] 0 0 \/ exists ds0 d, st = active ds0 d).

Lemma write_block_spec st raw :
  good_store st -> fits raw -> s_file st + 1 < 4294967296 ->
  exists ds0 d,
    write_block st raw = (active ds0 (d ++ record raw),
                          mkloc (N.of_nat (length ds0)) (len d) (len raw + 12)) /\
    len d + (len raw + 12) <= max /\
    N.of_nat (length ds0) <= s_file st + 1 /\
    fext (s_files st) (map Some (ds0 ++ [d ++ record raw])).
Proof.
  intros [Hoff Hst] Hf Hfile. pose proof Hf as Hf'. unfold fits in Hf'.
  unfold C18_Flat.write_block, roll. rewrite rollover_spec by auto. rewrite full_fits by auto.
  destruct Hst as [->|(ds0 & d & ->)].
  - (* fresh directory *)
    cbn [s_off s_file s_files].
    replace (max <? 0 + (len raw + 12)) with false by (symmetry; apply N.ltb_ge; lia).
    cbn [s_off s_file s_files].
    exists [], [].
    unfold ensure_file. rewrite get_file_nil.
    change (mkstore (set_file [] 0 []) 0 0) with (active [] []).
    rewrite write_pieces by (fold (record raw); rewrite len_record; change (len []) with 0; lia).
    repeat split; try (simpl; lia). apply fext_nil.
  - change (s_off (active ds0 d)) with (len d) in *.
    change (s_file (active ds0 d)) with (N.of_nat (length ds0)) in *.
    change (s_files (active ds0 d)) with (map Some (ds0 ++ [d])) in *.
    destruct (N.ltb_spec max (len d + (len raw + 12))) as [Hr|Hr]; cbn [s_off s_file s_files].
    + (* roll over to a new file *)
      exists (ds0 ++ [d]), [].
      assert (E : u32 (N.of_nat (length ds0) + 1) = N.of_nat (length (ds0 ++ [d]))).
      { rewrite u32_small by lia. rewrite app_length; simpl; lia. }
      rewrite E. unfold ensure_file. rewrite get_file_map, Nat2N.id.
      replace (nth_error (ds0 ++ [d]) (length (ds0 ++ [d]))) with (@None bytes)
        by (symmetry; apply nth_error_None; lia).
      unfold set_file. rewrite Nat2N.id, set_nth_new_some.
      change (mkstore (map Some ((ds0 ++ [d]) ++ [[]])) (N.of_nat (length (ds0 ++ [d]))) 0)
        with (active (ds0 ++ [d]) []).
      rewrite write_pieces by (fold (record raw); rewrite len_record; change (len []) with 0; lia).
      repeat split; try (change (len []) with 0; lia).
      * rewrite app_length; simpl; lia.
      * apply fext_new.
    + (* append to the current file *)
      exists ds0, d.
      change (s_off (active ds0 d)) with (len d).
      change (s_file (active ds0 d)) with (N.of_nat (length ds0)).
      change (s_files (active ds0 d)) with (map Some (ds0 ++ [d])).
      unfold ensure_file. rewrite get_file_active.
      change (mkstore (map Some (ds0 ++ [d])) (N.of_nat (length ds0)) (len d)) with (active ds0 d).
      rewrite write_pieces by (fold (record raw); rewrite len_record; lia).
      repeat split; try lia. apply fext_grow.
Qed.

(* a record placed in a directory at a location *)
Definition placed (fs : files) (l : loc) (raw : bytes) : Prop :=
  exists d pre post, get_file fs (l_file l) = Some d /\ d = pre ++ record raw ++ post /\
    len pre = l_off l /\ l_len l = len raw + 12 /\
    l_file l < 4294967296 /\ l_off l + l_len l <= max.

Lemma placed_ext fs fs' l raw : fext fs fs' -> placed fs l raw -> placed fs' l raw.
Proof.
  intros Hx (d & pre & post & Hg & -> & Hp & Hl & Hf & Hm).
  destruct (Hx _ _ Hg) as [suf Hs].
  exists ((pre ++ record raw ++ post) ++ suf), pre, (post ++ suf). repeat split; auto.
  now rewrite <- !app_assoc.
Qed.

Lemma read_at_mid pre mid post :
  read_at (pre ++ mid ++ post) (len pre) (len mid) = Some mid.
Proof.
  unfold read_at. rewrite dropN_app_exact, takeN_app_exact, N.ltb_irrefl. reflexivity.
Qed.

Lemma read_block_placed fs l raw : placed fs l raw -> read_block fs l = Ok raw.
Proof.
  intros (d & pre & post & Hg & -> & Hp & Hl & Hf & Hm).
  assert (Hfit : fits raw) by (unfold fits; lia).
  unfold C18_Flat.read_block. rewrite Hg, <- Hp, Hl, <- len_record, read_at_mid.
  rewrite len_record.
  replace (len raw + 12 <? 4) with false by (symmetry; apply N.ltb_ge; lia).
  replace (len raw + 12 <? 12) with false by (symmetry; apply N.ltb_ge; lia).
  replace (len raw + 12 - 4) with (len (le32 net ++ le32 (blen_of raw) ++ raw))
    by (rewrite !len_app, !le32_len; lia).
  replace (len raw + 12 - 12) with (len raw) by lia.
  rewrite record_eq.
  rewrite !app_assoc, dropN_app_exact, takeN_app_exact, bytes_eqb_refl. cbn [negb].
  rewrite <- !app_assoc, take4_le32, de_le32_le32, N.eqb_refl by exact Hnet. cbn [negb].
  change 8 with (len (le32 net) + 4). rewrite dropN_app_add, drop4_le32, takeN_app_exact.
  reflexivity.
Qed.

(* ------------------------------------------------------------ regions *)

Definition region_spec (raw : bytes) (off n : N) : res bytes :=
  if off + n <=? len raw then Ok (takeN n (dropN off raw)) else Err ERegion.

Lemma fetch_region_placed fs l raw off n :
  placed fs l raw -> off < 4294967296 -> n < 4294967296 ->
  fetch_region fs l off n = region_spec raw off n.
Proof.
  intros (d & pre & post & Hg & -> & Hp & Hl & Hf & Hm) Ho Hn.
  unfold fetch_region, region_ok, region_spec. rewrite Hl.
  destruct (N.leb_spec (off + n) (len raw)) as [Hin|Hout].
  - rewrite u32_small by lia.
    replace (off + n <? off) with false by (symmetry; apply N.ltb_ge; lia).
    replace (len raw + 12 <? off + n + 12) with false by (symmetry; apply N.ltb_ge; lia).
    simpl. unfold read_region. rewrite Hg, u32_small by lia.
    unfold read_at. rewrite record_eq.
    replace (l_off l + 8 + off) with (len (pre ++ le32 net ++ le32 (blen_of raw)) + off)
      by (rewrite !len_app, !le32_len; lia).
    replace (pre ++ (le32 net ++ le32 (blen_of raw) ++ raw ++ cksum (le32 net ++ le32 (blen_of raw) ++ raw)) ++ post)
      with ((pre ++ le32 net ++ le32 (blen_of raw)) ++ (raw ++ cksum (le32 net ++ le32 (blen_of raw) ++ raw) ++ post))
      by (now rewrite <- !app_assoc).
    rewrite dropN_app_add, dropN_app_le by lia.
    rewrite takeN_app_le by (rewrite len_dropN; lia).
    rewrite len_takeN by (rewrite len_dropN; lia). now rewrite N.ltb_irrefl.
  - replace ((u32 (off + n) <? off) || (len raw + 12 <? u32 (off + n) + 12)) with true; [reflexivity|].
    symmetry. apply orb_true_iff. rewrite !N.ltb_lt. unfold u32. zlia.
Qed.

Lemma pending_region_spec raw off n :
  len raw < 4294967296 -> off < 4294967296 -> n < 4294967296 ->
  pending_region raw off n = region_spec raw off n.
Proof.
  intros Hr Ho Hn. unfold pending_region, region_spec. rewrite (u32_small (len raw)) by auto.
  destruct (N.leb_spec (off + n) (len raw)) as [Hin|Hout].
  - rewrite u32_small by lia.
    replace (off + n <? off) with false by (symmetry; apply N.ltb_ge; lia).
    replace (len raw <? off + n) with false by (symmetry; apply N.ltb_ge; lia).
    simpl. now replace (off + n - off) with n by lia.
  - replace ((u32 (off + n) <? off) || (len raw <? u32 (off + n))) with true; [reflexivity|].
    symmetry. apply orb_true_iff. rewrite !N.ltb_lt. unfold u32. zlia.
Qed.

(* ------------------------------------------------------------ reopen *)

Lemma scan_some ds0 d : forall i last,
  scan (map Some (ds0 ++ [d])) i last = (i + N.of_nat (length ds0), u32 (len d)).
Proof.
  induction ds0 as [|a ds0 IH]; intros i last; simpl.
  - now rewrite N.add_0_r.
  - rewrite IH. f_equal. lia.
Qed.

Lemma cursor_lt_irrefl c : cursor_lt c c = false.
Proof. unfold cursor_lt. now rewrite !N.ltb_irrefl, andb_false_r. Qed.

Lemma reconcile_good st :
  good_store st -> reconcile (s_files st) (s_file st, s_off st) = Ok st.
Proof.
  intros [Hoff [->|(ds0 & d & ->)]]; unfold reconcile.
  - simpl. reflexivity.
  - simpl s_files; simpl s_file; simpl s_off in *. unfold scan_cursor. rewrite scan_some.
    rewrite u32_small by lia. simpl fst; simpl snd. rewrite N.add_0_l.
    rewrite cursor_lt_irrefl. simpl s_file; simpl s_off. rewrite cursor_lt_irrefl. reflexivity.
Qed.

Lemma deser_ser_wrow f o :
  f < 4294967296 -> o < 4294967296 -> deser_wrow cksum (ser_wrow cksum f o) = Ok (f, o).
Proof.
  intros Hf Ho. unfold deser_wrow, ser_wrow.
  replace (len ((le32 f ++ le32 o) ++ rev (cksum (le32 f ++ le32 o))) <? 12) with false
    by (rewrite !len_app, len_rev, len_ck, !le32_len; reflexivity).
  replace 8 with (len (le32 f ++ le32 o)) by reflexivity.
  rewrite takeN_app_exact, dropN_app_exact.
  rewrite takeN_all by (rewrite len_rev, len_ck; lia). rewrite bytes_eqb_refl.
  rewrite <- app_assoc, take4_le32, drop4_le32, take4_le32. now rewrite !de_le32_le32.
Qed.

(* ------------------------------------------------------------ the database *)

Notation db_commit := (db_commit max net cksum).
Notation run := (run max net cksum).

Definition row_ok (fs : files) (row raw : bytes) : Prop :=
  exists l, row = ser_loc l /\ placed fs l raw.

Definition inv (d : db) (bs : list bytes) : Prop :=
  good_store (d_st d) /\
  d_wrow d = ser_wrow cksum (s_file (d_st d)) (s_off (d_st d)) /\
  s_file (d_st d) <= N.of_nat (length bs) /\
  Forall2 (row_ok (s_files (d_st d))) (d_rows d) bs.

Lemma good_active ds0 d : len d <= max -> good_store (active ds0 d).
Proof. intros H; split; [exact H|right; now exists ds0, d]. Qed.

Lemma commit_fold blocks : forall st rows bs st' rows',
  good_store st -> s_file st <= N.of_nat (length bs) ->
  Forall2 (row_ok (s_files st)) rows bs ->
  Forall fits blocks -> N.of_nat (length (bs ++ blocks)) < 4294967296 ->
  fold_left (commit_step max net cksum) blocks (st, rows) = (st', rows') ->
  good_store st' /\ s_file st' <= N.of_nat (length (bs ++ blocks)) /\
  Forall2 (row_ok (s_files st')) rows' (bs ++ blocks).
Proof.
  induction blocks as [|raw blocks IH]; intros st rows bs st' rows' Hg Hfile Hrows Hfits Hcount Hfold.
  - simpl in Hfold. injection Hfold as <- <-. rewrite app_nil_r. auto.
  - cbn [fold_left] in Hfold. inversion Hfits as [|? ? Hf Hfs]; subst.
    rewrite app_length in Hcount; simpl in Hcount.
    destruct (write_block_spec st raw Hg Hf ltac:(lia)) as (ds0 & d & Hw & Hlen & Hfn & Hext).
    unfold commit_step at 2 in Hfold. rewrite Hw in Hfold.
    replace (bs ++ raw :: blocks) with ((bs ++ [raw]) ++ blocks) by (now rewrite <- app_assoc).
    eapply IH; [| | |exact Hfs| |exact Hfold].
    + apply good_active. rewrite len_app, len_record. lia.
    + simpl s_file. rewrite app_length; simpl. lia.
    + apply Forall2_app.
      * eapply Forall2_mono; [|exact Hrows]. intros row r (l & -> & Hp). exists l; split; auto.
        eapply placed_ext; eauto.
      * constructor; [|constructor]. eexists; split; [reflexivity|].
        exists (d ++ record raw), d, []. simpl l_file; simpl l_off; simpl l_len.
        rewrite app_nil_r. repeat split; try lia.
        apply get_file_active.
    + rewrite !app_length; simpl. lia.
Qed.

Lemma commit_inv d bs blocks :
  inv d bs -> Forall fits blocks -> N.of_nat (length (bs ++ blocks)) < 4294967296 ->
  inv (db_commit d blocks) (bs ++ blocks).
Proof.
  intros (Hg & Hw & Hf & Hr) Hfits Hc. unfold C18_Flat.db_commit.
  destruct (fold_left (commit_step max net cksum) blocks (d_st d, d_rows d)) as [st' rows'] eqn:E.
  destruct (commit_fold _ _ _ _ _ _ Hg Hf Hr Hfits Hc E) as (Hg' & Hf' & Hr').
  unfold inv; cbn [d_st d_rows d_wrow]. auto.
Qed.

Lemma reopen_inv d bs :
  inv d bs -> N.of_nat (length bs) < 4294967296 -> db_reopen cksum d = Ok d.
Proof.
  intros (Hg & Hw & Hf & Hr) Hc. unfold db_reopen. rewrite Hw.
  rewrite deser_ser_wrow by (destruct Hg; lia).
  rewrite reconcile_good by auto. destruct d as [st rows wrow]; simpl in *. now rewrite Hw.
Qed.

Definition ev_ok (e : ev) : Prop :=
  match e with ECommit bs => Forall fits bs | EReopen => True end.

Lemma run_inv h : forall d bs,
  inv d bs -> Forall ev_ok h -> N.of_nat (length (bs ++ blocks_of h)) < 4294967296 ->
  exists d', run d h = Ok d' /\ inv d' (bs ++ blocks_of h).
Proof.
  induction h as [|e h IH]; intros d bs Hi Hok Hc; simpl.
  - exists d. rewrite app_nil_r. auto.
  - inversion Hok as [|? ? He Hh]; subst. destruct e as [blocks|]; simpl in *.
    + rewrite app_assoc in *. apply IH; auto.
      apply commit_inv; auto. rewrite !app_length in *. lia.
    + rewrite (reopen_inv d bs Hi) by (rewrite app_length in Hc; lia). apply IH; auto.
Qed.

Lemma inv0 : inv (db0 cksum) [].
Proof.
  unfold inv, db0; cbn [d_st d_rows d_wrow s_file s_off s_files].
  split; [split; [cbn [s_off]; lia|now left]|]. split; [reflexivity|]. split; [simpl; lia|constructor].
Qed.

Lemma Forall2_nth_r {A B} (R : A -> B -> Prop) l1 l2 i b :
  Forall2 R l1 l2 -> nth_error l2 i = Some b ->
  exists a, nth_error l1 i = Some a /\ R a b.
Proof.
  intros H; revert i; induction H; intros [|i] Hn; simpl in *; try discriminate.
  - injection Hn as <-. eauto.
  - eauto.
Qed.

Lemma row_of_nth d i row :
  nth_error (d_rows d) i = Some row -> row_of d (N.of_nat i) = Some row.
Proof.
  intros H. unfold row_of.
  assert (i < length (d_rows d))%nat by (apply nth_error_Some; congruence).
  replace (N.of_nat (length (d_rows d)) <=? N.of_nat i) with false by (symmetry; apply N.leb_gt; lia).
  now rewrite Nat2N.id.
Qed.

Lemma placed_bounds fs l raw : placed fs l raw ->
  l_file l < 4294967296 /\ l_off l < 4294967296 /\ l_len l < 4294967296.
Proof. intros (d & pre & post & _ & _ & _ & _ & Hf & Hm). lia. Qed.

(* the state reached by any admissible history serves every stored block *)
Lemma served d bs i raw :
  inv d bs -> nth_error bs i = Some raw ->
  exists l, row_of d (N.of_nat i) = Some (ser_loc l) /\ deser_loc (ser_loc l) = l /\
            placed (s_files (d_st d)) l raw.
Proof.
  intros (_ & _ & _ & Hr) Hn.
  destruct (Forall2_nth_r _ _ _ _ _ Hr Hn) as (row & Hrow & l & -> & Hp).
  exists l. split; [now apply row_of_nth|]. split; auto.
  destruct (placed_bounds _ _ _ Hp) as (? & ? & ?). now apply deser_ser_loc.
Qed.

Definition hist_ok (h : list ev) : Prop :=
  Forall ev_ok h /\ N.of_nat (length (blocks_of h)) < 4294967296.

Lemma run_total h : hist_ok h -> exists d, run (db0 cksum) h = Ok d /\ inv d (blocks_of h).
Proof. intros [H1 H2]. apply (run_inv h (db0 cksum) [] inv0 H1). exact H2. Qed.

Lemma history_never_fails h : hist_ok h -> exists d, run (db0 cksum) h = Ok d.
Proof. intros Hh. destruct (run_total h Hh) as (d & Hd & _). now exists d. Qed.

Lemma read_write h d i raw :
  hist_ok h -> run (db0 cksum) h = Ok d -> nth_error (blocks_of h) i = Some raw ->
  db_fetch net cksum d (N.of_nat i) = Ok raw.
Proof.
  intros Hh Hrun Hn. destruct (run_total h Hh) as (d' & Hr & Hi). rewrite Hrun in Hr. injection Hr as <-.
  destruct (served _ _ _ _ Hi Hn) as (l & Hrow & Hds & Hp).
  unfold db_fetch. rewrite Hrow, Hds. now apply read_block_placed.
Qed.

Lemma region_stored h d i raw off n :
  hist_ok h -> run (db0 cksum) h = Ok d -> nth_error (blocks_of h) i = Some raw ->
  off < 4294967296 -> n < 4294967296 ->
  db_region d (N.of_nat i) off n = region_spec raw off n.
Proof.
  intros Hh Hrun Hn Ho Hnn. destruct (run_total h Hh) as (d' & Hr & Hi). rewrite Hrun in Hr. injection Hr as <-.
  destruct (served _ _ _ _ Hi Hn) as (l & Hrow & Hds & Hp).
  unfold db_region. rewrite Hrow, Hds. now apply fetch_region_placed.
Qed.

Lemma region_is_slice h d i raw off n :
  hist_ok h -> run (db0 cksum) h = Ok d -> nth_error (blocks_of h) i = Some raw ->
  off + n <= len raw ->
  db_region d (N.of_nat i) off n = Ok (takeN n (dropN off raw)).
Proof.
  intros Hh Hrun Hn Hb.
  assert (Hfit : len raw + 12 <= max).
  { destruct (run_total h Hh) as (d' & Hr & Hi). destruct (served _ _ _ _ Hi Hn) as (l & _ & _ & Hp).
    destruct Hp as (? & ? & ? & _ & _ & _ & Hl & _ & Hm). lia. }
  rewrite (region_stored h d i raw off n) by (auto; lia).
  unfold region_spec. now replace (off + n <=? len raw) with true by (symmetry; apply N.leb_le; lia).
Qed.

Lemma region_oob_rejected h d i raw off n :
  hist_ok h -> run (db0 cksum) h = Ok d -> nth_error (blocks_of h) i = Some raw ->
  off < 4294967296 -> n < 4294967296 -> len raw < off + n ->
  db_region d (N.of_nat i) off n = Err ERegion.
Proof.
  intros Hh Hrun Hn Ho Hnn Hb. rewrite (region_stored h d i raw off n) by auto.
  unfold region_spec. now replace (off + n <=? len raw) with false by (symmetry; apply N.leb_gt; lia).
Qed.

Lemma header_prefix h d i raw :
  hist_ok h -> run (db0 cksum) h = Ok d -> nth_error (blocks_of h) i = Some raw ->
  db_header d (N.of_nat i) = if hdr_size <=? len raw then Ok (takeN hdr_size raw) else Err ERegion.
Proof.
  intros Hh Hrun Hn. unfold db_header. rewrite (region_stored h d i raw 0 hdr_size) by (auto; reflexivity).
  unfold region_spec. now rewrite N.add_0_l, dropN_0.
Qed.

(* a region read inside the storing transaction (block not yet written)
   answers exactly like the read after commit *)
Lemma pending_agrees h d pending j raw off n :
  hist_ok h -> run (db0 cksum) h = Ok d -> nth_error pending j = Some raw ->
  len raw < 4294967296 -> off < 4294967296 -> n < 4294967296 ->
  tx_region d pending (N.of_nat (length (blocks_of h) + j)) off n = region_spec raw off n.
Proof.
  intros Hh Hrun Hn Hr Ho Hnn. destruct (run_total h Hh) as (d' & Hr' & Hi). rewrite Hrun in Hr'. injection Hr' as <-.
  destruct Hi as (_ & _ & _ & Hrows). apply Forall2_len in Hrows.
  assert (j < length pending)%nat by (apply nth_error_Some; congruence).
  unfold tx_region. rewrite Hrows.
  replace (N.of_nat (length (blocks_of h) + j) <? N.of_nat (length (blocks_of h))) with false
    by (symmetry; apply N.ltb_ge; lia).
  replace (N.of_nat (length (blocks_of h) + j) - N.of_nat (length (blocks_of h))) with (N.of_nat j) by lia.
  replace (N.of_nat (length pending) <=? N.of_nat j) with false by (symmetry; apply N.leb_gt; lia).
  rewrite Nat2N.id, Hn. now apply pending_region_spec.
Qed.

(* a bulk request over stored blocks is the map of the single-region reads *)
Lemma bulk_regions h d (reqs : list (nat * N * N)) :
  hist_ok h -> run (db0 cksum) h = Ok d ->
  Forall (fun q => snd (fst q) < 4294967296 /\ snd q < 4294967296 /\
                   (fst (fst q) < length (blocks_of h))%nat) reqs ->
  tx_regions d [] (map (fun q => (N.of_nat (fst (fst q)), snd (fst q), snd q)) reqs) =
  bulk (map (fun q => match nth_error (blocks_of h) (fst (fst q)) with
                      | Some raw => region_spec raw (snd (fst q)) (snd q)
                      | None => Err ENotFound
                      end) reqs).
Proof.
  intros Hh Hrun Hall. unfold tx_regions. rewrite map_map. f_equal.
  apply map_ext_in. intros [[i off] n] Hin. cbn [fst snd].
  rewrite Forall_forall in Hall. destruct (Hall _ Hin) as (Ho & Hn & Hi). cbn [fst snd] in *.
  destruct (nth_error (blocks_of h) i) as [raw|] eqn:E; [|apply nth_error_None in E; lia].
  destruct (run_total h Hh) as (d' & Hr & Hinv). rewrite Hrun in Hr. injection Hr as <-.
  pose proof Hinv as (_ & _ & _ & Hrows). apply Forall2_len in Hrows.
  unfold tx_region. rewrite Hrows.
  replace (N.of_nat i <? N.of_nat (length (blocks_of h))) with true by (symmetry; apply N.ltb_lt; lia).
  now apply (region_stored h d i raw off n).
Qed.

(* rollover never splits a record: it lies entirely inside one file, below
   the maximum file size, at the recorded location *)
Lemma never_split h d i raw :
  hist_ok h -> run (db0 cksum) h = Ok d -> nth_error (blocks_of h) i = Some raw ->
  exists l f, row_of d (N.of_nat i) = Some (ser_loc l) /\
    get_file (s_files (d_st d)) (l_file l) = Some f /\
    takeN (l_len l) (dropN (l_off l) f) = record raw /\
    l_len l = len raw + 12 /\ l_off l + l_len l <= len f /\ l_off l + l_len l <= max.
Proof.
  intros Hh Hrun Hn. destruct (run_total h Hh) as (d' & Hr & Hi). rewrite Hrun in Hr. injection Hr as <-.
  destruct (served _ _ _ _ Hi Hn) as (l & Hrow & _ & (f & pre & post & Hg & -> & Hp & Hl & Hf & Hm)).
  exists l, (pre ++ record raw ++ post). repeat split; auto.
  - rewrite <- Hp, Hl, <- len_record. now rewrite dropN_app_exact, takeN_app_exact.
  - rewrite !len_app, len_record. lia.
Qed.

End Flat.
