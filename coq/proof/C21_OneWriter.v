(* C21 — from block validity to the discipline hypothesis.

   The node processes at most one transaction per producer (and fresh output
   references / nicknames) per block, so within one block a coordinate of the
   state is written by at most one change unless all its updates are
   additions (votes, deposits).  Under exactly that rule the block-level
   discipline follows from the discipline of each change on its own. *)
From Coq Require Import ZArith NArith List Bool Lia.
From ELA Require Import lib.History model.C21_Dpos proof.C21_Dpos.
Import ListNotations.
Local Open Scope Z_scope.

Definition touches (j : nat) (c : dchg) : bool :=
  existsb (targets j) (d_do c) || existsb (targets j) (d_undo c).

Definition only_adds (j : nat) (c : dchg) : bool :=
  forallb (add_or_other j) (d_do c) && forallb (add_or_other j) (d_undo c).

(* at most one change of a coordinate per height unless additive *)
Definition one_writer (s : vec) (cs : list dchg) : bool :=
  forallb (fun j => Nat.leb (length (filter (touches j) cs)) 1 || forallb (only_adds j) cs)
          (seq 0 (length s)).

(* every change is disciplined on its own *)
Definition each_disciplined (s : vec) (cs : list dchg) : bool :=
  forallb (fun c => changes_disciplined s [c]) cs.

(* ---- list facts ---- *)
Lemma existsb_flat_map {A B} (f : A -> list B) (g : B -> bool) l :
  existsb g (flat_map f l) = existsb (fun a => existsb g (f a)) l.
Proof. induction l as [|a r IH]; simpl; auto. rewrite existsb_app, IH. reflexivity. Qed.

Lemma forallb_flat_map {A B} (f : A -> list B) (g : B -> bool) l :
  forallb g (flat_map f l) = forallb (fun a => forallb g (f a)) l.
Proof. induction l as [|a r IH]; simpl; auto. rewrite forallb_app, IH. reflexivity. Qed.

Lemma add_sum_app j a b : add_sum j (a ++ b) = add_sum j a + add_sum j b.
Proof.
  induction a as [|p r IH]; simpl; [lia|]. destruct p; auto. destruct (Nat.eqb i j); lia.
Qed.

Lemma add_sum_untouched j ps : existsb (targets j) ps = false -> add_sum j ps = 0.
Proof.
  induction ps as [|p r IH]; simpl; auto. intros H. apply orb_false_iff in H. destruct H as [H1 H2].
  rewrite (IH H2). destruct p; auto. destruct (Nat.eqb i j) eqn:E; auto.
  apply Nat.eqb_eq in E. subst. unfold targets in H1. simpl in H1. rewrite Nat.eqb_refl in H1. discriminate.
Qed.

Lemma add_or_other_untouched j ps : existsb (targets j) ps = false -> forallb (add_or_other j) ps = true.
Proof.
  induction ps as [|p r IH]; simpl; auto. intros H. apply orb_false_iff in H. destruct H as [H1 H2].
  rewrite (IH H2). unfold add_or_other. rewrite H1. reflexivity.
Qed.

Lemma filter_untouched j ps : existsb (targets j) ps = false -> filter (targets j) ps = [].
Proof.
  induction ps as [|p r IH]; simpl; auto. intros H. apply orb_false_iff in H. destruct H as [H1 H2].
  rewrite H1. auto.
Qed.

Lemma last_toucher_app j a b :
  last_toucher j (a ++ b) = match last_toucher j b with Some q => Some q | None => last_toucher j a end.
Proof.
  induction a as [|p r IH]; simpl.
  - destruct (last_toucher j b); reflexivity.
  - rewrite IH. destruct (last_toucher j b); reflexivity.
Qed.

Lemma last_toucher_untouched j ps : existsb (targets j) ps = false -> last_toucher j ps = None.
Proof.
  induction ps as [|p r IH]; simpl; auto. intros H. apply orb_false_iff in H. destruct H as [H1 H2].
  rewrite (IH H2), H1. reflexivity.
Qed.

Lemma last_toucher_in j ps q : last_toucher j ps = Some q -> In q ps /\ targets j q = true.
Proof.
  induction ps as [|p r IH]; simpl; [discriminate|].
  destruct (last_toucher j r) as [q'|].
  - intros H. inversion H; subst. destruct (IH eq_refl); auto.
  - destruct (targets j p) eqn:T; [|discriminate]. intros H. inversion H; subst. auto.
Qed.

Lemma filter_app_ {A} (f : A -> bool) a b : filter f (a ++ b) = filter f a ++ filter f b.
Proof. induction a as [|x r IH]; simpl; auto. destruct (f x); simpl; rewrite IH; reflexivity. Qed.

Lemma untouched_do j c : touches j c = false -> existsb (targets j) (d_do c) = false.
Proof. unfold touches. intros H. apply orb_false_iff in H. tauto. Qed.
Lemma untouched_undo j c : touches j c = false -> existsb (targets j) (d_undo c) = false.
Proof. unfold touches. intros H. apply orb_false_iff in H. tauto. Qed.

Lemma none_touch_dos j cs : filter (touches j) cs = [] -> existsb (targets j) (all_dos cs) = false.
Proof.
  induction cs as [|c r IH]; simpl; auto. destruct (touches j c) eqn:T; [discriminate|].
  intros H. unfold all_dos in *. simpl. rewrite existsb_app, (untouched_do j c T). simpl. auto.
Qed.
Lemma none_touch_undos j cs : filter (touches j) cs = [] -> existsb (targets j) (all_undos cs) = false.
Proof.
  induction cs as [|c r IH]; simpl; auto. destruct (touches j c) eqn:T; [discriminate|].
  intros H. unfold all_undos in *. simpl. rewrite existsb_app, (untouched_undo j c T). simpl. auto.
Qed.

(* the block's lists around the single change that touches j *)
Lemma single_split j cs c0 : filter (touches j) cs = [c0] ->
  exists l1 l2, cs = l1 ++ c0 :: l2 /\ filter (touches j) l1 = [] /\ filter (touches j) l2 = [].
Proof.
  induction cs as [|c r IH]; simpl; [discriminate|].
  destruct (touches j c) eqn:T.
  - intros H. inversion H; subst. exists [], r. auto.
  - intros H. destruct (IH H) as [l1 [l2 [E [A B]]]]. exists (c :: l1), l2. subst. simpl. rewrite T. auto.
Qed.

Lemma all_dos_app a b : all_dos (a ++ b) = all_dos a ++ all_dos b.
Proof. unfold all_dos. apply flat_map_app. Qed.
Lemma all_undos_app a b : all_undos (a ++ b) = all_undos a ++ all_undos b.
Proof. unfold all_undos. apply flat_map_app. Qed.

Lemma coord_ok_single s j cs c0 :
  filter (touches j) cs = [c0] -> coord_ok s cs j = coord_ok s [c0] j.
Proof.
  intros H. destruct (single_split j cs c0 H) as [l1 [l2 [E [A B]]]]. subst cs.
  pose proof (none_touch_dos j l1 A) as D1. pose proof (none_touch_dos j l2 B) as D2.
  pose proof (none_touch_undos j l1 A) as U1. pose proof (none_touch_undos j l2 B) as U2.
  unfold coord_ok.
  replace (l1 ++ c0 :: l2) with (l1 ++ [c0] ++ l2) by reflexivity.
  rewrite !all_dos_app, !all_undos_app.
  set (Dc := all_dos [c0]). set (Uc := all_undos [c0]).
  rewrite !existsb_app, D1, D2, U1, U2, !orb_false_r. simpl orb.
  rewrite !last_toucher_app, (last_toucher_untouched j _ U1), (last_toucher_untouched j _ U2).
  rewrite !forallb_app, (add_or_other_untouched j _ D1), (add_or_other_untouched j _ D2),
          (add_or_other_untouched j _ U1), (add_or_other_untouched j _ U2), !andb_true_r. simpl andb.
  rewrite !add_sum_app, (add_sum_untouched j _ D1), (add_sum_untouched j _ D2),
          (add_sum_untouched j _ U1), (add_sum_untouched j _ U2).
  rewrite !filter_app_, (filter_untouched j _ D1), (filter_untouched j _ D2),
          (filter_untouched j _ U1), (filter_untouched j _ U2), !app_nil_r. simpl app.
  replace (0 + (add_sum j Dc + 0) + (0 + (add_sum j Uc + 0))) with (add_sum j Dc + add_sum j Uc) by lia.
  destruct (last_toucher j Uc); reflexivity.
Qed.

(* a change that only adds on j and is disciplined alone adds up to zero on j *)
Lemma single_adds_zero s j c :
  coord_ok s [c] j = true -> only_adds j c = true -> add_sum j (d_do c) + add_sum j (d_undo c) = 0.
Proof.
  intros H O. unfold only_adds in O. apply andb_true_iff in O. destruct O as [OD OU].
  unfold coord_ok, all_dos, all_undos in H. simpl in H. rewrite !app_nil_r in H.
  apply orb_true_iff in H. destruct H as [H|H4].
  apply orb_true_iff in H. destruct H as [H|H3].
  apply orb_true_iff in H. destruct H as [H1|H2].
  - apply andb_true_iff in H1. destruct H1 as [A B]. apply negb_true_iff in A. apply negb_true_iff in B.
    rewrite (add_sum_untouched j _ A), (add_sum_untouched j _ B). reflexivity.
  - destruct (last_toucher j (d_undo c)) as [q|] eqn:E; [|discriminate].
    destruct (last_toucher_in j _ q E) as [Hin T].
    rewrite forallb_forall in OU. specialize (OU q Hin). unfold add_or_other in OU. rewrite T in OU.
    destruct q; simpl in OU; discriminate.
  - apply andb_true_iff in H3. destruct H3 as [_ S0]. apply Z.eqb_eq in S0. exact S0.
  - destruct (filter (targets j) (d_do c)) as [|qd ld]; [discriminate|].
    destruct qd; try discriminate. destruct ld; [|discriminate].
    destruct (filter (targets j) (d_undo c)) as [|qu lu] eqn:FU; [discriminate|].
    destruct qu; try discriminate.
    assert (Hin : In (PSubSat i0 p) (filter (targets j) (d_undo c))) by (rewrite FU; left; reflexivity).
    apply filter_In in Hin. destruct Hin as [Hin T].
    rewrite forallb_forall in OU. specialize (OU _ Hin). unfold add_or_other in OU. rewrite T in OU.
    simpl in OU. discriminate.
Qed.

Theorem one_writer_discipline s cs :
  each_disciplined s cs = true -> one_writer s cs = true -> changes_disciplined s cs = true.
Proof.
  intros HE HO. unfold changes_disciplined. apply forallb_forall. intros j Hj.
  unfold one_writer in HO. rewrite forallb_forall in HO. specialize (HO j Hj).
  unfold each_disciplined in HE. rewrite forallb_forall in HE.
  assert (Hc : forall c, In c cs -> coord_ok s [c] j = true).
  { intros c Hc. specialize (HE c Hc). unfold changes_disciplined in HE. rewrite forallb_forall in HE. auto. }
  apply orb_true_iff in HO. destruct HO as [H1|HA].
  - (* at most one change touches j *)
    destruct (filter (touches j) cs) as [|c0 [|c1 r]] eqn:F.
    + unfold coord_ok. rewrite (none_touch_dos j cs F), (none_touch_undos j cs F). reflexivity.
    + rewrite (coord_ok_single s j cs c0 F). apply Hc.
      assert (In c0 (filter (touches j) cs)) by (rewrite F; left; reflexivity).
      apply filter_In in H. tauto.
    + simpl in H1. discriminate.
  - (* every update of j in the block is an addition *)
    rewrite forallb_forall in HA.
    assert (S0 : forallb (add_or_other j) (all_dos cs) = true /\ forallb (add_or_other j) (all_undos cs) = true /\
                 add_sum j (all_dos cs) + add_sum j (all_undos cs) = 0).
    { clear Hj. induction cs as [|c r IH]; [simpl; auto|].
      assert (Oc : only_adds j c = true) by (apply HA; left; reflexivity).
      destruct IH as [I1 [I2 I3]]; [intros; apply HE; right; auto|intros; apply HA; right; auto|intros; apply Hc; right; auto|].
      pose proof (single_adds_zero s j c (Hc c (or_introl eq_refl)) Oc) as Z0.
      unfold only_adds in Oc. apply andb_true_iff in Oc. destruct Oc as [OD OU].
      unfold all_dos, all_undos in *. simpl. rewrite !forallb_app, !add_sum_app, OD, OU, I1, I2.
      repeat split; auto. lia. }
    destruct S0 as [A1 [A2 A3]]. unfold coord_ok. rewrite A1, A2. apply Z.eqb_eq in A3. rewrite A3.
    simpl. rewrite orb_true_r. reflexivity.
Qed.

(* with C21's glue: blocks whose changes are each disciplined and obey the
   one-writer rule satisfy the hypothesis of rollback_eq_direct *)
Corollary block_disciplined_from_validity (P : params) s b :
  each_disciplined s (block_changes P s b) = true -> one_writer s (block_changes P s b) = true ->
  block_disciplined P s b = true.
Proof. intros. apply one_writer_discipline; auto. Qed.

(* valid block sequences: strictly increasing heights, every change
   disciplined on its own, one writer per coordinate unless additive *)
Fixpoint blocks_validb (P : params) (bs : list block) (st : mstate) : bool :=
  match bs with
  | [] => true
  | b :: r =>
      (h_height (fst st) <? hN b)%N && (hN b <? 4294967296)%N &&
      each_disciplined (snd st) (block_changes P (snd st) b) &&
      one_writer (snd st) (block_changes P (snd st) b) &&
      match process_block P (Some st) b with
      | Some st' => blocks_validb P r st'
      | None => false
      end
  end.

Lemma blocks_validb_ok P : forall bs st, blocks_validb P bs st = true -> blocks_ok P bs st.
Proof.
  induction bs as [|b r IH]; intros st H; simpl in *; auto.
  apply andb_true_iff in H. destruct H as [H H5]. apply andb_true_iff in H. destruct H as [H H4].
  apply andb_true_iff in H. destruct H as [H H3]. apply andb_true_iff in H. destruct H as [H1 H2].
  apply N.ltb_lt in H1. apply N.ltb_lt in H2. repeat split; auto.
  - apply block_disciplined_from_validity; auto.
  - destruct (run (block_ops P (snd st) b) st) as [st'|]; [apply IH; exact H5|discriminate].
Qed.

Theorem rollback_eq_direct_valid P bs1 bs2 st1 st2 :
  blocks_validb P (bs1 ++ bs2) (init P) = true ->
  process_all P bs1 (init P) = Some st1 ->
  process_all P bs2 st1 = Some st2 ->
  (length (h_changes (fst st2)) >= length bs2)%nat ->
  exists st', rollback (Z.of_N (h_height (fst st1))) (Some st2) = Some st' /\
              snd st' = snd st1 /\ h_height (fst st') = h_height (fst st1).
Proof. intros H. apply rollback_eq_direct. apply blocks_validb_ok. exact H. Qed.

(* non-vacuity: the 13 demo blocks and the inactivity prefix are valid in this
   sense; the block that sets DPOSStartHeight twice (switch back to DPOS and
   irreversibility step in one block) is disciplined but has two writers *)
Lemma valid_blocks_demo :
  blocks_validb dP (d_blocks1 ++ d_blocks2) (init dP) = true /\
  blocks_validb iPar i_prefix (init iPar) = true.
Proof. split; vm_compute; reflexivity. Qed.
