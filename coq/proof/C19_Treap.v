(* C19 — lemmas about the treap model: search-tree and heap invariants, the
   abstraction to OMap, size accounting. *)
From Coq Require Import ZArith List Bool Lia.
From ELA Require Import lib.OMap model.C19_Treap.
Import ListNotations.
Local Open Scope Z_scope.

(* search-tree invariant = the in-order contents are strictly sorted *)
Definition bst (t : tree) : Prop := sorted (elements t).

Lemma bst_node l k v p r :
  bst (Node l k v p r) <-> bst l /\ bst r /\ ub (elements l) k /\ lb k (elements r) /\
                           (forall x, In x (elements l) -> lb (fst x) (elements r)).
Proof. unfold bst. simpl. apply (sorted_mid (elements l) (k, v) (elements r)). Qed.

Lemma lb_lt k k' (m : omap val) : klt k k' -> lb k' m -> lb k m.
Proof. apply lb_weaken. Qed.

(* ---------------------------------------------------------------- get *)

Lemma tget_elements t k : bst t -> tget t k = OMap.get (elements t) k.
Proof.
  induction t as [|l IHl k' v' p r IHr]; simpl; auto.
  intros B. apply bst_node in B. destruct B as (Bl & Br & Hu & Hl & _).
  rewrite get_app. simpl.
  destruct (kcmp_cases k k') as [[Hk E]|[[-> E]|[Hk E]]]; rewrite E.
  - rewrite IHl by auto. destruct (OMap.get (elements l) k); auto.
    rewrite klt_keqb_false by auto. symmetry. apply get_none_lb. eapply lb_weaken; eauto.
  - rewrite get_none_ub by auto. rewrite keqb_refl. auto.
  - rewrite get_none_ub by (eapply ub_weaken; eauto).
    rewrite klt_keqb_false' by auto. auto.
Qed.

(* ---------------------------------------------------------------- put *)

Lemma elements_tupd t k v : bst t -> tget t k <> None ->
  elements (tupd t k v) = OMap.put (elements t) k v.
Proof.
  induction t as [|l IHl k' v' p r IHr]; simpl; [congruence|].
  intros B. apply bst_node in B. destruct B as (Bl & Br & Hu & Hl & _).
  destruct (kcmp_cases k k') as [[Hk E]|[[-> E]|[Hk E]]]; rewrite E; simpl; intros G.
  - rewrite put_mid_lt by auto. rewrite IHl; auto.
  - rewrite put_mid_eq by auto. auto.
  - rewrite put_mid_gt by auto. rewrite IHr; auto.
Qed.

Lemma elements_tins t k v p : bst t ->
  elements (fst (tins t k v p)) = OMap.put (elements t) k v.
Proof.
  induction t as [|l IHl k' v' p' r IHr]; simpl; auto.
  intros B. apply bst_node in B. destruct B as (Bl & Br & Hu & Hl & _).
  destruct (kcmp_cases k k') as [[Hk E]|[[-> E]|[Hk E]]]; rewrite E.
  - rewrite put_mid_lt by auto. rewrite <- IHl by auto.
    destruct (tins l k v p) as [[|a nk nv np b] [|]]; simpl; auto.
    destruct (np >=? p'); simpl; auto. rewrite <- app_assoc. auto.
  - simpl. rewrite put_mid_eq by auto. auto.
  - rewrite put_mid_gt by auto. rewrite <- IHr by auto.
    destruct (tins r k v p) as [[|a nk nv np b] [|]]; simpl; auto.
    destruct (np >=? p'); simpl; auto. rewrite <- app_assoc. auto.
Qed.

(* ---------------------------------------------------------------- delete *)

Lemma elements_node l k v p r : elements (Node l k v p r) = elements l ++ (k, v) :: elements r.
Proof. reflexivity. Qed.

Lemma elements_tmerge l : forall r, elements (tmerge l r) = elements l ++ elements r.
Proof.
  induction l as [|ll IHll lk lv lp lr IHlr]; [reflexivity|].
  induction r as [|rl IHrl rk rv rp rr IHrr].
  - simpl. rewrite app_nil_r. auto.
  - change (tmerge (Node ll lk lv lp lr) (Node rl rk rv rp rr))
      with (if pick_left lp rp then Node ll lk lv lp (tmerge lr (Node rl rk rv rp rr))
            else Node (tmerge (Node ll lk lv lp lr) rl) rk rv rp rr).
    destruct (pick_left lp rp).
    + simpl. rewrite IHlr. simpl. rewrite <- app_assoc. auto.
    + rewrite (elements_node (tmerge (Node ll lk lv lp lr) rl)). rewrite IHrl.
      rewrite (elements_node rl). rewrite <- !app_assoc. auto.
Qed.

Lemma elements_tdel t k : bst t -> elements (tdel t k) = OMap.del (elements t) k.
Proof.
  induction t as [|l IHl k' v' p r IHr]; simpl; auto.
  intros B. apply bst_node in B. destruct B as (Bl & Br & Hu & Hl & _).
  rewrite del_app. simpl.
  destruct (kcmp_cases k k') as [[Hk E]|[[-> E]|[Hk E]]]; rewrite E; simpl.
  - rewrite klt_keqb_false by auto. rewrite IHl by auto.
    rewrite (del_lb k (elements r)) by (eapply lb_weaken; eauto). auto.
  - rewrite keqb_refl. rewrite elements_tmerge. rewrite del_ub, del_lb by auto. auto.
  - rewrite klt_keqb_false' by auto. rewrite IHr by auto.
    rewrite (del_ub k (elements l)) by (eapply ub_weaken; eauto). auto.
Qed.

(* ---------------------------------------------------------------- heap *)

Definition prio_ge (q : Z) (t : tree) : Prop :=
  match t with Leaf => True | Node _ _ _ p _ => q <= p end.

Fixpoint heap (t : tree) : Prop :=
  match t with
  | Leaf => True
  | Node l _ _ p r => prio_ge p l /\ prio_ge p r /\ heap l /\ heap r
  end.

Lemma prio_ge_le q q' t : q <= q' -> prio_ge q' t -> prio_ge q t.
Proof. destruct t; simpl; auto. lia. Qed.

Lemma heap_tupd t k v : heap t -> heap (tupd t k v) /\ (forall q, prio_ge q t -> prio_ge q (tupd t k v)).
Proof.
  induction t as [|l IHl k' v' p r IHr]; simpl; auto.
  intros (Hl & Hr & Hhl & Hhr). destruct (IHl Hhl) as [A1 A2], (IHr Hhr) as [B1 B2].
  destruct (kcmp k k'); simpl; repeat split; auto.
Qed.

Lemma heap_tins t k v p : heap t ->
  heap (fst (tins t k v p)) /\
  (forall q, prio_ge q t ->
     if snd (tins t k v p)
     then prio_ge q (left_of (fst (tins t k v p))) /\ prio_ge q (right_of (fst (tins t k v p)))
     else prio_ge q (fst (tins t k v p))).
Proof.
  induction t as [|l IHl k' v' p' r IHr]; simpl.
  - intros _. repeat split; auto.
  - intros (Hl & Hr & Hhl & Hhr).
    destruct (kcmp k k').
    + simpl. repeat split; auto.
    + destruct (IHl Hhl) as (A1 & A3). specialize (A3 p' Hl).
      destruct (tins l k v p) as [[|a nk nv np b] [|]]; simpl in *; try (intuition auto; fail).
      destruct (Z.geb_spec np p') as [G|G]; simpl.
      * repeat split; auto; try tauto.
      * destruct A1 as (X1 & X2 & X3 & X4). destruct A3 as [Y1 Y2].
        repeat split; auto; try lia; eapply prio_ge_le; eauto.
    + destruct (IHr Hhr) as (A1 & A3). specialize (A3 p' Hr).
      destruct (tins r k v p) as [[|a nk nv np b] [|]]; simpl in *; try (intuition auto; fail).
      destruct (Z.geb_spec np p') as [G|G]; simpl.
      * repeat split; auto; try tauto.
      * destruct A1 as (X1 & X2 & X3 & X4). destruct A3 as [Y1 Y2].
        repeat split; auto; try lia; eapply prio_ge_le; eauto.
Qed.

Lemma tmerge_leaf_r l : tmerge l Leaf = l.
Proof. destruct l; reflexivity. Qed.

Lemma tmerge_node ll lk lv lp lr rl rk rv rp rr :
  tmerge (Node ll lk lv lp lr) (Node rl rk rv rp rr) =
  if pick_left lp rp then Node ll lk lv lp (tmerge lr (Node rl rk rv rp rr))
  else Node (tmerge (Node ll lk lv lp lr) rl) rk rv rp rr.
Proof. reflexivity. Qed.

(* Delete does NOT keep the heap order: mutable.go/immutable.go lift the child
   with the larger priority value.  Not observable through the ordered-map
   interface (none of the refinement lemmas below uses [heap]); it only affects
   the expected depth. *)
Lemma delete_heap_counterexample :
  let t := Node (Node Leaf [1] [] 5 Leaf) [2] [] 1 (Node Leaf [3] [] 3 Leaf) in
  bst t /\ heap t /\ ~ heap (tdel t [2]).
Proof.
  simpl. repeat split; auto; try lia; try (repeat constructor).
Qed.

(* ---------------------------------------------------------------- sizes *)

Fixpoint total (m : omap val) : Z :=
  match m with [] => 0 | (k, v) :: m' => node_size k v + total m' end.

Definition osize (k : key) (o : option val) : Z :=
  match o with Some v => node_size k v | None => 0 end.

Lemma total_put m k v : sorted m ->
  total (OMap.put m k v) = total m + node_size k v - osize k (OMap.get m k).
Proof.
  induction m as [|[k' v'] m IH]; simpl; intros S.
  - lia.
  - destruct S as [L S]. destruct (kcmp_cases k k') as [[Hk E]|[[-> E]|[Hk E]]]; rewrite E; simpl.
    + rewrite klt_keqb_false by auto. rewrite get_none_lb by (eapply lb_weaken; eauto). simpl. lia.
    + rewrite keqb_refl. simpl. lia.
    + rewrite klt_keqb_false' by auto. rewrite IH by auto. lia.
Qed.

Lemma total_del m k : sorted m ->
  total (OMap.del m k) = total m - osize k (OMap.get m k).
Proof.
  induction m as [|[k' v'] m IH]; simpl; intros S.
  - lia.
  - destruct S as [L S]. destruct (keqb k k') eqn:E.
    + apply keqb_eq in E. subst k'. rewrite del_lb by auto. simpl. lia.
    + simpl. rewrite IH by auto. lia.
Qed.

Lemma u64_idem x : u64 (u64 x) = u64 x.
Proof. unfold u64. apply Z.mod_mod. lia. Qed.
Lemma u64_add_l x y : u64 (u64 x + y) = u64 (x + y).
Proof. unfold u64. apply Zplus_mod_idemp_l. Qed.
Lemma u64_sub_l x y : u64 (u64 x - y) = u64 (x - y).
Proof. unfold u64. apply Zminus_mod_idemp_l. Qed.

(* ---------------------------------------------------------------- treap level *)

Definition wf (t : treap) : Prop :=
  bst (root t) /\ count t = len (abs t) /\ size t = u64 (total (abs t)).

Lemma wf_empty : wf empty.
Proof. unfold wf, empty, abs, bst; simpl. repeat split; auto. Qed.

Lemma get_abs t k : wf t -> get t k = OMap.get (abs t) k.
Proof. intros (B & _). apply tget_elements; auto. Qed.

Lemma has_abs t k : wf t -> has t k = OMap.has (abs t) k.
Proof. intros W. unfold has, OMap.has. rewrite get_abs; auto. Qed.

Lemma put_root t k v p :
  root (put t k v p) =
  match tget (root t) k with Some _ => tupd (root t) k v | None => fst (tins (root t) k v p) end.
Proof. unfold put. destruct (tget (root t) k); auto. destruct (root t); reflexivity. Qed.

Lemma put_abs t k v p : wf t -> abs (put t k v p) = OMap.put (abs t) k v.
Proof.
  intros (B & _). unfold abs. rewrite put_root.
  destruct (tget (root t) k) eqn:G.
  - apply elements_tupd; auto. congruence.
  - apply elements_tins; auto.
Qed.

Lemma put_wf t k v p : wf t -> wf (put t k v p).
Proof.
  intros W. pose proof (put_abs t k v p W) as A.
  destruct W as (B & C & S). unfold wf. rewrite A.
  assert (Bs : sorted (abs t)) by exact B.
  repeat split.
  - change (sorted (abs (put t k v p))). rewrite A. apply put_sorted; auto.
  - rewrite len_put by auto. unfold OMap.has, abs. rewrite <- (tget_elements (root t) k B).
    unfold abs in C. unfold put. destruct (tget (root t) k) eqn:G; simpl; [lia|].
    destruct (root t) eqn:R; simpl; try lia. simpl in C.
    unfold len in *. simpl in *. lia.
  - rewrite total_put by auto. unfold abs at 2. rewrite <- (tget_elements (root t) k B).
    unfold put. destruct (tget (root t) k) eqn:G; simpl.
    + rewrite S. rewrite u64_sub_l, u64_add_l. f_equal. unfold node_size. lia.
    + destruct (root t) eqn:R; simpl.
      * unfold abs. rewrite R. simpl. f_equal. lia.
      * rewrite S, u64_add_l. f_equal. lia.
Qed.

Lemma delete_root t k : root (delete t k) = tdel (root t) k.
Proof.
  unfold delete. destruct (tget (root t) k) eqn:G.
  - destruct (root t) as [|[|] k' v' p' [|]] eqn:R; simpl; auto.
    simpl in G. destruct (kcmp k k'); auto; discriminate.
  - symmetry. revert G. generalize (root t). induction t0 as [|l IHl k' v' p' r IHr]; simpl; auto.
    destruct (kcmp k k'); intros G; try discriminate; f_equal; auto.
Qed.

Lemma delete_abs t k : wf t -> abs (delete t k) = OMap.del (abs t) k.
Proof. intros (B & _). unfold abs. rewrite delete_root. apply elements_tdel; auto. Qed.

Lemma delete_wf t k : wf t -> wf (delete t k).
Proof.
  intros W. pose proof (delete_abs t k W) as A.
  destruct W as (B & C & S). unfold wf. rewrite A.
  assert (Bs : sorted (abs t)) by exact B.
  repeat split.
  - change (sorted (abs (delete t k))). rewrite A. apply del_sorted; auto.
  - rewrite len_del by auto. unfold OMap.has, abs. rewrite <- (tget_elements (root t) k B).
    unfold abs in C. unfold delete. destruct (tget (root t) k) eqn:G; [|cbn [count]; lia].
    destruct (root t) as [|[|] k' v' p' [|]] eqn:R; cbn [count empty]; try discriminate;
      try (rewrite C; reflexivity); try reflexivity.
  - rewrite total_del by auto. unfold abs at 2. rewrite <- (tget_elements (root t) k B).
    unfold delete. destruct (tget (root t) k) eqn:G; simpl.
    + destruct (root t) as [|[|] k' v' p' [|]] eqn:R; simpl;
        try (rewrite S, u64_sub_l; reflexivity).
      unfold abs. rewrite R. simpl. simpl in G.
      destruct (kcmp_cases k k') as [[Hk E]|[[-> E]|[Hk E]]]; rewrite E in G; try discriminate.
      inversion G; subst. replace (node_size k' v + 0 - node_size k' v) with 0 by lia. reflexivity.
    + rewrite S. f_equal. lia.
Qed.

(* ---------------------------------------------------------------- histories *)

Lemma run_ops_refines ops : forall t, wf t ->
  wf (run_ops ops t) /\ abs (run_ops ops t) = spec_ops ops (abs t).
Proof.
  induction ops as [|o ops IH]; intros t W; simpl; auto.
  assert (wf (apply_op t o) /\ abs (apply_op t o) = spec_op (abs t) o) as [W' A'].
  { destruct o; simpl; split; auto using put_wf, delete_wf, put_abs, delete_abs. }
  destruct (IH _ W') as [W2 A2]. split; auto. rewrite A2, A'. auto.
Qed.

Lemma reachable_wf ops : wf (run_ops ops empty).
Proof. apply run_ops_refines. apply wf_empty. Qed.

Lemma reachable_abs ops : abs (run_ops ops empty) = spec_ops ops [].
Proof. apply (run_ops_refines ops empty wf_empty). Qed.

Lemma reachable_get ops k : get (run_ops ops empty) k = OMap.get (spec_ops ops []) k.
Proof. rewrite <- reachable_abs. apply get_abs. apply reachable_wf. Qed.

Lemma reachable_has ops k : has (run_ops ops empty) k = OMap.has (spec_ops ops []) k.
Proof. rewrite <- reachable_abs. apply has_abs. apply reachable_wf. Qed.

Lemma reachable_len ops : count (run_ops ops empty) = len (spec_ops ops []).
Proof. rewrite <- reachable_abs. apply (reachable_wf ops). Qed.

Lemma reachable_size ops : size (run_ops ops empty) = u64 (total (spec_ops ops [])).
Proof. rewrite <- reachable_abs. apply (reachable_wf ops). Qed.

Lemma reachable_sorted ops : sorted (abs (run_ops ops empty)).
Proof. apply (reachable_wf ops). Qed.

(* Put alone keeps the min-heap *)
Lemma put_heap t k v p : heap (root t) -> heap (root (put t k v p)).
Proof.
  intros H. rewrite put_root. destruct (tget (root t) k).
  - apply heap_tupd; auto.
  - apply heap_tins; auto.
Qed.

(* an earlier version is a value: later updates (which build new versions
   from it) cannot change what it answers *)
Lemma persistent ops later :
  let t1 := run_ops ops empty in
  let t2 := run_ops later t1 in
  abs t1 = spec_ops ops [] /\ abs t2 = spec_ops later (spec_ops ops []).
Proof.
  simpl. split; [apply reachable_abs|].
  rewrite <- reachable_abs. apply run_ops_refines. apply reachable_wf.
Qed.
