(* C40 — soundness of the lockset checker against the interleaving semantics
   of the reader/writer lock (model/C40_Locks.v). *)
From Coq Require Import List Bool NArith Arith Lia.
From ELA Require Import model.C40_Locks.
Import ListNotations.

Definition tmode (t : thread) : mode :=
  match t with Some s => s_mode s | None => MNone end.

Definition isR (t : thread) : nat := match tmode t with MR => 1 | _ => 0 end.
Definition isW (t : thread) : nat := match tmode t with MW => 1 | _ => 0 end.

Fixpoint cnt (f : thread -> nat) (l : list thread) : nat :=
  match l with [] => 0 | h :: t => f h + cnt f t end.

(* The lock word agrees with what the threads hold, and every thread is inside
   a part of the given list. *)
Definition Inv (ss : list summary) (st : state) : Prop :=
  readers (lk st) = cnt isR (thr st) /\
  (if writer (lk st) then cnt isW (thr st) = 1 /\ cnt isR (thr st) = 0
   else cnt isW (thr st) = 0) /\
  Forall (fun t => match t with Some s => In s ss | None => True end) (thr st).

Lemma cnt_repeat_none : forall f n, f None = 0 -> cnt f (repeat None n) = 0.
Proof. induction n; simpl; intros; auto. rewrite H. auto. Qed.

Lemma cnt_upd : forall f l i x y,
  nth_error l i = Some x -> cnt f (upd l i y) + f x = cnt f l + f y.
Proof.
  induction l as [|h t IH]; intros i x y H.
  - destruct i; discriminate.
  - destruct i; simpl in *.
    + inversion H; subst. lia.
    + specialize (IH _ _ y H). lia.
Qed.

Lemma cnt_one : forall f l i x, nth_error l i = Some x -> f x <= cnt f l.
Proof.
  induction l as [|h t IH]; intros i x H; destruct i; simpl in *; try discriminate.
  - inversion H; subst. lia.
  - specialize (IH _ _ H). lia.
Qed.

Lemma cnt_two : forall f l i j x y,
  i <> j -> nth_error l i = Some x -> nth_error l j = Some y -> f x + f y <= cnt f l.
Proof.
  induction l as [|h t IH]; intros i j x y Hij Hi Hj.
  - destruct i; discriminate.
  - destruct i, j; simpl in *.
    + congruence.
    + inversion Hi; subst. pose proof (cnt_one f _ _ _ Hj). lia.
    + inversion Hj; subst. pose proof (cnt_one f _ _ _ Hi). lia.
    + assert (i <> j) by congruence. specialize (IH _ _ _ _ H Hi Hj). lia.
Qed.

Lemma Forall_upd : forall (P : thread -> Prop) l i y,
  Forall P l -> P y -> Forall P (upd l i y).
Proof.
  induction l as [|h t IH]; intros i y HF Hy; simpl.
  - destruct i; constructor.
  - inversion HF; subst. destruct i; constructor; auto.
Qed.

Lemma Forall_nth : forall (P : thread -> Prop) l i x,
  Forall P l -> nth_error l i = Some x -> P x.
Proof.
  intros P l i x HF H. rewrite Forall_forall in HF. apply HF. eapply nth_error_In; eauto.
Qed.

Lemma inv_init : forall ss n, Inv ss (init n).
Proof.
  intros. unfold Inv, init; simpl. repeat split.
  - rewrite cnt_repeat_none; auto.
  - rewrite cnt_repeat_none; auto.
  - apply Forall_forall. intros x Hx. apply repeat_spec in Hx. subst. exact I.
Qed.

Lemma isR_some : forall s, isR (Some s) = match s_mode s with MR => 1 | _ => 0 end.
Proof. reflexivity. Qed.
Lemma isW_some : forall s, isW (Some s) = match s_mode s with MW => 1 | _ => 0 end.
Proof. reflexivity. Qed.

Lemma inv_step : forall ss st st', Inv ss st -> step ss st st' -> Inv ss st'.
Proof.
  intros ss st st' (HR & HW & HF) Hs. inversion Hs; subst; clear Hs.
  - (* enter *)
    pose proof (cnt_upd isR _ _ _ (Some s) H) as CR.
    pose proof (cnt_upd isW _ _ _ (Some s) H) as CW.
    change (isR None) with 0 in CR. change (isW None) with 0 in CW.
    rewrite isR_some in CR. rewrite isW_some in CW.
    unfold Inv; simpl.
    split; [|split; [|apply Forall_upd; auto]];
      destruct (s_mode s) eqn:Em; simpl in *.
    + lia.
    + lia.
    + lia.
    + destruct (writer (lk st)); lia.
    + apply negb_true_iff in H1. rewrite H1 in *. lia.
    + apply andb_true_iff in H1. destruct H1 as [Hw Hr].
      apply negb_true_iff in Hw. rewrite Hw in *. apply Nat.eqb_eq in Hr. lia.
  - (* leave *)
    pose proof (cnt_upd isR _ _ _ None H) as CR.
    pose proof (cnt_upd isW _ _ _ None H) as CW.
    pose proof (cnt_one isR _ _ _ H) as OR.
    pose proof (cnt_one isW _ _ _ H) as OW.
    change (isR None) with 0 in CR. change (isW None) with 0 in CW.
    rewrite isR_some in CR, OR. rewrite isW_some in CW, OW.
    unfold Inv; simpl.
    split; [|split; [|apply Forall_upd; auto]];
      destruct (s_mode s) eqn:Em; simpl in *.
    + lia.
    + lia.
    + lia.
    + destruct (writer (lk st)); lia.
    + destruct (writer (lk st)); lia.
    + destruct (writer (lk st)); lia.
Qed.

Lemma inv_reachable : forall ss n st, reachable ss n st -> Inv ss st.
Proof.
  induction 1.
  - apply inv_init.
  - eapply inv_step; eauto.
Qed.

(* Mutual exclusion provided by the lock: two distinct threads are never
   inside parts whose modes exclude each other. *)
Lemma excl_never : forall ss st i j s1 s2,
  Inv ss st -> i <> j ->
  nth_error (thr st) i = Some (Some s1) -> nth_error (thr st) j = Some (Some s2) ->
  excl (s_mode s1) (s_mode s2) = false.
Proof.
  intros ss st i j s1 s2 (HR & HW & _) Hij Hi Hj.
  pose proof (cnt_two isW _ _ _ _ _ Hij Hi Hj) as TW.
  pose proof (cnt_one isW _ _ _ Hi) as W1. pose proof (cnt_one isW _ _ _ Hj) as W2.
  pose proof (cnt_one isR _ _ _ Hi) as R1. pose proof (cnt_one isR _ _ _ Hj) as R2.
  rewrite !isW_some in TW. rewrite isW_some in W1, W2. rewrite isR_some in R1, R2.
  destruct (s_mode s1), (s_mode s2); simpl in *; auto;
    destruct (writer (lk st)); lia.
Qed.

Lemma lockset_ok_pair : forall ss s1 s2,
  lockset_ok ss = true -> In s1 ss -> In s2 ss -> pair_ok s1 s2 = true.
Proof.
  unfold lockset_ok. intros ss s1 s2 H H1 H2.
  rewrite forallb_forall in H. specialize (H _ H1).
  rewrite forallb_forall in H. exact (H _ H2).
Qed.

Lemma conflicts_intro : forall s1 s2 a1 a2,
  In a1 (s_acc s1) -> In a2 (s_acc s2) -> conflict a1 a2 = true -> conflicts s1 s2 = true.
Proof.
  intros. unfold conflicts. apply existsb_exists. exists a1. split; auto.
  apply existsb_exists. exists a2. auto.
Qed.

(* Soundness of the checker: if it accepts a list of parts, then in no
   reachable state of the lock semantics, for any number of threads running
   parts of the list in any order, are two distinct threads simultaneously
   inside parts with conflicting accesses. *)
Theorem lockset_sound : forall ss,
  lockset_ok ss = true ->
  forall n st, reachable ss n st -> ~ race st.
Proof.
  intros ss Hok n st Hr (i & j & s1 & s2 & a1 & a2 & Hij & Hi & Hj & Ha1 & Ha2 & Hc).
  pose proof (inv_reachable _ _ _ Hr) as HI.
  pose proof (excl_never _ _ _ _ _ _ HI Hij Hi Hj) as He.
  destruct HI as (_ & _ & HF).
  pose proof (Forall_nth _ _ _ _ HF Hi) as In1. pose proof (Forall_nth _ _ _ _ HF Hj) as In2.
  simpl in In1, In2.
  pose proof (lockset_ok_pair _ _ _ Hok In1 In2) as Hp.
  unfold pair_ok in Hp. rewrite He in Hp. simpl in Hp.
  rewrite (conflicts_intro _ _ _ _ Ha1 Ha2 Hc) in Hp. discriminate.
Qed.

(* Completeness of the checker with respect to the same semantics: a pair it
   rejects can really be entered simultaneously by two threads (so a rejected
   pair is a schedule of the model, not an artefact of the checker). *)
Theorem lockset_complete : forall ss s1 s2,
  In s1 ss -> In s2 ss -> pair_ok s1 s2 = false ->
  exists st, reachable ss 2 st /\ race st.
Proof.
  intros ss s1 s2 H1 H2 Hp. unfold pair_ok in Hp.
  apply orb_false_iff in Hp. destruct Hp as [He Hc].
  apply negb_false_iff in Hc. unfold conflicts in Hc.
  apply existsb_exists in Hc. destruct Hc as (a1 & Ha1 & Hc).
  apply existsb_exists in Hc. destruct Hc as (a2 & Ha2 & Hc).
  set (st1 := {| lk := acquire (lk (init 2)) (s_mode s1); thr := upd (thr (init 2)) 0 (Some s1) |}).
  set (st2 := {| lk := acquire (lk st1) (s_mode s2); thr := upd (thr st1) 1 (Some s2) |}).
  assert (R1 : reachable ss 2 st1).
  { eapply reach_step; [apply reach_init|]. apply step_enter; auto.
    simpl. destruct (s_mode s1); reflexivity. }
  assert (R2 : reachable ss 2 st2).
  { eapply reach_step; [exact R1|]. apply step_enter; auto.
    subst st1; simpl. destruct (s_mode s1), (s_mode s2); simpl in *; try reflexivity; discriminate. }
  exists st2. split; auto.
  exists 0, 1, s1, s2, a1, a2. repeat split; auto.
Qed.

(* The restriction [without] only removes parts. *)
Lemma without_incl : forall ex ss s, In s (without ex ss) -> In s ss.
Proof. unfold without. intros ex ss s H. apply filter_In in H. tauto. Qed.
