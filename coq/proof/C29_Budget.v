(* C29 proofs: invariants of the proposal budget state machine of
   model/C29_Budget.v over all block sequences. *)
From Coq Require Import ZArith Bool List Lia Permutation Sorted.
From ELA Require Import model.C29_Budget.
Import ListNotations.
Local Open Scope Z_scope.

(* ------------------------------------------------------------------ maps *)
Definition keys {A} (m : list (Z * A)) : list Z := map fst m.
Definition ssorted (l : list Z) : Prop := StronglySorted Z.lt l.

Lemma mget_mset : forall A k k' (v : A) m,
  mget k (mset k' v m) = if k =? k' then Some v else mget k m.
Proof.
  induction m as [|[a b] r IH]; simpl.
  - destruct (k =? k'); reflexivity.
  - destruct (k' <? a) eqn:E1; simpl.
    + destruct (k =? k'); reflexivity.
    + destruct (k' =? a) eqn:E2; simpl.
      * apply Z.eqb_eq in E2; subst a. destruct (k =? k'); reflexivity.
      * rewrite IH. destruct (k =? a) eqn:E3, (k =? k') eqn:E4; try reflexivity.
        apply Z.eqb_eq in E3, E4. subst. rewrite Z.eqb_refl in E2. discriminate.
Qed.

Lemma mget_In : forall A k (v : A) m, mget k m = Some v -> In (k, v) m.
Proof.
  induction m as [|[a b] r IH]; simpl; intros H; [discriminate|].
  destruct (k =? a) eqn:E.
  - apply Z.eqb_eq in E; subst. injection H as ->. now left.
  - right; auto.
Qed.

Lemma In_mset : forall A (x : Z * A) k v m, In x (mset k v m) -> x = (k, v) \/ In x m.
Proof.
  induction m as [|[a b] r IH]; simpl; intros H.
  - destruct H as [H|[]]; auto.
  - destruct (k <? a).
    + destruct H as [H|H]; auto.
    + destruct (k =? a).
      * destruct H as [H|H]; auto.
      * destruct H as [H|H]; auto. destruct (IH H); auto.
Qed.

Lemma mset_In_same : forall A k (v : A) m, In (k, v) (mset k v m).
Proof.
  induction m as [|[a b] r IH]; simpl; [now left|].
  destruct (k <? a); [now left|]. destruct (k =? a); [now left|]. now right.
Qed.

Lemma mset_In_other : forall A (x : Z * A) k v m, In x m -> fst x <> k -> In x (mset k v m).
Proof.
  induction m as [|[a b] r IH]; simpl; intros H N; [contradiction|].
  destruct (k <? a); [now right|].
  destruct (k =? a) eqn:E.
  - apply Z.eqb_eq in E; subst a. destruct H as [H|H]; [subst x; simpl in N; congruence|now right].
  - destruct H as [H|H]; [now left|right; auto].
Qed.

Lemma keys_mset : forall A k (v : A) m x, In x (keys (mset k v m)) -> x = k \/ In x (keys m).
Proof.
  unfold keys; intros. apply in_map_iff in H as [[a b] [<- H]].
  apply In_mset in H as [H|H]; [injection H as -> _; now left|].
  right. apply in_map_iff. now exists (a, b).
Qed.

Lemma mset_sorted : forall A k (v : A) m, ssorted (keys m) -> ssorted (keys (mset k v m)).
Proof.
  unfold ssorted. induction m as [|[a b] r IH]; simpl; intros H.
  - repeat constructor.
  - inversion H as [|? ? Hs Hf]; subst.
    destruct (k <? a) eqn:E1; simpl.
    + apply Z.ltb_lt in E1. constructor; [exact H|]. constructor; [exact E1|].
      eapply Forall_impl; [|exact Hf]. simpl; intros; lia.
    + apply Z.ltb_ge in E1. destruct (k =? a) eqn:E2; simpl.
      * apply Z.eqb_eq in E2; subst a. exact H.
      * apply Z.eqb_neq in E2. constructor; [auto|].
        apply Forall_forall. intros x Hx. apply keys_mset in Hx as [->|Hx]; [lia|].
        rewrite Forall_forall in Hf. auto.
Qed.

Lemma sorted_NoDup : forall l, ssorted l -> NoDup l.
Proof.
  unfold ssorted. induction 1; constructor; auto.
  intros Hin. rewrite Forall_forall in H0. specialize (H0 _ Hin). lia.
Qed.

Lemma sorted_filter : forall A (f : Z * A -> bool) m, ssorted (keys m) -> ssorted (keys (filter f m)).
Proof.
  unfold ssorted. induction m as [|x r IH]; simpl; intros H; [constructor|].
  inversion H as [|? ? Hs Hf]; subst.
  destruct (f x); simpl; auto. constructor; auto.
  apply Forall_forall. intros y Hy. rewrite Forall_forall in Hf. apply Hf.
  unfold keys in *. apply in_map_iff in Hy as [z [<- Hz]]. apply filter_In in Hz as [Hz _].
  apply in_map_iff. now exists z.
Qed.

Lemma mmem_true : forall A k (m : list (Z * A)), mmem k m = true <-> In k (keys m).
Proof.
  unfold mmem, keys. induction m as [|[a b] r IH]; simpl.
  - split; [discriminate|contradiction].
  - destruct (k =? a) eqn:E.
    + apply Z.eqb_eq in E; subst. split; auto.
    + apply Z.eqb_neq in E. rewrite IH. split; [auto|intros [H|H]; [congruence|auto]].
Qed.

(* entries with unique keys included in another list of non-negative entries
   sum to at most the sum of that list *)
Lemma sum_incl : forall (l l' : list (Z * Z)),
  NoDup l -> incl l l' -> (forall x, In x l' -> 0 <= snd x) -> msum l <= msum l'.
Proof.
  induction l as [|x l IH]; intros l' Hn Hi Hp.
  - simpl. induction l' as [|y r IHr]; simpl; [lia|].
    assert (0 <= snd y) by (apply Hp; now left).
    assert (0 <= msum r) by (apply IHr; [intros ? []|intros; apply Hp; now right]). lia.
  - inversion Hn as [|? ? Hx Hn']; subst.
    assert (Hin : In x l') by (apply Hi; now left).
    apply in_split in Hin as [a [b ->]].
    assert (Hi' : incl l (a ++ b)).
    { intros y Hy. assert (Hy' : In y (a ++ x :: b)) by (apply Hi; now right).
      apply in_app_or in Hy' as [Hy'|[Hy'|Hy']]; [apply in_or_app; auto| subst; contradiction|apply in_or_app; auto]. }
    specialize (IH (a ++ b) Hn' Hi').
    assert (Hp' : forall y, In y (a ++ b) -> 0 <= snd y).
    { intros y Hy. apply Hp. apply in_app_or in Hy as [Hy|Hy]; apply in_or_app; [auto|right; now right]. }
    specialize (IH Hp').
    assert (Hs : forall a b : list (Z * Z), msum (a ++ b) = msum a + msum b).
    { clear. induction a as [|y a IHa]; intros; simpl; [lia|]. rewrite IHa. lia. }
    simpl. rewrite Hs in *. simpl. lia.
Qed.

Lemma NoDup_keys_NoDup : forall A (m : list (Z * A)), NoDup (keys m) -> NoDup m.
Proof. unfold keys. intros. eapply NoDup_map_inv; eauto. Qed.

(* folding mset over entries with distinct keys *)
Definition mset_all (w m : list (Z * Z)) : list (Z * Z) :=
  fold_left (fun m kv => mset (fst kv) (snd kv) m) w m.

Lemma mset_all_sorted : forall w m, ssorted (keys m) -> ssorted (keys (mset_all w m)).
Proof. induction w as [|x w IH]; simpl; intros; auto. apply IH. now apply mset_sorted. Qed.

Lemma mset_all_In : forall w m x, In x (mset_all w m) -> In x w \/ In x m.
Proof.
  induction w as [|y w IH]; simpl; intros m x H; [now right|].
  apply IH in H as [H|H]; [left; now right|].
  apply In_mset in H as [H|H]; [left; left; destruct y; simpl in *; congruence|now right].
Qed.

Lemma mset_all_keep : forall w m x, In x m -> ~ In (fst x) (keys w) -> In x (mset_all w m).
Proof.
  induction w as [|y w IH]; simpl; intros m x H N; auto.
  apply IH; [|intuition]. apply mset_In_other; auto.
Qed.

Lemma mset_all_new : forall w m, NoDup (keys w) -> incl w (mset_all w m).
Proof.
  induction w as [|y w IH]; simpl; intros m Hn x Hx; [contradiction|].
  inversion Hn; subst. destruct Hx as [<-|Hx].
  - apply mset_all_keep; auto. destruct y; apply mset_In_same.
  - apply IH; auto.
Qed.

