(* C13: disconnect after connect restores every modelled index, the
   per-address UTXO lists included (as multisets). *)
From Coq Require Import List ZArith NArith Bool Lia Permutation.
From ELA Require Import model.Ledger proof.Ledger_base proof.Ledger_unspent proof.C06_Ledger proof.C13_Ledger
  proof.Ledger_addr proof.Ledger_addr_inv.
Import ListNotations.
Local Open Scope N_scope.

Lemma udistinct_nodup l : udistinct l -> NoDup l.
Proof. unfold udistinct. apply NoDup_map_inv. Qed.

Theorem disconnect_connect_full s c b s1 s2 :
  inv2 s c -> c <> [] -> valid_block s b ->
  (forall b', In b' c -> b_height b' < b_height b) ->
  save_block s b = Ok s1 -> rollback_block cfg_fixed s1 b = Ok s2 ->
  obs_eq s2 s /\ (forall a h, Permutation (s_addr s2 a h) (s_addr s a h)) /\ inv2 s2 c.
Proof.
  intros I2 Hne V Hh Hs Hr.
  assert (I1 : inv2 s1 (c ++ [b])).
  { eapply save_inv2; eauto using (vb_ids _ _ V), (vb_spends _ _ V), (vb_fresh _ _ V), (vb_unspent _ _ V). }
  assert (I3 : inv2 s2 c) by (eapply rollback_inv2; eauto).
  split; [eapply disconnect_connect; eauto using (i2_inv _ _ I2)|]. split; [|exact I3].
  intros a h. apply NoDup_Permutation.
  - apply udistinct_nodup. apply (i2_dist _ _ I3).
  - apply udistinct_nodup. apply (i2_dist _ _ I2).
  - intros u. rewrite (i2_addr _ _ I3), (i2_addr _ _ I2). tauto.
Qed.
