(* The per-address UTXO index and the tx index (with values) refine the active
   chain: invariant [inv2], preserved by SaveBlock / RollbackBlock. *)
From Coq Require Import List ZArith NArith Bool Lia Permutation.
From ELA Require Import model.Ledger proof.Ledger_base proof.Ledger_unspent proof.C06_Ledger proof.C13_Ledger proof.Ledger_addr.
Import ListNotations.
Local Open Scope N_scope.

(* ---------------------------------------------------------------- heights *)
Inductive hinc : chain -> Prop :=
| hinc_nil : hinc []
| hinc_snoc c b : hinc c -> (forall b', In b' c -> b_height b' < b_height b) -> hinc (c ++ [b]).

Lemma hinc_snoc_inv c b : hinc (c ++ [b]) -> hinc c /\ forall b', In b' c -> b_height b' < b_height b.
Proof.
  intros H. inversion H as [E|c0 b0 H0 H1 E]; [destruct c; discriminate|].
  apply app_inj_tail in E. destruct E as [-> ->]. auto.
Qed.

Lemma hinc_le c : hinc c -> forall b', In b' c -> b_height b' <= chain_height c.
Proof.
  induction 1 as [|c b Hc IH Hlt]; intros b' Hin; [contradiction|].
  unfold chain_height. rewrite rev_unit. apply in_app_or in Hin. destruct Hin as [Hin|[<-|[]]]; [|lia].
  specialize (Hlt b' Hin). lia.
Qed.

(* ---------------------------------------------------------------- specification side *)
Definition on_chain (c : chain) (t h : N) (x : tx) : Prop :=
  exists b, In b c /\ b_height b = h /\ In x (b_txs b) /\ t_id x = t.

Definition owns (c : chain) (a h : N) (u : utxo) : Prop :=
  exists x o, on_chain c (u_tx u) h x /\ nth_error (t_outs x) (N.to_nat (u_idx u)) = Some o /\
              o_addr o = a /\ o_val o = u_val u /\ u_val u <> 0%Z /\ utxo_set c (u_tx u, u_idx u) = true.

Lemma on_chain_snoc c b t h x :
  on_chain (c ++ [b]) t h x <-> on_chain c t h x \/ (h = b_height b /\ In x (b_txs b) /\ t_id x = t).
Proof.
  unfold on_chain. split.
  - intros [b0 [Hin [Hh [Hx Ht]]]]. apply in_app_or in Hin. destruct Hin as [Hin|[<-|[]]]; [left; exists b0; auto|right; auto].
  - intros [[b0 [Hin R]]|[Hh [Hx Ht]]]; [exists b0; split; [apply in_or_app; now left|exact R]|].
    exists b. split; [apply in_or_app; right; now left|auto].
Qed.

Lemma on_chain_cids c t h x : on_chain c t h x -> In t (cids c) /\ In x (chain_txs c).
Proof.
  intros [b [Hin [_ [Hx <-]]]]. assert (In x (chain_txs c)) by (unfold chain_txs; apply in_flat_map; exists b; auto).
  split; [unfold cids, ids; now apply in_map|assumption].
Qed.

Record inv2 (s : state) (c : chain) : Prop := mkInv2 {
  i2_inv : inv s c;
  i2_hinc : hinc c;
  i2_tx : forall t h x, s_txidx s t = Some (h, x) <-> on_chain c t h x;
  i2_addr : forall a h u, In u (s_addr s a h) <-> owns c a h u;
  i2_dist : forall a h, udistinct (s_addr s a h) }.

(* ---------------------------------------------------------------- tx index values *)
Lemma txidx_connect_val txs (h : N) : forall (m : N -> option (N * tx)) x, NoDup (ids txs) -> In x txs ->
  fold_left (fun m x => upd m (t_id x) (Some (h, x))) txs m (t_id x) = Some (h, x).
Proof.
  induction txs as [|y r IH]; intros m x Hnd Hin; simpl; [contradiction|].
  inversion Hnd as [|? ? Hn Hr]; subst. destruct Hin as [->|Hin].
  - rewrite txidx_connect_other by exact Hn. apply upd_same.
  - now apply IH.
Qed.

(* ---------------------------------------------------------------- utxo_set when a block is appended *)
Lemma utxo_set_snoc_old c b t i : ~ In t (ids (b_txs b)) ->
  utxo_set (c ++ [b]) (t, i) = true <-> utxo_set c (t, i) = true /\ ~ In (t, i) (block_spends b).
Proof.
  intros Hn. rewrite !utxo_set_iff, all_spent_snoc, in_app_iff. split.
  - intros [[x [Hx [E Hlt]]] Hns]. rewrite chain_txs_snoc in Hx. apply in_app_or in Hx. destruct Hx as [Hx|Hx].
    + split; [split; [exists x; auto|tauto]|tauto].
    + exfalso. apply Hn. rewrite <- E. unfold ids. now apply in_map.
  - intros [[[x [Hx R]] Hns] Hnb]. split; [|tauto]. exists x. split; [rewrite chain_txs_snoc; apply in_or_app; now left|exact R].
Qed.

(* ---------------------------------------------------------------- the actions of a block on one key *)
Lemma adds_app a b : adds (a ++ b) = adds a ++ adds b.
Proof. unfold adds. apply flat_map_app. Qed.
Lemma dels_app a b : dels (a ++ b) = dels a ++ dels b.
Proof. unfold dels. apply flat_map_app. Qed.

Lemma out_acts_adds K tid bh outs : forall i u,
  In u (adds (out_acts K tid bh i outs)) <->
  exists j o, nth_error outs j = Some o /\ u = mkU tid (i + N.of_nat j) (o_val o) /\ o_val o <> 0%Z /\ (o_addr o, bh) = K.
Proof.
  induction outs as [|o r IH]; intros i u; simpl.
  - split; [intros []|intros [j [o [H _]]]; destruct j; discriminate].
  - rewrite adds_app, in_app_iff, IH. split.
    + intros [H|[j [o' [Hn [Hu R]]]]].
      * destruct (Z.eqb_spec (o_val o) 0); [contradiction|]. destruct (akey_eqb (o_addr o, bh) K) eqn:E; [|contradiction].
        destruct H as [<-|[]]. exists 0%nat, o. simpl. rewrite N.add_0_r. apply akey_eqb_eq in E. auto.
      * exists (S j), o'. simpl. split; [exact Hn|]. split; [|exact R]. rewrite Hu. f_equal. lia.
    + intros [j [o' [Hn [Hu [Hv Hk]]]]]. destruct j as [|j]; simpl in Hn.
      * inversion Hn; subst o'. left. destruct (Z.eqb_spec (o_val o) 0); [contradiction|].
        apply akey_eqb_eq in Hk. rewrite Hk. left. rewrite Hu. f_equal. simpl. lia.
      * right. exists j, o'. split; [exact Hn|]. split; [|auto]. rewrite Hu. f_equal. lia.
Qed.

Lemma out_acts_dels K tid bh outs : forall i, dels (out_acts K tid bh i outs) = [].
Proof.
  induction outs as [|o r IH]; intros i; simpl; [reflexivity|]. rewrite dels_app, IH, app_nil_r.
  destruct (o_val o =? 0)%Z; [reflexivity|]. destruct (akey_eqb (o_addr o, bh) K); reflexivity.
Qed.

Lemma out_acts_keys K tid bh outs : forall i, NoDup (map ukey (adds (out_acts K tid bh i outs))) /\
  forall u, In u (adds (out_acts K tid bh i outs)) -> u_tx u = tid /\ i <= u_idx u.
Proof.
  induction outs as [|o r IH]; intros i; simpl; [split; [constructor|intros u []]|].
  destruct (IH (i + 1)) as [I1 I2]. rewrite adds_app, map_app.
  assert (Hhead : forall u, In u (adds (if (o_val o =? 0)%Z then [] else if akey_eqb (o_addr o, bh) K then [AAdd (mkU tid i (o_val o))] else [])) ->
             u = mkU tid i (o_val o)).
  { intros u H. destruct (o_val o =? 0)%Z; [contradiction|]. destruct (akey_eqb (o_addr o, bh) K); [|contradiction]. destruct H as [<-|[]]. reflexivity. }
  split.
  - apply NoDup_app_intro.
    + destruct (o_val o =? 0)%Z; [constructor|]. destruct (akey_eqb (o_addr o, bh) K); simpl; [|constructor]. constructor; [intros []|constructor].
    + exact I1.
    + intros k Hk Hk2. apply in_map_iff in Hk. destruct Hk as [u [<- Hu]]. apply Hhead in Hu. subst u.
      apply in_map_iff in Hk2. destruct Hk2 as [w [E Hw]]. apply I2 in Hw. unfold ukey in E. simpl in E. inversion E. lia.
  - intros u H. apply in_app_or in H. destruct H as [H|H].
    + apply Hhead in H. subst u. simpl. split; [reflexivity|lia].
    + apply I2 in H. split; [tauto|lia].
Qed.

Lemma in_acts_adds K fetch ins : adds (flat_map (in_act K fetch) ins) = [].
Proof.
  induction ins as [|op r IH]; simpl; [reflexivity|]. rewrite adds_app, IH, app_nil_r. unfold in_act.
  destruct (fetch (fst op)) as [[rh rt]|]; [|reflexivity]. destruct (nth_error _ _); [|reflexivity]. destruct (akey_eqb _ K); reflexivity.
Qed.

Lemma in_acts_dels K fetch ins t i : In (t, i) (dels (flat_map (in_act K fetch) ins)) <->
  In (t, i) ins /\ exists rh rt ro, fetch t = Some (rh, rt) /\ nth_error (t_outs rt) (N.to_nat i) = Some ro /\ (o_addr ro, rh) = K.
Proof.
  induction ins as [|op r IH]; simpl; [split; [intros []|intros [[] _]]|].
  rewrite dels_app, in_app_iff, IH. unfold in_act. split.
  - intros [H|[H R]]; [|split; [now right|exact R]].
    destruct (fetch (fst op)) as [[rh rt]|] eqn:Ef; [|contradiction]. destruct (nth_error (t_outs rt) (N.to_nat (snd op))) as [ro|] eqn:En; [|contradiction].
    destruct (akey_eqb (o_addr ro, rh) K) eqn:E; [|contradiction]. destruct H as [E2|[]]. inversion E2; subst. apply akey_eqb_eq in E.
    split; [left; now destruct op|]. exists rh, rt, ro. auto.
  - intros [[->|H] R]; [left|right; auto]. destruct R as [rh [rt [ro [Ef [En Ek]]]]]. simpl. rewrite Ef, En.
    apply akey_eqb_eq in Ek. rewrite Ek. now left.
Qed.

Lemma block_adds K fetch bh txs u : In u (adds (block_acts K fetch bh txs)) <->
  exists x j o, In x txs /\ nth_error (t_outs x) j = Some o /\ u = mkU (t_id x) (N.of_nat j) (o_val o) /\ o_val o <> 0%Z /\ (o_addr o, bh) = K.
Proof.
  unfold block_acts. induction txs as [|t r IH]; simpl; [split; [intros []|intros [x [j [o [[] _]]]]]|].
  rewrite adds_app, in_app_iff, IH. unfold tx_acts. rewrite adds_app, in_app_iff, out_acts_adds.
  assert (Ein : adds (if t_cb t then [] else flat_map (in_act K fetch) (t_ins t)) = []) by (destruct (t_cb t); [reflexivity|apply in_acts_adds]).
  rewrite Ein. split.
  - intros [[[j [o [Hn [Hu R]]]]|[]]|[x [j [o [Hx R]]]]]; [exists t, j, o; split; [now left|]; split; [exact Hn|]; split; [|exact R]; rewrite Hu; f_equal|exists x, j, o; split; [now right|exact R]].
  - intros [x [j [o [[->|Hx] [Hn [Hu R]]]]]]; [left; left; exists j, o; split; [exact Hn|]; split; [|exact R]; rewrite Hu; f_equal|right; exists x, j, o; auto].
Qed.

Lemma block_dels K fetch bh txs t i : In (t, i) (dels (block_acts K fetch bh txs)) <->
  In (t, i) (flat_map spends txs) /\ exists rh rt ro, fetch t = Some (rh, rt) /\ nth_error (t_outs rt) (N.to_nat i) = Some ro /\ (o_addr ro, rh) = K.
Proof.
  unfold block_acts. induction txs as [|x r IH]; simpl; [split; [intros []|intros [[] _]]|].
  rewrite dels_app, !in_app_iff, IH. unfold tx_acts. rewrite dels_app, out_acts_dels. simpl. unfold spends at 2.
  destruct (t_cb x); simpl.
  - split; [intros [[]|[H R]]; auto|intros [[[]|H] R]; auto].
  - rewrite in_acts_dels. split; [intros [[H R]|[H R]]; auto|intros [[H|H] R]; auto].
Qed.

Lemma block_adds_nodup K fetch bh txs : NoDup (ids txs) -> NoDup (map ukey (adds (block_acts K fetch bh txs))).
Proof.
  unfold block_acts. induction txs as [|t r IH]; simpl; intros Hnd; [constructor|].
  inversion Hnd as [|? ? Hn Hr]; subst. rewrite adds_app, map_app. unfold tx_acts at 1. rewrite adds_app.
  assert (Ein : adds (if t_cb t then [] else flat_map (in_act K fetch) (t_ins t)) = []) by (destruct (t_cb t); [reflexivity|apply in_acts_adds]).
  rewrite Ein, app_nil_r. destruct (out_acts_keys K (t_id t) bh (t_outs t) 0) as [O1 O2].
  apply NoDup_app_intro; [exact O1|now apply IH|].
  intros k Hk Hk2. apply in_map_iff in Hk. destruct Hk as [u [<- Hu]]. apply O2 in Hu.
  apply in_map_iff in Hk2. destruct Hk2 as [w [E Hw]]. apply (block_adds K fetch bh r w) in Hw.
  destruct Hw as [x [j [o [Hx [_ [Hw _]]]]]]. subst w. unfold ukey in E. simpl in E. inversion E as [[E1 E2]].
  apply Hn. destruct Hu as [Hu _]. rewrite <- Hu, <- E1. unfold ids. now apply in_map.
Qed.

Lemma block_acts_no_reset K fetch bh txs : no_reset (block_acts K fetch bh txs).
Proof.
  intros a Hin E. subst a. unfold block_acts in Hin. apply in_flat_map in Hin. destruct Hin as [t [_ Hin]].
  unfold tx_acts in Hin. apply in_app_or in Hin. destruct Hin as [Hin|Hin].
  - revert Hin. generalize 0. induction (t_outs t) as [|o r IH]; intros i Hin; simpl in Hin; [contradiction|].
    apply in_app_or in Hin. destruct Hin as [Hin|Hin]; [|eapply IH; eauto].
    destruct (o_val o =? 0)%Z; [contradiction|]. destruct (akey_eqb _ K); [destruct Hin as [Hin|[]]; discriminate|contradiction].
  - destruct (t_cb t); [contradiction|]. apply in_flat_map in Hin. destruct Hin as [op [_ Hin]]. unfold in_act in Hin.
    destruct (fetch (fst op)) as [[rh rt]|]; [|contradiction]. destruct (nth_error _ _); [|contradiction].
    destruct (akey_eqb _ K); [destruct Hin as [Hin|[]]; discriminate|contradiction].
Qed.

(* ---------------------------------------------------------------- SaveBlock preserves inv2 *)
Lemma nth_error_lt {A} (l : list A) j x : nth_error l j = Some x -> (j < length l)%nat.
Proof. intros H. apply nth_error_Some. congruence. Qed.

Theorem save_inv2 s c b s' :
  inv2 s c -> save_block s b = Ok s' ->
  NoDup (ids (b_txs b)) -> NoDup (block_spends b) ->
  (forall t, In t (b_txs b) -> s_txidx s (t_id t) = None) ->
  (forall op, In op (block_spends b) -> In (snd op) (s_unspent s (fst op))) ->
  (forall b', In b' c -> b_height b' < b_height b) ->
  inv2 s' (c ++ [b]).
Proof.
  intros I2 Hsave Hids Hsp Hfresh0 Hunsp Hh.
  pose proof (i2_inv _ _ I2) as I.
  assert (I' : inv s' (c ++ [b])) by (eapply save_inv; eauto).
  destruct (save_block_fields _ _ _ Hsave) as [_ [_ [Ftx [_ Fad]]]].
  assert (Hfresh : forall t, In t (b_txs b) -> ~ In (t_id t) (cids c)).
  { intros t Ht. apply (inv_txidx _ _ I). now apply Hfresh0. }
  assert (Hutxo : forall op, In op (block_spends b) -> utxo_set c op = true).
  { intros [t i] Hop. apply (inv_unspent _ _ I). now apply (Hunsp (t, i)). }
  assert (Hnoref : forall op, In op (block_spends b) -> ~ In (fst op) (ids (b_txs b))).
  { intros [t i] Hop Hin. unfold ids in Hin. apply in_map_iff in Hin. destruct Hin as [x [E Hx]].
    specialize (Hutxo _ Hop). apply utxo_set_iff in Hutxo. destruct Hutxo as [Hcr _]. apply created_cids in Hcr.
    simpl in E. rewrite <- E in Hcr. now apply (Hfresh x Hx). }
  (* tx index with values *)
  assert (Htx : forall t h x, s_txidx s' t = Some (h, x) <-> on_chain (c ++ [b]) t h x).
  { intros t h x. rewrite Ftx, on_chain_snoc. unfold txidx_connect.
    destruct (in_dec N.eq_dec t (ids (b_txs b))) as [Hin|Hnin].
    - unfold ids in Hin. apply in_map_iff in Hin. destruct Hin as [y [<- Hy]].
      rewrite txidx_connect_val by assumption. split.
      + intros E. inversion E; subst. right. auto.
      + intros [Hoc|[-> [Hx E]]].
        * exfalso. apply on_chain_cids in Hoc. now apply (Hfresh y Hy).
        * now rewrite (ids_unique _ x y Hids Hx Hy E).
    - rewrite txidx_connect_other by exact Hnin. rewrite (i2_tx _ _ I2). split; [auto|].
      intros [Hoc|[_ [Hx E]]]; [exact Hoc|]. exfalso. apply Hnin. rewrite <- E. unfold ids. now apply in_map. }
  (* per-address index *)
  assert (Hkey : forall a h, s_addr s' a h = apply_acts (block_acts (a, h) (s_txidx s') (b_height b) (b_txs b)) (s_addr s a h)).
  { intros a h. rewrite Ftx. apply (utxo_connect_key _ _ _ _ a h Fad). }
  assert (Hdel_sub : forall a h t i, In (t, i) (dels (block_acts (a, h) (s_txidx s') (b_height b) (b_txs b))) -> In (t, i) (block_spends b)).
  { intros a h t i H. apply block_dels in H. tauto. }
  assert (Hspec : forall a h, udistinct (s_addr s' a h) /\ forall u, In u (s_addr s' a h) <->
            (In u (s_addr s a h) /\ ~ In (ukey u) (dels (block_acts (a, h) (s_txidx s') (b_height b) (b_txs b))))
            \/ In u (adds (block_acts (a, h) (s_txidx s') (b_height b) (b_txs b)))).
  { intros a h. rewrite Hkey. apply apply_acts_spec.
    - apply block_acts_no_reset.
    - apply (i2_dist _ _ I2).
    - now apply block_adds_nodup.
    - intros u Hu Hin. apply block_adds in Hu. destruct Hu as [x [j [o [Hx [_ [-> _]]]]]].
      apply in_map_iff in Hin. destruct Hin as [w [E Hw]]. apply (i2_addr _ _ I2) in Hw.
      destruct Hw as [y [o' [Hoc _]]]. apply on_chain_cids in Hoc. unfold ukey in E. simpl in E. inversion E as [[E1 E2]].
      apply (Hfresh x Hx). rewrite <- E1. tauto.
    - intros u Hu Hin. apply block_adds in Hu. destruct Hu as [x [j [o [Hx [_ [-> _]]]]]].
      unfold ukey in Hin. simpl in Hin. apply Hdel_sub in Hin. apply (Hnoref _ Hin). simpl. unfold ids. now apply in_map. }
  constructor.
  - exact I'.
  - constructor; [apply (i2_hinc _ _ I2)|exact Hh].
  - exact Htx.
  - intros a h u. destruct (Hspec a h) as [_ S]. rewrite S. clear S. split.
    + intros [[Hold Hnd]|Hnew].
      * (* an old entry that is not spent by the block *)
        apply (i2_addr _ _ I2) in Hold. destruct Hold as [x [o [Hoc [Hn [Ea [Ev [Hnz Hu]]]]]]].
        exists x, o. split; [apply on_chain_snoc; now left|]. repeat (split; [assumption|]).
        assert (Hnt : ~ In (u_tx u) (ids (b_txs b))).
        { intros Hin. unfold ids in Hin. apply in_map_iff in Hin. destruct Hin as [y [E Hy]].
          apply on_chain_cids in Hoc. apply (Hfresh y Hy). rewrite E. tauto. }
        apply utxo_set_snoc_old; [exact Hnt|]. split; [exact Hu|]. intros Hb. apply Hnd. unfold ukey.
        apply block_dels. split; [exact Hb|]. exists h, x, o. split; [|split; [exact Hn|now rewrite Ea]].
        apply Htx. apply on_chain_snoc. now left.
      * apply block_adds in Hnew. destruct Hnew as [x [j [o [Hx [Hn [-> [Hnz Hk]]]]]]]. inversion Hk; subst a h.
        exists x, o. simpl. rewrite Nat2N.id. split; [apply on_chain_snoc; right; auto|]. repeat (split; [auto|]).
        apply utxo_set_iff. split.
        -- exists x. split; [rewrite chain_txs_snoc; apply in_or_app; now right|]. split; [reflexivity|]. rewrite Nat2N.id. eapply nth_error_lt; eauto.
        -- rewrite all_spent_snoc, in_app_iff. intros [Hs|Hs].
           ++ apply (wf_spent_created _ (inv_wf _ _ I)) in Hs. now apply (Hfresh x Hx).
           ++ apply (Hnoref _ Hs). simpl. unfold ids. now apply in_map.
    + intros [x [o [Hoc [Hn [Ea [Ev [Hnz Hu]]]]]]]. apply on_chain_snoc in Hoc. destruct Hoc as [Hoc|[Hh' [Hx Et]]].
      * left. assert (Hnt : ~ In (u_tx u) (ids (b_txs b))).
        { intros Hin. unfold ids in Hin. apply in_map_iff in Hin. destruct Hin as [y [E Hy]].
          apply on_chain_cids in Hoc. apply (Hfresh y Hy). rewrite E. tauto. }
        apply utxo_set_snoc_old in Hu; [|exact Hnt]. destruct Hu as [Hu Hnb]. split.
        -- apply (i2_addr _ _ I2). exists x, o. auto 10.
        -- intros Hd. apply Hnb. destruct u as [ut ui uv]. unfold ukey in Hd. simpl in *. eapply Hdel_sub; eauto.
      * right. apply block_adds. exists x, (N.to_nat (u_idx u)), o. split; [exact Hx|]. split; [exact Hn|].
        split; [destruct u as [ut ui uv]; simpl in *; rewrite N2Nat.id; congruence|]. split; [congruence|]. congruence.
  - intros a h. apply (Hspec a h).
Qed.

(* ---------------------------------------------------------------- the disconnect actions of a block on one key *)
Lemma dout_acts_adds K bh outs : adds (dout_acts K bh outs) = [] /\ dels (dout_acts K bh outs) = [].
Proof.
  unfold dout_acts. induction outs as [|o r [IH1 IH2]]; simpl; [auto|]. rewrite adds_app, dels_app, IH1, IH2.
  destruct (akey_eqb _ K); auto.
Qed.

Lemma din_acts_dels K fetch ins : dels (flat_map (din_act K fetch) ins) = [].
Proof.
  induction ins as [|op r IH]; simpl; [reflexivity|]. rewrite dels_app, IH, app_nil_r. unfold din_act.
  destruct (fetch (fst op)) as [[rh rt]|]; [|reflexivity]. destruct (nth_error _ _); [|reflexivity].
  destruct (_ =? 0)%Z; [reflexivity|]. destruct (akey_eqb _ K); reflexivity.
Qed.

Lemma din_acts_adds K fetch ins u : In u (adds (flat_map (din_act K fetch) ins)) <->
  exists op rh rt ro, In op ins /\ fetch (fst op) = Some (rh, rt) /\ nth_error (t_outs rt) (N.to_nat (snd op)) = Some ro /\
    o_val ro <> 0%Z /\ (o_addr ro, rh) = K /\ u = mkU (fst op) (snd op) (o_val ro).
Proof.
  induction ins as [|op r IH]; simpl; [split; [intros []|intros [op [rh [rt [ro [[] _]]]]]]|].
  rewrite adds_app, in_app_iff, IH. unfold din_act. split.
  - intros [H|[op' [rh [rt [ro [Hin R]]]]]]; [|exists op', rh, rt, ro; split; [now right|exact R]].
    destruct (fetch (fst op)) as [[rh rt]|] eqn:Ef; [|contradiction]. destruct (nth_error (t_outs rt) (N.to_nat (snd op))) as [ro|] eqn:En; [|contradiction].
    destruct (Z.eqb_spec (o_val ro) 0); [contradiction|]. destruct (akey_eqb (o_addr ro, rh) K) eqn:E; [|contradiction].
    destruct H as [<-|[]]. apply akey_eqb_eq in E. exists op, rh, rt, ro. auto 10.
  - intros [op' [rh [rt [ro [[->|Hin] [Ef [En [Hnz [Hk Hu]]]]]]]]]; [left|right; exists op', rh, rt, ro; auto 10].
    rewrite Ef, En. destruct (Z.eqb_spec (o_val ro) 0); [contradiction|]. apply akey_eqb_eq in Hk. rewrite Hk. left. now rewrite Hu.
Qed.

Lemma dblock_dels K fetch bh txs : dels (dblock_acts K fetch bh txs) = [].
Proof.
  unfold dblock_acts. induction txs as [|t r IH]; simpl; [reflexivity|]. rewrite dels_app, IH, app_nil_r.
  unfold dtx_acts. rewrite dels_app. destruct (dout_acts_adds K bh (t_outs t)) as [_ ->]. simpl.
  destruct (t_cb t); [reflexivity|apply din_acts_dels].
Qed.

Lemma dblock_adds K fetch bh txs u : In u (adds (dblock_acts K fetch bh txs)) <->
  exists op rh rt ro, In op (flat_map spends txs) /\ fetch (fst op) = Some (rh, rt) /\ nth_error (t_outs rt) (N.to_nat (snd op)) = Some ro /\
    o_val ro <> 0%Z /\ (o_addr ro, rh) = K /\ u = mkU (fst op) (snd op) (o_val ro).
Proof.
  unfold dblock_acts. induction txs as [|t r IH]; simpl; [split; [intros []|intros [op [rh [rt [ro [[] _]]]]]]|].
  rewrite adds_app, in_app_iff, IH. unfold dtx_acts. rewrite adds_app. destruct (dout_acts_adds K bh (t_outs t)) as [-> _]. simpl.
  unfold spends at 2. destruct (t_cb t); simpl.
  - split; [intros [[]|H]; exact H|intros H; now right].
  - rewrite din_acts_adds. split.
    + intros [[op [rh [rt [ro [Hin R]]]]]|[op [rh [rt [ro [Hin R]]]]]]; exists op, rh, rt, ro; (split; [apply in_or_app; auto|exact R]).
    + intros [op [rh [rt [ro [Hin R]]]]]. apply in_app_or in Hin. destruct Hin as [Hin|Hin]; [left|right]; exists op, rh, rt, ro; auto.
Qed.

Lemma dblock_adds_keys K fetch bh txs : forall k, In k (map ukey (adds (dblock_acts K fetch bh txs))) -> In k (flat_map spends txs).
Proof.
  intros k Hk. apply in_map_iff in Hk. destruct Hk as [u [<- Hu]]. apply dblock_adds in Hu.
  destruct Hu as [op [rh [rt [ro [Hin [_ [_ [_ [_ ->]]]]]]]]]. unfold ukey. simpl. now destruct op.
Qed.

Lemma din_adds_nodup K fetch ins : NoDup ins -> NoDup (map ukey (adds (flat_map (din_act K fetch) ins))) /\
  forall k, In k (map ukey (adds (flat_map (din_act K fetch) ins))) -> In k ins.
Proof.
  induction ins as [|op r IH]; simpl; intros Hnd; [split; [constructor|intros k []]|].
  inversion Hnd as [|? ? Hn Hr]; subst. destruct (IH Hr) as [I1 I2]. rewrite adds_app, map_app.
  assert (Hhead : forall k, In k (map ukey (adds (din_act K fetch op))) -> k = op).
  { intros k Hk. unfold din_act in Hk. destruct (fetch (fst op)) as [[rh rt]|]; [|contradiction]. destruct (nth_error _ _); [|contradiction].
    destruct (_ =? 0)%Z; [contradiction|]. destruct (akey_eqb _ K); [|contradiction]. destruct Hk as [<-|[]]. unfold ukey. simpl. now destruct op. }
  split.
  - apply NoDup_app_intro; [|exact I1|].
    + unfold din_act. destruct (fetch (fst op)) as [[rh rt]|]; [|constructor]. destruct (nth_error _ _); [|constructor].
      destruct (_ =? 0)%Z; [constructor|]. destruct (akey_eqb _ K); simpl; [|constructor]. constructor; [intros []|constructor].
    + intros k Hk Hk2. apply Hhead in Hk. subst k. apply I2 in Hk2. contradiction.
  - intros k Hk. apply in_app_or in Hk. destruct Hk as [Hk|Hk]; [left; symmetry; now apply Hhead|right; now apply I2].
Qed.

Lemma dblock_adds_nodup K fetch bh txs : NoDup (flat_map spends txs) -> NoDup (map ukey (adds (dblock_acts K fetch bh txs))).
Proof.
  unfold dblock_acts. induction txs as [|t r IH]; simpl; intros Hnd; [constructor|].
  assert (Hsplit : NoDup (spends t) /\ NoDup (flat_map spends r) /\ forall k, In k (spends t) -> ~ In k (flat_map spends r)).
  { clear IH. induction (spends t) as [|k l IHl]; simpl in *; [split; [constructor|split; [exact Hnd|intros k []]]|].
    inversion Hnd as [|? ? Hn Hr]; subst. destruct (IHl Hr) as [A1 [A2 A3]]. split; [|split; [exact A2|]].
    - constructor; [|exact A1]. intros H. apply Hn. apply in_or_app. now left.
    - intros k' [<-|Hk']; [intros H; apply Hn; apply in_or_app; now right|now apply A3]. }
  destruct Hsplit as [S1 [S2 S3]]. rewrite adds_app, map_app. unfold dtx_acts at 1. rewrite adds_app.
  destruct (dout_acts_adds K bh (t_outs t)) as [-> _]. simpl. unfold spends in S1, S3.
  destruct (t_cb t); simpl; [now apply IH|].
  destruct (din_adds_nodup K fetch (t_ins t) S1) as [D1 D2].
  apply NoDup_app_intro; [exact D1|now apply IH|].
  intros k Hk Hk2. apply D2 in Hk. apply (S3 k Hk). eapply dblock_adds_keys. exact Hk2.
Qed.

Lemma dblock_reset K fetch bh txs : In AReset (dblock_acts K fetch bh txs) <->
  exists x o, In x txs /\ In o (t_outs x) /\ (o_addr o, bh) = K.
Proof.
  unfold dblock_acts. rewrite in_flat_map. split.
  - intros [x [Hx Hin]]. unfold dtx_acts in Hin. apply in_app_or in Hin. destruct Hin as [Hin|Hin].
    + unfold dout_acts in Hin. apply in_flat_map in Hin. destruct Hin as [o [Ho Hin]].
      destruct (akey_eqb (o_addr o, bh) K) eqn:E; [|contradiction]. apply akey_eqb_eq in E. exists x, o. auto.
    + exfalso. destruct (t_cb x); [contradiction|]. apply in_flat_map in Hin. destruct Hin as [op [_ Hin]]. unfold din_act in Hin.
      destruct (fetch (fst op)) as [[rh rt]|]; [|contradiction]. destruct (nth_error _ _); [|contradiction].
      destruct (_ =? 0)%Z; [contradiction|]. destruct (akey_eqb _ K); [destruct Hin as [Hin|[]]; discriminate|contradiction].
  - intros [x [o [Hx [Ho Hk]]]]. exists x. split; [exact Hx|]. unfold dtx_acts. apply in_or_app. left.
    unfold dout_acts. apply in_flat_map. exists o. split; [exact Ho|]. apply akey_eqb_eq in Hk. rewrite Hk. now left.
Qed.

Lemma apply_only_resets acts : forall l, adds acts = [] -> dels acts = [] ->
  apply_acts acts l = [] \/ (acts = [] /\ apply_acts acts l = l).
Proof.
  induction acts as [|a r IH]; intros l Ha Hd; [right; auto|]. left. destruct a as [u|t i|]; simpl in *; try discriminate.
  destruct (IH [] Ha Hd) as [E|[_ E]]; exact E.
Qed.

(* ---------------------------------------------------------------- RollbackBlock preserves inv2 *)
Theorem rollback_inv2 cf s c b s' :
  inv2 s (c ++ [b]) -> c <> [] -> rollback_block cf s b = Ok s' -> inv2 s' c.
Proof.
  intros I2 Hne Hr. pose proof (i2_inv _ _ I2) as I.
  assert (I' : inv s' c) by (eapply rollback_inv; eauto).
  destruct (rollback_block_fields _ _ _ _ Hr) as [_ [_ [Ftx [_ Fad]]]].
  destruct (wf_snoc_inv _ _ (inv_wf _ _ I)) as [Hwf [Hids [Hfresh [Hsp [Hutxo _]]]]].
  destruct (hinc_snoc_inv _ _ (i2_hinc _ _ I2)) as [Hhc Hh].
  assert (Htxv : forall t, s_txidx s' t = if existsb (N.eqb t) (ids (b_txs b)) then None else s_txidx s t).
  { intros t. unfold txidx_disconnect in Ftx. apply (txidx_disconnect_val _ _ _ Ftx t). }
  assert (Htx : forall t h x, s_txidx s' t = Some (h, x) <-> on_chain c t h x).
  { intros t h x. rewrite Htxv. destruct (existsb (N.eqb t) (ids (b_txs b))) eqn:E.
    - apply existsb_eqb_in in E. split; [discriminate|]. intros Hoc. exfalso. apply on_chain_cids in Hoc.
      unfold ids in E. apply in_map_iff in E. destruct E as [y [<- Hy]]. apply (Hfresh y Hy). tauto.
    - rewrite (i2_tx _ _ I2), on_chain_snoc. split; [|auto]. intros [Hoc|[_ [Hx Et]]]; [exact Hoc|].
      exfalso. assert (existsb (N.eqb t) (ids (b_txs b)) = true); [|congruence].
      apply existsb_eqb_in. rewrite <- Et. unfold ids. now apply in_map. }
  assert (Hkey : forall a h, s_addr s' a h = apply_acts (dblock_acts (a, h) (s_txidx s') (b_height b) (b_txs b)) (s_addr s a h)).
  { intros a h. apply (utxo_disconnect_key _ _ _ _ a h Fad). }
  assert (Hnoh : forall t h x, on_chain c t h x -> h <> b_height b).
  { intros t h x [b0 [Hin [Ehh _]]] E. specialize (Hh b0 Hin). lia. }
  assert (Hcase : forall a h, udistinct (s_addr s' a h) /\ forall u, In u (s_addr s' a h) <-> owns c a h u).
  { intros a h. rewrite Hkey. destruct (N.eq_dec h (b_height b)) as [->|Hneq].
    - (* the block's own height: the entries are reset *)
      assert (Hadds : adds (dblock_acts (a, b_height b) (s_txidx s') (b_height b) (b_txs b)) = []).
      { apply no_elements_nil. intros u Hu. apply dblock_adds in Hu.
        destruct Hu as [op [rh [rt [ro [_ [Ef [_ [_ [Hk _]]]]]]]]]. inversion Hk; subst. apply Htx in Ef. now apply (Hnoh _ _ _ Ef). }
      assert (Hempty : apply_acts (dblock_acts (a, b_height b) (s_txidx s') (b_height b) (b_txs b)) (s_addr s a (b_height b)) = []).
      { destruct (apply_only_resets _ (s_addr s a (b_height b)) Hadds (dblock_dels _ _ _ _)) as [E|[E1 E2]]; [exact E|].
        rewrite E2. apply no_elements_nil. intros u Hu. apply (i2_addr _ _ I2) in Hu.
        destruct Hu as [x [o [Hoc [Hn [Ea _]]]]]. apply on_chain_snoc in Hoc. destruct Hoc as [Hoc|[_ [Hx _]]].
        - now apply (Hnoh _ _ _ Hoc).
        - assert (Hr' : In AReset (dblock_acts (a, b_height b) (s_txidx s') (b_height b) (b_txs b))).
          { apply dblock_reset. exists x, o. split; [exact Hx|]. split; [eapply nth_error_In; eauto|now rewrite Ea]. }
          rewrite E1 in Hr'. contradiction. }
      rewrite Hempty. split; [constructor|]. intros u. split; [intros []|].
      intros [x [o [Hoc _]]]. exfalso. now apply (Hnoh _ _ _ Hoc).
    - (* other heights: the spent outputs come back *)
      assert (Hnr : no_reset (dblock_acts (a, h) (s_txidx s') (b_height b) (b_txs b))).
      { intros x Hx E. subst x. apply dblock_reset in Hx. destruct Hx as [y [o [_ [_ Hk]]]]. inversion Hk. congruence. }
      destruct (apply_acts_spec _ (s_addr s a h) Hnr (i2_dist _ _ I2 a h)) as [S1 S2].
      + now apply dblock_adds_nodup.
      + intros u Hu Hin. apply in_map_iff in Hin. destruct Hin as [w [E Hw]]. apply (i2_addr _ _ I2) in Hw.
        destruct Hw as [_ [_ [_ [_ [_ [_ [_ Hus]]]]]]]. fold (ukey w) in Hus. rewrite E in Hus.
        assert (Hk : In (ukey u) (block_spends b)) by (eapply dblock_adds_keys; apply in_map; exact Hu).
        destruct (ukey u) as [t i]. apply utxo_set_iff in Hus. destruct Hus as [_ Hns]. apply Hns.
        rewrite all_spent_snoc. apply in_or_app. now right.
      + rewrite dblock_dels. intros u _ [].
      + split; [exact S1|]. intros u. rewrite S2, dblock_dels. split.
        * intros [[Hold _]|Hnew].
          -- apply (i2_addr _ _ I2) in Hold. destruct Hold as [x [o [Hoc [Hn [Ea [Ev [Hnz Hu]]]]]]].
             apply on_chain_snoc in Hoc. destruct Hoc as [Hoc|[Ehh _]]; [|congruence].
             exists x, o. repeat (split; [assumption|]).
             apply utxo_set_iff in Hu. apply utxo_set_iff. destruct Hu as [_ Hns]. split.
             ++ destruct (on_chain_cids _ _ _ _ Hoc) as [_ Hx]. destruct Hoc as [_ [_ [_ [_ Et]]]].
                exists x. split; [exact Hx|]. split; [exact Et|]. eapply nth_error_lt; eauto.
             ++ intros Hs. apply Hns. rewrite all_spent_snoc. apply in_or_app. now left.
          -- apply dblock_adds in Hnew. destruct Hnew as [op [rh [rt [ro [Hin [Ef [En [Hnz [Hk ->]]]]]]]]]. inversion Hk; subst a h.
             exists rt, ro. simpl. split; [now apply Htx|]. repeat (split; [auto|]). specialize (Hutxo op Hin). now destruct op.
        * intros [x [o [Hoc [Hn [Ea [Ev [Hnz Hu]]]]]]].
          destruct (in_dec op_eq_dec (ukey u) (block_spends b)) as [Hb|Hnb].
          -- right. apply dblock_adds. exists (ukey u), h, x, o. split; [exact Hb|]. unfold ukey. simpl.
             split; [now apply Htx|]. split; [exact Hn|]. split; [congruence|]. split; [now rewrite Ea|].
             destruct u as [ut ui uv]. simpl in *. congruence.
          -- left. split; [|intros []]. apply (i2_addr _ _ I2). exists x, o. split; [apply on_chain_snoc; now left|].
             repeat (split; [assumption|]).
             assert (Hnt : ~ In (u_tx u) (ids (b_txs b))).
             { intros Hin. unfold ids in Hin. apply in_map_iff in Hin. destruct Hin as [y [E Hy]].
               apply on_chain_cids in Hoc. apply (Hfresh y Hy). rewrite E. tauto. }
             apply utxo_set_snoc_old; [exact Hnt|]. split; [exact Hu|exact Hnb]. }
  constructor.
  - exact I'.
  - exact Hhc.
  - exact Htx.
  - intros a h. apply (Hcase a h).
  - intros a h. apply (Hcase a h).
Qed.

(* ---------------------------------------------------------------- genesis *)
Lemma inv2_empty tip : inv2 (empty_state tip) [].
Proof.
  constructor; simpl.
  - apply inv_empty.
  - constructor.
  - intros t h x. split; [discriminate|]. intros [b [[] _]].
  - intros a h u. split; [intros []|]. intros [x [o [[b [[] _]] _]]].
  - intros a h. constructor.
Qed.

Theorem init_inv2 g s0 :
  init_state g = Ok s0 -> NoDup (ids (b_txs g)) -> block_spends g = [] -> inv2 s0 [g].
Proof.
  intros H Hids Hsp. change [g] with ([] ++ [g]).
  eapply save_inv2; [apply (inv2_empty (b_prev g))|exact H|exact Hids| | | |].
  - rewrite Hsp. constructor.
  - intros t _. reflexivity.
  - rewrite Hsp. intros op [].
  - intros b' [].
Qed.

