(* C02: decoding with a well-formed descriptor never panics and its allocation
   meter is bounded by kf f * |input| + cf f.  Induction on the descriptor; the
   element loop by induction on its fuel. *)
From Coq Require Import NArith List Lia Bool.
From ELA Require Import lib.GoSem lib.Bytes lib.VarInt model.C02_Fmt proof.C02_BytesFacts.
Import ListNotations.
Local Open Scope N_scope.

Definition len (bs : bytes) : N := N.of_nat (length bs).

(* the invariant proved for every well-formed descriptor *)
Definition good (f : fmt) (r : dres) (bs : bytes) : Prop :=
  match r with
  | (Ok (_, rest), m) => len rest + minsz f <= len bs /\ m <= kf f * (len bs - len rest)
  | (Err, m) => m <= kf f * len bs + cf f
  | (Panic, _) => False
  end.

Lemma take_lenN : forall n bs h t, take n bs = Some (h, t) -> len bs = N.of_nat n + len t.
Proof. intros. apply take_length in H. unfold len. lia. Qed.

Lemma len_app' : forall a b, len (a ++ b) = len a + len b.
Proof. intros. unfold len. rewrite app_length. lia. Qed.

Lemma varint_lenN : forall bs v t, varint_dec bs = Some (v, t) -> len t + 1 <= len bs.
Proof. intros. apply varint_dec_length in H. unfold len. lia. Qed.

Lemma read_cnt_len : forall ck bs n rest, read_cnt ck bs = Some (n, rest) ->
  len rest + N.of_nat (cnt_bytes ck) <= len bs.
Proof.
  intros ck bs n rest H. destruct ck; simpl in *.
  - apply varint_lenN in H. lia.
  - destruct (take w bs) as [[h t]|] eqn:E; [|discriminate]. inversion H; subst.
    apply take_lenN in E. lia.
Qed.


Lemma div_up : forall x mn, 1 <= mn -> x <= (x / mn + 1) * mn.
Proof.
  intros x mn H. pose proof (N.div_mod x mn). pose proof (N.mod_lt x mn). nia.
Qed.

(* the loop: if every element decode is good and consumes >= mn >= 1 bytes, the
   loop never panics; each iteration pays its constant overhead ic with the
   bytes it consumed *)
Lemma loop_good : forall (de : bytes -> dres) (ke ce ic mn : N), 1 <= mn ->
  (forall bs, match de bs with
              | (Ok (_, rest), m) => len rest + mn <= len bs /\ m <= ke * (len bs - len rest)
              | (Err, m) => m <= ke * len bs + ce
              | (Panic, _) => False
              end) ->
  forall fuel k bs,
  match loop de ic fuel k bs with
  | (Ok (vs, rest), m) => len rest + mn * N.of_nat (length vs) <= len bs /\
                          m <= (ke + (ic / mn + 1)) * (len bs - len rest)
  | (Err, m) => m <= (ke + (ic / mn + 1)) * len bs + ce
  | (Panic, _) => False
  end.
Proof.
  intros de ke ce ic mn Hmn Hde. pose proof (div_up ic mn Hmn) as F.
  remember (ic / mn + 1) as q. clear Heqq.
  induction fuel; intros k bs; simpl.
  - destruct (k =? 0); simpl; lia.
  - destruct (k =? 0); [simpl; lia|].
    specialize (Hde bs). destruct (de bs) as [[[v rest]| |] m]; [|nia|contradiction].
    destruct Hde as [H1 H2].
    specialize (IHfuel (k - 1) rest).
    destruct (loop de ic fuel (k - 1) rest) as [[[vs rest']| |] m']; [| |contradiction].
    + destruct IHfuel as [I1 I2]. simpl length. split; [lia|].
      assert (ic <= q * (len bs - len rest)) by nia. nia.
    + assert (ic <= q * (len bs - len rest)) by nia. nia.
Qed.

Lemma loop_length : forall de ic fuel k bs vs rest m,
  loop de ic fuel k bs = (Ok (vs, rest), m) -> N.of_nat (length vs) = k.
Proof.
  induction fuel; intros k bs vs rest m H; simpl in H.
  - destruct (k =? 0) eqn:Z; [|discriminate]. apply N.eqb_eq in Z. inversion H; subst. reflexivity.
  - destruct (k =? 0) eqn:Z; [apply N.eqb_eq in Z; inversion H; subst; reflexivity|].
    apply N.eqb_neq in Z.
    destruct (de bs) as [[[v r1]| |] m1]; try discriminate.
    destruct (loop de ic fuel (k - 1) r1) as [[[vs1 r2]| |] m2] eqn:L1; try discriminate.
    inversion H; subst. apply IHfuel in L1. simpl length. lia.
Qed.

Lemma wf_cnt_cost : forall ck, cnt_cost ck <= 9 * N.of_nat (cnt_bytes ck).
Proof. destruct ck; cbn [cnt_cost cnt_bytes]; lia. Qed.

Theorem decode_good : forall f, wf_alloc f = true -> forall cx bs, good f (decode f cx bs) bs.
Proof.
  induction f; intros WF cx bs; unfold good; cbn [decode minsz kf cf].
  - (* FUnit *) lia.
  - (* FFail *) lia.
  - (* FU *) destruct (take w bs) as [[h t]|] eqn:E; [apply take_lenN in E; lia|lia].
  - (* FBool *) destruct bs as [|b t]; [lia|]. unfold len. simpl length. lia.
  - (* FFix *) destruct (take n bs) as [[h t]|] eqn:E; [apply take_lenN in E; lia|lia].
  - (* FVarUint *) destruct (varint_dec bs) as [[v t]|] eqn:E; [apply varint_lenN in E; lia|lia].
  - (* FDropVarUint *) destruct (varint_dec bs) as [[v t]|] eqn:E; [apply varint_lenN in E; lia|lia].
  - (* FVarBytes *)
    destruct (varint_dec bs) as [[n t]|] eqn:E; [|lia]. apply varint_lenN in E.
    destruct (max <? n) eqn:M; [lia|]. apply N.ltb_ge in M.
    destruct (take_N n t) as [[h t']|] eqn:T.
    + apply take_N_length in T. destruct T as [T1 T2]. fold (len t) in T1. fold (len t') in T1. lia.
    + lia.
  - (* FTimeMs *) destruct (take 8 bs) as [[h t]|] eqn:E; [|lia]. apply take_lenN in E.
    destruct (ms_norm (le_val h)); lia.
  - (* FTailU8List *) destruct bs as [|b0 bs0]; [unfold len; simpl; lia|].
    destruct (varint_dec (b0 :: bs0)) as [[n t]|] eqn:E;
      [|destruct bs0; [destruct (253 <=? b0)|]; unfold len; simpl length; lia].
    apply varint_lenN in E.
    destruct (take_upto t n) as [h t'] eqn:T. apply take_upto_spec in T. destruct T as [T1 T2].
    assert (len t = len h + len t') by (subst t; apply len_app'). unfold len in *. lia.
  - (* FSwallowHead *)
    cbn [wf_alloc] in WF. apply andb_true_iff in WF. destruct WF as [WF _].
    destruct (varint_dec bs) as [[n t]|] eqn:E.
    + specialize (IHf WF cx bs). unfold good in IHf.
      destruct (decode f cx bs) as [[[v rest]| |] m]; [| |contradiction]; [destruct IHf; split; lia|lia].
    + split; [|apply N.le_0_l]. unfold len. rewrite skipn_length. lia.
  - (* FSkipOpt *) destruct bs as [|b t]; unfold len; simpl length; lia.
  - (* FSeq *)
    cbn [wf_alloc] in WF. apply andb_true_iff in WF. destruct WF as [W1 W2].
    specialize (IHf1 W1 cx bs). unfold good in IHf1.
    destruct (decode f1 cx bs) as [[[va rest]| |] ma]; [| |contradiction].
    + destruct IHf1 as [A1 A2]. specialize (IHf2 W2 cx rest). unfold good in IHf2.
      destruct (decode f2 cx rest) as [[[vb rest']| |] mb]; [| |contradiction].
      * destruct IHf2 as [B1 B2]. split; [lia|]. nia.
      * nia.
    + nia.
  - (* FCounted *)
    cbn [wf_alloc] in WF. repeat (apply andb_true_iff in WF; destruct WF as [WF ?]).
    rename H into WP, H0 into We, H1 into Wm. apply N.leb_le in WF, Wm.
    pose proof (wf_cnt_cost c) as CC.
    pose proof (div_up esz (minsz f) Wm) as F1.
    assert (IQ : iter_cost p esz / minsz f <= (8 * esz) / minsz f)
      by (apply N.div_le_mono; [lia|destruct p; cbn [iter_cost]; lia]).
    pose proof (loop_good (decode f cx) (kf f) (cf f) (iter_cost p esz) (minsz f) Wm) as L.
    remember (esz / minsz f) as q1 eqn:Eq1. remember ((8 * esz) / minsz f) as q2 eqn:Eq2.
    remember (iter_cost p esz / minsz f) as q3 eqn:Eq3. clear Eq1 Eq2 Eq3.
    destruct (read_cnt c bs) as [[n rest]|] eqn:R; [|lia].
    apply read_cnt_len in R.
    destruct (match bound with Some b => b <? n | None => false end) eqn:BD; [lia|].
    assert (PRE : p <> NoPre -> exists b, bound = Some b /\ n <= b /\ makeslice_ok b esz = true).
    { intros NP. destruct p; [contradiction| |]; (destruct bound as [b|]; [|discriminate]);
        exists b; apply N.ltb_ge in BD; auto. }
    assert (MS : (match p with NoPre => false | _ => negb (makeslice_ok n esz) end) = false).
    { destruct p; auto; destruct PRE as [b [Eb [Hb Hm]]]; try discriminate;
        unfold makeslice_ok in *; apply andb_true_iff in Hm; destruct Hm as [M1 M2];
        apply N.leb_le in M1, M2; apply negb_false_iff; apply andb_true_iff; split; apply N.leb_le; nia. }
    rewrite MS.
    assert (Hde : forall bs0, match decode f cx bs0 with
              | (Ok (_, rest0), m) => len rest0 + minsz f <= len bs0 /\ m <= kf f * (len bs0 - len rest0)
              | (Err, m) => m <= kf f * len bs0 + cf f
              | (Panic, _) => False end).
    { intros bs0. specialize (IHf We cx bs0). unfold good in IHf.
      destruct (decode f cx bs0) as [[[v r0]| |] m]; auto. }
    specialize (L Hde (S (length rest)) (if asint && (max_int <? n) then 0 else n) rest).
    destruct (loop (decode f cx) (iter_cost p esz) (S (length rest)) (if asint && (max_int <? n) then 0 else n) rest)
      as [[[vs rest']| |] m] eqn:LL; [| |contradiction].
    + destruct L as [L1 L2]. split; [lia|].
      (* the count-sized allocation is paid for by the elements actually read *)
      assert (PC : match p with NoPre => 0 | _ => n * esz end <= (q1 + 1) * (len rest - len rest')).
      { destruct p; [apply N.le_0_l| |].
        all: destruct PRE as [b [Eb [Hb Hm]]]; try discriminate.
        all: unfold makeslice_ok in Hm; apply andb_true_iff in Hm; destruct Hm as [M1 _]; apply N.leb_le in M1.
        all: assert (IT' : (if asint && (max_int <? n) then 0 else n) = n)
               by (replace (max_int <? n) with false by (symmetry; apply N.ltb_ge; lia);
                   rewrite andb_false_r; reflexivity).
        all: rewrite IT' in LL; apply loop_length in LL.
        all: assert (n * esz <= n * ((q1 + 1) * minsz f)) by nia.
        all: assert (minsz f * n <= len rest - len rest') by lia.
        all: nia. }
      assert (m <= (kf f + (q2 + 1)) * (len rest - len rest')) by nia.
      nia.
    + assert (PC : match p with NoPre => 0 | _ => n * esz end <=
                   match p, bound with NoPre, _ => 0 | _, Some b => b * esz | _, None => 0 end).
      { destruct p; [lia| |]; destruct PRE as [b [Eb [Hb Hm]]]; try discriminate; subst bound; nia. }
      assert (m <= (kf f + (q2 + 1)) * len rest + cf f) by nia.
      nia.
  - (* FTag *)
    cbn [wf_alloc] in WF.
    destruct (take w bs) as [[h t]|] eqn:E; [|lia]. apply take_lenN in E.
    specialize (IHf WF (tagv nz h :: cx) t). unfold good in IHf.
    destruct (decode f (tagv nz h :: cx) t) as [[[v rest]| |] m]; [| |contradiction].
    + destruct IHf as [A1 A2]. split; [lia|]. nia.
    + nia.
  - (* FCase *)
    cbn [wf_alloc] in WF. apply andb_true_iff in WF. destruct WF as [W1 W2].
    destruct (sel i cx =? n).
    + specialize (IHf1 W1 cx bs). unfold good in IHf1.
      destruct (decode f1 cx bs) as [[[v rest]| |] m]; [| |contradiction]; [destruct IHf1; split; [lia|nia]|nia].
    + specialize (IHf2 W2 cx bs). unfold good in IHf2.
      destruct (decode f2 cx bs) as [[[v rest]| |] m]; [| |contradiction]; [destruct IHf2; split; [lia|nia]|nia].
  - (* FCaseGe *)
    cbn [wf_alloc] in WF. apply andb_true_iff in WF. destruct WF as [W1 W2].
    destruct (n <=? sel i cx).
    + specialize (IHf1 W1 cx bs). unfold good in IHf1.
      destruct (decode f1 cx bs) as [[[v rest]| |] m]; [| |contradiction]; [destruct IHf1; split; [lia|nia]|nia].
    + specialize (IHf2 W2 cx bs). unfold good in IHf2.
      destruct (decode f2 cx bs) as [[[v rest]| |] m]; [| |contradiction]; [destruct IHf2; split; [lia|nia]|nia].
Qed.

(* ---- the statement of the property on the DSL *)

Theorem decode_safe : forall f, wf_alloc f = true -> forall c bs,
  fst (decode f c bs) <> Panic /\ snd (decode f c bs) <= kf f * len bs + cf f.
Proof.
  intros f WF c bs. pose proof (decode_good f WF c bs) as G. unfold good in G.
  destruct (decode f c bs) as [[[v rest]| |] m]; simpl.
  - destruct G as [G1 G2]. split; [discriminate|]. nia.
  - split; [discriminate|lia].
  - contradiction.
Qed.

(* a successful decode pays for its allocations with consumed input only *)
Theorem decode_ok_linear : forall f, wf_alloc f = true -> forall c bs v rest m,
  decode f c bs = (Ok (v, rest), m) ->
  len rest <= len bs /\ m <= kf f * (len bs - len rest).
Proof.
  intros f WF c bs v rest m H. pose proof (decode_good f WF c bs) as G. unfold good in G.
  rewrite H in G. destruct G. split; [lia|auto].
Qed.

Lemma all_safe : forall fs, forallb wf_alloc fs = true ->
  forall f, In f fs -> forall c bs,
  fst (decode f c bs) <> Panic /\ snd (decode f c bs) <= kf f * len bs + cf f.
Proof.
  intros fs H f I. apply decode_safe. rewrite forallb_forall in H. auto.
Qed.
