(* C11 lemmas: the subsidy as a function of the halving exponent, the exponent
   as a function of height, and inversion of the DPoS v2 coinbase check. *)
From Coq Require Import ZArith Bool List Lia Floats.
From ELA Require Import lib.GoFloat model.C11_Issuance.
Import ListNotations.
Local Open Scope Z_scope.

(* ------------------------------------------------------------------ int64 wrap *)

Lemma wrap64_small : forall z, in_int64 z = true -> wrap64 z = z.
Proof.
  intros z H. unfold in_int64, min_int64, max_int64 in H.
  apply andb_prop in H. destruct H as [H1 H2].
  apply Z.leb_le in H1. apply Z.leb_le in H2.
  unfold wrap64, two63, two64. rewrite Z.mod_small; lia.
Qed.

Lemma wrap64_add_mul : forall x k, wrap64 (x + k * two64) = wrap64 x.
Proof.
  intros. unfold wrap64.
  replace (x + k * two64 + two63) with (x + two63 + k * two64) by ring.
  rewrite Z_mod_plus_full. reflexivity.
Qed.

Lemma wrap64_decomp : forall z, exists k, wrap64 z = z + k * two64.
Proof.
  intros z. unfold wrap64.
  exists (- ((z + two63) / two64)).
  pose proof (Z.div_mod (z + two63) two64) as H.
  assert (two64 <> 0) by (unfold two64; lia). specialize (H H0). lia.
Qed.

Lemma wrap64_range : forall z, min_int64 <= wrap64 z <= max_int64.
Proof.
  intros. unfold wrap64, min_int64, max_int64, two63, two64.
  pose proof (Z.mod_pos_bound (z + 9223372036854775808) 18446744073709551616). lia.
Qed.

(* ------------------------------------------------------------------ subsidy by exponent *)

Definition ks : list Z := map Z.of_nat (seq 0 1025).

Lemma in_ks : forall k, 0 <= k <= 1024 -> In k ks.
Proof.
  intros k Hk. unfold ks. rewrite <- (Z2Nat.id k) by lia.
  apply in_map. apply in_seq. lia.
Qed.

Lemma sweep_nonneg : forallb (fun k => 0 <=? reward_of_k k) ks = true.
Proof. vm_compute. reflexivity. Qed.

Lemma sweep_step : forallb (fun k => reward_of_k (k + 1) <=? reward_of_k k) ks = true.
Proof. vm_compute. reflexivity. Qed.

Lemma reward_big : forall k, 1024 <= k -> reward_of_k k = 0.
Proof.
  intros k Hk. unfold reward_of_k, pow2.
  destruct (1024 <=? k) eqn:E; [| apply Z.leb_gt in E; lia].
  vm_compute. reflexivity.
Qed.

Lemma reward_k_nonneg : forall k, 0 <= k -> 0 <= reward_of_k k.
Proof.
  intros k Hk. destruct (Z_le_gt_dec k 1024) as [Hle | Hgt].
  - pose proof sweep_nonneg as S. rewrite forallb_forall in S.
    specialize (S k (in_ks k (conj Hk Hle))). apply Z.leb_le in S. exact S.
  - rewrite reward_big by lia. lia.
Qed.

Lemma reward_k_step : forall k, 0 <= k -> reward_of_k (k + 1) <= reward_of_k k.
Proof.
  intros k Hk. destruct (Z_le_gt_dec k 1024) as [Hle | Hgt].
  - pose proof sweep_step as S. rewrite forallb_forall in S.
    specialize (S k (in_ks k (conj Hk Hle))). apply Z.leb_le in S. exact S.
  - rewrite (reward_big (k + 1)) by lia. rewrite (reward_big k) by lia. lia.
Qed.

Lemma reward_k_antitone : forall k1 k2, 0 <= k1 <= k2 -> reward_of_k k2 <= reward_of_k k1.
Proof.
  intros k1 k2 [H0 H12].
  replace k2 with (k1 + (k2 - k1)) by ring.
  assert (Hd : 0 <= k2 - k1) by lia. revert Hd. generalize (k2 - k1) as d.
  intros d Hd. pattern d. apply natlike_ind; [| | exact Hd].
  - rewrite Z.add_0_r. lia.
  - intros x Hx IH. replace (k1 + Z.succ x) with (k1 + x + 1) by lia.
    pose proof (reward_k_step (k1 + x)). lia.
Qed.

(* ------------------------------------------------------------------ exponent by height *)

(* configuration side conditions: uint32 fields, a positive interval, and
   2 + (MaxUint32 - H) / I representable (no uint32 wrap of the factor) *)
Definition cfg_okb (c : cfg) : bool :=
  (0 <=? halv_h c) && (halv_h c <=? max_u32) && (0 <? halv_int c) &&
  (2 + (max_u32 - halv_h c) / halv_int c <=? max_u32).

Definition k_of (c : cfg) (h : Z) : Z :=
  if h <? halv_h c then 0 else 1 + (h - halv_h c) / halv_int c.

Lemma u32_small : forall z, 0 <= z <= max_u32 -> u32 z = z.
Proof. intros z H. unfold u32, max_u32 in *. apply Z.mod_small. lia. Qed.

Lemma cfg_ok_elim : forall c, cfg_okb c = true ->
  0 <= halv_h c <= max_u32 /\ 0 < halv_int c /\ 2 + (max_u32 - halv_h c) / halv_int c <= max_u32.
Proof.
  intros c H. unfold cfg_okb in H.
  repeat (apply andb_prop in H; destruct H as [H ?]).
  apply Z.leb_le in H. apply Z.leb_le in H2. apply Z.ltb_lt in H1. apply Z.leb_le in H0. lia.
Qed.

Lemma exponent_eq : forall c h, cfg_okb c = true -> 0 <= h <= max_u32 ->
  u32 (factor c h - 1) = k_of c h.
Proof.
  intros c h Hc Hh. apply cfg_ok_elim in Hc. destruct Hc as (HH & HI & HW).
  unfold factor, k_of. destruct (h <? halv_h c) eqn:E.
  - reflexivity.
  - apply Z.ltb_ge in E.
    assert (Hq : 0 <= (h - halv_h c) / halv_int c <= (max_u32 - halv_h c) / halv_int c).
    { split. apply Z.div_pos; lia. apply Z.div_le_mono; lia. }
    rewrite (u32_small (h - halv_h c)) by lia.
    rewrite (u32_small (2 + _)) by lia.
    rewrite u32_small by lia. lia.
Qed.

Lemma k_of_nonneg : forall c h, 0 < halv_int c -> 0 <= k_of c h.
Proof.
  intros c h HI. unfold k_of. destruct (h <? halv_h c) eqn:E. lia.
  apply Z.ltb_ge in E. pose proof (Z.div_pos (h - halv_h c) (halv_int c)). lia.
Qed.

Lemma k_of_mono : forall c h1 h2, 0 < halv_int c -> h1 <= h2 -> k_of c h1 <= k_of c h2.
Proof.
  intros c h1 h2 HI H12. unfold k_of.
  destruct (h1 <? halv_h c) eqn:E1; destruct (h2 <? halv_h c) eqn:E2;
    try apply Z.ltb_lt in E1; try apply Z.ltb_ge in E1; try apply Z.ltb_lt in E2; try apply Z.ltb_ge in E2.
  - lia.
  - pose proof (Z.div_pos (h2 - halv_h c) (halv_int c)). lia.
  - lia.
  - pose proof (Z.div_le_mono (h1 - halv_h c) (h2 - halv_h c) (halv_int c)). lia.
Qed.

(* ------------------------------------------------------------------ schedule theorems *)

Lemma reward_nonneg : forall c h r,
  block_reward c h = Some r -> (h < new_h c -> 0 <= old_reward c) -> 0 <= r.
Proof.
  intros c h r H Hold. unfold block_reward in H.
  destruct (h <? new_h c) eqn:E.
  - apply Z.ltb_lt in E. inversion H. subst. auto.
  - destruct ((halv_h c <=? h) && (halv_int c =? 0)); [discriminate |].
    inversion H. apply reward_k_nonneg. unfold u32.
    pose proof (Z.mod_pos_bound (factor c h - 1) 4294967296). lia.
Qed.

Lemma block_reward_new : forall c h r, cfg_okb c = true -> new_h c <= h -> 0 <= h <= max_u32 ->
  block_reward c h = Some r -> r = reward_of_k (k_of c h).
Proof.
  intros c h r Hc Hn Hh H. unfold block_reward in H.
  destruct (h <? new_h c) eqn:E; [apply Z.ltb_lt in E; lia |].
  destruct ((halv_h c <=? h) && (halv_int c =? 0)); [discriminate |].
  inversion H. rewrite exponent_eq by assumption. reflexivity.
Qed.

Lemma reward_antitone : forall c h1 h2 r1 r2,
  cfg_okb c = true -> 0 <= h1 -> new_h c <= h1 -> h1 <= h2 -> h2 <= max_u32 ->
  block_reward c h1 = Some r1 -> block_reward c h2 = Some r2 -> r2 <= r1.
Proof.
  intros c h1 h2 r1 r2 Hc H0 Hn H12 Hm B1 B2.
  rewrite (block_reward_new c h1 r1) by (assumption || lia).
  rewrite (block_reward_new c h2 r2) by (assumption || lia).
  pose proof (cfg_ok_elim c Hc) as (_ & HI & _).
  apply reward_k_antitone. split. apply k_of_nonneg; assumption. apply k_of_mono; assumption.
Qed.

(* defined (no panic) whenever the interval is positive *)
Lemma block_reward_defined : forall c h, 0 < halv_int c -> exists r, block_reward c h = Some r.
Proof.
  intros c h HI. unfold block_reward. destruct (h <? new_h c). eauto.
  destruct (halv_int c =? 0) eqn:E. apply Z.eqb_eq in E. lia.
  rewrite andb_false_r. eauto.
Qed.

(* ------------------------------------------------------------------ DPoS v2 coinbase *)

Definition v2_shape (e : env) (total dpos : Z) (outs : list output) : Prop :=
  exists o0 o1 o2, outs = [o0; o1; o2] /\
    o_val o0 = ceil30 total /\
    o_val o1 = sub64 (sub64 total (ceil30 total)) (ceil35 total) /\
    o_val o2 = dpos /\
    (if e_pow e then o_addr o0 = e_destroy e /\ o_addr o2 = e_destroy e
     else o_addr o0 = e_cr_assets e /\ o_addr o2 = e_dpos_acc e).

Ltac split_eqb H :=
  repeat match type of H with
  | context [negb (?a =? ?b)] => destruct (Z.eqb_spec a b); cbn [negb] in H; [| discriminate H]
  end.

Lemma check_v2_accept : forall e outs total dpos,
  check_v2 e outs total dpos = Accept -> v2_shape e total dpos outs.
Proof.
  intros e outs total dpos H. unfold check_v2 in H.
  destruct outs as [| o0 rest0]; try discriminate.
  destruct (Z.eqb_spec (o_val o0) (ceil30 total)); cbn [negb] in H; [| discriminate].
  destruct rest0 as [| o1 rest]; try discriminate.
  destruct (Z.eqb_spec (o_val o1) (sub64 (sub64 total (ceil30 total)) (ceil35 total))); cbn [negb] in H; [| discriminate].
  destruct rest as [| o2 [| o3 rest]]; try discriminate.
  destruct (Z.eqb_spec (o_val o2) dpos); cbn [negb] in H; [| discriminate].
  exists o0, o1, o2. repeat split; try assumption.
  destruct (e_pow e).
  - destruct (Z.eqb_spec (o_addr o2) (e_destroy e)); cbn [negb] in H; [| discriminate].
    destruct (Z.eqb_spec (o_addr o0) (e_destroy e)); cbn [negb] in H; [| discriminate]. auto.
  - destruct (Z.eqb_spec (o_addr o0) (e_cr_assets e)); cbn [negb] in H; [| discriminate].
    destruct (Z.eqb_spec (o_addr o2) (e_dpos_acc e)); cbn [negb] in H; [| discriminate]. auto.
Qed.

Lemma v2_accept_shape : forall e h outs fee dpos,
  v2_regime e h = true -> coinbase_check e h outs fee dpos = Accept ->
  exists r, block_reward (e_cfg e) h = Some r /\ v2_shape e (add64 fee r) dpos outs.
Proof.
  intros e h outs fee dpos Hv H. unfold coinbase_check in H.
  destruct (block_reward (e_cfg e) h) as [r |]; [| discriminate].
  rewrite Hv in H. exists r. split. reflexivity. apply check_v2_accept. exact H.
Qed.

(* the three int64 additions/subtractions of the split do not wrap *)
Definition split_fits (fee r : Z) : bool :=
  in_int64 (fee + r) &&
  in_int64 (fee + r - ceil30 (fee + r)) &&
  in_int64 (fee + r - ceil30 (fee + r) - ceil35 (fee + r)).

Lemma v2_coinbase_exact : forall e h outs fee cached dpos,
  v2_regime e h = true ->
  coinbase_check e h outs fee dpos = Accept ->
  block_dpos_reward (e_cfg e) h cached = Some dpos ->
  cached = fee ->
  exists r o0 o1 o2,
    block_reward (e_cfg e) h = Some r /\ outs = [o0; o1; o2] /\
    wrap64 (o_val o0 + o_val o1 + o_val o2) = wrap64 (fee + r) /\
    (split_fits fee r = true ->
       o_val o0 + o_val o1 + o_val o2 = r + fee /\
       o_val o0 = ceil30 (r + fee) /\ o_val o2 = ceil35 (r + fee)) /\
    (if e_pow e then o_addr o0 = e_destroy e /\ o_addr o2 = e_destroy e
     else o_addr o0 = e_cr_assets e /\ o_addr o2 = e_dpos_acc e).
Proof.
  intros e h outs fee cached dpos Hv Hacc Hd Hc. subst cached.
  destruct (v2_accept_shape e h outs fee dpos Hv Hacc) as (r & Hr & o0 & o1 & o2 & Ho & H0 & H1 & H2 & Ha).
  unfold block_dpos_reward in Hd. rewrite Hr in Hd. inversion Hd as [Hd']. clear Hd.
  exists r, o0, o1, o2. repeat split; try assumption.
  - rewrite H0, H1, H2, <- Hd'. unfold sub64, add64.
    set (t := wrap64 (fee + r)). set (a := ceil30 t). set (b := ceil35 t).
    destruct (wrap64_decomp (t - a)) as [k1 E1]. rewrite E1.
    destruct (wrap64_decomp (t - a + k1 * two64 - b)) as [k2 E2]. rewrite E2.
    replace (a + (t - a + k1 * two64 - b + k2 * two64) + b) with (t + (k1 + k2) * two64) by ring.
    rewrite wrap64_add_mul. subst t.
    destruct (wrap64_decomp (fee + r)) as [k3 E3]. rewrite E3 at 1.
    apply wrap64_add_mul.
  - unfold split_fits in H. apply andb_prop in H. destruct H as [H F3].
    apply andb_prop in H. destruct H as [F1 F2].
    rewrite H0, H1, H2, <- Hd'. unfold sub64, add64.
    rewrite (wrap64_small (fee + r)) by assumption.
    rewrite (wrap64_small (fee + r - ceil30 (fee + r))) by assumption.
    rewrite wrap64_small by assumption. ring.
  - unfold split_fits in H. apply andb_prop in H. destruct H as [H F3].
    apply andb_prop in H. destruct H as [F1 F2].
    rewrite H0. unfold add64. rewrite wrap64_small by assumption. f_equal. ring.
  - unfold split_fits in H. apply andb_prop in H. destruct H as [H F3].
    apply andb_prop in H. destruct H as [F1 F2].
    rewrite H2, <- Hd'. unfold add64. rewrite wrap64_small by assumption. f_equal. ring.
Qed.

(* Without "cached fees = recomputed fees" the check does not force the sum:
   the witness is the block replayed on the Go code by the harness
   (ActivateProducer for an inactive CR member: 3 ELA in, 1 ELA out, tx.Fee() = 0). *)
Definition w_env : env :=
  {| e_cfg := {| new_h := 919800; halv_h := 1051200; halv_int := 1051200; old_reward := 502283105 |};
     e_active := 1405000; e_public_dpos := 402680; e_pow := false;
     e_destroy := 1; e_cr_assets := 2; e_dpos_acc := 3; e_foundation := 4;
     e_final_change := 0; e_round := [] |}.
Definition w_outs : list output :=
  [ {| o_val := 105662101; o_addr := 2 |}; {| o_val := 123272449; o_addr := 5 |}; {| o_val := 53272451; o_addr := 3 |} ].

Lemma v2_coinbase_exact_needs_fee_cache :
  exists e h outs fee cached dpos r,
    v2_regime e h = true /\ coinbase_check e h outs fee dpos = Accept /\
    block_dpos_reward (e_cfg e) h cached = Some dpos /\ cached <> fee /\
    block_reward (e_cfg e) h = Some r /\ split_fits fee r = true /\
    sum_vals outs <> r + fee.
Proof.
  exists w_env, 1505000, w_outs, 200000000, 0, 53272451, 152207001.
  vm_compute. repeat split; try reflexivity; discriminate.
Qed.

(* what the miner builds is what the validator accepts *)
Lemma assign_accepted : forall e h o0 o1 fee r outs',
  v2_regime e h = true -> block_reward (e_cfg e) h = Some r ->
  0 < ceil35 (add64 fee r) ->
  (e_pow e = false -> o_addr o0 = e_cr_assets e) ->
  assign_coinbase e h [o0; o1] (add64 fee r) = Some outs' ->
  coinbase_check e h outs' fee (ceil35 (add64 fee r)) = Accept.
Proof.
  intros e h o0 o1 fee r outs' Hv Hr Hpos Ha Hs.
  unfold assign_coinbase in Hs. rewrite Hv in Hs.
  apply Z.ltb_lt in Hpos. rewrite Hpos in Hs. inversion Hs. subst outs'. clear Hs.
  unfold coinbase_check. rewrite Hr, Hv. unfold check_v2.
  destruct (e_pow e) eqn:Ep; cbn [app set_val set_addr o_val o_addr];
    rewrite ?Z.eqb_refl; cbn [negb]; try reflexivity.
  rewrite (Ha eq_refl). rewrite ?Z.eqb_refl. reflexivity.
Qed.
