(* C08 — the iterative stack machine of CheckMerkleBlock equals the recursive
   reference parser, for all transaction counts up to pact.MaxTxPerBlock, all
   flag strings and all hash lists (no bound on their lengths). *)
From Coq Require Import List Bool Arith NArith Lia.
From ELA Require Import model.C07_Merkle model.C08_PMT proof.C08_PMT.
Import ListNotations.

(* ------------------------------------------------------------ bit facts on N *)
Section Bits.
  Local Open Scope N_scope.

  Lemma testbit_small y d : y < 2 ^ d -> N.testbit y d = false.
  Proof.
    intros H. apply N.testbit_false. rewrite N.div_small by exact H. reflexivity.
  Qed.

  Lemma land_small y d : y < 2 ^ d -> N.land y (2 ^ d) = 0.
  Proof.
    intros H. apply N.bits_inj. intros i. rewrite N.land_spec, N.bits_0, N.pow2_bits_eqb.
    destruct (N.eqb_spec d i) as [<-|NE]; [rewrite testbit_small by exact H; reflexivity|apply andb_false_r].
  Qed.

  Lemma lor_small y d : y < 2 ^ d -> N.lor y (2 ^ d) = y + 2 ^ d.
  Proof.
    intros H. rewrite <- N.lxor_lor by (apply land_small; exact H).
    symmetry. apply N.add_nocarry_lxor. apply land_small; exact H.
  Qed.

  Lemma lxor_high y d : y < 2 ^ d -> N.lxor (y + 2 ^ d) (2 ^ d) = y.
  Proof.
    intros H. rewrite (N.add_nocarry_lxor y (2 ^ d)) by (apply land_small; exact H).
    rewrite N.lxor_assoc, N.lxor_nilpotent, N.lxor_0_r. reflexivity.
  Qed.

  Lemma land_high y d : y < 2 ^ d -> N.land (y + 2 ^ d) (2 ^ d) = 2 ^ d.
  Proof.
    intros H. rewrite <- lor_small by exact H.
    rewrite N.land_lor_distr_l, land_small by exact H. rewrite N.land_diag. apply N.lor_0_l.
  Qed.

  Lemma lor1_even x : N.even x = true -> N.lor x 1 = x + 1.
  Proof. destruct x as [|[q|q|]]; simpl; try discriminate; reflexivity. Qed.

  Lemma lor1_odd x : N.odd x = true -> N.lor x 1 = x.
  Proof. destruct x as [|[q|q|]]; simpl; try discriminate; reflexivity. Qed.

  Lemma shiftr1 x : N.shiftr x 1 = x / 2.
  Proof. rewrite N.shiftr_div_pow2. reflexivity. Qed.

  Lemma shiftl1 x : N.shiftl x 1 = 2 * x.
  Proof. rewrite N.shiftl_mul_pow2. change (2 ^ 1) with 2. lia. Qed.
End Bits.

(* ------------------------------------------------------------ the code's position numbering *)
Section Positions.
  Local Open Scope N_scope.

  Definition pw (k : nat) : N := 2 ^ N.of_nat k.

  Lemma pw_S k : pw (S k) = 2 * pw k.
  Proof. unfold pw. rewrite Nat2N.inj_succ, N.pow_succ_r'. reflexivity. Qed.

  Lemma pw_pos k : 0 < pw k.
  Proof. unfold pw. apply N.neq_0_lt_0. apply N.pow_nonzero. discriminate. Qed.

  Lemma pw_nat k : pw k = N.of_nat (2 ^ k).
  Proof.
    induction k; [reflexivity|]. rewrite pw_S, IHk, Nat.pow_succ_r'. lia.
  Qed.

  Lemma pw_mono a b : (a <= b)%nat -> pw a <= pw b.
  Proof. intros H. unfold pw. apply N.pow_le_mono_r; lia. Qed.

  Lemma lor_pw y d : y < pw d -> N.lor y (pw d) = y + pw d.
  Proof. apply lor_small. Qed.

  Lemma odd_of_nat p : N.odd (N.of_nat p) = Nat.odd p.
  Proof.
    pose proof (Nat.div2_odd p) as DP. destruct (Nat.odd p); simpl Nat.b2n in DP.
    - replace (N.of_nat p) with (1 + 2 * N.of_nat (Nat.div2 p)) by lia.
      rewrite N.odd_add_mul_2. reflexivity.
    - replace (N.of_nat p) with (0 + 2 * N.of_nat (Nat.div2 p)) by lia.
      rewrite N.odd_add_mul_2. reflexivity.
  Qed.

  (* node [p] of the row at height [h] in a tree of depth [D] *)
  Definition posN (D h p : nat) : N := 2 * pw D - 2 * pw (D - h) + N.of_nat p.

  Section Node.
    Variables D h p : nat.
    Hypothesis Hh : (h <= D)%nat.
    Hypothesis Hp : N.of_nat p < pw (D - h).

    Lemma pw_le : pw (D - h) <= pw D.
    Proof. unfold pw. apply N.pow_le_mono_r; lia. Qed.

    Lemma pw_half : (0 < h)%nat -> 2 * pw (D - h) <= pw D.
    Proof.
      intros H0. rewrite <- pw_S. unfold pw. apply N.pow_le_mono_r; lia.
    Qed.

    Lemma pos_leaf : h = 0%nat -> N.land (posN D h p) (pw D) = 0.
    Proof.
      intros ->. unfold posN in *. rewrite Nat.sub_0_r in *.
      replace (2 * pw D - 2 * pw D + N.of_nat p) with (N.of_nat p) by lia.
      apply land_small. exact Hp.
    Qed.

    Lemma pos_inner : (0 < h)%nat -> N.land (posN D h p) (pw D) = pw D.
    Proof.
      intros H0. pose proof (pw_half H0). unfold posN.
      replace (2 * pw D - 2 * pw (D - h) + N.of_nat p)
        with ((pw D - 2 * pw (D - h) + N.of_nat p) + pw D) by lia.
      apply land_high. fold (pw D). pose proof (pw_pos (D - h)). lia.
    Qed.

    Lemma pos_descend : (0 < h)%nat ->
      N.shiftl (N.lxor (posN D h p) (pw D)) 1 = posN D (h - 1) (2 * p).
    Proof.
      intros H0. pose proof (pw_half H0). unfold posN.
      replace (2 * pw D - 2 * pw (D - h) + N.of_nat p)
        with ((pw D - 2 * pw (D - h) + N.of_nat p) + pw D) by lia.
      unfold pw at 3 4. rewrite lxor_high by (fold (pw D); pose proof (pw_pos (D - h)); lia).
      rewrite shiftl1. replace (D - (h - 1))%nat with (S (D - h)) by lia. rewrite pw_S.
      fold (pw D). lia.
    Qed.

    Lemma pos_odd : N.odd (posN D h p) = Nat.odd p.
    Proof.
      unfold posN. pose proof pw_le.
      replace (2 * pw D - 2 * pw (D - h) + N.of_nat p) with (N.of_nat p + 2 * (pw D - pw (D - h))) by lia.
      rewrite N.odd_add_mul_2. apply odd_of_nat.
    Qed.

    Lemma pos_sibling_even : Nat.odd p = false -> N.lor (posN D h p) 1 = posN D h (p + 1).
    Proof.
      intros E. rewrite lor1_even.
      - unfold posN. lia.
      - rewrite <- N.negb_odd, pos_odd, E. reflexivity.
    Qed.

    Lemma pos_sibling_odd : Nat.odd p = true -> N.lor (posN D h p) 1 = posN D h p.
    Proof. intros E. apply lor1_odd. rewrite pos_odd. exact E. Qed.

    Lemma pos_ascend : (h < D)%nat -> Nat.odd p = true ->
      N.lor (N.shiftr (posN D h p) 1) (pw D) = posN D (h + 1) (Nat.div2 p).
    Proof.
      intros HD E. rewrite shiftr1. unfold posN.
      replace (D - h)%nat with (S (D - (h + 1))) in * by lia. rewrite pw_S in *.
      set (B := pw (D - (h + 1))) in *.
      assert (HB : 2 * B <= pw D).
      { subst B. rewrite <- pw_S. unfold pw. apply N.pow_le_mono_r; lia. }
      pose proof (Nat.div2_odd p) as DP. rewrite E in DP. simpl Nat.b2n in DP.
      assert (EP : N.of_nat p = 2 * N.of_nat (Nat.div2 p) + 1) by lia.
      rewrite EP in *.
      replace (2 * pw D - 2 * (2 * B) + (2 * N.of_nat (Nat.div2 p) + 1))
        with (1 + 2 * (pw D - 2 * B + N.of_nat (Nat.div2 p))) by lia.
      replace ((1 + 2 * (pw D - 2 * B + N.of_nat (Nat.div2 p))) / 2)
        with (pw D - 2 * B + N.of_nat (Nat.div2 p)).
      2:{ apply (N.div_unique _ 2 _ 1); lia. }
      pose proof (pw_pos (D - (h + 1))). fold B in H.
      unfold pw at 2. rewrite lor_small by (fold (pw D); lia). fold (pw D). lia.
    Qed.
  End Node.
End Positions.

(* ------------------------------------------------------------ treeDepth and inDeadZone *)
Section DeadZone.
  Local Open Scope N_scope.
  Variable n : nat.            (* the claimed transaction count *)
  Variable D : nat.            (* depth of the tree *)
  Hypothesis Hn1 : (1 <= n)%nat.
  Hypothesis HnD : (n <= 2 ^ D)%nat.

  Lemma cdiv_le_row j : (j <= D)%nat -> N.of_nat (cdiv n j) <= pw (D - j).
  Proof.
    intros Hj. rewrite pw_nat.
    assert (cdiv n j <= 2 ^ (D - j))%nat; [|lia].
    apply cdiv_spec. rewrite <- Nat.pow_add_r. replace (D - j + j)%nat with D by lia. exact HnD.
  Qed.

  Lemma cdiv_ge1 j : (1 <= cdiv n j)%nat.
  Proof.
    destruct (cdiv n j) eqn:E; [|lia]. exfalso.
    assert (H : (cdiv n j <= 0)%nat) by lia. apply cdiv_spec in H. lia.
  Qed.

  Lemma dead_loop_S f pos hv last msb : dead_loop (S f) pos hv last msb =
    if hv <=? pos
    then dead_loop f pos (N.lor (N.shiftr hv 1) msb) (N.lor (N.shiftr last 1) msb) msb
    else last.
  Proof. reflexivity. Qed.

  Lemma dead_loop_spec h p : (h <= D)%nat -> N.of_nat p < pw (D - h) ->
    forall d j fuel, (j + d = h)%nat -> (d < fuel)%nat ->
    dead_loop fuel (posN D h p) (2 * pw D - pw (D - j))
              (2 * pw D - 2 * pw (D - j) + N.of_nat (cdiv n j) - 1) (pw D)
    = 2 * pw D - 2 * pw (D - h) + N.of_nat (cdiv n h) - 1.
  Proof.
    intros Hh Hp. induction d; intros j fuel Hj Hf.
    - assert (j = h) by lia. subst j. destruct fuel; [lia|]. rewrite dead_loop_S.
      pose proof (pw_mono (D - h) D ltac:(lia)). pose proof (pw_pos (D - h)).
      replace (2 * pw D - pw (D - h) <=? posN D h p) with false; [reflexivity|].
      symmetry. apply N.leb_gt. unfold posN. lia.
    - destruct fuel; [lia|]. rewrite dead_loop_S.
      assert (Hjh : (j < h)%nat) by lia.
      assert (ED : (D - j)%nat = S (D - (j + 1))) by lia.
      set (B := pw (D - (j + 1))).
      assert (EB : pw (D - j) = 2 * B) by (rewrite ED, pw_S; reflexivity).
      assert (HB : 2 * B <= pw D) by (rewrite <- EB; apply pw_mono; lia).
      assert (HBpos : 0 < B) by apply pw_pos.
      assert (HAh : 2 * pw (D - h) <= 2 * B).
      { rewrite <- EB. rewrite <- pw_S. unfold pw. apply N.pow_le_mono_r; lia. }
      replace (2 * pw D - pw (D - j) <=? posN D h p) with true.
      2:{ symmetry. apply N.leb_le. unfold posN. rewrite EB. lia. }
      rewrite !shiftr1. rewrite EB.
      (* new h *)
      replace ((2 * pw D - 2 * B) / 2) with (pw D - B) by (apply (N.div_unique _ 2 _ 0); lia).
      rewrite (lor_pw (pw D - B) D) by lia.
      (* new last *)
      pose proof (cdiv_le_row j ltac:(lia)) as Wj. rewrite EB in Wj.
      pose proof (cdiv_le_row (j + 1) ltac:(lia)) as Wj1. fold B in Wj1.
      pose proof (cdiv_ge1 j) as G0. pose proof (cdiv_ge1 (j + 1)) as G1.
      pose proof (cdiv_S n j) as CS. replace (S j) with (j + 1)%nat in CS by lia.
      pose proof (Nat.div2_odd (S (cdiv n j))) as DO. rewrite <- CS in DO.
      set (b := Nat.b2n (Nat.odd (S (cdiv n j)))) in *.
      assert (Hb : (b <= 1)%nat) by (subst b; destruct (Nat.odd _); simpl; lia).
      replace ((2 * pw D - 2 * (2 * B) + N.of_nat (cdiv n j) - 1) / 2)
        with (pw D - 2 * B + N.of_nat (cdiv n (j + 1)) - 1)
        by (apply (N.div_unique _ 2 _ (N.of_nat b)); lia).
      rewrite (lor_pw (pw D - 2 * B + N.of_nat (cdiv n (j + 1)) - 1) D) by lia.
      replace (pw D - B + pw D) with (2 * pw D - pw (D - (j + 1))) by (fold B; lia).
      replace (pw D - 2 * B + N.of_nat (cdiv n (j + 1)) - 1 + pw D)
        with (2 * pw D - 2 * pw (D - (j + 1)) + N.of_nat (cdiv n (j + 1)) - 1) by (fold B; lia).
      apply IHd; lia.
  Qed.

  Hypothesis HD40 : (D < 40)%nat.
  Hypothesis Hdepth : tree_depth (N.of_nat n) = N.of_nat D.

  Lemma msb_eq : next_pow2 (N.of_nat n) = pw D.
  Proof. unfold next_pow2. rewrite Hdepth, N.shiftl_1_l. reflexivity. Qed.

  Lemma dead_zone_spec h p : (h <= D)%nat -> N.of_nat p < pw (D - h) ->
    in_dead_zone (posN D h p) (N.of_nat n) = (cdiv n h <=? p)%nat.
  Proof.
    intros Hh Hp. unfold in_dead_zone. rewrite msb_eq, shiftl1.
    pose proof (pw_mono (D - h) D ltac:(lia)). pose proof (pw_pos (D - h)).
    replace (2 * pw D - 2 <? posN D h p) with false.
    2:{ symmetry. apply N.ltb_ge. unfold posN. lia. }
    pose proof (dead_loop_spec h p Hh Hp h 0%nat 40%nat ltac:(lia) ltac:(lia)) as DL.
    rewrite Nat.sub_0_r, cdiv_0 in DL.
    replace (2 * pw D - pw D) with (pw D) in DL by lia.
    replace (2 * pw D - 2 * pw D + N.of_nat n - 1) with (N.of_nat n - 1) in DL by lia.
    rewrite DL. pose proof (cdiv_ge1 h).
    destruct (Nat.leb_spec (cdiv n h) p).
    - apply N.ltb_lt. unfold posN. lia.
    - apply N.ltb_ge. unfold posN. lia.
  Qed.
End DeadZone.

(* ------------------------------------------------------------ depth *)
Section Depth.
  Variable n : nat.
  Hypothesis Hn1 : (1 <= n)%nat.

  Lemma ph_small fuel : forall h, (n <= 2 ^ (h + fuel) -> n <= 2 ^ pheight_from n fuel h)%nat.
  Proof.
    induction fuel; intros h HL; simpl.
    - rewrite Nat.add_0_r in HL. exact HL.
    - destruct (pwidth n h <=? 1)%nat eqn:E.
      + apply Nat.leb_le in E. change (pwidth n h) with (cdiv n h) in E. apply cdiv_spec in E. lia.
      + apply IHfuel. replace (S h + fuel)%nat with (h + S fuel)%nat by lia. exact HL.
  Qed.

  Lemma ph_min fuel : forall h j, (h <= j < pheight_from n fuel h -> 2 ^ j < n)%nat.
  Proof.
    induction fuel; intros h j HJ; simpl in HJ; [lia|].
    destruct (pwidth n h <=? 1)%nat eqn:E; [lia|]. apply Nat.leb_gt in E.
    destruct (Nat.eq_dec j h) as [->|NE].
    - change (pwidth n h) with (cdiv n h) in E.
      destruct (le_lt_dec n (2 ^ h)) as [LE|LT]; [|exact LT].
      assert (cdiv n h <= 1)%nat by (apply cdiv_spec; lia). lia.
    - apply (IHfuel (S h)). lia.
  Qed.

  Lemma pheight_small : (n <= 2 ^ pheight n)%nat.
  Proof.
    apply ph_small. simpl. pose proof (Nat.pow_gt_lin_r 2 n ltac:(lia)). lia.
  Qed.

  Lemma pheight_min j : (j < pheight n -> 2 ^ j < n)%nat.
  Proof. intros H. apply (ph_min n 0). unfold pheight in H. lia. Qed.

  Local Open Scope N_scope.
  Lemma depth_run D : (n <= 2 ^ D)%nat -> (forall j, (j < D)%nat -> (2 ^ j < n)%nat) ->
    forall fuel e, (e <= D)%nat -> (D - e <= fuel)%nat ->
    depth_from fuel (N.of_nat e) (N.of_nat n) = N.of_nat D.
  Proof.
    intros HD Hmin. induction fuel; intros e He Hf.
    - simpl. f_equal. lia.
    - change (depth_from (S fuel) (N.of_nat e) (N.of_nat n)) with
        (if N.shiftl 1 (N.of_nat e) <? N.of_nat n
         then depth_from fuel (N.of_nat e + 1) (N.of_nat n) else N.of_nat e).
      rewrite N.shiftl_1_l. fold (pw e). rewrite pw_nat.
      destruct (Nat.eq_dec e D) as [->|NE].
      + replace (N.of_nat (2 ^ D) <? N.of_nat n) with false; [reflexivity|].
        symmetry. apply N.ltb_ge. lia.
      + replace (N.of_nat (2 ^ e) <? N.of_nat n) with true.
        2:{ symmetry. apply N.ltb_lt. pose proof (Hmin e ltac:(lia)). lia. }
        replace (N.of_nat e + 1) with (N.of_nat (S e)) by lia. apply IHfuel; lia.
  Qed.

  Hypothesis Hmax : N.of_nat n <= 10000.

  Lemma pheight_le14 : (pheight n <= 14)%nat.
  Proof.
    destruct (le_lt_dec (pheight n) 14) as [LE|LT]; [exact LE|].
    pose proof (pheight_min 14 LT) as H. assert (E : pw 14 = 16384) by reflexivity.
    rewrite pw_nat in E. remember (2 ^ 14)%nat as c. lia.
  Qed.

  Lemma tree_depth_pheight : tree_depth (N.of_nat n) = N.of_nat (pheight n).
  Proof.
    unfold tree_depth. change 0 with (N.of_nat 0).
    apply depth_run; try lia.
    - apply pheight_small.
    - apply pheight_min.
    - pose proof pheight_le14. lia.
  Qed.
End Depth.

(* ------------------------------------------------------------ the simulation *)
Section Sim.
  Variable hash : Type.
  Variable hash_eq_dec : forall a b : hash, {a = b} + {a <> b}.
  Variable H2 : hash -> hash -> hash.
  Variable n : nat.
  Variable root : hash.
  Hypothesis Hn1 : (1 <= n)%nat.
  Hypothesis Hmax : (N.of_nat n <= 10000)%N.

  Let D := pheight n.
  Let HnD : (n <= 2 ^ D)%nat := pheight_small n Hn1.
  Let HD40 : (D < 40)%nat.
  Proof. pose proof (pheight_le14 n Hn1 Hmax). unfold D. lia. Qed.
  Let Hdepth : tree_depth (N.of_nat n) = N.of_nat D := tree_depth_pheight n Hn1 Hmax.

  Notation node := (node hash).
  Notation iter f s r pos bits hs :=
    (check_iter hash hash_eq_dec H2 f (N.of_nat n) (pw D) root s r pos bits hs).
  Notation parse := (parse hash hash_eq_dec H2 n).
  Notation heqb := (heqb hash hash_eq_dec).
  Notation dead pos := (in_dead_zone pos (N.of_nat n)).

  Definition quiet (s : list node) : Prop :=
    match s with
    | [(_, Some _)] => False
    | (_, Some _) :: (_, Some _) :: _ :: _ => False
    | _ => True
    end.

  Lemma step_final f q x r pos bits hs :
    iter (S f) [(q, Some x)] r pos bits hs = if heqb x root then OkMatches hash (rev r) else Reject hash.
  Proof. reflexivity. Qed.

  Lemma step_dead f q l pp o s' r pos bits hs : dead pos = true ->
    iter (S f) ((q, Some l) :: (pp, o) :: s') r pos bits hs
    = iter f ((pp, Some (H2 l l)) :: s') r (N.lor pp 1) bits hs.
  Proof. intros Hd. cbn [check_iter]. rewrite Hd. reflexivity. Qed.

  Lemma step_combine f qa a qb b pp o s' r pos bits hs : dead pos = false ->
    iter (S f) ((qa, Some a) :: (qb, Some b) :: (pp, o) :: s') r pos bits hs
    = if heqb b a then Reject hash
      else iter f ((pp, Some (H2 b a)) :: s') r (N.lor pp 1) bits hs.
  Proof.
    intros Hd. cbn [check_iter]. rewrite Hd. unfold make_parent.
    destruct (heqb b a); reflexivity.
  Qed.

  Lemma step_read f s r pos bits hs : quiet s -> dead pos = false ->
    iter (S f) s r pos bits hs =
    match hs, bits with
    | [], _ => Reject hash
    | _, [] => Reject hash
    | x :: hs1, b :: bits1 =>
      if negb (N.land pos (pw D) =? 0)%N then
        if negb b then
          iter f ((pos, Some x) :: s) r
               (if N.odd pos then N.lor (N.shiftr pos 1) (pw D) else N.lor pos 1) bits1 hs1
        else iter f ((pos, None) :: s) r (N.shiftl (N.lxor pos (pw D)) 1) bits1 hs
      else if (N.of_nat n <=? pos)%N then Reject hash
      else iter f ((pos, Some x) :: s) (if b then x :: r else r)
                (if N.odd pos then pos else N.lor pos 1) bits1 hs1
    end.
  Proof.
    intros Q Hd.
    destruct s as [|[q [x|]] [|[q' [y|]] [|t s'']]]; simpl in Q; try contradiction;
      cbn [check_iter]; rewrite Hd; reflexivity.
  Qed.

  Lemma parse_S h p b bits1 hs : parse (S h) p (b :: bits1) hs =
    if b then
      match parse h (2 * p) bits1 hs with
      | None => None
      | Some (l, ml, bits2, hs2) =>
        if (2 * p + 1 <? pwidth n h)%nat then
          match parse h (2 * p + 1) bits2 hs2 with
          | None => None
          | Some (r, mr, bits3, hs3) =>
            if heqb l r then None else Some (H2 l r, ml ++ mr, bits3, hs3)
          end
        else Some (H2 l l, ml, bits2, hs2)
      end
    else match hs with [] => None | x :: hs1 => Some (x, [], bits1, hs1) end.
  Proof. reflexivity. Qed.

  Lemma parse_hs_nil h : forall p bits, parse h p bits [] = None.
  Proof.
    induction h; intros p [|b bits1]; try reflexivity.
    rewrite parse_S. destruct b; [|reflexivity]. rewrite IHh. reflexivity.
  Qed.

  Lemma row_bound h p : (h <= D)%nat -> (p < cdiv n h)%nat -> (N.of_nat p < pw (D - h))%N.
  Proof.
    intros Hh Hp. rewrite pw_nat.
    assert (cdiv n h <= 2 ^ (D - h))%nat; [|lia].
    apply cdiv_spec. rewrite <- Nat.pow_add_r. replace (D - h + h)%nat with D by lia. exact HnD.
  Qed.

  Lemma not_dead h p : (h <= D)%nat -> (p < cdiv n h)%nat -> dead (posN D h p) = false.
  Proof.
    intros Hh Hp. rewrite (dead_zone_spec n D Hn1 HnD HD40 Hdepth h p Hh (row_bound h p Hh Hp)).
    apply Nat.leb_gt. exact Hp.
  Qed.

  Definition post (h p : nat) (q : N) : Prop :=
    if Nat.odd p then q = posN D h p \/ q = posN D (h + 1) (Nat.div2 p)
    else q = posN D h (p + 1).

  Definition visit_ok (h p : nat) : Prop :=
    forall s r bits hs, quiet s ->
    match parse h p bits hs with
    | Some (x, ms, bits', hs') =>
      exists k q, (k <= 2 * (length bits - length bits'))%nat /\ (length bits' < length bits)%nat /\
        post h p q /\
        forall f, iter (k + f) s r (posN D h p) bits hs
                  = iter f ((posN D h p, Some x) :: s) (rev ms ++ r) q bits' hs'
    | None =>
      exists k, (k <= 2 * length bits + 1)%nat /\
        forall f, iter (k + f) s r (posN D h p) bits hs = Reject hash
    end.

  Lemma pwD_pos : (pw D =? 0)%N = false.
  Proof. apply N.eqb_neq. pose proof (pw_pos D). lia. Qed.

  Lemma visit : forall h p, (h <= D)%nat -> (p < cdiv n h)%nat -> visit_ok h p.
  Proof.
    induction h; intros p Hh Hp s r bits hs Q.
    - (* a transaction id *)
      pose proof (row_bound 0 p Hh Hp) as RB.
      assert (EP : posN D 0 p = N.of_nat p).
      { unfold posN. rewrite Nat.sub_0_r. lia. }
      assert (RD : forall f, iter (S f) s r (posN D 0 p) bits hs = _)
        by (intros f; apply (step_read f s r _ bits hs Q (not_dead 0 p Hh Hp))).
      rewrite (pos_leaf D 0 p Hh RB eq_refl) in RD. simpl negb in RD. cbv iota in RD.
      rewrite cdiv_0 in Hp.
      destruct bits as [|b bits1].
      { simpl. exists 1%nat. split; [cbn [length]; lia|]. intros f. rewrite RD. destruct hs; reflexivity. }
      destruct hs as [|x hs1].
      { simpl. exists 1%nat. split; [cbn [length]; lia|]. intros f. rewrite RD. reflexivity. }
      simpl parse. cbv iota.
      exists 1%nat. eexists. split; [cbn [length]; lia|]. split; [cbn [length]; lia|].
      split.
      2:{ intros f. rewrite RD.
          replace (N.of_nat n <=? posN D 0 p)%N with false by (symmetry; apply N.leb_gt; lia).
          destruct b; reflexivity. }
      unfold post.
      rewrite (pos_odd D 0 p Hh RB).
      destruct (Nat.odd p) eqn:EO.
      + left. reflexivity.
      + apply (pos_sibling_even D 0 p Hh RB EO).
    - (* an interior node *)
      pose proof (row_bound (S h) p Hh Hp) as RB.
      assert (RD : forall f, iter (S f) s r (posN D (S h) p) bits hs = _)
        by (intros f; apply (step_read f s r _ bits hs Q (not_dead (S h) p Hh Hp))).
      rewrite (pos_inner D (S h) p Hh RB ltac:(lia)) in RD. rewrite pwD_pos in RD.
      simpl negb in RD. cbv iota in RD.
      destruct bits as [|b bits1].
      { simpl. exists 1%nat. split; [cbn [length]; lia|]. intros f. rewrite RD. destruct hs; reflexivity. }
      destruct hs as [|x hs1].
      { rewrite parse_hs_nil. exists 1%nat. split; [cbn [length]; lia|]. intros f. rewrite RD. reflexivity. }
      rewrite parse_S.
      destruct b.
      2:{ (* the node's hash is given *)
          exists 1%nat. eexists. split; [cbn [length]; lia|]. split; [cbn [length]; lia|]. split.
          2:{ intros f. rewrite RD. reflexivity. }
          unfold post.
          destruct (Nat.odd p) eqn:EO.
          - right. rewrite (pos_odd D (S h) p Hh RB), EO. apply (pos_ascend D (S h) p Hh RB); [|exact EO].
            (* an odd index needs a row of at least two nodes *)
            destruct (Nat.eq_dec (S h) D) as [E|NE]; [|lia].
            exfalso. rewrite E, Nat.sub_diag in RB. change (pw 0) with 1%N in RB.
            destruct p; [discriminate|lia].
          - rewrite (pos_odd D (S h) p Hh RB), EO. apply (pos_sibling_even D (S h) p Hh RB EO). }
      (* the node is expanded *)
      simpl negb in RD. cbv iota in RD.
      rewrite (pos_descend D (S h) p Hh RB ltac:(lia)) in RD.
      replace (S h - 1)%nat with h in RD by lia.
      assert (Hp0 : (2 * p < cdiv n h)%nat) by (apply cdiv_child; exact Hp).
      assert (Hh' : (h <= D)%nat) by lia.
      set (P := posN D (S h) p) in *.
      pose proof (IHh (2 * p)%nat Hh' Hp0 ((P, None) :: s) r bits1 (x :: hs1) I) as V1.
      destruct (parse h (2 * p) bits1 (x :: hs1)) as [[[[l ml] bits2] hs2]|] eqn:PL.
      2:{ destruct V1 as (k1 & K1 & V1). exists (S k1). split; [cbn [length]; lia|].
          intros f. change (S k1 + f)%nat with (S (k1 + f)). rewrite RD. apply V1. }
      destruct V1 as (k1 & q1 & K1 & L1 & PO1 & V1).
      unfold post in PO1. replace (Nat.odd (2 * p)) with false in PO1
        by (symmetry; rewrite Nat.odd_mul; reflexivity).
      subst q1. change (pwidth n h) with (cdiv n h).
      assert (FIN : post (S h) p (N.lor P 1)).
      { unfold post. destruct (Nat.odd p) eqn:EO.
        - left. apply (pos_sibling_odd D (S h) p Hh RB EO).
        - apply (pos_sibling_even D (S h) p Hh RB EO). }
      destruct (2 * p + 1 <? cdiv n h)%nat eqn:ER.
      + (* there is a right child *)
        apply Nat.ltb_lt in ER.
        pose proof (IHh (2 * p + 1)%nat Hh' ER
                        ((posN D h (2 * p), Some l) :: (P, None) :: s) (rev ml ++ r) bits2 hs2 I) as V2.
        destruct (parse h (2 * p + 1) bits2 hs2) as [[[[rr mr] bits3] hs3]|] eqn:PR.
        2:{ destruct V2 as (k2 & K2 & V2). exists (S (k1 + k2)). split; [cbn [length] in *; lia|].
            intros f. replace (S (k1 + k2) + f)%nat with (S (k1 + (k2 + f))) by lia.
            rewrite RD, V1. apply V2. }
        destruct V2 as (k2 & q2 & K2 & L2 & PO2 & V2).
        assert (ND2 : dead q2 = false).
        { unfold post in PO2. replace (Nat.odd (2 * p + 1)) with true in PO2
            by (symmetry; rewrite Nat.add_1_r, Nat.odd_succ, Nat.even_mul; reflexivity).
          destruct PO2 as [->| ->].
          - apply not_dead; assumption.
          - replace (Nat.div2 (2 * p + 1)) with p.
            2:{ pose proof (Nat.div2_odd (2 * p + 1)) as DD.
                destruct (Nat.odd (2 * p + 1)); simpl Nat.b2n in DD; lia. }
            replace (h + 1)%nat with (S h) by lia. apply not_dead; assumption. }
        destruct (heqb l rr) eqn:EQ.
        * exists (S (k1 + (k2 + 1))). split; [cbn [length] in *; lia|].
          intros f. replace (S (k1 + (k2 + 1)) + f)%nat with (S (k1 + (k2 + S f))) by lia.
          rewrite RD, V1, V2, (step_combine _ _ _ _ _ _ _ _ _ _ _ _ ND2), EQ. reflexivity.
        * exists (S (k1 + (k2 + 1))), (N.lor P 1).
          split; [cbn [length] in *; lia|]. split; [cbn [length] in *; lia|]. split; [exact FIN|].
          intros f. replace (S (k1 + (k2 + 1)) + f)%nat with (S (k1 + (k2 + S f))) by lia.
          rewrite RD, V1, V2, (step_combine _ _ _ _ _ _ _ _ _ _ _ _ ND2), EQ.
          rewrite rev_app_distr, <- app_assoc. reflexivity.
      + (* no right child: the dead zone *)
        apply Nat.ltb_ge in ER.
        assert (DZ : dead (posN D h (2 * p + 1)) = true).
        { rewrite (dead_zone_spec n D Hn1 HnD HD40 Hdepth h (2 * p + 1) Hh').
          - apply Nat.leb_le. exact ER.
          - replace (D - h)%nat with (S (D - S h)) by lia. rewrite pw_S. lia. }
        exists (S (k1 + 1)), (N.lor P 1).
        split; [cbn [length] in *; lia|]. split; [cbn [length] in *; lia|]. split; [exact FIN|].
        intros f. replace (S (k1 + 1) + f)%nat with (S (k1 + S f)) by lia.
        rewrite RD, V1, (step_dead _ _ _ _ _ _ _ _ _ _ DZ). reflexivity.
  Qed.

  Lemma unpack_length fl : length (unpack_flags fl) = (8 * length fl)%nat.
  Proof. induction fl; simpl; [reflexivity|]. rewrite IHfl. lia. Qed.

  Lemma root_pos : (N.shiftl (pw D) 1 - 2)%N = posN D D 0.
  Proof. rewrite shiftl1. unfold posN. rewrite Nat.sub_diag. change (pw 0) with 1%N. lia. Qed.

  (* CheckMerkleBlock = the recursive reference verifier (1 <= n <= MaxTxPerBlock) *)
  Lemma check_eq_parse_pos flags hs :
    check_merkle_block hash hash_eq_dec H2 (N.of_nat n) root flags hs =
    match parse_top hash hash_eq_dec H2 n root flags hs with
    | Some ms => OkMatches hash ms
    | None => Reject hash
    end.
  Proof.
    unfold check_merkle_block, parse_top.
    replace (N.of_nat n =? 0)%N with false by (symmetry; apply N.eqb_neq; lia).
    replace (n =? 0)%nat with false by (symmetry; apply Nat.eqb_neq; lia).
    simpl orb.
    destruct flags as [|fb fl]; [reflexivity|].
    replace (N.of_nat (length (fb :: fl)) =? 0)%N with false
      by (symmetry; apply N.eqb_neq; simpl length; lia).
    replace (length (fb :: fl) =? 0)%nat with false by reflexivity.
    replace (max_tx_per_block <? N.of_nat n)%N with false
      by (symmetry; apply N.ltb_ge; exact Hmax).
    rewrite (msb_eq n D Hdepth), root_pos. fold D.
    set (bits := unpack_flags (fb :: fl)).
    assert (LB : length bits = (8 * length (fb :: fl))%nat) by apply unpack_length.
    assert (W0 : (0 < cdiv n D)%nat).
    { apply cdiv_lt. simpl. lia. }
    pose proof (visit D 0%nat (le_n _) W0 [] [] bits hs I) as V.
    destruct (parse D 0 bits hs) as [[[[x ms] bits'] hs']|] eqn:PP.
    - destruct V as (k & q & K & L & _ & V).
      replace (16 * length (fb :: fl) + 8)%nat with (k + S (16 * length (fb :: fl) + 7 - k))%nat by lia.
      rewrite V, step_final, app_nil_r, rev_involutive.
      destruct (heqb x root); reflexivity.
    - destruct V as (k & K & V).
      replace (16 * length (fb :: fl) + 8)%nat with (k + (16 * length (fb :: fl) + 8 - k))%nat by lia.
      apply V.
  Qed.
End Sim.

(* All transaction counts up to pact.MaxTxPerBlock (0 included), all roots,
   all flag strings, all hash lists. *)
Theorem check_merkle_block_eq_parse_top (hash : Type)
  (hash_eq_dec : forall a b : hash, {a = b} + {a <> b}) (H2 : hash -> hash -> hash) :
  forall (n : nat) root flags hs, (N.of_nat n <= max_tx_per_block)%N ->
  check_merkle_block hash hash_eq_dec H2 (N.of_nat n) root flags hs =
  match parse_top hash hash_eq_dec H2 n root flags hs with
  | Some ms => OkMatches hash ms
  | None => Reject hash
  end.
Proof.
  intros n root flags hs Hmax. destruct n as [|n'].
  - reflexivity.
  - apply check_eq_parse_pos; [lia|exact Hmax].
Qed.

(* ------------------------------------------------------------ the C08 theorems, restated for
   the iterative machine that CheckMerkleBlock is *)
Section Corollaries.
  Variable hash : Type.
  Variable hash_eq_dec : forall a b : hash, {a = b} + {a <> b}.
  Variable H2 : hash -> hash -> hash.
  Variable h0 : hash.

  Theorem check_build txs mt r : NoDup txs -> length mt = length txs ->
    merkle_root hash H2 txs = Some r -> (N.of_nat (length txs) <= max_tx_per_block)%N ->
    let bh := build hash H2 h0 txs mt (tree_height hash txs) 0 in
    check_merkle_block hash hash_eq_dec H2 (N.of_nat (length txs)) r (pack_flags (fst bh)) (snd bh)
      = OkMatches hash (matched hash txs mt) \/ collision hash H2.
  Proof.
    intros ND Hmt HR Hmax bh.
    rewrite (check_merkle_block_eq_parse_top hash hash_eq_dec H2 _ _ _ _ Hmax).
    destruct (parse_build hash hash_eq_dec H2 h0 txs mt r ND Hmt HR) as [P|C]; [|right; exact C].
    left. fold bh in P. rewrite P. reflexivity.
  Qed.

  Theorem check_sound_any_count txs (n' : N) r flags hs ms : NoDup txs ->
    merkle_root hash H2 txs = Some r ->
    check_merkle_block hash hash_eq_dec H2 n' r flags hs = OkMatches hash ms ->
    Forall (fun m => In m txs \/ exists a b, m = H2 a b) ms
    \/ collision hash H2 \/ leaf_is_node hash H2 txs.
  Proof.
    intros ND HR HC.
    destruct (N.leb_spec n' max_tx_per_block) as [LE|GT].
    - rewrite <- (N2Nat.id n') in HC, LE.
      rewrite (check_merkle_block_eq_parse_top hash hash_eq_dec H2 _ _ _ _ LE) in HC.
      destruct (parse_top hash hash_eq_dec H2 (N.to_nat n') r flags hs) as [ms'|] eqn:PT; [|discriminate].
      injection HC as ->.
      exact (parse_sound_any_count hash hash_eq_dec H2 h0 txs _ r flags hs ms ND HR PT).
    - exfalso. unfold check_merkle_block in HC.
      destruct ((n' =? 0)%N || (N.of_nat (length flags) =? 0)%N); [discriminate|].
      replace (max_tx_per_block <? n')%N with true in HC by (symmetry; apply N.ltb_lt; exact GT).
      discriminate.
  Qed.
End Corollaries.
