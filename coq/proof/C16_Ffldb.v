(* C16 — lemmas about the layered model of ffldb: reading through the layers
   is reading the merged map; commit, rollback and flush in terms of the
   merged map; refinement of the single-map specification for all admissible
   histories and all flush schedules. *)
From Coq Require Import ZArith List Bool Lia.
From ELA Require Import lib.OMap model.C16_Ffldb.
Import ListNotations.
Local Open Scope Z_scope.

Notation sorted := (@OMap.sorted val).

(* ---------------------------------------------------------------- folds *)

Lemma has_cons (k k' : key) (v : val) (l : kvs) :
  OMap.has ((k', v) :: l) k = keqb k k' || OMap.has l k.
Proof. unfold OMap.has. simpl. destruct (keqb k k'); auto. Qed.

Lemma get_put_all l : forall m k, sorted l ->
  OMap.get (put_all m l) k = match OMap.get l k with Some v => Some v | None => OMap.get m k end.
Proof.
  unfold put_all. induction l as [|[k1 v1] l IH]; intros m k S; simpl; auto.
  destruct S as [L S]. rewrite IH by auto. simpl.
  destruct (keqb k k1) eqn:E.
  - apply keqb_eq in E. subst k1. rewrite get_none_lb by auto. apply get_put_same.
  - destruct (OMap.get l k); auto. apply get_put_other. intros ->. rewrite keqb_refl in E. discriminate.
Qed.

Lemma get_del_all l : forall m k,
  OMap.get (del_all m l) k = if OMap.has l k then None else OMap.get m k.
Proof.
  unfold del_all. induction l as [|[k1 v1] l IH]; intros m k; simpl; auto.
  rewrite IH. rewrite has_cons. simpl.
  destruct (keqb k k1) eqn:E; simpl.
  - apply keqb_eq in E. subst k1. rewrite get_del_same. destruct (OMap.has l k); auto.
  - destruct (OMap.has l k); auto. apply get_del_other. intros ->. rewrite keqb_refl in E. discriminate.
Qed.

Lemma get_mark_all l : forall m k, sorted l ->
  OMap.get (mark_all m l) k = if OMap.has l k then Some [] else OMap.get m k.
Proof.
  unfold mark_all. induction l as [|[k1 v1] l IH]; intros m k S; simpl; auto.
  destruct S as [L S]. rewrite IH by auto. rewrite has_cons. simpl.
  destruct (keqb k k1) eqn:E; simpl.
  - apply keqb_eq in E. subst k1. unfold OMap.has. rewrite get_none_lb by auto. apply get_put_same.
  - destruct (OMap.has l k); auto. apply get_put_other. intros ->. rewrite keqb_refl in E. discriminate.
Qed.

Lemma sorted_put_all l : forall m, sorted m -> sorted (put_all m l).
Proof. unfold put_all. induction l as [|[k1 v1] l IH]; intros m S; simpl; auto. apply IH. apply put_sorted; auto. Qed.
Lemma sorted_del_all l : forall m, sorted m -> sorted (del_all m l).
Proof. unfold del_all. induction l as [|[k1 v1] l IH]; intros m S; simpl; auto. apply IH. apply del_sorted; auto. Qed.
Lemma sorted_mark_all l : forall m, sorted m -> sorted (mark_all m l).
Proof. unfold mark_all. induction l as [|[k1 v1] l IH]; intros m S; simpl; auto. apply IH. apply put_sorted; auto. Qed.

Lemma sorted_apply_layer base keys rem : sorted base -> sorted (apply_layer base keys rem).
Proof. intros. unfold apply_layer. apply sorted_del_all, sorted_put_all; auto. Qed.

Lemma get_apply_layer base keys rem k : sorted keys ->
  OMap.get (apply_layer base keys rem) k =
  if OMap.has rem k then None
  else match OMap.get keys k with Some v => Some v | None => OMap.get base k end.
Proof. intros S. unfold apply_layer. rewrite get_del_all, get_put_all by auto. auto. Qed.

(* ---------------------------------------------------------------- invariants *)

Definition tx_ok (t : txn) : Prop :=
  sorted (t_store t) /\ sorted (t_ck t) /\ sorted (t_cr t) /\ sorted (t_pk t) /\ sorted (t_pr t).
Definition db_ok (d : dbs) : Prop := sorted (d_store d) /\ sorted (d_ck d) /\ sorted (d_cr d).

Lemma begin_ok d w : db_ok d -> tx_ok (begin d w).
Proof. intros (A & B & C). unfold tx_ok, begin; simpl. repeat split; auto. Qed.
Lemma put_key_ok t k v : tx_ok t -> tx_ok (put_key t k v).
Proof. intros (A & B & C & D & E). unfold tx_ok; simpl. repeat split; auto using put_sorted, del_sorted. Qed.
Lemma delete_key_ok t k : tx_ok t -> tx_ok (delete_key t k).
Proof. intros (A & B & C & D & E). unfold tx_ok; simpl. repeat split; auto using put_sorted, del_sorted. Qed.

Lemma flush_ok d : db_ok d -> db_ok (flush d).
Proof. intros (A & B & C). unfold db_ok, flush; simpl. repeat split; auto. apply sorted_apply_layer; auto. Qed.
Lemma merge_cache_ok d t : db_ok d -> db_ok (merge_cache d t).
Proof.
  intros (A & B & C). unfold db_ok, merge_cache; simpl. repeat split; auto.
  - apply sorted_del_all, sorted_put_all; auto.
  - apply sorted_mark_all, sorted_del_all; auto.
Qed.
Lemma commit_ok fl d t : db_ok d -> db_ok (commit_with fl d t).
Proof.
  intros H. unfold commit_with. destruct fl; [|apply merge_cache_ok; auto].
  destruct (flush_ok d H) as (A & B & C). unfold db_ok; simpl. repeat split; auto.
  apply sorted_apply_layer; auto.
Qed.

Lemma view_sorted t : tx_ok t -> sorted (view t).
Proof.
  intros (A & B & C & D & E). unfold view, snap_view.
  destruct (t_w t); repeat apply sorted_apply_layer; auto.
Qed.
Lemma db_view_sorted d : db_ok d -> sorted (db_view d).
Proof. intros (A & B & C). apply sorted_apply_layer; auto. Qed.

(* ---------------------------------------------------------------- reading through the layers *)

Lemma snap_get_view st ck cr k : sorted ck ->
  snap_get st ck cr k = OMap.get (snap_view st ck cr) k.
Proof. intros S. unfold snap_get, snap_view. rewrite get_apply_layer by auto. auto. Qed.

Lemma read_through_layers t k : tx_ok t -> fetch t k = OMap.get (view t) k.
Proof.
  intros (A & B & C & D & E). unfold fetch, view. destruct (t_w t).
  - rewrite get_apply_layer by auto. rewrite snap_get_view by auto. auto.
  - apply snap_get_view; auto.
Qed.

(* a write in the transaction is a write on the merged map *)
Lemma view_put_key t k v : tx_ok t -> t_w t = true ->
  view (put_key t k v) = OMap.put (view t) k v.
Proof.
  intros T W. apply sorted_ext.
  - apply view_sorted, put_key_ok; auto.
  - apply put_sorted, view_sorted; auto.
  - intros k'. rewrite <- read_through_layers by (apply put_key_ok; auto).
    unfold fetch. simpl. rewrite W.
    destruct (keqb k' k) eqn:E.
    + apply keqb_eq in E. subst k'. unfold OMap.has. rewrite get_del_same, !get_put_same. auto.
    + assert (N : k' <> k) by (intros ->; rewrite keqb_refl in E; discriminate).
      unfold OMap.has. rewrite get_del_other, !get_put_other by auto.
      rewrite <- read_through_layers by auto. unfold fetch. rewrite W. auto.
Qed.

Lemma view_delete_key t k : tx_ok t -> t_w t = true ->
  view (delete_key t k) = OMap.del (view t) k.
Proof.
  intros T W. apply sorted_ext.
  - apply view_sorted, delete_key_ok; auto.
  - apply del_sorted, view_sorted; auto.
  - intros k'. rewrite <- read_through_layers by (apply delete_key_ok; auto).
    unfold fetch. simpl. rewrite W.
    destruct (keqb k' k) eqn:E.
    + apply keqb_eq in E. subst k'. unfold OMap.has. rewrite get_put_same, get_del_same. auto.
    + assert (N : k' <> k) by (intros ->; rewrite keqb_refl in E; discriminate).
      unfold OMap.has. rewrite get_put_other, !get_del_other by auto.
      rewrite <- read_through_layers by auto. unfold fetch. rewrite W. auto.
Qed.

Lemma view_begin d w : view (begin d w) = db_view d.
Proof. unfold view, begin, db_view; simpl. destruct w; reflexivity. Qed.

(* ---------------------------------------------------------------- commit, flush *)

Definition snapshot_current (d : dbs) (t : txn) : Prop :=
  t_store t = d_store d /\ t_ck t = d_ck d /\ t_cr t = d_cr d.

Lemma flush_invisible d : db_view (flush d) = db_view d.
Proof. reflexivity. Qed.

Lemma commit_refines fl d t : db_ok d -> tx_ok t -> t_w t = true -> snapshot_current d t ->
  db_view (commit_with fl d t) = view t.
Proof.
  intros D T W (E1 & E2 & E3). unfold commit_with. destruct fl.
  - unfold db_view, view, snap_view, flush. simpl. rewrite W, E1, E2, E3. reflexivity.
  - assert (D' := merge_cache_ok d t D).
    apply sorted_ext; [apply db_view_sorted; auto|apply view_sorted; auto|].
    intros k. destruct D as (Ds & Dk & Dr). destruct T as (Ts & Tk & Tr & Tpk & Tpr).
    unfold db_view, view, snap_view, merge_cache. simpl. rewrite W, E1, E2, E3.
    rewrite !get_apply_layer; auto; [|apply sorted_del_all, sorted_put_all; auto].
    unfold OMap.has at 1. rewrite get_mark_all by auto.
    rewrite (get_del_all (t_pk t) (d_cr d) k).
    rewrite (get_del_all (t_pr t) (put_all (d_ck d) (t_pk t)) k).
    rewrite get_put_all by auto.
    destruct (OMap.has (t_pr t) k); auto.
    unfold OMap.has.
    destruct (OMap.get (t_pk t) k); auto.
Qed.

(* ---------------------------------------------------------------- histories *)

Definition rel_tx (d : dbs) (a : Z * txn) (b : Z * (bool * kvs)) : Prop :=
  fst a = fst b /\ t_w (snd a) = fst (snd b) /\ tx_ok (snd a) /\ view (snd a) = snd (snd b) /\
  (t_w (snd a) = true -> snapshot_current d (snd a)).

Definition opens (txs : list (Z * txn)) : list (Z * bool) := map (fun a => (fst a, t_w (snd a))) txs.
Definition nwriters (txs : list (Z * txn)) : nat := writers (fun b : bool => b) (opens txs).

Definition R (s : impl_state) (s' : spec_state) : Prop :=
  db_ok (fst s) /\ db_view (fst s) = fst s' /\ Forall2 (rel_tx (fst s)) (snd s) (snd s') /\
  (nwriters (snd s) <= 1)%nat.

Lemma find_rel d txs stxs h : Forall2 (rel_tx d) txs stxs ->
  match tx_find txs h, tx_find stxs h with
  | Some t, Some st => rel_tx d (h, t) (h, st)
  | None, None => True
  | _, _ => False
  end.
Proof.
  induction 1 as [|[h1 t1] [h2 st2] txs stxs H F IH]; simpl; auto.
  destruct H as (E & Hw & Hok & Hv & Hs). simpl in *. subst h2.
  destruct (h =? h1); auto. unfold rel_tx. simpl. tauto.
Qed.

Lemma remove_rel d txs stxs h : Forall2 (rel_tx d) txs stxs ->
  Forall2 (rel_tx d) (tx_remove txs h) (tx_remove stxs h).
Proof.
  induction 1 as [|[h1 t1] [h2 st2] txs stxs H F IH]; simpl; auto.
  assert (h1 = h2) by apply H. subst h2. destruct (h =? h1); auto.
Qed.

Lemma update_rel d txs stxs h t st : Forall2 (rel_tx d) txs stxs ->
  (forall h', rel_tx d (h', t) (h', st)) ->
  Forall2 (rel_tx d) (tx_update txs h t) (tx_update stxs h st).
Proof.
  intros F Hn. induction F as [|[h1 t1] [h2 st2] txs stxs H F IH]; simpl; auto.
  assert (h1 = h2) by apply H. subst h2. destruct (h =? h1); auto.
Qed.

Lemma opens_remove txs h : opens (tx_remove txs h) = tx_remove (opens txs) h.
Proof. induction txs as [|[h1 t1] txs IH]; simpl; auto. destruct (h =? h1); simpl; congruence. Qed.

Lemma opens_update txs h t t' : tx_find txs h = Some t -> t_w t' = t_w t ->
  opens (tx_update txs h t') = opens txs.
Proof.
  induction txs as [|[h1 t1] txs IH]; simpl; auto. destruct (h =? h1).
  - intros [= ->] E. simpl. rewrite E. auto.
  - intros. simpl. f_equal. auto.
Qed.

Lemma writers_remove (l : list (Z * bool)) h :
  (writers (fun b : bool => b) (tx_remove l h) <= writers (fun b : bool => b) l)%nat.
Proof. induction l as [|[h1 b] l IH]; simpl; auto. destruct (h =? h1); simpl; lia. Qed.

Lemma remove_absent {A} (l : list (Z * A)) h : tx_find l h = None -> tx_remove l h = l.
Proof.
  induction l as [|[h1 a] l IH]; simpl; auto. destruct (h =? h1); [discriminate|]. intros. f_equal; auto.
Qed.

Lemma find_opens txs h : tx_find (opens txs) h = option_map t_w (tx_find txs h).
Proof. induction txs as [|[h1 t1] txs IH]; simpl; auto. destruct (h =? h1); auto. Qed.

Lemma nwriters_zero txs : nwriters txs = 0%nat -> Forall (fun a => t_w (snd a) = false) txs.
Proof.
  unfold nwriters. induction txs as [|[h2 t2] txs IH]; simpl; auto.
  destruct (t_w t2) eqn:W2; simpl; intros; [lia|]. constructor; auto.
Qed.

(* after the only writer is gone, nobody is a writer *)
Lemma no_writer_left txs h t : tx_find txs h = Some t -> t_w t = true ->
  (nwriters txs <= 1)%nat -> Forall (fun a => t_w (snd a) = false) (tx_remove txs h).
Proof.
  intros F W Hc. apply nwriters_zero. unfold nwriters in *. rewrite opens_remove.
  revert F Hc. induction txs as [|[h1 t1] txs IH]; simpl; [discriminate|].
  destruct (h =? h1) eqn:E.
  - intros [= ->]. rewrite W. intros Hc. pose proof (writers_remove (opens txs) h). simpl in Hc. lia.
  - intros F Hc. simpl.
    assert (1 <= writers (fun b : bool => b) (opens txs))%nat.
    { clear -F W. induction txs as [|[h2 t2] txs IH]; simpl in *; [discriminate|].
      destruct (h =? h2); [inversion F; subst; rewrite W; simpl; lia|]. specialize (IH F). lia. }
    destruct (t_w t1); simpl in *; [lia|]. apply IH; auto.
Qed.

Lemma rel_readers d d' txs stxs : Forall2 (rel_tx d) txs stxs ->
  Forall (fun a => t_w (snd a) = false) txs -> Forall2 (rel_tx d') txs stxs.
Proof.
  induction 1 as [|a b txs stxs H F IH]; intros Hr; constructor; inversion Hr; subst; auto.
  destruct H as (E & Hw & Hok & Hv & Hs). unfold rel_tx. split; [auto|split; [auto|split; [auto|split; [auto|]]]].
  intros Hx. congruence.
Qed.

Lemma mk_rel d h t w tm : t_w t = w -> tx_ok t -> view t = tm ->
  (t_w t = true -> snapshot_current d t) -> rel_tx d (h, t) (h, (w, tm)).
Proof. intros. unfold rel_tx. simpl. tauto. Qed.

Ltac triv := simpl; unfold R; simpl; intuition auto.

Lemma step_refines o s s' open' : R s s' -> open_step (opens (snd s)) o = Some open' ->
  snd (impl_step s o) = snd (spec_step s' o) /\
  R (fst (impl_step s o)) (fst (spec_step s' o)) /\
  opens (snd (fst (impl_step s o))) = open'.
Proof.
  destruct s as [d txs], s' as [m stxs]. intros (D & V & F & Wc) Ho. simpl in D, V, F, Wc, Ho.
  pose proof (find_rel d txs stxs) as FR.
  destruct o as [h w|h k v|h k|h k|h|h fl|h|]; simpl in Ho; unfold impl_step, spec_step.
  - (* begin *)
    rewrite find_opens in Ho. destruct (tx_find txs h) eqn:Fh; [discriminate|]. simpl in Ho.
    specialize (FR h F). rewrite Fh in FR. destruct (tx_find stxs h) eqn:Fh'; [contradiction|].
    destruct (w && (0 <? Z.of_nat (writers (fun b : bool => b) (opens txs)))) eqn:Ew; [discriminate|].
    inversion Ho; subst open'. clear Ho.
    unfold tx_set. rewrite !remove_absent by auto. simpl.
    split; [auto|split; [|auto]]. unfold R. simpl.
    split; [auto|split; [auto|split]].
    + constructor; auto. apply mk_rel; auto.
      * apply begin_ok; auto.
      * rewrite view_begin. auto.
      * intros _. unfold snapshot_current. simpl. auto.
    + unfold nwriters in *. simpl. destruct w; simpl in *; auto.
      apply Z.ltb_ge in Ew. lia.
  - (* put *)
    inversion Ho; subst open'. clear Ho.
    specialize (FR h F). destruct (tx_find txs h) as [t|] eqn:Fh; destruct (tx_find stxs h) as [[w tm]|] eqn:Fh';
      try contradiction; [|triv].
    destruct FR as (_ & Hw & Hok & Hv & Hs). simpl in *. subst w.
    destruct (t_w t) eqn:W; simpl; [|triv].
    split; [auto|split].
    + unfold R. simpl. split; [auto|split; [auto|split]].
      * apply update_rel; auto. intros h'. apply mk_rel; auto.
        -- apply put_key_ok; auto.
        -- rewrite view_put_key by auto. congruence.
      * unfold nwriters. rewrite (opens_update txs h t) by auto. auto.
    + apply (opens_update txs h t); auto.
  - (* delete *)
    inversion Ho; subst open'. clear Ho.
    specialize (FR h F). destruct (tx_find txs h) as [t|] eqn:Fh; destruct (tx_find stxs h) as [[w tm]|] eqn:Fh';
      try contradiction; [|triv].
    destruct FR as (_ & Hw & Hok & Hv & Hs). simpl in *. subst w.
    destruct (t_w t) eqn:W; simpl; [|triv].
    split; [auto|split].
    + unfold R. simpl. split; [auto|split; [auto|split]].
      * apply update_rel; auto. intros h'. apply mk_rel; auto.
        -- apply delete_key_ok; auto.
        -- rewrite view_delete_key by auto. congruence.
      * unfold nwriters. rewrite (opens_update txs h t) by auto. auto.
    + apply (opens_update txs h t); auto.
  - (* get *)
    inversion Ho; subst open'. clear Ho.
    specialize (FR h F). destruct (tx_find txs h) as [t|] eqn:Fh; destruct (tx_find stxs h) as [[w tm]|] eqn:Fh';
      try contradiction; try (triv; fail).
    destruct FR as (_ & Hw & Hok & Hv & Hs). simpl in *.
    split; [rewrite read_through_layers by auto; congruence|triv].
  - (* scan *)
    inversion Ho; subst open'. clear Ho.
    specialize (FR h F). destruct (tx_find txs h) as [t|] eqn:Fh; destruct (tx_find stxs h) as [[w tm]|] eqn:Fh';
      try contradiction; try (triv; fail).
    destruct FR as (_ & Hw & Hok & Hv & Hs). simpl in *.
    split; [congruence|triv].
  - (* commit *)
    inversion Ho; subst open'. clear Ho.
    specialize (FR h F). destruct (tx_find txs h) as [t|] eqn:Fh; destruct (tx_find stxs h) as [[w tm]|] eqn:Fh';
      try contradiction;
      [|simpl; unfold R; simpl; intuition auto; symmetry; apply remove_absent; rewrite find_opens, Fh; auto].
    destruct FR as (_ & Hw & Hok & Hv & Hs). simpl in *. subst w.
    pose proof (writers_remove (opens txs) h) as Wr.
    destruct (t_w t) eqn:W; simpl.
    + split; [auto|split; [|apply opens_remove]].
      unfold R. simpl. split; [apply commit_ok; auto|split; [|split]].
      * rewrite commit_refines by auto. auto.
      * apply (rel_readers d). { apply remove_rel; auto. }
        apply (no_writer_left txs h t); auto.
      * unfold nwriters in *. rewrite opens_remove. lia.
    + split; [auto|split; [|apply opens_remove]].
      unfold R. simpl. split; [auto|split; [auto|split]].
      * apply remove_rel; auto.
      * unfold nwriters in *. rewrite opens_remove. lia.
  - (* rollback *)
    inversion Ho; subst open'. clear Ho. simpl.
    pose proof (writers_remove (opens txs) h) as Wr.
    split; [auto|split; [|apply opens_remove]].
    unfold R. simpl. split; [auto|split; [auto|split]].
    + apply remove_rel; auto.
    + unfold nwriters in *. rewrite opens_remove. lia.
  - (* flush: no transaction is open *)
    destruct txs as [|a txs]; simpl in Ho; [|discriminate]. inversion Ho; subst open'. clear Ho.
    inversion F; subst. simpl.
    split; [auto|split; [|auto]].
    unfold R. simpl. split; [apply flush_ok; auto|split; [auto|split; auto]].
Qed.

Theorem refines_spec ops : forall s s', R s s' -> admissible (opens (snd s)) ops = true ->
  run impl_step s ops = run spec_step s' ops.
Proof.
  induction ops as [|o ops IH]; intros s s' HR A; simpl; auto.
  simpl in A. destruct (open_step (opens (snd s)) o) as [open'|] eqn:Ho; [|discriminate].
  destruct (step_refines o s s' open' HR Ho) as (Eo & HR' & Eop).
  destruct (impl_step s o) as [s1 o1], (spec_step s' o) as [s1' o1']. simpl in *.
  subst o1'. f_equal. apply IH; auto. rewrite Eop. auto.
Qed.

Lemma init_related m : sorted m -> R (impl_init m) (spec_init m).
Proof.
  intros S. unfold R, impl_init, spec_init, db_ok, nwriters; simpl. repeat split; auto.
Qed.

Theorem refines_spec_init m ops : sorted m -> admissible [] ops = true ->
  run impl_step (impl_init m) ops = run spec_step (spec_init m) ops.
Proof. intros S A. apply refines_spec; [apply init_related; auto|exact A]. Qed.

(* the specification never looks at the flush decisions *)
Lemma spec_clear_flush ops : forall s, run spec_step s (map clear_flush ops) = run spec_step s ops.
Proof.
  induction ops as [|o ops IH]; intros s; simpl; auto.
  assert (E : spec_step s (clear_flush o) = spec_step s o) by (destruct o; reflexivity).
  rewrite E. destruct (spec_step s o). f_equal. auto.
Qed.

Lemma admissible_clear_flush ops : forall open,
  admissible open (map clear_flush ops) = admissible open ops.
Proof.
  induction ops as [|o ops IH]; intros open; simpl; auto.
  assert (E : open_step open (clear_flush o) = open_step open o) by (destruct o; reflexivity).
  rewrite E. destruct (open_step open o); auto.
Qed.

(* every read is the same under every flush schedule *)
Theorem flush_schedule_invisible m ops1 ops2 : sorted m ->
  map clear_flush ops1 = map clear_flush ops2 -> admissible [] ops1 = true ->
  run impl_step (impl_init m) ops1 = run impl_step (impl_init m) ops2.
Proof.
  intros S E A.
  assert (A2 : admissible [] ops2 = true).
  { rewrite <- admissible_clear_flush, <- E, admissible_clear_flush. auto. }
  rewrite !refines_spec_init by auto.
  rewrite <- (spec_clear_flush ops1), <- (spec_clear_flush ops2), E. auto.
Qed.

(* rolled-back and refused transactions leave no trace: the database state is
   literally unchanged *)
Lemma rollback_no_trace d txs h : fst (fst (impl_step (d, txs) (FRollback h))) = d.
Proof. reflexivity. Qed.

Lemma readonly_commit_no_trace d txs h t fl : tx_find txs h = Some t -> t_w t = false ->
  fst (fst (impl_step (d, txs) (FCommit h fl))) = d.
Proof. intros F W. simpl. rewrite F, W. reflexivity. Qed.

(* ---------------------------------------------------------------- bucket listings *)

Lemma strip_prefix_spec p : forall k k', strip_prefix p k = Some k' <-> k = p ++ k'.
Proof.
  induction p as [|x p IH]; intros k k'; simpl.
  - split; [intros [= ->]; auto|intros ->; auto].
  - destruct k as [|y k]; [split; discriminate|].
    destruct (Z.eqb_spec x y) as [->|N].
    + rewrite IH. split; [intros ->; auto|intros [= ->]; auto].
    + split; [discriminate|intros [= E _]; congruence].
Qed.

Lemma kcmp_prefix p a b : kcmp (p ++ a) (p ++ b) = kcmp a b.
Proof. induction p; simpl; auto. rewrite Z.compare_refl. auto. Qed.

Lemma under_in p (m : kvs) k v : In (k, v) (under p m) <-> In (p ++ k, v) m.
Proof.
  induction m as [|[k1 v1] m IH]; simpl; [tauto|].
  destruct (strip_prefix p k1) as [k1'|] eqn:E.
  - apply strip_prefix_spec in E. subst k1. simpl. rewrite IH. split.
    + intros [[= -> ->]|H]; auto.
    + intros [[= E ->]|H]; auto. apply app_inv_head in E. subst. auto.
  - rewrite IH. split; auto. intros [[= -> ->]|H]; auto.
    assert (strip_prefix p (p ++ k) = Some k) by (apply strip_prefix_spec; auto). congruence.
Qed.

Lemma under_sorted p (m : kvs) : sorted m -> sorted (under p m).
Proof.
  induction m as [|[k1 v1] m IH]; simpl; auto. intros [L S].
  destruct (strip_prefix p k1) as [k1'|] eqn:E; auto.
  apply strip_prefix_spec in E. subst k1. simpl. split; auto.
  unfold lb in *. rewrite Forall_forall in *. intros [x vx] Hx. simpl.
  apply under_in in Hx. specialize (L _ Hx). simpl in L. unfold klt in *.
  rewrite kcmp_prefix in L. auto.
Qed.

(* what ForEach / a keys cursor lists for bucket [id]: sorted by key, and
   exactly the pairs the transaction can Get in that bucket *)
Lemma bucket_listing t id : tx_ok t ->
  sorted (bucket_keys t id) /\
  (forall k v, In (k, v) (bucket_keys t id) <-> fetch t (bucketized id k) = Some v).
Proof.
  intros T. pose proof (view_sorted t T) as S. split.
  - apply under_sorted; auto.
  - intros k v. unfold bucket_keys, bucketized. rewrite under_in. rewrite read_through_layers by auto.
    split; [apply in_get; auto|apply get_in].
Qed.

Lemma bucket_subs_listing t id : tx_ok t ->
  sorted (bucket_subs t id) /\
  (forall n v, In (n, v) (bucket_subs t id) <-> fetch t (bidx_key id n) = Some v).
Proof.
  intros T. pose proof (view_sorted t T) as S. split.
  - apply under_sorted; auto.
  - intros n v. unfold bucket_subs, bidx_key. rewrite under_in. rewrite read_through_layers by auto.
    rewrite <- app_assoc. split; [apply in_get; auto|apply get_in].
Qed.

Lemma cursor_sorted_complete t id : tx_ok t ->
  sorted (bucket_keys t id) /\
  (forall k v, In (k, v) (bucket_keys t id) <-> fetch t (bucketized id k) = Some v) /\
  sorted (bucket_subs t id) /\
  (forall n v, In (n, v) (bucket_subs t id) <-> fetch t (bidx_key id n) = Some v).
Proof.
  intros T. destruct (bucket_listing t id T), (bucket_subs_listing t id T). tauto.
Qed.

(* ---------------------------------------------------------------- the merged cursor *)

Definition U5 : list key := [[1]; [2]; [3]; [3; 0]; [255]].

(* a cursor that reverses direction over two layers loses its place:
   snapshot {1,3,ff}, pending {2,3\0}: First Next Next Prev reports 3\0, not 2 *)
Lemma cursor_reverse_refuted :
  exists db pend skip ss,
    monotone ss = false /\
    cur_run db pend skip cur_init ss <> spec_run [[1]; [2]; [3]; [3; 0]; [255]] None ss /\
    db = [[1]; [3]; [255]] /\ pend = [[2]; [3; 0]] /\ ss = [CFirst; CNext; CNext; CPrev].
Proof.
  exists [[1]; [3]; [255]], [[2]; [3; 0]], (fun k => existsb (keqb k) [[2]; [3; 0]]),
         [CFirst; CNext; CNext; CPrev].
  repeat split; auto. vm_compute. discriminate.
Qed.

Lemma sweep_U5 : sweep_monotone U5 = true.
Proof. vm_compute. reflexivity. Qed.

Lemma in_zrange n x : 0 <= x < n -> In x (zrange n).
Proof.
  intros H. unfold zrange. apply in_map_iff. exists (Z.to_nat x). split; [lia|].
  apply in_seq. lia.
Qed.

(* without reversal the merged cursor is the ordered walk of the merged keys:
   every assignment of the 5 keys to snapshot / pending / removed, complete
   forward and backward walks including exhaustion *)
Lemma cursor_monotone_sweep md mp mr : 0 <= md < 32 -> 0 <= mp < 32 -> 0 <= mr < 32 ->
  cursor_agrees U5 md mp mr (CFirst :: repeat CNext 6) = true /\
  cursor_agrees U5 md mp mr (CLast :: repeat CPrev 6) = true.
Proof.
  intros Hd Hp Hr. pose proof sweep_U5 as S. unfold sweep_monotone in S.
  change (2 ^ Z.of_nat (length U5)) with 32 in S.
  rewrite forallb_forall in S. specialize (S md (in_zrange 32 md Hd)).
  rewrite forallb_forall in S. specialize (S mp (in_zrange 32 mp Hp)).
  rewrite forallb_forall in S. specialize (S mr (in_zrange 32 mr Hr)).
  apply andb_true_iff in S. exact S.
Qed.

(* ================================================================ the merged cursor, unbounded
   One proof for both directions: a walk over two lists sorted by an arbitrary
   strict total order [lt]; forwards it is instantiated with the key order,
   backwards with the reversed lists and the reversed order. *)

Lemma find_app_none {A} (P : A -> bool) a b :
  (forall x, In x a -> P x = false) -> find P (a ++ b) = find P b.
Proof.
  induction a as [|x a IH]; simpl; auto. intros H. rewrite (H x) by auto. apply IH. intros; apply H; auto.
Qed.

Section GenericMerge.
  Variable lt : key -> key -> bool.
  Hypothesis lt_irrefl : forall a, lt a a = false.
  Hypothesis lt_trans : forall a b c, lt a b = true -> lt b c = true -> lt a c = true.
  Hypothesis lt_total : forall a b, lt a b = false -> lt b a = false -> a = b.
  Variables (db pend : list key) (skip : key -> bool).

  Fixpoint gsorted (l : list key) : Prop :=
    match l with [] => True | k :: r => Forall (fun y => lt k y = true) r /\ gsorted r end.

  Definition gnext (l : list key) (p : option key) : option key :=
    match p with Some k => find (fun y => lt k y) l | None => None end.

  Fixpoint gskip (fuel : nat) (p : option key) : option key :=
    match fuel, p with
    | S f, Some k => if skip k then gskip f (gnext db p) else p
    | _, _ => p
    end.

  Definition gchoose (d p : option key) : mcur :=
    let d := gskip (S (length db)) d in
    match d, p with
    | None, None => {| mc_db := d; mc_pend := p; mc_cur := None |}
    | Some _, None => {| mc_db := d; mc_pend := p; mc_cur := Some true |}
    | None, Some _ => {| mc_db := d; mc_pend := p; mc_cur := Some false |}
    | Some a, Some b => {| mc_db := d; mc_pend := p; mc_cur := Some (negb (lt b a)) |}
    end.

  Definition gfirst : mcur := gchoose (hd_error db) (hd_error pend).
  Definition gstep (c : mcur) : mcur :=
    match mc_cur c with
    | None => c
    | Some true => gchoose (gnext db (mc_db c)) (mc_pend c)
    | Some false => gchoose (mc_db c) (gnext pend (mc_pend c))
    end.

  Fixpoint gwalk (c : mcur) (n : nat) : list (option key) :=
    match n with O => [] | S n' => let c' := gstep c in cur_key c' :: gwalk c' n' end.
  Fixpoint gspec (m : list key) (p : option key) (n : nat) : list (option key) :=
    match n with O => [] | S n' => let p' := gnext m p in p' :: gspec m p' n' end.

  (* merge: from the left list unless the right head is strictly smaller *)
  Fixpoint gmerge (a : list key) : list key -> list key :=
    match a with
    | [] => fun b => b
    | x :: a' =>
      fix mr (b : list key) : list key :=
        match b with
        | [] => a
        | y :: b' => if lt y x then y :: mr b' else x :: gmerge a' b
        end
    end.

  Definition keep (l : list key) : list key := filter (fun y => negb (skip y)) l.
  Fixpoint dropskip (l : list key) : list key :=
    match l with [] => [] | k :: r => if skip k then dropskip r else l end.

  Lemma keep_dropskip l : keep (dropskip l) = keep l.
  Proof. induction l as [|k r IH]; simpl; auto. destruct (skip k) eqn:E; simpl; auto. rewrite E. auto. Qed.

  Lemma gsorted_app a b : gsorted (a ++ b) ->
    gsorted a /\ gsorted b /\ (forall x y, In x a -> In y b -> lt x y = true).
  Proof.
    induction a as [|k a IH]; simpl.
    - intros H. repeat split; auto; intros ? ? [].
    - intros [F S]. apply Forall_app in F. destruct F as [Fa Fb]. destruct (IH S) as (Sa & Sb & Hab).
      repeat split; auto. intros x y [<-|Hx] Hy; auto. rewrite Forall_forall in Fb. auto.
  Qed.

  (* the successor of k in a sorted list that contains k *)
  Lemma gnext_split a k t : gsorted (a ++ k :: t) -> gnext (a ++ k :: t) (Some k) = hd_error t.
  Proof.
    intros S. destruct (gsorted_app _ _ S) as (Sa & Sk & Hak). simpl in Sk. destruct Sk as [Fk St].
    simpl. rewrite find_app_none.
    - simpl. rewrite lt_irrefl. destruct t as [|y t]; auto. simpl. inversion Fk; subst. rewrite H1. auto.
    - intros x Hx. specialize (Hak x k Hx (or_introl eq_refl)).
      destruct (lt k x) eqn:E; auto. pose proof (lt_trans _ _ _ E Hak) as C. rewrite lt_irrefl in C. discriminate.
  Qed.

  Lemma lt_asym a b : lt a b = true -> lt b a = false.
  Proof.
    intros H. destruct (lt b a) eqn:E; auto. pose proof (lt_trans _ _ _ H E) as C.
    rewrite lt_irrefl in C. discriminate.
  Qed.

  Lemma dropskip_suffix l : exists pre, l = pre ++ dropskip l.
  Proof.
    induction l as [|k r [pre IH]]; simpl; [exists []; auto|].
    destruct (skip k); [exists (k :: pre); simpl; congruence|exists []; auto].
  Qed.

  Lemma dropskip_head l : match dropskip l with k :: _ => skip k = false | [] => True end.
  Proof. induction l as [|k r IH]; simpl; auto. destruct (skip k) eqn:E; auto. Qed.

  Lemma dropskip_id l : match l with k :: _ => skip k = false | [] => True end -> dropskip l = l.
  Proof. destruct l; simpl; auto. intros ->. auto. Qed.

  Lemma gskip_drop t : forall pre fuel, db = pre ++ t -> gsorted db -> (length t < fuel)%nat ->
    gskip fuel (hd_error t) = hd_error (dropskip t).
  Proof.
    induction t as [|k t IH]; intros pre fuel E S F; destruct fuel; simpl in F; try lia; auto.
    cbn [gskip hd_error dropskip]. destruct (skip k); auto.
    assert (G : gnext db (Some k) = hd_error t) by (rewrite E; apply gnext_split; rewrite <- E; auto).
    rewrite G. apply (IH (pre ++ [k])); auto; [rewrite <- app_assoc; auto|lia].
  Qed.

  (* ---- merge facts *)
  Lemma gmerge_nil_r a : gmerge a [] = a.
  Proof. destruct a; auto. Qed.

  Lemma gmerge_cons x a y b :
    gmerge (x :: a) (y :: b) = if lt y x then y :: gmerge (x :: a) b else x :: gmerge a (y :: b).
  Proof. reflexivity. Qed.

  Lemma gmerge_in a : forall b k, In k (gmerge a b) <-> In k a \/ In k b.
  Proof.
    induction a as [|x a IHa]; [simpl; tauto|].
    induction b as [|y b IHb]; intros k; [rewrite gmerge_nil_r; simpl; tauto|].
    rewrite gmerge_cons. destruct (lt y x); simpl; [rewrite IHb|rewrite IHa]; simpl; tauto.
  Qed.

  Lemma gmerge_sorted a : forall b, gsorted a -> gsorted b ->
    (forall x, In x a -> In x b -> False) -> gsorted (gmerge a b).
  Proof.
    induction a as [|x a IHa]; [simpl; auto|].
    induction b as [|y b IHb]; intros Sa Sb D; [rewrite gmerge_nil_r; auto|].
    rewrite gmerge_cons. destruct Sa as [Fa Sa], Sb as [Fb Sb]. rewrite Forall_forall in Fa, Fb.
    destruct (lt y x) eqn:E.
    - cbn [gsorted]. split.
      + apply Forall_forall. intros z Hz. apply gmerge_in in Hz. destruct Hz as [[<-|Hz]|Hz]; auto.
        eapply lt_trans; eauto.
      + apply IHb; simpl; auto. { split; auto. apply Forall_forall; auto. }
        intros z Hz Hb. apply (D z); simpl; auto.
    - assert (L : lt x y = true).
      { destruct (lt x y) eqn:E2; auto. exfalso. apply (D x); [left; auto|left; apply lt_total; auto]. }
      cbn [gsorted]. split.
      + apply Forall_forall. intros z Hz. apply gmerge_in in Hz. destruct Hz as [Hz|[<-|Hz]]; auto.
        eapply lt_trans; eauto.
      + apply IHa; simpl; auto. { split; auto. apply Forall_forall; auto. }
        intros z Hz Hb. apply (D z); simpl; auto.
  Qed.

  Lemma gsorted_unique l1 : forall l2, gsorted l1 -> gsorted l2 ->
    (forall k, In k l1 <-> In k l2) -> l1 = l2.
  Proof.
    induction l1 as [|x l1 IH]; intros [|y l2] S1 S2 H; auto.
    - destruct (proj2 (H y)); simpl; auto.
    - destruct (proj1 (H x)); simpl; auto.
    - destruct S1 as [F1 S1], S2 as [F2 S2]. rewrite Forall_forall in F1, F2.
      assert (x = y).
      { destruct (proj1 (H x) (or_introl eq_refl)) as [E|Hx]; auto.
        destruct (proj2 (H y) (or_introl eq_refl)) as [E|Hy]; auto.
        pose proof (F2 _ Hx) as A. pose proof (F1 _ Hy) as B. rewrite (lt_asym _ _ A) in B. discriminate. }
      subst y. f_equal. apply IH; auto. intros k. split; intros Hk.
      + destruct (proj1 (H k) (or_intror Hk)) as [<-|]; auto.
        pose proof (F1 _ Hk) as A. rewrite lt_irrefl in A. discriminate.
      + destruct (proj2 (H k) (or_intror Hk)) as [<-|]; auto.
        pose proof (F2 _ Hk) as A. rewrite lt_irrefl in A. discriminate.
  Qed.

  (* ---- the walk *)
  Hypothesis Sdb : gsorted db.
  Hypothesis Spend : gsorted pend.
  Hypothesis pend_skipped : forall k, In k pend -> skip k = true.

  Definition M : list key := gmerge (keep db) pend.

  Definition cur_of (dr pr : list key) : option bool :=
    match dr, pr with
    | [], [] => None
    | _ :: _, [] => Some true
    | [], _ :: _ => Some false
    | a :: _, b :: _ => Some (negb (lt b a))
    end.

  Definition Inv (c : mcur) (R : list key) : Prop :=
    exists da dr pa pr ma,
      db = da ++ dr /\ pend = pa ++ pr /\ M = ma ++ R /\ R = gmerge (keep dr) pr /\
      match dr with k :: _ => skip k = false | [] => True end /\
      mc_db c = hd_error dr /\ mc_pend c = hd_error pr /\ mc_cur c = cur_of dr pr.

  Lemma keep_sorted l : gsorted l -> gsorted (keep l).
  Proof.
    induction l as [|k r IH]; simpl; auto. intros [F S]. destruct (skip k); simpl; auto. split; auto.
    rewrite Forall_forall in *. intros y Hy. apply filter_In in Hy. apply F. tauto.
  Qed.

  Lemma M_sorted : gsorted M.
  Proof.
    apply gmerge_sorted; auto. { apply keep_sorted; auto. }
    intros x Hx Hp. apply filter_In in Hx. rewrite (pend_skipped x Hp) in Hx. destruct Hx. discriminate.
  Qed.

  Lemma choose_inv da dr0 pa pr ma : db = da ++ dr0 -> pend = pa ++ pr ->
    M = ma ++ gmerge (keep dr0) pr ->
    Inv (gchoose (hd_error dr0) (hd_error pr)) (gmerge (keep dr0) pr).
  Proof.
    intros Ed Ep Em. unfold gchoose.
    rewrite (gskip_drop dr0 da) by (auto; rewrite Ed, app_length; lia).
    destruct (dropskip_suffix dr0) as [pre Epre].
    pose proof (dropskip_head dr0) as Hh.
    exists (da ++ pre), (dropskip dr0), pa, pr, ma.
    rewrite keep_dropskip.
    assert (Ed' : db = (da ++ pre) ++ dropskip dr0) by (rewrite <- app_assoc, <- Epre; auto).
    destruct (dropskip dr0) as [|a dr]; destruct pr as [|b pr]; simpl; repeat split; auto.
  Qed.

  Lemma cur_key_inv c R : Inv c R -> cur_key c = hd_error R.
  Proof.
    intros (da & dr & pa & pr & ma & Ed & Ep & Em & ER & Hh & Hd & Hp & Hc).
    unfold cur_key. rewrite Hc, Hd, Hp, ER.
    destruct dr as [|a dr]; destruct pr as [|b pr]; simpl; auto.
    - rewrite Hh. simpl. auto.
    - rewrite Hh. simpl. destruct (lt b a); auto.
  Qed.

  Lemma step_inv c R : Inv c R -> Inv (gstep c) (tl R).
  Proof.
    intros (da & dr & pa & pr & ma & Ed & Ep & Em & ER & Hh & Hd & Hp & Hc).
    unfold gstep. rewrite Hc.
    assert (Spr : gsorted pend) by auto.
    destruct dr as [|a dr]; destruct pr as [|b pr]; simpl cur_of; cbv iota.
    - (* exhausted *)
      subst R. simpl. exists da, [], pa, [], ma. repeat split; auto.
    - (* only pending keys left *)
      rewrite Hp, Hd. simpl hd_error.
      assert (G : gnext pend (Some b) = hd_error pr) by (rewrite Ep; apply gnext_split; rewrite <- Ep; auto).
      rewrite G. subst R. simpl.
      apply (choose_inv da [] (pa ++ [b]) pr (ma ++ [b])); auto.
      + rewrite <- app_assoc. auto.
      + rewrite <- app_assoc. auto.
    - (* only stored keys left *)
      rewrite Hp, Hd. simpl hd_error.
      assert (G : gnext db (Some a) = hd_error dr) by (rewrite Ed; apply gnext_split; rewrite <- Ed; auto).
      rewrite G. subst R. simpl keep. rewrite Hh. simpl negb. cbv iota. rewrite gmerge_nil_r. simpl tl.
      replace (keep dr) with (gmerge (keep dr) []) by apply gmerge_nil_r.
      apply (choose_inv (da ++ [a]) dr pa [] (ma ++ [a])); auto.
      + rewrite <- app_assoc. auto.
      + rewrite <- app_assoc. rewrite Em. simpl keep. rewrite Hh. simpl. rewrite !gmerge_nil_r. auto.
    - (* both *)
      rewrite Hp, Hd. simpl hd_error.
      assert (Ea : keep (a :: dr) = a :: keep dr) by (simpl; rewrite Hh; auto).
      destruct (lt b a) eqn:E; simpl negb; cbv iota.
      + (* the pending key is smaller *)
        assert (G : gnext pend (Some b) = hd_error pr) by (rewrite Ep; apply gnext_split; rewrite <- Ep; auto).
        assert (T : gmerge (keep (a :: dr)) (b :: pr) = b :: gmerge (keep (a :: dr)) pr)
          by (rewrite Ea, gmerge_cons, E; auto).
        rewrite G. subst R. rewrite T in *. simpl tl.
        apply (choose_inv da (a :: dr) (pa ++ [b]) pr (ma ++ [b])); auto.
        * rewrite <- app_assoc. auto.
        * rewrite <- app_assoc. auto.
      + (* the stored key is smaller *)
        assert (G : gnext db (Some a) = hd_error dr) by (rewrite Ed; apply gnext_split; rewrite <- Ed; auto).
        assert (T : gmerge (keep (a :: dr)) (b :: pr) = a :: gmerge (keep dr) (b :: pr))
          by (rewrite Ea, gmerge_cons, E; auto).
        rewrite G. subst R. rewrite T in *. simpl tl.
        apply (choose_inv (da ++ [a]) dr pa (b :: pr) (ma ++ [a])); auto.
        * rewrite <- app_assoc. auto.
        * rewrite <- app_assoc. auto.
  Qed.

  Lemma gnext_tl ma R : M = ma ++ R -> gnext M (hd_error R) = hd_error (tl R).
  Proof.
    intros E. destruct R as [|k R]; simpl; auto.
    change (find (fun y => lt k y) M) with (gnext M (Some k)).
    rewrite E. apply gnext_split. rewrite <- E. apply M_sorted.
  Qed.

  Lemma gwalk_spec n : forall c R, Inv c R -> gwalk c n = gspec M (hd_error R) n.
  Proof.
    induction n as [|n IH]; intros c R I; simpl; auto.
    pose proof (step_inv c R I) as I'.
    destruct I as (da & dr & pa & pr & ma & Ed & Ep & Em & _).
    rewrite (cur_key_inv _ _ I'), (gnext_tl ma R Em). f_equal. apply IH; auto.
  Qed.

  Theorem gwalk_all n :
    cur_key gfirst :: gwalk gfirst n = hd_error M :: gspec M (hd_error M) n.
  Proof.
    assert (I : Inv gfirst M).
    { apply (choose_inv [] db [] pend []); auto. }
    rewrite (cur_key_inv _ _ I). f_equal. apply gwalk_spec; auto.
  Qed.
End GenericMerge.

(* ---------------------------------------------------------------- instantiation *)

Definition kgt (a b : key) : bool := kltb b a.
Definition ksorted (l : list key) : Prop := gsorted kltb l.

Lemma kltb_irrefl a : kltb a a = false.
Proof. unfold kltb. rewrite kcmp_refl. auto. Qed.
Lemma kltb_trans a b c : kltb a b = true -> kltb b c = true -> kltb a c = true.
Proof. rewrite !kltb_lt. apply klt_trans. Qed.
Lemma kltb_total a b : kltb a b = false -> kltb b a = false -> a = b.
Proof.
  unfold kltb. intros H1 H2. destruct (kcmp_cases a b) as [[_ E]|[[E _]|[H E]]]; auto.
  - rewrite E in H1. discriminate.
  - unfold klt in H. rewrite H in H2. discriminate.
Qed.
Lemma kgt_irrefl a : kgt a a = false. Proof. apply kltb_irrefl. Qed.
Lemma kgt_trans a b c : kgt a b = true -> kgt b c = true -> kgt a c = true.
Proof. unfold kgt. intros. eapply kltb_trans; eauto. Qed.
Lemma kgt_total a b : kgt a b = false -> kgt b a = false -> a = b.
Proof. unfold kgt. intros. apply kltb_total; auto. Qed.

Lemma rev_gsorted l : gsorted kltb l -> gsorted kgt (rev l).
Proof.
  induction l as [|k r IH]; simpl; auto. intros [F S].
  assert (G : forall a b, gsorted kgt a -> gsorted kgt b -> (forall x y, In x a -> In y b -> kgt x y = true) ->
              gsorted kgt (a ++ b)).
  { induction a as [|x a IHa]; simpl; auto. intros b [Fa Sa] Sb H. split.
    - apply Forall_app. split; auto. apply Forall_forall. intros y Hy. apply H; auto.
    - apply IHa; auto. }
  apply G; simpl; auto.
  intros x y Hx [<-|[]]. unfold kgt. rewrite Forall_forall in F. apply F. apply in_rev. auto.
Qed.

(* forward: the Go cursor's First/Next are the generic walk for the key order *)
Lemma skip_loop_fwd db skip fuel : forall p, skip_loop db skip fuel true p = gskip kltb db skip fuel p.
Proof. induction fuel as [|f IH]; intros [k|]; simpl; auto. destruct (skip k); auto. Qed.

Lemma skip_loop_bwd db skip fuel : forall p, skip_loop db skip fuel false p = gskip kgt (rev db) skip fuel p.
Proof. induction fuel as [|f IH]; intros [k|]; simpl; auto. destruct (skip k); auto. Qed.

Lemma choose_fwd db skip d p : choose db skip true d p = gchoose kltb db skip d p.
Proof.
  unfold choose, gchoose. rewrite skip_loop_fwd.
  destruct (gskip kltb db skip (S (length db)) d) as [a|]; destruct p as [b|]; auto.
  try (unfold kltb; rewrite (kcmp_antisym a b); destruct (kcmp a b); auto).
Qed.

Lemma choose_bwd db skip d p : choose db skip false d p = gchoose kgt (rev db) skip d p.
Proof.
  unfold choose, gchoose. rewrite skip_loop_bwd, rev_length.
  destruct (gskip kgt (rev db) skip (S (length db)) d) as [a|]; destruct p as [b|]; auto.
Qed.

Lemma cur_run_fwd db pend skip n : forall c,
  cur_run db pend skip c (repeat CNext n) = gwalk kltb db pend skip c n.
Proof.
  induction n as [|n IH]; intros c; [reflexivity|]. cbn [repeat cur_run gwalk].
  assert (E : cur_step db pend skip c CNext = gstep kltb db pend skip c).
  { unfold gstep. simpl. destruct (mc_cur c) as [[|]|]; auto; apply choose_fwd. }
  rewrite E. f_equal. apply IH.
Qed.

Lemma cur_run_bwd db pend skip n : forall c,
  cur_run db pend skip c (repeat CPrev n) = gwalk kgt (rev db) (rev pend) skip c n.
Proof.
  induction n as [|n IH]; intros c; [reflexivity|]. cbn [repeat cur_run gwalk].
  assert (E : cur_step db pend skip c CPrev = gstep kgt (rev db) (rev pend) skip c).
  { unfold gstep. simpl. destruct (mc_cur c) as [[|]|]; auto; apply choose_bwd. }
  rewrite E. f_equal. apply IH.
Qed.

Lemma spec_run_fwd m n : forall p, spec_run m p (repeat CNext n) = gspec kltb m p n.
Proof. induction n as [|n IH]; intros p; simpl; auto. f_equal. apply IH. Qed.
Lemma spec_run_bwd m n : forall p, spec_run m p (repeat CPrev n) = gspec kgt (rev m) p n.
Proof. induction n as [|n IH]; intros p; simpl; auto. f_equal. apply IH. Qed.

(* the merged contents: sorted, and exactly the pending keys plus the stored
   keys that are not skipped (removed or overridden) *)
Definition merged_keys (db pend : list key) (skip : key -> bool) (m : list key) : Prop :=
  ksorted m /\ forall k, In k m <-> In k pend \/ (In k db /\ skip k = false).

Theorem cursor_forward_walk db pend skip m n :
  ksorted db -> ksorted pend -> (forall k, In k pend -> skip k = true) -> merged_keys db pend skip m ->
  cur_run db pend skip cur_init (CFirst :: repeat CNext n) = spec_run m None (CFirst :: repeat CNext n).
Proof.
  intros Sd Sp Hs [Sm Hm].
  assert (E : m = M kltb db pend skip).
  { apply (gsorted_unique kltb kltb_irrefl kltb_trans kltb_total); auto.
    - apply (M_sorted kltb kltb_irrefl kltb_trans kltb_total); auto.
    - intros k. rewrite Hm. unfold M. rewrite (gmerge_in kltb skip). unfold keep. rewrite filter_In.
      rewrite negb_true_iff. tauto. }
  simpl. rewrite cur_run_fwd, spec_run_fwd. rewrite choose_fwd. subst m.
  apply (gwalk_all kltb kltb_irrefl kltb_trans kltb_total db pend skip Sd Sp Hs n).
Qed.

Theorem cursor_backward_walk db pend skip m n :
  ksorted db -> ksorted pend -> (forall k, In k pend -> skip k = true) -> merged_keys db pend skip m ->
  cur_run db pend skip cur_init (CLast :: repeat CPrev n) = spec_run m None (CLast :: repeat CPrev n).
Proof.
  intros Sd Sp Hs [Sm Hm].
  assert (Hs' : forall k, In k (rev pend) -> skip k = true) by (intros k Hk; apply Hs, in_rev; auto).
  assert (E : rev m = M kgt (rev db) (rev pend) skip).
  { apply (gsorted_unique kgt kgt_irrefl kgt_trans kgt_total); auto.
    - apply rev_gsorted; auto.
    - apply (M_sorted kgt kgt_irrefl kgt_trans kgt_total); auto; apply rev_gsorted; auto.
    - intros k. rewrite <- in_rev, Hm. unfold M. rewrite (gmerge_in kgt skip). unfold keep. rewrite filter_In.
      rewrite negb_true_iff, <- !in_rev. tauto. }
  simpl. rewrite cur_run_bwd, spec_run_bwd. rewrite choose_bwd. rewrite E.
  apply (gwalk_all kgt kgt_irrefl kgt_trans kgt_total (rev db) (rev pend) skip
           (rev_gsorted _ Sd) (rev_gsorted _ Sp) Hs' n).
Qed.

(* ================================================================ nested buckets, as far as it goes
   A bucket is the prefix slice [under id (view t)] of the merged map.  Writes
   under one prefix are put/delete on that slice and leave every slice under a
   prefix that does not match the written key untouched; bucket ids of equal
   length are such prefixes, and so are the bucket-index prefixes "bidx"<id>
   for ids that do not start with 'b'. *)

Lemma get_under p (m : kvs) x : sorted m -> OMap.get (under p m) x = OMap.get m (p ++ x).
Proof.
  intros S. pose proof (under_sorted p m S) as Su.
  destruct (OMap.get m (p ++ x)) as [v|] eqn:G.
  - apply in_get; auto. apply under_in. apply get_in; auto.
  - destruct (OMap.get (under p m) x) as [v|] eqn:G'; auto.
    apply get_in in G'. apply under_in in G'. apply (in_get m) in G'; auto. congruence.
Qed.

Lemma strip_prefix_app p k : strip_prefix p (p ++ k) = Some k.
Proof. apply strip_prefix_spec. auto. Qed.

Lemma under_put_same p (m : kvs) k v : sorted m ->
  under p (OMap.put m (p ++ k) v) = OMap.put (under p m) k v.
Proof.
  intros S. apply sorted_ext.
  - apply under_sorted, put_sorted; auto.
  - apply put_sorted, under_sorted; auto.
  - intros x. rewrite get_under by (apply put_sorted; auto).
    destruct (keqb x k) eqn:E.
    + apply keqb_eq in E. subst x. rewrite !get_put_same. auto.
    + assert (N : x <> k) by (intros ->; rewrite keqb_refl in E; discriminate).
      rewrite !get_put_other; auto.
      * symmetry. apply get_under; auto.
      * intros H. apply app_inv_head in H. auto.
Qed.

Lemma under_del_same p (m : kvs) k : sorted m ->
  under p (OMap.del m (p ++ k)) = OMap.del (under p m) k.
Proof.
  intros S. apply sorted_ext.
  - apply under_sorted, del_sorted; auto.
  - apply del_sorted, under_sorted; auto.
  - intros x. rewrite get_under by (apply del_sorted; auto).
    destruct (keqb x k) eqn:E.
    + apply keqb_eq in E. subst x. rewrite !get_del_same. auto.
    + assert (N : x <> k) by (intros ->; rewrite keqb_refl in E; discriminate).
      rewrite !get_del_other; auto.
      * symmetry. apply get_under; auto.
      * intros H. apply app_inv_head in H. auto.
Qed.

Lemma under_put_other p (m : kvs) key v : sorted m -> strip_prefix p key = None ->
  under p (OMap.put m key v) = under p m.
Proof.
  intros S N. apply sorted_ext.
  - apply under_sorted, put_sorted; auto.
  - apply under_sorted; auto.
  - intros x. rewrite !get_under by (auto; apply put_sorted; auto).
    apply get_put_other. intros H. rewrite <- H, strip_prefix_app in N. discriminate.
Qed.

Lemma under_del_other p (m : kvs) key : sorted m -> strip_prefix p key = None ->
  under p (OMap.del m key) = under p m.
Proof.
  intros S N. apply sorted_ext.
  - apply under_sorted, del_sorted; auto.
  - apply under_sorted; auto.
  - intros x. rewrite !get_under by (auto; apply del_sorted; auto).
    apply get_del_other. intros H. rewrite <- H, strip_prefix_app in N. discriminate.
Qed.

(* prefixes that cannot match *)
Lemma ids_disjoint id : forall id' k, length id = length id' -> id <> id' ->
  strip_prefix id' (id ++ k) = None.
Proof.
  induction id as [|a id IH]; intros [|b id'] k L N; simpl in *; try discriminate; [congruence|].
  destruct (Z.eqb_spec b a) as [->|]; auto. apply IH; [lia|congruence].
Qed.

Lemma first_byte_disjoint a p b key : a <> b -> strip_prefix (a :: p) (b :: key) = None.
Proof. intros N. simpl. destruct (Z.eqb_spec a b); auto. contradiction. Qed.

(* Put / Delete in bucket [id]: put / delete on the bucket's own listing, no
   effect on any listing whose prefix does not match the written raw key *)
Theorem bucket_write_refines t id k v : tx_ok t -> t_w t = true ->
  bucket_keys (put_key t (bucketized id k) v) id = OMap.put (bucket_keys t id) k v /\
  bucket_keys (delete_key t (bucketized id k)) id = OMap.del (bucket_keys t id) k /\
  (forall p, strip_prefix p (bucketized id k) = None ->
     under p (view (put_key t (bucketized id k) v)) = under p (view t) /\
     under p (view (delete_key t (bucketized id k))) = under p (view t)).
Proof.
  intros T W. pose proof (view_sorted t T) as S. unfold bucket_keys, bucketized.
  rewrite view_put_key, view_delete_key by auto.
  repeat split.
  - apply under_put_same; auto.
  - apply under_del_same; auto.
  - apply under_put_other; auto.
  - apply under_del_other; auto.
Qed.

Theorem bucket_isolation id id' k a q :
  (length id = length id' -> id <> id' -> strip_prefix id' (bucketized id k) = None) /\
  (a <> 98 -> strip_prefix (bidx ++ q) (bucketized (a :: id) k) = None).
Proof.
  split.
  - apply ids_disjoint.
  - intros N. unfold bidx, bucketized. simpl app. apply first_byte_disjoint. auto.
Qed.

(* CreateBucket as an operation on listings: one new entry in the parent's
   bucket index (name -> the next id), every key listing and every other
   index listing unchanged.  (That the new id is fresh -- no key already lives
   under it -- is an invariant of whole histories and is checked by the
   correspondence, not proved here.) *)
Theorem create_bucket_refines t id n t' : tx_ok t -> b_create t id n = (t', E_OK) ->
  strip_prefix (bidx ++ id) cbid_key = None ->
  exists nid,
    bucket_subs t' id = OMap.put (bucket_subs t id) n nid /\
    fetch t' cbid_key = Some nid /\
    (forall p, strip_prefix p cbid_key = None -> strip_prefix p (bidx_key id n) = None ->
       under p (view t') = under p (view t)).
Proof.
  intros T. unfold b_create.
  destruct (t_w t) eqn:W; cbn [negb]; [|discriminate].
  destruct (is_nil n); [discriminate|].
  destruct (has_key t (bidx_key id n)); [discriminate|].
  set (nid := be32_enc (match fetch t cbid_key with Some v => be32_dec v | None => 0 end + 1)).
  intros [= <-] Hc. exists nid.
  assert (T1 : tx_ok (put_key t cbid_key nid)) by (apply put_key_ok; auto).
  assert (W1 : t_w (put_key t cbid_key nid) = true) by auto.
  pose proof (view_sorted t T) as S. pose proof (view_sorted _ T1) as S1.
  repeat split.
  - unfold bucket_subs. rewrite view_put_key by auto. unfold bidx_key. rewrite app_assoc.
    rewrite under_put_same by auto. rewrite view_put_key by auto.
    rewrite under_put_other by auto. auto.
  - rewrite read_through_layers by (apply put_key_ok; auto).
    rewrite view_put_key by auto. rewrite get_put_other.
    + rewrite view_put_key by auto. apply get_put_same.
    + intros H. unfold bidx_key in H. rewrite H, app_assoc, strip_prefix_app in Hc. discriminate.
  - intros p H1 H2. rewrite view_put_key by auto. rewrite under_put_other by auto.
    rewrite view_put_key by auto. apply under_put_other; auto.
Qed.

(* ================================================================ freshness of bucket ids
   over whole histories: every id recorded in the bucket index is at most the
   id counter, keys live only under ids up to the counter, index values are
   pairwise distinct; CreateBucket allocates counter+1, so the new id's prefix
   is unused. *)

Definition ctr (m : kvs) : Z := match OMap.get m cbid_key with Some v => be32_dec v | None => 0 end.
Definition is_index (k : key) : bool :=
  match strip_prefix bidx k with Some _ => negb (keqb k cbid_key) | None => false end.
Definition key_id (k : key) : Z := be32_dec (firstn 4 k).
Definition id_bound : Z := 754974720.   (* 45 * 2^24: below the id spelled "-cbi" and below 'b' *)

Definition live (m : kvs) (id : key) : Prop :=
  length id = 4%nat /\ 0 <= be32_dec id <= ctr m /\ nth 0 id 0 <> 98.

Definition fresh (m : kvs) : Prop :=
  0 <= ctr m < id_bound /\
  (forall k v, In (k, v) m -> is_index k = true ->
     live m (to_id v) /\ v = to_id v /\ key_id (skipn 4 k) <= ctr m) /\
  (forall k v, In (k, v) m -> strip_prefix bidx k = None ->
     (4 <= length k)%nat /\ 0 <= key_id k <= ctr m) /\
  (forall k1 v1 k2 v2, In (k1, v1) m -> In (k2, v2) m -> is_index k1 = true -> is_index k2 = true ->
     v1 = v2 -> k1 = k2).

Lemma in_put (m : kvs) k v k' v' : In (k', v') (OMap.put m k v) -> (k' = k /\ v' = v) \/ In (k', v') m.
Proof.
  induction m as [|[k1 v1] m IH]; simpl.
  - intros [[= -> ->]|[]]; auto.
  - destruct (kcmp k k1); simpl.
    + intros [[= -> ->]|H]; auto.
    + intros [[= -> ->]|H]; auto.
    + intros [H|H]; auto. destruct (IH H); auto.
Qed.

Lemma in_del (m : kvs) k k' v' : In (k', v') (OMap.del m k) -> In (k', v') m.
Proof.
  induction m as [|[k1 v1] m IH]; simpl; auto.
  destruct (keqb k k1); simpl; [auto|intros [H|H]; auto].
Qed.

Lemma be32_roundtrip n : 0 <= n < 4294967296 -> be32_dec (be32_enc n) = n.
Proof.
  intros H. unfold be32_enc, be32_dec. rewrite (Z.mod_small n) by lia.
  pose proof (Z.div_mod n 16777216). pose proof (Z.div_mod n 65536). pose proof (Z.div_mod n 256).
  pose proof (Z.div_mod (n / 65536) 256). pose proof (Z.div_mod (n / 256) 256).
  assert (n / 65536 / 256 = n / 16777216) by (rewrite Z.div_div by lia; reflexivity).
  assert (n / 256 / 256 = n / 65536) by (rewrite Z.div_div by lia; reflexivity).
  pose proof (Z.mod_pos_bound n 256). pose proof (Z.mod_pos_bound (n / 256) 256).
  pose proof (Z.mod_pos_bound (n / 65536) 256). lia.
Qed.

Lemma enc_shape n : to_id (be32_enc n) = be32_enc n /\ length (be32_enc n) = 4%nat.
Proof. unfold be32_enc, to_id. simpl. auto. Qed.

Lemma enc_first n : 0 <= n < id_bound -> nth 0 (be32_enc n) 0 <> 98.
Proof.
  intros H. unfold be32_enc, id_bound in *. simpl. rewrite (Z.mod_small n) by lia.
  assert (n / 16777216 < 45) by (apply Z.div_lt_upper_bound; lia). lia.
Qed.

Lemma strip_bidx_first k : nth 0 k 0 <> 98 -> strip_prefix bidx k = None.
Proof.
  unfold bidx. destruct k as [|a k]; [reflexivity|]. cbn [strip_prefix nth]. intros H.
  destruct (Z.eqb_spec 98 a) as [E|E]; [exfalso; apply H; auto|reflexivity].
Qed.

Lemma key_id_app id x : length id = 4%nat -> key_id (id ++ x) = be32_dec id.
Proof.
  intros L. unfold key_id. do 5 (destruct id as [|? id]; simpl in L; try discriminate). reflexivity.
Qed.

Lemma ctr_put_other (m : kvs) k v : k <> cbid_key -> ctr (OMap.put m k v) = ctr m.
Proof. intros N. unfold ctr. rewrite get_put_other; auto. Qed.

Lemma live_mono m m' id : ctr m <= ctr m' -> live m id -> live m' id.
Proof. unfold live. intros H (A & B & C). repeat split; auto; lia. Qed.

(* Put under a live bucket id keeps the invariant *)
Lemma fresh_put m id k v : fresh m -> live m id -> fresh (OMap.put m (id ++ k) v).
Proof.
  intros (C0 & I1 & I2 & I3) (L & B & F).
  assert (NB : strip_prefix bidx (id ++ k) = None).
  { apply strip_bidx_first. destruct id; simpl in *; [discriminate|auto]. }
  assert (NC : id ++ k <> cbid_key).
  { intros E. rewrite E in NB. vm_compute in NB. discriminate. }
  assert (NI : is_index (id ++ k) = false) by (unfold is_index; rewrite NB; auto).
  assert (EC : ctr (OMap.put m (id ++ k) v) = ctr m) by (apply ctr_put_other; auto).
  unfold fresh. rewrite EC. split; auto. split; [|split].
  - intros k' v' H Hi. apply in_put in H. destruct H as [[-> ->]|H]; [congruence|].
    destruct (I1 _ _ H Hi) as (Lv & Ev & Pv).
    split; [eapply live_mono; [|exact Lv]; rewrite EC; lia|split; auto].
  - intros k' v' H Hn. apply in_put in H. destruct H as [[-> ->]|H]; [|eauto].
    rewrite key_id_app by auto. rewrite app_length. split; lia.
  - intros k1 v1 k2 v2 H1 H2 X1 X2 E. apply in_put in H1. apply in_put in H2.
    destruct H1 as [[-> ->]|H1]; [congruence|]. destruct H2 as [[-> ->]|H2]; [congruence|]. eauto.
Qed.

(* Deleting anything but the counter keeps it *)
Lemma fresh_del m k : fresh m -> k <> cbid_key -> fresh (OMap.del m k).
Proof.
  intros (C0 & I1 & I2 & I3) N.
  assert (EC : ctr (OMap.del m k) = ctr m) by (unfold ctr; rewrite get_del_other; auto).
  unfold fresh. rewrite EC. split; auto. split; [|split].
  - intros k' v' H Hi. apply in_del in H. destruct (I1 _ _ H Hi) as (Lv & Ev & Pv).
    split; [eapply live_mono; [|exact Lv]; rewrite EC; lia|split; auto].
  - intros k' v' H Hn. apply in_del in H. eauto.
  - intros k1 v1 k2 v2 H1 H2. apply in_del in H1. apply in_del in H2. eauto.
Qed.

(* CreateBucket at the level of the merged map *)
Definition create_map (m : kvs) (id n : key) : kvs :=
  let nid := be32_enc (ctr m + 1) in OMap.put (OMap.put m cbid_key nid) (bidx_key id n) nid.

Lemma bidx_key_ne_cbid id n : length id = 4%nat -> be32_dec id < id_bound -> bidx_key id n <> cbid_key.
Proof.
  intros L B E. do 5 (destruct id as [|? id]; simpl in L; try discriminate).
  unfold bidx_key, cbid_key, bidx in E. simpl in E. injection E as -> -> -> -> _.
  vm_compute in B. discriminate.
Qed.

Lemma is_index_bidx_key id n : length id = 4%nat -> be32_dec id < id_bound ->
  is_index (bidx_key id n) = true.
Proof.
  intros L B. unfold is_index. unfold bidx_key at 1. rewrite strip_prefix_app.
  destruct (keqb (bidx_key id n) cbid_key) eqn:E; auto.
  apply keqb_eq in E. exfalso. revert E. apply bidx_key_ne_cbid; auto.
Qed.

Lemma is_index_cbid : is_index cbid_key = false.
Proof. reflexivity. Qed.

Lemma ctr_create m id n : length id = 4%nat -> be32_dec id < id_bound -> 0 <= ctr m + 1 < 4294967296 ->
  ctr (create_map m id n) = ctr m + 1.
Proof.
  intros L B R. unfold create_map. rewrite ctr_put_other by (apply bidx_key_ne_cbid; auto).
  unfold ctr at 1. rewrite get_put_same. apply be32_roundtrip; auto.
Qed.

(* CreateBucket keeps the invariant ... *)
Lemma fresh_create m id n : fresh m -> live m id -> ctr m + 1 < id_bound -> fresh (create_map m id n).
Proof.
  intros (C0 & I1 & I2 & I3) (L & B & F) Bd.
  assert (Bi : be32_dec id < id_bound) by lia.
  assert (R : 0 <= ctr m + 1 < 4294967296) by (unfold id_bound in Bd; lia).
  pose proof (ctr_create m id n L Bi R) as EC.
  set (nid := be32_enc (ctr m + 1)) in *.
  destruct (enc_shape (ctr m + 1)) as [Tn Ln]. fold nid in Tn, Ln.
  assert (Dn : be32_dec nid = ctr m + 1) by (apply be32_roundtrip; auto).
  assert (Fn : nth 0 nid 0 <> 98) by (apply enc_first; lia).
  assert (Mem : forall k v, In (k, v) (create_map m id n) ->
            (k = bidx_key id n /\ v = nid) \/ (k = cbid_key /\ v = nid) \/ In (k, v) m).
  { intros k v H. unfold create_map in H. fold nid in H. apply in_put in H. destruct H as [H|H]; auto.
    apply in_put in H. tauto. }
  unfold fresh. rewrite EC. split; [lia|]. split; [|split].
  - intros k v H Hi. destruct (Mem _ _ H) as [[-> ->]|[[-> ->]|H']].
    + rewrite Tn. split; [|split]; auto.
      * unfold live. rewrite EC. repeat split; auto; lia.
      * assert (SK : forall y : key, skipn 4 (bidx ++ y) = y) by reflexivity.
        unfold bidx_key. rewrite SK, key_id_app by auto. lia.
    + rewrite is_index_cbid in Hi. discriminate.
    + destruct (I1 _ _ H' Hi) as (Lv & Ev & Pv). split; [|split]; auto; [|lia].
      eapply live_mono; eauto. lia.
  - intros k v H Hn. destruct (Mem _ _ H) as [[-> ->]|[[-> ->]|H']].
    + unfold bidx_key in Hn. rewrite strip_prefix_app in Hn. discriminate.
    + vm_compute in Hn. discriminate.
    + destruct (I2 _ _ H' Hn). split; auto. lia.
  - intros k1 v1 k2 v2 H1 H2 X1 X2 E.
    assert (Old : forall k v, In (k, v) m -> is_index k = true -> v <> nid).
    { intros k v H Hi ->. destruct (I1 _ _ H Hi) as [(_ & Bv & _) _]. rewrite Tn, Dn in Bv. lia. }
    destruct (Mem _ _ H1) as [[-> ->]|[[-> ->]|H1']]; destruct (Mem _ _ H2) as [[-> ->]|[[-> ->]|H2']];
      auto; try (rewrite is_index_cbid in *; discriminate).
    + exfalso. apply (Old _ _ H2' X2). auto.
    + exfalso. apply (Old _ _ H1' X1). auto.
    + eauto.
Qed.

(* ... and the id it allocates was not in use: no index entry points to it and
   no key lives under its prefix *)
Lemma create_id_unused m : fresh m -> ctr m + 1 < id_bound ->
  let nid := be32_enc (ctr m + 1) in
  (forall k v, In (k, v) m -> is_index k = true -> to_id v <> nid) /\
  under nid m = [] /\ under (bidx ++ nid) m = [].
Proof.
  intros (C0 & I1 & I2 & I3) Bd nid.
  assert (R : 0 <= ctr m + 1 < 4294967296) by (unfold id_bound in Bd; lia).
  destruct (enc_shape (ctr m + 1)) as [Tn Ln]. fold nid in Tn, Ln.
  assert (Dn : be32_dec nid = ctr m + 1) by (apply be32_roundtrip; auto).
  assert (Fn : nth 0 nid 0 <> 98) by (apply enc_first; lia).
  assert (E0 : forall p, (forall x v, In (p ++ x, v) m -> False) -> under p m = []).
  { intros p H. destruct (under p m) as [|[x v] r] eqn:E; auto. exfalso.
    apply (H x v). apply under_in. rewrite E. left. auto. }
  repeat split.
  - intros k v H Hi E. destruct (I1 _ _ H Hi) as [(_ & Bv & _) _]. rewrite E, Dn in Bv. lia.
  - apply E0. intros x v H.
    assert (Hn : strip_prefix bidx (nid ++ x) = None).
    { apply strip_bidx_first. destruct nid; simpl in *; [discriminate|auto]. }
    destruct (I2 _ _ H Hn) as [_ Bk]. rewrite key_id_app, Dn in Bk by auto. lia.
  - apply E0. intros x v H.
    assert (Hi : is_index ((bidx ++ nid) ++ x) = true).
    { rewrite <- app_assoc. apply (is_index_bidx_key nid x); auto. lia. }
    destruct (I1 _ _ H Hi) as (_ & _ & Pv).
    assert (SK : forall y : key, skipn 4 (bidx ++ y) = y) by reflexivity.
    rewrite <- app_assoc, SK in Pv. rewrite key_id_app, Dn in Pv by auto. lia.
Qed.

(* ---------------------------------------------------------------- transactions and histories *)

Lemma meta_live m : fresh m -> live m meta_id.
Proof. intros (C0 & _). unfold live, meta_id. simpl. repeat split; auto; lia. Qed.

Lemma ctr_fetch t : tx_ok t ->
  match fetch t cbid_key with Some v => be32_dec v | None => 0 end = ctr (view t).
Proof. intros T. unfold ctr. rewrite read_through_layers by auto. auto. Qed.

Lemma view_b_create t id n t' : tx_ok t -> b_create t id n = (t', E_OK) ->
  t_w t = true /\ tx_ok t' /\ view t' = create_map (view t) id n.
Proof.
  intros T. unfold b_create.
  destruct (t_w t) eqn:W; cbn [negb]; [|discriminate].
  destruct (is_nil n); [discriminate|].
  destruct (has_key t (bidx_key id n)); [discriminate|].
  rewrite (ctr_fetch t T). intros [= <-].
  assert (T1 : tx_ok (put_key t cbid_key (be32_enc (ctr (view t) + 1)))) by (apply put_key_ok; auto).
  split; [auto|split].
  - apply put_key_ok; auto.
  - unfold create_map. rewrite !view_put_key by auto. auto.
Qed.

Lemma resolve_live path : forall t id, tx_ok t -> fresh (view t) -> live (view t) id ->
  forall id', resolve t id path = Some id' -> live (view t) id'.
Proof.
  induction path as [|n path IH]; intros t id T Fr L id'; simpl.
  - intros [= <-]. auto.
  - destruct (fetch t (bidx_key id n)) as [v|] eqn:Fe; [|discriminate].
    apply IH; auto.
    rewrite read_through_layers in Fe by auto. apply get_in in Fe.
    destruct Fr as (C0 & I1 & _). destruct L as (Ll & Bl & _).
    apply (I1 _ _ Fe). apply is_index_bidx_key; auto. lia.
Qed.

(* bucket operations addressed by path from the root bucket *)
Inductive bop :=
| BPut (p : list key) (k : key) (v : val)
| BDel (p : list key) (k : key)
| BCreate (p : list key) (n : key).

Definition bstep (t : txn) (o : bop) : txn :=
  match o with
  | BPut p k v => match resolve t meta_id p with Some id => fst (b_put t id k v) | None => t end
  | BDel p k => match resolve t meta_id p with Some id => fst (b_delete t id k) | None => t end
  | BCreate p n =>
    match resolve t meta_id p with
    | Some id => if ctr (view t) + 1 <? id_bound then fst (b_create t id n) else t
    | None => t
    end
  end.

Lemma bstep_fresh t o : tx_ok t -> fresh (view t) -> tx_ok (bstep t o) /\ fresh (view (bstep t o)).
Proof.
  intros T Fr. pose proof (meta_live _ Fr) as ML.
  destruct o as [p k v|p k|p n]; simpl.
  - destruct (resolve t meta_id p) as [id|] eqn:R; auto.
    pose proof (resolve_live p t meta_id T Fr ML id R) as L.
    unfold b_put. destruct (t_w t) eqn:W; simpl; auto. destruct (is_nil k); simpl; auto.
    split; [apply put_key_ok; auto|]. unfold bucketized. rewrite view_put_key by auto. apply fresh_put; auto.
  - destruct (resolve t meta_id p) as [id|] eqn:R; auto.
    pose proof (resolve_live p t meta_id T Fr ML id R) as L.
    unfold b_delete. destruct (t_w t) eqn:W; simpl; auto. destruct (is_nil k); simpl; auto.
    split; [apply delete_key_ok; auto|]. unfold bucketized. rewrite view_delete_key by auto.
    apply fresh_del; auto. intros E.
    assert (NB : strip_prefix bidx (id ++ k) = None).
    { apply strip_bidx_first. destruct L as (Ll & _ & F). destruct id; simpl in *; [discriminate|auto]. }
    rewrite E in NB. vm_compute in NB. discriminate.
  - destruct (resolve t meta_id p) as [id|] eqn:R; auto.
    pose proof (resolve_live p t meta_id T Fr ML id R) as L.
    destruct (Z.ltb_spec (ctr (view t) + 1) id_bound) as [Bd|]; auto.
    destruct (b_create t id n) as [t' c] eqn:E. simpl.
    destruct (Z.eq_dec c E_OK) as [->|N].
    + destruct (view_b_create t id n t' T E) as (W & T' & V). split; auto. rewrite V. apply fresh_create; auto.
    + assert (t' = t); [|subst; auto].
      revert E. unfold b_create. destruct (negb (t_w t)); [intros [= <- _]; auto|].
      destruct (is_nil n); [intros [= <- _]; auto|].
      destruct (has_key t (bidx_key id n)); [intros [= <- _]; auto|].
      intros [= _ <-]. exfalso. apply N. reflexivity.
Qed.

Theorem fresh_history ops : forall t, tx_ok t -> fresh (view t) ->
  tx_ok (fold_left bstep ops t) /\ fresh (view (fold_left bstep ops t)).
Proof.
  induction ops as [|o ops IH]; intros t T Fr; simpl; auto.
  destruct (bstep_fresh t o T Fr). apply IH; auto.
Qed.

(* CreateBucket never reuses a live prefix, at any point of any history *)
Theorem create_never_reuses ops t0 id n t' :
  tx_ok t0 -> fresh (view t0) ->
  let t := fold_left bstep ops t0 in
  live (view t) id -> ctr (view t) + 1 < id_bound -> b_create t id n = (t', E_OK) ->
  let nid := be32_enc (ctr (view t) + 1) in
  bucket_subs t' id = OMap.put (bucket_subs t id) n nid /\
  bucket_keys t nid = [] /\ bucket_subs t nid = [] /\
  (forall k v, In (k, v) (view t) -> is_index k = true -> to_id v <> nid) /\
  fresh (view t').
Proof.
  intros T0 F0 t L Bd E nid.
  destruct (fresh_history ops t0 T0 F0) as [T Fr]. fold t in T, Fr.
  destruct (view_b_create t id n t' T E) as (W & T' & V).
  destruct (create_id_unused (view t) Fr Bd) as (U1 & U2 & U3).
  assert (S5 : fresh (view t')) by (rewrite V; apply fresh_create; auto).
  assert (S1 : bucket_subs t' id = OMap.put (bucket_subs t id) n nid).
  { unfold bucket_subs. rewrite V. unfold create_map. fold nid.
    destruct L as (Ll & Bl & Fl). destruct Fr as (C0 & _).
    unfold bidx_key. rewrite app_assoc. rewrite under_put_same.
    + rewrite under_put_other; auto. { apply view_sorted; auto. }
      destruct (strip_prefix (bidx ++ id) cbid_key) as [x|] eqn:S; auto. exfalso.
      apply strip_prefix_spec in S. rewrite <- app_assoc in S.
      apply (bidx_key_ne_cbid id x); auto. lia.
    + apply put_sorted, view_sorted; auto. }
  exact (conj S1 (conj U2 (conj U3 (conj U1 S5)))).
Qed.

(* ================================================================ DeleteBucket of a bucket without nested buckets *)

Definition prefixed (cid : key) (l : kvs) : kvs := map (fun e => (cid ++ fst e, snd e)) l.

Lemma view_fold_delete cid l : forall t, tx_ok t -> t_w t = true ->
  let t' := fold_left (fun t e => delete_key t (bucketized cid (fst e))) l t in
  tx_ok t' /\ t_w t' = true /\ view t' = del_all (view t) (prefixed cid l).
Proof.
  induction l as [|e l IH]; intros t T W; cbn [fold_left]; [cbv zeta; auto|].
  destruct (IH (delete_key t (bucketized cid (fst e))) (delete_key_ok _ _ T) W) as (A & B & C).
  cbv zeta. split; [auto|split; [auto|]]. rewrite C. rewrite view_delete_key by auto. reflexivity.
Qed.

Lemma under_del_all_other p l : forall m : kvs, sorted m ->
  (forall e, In e l -> strip_prefix p (fst e) = None) -> under p (del_all m l) = under p m.
Proof.
  unfold del_all. induction l as [|e l IH]; intros m S H; simpl; auto.
  rewrite IH; auto.
  - apply under_del_other; auto. apply H. left; auto.
  - apply del_sorted; auto.
  - intros x Hx. apply H. right; auto.
Qed.

Lemma has_prefixed cid (l : kvs) x : OMap.has (prefixed cid l) (cid ++ x) = OMap.has l x.
Proof.
  unfold OMap.has. induction l as [|[k v] l IH]; simpl; auto.
  assert (E : keqb (cid ++ x) (cid ++ k) = keqb x k).
  { unfold keqb. rewrite kcmp_prefix. auto. }
  rewrite E. destruct (keqb x k); auto.
Qed.

Theorem delete_childless_bucket t id n v t' : tx_ok t -> t_w t = true ->
  fetch t (bidx_key id n) = Some v ->
  let cid := to_id v in
  nth 0 cid 0 <> 98 -> bucket_subs t cid = [] ->
  b_delete_bucket t id n = (t', E_OK) ->
  view t' = OMap.del (del_all (view t) (prefixed cid (bucket_keys t cid))) (bidx_key id n) /\
  bucket_keys t' cid = [] /\ fetch t' (bidx_key id n) = None /\
  (forall p, (forall x, strip_prefix p (cid ++ x) = None) -> strip_prefix p (bidx_key id n) = None ->
     under p (view t') = under p (view t)).
Proof.
  intros T W Fe cid Fc Ch. unfold b_delete_bucket. rewrite W, Fe. cbn [negb]. fold cid.
  pose proof (view_sorted t T) as Sv.
  destruct (view_fold_delete cid (bucket_keys t cid) t T W) as (Ta & Wa & Va).
  set (ta := fold_left (fun t e => delete_key t (bucketized cid (fst e))) (bucket_keys t cid) t) in *.
  assert (Sub : bucket_subs ta cid = []).
  { unfold bucket_subs. rewrite Va. rewrite under_del_all_other; auto.
    intros e He. unfold prefixed in He. apply in_map_iff in He. destruct He as (e0 & <- & _). simpl.
    assert (Lc : length cid = 4%nat).
    { unfold cid, to_id. rewrite firstn_length, app_length. apply Nat.min_l. simpl. lia. }
    destruct cid as [|a c]; [discriminate|]. cbn [nth] in Fc.
    apply (first_byte_disjoint 98 ([105; 100; 120] ++ a :: c) a (c ++ fst e0)). intros E. apply Fc. auto. }
  assert (Rec : delete_rec (S (length (view t))) t [cid] = ta).
  { cbn [delete_rec]. fold ta. rewrite Sub. simpl. destruct (length (view t)); reflexivity. }
  rewrite Rec. intros [= <-].
  assert (Sd : sorted (del_all (view t) (prefixed cid (bucket_keys t cid)))) by (apply sorted_del_all; auto).
  assert (V' : view (delete_key ta (bidx_key id n)) =
               OMap.del (del_all (view t) (prefixed cid (bucket_keys t cid))) (bidx_key id n)).
  { rewrite view_delete_key by auto. rewrite Va. auto. }
  split; [exact V'|]. split; [|split].
  - unfold bucket_keys at 1. rewrite V'.
    destruct (under cid (OMap.del (del_all (view t) (prefixed cid (bucket_keys t cid))) (bidx_key id n)))
      as [|[x vx] r] eqn:E; auto. exfalso.
    assert (Hin : In (x, vx) (under cid (OMap.del (del_all (view t) (prefixed cid (bucket_keys t cid))) (bidx_key id n))))
      by (rewrite E; left; auto).
    apply under_in in Hin. apply in_del in Hin.
    apply (in_get _ _ _ Sd) in Hin. rewrite get_del_all in Hin. rewrite has_prefixed in Hin.
    destruct (OMap.has (bucket_keys t cid) x) eqn:Hh; [discriminate|].
    unfold OMap.has in Hh. unfold bucket_keys in Hh. rewrite get_under in Hh by auto.
    rewrite Hin in Hh. discriminate.
  - rewrite read_through_layers by (apply delete_key_ok; auto). rewrite V'. apply get_del_same.
  - intros p Hp Hb. rewrite V'. rewrite under_del_other by auto.
    apply under_del_all_other; auto.
    intros e He. unfold prefixed in He. apply in_map_iff in He. destruct He as (e0 & <- & _). simpl. apply Hp.
Qed.
