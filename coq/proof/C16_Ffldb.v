(* C16 — lemmas about the layered model of ffldb: reading through the layers
   is reading the merged map; commit, rollback and flush in terms of the
   merged map; refinement of the single-map specification for all admissible
   histories and all flush schedules. *)
From Coq Require Import ZArith List Bool Lia.
From ELA Require Import lib.OMap model.C16_Ffldb.
Import ListNotations.
Local Open Scope Z_scope.

Notation sorted := (@OMap.sorted val).

(* ---------------------------------------------------------------- folds *)

Lemma has_cons (k k' : key) (v : val) (l : kvs) :
  OMap.has ((k', v) :: l) k = keqb k k' || OMap.has l k.
Proof. unfold OMap.has. simpl. destruct (keqb k k'); auto. Qed.

Lemma get_put_all l : forall m k, sorted l ->
  OMap.get (put_all m l) k = match OMap.get l k with Some v => Some v | None => OMap.get m k end.
Proof.
  unfold put_all. induction l as [|[k1 v1] l IH]; intros m k S; simpl; auto.
  destruct S as [L S]. rewrite IH by auto. simpl.
  destruct (keqb k k1) eqn:E.
  - apply keqb_eq in E. subst k1. rewrite get_none_lb by auto. apply get_put_same.
  - destruct (OMap.get l k); auto. apply get_put_other. intros ->. rewrite keqb_refl in E. discriminate.
Qed.

Lemma get_del_all l : forall m k,
  OMap.get (del_all m l) k = if OMap.has l k then None else OMap.get m k.
Proof.
  unfold del_all. induction l as [|[k1 v1] l IH]; intros m k; simpl; auto.
  rewrite IH. rewrite has_cons. simpl.
  destruct (keqb k k1) eqn:E; simpl.
  - apply keqb_eq in E. subst k1. rewrite get_del_same. destruct (OMap.has l k); auto.
  - destruct (OMap.has l k); auto. apply get_del_other. intros ->. rewrite keqb_refl in E. discriminate.
Qed.

Lemma get_mark_all l : forall m k, sorted l ->
  OMap.get (mark_all m l) k = if OMap.has l k then Some [] else OMap.get m k.
Proof.
  unfold mark_all. induction l as [|[k1 v1] l IH]; intros m k S; simpl; auto.
  destruct S as [L S]. rewrite IH by auto. rewrite has_cons. simpl.
  destruct (keqb k k1) eqn:E; simpl.
  - apply keqb_eq in E. subst k1. unfold OMap.has. rewrite get_none_lb by auto. apply get_put_same.
  - destruct (OMap.has l k); auto. apply get_put_other. intros ->. rewrite keqb_refl in E. discriminate.
Qed.

Lemma sorted_put_all l : forall m, sorted m -> sorted (put_all m l).
Proof. unfold put_all. induction l as [|[k1 v1] l IH]; intros m S; simpl; auto. apply IH. apply put_sorted; auto. Qed.
Lemma sorted_del_all l : forall m, sorted m -> sorted (del_all m l).
Proof. unfold del_all. induction l as [|[k1 v1] l IH]; intros m S; simpl; auto. apply IH. apply del_sorted; auto. Qed.
Lemma sorted_mark_all l : forall m, sorted m -> sorted (mark_all m l).
Proof. unfold mark_all. induction l as [|[k1 v1] l IH]; intros m S; simpl; auto. apply IH. apply put_sorted; auto. Qed.

Lemma sorted_apply_layer base keys rem : sorted base -> sorted (apply_layer base keys rem).
Proof. intros. unfold apply_layer. apply sorted_del_all, sorted_put_all; auto. Qed.

Lemma get_apply_layer base keys rem k : sorted keys ->
  OMap.get (apply_layer base keys rem) k =
  if OMap.has rem k then None
  else match OMap.get keys k with Some v => Some v | None => OMap.get base k end.
Proof. intros S. unfold apply_layer. rewrite get_del_all, get_put_all by auto. auto. Qed.

(* ---------------------------------------------------------------- invariants *)

Definition tx_ok (t : txn) : Prop :=
  sorted (t_store t) /\ sorted (t_ck t) /\ sorted (t_cr t) /\ sorted (t_pk t) /\ sorted (t_pr t).
Definition db_ok (d : dbs) : Prop := sorted (d_store d) /\ sorted (d_ck d) /\ sorted (d_cr d).

Lemma begin_ok d w : db_ok d -> tx_ok (begin d w).
Proof. intros (A & B & C). unfold tx_ok, begin; simpl. repeat split; auto. Qed.
Lemma put_key_ok t k v : tx_ok t -> tx_ok (put_key t k v).
Proof. intros (A & B & C & D & E). unfold tx_ok; simpl. repeat split; auto using put_sorted, del_sorted. Qed.
Lemma delete_key_ok t k : tx_ok t -> tx_ok (delete_key t k).
Proof. intros (A & B & C & D & E). unfold tx_ok; simpl. repeat split; auto using put_sorted, del_sorted. Qed.

Lemma flush_ok d : db_ok d -> db_ok (flush d).
Proof. intros (A & B & C). unfold db_ok, flush; simpl. repeat split; auto. apply sorted_apply_layer; auto. Qed.
Lemma merge_cache_ok d t : db_ok d -> db_ok (merge_cache d t).
Proof.
  intros (A & B & C). unfold db_ok, merge_cache; simpl. repeat split; auto.
  - apply sorted_del_all, sorted_put_all; auto.
  - apply sorted_mark_all, sorted_del_all; auto.
Qed.
Lemma commit_ok fl d t : db_ok d -> db_ok (commit_with fl d t).
Proof.
  intros H. unfold commit_with. destruct fl; [|apply merge_cache_ok; auto].
  destruct (flush_ok d H) as (A & B & C). unfold db_ok; simpl. repeat split; auto.
  apply sorted_apply_layer; auto.
Qed.

Lemma view_sorted t : tx_ok t -> sorted (view t).
Proof.
  intros (A & B & C & D & E). unfold view, snap_view.
  destruct (t_w t); repeat apply sorted_apply_layer; auto.
Qed.
Lemma db_view_sorted d : db_ok d -> sorted (db_view d).
Proof. intros (A & B & C). apply sorted_apply_layer; auto. Qed.

(* ---------------------------------------------------------------- reading through the layers *)

Lemma snap_get_view st ck cr k : sorted ck ->
  snap_get st ck cr k = OMap.get (snap_view st ck cr) k.
Proof. intros S. unfold snap_get, snap_view. rewrite get_apply_layer by auto. auto. Qed.

Lemma read_through_layers t k : tx_ok t -> fetch t k = OMap.get (view t) k.
Proof.
  intros (A & B & C & D & E). unfold fetch, view. destruct (t_w t).
  - rewrite get_apply_layer by auto. rewrite snap_get_view by auto. auto.
  - apply snap_get_view; auto.
Qed.

(* a write in the transaction is a write on the merged map *)
Lemma view_put_key t k v : tx_ok t -> t_w t = true ->
  view (put_key t k v) = OMap.put (view t) k v.
Proof.
  intros T W. apply sorted_ext.
  - apply view_sorted, put_key_ok; auto.
  - apply put_sorted, view_sorted; auto.
  - intros k'. rewrite <- read_through_layers by (apply put_key_ok; auto).
    unfold fetch. simpl. rewrite W.
    destruct (keqb k' k) eqn:E.
    + apply keqb_eq in E. subst k'. unfold OMap.has. rewrite get_del_same, !get_put_same. auto.
    + assert (N : k' <> k) by (intros ->; rewrite keqb_refl in E; discriminate).
      unfold OMap.has. rewrite get_del_other, !get_put_other by auto.
      rewrite <- read_through_layers by auto. unfold fetch. rewrite W. auto.
Qed.

Lemma view_delete_key t k : tx_ok t -> t_w t = true ->
  view (delete_key t k) = OMap.del (view t) k.
Proof.
  intros T W. apply sorted_ext.
  - apply view_sorted, delete_key_ok; auto.
  - apply del_sorted, view_sorted; auto.
  - intros k'. rewrite <- read_through_layers by (apply delete_key_ok; auto).
    unfold fetch. simpl. rewrite W.
    destruct (keqb k' k) eqn:E.
    + apply keqb_eq in E. subst k'. unfold OMap.has. rewrite get_put_same, get_del_same. auto.
    + assert (N : k' <> k) by (intros ->; rewrite keqb_refl in E; discriminate).
      unfold OMap.has. rewrite get_put_other, !get_del_other by auto.
      rewrite <- read_through_layers by auto. unfold fetch. rewrite W. auto.
Qed.

Lemma view_begin d w : view (begin d w) = db_view d.
Proof. unfold view, begin, db_view; simpl. destruct w; reflexivity. Qed.

(* ---------------------------------------------------------------- commit, flush *)

Definition snapshot_current (d : dbs) (t : txn) : Prop :=
  t_store t = d_store d /\ t_ck t = d_ck d /\ t_cr t = d_cr d.

Lemma flush_invisible d : db_view (flush d) = db_view d.
Proof. reflexivity. Qed.

Lemma commit_refines fl d t : db_ok d -> tx_ok t -> t_w t = true -> snapshot_current d t ->
  db_view (commit_with fl d t) = view t.
Proof.
  intros D T W (E1 & E2 & E3). unfold commit_with. destruct fl.
  - unfold db_view, view, snap_view, flush. simpl. rewrite W, E1, E2, E3. reflexivity.
  - assert (D' := merge_cache_ok d t D).
    apply sorted_ext; [apply db_view_sorted; auto|apply view_sorted; auto|].
    intros k. destruct D as (Ds & Dk & Dr). destruct T as (Ts & Tk & Tr & Tpk & Tpr).
    unfold db_view, view, snap_view, merge_cache. simpl. rewrite W, E1, E2, E3.
    rewrite !get_apply_layer; auto; [|apply sorted_del_all, sorted_put_all; auto].
    unfold OMap.has at 1. rewrite get_mark_all by auto.
    rewrite (get_del_all (t_pk t) (d_cr d) k).
    rewrite (get_del_all (t_pr t) (put_all (d_ck d) (t_pk t)) k).
    rewrite get_put_all by auto.
    destruct (OMap.has (t_pr t) k); auto.
    unfold OMap.has.
    destruct (OMap.get (t_pk t) k); auto.
Qed.
