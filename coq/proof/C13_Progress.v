(* C13 — progress of the transaction-index part of connect/disconnect: after
   SaveBlock's TxIndex.ConnectBlock, TxIndex.DisconnectBlock of the same block
   cannot fail ("no entry for the transaction") when the block's transaction
   ids are distinct.  Proofs only; the model is model/Ledger.v. *)
From Coq Require Import List NArith Bool.
From ELA Require Import model.Ledger proof.Ledger_unspent proof.C13_Ledger.
Import ListNotations.
Local Open Scope N_scope.

Definition txidx_dis_fold (txs : list tx) (r : res (N -> option (N * tx))) : res (N -> option (N * tx)) :=
  fold_left (fun r x => bind r (fun m : N -> option (N * tx) =>
     match m (t_id x) with None => Err | Some _ => Ok (upd m (t_id x) None) end)) txs r.

Lemma txidx_dis_fold_ok txs : forall (m : N -> option (N * tx)),
  NoDup (ids txs) -> (forall t, In t (ids txs) -> m t <> None) ->
  exists m', txidx_dis_fold txs (Ok m) = Ok m'.
Proof.
  induction txs as [|x r IH]; intros m Hnd Hall; simpl.
  - eexists; reflexivity.
  - simpl in Hnd. inversion Hnd as [|? ? Hnotin Hnd']; subst.
    destruct (m (t_id x)) as [p|] eqn:E.
    + apply IH; [exact Hnd'|]. intros t Ht. unfold upd.
      destruct (N.eqb_spec t (t_id x)) as [->|Hne].
      * exfalso; exact (Hnotin Ht).
      * apply Hall. right; exact Ht.
    + exfalso. apply (Hall (t_id x)); [left; reflexivity | exact E].
Qed.

Lemma txidx_connect_some txs (h : N) : forall (m : N -> option (N * tx)) t, In t (ids txs) ->
  fold_left (fun m x => upd m (t_id x) (Some (h, x))) txs m t <> None.
Proof.
  induction txs as [|x r IH]; intros m t Hin; simpl in *; [contradiction|].
  destruct (in_dec N.eq_dec t (ids r)) as [Hr|Hr].
  - apply IH; exact Hr.
  - rewrite txidx_connect_other by exact Hr. destruct Hin as [<-|Hin]; [|contradiction].
    unfold upd. rewrite N.eqb_refl. discriminate.
Qed.

Theorem txidx_disconnect_after_connect_ok b (m : N -> option (N * tx)) :
  NoDup (ids (b_txs b)) ->
  exists m', txidx_disconnect (txidx_connect m b) b = Ok m' /\
             forall t, m' t = if existsb (N.eqb t) (ids (b_txs b)) then None else m t.
Proof.
  intro Hnd. unfold txidx_disconnect, txidx_connect.
  destruct (txidx_dis_fold_ok (b_txs b) (fold_left (fun m t => upd m (t_id t) (Some (b_height b, t))) (b_txs b) m) Hnd)
    as [m' Hm'].
  - intros t Ht. apply txidx_connect_some; exact Ht.
  - exists m'. split; [exact Hm'|]. intro t.
    rewrite (txidx_disconnect_val _ _ _ Hm' t).
    destruct (existsb (N.eqb t) (ids (b_txs b))) eqn:E; [reflexivity|].
    apply txidx_connect_other. intro Hin. apply existsb_eqb_in in Hin. congruence.
Qed.

(* a missing entry is the only way TxIndex.DisconnectBlock fails: duplicate ids do it *)
Example txidx_disconnect_duplicate_fails :
  let t := mkTx 5 true 0 [] [] SNone in
  let b := mkBlock 2 1 1 [t; t] in
  match txidx_disconnect (txidx_connect (fun _ => None) b) b with Err => True | _ => False end.
Proof. vm_compute. exact I. Qed.
