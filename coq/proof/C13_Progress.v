(* C13 — progress of the transaction-index part of connect/disconnect: after
   SaveBlock's TxIndex.ConnectBlock, TxIndex.DisconnectBlock of the same block
   cannot fail ("no entry for the transaction") when the block's transaction
   ids are distinct.  Proofs only; the model is model/Ledger.v. *)
From Coq Require Import List ZArith NArith Bool Arith.
From ELA Require Import model.Ledger proof.Ledger_unspent proof.C13_Ledger.
Import ListNotations.
Local Open Scope N_scope.

Definition txidx_dis_fold (txs : list tx) (r : res (N -> option (N * tx))) : res (N -> option (N * tx)) :=
  fold_left (fun r x => bind r (fun m : N -> option (N * tx) =>
     match m (t_id x) with None => Err | Some _ => Ok (upd m (t_id x) None) end)) txs r.

Lemma txidx_dis_fold_ok txs : forall (m : N -> option (N * tx)),
  NoDup (ids txs) -> (forall t, In t (ids txs) -> m t <> None) ->
  exists m', txidx_dis_fold txs (Ok m) = Ok m'.
Proof.
  induction txs as [|x r IH]; intros m Hnd Hall; simpl.
  - eexists; reflexivity.
  - simpl in Hnd. inversion Hnd as [|? ? Hnotin Hnd']; subst.
    destruct (m (t_id x)) as [p|] eqn:E.
    + apply IH; [exact Hnd'|]. intros t Ht. unfold upd.
      destruct (N.eqb_spec t (t_id x)) as [->|Hne].
      * exfalso; exact (Hnotin Ht).
      * apply Hall. right; exact Ht.
    + exfalso. apply (Hall (t_id x)); [left; reflexivity | exact E].
Qed.

Lemma txidx_connect_some txs (h : N) : forall (m : N -> option (N * tx)) t, In t (ids txs) ->
  fold_left (fun m x => upd m (t_id x) (Some (h, x))) txs m t <> None.
Proof.
  induction txs as [|x r IH]; intros m t Hin; simpl in *; [contradiction|].
  destruct (in_dec N.eq_dec t (ids r)) as [Hr|Hr].
  - apply IH; exact Hr.
  - rewrite txidx_connect_other by exact Hr. destruct Hin as [<-|Hin]; [|contradiction].
    unfold upd. rewrite N.eqb_refl. discriminate.
Qed.

Theorem txidx_disconnect_after_connect_ok b (m : N -> option (N * tx)) :
  NoDup (ids (b_txs b)) ->
  exists m', txidx_disconnect (txidx_connect m b) b = Ok m' /\
             forall t, m' t = if existsb (N.eqb t) (ids (b_txs b)) then None else m t.
Proof.
  intro Hnd. unfold txidx_disconnect, txidx_connect.
  destruct (txidx_dis_fold_ok (b_txs b) (fold_left (fun m t => upd m (t_id t) (Some (b_height b, t))) (b_txs b) m) Hnd)
    as [m' Hm'].
  - intros t Ht. apply txidx_connect_some; exact Ht.
  - exists m'. split; [exact Hm'|]. intro t.
    rewrite (txidx_disconnect_val _ _ _ Hm' t).
    destruct (existsb (N.eqb t) (ids (b_txs b))) eqn:E; [reflexivity|].
    apply txidx_connect_other. intro Hin. apply existsb_eqb_in in Hin. congruence.
Qed.

(* a missing entry is the only way TxIndex.DisconnectBlock fails: duplicate ids do it *)
Example txidx_disconnect_duplicate_fails :
  let t := mkTx 5 true 0 [] [] SNone in
  let b := mkBlock 2 1 1 [t; t] in
  match txidx_disconnect (txidx_connect (fun _ => None) b) b with Err => True | _ => False end.
Proof. vm_compute. exact I. Qed.

(* ---------------------------------------------------------------- per-address index: progress *)
(* UtxoIndex.ConnectBlock / DisconnectBlock fail only when FetchTx has no
   entry for a referenced transaction (Err) or the output index is out of
   range (Panic).  With every input of every non-coinbase transaction resolved
   by the given fetch function, neither can happen. *)
Definition refs_resolved (fetch : N -> option (N * tx)) (b : block) : Prop :=
  forall t op, In t (b_txs b) -> t_cb t = false -> In op (t_ins t) ->
    exists rh rt ro, fetch (fst op) = Some (rh, rt) /\ nth_error (t_outs rt) (N.to_nat (snd op)) = Some ro.

Lemma utxo_connect_ins_ok fetch db ins : forall l,
  (forall op : outpoint, In op ins -> exists rh rt ro, fetch (fst op) = Some (rh, rt) /\ nth_error (t_outs rt) (N.to_nat (snd op)) = Some ro) ->
  exists l', fold_left (fun r (op : outpoint) => bind r (fun l =>
        match fetch (fst op) with
        | None => Err
        | Some (rh, rt) =>
            match nth_error (t_outs rt) (N.to_nat (snd op)) with
            | None => Panic
            | Some ro => Ok (aset akey_eqb l (o_addr ro, rh) (swap_pop_u (aget db l (o_addr ro, rh)) (fst op) (snd op)))
            end
        end)) ins (Ok l) = Ok l'.
Proof.
  induction ins as [|op r IH]; intros l H; simpl.
  - eexists; reflexivity.
  - destruct (H op (or_introl eq_refl)) as (rh & rt & ro & Hf & Hn). rewrite Hf, Hn.
    apply IH. intros op' Hin. apply H. right; exact Hin.
Qed.

Lemma utxo_disconnect_ins_ok fetch db ins : forall l,
  (forall op : outpoint, In op ins -> exists rh rt ro, fetch (fst op) = Some (rh, rt) /\ nth_error (t_outs rt) (N.to_nat (snd op)) = Some ro) ->
  exists l', fold_left (fun r (op : outpoint) => bind r (fun l =>
        match fetch (fst op) with
        | None => Err
        | Some (rh, rt) =>
            match nth_error (t_outs rt) (N.to_nat (snd op)) with
            | None => Panic
            | Some ro => if (o_val ro =? 0)%Z then Ok l
                         else Ok (aset akey_eqb l (o_addr ro, rh)
                                    (aget db l (o_addr ro, rh) ++ [mkU (fst op) (snd op) (o_val ro)]))
            end
        end)) ins (Ok l) = Ok l'.
Proof.
  induction ins as [|op r IH]; intros l H; simpl.
  - eexists; reflexivity.
  - destruct (H op (or_introl eq_refl)) as (rh & rt & ro & Hf & Hn). rewrite Hf, Hn.
    destruct (o_val ro =? 0)%Z; apply IH; intros op' Hin; apply H; right; exact Hin.
Qed.

Definition tx_resolved (fetch : N -> option (N * tx)) (t : tx) : Prop :=
  t_cb t = false -> forall op : outpoint, In op (t_ins t) ->
    exists rh rt ro, fetch (fst op) = Some (rh, rt) /\ nth_error (t_outs rt) (N.to_nat (snd op)) = Some ro.

Lemma utxo_connect_tx_ok fetch db h loc t : tx_resolved fetch t ->
  exists loc', utxo_connect_tx fetch db h (Ok loc) t = Ok loc'.
Proof.
  intro H. unfold utxo_connect_tx. cbn [bind]. destruct (t_cb t) eqn:Ecb.
  - eexists; reflexivity.
  - apply utxo_connect_ins_ok. exact (H Ecb).
Qed.

Lemma utxo_disconnect_tx_ok fetch db h loc t : tx_resolved fetch t ->
  exists loc', utxo_disconnect_tx fetch db h (Ok loc) t = Ok loc'.
Proof.
  intro H. unfold utxo_disconnect_tx. cbn [bind]. destruct (t_cb t) eqn:Ecb.
  - eexists; reflexivity.
  - apply utxo_disconnect_ins_ok. exact (H Ecb).
Qed.

Theorem utxo_connect_ok fetch db b : refs_resolved fetch b -> exists ad, utxo_connect fetch db b = Ok ad.
Proof.
  intro H. unfold utxo_connect.
  assert (Hf : forall txs loc, (forall t, In t txs -> In t (b_txs b)) ->
             exists loc', fold_left (utxo_connect_tx fetch db (b_height b)) txs (Ok loc) = Ok loc').
  { induction txs as [|t r IH]; intros loc Hsub; cbn [fold_left].
    - eexists; reflexivity.
    - destruct (utxo_connect_tx_ok fetch db (b_height b) loc t) as [l' Hl'].
      + intros Ecb op Hin. apply (H t op); [apply Hsub; left; reflexivity | exact Ecb | exact Hin].
      + rewrite Hl'. apply IH. intros t' Ht'. apply Hsub. right; exact Ht'. }
  destruct (Hf (b_txs b) [] (fun t Ht => Ht)) as [loc' Hloc']. exists (awriteback db loc').
  exact (f_equal (fun r => bind r (fun loc => Ok (awriteback db loc))) Hloc').
Qed.

Theorem utxo_disconnect_ok fetch db b : refs_resolved fetch b -> exists ad, utxo_disconnect fetch db b = Ok ad.
Proof.
  intro H. unfold utxo_disconnect.
  assert (Hf : forall txs loc, (forall t, In t txs -> In t (b_txs b)) ->
             exists loc', fold_left (utxo_disconnect_tx fetch db (b_height b)) txs (Ok loc) = Ok loc').
  { induction txs as [|t r IH]; intros loc Hsub; cbn [fold_left].
    - eexists; reflexivity.
    - destruct (utxo_disconnect_tx_ok fetch db (b_height b) loc t) as [l' Hl'].
      + intros Ecb op Hin. apply (H t op); [apply Hsub; left; reflexivity | exact Ecb | exact Hin].
      + rewrite Hl'. apply IH. intros t' Ht'. apply Hsub. right; exact Ht'. }
  destruct (Hf (b_txs b) [] (fun t Ht => Ht)) as [loc' Hloc']. exists (awriteback db loc').
  exact (f_equal (fun r => bind r (fun loc => Ok (awriteback db loc))) Hloc').
Qed.

(* the hypothesis is what GetTxReference establishes (refs_known), seen
   through the index extended with the block's own transactions *)
Lemma refs_known_resolved (s : state) b :
  (forall t, In t (b_txs b) -> t_cb t = false -> refs_known s t = true) ->
  (forall t, In t (b_txs b) -> s_txidx s (t_id t) = None) ->
  refs_resolved (txidx_connect (s_txidx s) b) b.
Proof.
  intros Hk Hfresh t op Ht Ecb Hin. specialize (Hk t Ht Ecb). unfold refs_known in Hk.
  rewrite forallb_forall in Hk. specialize (Hk op Hin).
  destruct (s_txidx s (fst op)) as [[rh rt]|] eqn:E; [|discriminate].
  apply Nat.ltb_lt in Hk. destruct (nth_error (t_outs rt) (N.to_nat (snd op))) as [ro|] eqn:En.
  - exists rh, rt, ro. split; [|exact En]. unfold txidx_connect. rewrite txidx_connect_other; [exact E|].
    intro Hi. unfold ids in Hi. apply in_map_iff in Hi. destruct Hi as (t' & Hid & Ht').
    specialize (Hfresh t' Ht'). rewrite Hid in Hfresh. congruence.
  - apply nth_error_None in En. exfalso. apply (Nat.lt_irrefl (length (t_outs rt))).
    eapply Nat.le_lt_trans; [exact En | exact Hk].
Qed.

(* ---------------------------------------------------------------- SaveBlock as a whole *)
From ELA Require Import proof.Ledger_base proof.C06_Ledger proof.C13_ProgressU.

(* SaveBlock returns Ok on every block that extends the tip and that
   validation lets through, in every state consistent with a chain. *)
Theorem save_block_ok s c b :
  inv s c -> valid_block s b -> b_prev b = s_tip s ->
  (forall t, In t (b_txs b) -> t_cb t = false -> refs_known s t = true) ->
  exists s1, save_block s b = Ok s1.
Proof.
  intros I V Htip Hk. unfold save_block. rewrite Htip, N.eqb_refl. cbn [negb].
  destruct (save_processors_fields s b) as [F1 [F2 [F3 [F4 F5]]]]. rewrite F2, F3, F4.
  destruct (unspent_connect_ok (s_unspent s) b) as [un Hun].
  - intros t Ht. apply (inv_fresh_empty s c); [exact I|]. apply (inv_txidx _ _ I). apply (vb_fresh _ _ V). exact Ht.
  - apply (vb_unspent _ _ V).
  - rewrite Hun. cbn [bind].
    destruct (utxo_connect_ok (txidx_connect (s_txidx s) b) (s_addr s) b) as [ad Had].
    + apply refs_known_resolved; [exact Hk | apply (vb_fresh _ _ V)].
    + rewrite Had. cbn [bind]. eexists; reflexivity.
Qed.

(* ---------------------------------------------------------------- RollbackBlock after SaveBlock *)
Lemma block_no_self_ref s c b : inv s c -> valid_block s b ->
  forall op, In op (block_spends b) -> ~ In (fst op) (ids (b_txs b)).
Proof.
  intros I V op Hop Hin. unfold ids in Hin. apply in_map_iff in Hin. destruct Hin as (t & Hid & Ht).
  assert (E : s_unspent s (t_id t) = []).
  { apply (inv_fresh_empty s c); [exact I|]. apply (inv_txidx _ _ I). apply (vb_fresh _ _ V). exact Ht. }
  pose proof (vb_unspent _ _ V op Hop) as Hu. rewrite <- Hid, E in Hu. exact Hu.
Qed.

(* RollbackBlock of the block SaveBlock has just connected returns Ok. *)
Theorem rollback_after_save_ok cf s c b s1 :
  inv s c -> valid_block s b ->
  (forall t, In t (b_txs b) -> t_cb t = false -> refs_known s t = true) ->
  save_block s b = Ok s1 ->
  exists s2, rollback_block cf s1 b = Ok s2.
Proof.
  intros I V Hk Hs. destruct (save_block_fields _ _ _ Hs) as (Hprev & Htip & Htx & Hun & Had).
  assert (Hfresh : forall t, In t (b_txs b) -> s_unspent s (t_id t) = []).
  { intros t Ht. apply (inv_fresh_empty s c); [exact I|]. apply (inv_txidx _ _ I). apply (vb_fresh _ _ V). exact Ht. }
  pose proof (block_no_self_ref s c b I V) as Hself.
  unfold rollback_block. rewrite Htip, N.eqb_refl. cbn [negb].
  destruct (rollback_processors_fields cf s1 b) as [F1 [F2 [F3 [F4 F5]]]]. rewrite F2, F3, F4.
  rewrite Htx.
  destruct (txidx_disconnect_after_connect_ok b (s_txidx s) (vb_ids _ _ V)) as [m' [Hm' Hval]].
  rewrite Hm'. cbn [bind].
  destruct (unspent_disconnect_ok (s_unspent s1) b (vb_ids _ _ V)) as [un Hund].
  - intros t Ht Ho. rewrite (unspent_connect_key _ _ _ (t_id t) Hun Hfresh).
    rewrite kf_txs_noref.
    + rewrite (Hfresh t Ht). cbn [app]. intro E.
      assert (Hin : forall x, In x (idxs (length (t_outs t))) ->
                In x (flat_map (fun t0 => if t_id t0 =? t_id t then idxs (length (t_outs t0)) else []) (b_txs b))).
      { intros x Hx. apply in_flat_map. exists t. split; [exact Ht|]. rewrite N.eqb_refl. exact Hx. }
      destruct (t_outs t) as [|o os] eqn:Eo; [now apply Ho|].
      specialize (Hin 0). rewrite E in Hin. apply Hin. apply idxs_in. simpl. apply Nat.lt_0_succ.
    + intros op Hop E. apply (Hself op Hop). rewrite E. unfold ids. now apply in_map.
  - rewrite Hund. cbn [bind].
    destruct (utxo_disconnect_ok m' (s_addr s1) b) as [ad Hadd].
    + intros t op Ht Ecb Hin. specialize (Hk t Ht Ecb). unfold refs_known in Hk.
      rewrite forallb_forall in Hk. specialize (Hk op Hin).
      assert (Hop : In op (block_spends b)).
      { unfold block_spends. apply in_flat_map. exists t. split; [exact Ht|]. unfold spends. rewrite Ecb. exact Hin. }
      rewrite Hval.
      destruct (existsb (N.eqb (fst op)) (ids (b_txs b))) eqn:Eex.
      { exfalso. apply (Hself op Hop). apply existsb_eqb_in. exact Eex. }
      destruct (s_txidx s (fst op)) as [[rh rt]|] eqn:E; [|discriminate].
      apply Nat.ltb_lt in Hk. destruct (nth_error (t_outs rt) (N.to_nat (snd op))) as [ro|] eqn:En.
      * exists rh, rt, ro. split; [reflexivity | exact En].
      * apply nth_error_None in En. exfalso. apply (Nat.lt_irrefl (length (t_outs rt))).
        eapply Nat.le_lt_trans; [exact En | exact Hk].
    + rewrite Hadd. cbn [bind]. eexists; reflexivity.
Qed.
