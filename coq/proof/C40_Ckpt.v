From Coq Require Import List Bool NArith Lia.
From ELA Require Import model.C40_Ckpt.
Import ListNotations.
Local Open Scope N_scope.

Lemma ckpt_sound : forall t, ckpt_ok t = true -> ~ off_path_live_read t.
Proof.
  intros t H ((r & p) & Hin & Hp & Hn). simpl in *. subst p.
  unfold msgs in Hin. apply in_flat_map in Hin. destruct Hin as (r' & Hr & Hm).
  unfold ckpt_ok in H. rewrite forallb_forall in H. specialize (H r' Hr).
  destruct Hm as [E|Hm]; [inversion E|].
  destruct (r_live r') eqn:L; simpl in *; [|contradiction].
  destruct Hm as [E|[]]. inversion E; subst r'.
  apply N.eqb_eq in H. lia.
Qed.

Lemma ckpt_complete : forall t, ckpt_ok t = false -> off_path_live_read t.
Proof.
  intros t H. unfold ckpt_ok in H.
  assert (exists r, In r t /\ (negb (r_live r) || (r_state_calls r =? 0)) = false) as (r & Hr & Hb).
  { induction t as [|a t IH]; simpl in H; [discriminate|].
    apply andb_false_iff in H. destruct H as [H|H].
    - exists a. split; [left; reflexivity|exact H].
    - destruct (IH H) as (r & Hr & Hb). exists r. split; [right; exact Hr|exact Hb]. }
  apply orb_false_iff in Hb. destruct Hb as [L N0].
  apply negb_false_iff in L. apply N.eqb_neq in N0.
  exists (r, Live). simpl. repeat split; [|lia].
  unfold msgs. apply in_flat_map. exists r. split; auto. rewrite L. right. left. reflexivity.
Qed.
