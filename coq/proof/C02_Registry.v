(* C02: the descriptors of the registry are well formed (computed), hence safe;
   the pre-fix Confirm descriptor is not, with concrete witnesses. *)
From Coq Require Import NArith List Lia Bool.
From ELA Require Import lib.GoSem lib.Bytes lib.VarInt model.C02_Fmt model.C02_Descr proof.C02_Safe.
Import ListNotations.
Local Open Scope N_scope.

Lemma all_formats_wf : forallb wf_alloc all_formats = true.
Proof. vm_compute. reflexivity. Qed.

Lemma all_formats_count : length all_formats = 120%nat.
Proof. vm_compute. reflexivity. Qed.

Lemma all_formats_bounds :
  forallb (fun f => (kf f <=? 1872) && (cf f <=? 16777276)) all_formats = true.
Proof. vm_compute. reflexivity. Qed.

Lemma registry_safe : forall id, In id format_ids -> forall c bs,
  fst (decode (fmt_of id) c bs) <> Panic /\
  snd (decode (fmt_of id) c bs) <= kf (fmt_of id) * len bs + cf (fmt_of id) /\
  snd (decode (fmt_of id) c bs) <= 1872 * len bs + 16777276.
Proof.
  intros id I c bs.
  assert (IF : In (fmt_of id) all_formats) by (unfold all_formats; apply in_map; exact I).
  pose proof all_formats_wf as W. rewrite forallb_forall in W. specialize (W _ IF).
  pose proof all_formats_bounds as B. rewrite forallb_forall in B. specialize (B _ IF).
  apply andb_true_iff in B. destruct B as [B1 B2]. apply N.leb_le in B1, B2.
  destruct (decode_safe _ W c bs) as [S1 S2]. repeat split; auto. nia.
Qed.

(* the transaction decoder in particular *)
Lemma tx_bounds : kf tx_fmt = 517 /\ cf tx_fmt = 16777263 /\ wf_alloc tx_fmt = true.
Proof. vm_compute. auto. Qed.

(* ---- the defect class: a count-sized make without a bound *)
Definition confirm_head : bytes :=
  [0] ++ repeat 0 32 ++ [0;0;0;0] ++ [0].   (* empty sponsor, block hash, view offset, empty signature *)

Lemma unfixed_not_wf : wf_alloc confirm_unfixed = false.
Proof. reflexivity. Qed.

Lemma unfixed_panics :
  fst (decode confirm_unfixed [] (confirm_head ++ [255;255;255;255;255;255;255;127])) = Panic.
Proof. vm_compute. reflexivity. Qed.

Lemma unfixed_overallocates :
  let bs := confirm_head ++ [255;255;255;255;0;0;0;0] in
  length bs = 46%nat /\ 412316860000 <= snd (decode confirm_unfixed [] bs).
Proof. vm_compute. split; [reflexivity|discriminate]. Qed.

Lemma fixed_rejects_both :
  decode confirm_fmt [] (confirm_head ++ [255;255;255;255;255;255;255;127]) = (Err, 142) /\
  decode confirm_fmt [] (confirm_head ++ [255;255;255;255;0;0;0;0]) = (Err, 142).
Proof. vm_compute. auto. Qed.
