(* C29 proofs, part 2: proposal invariants, payments, the block fold. *)
From Coq Require Import ZArith Bool List Lia Permutation Sorted.
From ELA Require Import model.C29_Budget proof.C29_Budget.
Import ListNotations.
Local Open Scope Z_scope.

Ltac spl := repeat match goal with |- _ /\ _ => split end.

(* ------------------------------------------------------------ proposals *)
Definition bp (p : prop) : list (Z * Z) := map (fun b => (b_stage b, b_amt b)) (p_budgets p).

Record good_prop (p : prop) : Prop := {
  gp_bn : NoDup (map b_stage (p_budgets p));
  gp_nn : Forall (fun b => 0 <= b_amt b) (p_budgets p);
  gp_ws : ssorted (keys (p_wable p));
  gp_ns : ssorted (keys (p_wn p));
  gp_wb : incl (p_wable p) (bp p);
  gp_nw : incl (p_wn p) (p_wable p) }.

Lemma keys_fun : forall (m : list (Z * Z)) k a a', NoDup (keys m) -> In (k, a) m -> In (k, a') m -> a = a'.
Proof.
  induction m as [|[x y] r IH]; simpl; intros k a a' Hn H1 H2; [contradiction|].
  inversion Hn as [|? ? Hx Hn']; subst.
  destruct H1 as [H1|H1], H2 as [H2|H2]; try congruence.
  - injection H1 as -> ->. exfalso. apply Hx. unfold keys. apply in_map_iff. now exists (k, a').
  - injection H2 as -> ->. exfalso. apply Hx. unfold keys. apply in_map_iff. now exists (k, a).
  - eauto.
Qed.

Lemma keys_bp : forall p, keys (bp p) = map b_stage (p_budgets p).
Proof. intros. unfold keys, bp. rewrite map_map. reflexivity. Qed.

Lemma first_budget_In : forall f bs b, first_budget f bs = Some b -> In b bs /\ f b = true.
Proof.
  induction bs as [|x r IH]; simpl; intros b H; [discriminate|].
  destruct (f x) eqn:E; [injection H as <-; auto|]. destruct (IH _ H); auto.
Qed.

(* p' extends p: same budgets, same withdrawn map, withdrawable map grown *)
Definition ext (p p' : prop) : Prop :=
  good_prop p ->
  p_budgets p' = p_budgets p /\ p_wn p' = p_wn p /\ incl (p_wable p) (p_wable p') /\ good_prop p'.

Lemma ext_refl : forall p, ext p p.
Proof. intros p G. spl; auto; apply incl_refl. Qed.

Lemma ext_trans : forall p q r, ext p q -> ext q r -> ext p r.
Proof.
  intros p q r H1 H2 G. destruct (H1 G) as (a & b & c & d). destruct (H2 d) as (a' & b' & c' & d').
  spl; try congruence; auto. eapply incl_tran; eauto.
Qed.

Lemma ext_same : forall p p', p_budgets p' = p_budgets p -> p_wn p' = p_wn p -> p_wable p' = p_wable p -> ext p p'.
Proof.
  intros p p' Hb Hn Hw G. spl; auto; try (rewrite Hw; apply incl_refl).
  destruct G. constructor; unfold bp in *; rewrite ?Hb, ?Hn, ?Hw; auto.
Qed.

Lemma ext_set_wable : forall p b, In b (p_budgets p) ->
  ext p (with_wable p (mset (b_stage b) (b_amt b) (p_wable p))).
Proof.
  intros p b Hb G. destruct G as [g1 g2 g3 g4 g5 g6].
  assert (Hbp : In (b_stage b, b_amt b) (bp p)).
  { unfold bp. apply in_map_iff. now exists b. }
  assert (Hold : incl (p_wable p) (mset (b_stage b) (b_amt b) (p_wable p))).
  { intros [k a] Hx. destruct (Z.eq_dec k (b_stage b)) as [->|N].
    - assert (a = b_amt b).
      { eapply keys_fun with (m := bp p); eauto. rewrite keys_bp; auto. }
      subst. apply mset_In_same.
    - apply mset_In_other; auto. }
  spl; simpl; auto.
  constructor; simpl; auto.
  - now apply mset_sorted.
  - intros x Hx. apply In_mset in Hx as [->|Hx]; auto.
  - eapply incl_tran; eauto.
Qed.

Ltac ext_same := apply ext_same; reflexivity.

Lemma ext_track_do : forall ty stage h p, ext p (track_do ty stage h p).
Proof.
  intros ty stage h p. unfold track_do.
  set (p1 := with_track p (p_track p + 1)).
  assert (H1 : ext p p1) by ext_same.
  destruct (ty =? TProgress).
  { set (p2 := with_bstat p1 _).
    assert (H2 : ext p1 p2) by ext_same.
    destruct (first_budget (fun b => b_stage b =? stage) (p_budgets p2)) as [b|] eqn:Eb.
    - apply first_budget_In in Eb as [Hin Hst]. apply Z.eqb_eq in Hst. subst stage.
      set (p3 := with_wable p2 _).
      assert (H3 : ext p2 p3) by (apply ext_set_wable; auto).
      pose proof (ext_trans p p1 p3 H1 (ext_trans p1 p2 p3 H2 H3)) as H13.
      match goal with |- ext _ (if ?c then _ else _) => destruct c end; [|exact H13].
      eapply ext_trans; [exact H13|ext_same].
    - pose proof (ext_trans p p1 p2 H1 H2) as H12.
      match goal with |- ext _ (if ?c then _ else _) => destruct c end; [|exact H12].
      eapply ext_trans; [exact H12|ext_same]. }
  destruct (ty =? TRejected).
  { destruct (stage =? 0); [exact H1|]. destruct (mmem stage (p_bstat p1)); [|exact H1].
    eapply ext_trans; [exact H1|ext_same]. }
  destruct (ty =? TTerminated).
  { eapply ext_trans; [exact H1|ext_same]. }
  destruct (ty =? TFinalized); [|exact H1].
  set (p2 := with_status p1 Finished).
  assert (H2 : ext p1 p2) by ext_same.
  destruct (first_budget (fun b => b_type b =? FinalPayment) (p_budgets p2)) as [b|] eqn:Eb.
  - apply first_budget_In in Eb as [Hin _].
    set (p3 := with_wable p2 _).
    assert (H3 : ext p2 p3) by (apply ext_set_wable; auto).
    eapply ext_trans; [exact H1|]. eapply ext_trans; [exact H2|]. eapply ext_trans; [exact H3|]. ext_same.
  - eapply ext_trans; [exact H1|]. eapply ext_trans; [exact H2|]. ext_same.
Qed.

(* the withdrawal closure *)
Lemma outstanding_props : forall p, good_prop p ->
  incl (outstanding p) (p_wable p) /\ NoDup (keys (outstanding p)) /\
  (forall k, In k (keys (outstanding p)) -> ~ In k (keys (p_wn p))).
Proof.
  intros p G. unfold outstanding. spl.
  - intros x Hx. apply filter_In in Hx. tauto.
  - apply sorted_NoDup. apply sorted_filter. apply G.
  - intros k Hk Hn. unfold keys in Hk. apply in_map_iff in Hk as [x [<- Hx]].
    apply filter_In in Hx as [_ Hx]. apply mmem_true in Hn. rewrite Hn in Hx. discriminate.
Qed.

Lemma withdraw_do_good : forall w p, good_prop p -> incl w (p_wable p) ->
  good_prop (withdraw_do w p) /\ p_budgets (withdraw_do w p) = p_budgets p /\
  p_wable (withdraw_do w p) = p_wable p /\ p_wn (withdraw_do w p) = mset_all w (p_wn p).
Proof.
  intros w p G Hw. unfold withdraw_do; simpl. spl; auto.
  destruct G as [g1 g2 g3 g4 g5 g6]. constructor; simpl; auto.
  - now apply mset_all_sorted.
  - intros x Hx. apply mset_all_In in Hx as [Hx|Hx]; auto.
Qed.

(* ------------------------------------------------------------- payments *)
Definition E (pid : Z) (l : list payment) : list (Z * Z) :=
  flat_map (fun e => if pay_pid e =? pid then pay_stages e else []) l.

Definition pay_ok (S : st) (pid : Z) (p : prop) : Prop :=
  NoDup (keys (E pid (paid S))) /\ incl (E pid (paid S)) (p_wn p).

Definition Inv (S : st) : Prop :=
  (forall pid p, mget pid (props S) = Some p -> good_prop p /\ pay_ok S pid p) /\
  (forall pid, mget pid (props S) = None -> E pid (paid S) = []).

Definition Mid (S0 : st) (wl : list Z) (S : st) : Prop :=
  (forall pid p0, mget pid (props S0) = Some p0 ->
     exists p, mget pid (props S) = Some p /\ p_budgets p = p_budgets p0 /\ good_prop p /\
       incl (p_wable p0) (p_wable p) /\ pay_ok S pid p /\
       (~ In pid wl -> p_wn p = p_wn p0)) /\
  (forall pid, mget pid (props S0) = None ->
     E pid (paid S) = [] /\ forall p, mget pid (props S) = Some p -> good_prop p /\ p_wn p = []).

Lemma Mid_init : forall S0, Inv S0 -> Mid S0 [] S0.
Proof.
  intros S0 [I1 I2]. split.
  - intros pid p0 H. destruct (I1 _ _ H) as [G P]. exists p0. spl; auto; try apply P. apply incl_refl.
  - intros pid H. split; auto. intros p Hp. congruence.
Qed.

Lemma Mid_ext : forall S0 wl S S', props S' = props S -> paid S' = paid S -> Mid S0 wl S -> Mid S0 wl S'.
Proof. unfold Mid, pay_ok. intros S0 wl S S' Hp Hq H. rewrite Hp, Hq. exact H. Qed.

Lemma mget_upd_prop : forall S pid f pid',
  mget pid' (props (upd_prop S pid f)) =
  if pid' =? pid then option_map f (mget pid (props S)) else mget pid' (props S).
Proof.
  intros. unfold upd_prop. destruct (mget pid (props S)) as [p|] eqn:Ep; simpl.
  - rewrite mget_mset. destruct (pid' =? pid); reflexivity.
  - destruct (pid' =? pid) eqn:En; [apply Z.eqb_eq in En; subst; now rewrite Ep|reflexivity].
Qed.

Lemma paid_upd_prop : forall S pid f, paid (upd_prop S pid f) = paid S.
Proof. intros. unfold upd_prop. destruct (mget pid (props S)); reflexivity. Qed.

(* a closure that only extends one proposal keeps Mid *)
Lemma Mid_upd : forall S0 wl S pid f,
  (forall p, ext p (f p)) -> Mid S0 wl S -> Mid S0 wl (upd_prop S pid f).
Proof.
  intros S0 wl S pid f Hf [M1 M2]. split.
  - intros q p0 H0. destruct (M1 _ _ H0) as (p & Hp & Hb & G & Hw & [P1 P2] & Hn).
    rewrite mget_upd_prop. unfold pay_ok. rewrite paid_upd_prop.
    destruct (q =? pid) eqn:Eq.
    + apply Z.eqb_eq in Eq; subst q. rewrite Hp; simpl.
      destruct (Hf p G) as (a & b & c & d).
      exists (f p). spl; auto; try congruence.
      * eapply incl_tran; eauto.
      * rewrite b; auto.
      * intros N. rewrite b. auto.
    + exists p. spl; auto.
  - intros q H0. destruct (M2 _ H0) as [Hq Hs]. rewrite paid_upd_prop. split; auto.
    intros p. rewrite mget_upd_prop. destruct (q =? pid) eqn:Eq.
    + apply Z.eqb_eq in Eq; subst q. destruct (mget pid (props S)) as [p1|] eqn:E1; simpl; [|discriminate].
      intros H; injection H as <-. destruct (Hs _ eq_refl) as [G Hn].
      destruct (Hf p1 G) as (a & b & c & d). split; auto. congruence.
    + apply Hs.
Qed.
