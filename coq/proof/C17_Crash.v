(* C17 proofs about model/C17_Crash.v: every crash cut of a session trace,
   followed by reconcile, yields a state consistent with one commit prefix. *)
From Coq Require Import NArith ZArith Bool Lia List.
From ELA Require Import model.C18_Flat proof.C18_Bytes proof.C18_Flat model.C17_Crash proof.C17_Base.
Import ListNotations.
Local Open Scope N_scope.

Ltac blia := unfold bytes in *; lia.

Definition small (fs : list bytes) : Prop := Forall (fun x => len x < 4294967296) fs.

(* the directory [fs] extends the (clean) store [st]: same files, the last one
   possibly longer, possibly more files after it *)
Definition dext (st : store) (fs : files) : Prop :=
  (st = mkstore [] 0 0 /\ exists ds, fs = map Some ds /\ small ds) \/
  (exists ds0 d suf more, st = active ds0 d /\ fs = map Some (ds0 ++ (d ++ suf) :: more) /\
                          small ((d ++ suf) :: more)).

Lemma scan_some' ds0 d : forall i last,
  scan (map Some (ds0 ++ [d])) i last = (i + N.of_nat (length ds0), u32 (len d)).
Proof.
  induction ds0 as [|a ds0 IH]; intros i last; simpl.
  - now rewrite N.add_0_r.
  - rewrite IH. f_equal. lia.
Qed.
Lemma cursor_lt_irrefl' c : cursor_lt c c = false.
Proof. unfold cursor_lt. now rewrite !N.ltb_irrefl, andb_false_r. Qed.

Section Crash.
Variable max : N.
Variable net : N.
Variable cksum : bytes -> bytes.
Hypothesis Hck : forall x, length (cksum x) = 4%nat.
Hypothesis Hmax : max < 4294967296.
Hypothesis Hnet : net < 4294967296.

Notation good_store := (good_store max).
Notation placed := (placed max net cksum).
Notation record := (record net cksum).

Lemma dext_refl st : good_store st -> dext st (s_files st).
Proof.
  intros [Ho [->|(ds0 & d & ->)]].
  - left. split; auto. exists []. split; [reflexivity|constructor].
  - right. exists ds0, d, [], []. rewrite app_nil_r. repeat split; auto.
    constructor; [|constructor]. unfold active in Ho; simpl in Ho. lia.
Qed.

Lemma scan_cursor_some ds0 d : scan_cursor (map Some (ds0 ++ [d])) = (N.of_nat (length ds0), u32 (len d)).
Proof. unfold scan_cursor. now rewrite scan_some', N.add_0_l. Qed.

(* reconcile of an extending directory against the store's own cursor gives the
   store back (up to an empty file 0 for the empty store) *)
Lemma reconcile_dext st fs : good_store st -> dext st fs ->
  exists st', reconcile fs (s_file st, s_off st) = Ok st' /\ good_store st' /\
              s_file st' = s_file st /\ s_off st' = s_off st /\ fext (s_files st) (s_files st').
Proof.
  intros Hg [[-> (ds & -> & Hs)]|(ds0 & d & suf & more & -> & -> & Hs)].
  - (* empty store *)
    destruct ds as [|y r].
    + exists (mkstore [] 0 0). split; [reflexivity|]. split; [exact Hg|]. split; [reflexivity|]. split; [reflexivity|apply fext_nil].
    + destruct (@exists_last _ (y :: r) ltac:(discriminate)) as (b' & z & E).
      assert (Hz : len z < 4294967296).
      { unfold small in Hs. rewrite E in Hs. apply Forall_app in Hs. destruct Hs as [_ Hs]. now inversion Hs. }
      assert (Hl : length b' = length r).
      { apply (f_equal (@length _)) in E. rewrite app_length in E. simpl in E. lia. }
      assert (Hscan : scan_cursor (map Some (y :: r)) = (N.of_nat (length b'), len z))
        by (rewrite E, scan_cursor_some, u32_small by exact Hz; reflexivity).
      unfold reconcile. cbn [s_file s_off]. rewrite Hscan. cbn [fst snd].
      destruct (cursor_lt (0, 0) (N.of_nat (length b'), len z)) eqn:Hlt.
      * pose proof (rollback_spec [] y r (len z) 0) as Hr. cbn [length app Nat.add] in Hr. change (N.of_nat 0) with 0 in Hr.
        rewrite Hl. rewrite Hr by (rewrite <- Hl; exact (cursor_lt_neq _ _ _ _ Hlt)).
        rewrite truncate_0. cbn [s_file s_off]. rewrite cursor_lt_irrefl'.
        exists (active [] []). split; [reflexivity|]. split; [|split; [reflexivity|split; [reflexivity|apply fext_nil]]].
        split; [cbn; lia|right; now exists [], []].
      * (* the only file is empty *)
        unfold cursor_lt in Hlt. cbn [fst snd] in Hlt. apply orb_false_iff in Hlt. destruct Hlt as [H1 H2].
        apply N.ltb_ge in H1. assert (b' = []) by (destruct b'; [reflexivity|simpl in H1; lia]). subst b'.
        cbn [length] in *. change (N.of_nat 0) with 0 in *. rewrite N.eqb_refl in H2. cbn [andb] in H2.
        apply N.ltb_ge in H2. assert (z = []) by (apply len_0; lia). subst z.
        cbn [app] in E. rewrite E. cbn [s_file s_off len length]. change (N.of_nat 0) with 0.
        rewrite cursor_lt_irrefl'.
        exists (active [] []). split; [reflexivity|]. split; [|split; [reflexivity|split; [reflexivity|apply fext_nil]]].
        split; [cbn; lia|right; now exists [], []].
  - (* active store *)
    destruct (@exists_last _ ((d ++ suf) :: more) ltac:(discriminate)) as (b' & z & E).
    assert (Hz : len z < 4294967296).
    { unfold small in Hs. rewrite E in Hs. apply Forall_app in Hs. destruct Hs as [_ Hs]. now inversion Hs. }
    assert (Hl : length b' = length more).
    { apply (f_equal (@length _)) in E. rewrite app_length in E. simpl in E. lia. }
    destruct Hg as [Ho _]. unfold active in Ho; cbn [s_off] in Ho.
    assert (Hscan : scan_cursor (map Some (ds0 ++ (d ++ suf) :: more)) = (N.of_nat (length ds0 + length more), len z))
      by (rewrite E, app_assoc, scan_cursor_some, u32_small, app_length, Hl by exact Hz; reflexivity).
    unfold reconcile. cbn [s_file s_off active]. rewrite Hscan. cbn [fst snd].
    destruct (cursor_lt (N.of_nat (length ds0), len d) (N.of_nat (length ds0 + length more), len z)) eqn:Hlt.
    + rewrite rollback_spec by (exact (cursor_lt_neq _ _ _ _ Hlt)).
      rewrite truncate_prefix. cbn [s_file s_off]. rewrite cursor_lt_irrefl'.
      exists (active ds0 d). split; [reflexivity|]. split; [|split; [reflexivity|split; [reflexivity|apply fext_refl]]].
      split; [cbn; lia|right; now exists ds0, d].
    + (* nothing beyond the cursor: more = [] and suf = [] *)
      unfold cursor_lt in Hlt. cbn [fst snd] in Hlt. apply orb_false_iff in Hlt. destruct Hlt as [H1 H2].
      apply N.ltb_ge in H1. assert (more = []) by (destruct more; [reflexivity|simpl in H1; lia]). subst more.
      assert (b' = []) by (destruct b'; [reflexivity|discriminate]). subst b'.
      cbn [app] in E. injection E as E. subst z.
      cbn [length] in *. rewrite Nat.add_0_r in *. rewrite N.eqb_refl in H2. cbn [andb] in H2.
      apply N.ltb_ge in H2. rewrite len_app in H2. assert (suf = []) by (apply len_0; lia). subst suf.
      rewrite app_nil_r in *. cbn [s_file s_off].
      replace (cursor_lt (N.of_nat (length ds0), len d) (N.of_nat (length ds0), len d)) with false
        by (symmetry; apply cursor_lt_irrefl').
      exists (active ds0 d). split; [reflexivity|]. split; [|split; [reflexivity|split; [reflexivity|apply fext_refl]]].
      split; [cbn; lia|right; now exists ds0, d].
Qed.

(* explicit form for a crash after one or more rollovers: the metadata cursor is
   (file N, offset len d) while the disk ends in a later file whose length [len z]
   is unrelated to it (in particular smaller); the comparison is lexicographic,
   the later files are deleted and file N is cut back to the cursor *)
Lemma reconcile_after_rollover ds0 d suf more z :
  len d <= max -> small ((d ++ suf) :: more ++ [z]) ->
  reconcile (map Some (ds0 ++ (d ++ suf) :: more ++ [z])) (N.of_nat (length ds0), len d) = Ok (active ds0 d).
Proof.
  intros Ho Hs.
  assert (Hz : len z < 4294967296).
  { unfold small in Hs. change ((d ++ suf) :: more ++ [z]) with (((d ++ suf) :: more) ++ [z]) in Hs.
    apply Forall_app in Hs. destruct Hs as [_ Hs]. now inversion Hs. }
  assert (Hscan : scan_cursor (map Some (ds0 ++ (d ++ suf) :: more ++ [z]))
                  = (N.of_nat (length ds0 + length (more ++ [z])), len z)).
  { change (ds0 ++ (d ++ suf) :: more ++ [z]) with (ds0 ++ ((d ++ suf) :: more) ++ [z]).
    rewrite app_assoc, scan_cursor_some, u32_small by exact Hz.
    rewrite !app_length. cbn [length]. f_equal. f_equal. lia. }
  unfold reconcile. rewrite Hscan. cbn [fst snd].
  assert (Hlt : cursor_lt (N.of_nat (length ds0), len d) (N.of_nat (length ds0 + length (more ++ [z])), len z) = true).
  { unfold cursor_lt. cbn [fst snd]. apply orb_true_iff. left. apply N.ltb_lt.
    rewrite app_length. cbn [length]. lia. }
  rewrite Hlt. rewrite rollback_spec by (exact (cursor_lt_neq _ _ _ _ Hlt)).
  rewrite truncate_prefix. cbn [s_file s_off]. rewrite cursor_lt_irrefl'. reflexivity.
Qed.

(* transitivity of directory extension through a clean intermediate store *)
Lemma dext_trans st st2 fs : good_store st2 -> dext st (s_files st2) -> dext st2 fs -> dext st fs.
Proof.
  intros Hg2 H1 H2.
  destruct H1 as [[-> (ds & E1 & Hs1)]|(ds0 & d & suf & more & -> & E1 & Hs1)].
  - (* st empty: fs just has to be a small contiguous directory *)
    left. split; auto.
    destruct H2 as [[-> (ds2 & -> & Hs2)]|(e0 & e & suf2 & more2 & -> & -> & Hs2)].
    + now exists ds2.
    + exists (e0 ++ (e ++ suf2) :: more2). split; auto.
      unfold active in E1; cbn [s_files] in E1. apply (f_equal (map (fun o => match o with Some x => x | None => [] end))) in E1.
      rewrite !map_map in E1. rewrite !map_id in E1. subst ds.
      apply Forall_app in Hs1. destruct Hs1 as [Ha _]. apply Forall_app. split; auto.
  - right.
    destruct H2 as [[-> _]|(e0 & e & suf2 & more2 & -> & -> & Hs2)].
    + cbn [s_files] in E1. destruct ds0; discriminate.
    + unfold active in E1; cbn [s_files] in E1.
      apply (f_equal (map (fun o => match o with Some x => x | None => [] end))) in E1.
      rewrite !map_map, !map_id in E1.
      destruct more as [|m1 more'] using rev_ind.
      * apply app_inj_tail in E1. destruct E1 as [-> ->].
        exists ds0, d, (suf ++ suf2), more2. rewrite <- app_assoc in *. repeat split; auto.
      * clear IHmore'. change (ds0 ++ (d ++ suf) :: more' ++ [m1]) with (ds0 ++ ((d ++ suf) :: more') ++ [m1]) in E1.
        rewrite app_assoc in E1. apply app_inj_tail in E1. destruct E1 as [-> ->].
        exists ds0, d, suf, (more' ++ (m1 ++ suf2) :: more2).
        repeat split; auto.
        -- now rewrite <- app_assoc.
        -- unfold small in *. change ((d ++ suf) :: more' ++ [m1]) with (((d ++ suf) :: more') ++ [m1]) in Hs1.
           apply Forall_app in Hs1. destruct Hs1 as [Ha _].
           change ((d ++ suf) :: more' ++ (m1 ++ suf2) :: more2) with (((d ++ suf) :: more') ++ (m1 ++ suf2) :: more2).
           apply Forall_app. split; auto.
Qed.

(* ------------------------------------------------------------ one record *)

Lemma apply_append ds0 d' data kvv :
  apply_step (mkdur (map Some (ds0 ++ [d'])) kvv) (SAppend (N.of_nat (length ds0)) (len d') data)
  = mkdur (map Some (ds0 ++ [d' ++ data])) kvv.
Proof.
  unfold apply_step. cbn [du_files du_kv]. rewrite get_file_active, write_at_end.
  unfold set_file. rewrite Nat2N.id, map_app. cbn [map]. rewrite set_nth_last, map_app. reflexivity.
Qed.

Lemma apply_steps_cons s t D : apply_steps (s :: t) D = apply_steps t (apply_step D s).
Proof. reflexivity. Qed.
Lemma apply_mark D p : apply_step D (SMark p) = D.
Proof. reflexivity. Qed.
Lemma apply_ensure fs kvv f : apply_step (mkdur fs kvv) (SEnsure f) = mkdur (ensure_file fs f) kvv.
Proof. reflexivity. Qed.

Lemma len_firstn_le m (p : bytes) : len (firstn m p) <= len p.
Proof. unfold len. rewrite firstn_length. lia. Qed.

Lemma appends_spec ps : forall marks ds0 d' kvv s o',
  len d' + len (concat ps) < 4294967296 ->
  appends (N.of_nat (length ds0)) (len d') ps marks = (s, o') ->
  o' = len (d' ++ concat ps) /\
  apply_steps s (mkdur (map Some (ds0 ++ [d'])) kvv) = mkdur (map Some (ds0 ++ [d' ++ concat ps])) kvv /\
  forall Dx, reach s (mkdur (map Some (ds0 ++ [d'])) kvv) Dx ->
    exists y, Dx = mkdur (map Some (ds0 ++ [d' ++ y])) kvv /\ len y <= len (concat ps).
Proof.
  induction ps as [|p t IH]; intros marks ds0 d' kvv s o' Hb Ha.
  - cbn in Ha. injection Ha as <- <-. cbn [concat]. rewrite app_nil_r. split; [reflexivity|]. split; [reflexivity|].
    intros Dx H. apply reach_nil in H. subst. exists []. rewrite app_nil_r. split; [reflexivity|cbn; lia].
  - cbn [appends] in Ha. rewrite len_concat_cons in Hb.
    rewrite u32_small in Ha by lia. rewrite <- len_app in Ha.
    destruct (appends (N.of_nat (length ds0)) (len (d' ++ p)) t (tl marks)) as [s1 o1] eqn:E.
    injection Ha as <- <-.
    destruct (IH (tl marks) ds0 (d' ++ p) kvv s1 o1 ltac:(rewrite len_app; lia) E) as (Ho & Hap & Hre).
    cbn [concat]. rewrite app_assoc. split; [exact Ho|]. split.
    + rewrite !apply_steps_cons, !apply_mark, apply_append. exact Hap.
    + intros Dx H.
      destruct (reach_cons _ _ _ _ H) as [[_ ->]|[(f & o & dd & m & Hs & _)|H1]]; [|discriminate|].
      { exists []. rewrite app_nil_r. split; [reflexivity|cbn; lia]. }
      cbn [apply_step] in H1.
      destruct (reach_cons _ _ _ _ H1) as [[Hn _]|[(f & o & dd & m & Hs & ->)|H2]].
      { exfalso. apply Hn. now exists (N.of_nat (length ds0)), (len d'), p. }
      { injection Hs as <- <- <-. rewrite apply_append. exists (firstn m p). split; [reflexivity|].
        rewrite len_app. pose proof (len_firstn_le m p). lia. }
      rewrite apply_append in H2.
      destruct (reach_cons _ _ _ _ H2) as [[_ ->]|[(f & o & dd & m & Hs & _)|H3]]; [|discriminate|].
      { exists p. split; [reflexivity|]. rewrite len_app. lia. }
      cbn [apply_step] in H3. destruct (Hre _ H3) as (y & -> & Hy).
      exists (p ++ y). rewrite app_assoc. split; [reflexivity|]. rewrite !len_app. lia.
Qed.

Lemma appends_spec' ps marks f o ds0 d' kvv s o' :
  f = N.of_nat (length ds0) -> o = len d' ->
  len d' + len (concat ps) < 4294967296 ->
  appends f o ps marks = (s, o') ->
  o' = len (d' ++ concat ps) /\
  apply_steps s (mkdur (map Some (ds0 ++ [d'])) kvv) = mkdur (map Some (ds0 ++ [d' ++ concat ps])) kvv /\
  forall Dx, reach s (mkdur (map Some (ds0 ++ [d'])) kvv) Dx ->
    exists y, Dx = mkdur (map Some (ds0 ++ [d' ++ y])) kvv /\ len y <= len (concat ps).
Proof. intros -> ->. apply appends_spec. Qed.

Lemma small1 y : len y < 4294967296 -> small [y].
Proof. intros; constructor; [assumption|constructor]. Qed.

Lemma block_steps_spec stv raw kvv s c l :
  good_store stv -> fits max raw -> s_file stv + 1 < 4294967296 ->
  block_steps max net cksum (s_file stv) (s_off stv) raw = (s, c, l) ->
  exists ds0 d,
    c = (N.of_nat (length ds0), len (d ++ record raw)) /\
    l = mkloc (N.of_nat (length ds0)) (len d) (len raw + 12) /\
    len d + (len raw + 12) <= max /\ N.of_nat (length ds0) <= s_file stv + 1 /\
    fext (s_files stv) (map Some (ds0 ++ [d ++ record raw])) /\
    dext stv (map Some (ds0 ++ [d ++ record raw])) /\
    apply_steps s (mkdur (s_files stv) kvv) = mkdur (map Some (ds0 ++ [d ++ record raw])) kvv /\
    (forall Dx, reach s (mkdur (s_files stv) kvv) Dx -> du_kv Dx = kvv /\ dext stv (du_files Dx)).
Proof.
  intros Hg Hf Hfile Hb. pose proof Hf as Hf'. unfold fits in Hf'.
  pose proof (len_record max net cksum Hck Hmax Hnet raw) as Hlr.
  destruct Hg as [Hoff Hst]. unfold block_steps in Hb.
  rewrite (rollover_spec max net cksum Hck Hmax Hnet) in Hb by auto.
  rewrite (full_fits max net Hmax Hnet) in Hb by auto.
  destruct Hst as [->|(ds0 & d & ->)].
  - (* fresh directory *)
    cbn [s_off s_file s_files] in *.
    replace (max <? 0 + (len raw + 12)) with false in Hb by (symmetry; apply N.ltb_ge; lia).
    cbn iota in Hb.
    destruct (appends 0 0 (pieces net cksum raw) [3; 4; 5; 6]) as [sa o2] eqn:E.
    injection Hb as <- <- <-.
    destruct (appends_spec' (pieces net cksum raw) [3; 4; 5; 6] 0 0 [] [] kvv sa o2 eq_refl eq_refl ltac:(change (concat (pieces net cksum raw)) with (record raw); rewrite Hlr; cbn; lia) E) as (Ho & Hap & Hre).
    change (concat (pieces net cksum raw)) with (record raw) in Ho, Hap, Hre.
    exists [], []. split; [now rewrite Ho|]. split; [reflexivity|]. split; [cbn; lia|]. split; [cbn; lia|].
    split; [apply fext_nil|].
    assert (Hd : forall y, len y <= len raw + 12 -> dext (mkstore [] 0 0) (map Some ([] ++ [[] ++ y]))).
    { intros y Hy. left. split; auto. exists [y]. split; [reflexivity|]. apply small1. lia. }
    split; [apply Hd; rewrite Hlr; lia|]. split.
    + cbn [app]. rewrite !apply_steps_cons, !apply_mark, apply_ensure. exact Hap.
    + intros Dx H. cbn [app] in H.
      destruct (reach_cons _ _ _ _ H) as [[_ ->]|[(f & o & dd & m & Hs & _)|H1]]; [|discriminate|].
      { split; [reflexivity|]. left. split; auto. exists []. split; [reflexivity|constructor]. }
      cbn [apply_step du_files du_kv] in H1.
      destruct (reach_cons _ _ _ _ H1) as [[_ ->]|[(f & o & dd & m & Hs & _)|H2]]; [|discriminate|].
      { split; [reflexivity|]. apply (Hd []). cbn; lia. }
      cbn [apply_step] in H2. destruct (Hre _ H2) as (y & -> & Hy). split; [reflexivity|]. apply Hd. rewrite <- Hlr. exact Hy.
  - change (s_off (active ds0 d)) with (len d) in *.
    change (s_file (active ds0 d)) with (N.of_nat (length ds0)) in *.
    change (s_files (active ds0 d)) with (map Some (ds0 ++ [d])) in *.
    destruct (N.ltb_spec max (len d + (len raw + 12))) as [Hr|Hr].
    + (* roll over *)
      assert (Ef : u32 (N.of_nat (length ds0) + 1) = N.of_nat (length (ds0 ++ [d]))).
      { rewrite u32_small by lia. rewrite app_length; simpl; lia. }
      rewrite Ef in Hb. cbn iota in Hb.
      destruct (appends (N.of_nat (length (ds0 ++ [d]))) 0 (pieces net cksum raw) [3; 4; 5; 6]) as [sa o2] eqn:E.
      injection Hb as <- <- <-.
      destruct (appends_spec' (pieces net cksum raw) [3; 4; 5; 6] _ 0 (ds0 ++ [d]) [] kvv sa o2 eq_refl eq_refl ltac:(change (concat (pieces net cksum raw)) with (record raw); rewrite Hlr; cbn; lia) E) as (Ho & Hap & Hre).
      change (concat (pieces net cksum raw)) with (record raw) in Ho, Hap, Hre.
      exists (ds0 ++ [d]), []. split; [now rewrite Ho|]. split; [reflexivity|].
      split; [cbn; lia|]. split; [rewrite app_length; simpl; lia|]. split; [apply fext_new|].
      assert (Hd : forall y, len y <= len raw + 12 -> dext (active ds0 d) (map Some ((ds0 ++ [d]) ++ [[] ++ y]))).
      { intros y Hy. right. exists ds0, d, [], [y]. rewrite app_nil_r, <- app_assoc. split; [reflexivity|]. split; [reflexivity|].
        constructor; [lia|]. apply small1. cbn [app]. lia. }
      split; [apply Hd; rewrite Hlr; lia|].
      assert (He : ensure_file (map Some (ds0 ++ [d])) (N.of_nat (length (ds0 ++ [d]))) = map Some ((ds0 ++ [d]) ++ [[]])).
      { unfold ensure_file. rewrite get_file_map, Nat2N.id.
        replace (nth_error (ds0 ++ [d]) (length (ds0 ++ [d]))) with (@None bytes) by (symmetry; apply nth_error_None; lia).
        unfold set_file. now rewrite Nat2N.id, set_nth_new_some. }
      split.
      * cbn [app]. rewrite !apply_steps_cons, !apply_mark, apply_ensure, He. exact Hap.
      * intros Dx H. cbn [app] in H.
        destruct (reach_cons _ _ _ _ H) as [[_ ->]|[(f & o & dd & m & Hs & _)|H0]]; [|discriminate|].
        { split; [reflexivity|]. apply (dext_refl (active ds0 d)). split; [cbn; lia|right; now exists ds0, d]. }
        cbn [apply_step] in H0.
        destruct (reach_cons _ _ _ _ H0) as [[_ ->]|[(f & o & dd & m & Hs & _)|H1]]; [|discriminate|].
        { split; [reflexivity|]. apply (dext_refl (active ds0 d)). split; [cbn; lia|right; now exists ds0, d]. }
        cbn [apply_step du_files du_kv] in H1. rewrite He in H1.
        destruct (reach_cons _ _ _ _ H1) as [[_ ->]|[(f & o & dd & m & Hs & _)|H2]]; [|discriminate|].
        { split; [reflexivity|]. apply (Hd []). cbn; lia. }
        cbn [apply_step] in H2. destruct (Hre _ H2) as (y & -> & Hy). split; [reflexivity|]. apply Hd. rewrite <- Hlr. exact Hy.
    + (* append to the current file *)
      cbn iota in Hb.
      destruct (appends (N.of_nat (length ds0)) (len d) (pieces net cksum raw) [3; 4; 5; 6]) as [sa o2] eqn:E.
      injection Hb as <- <- <-.
      destruct (appends_spec' (pieces net cksum raw) [3; 4; 5; 6] _ _ ds0 d kvv sa o2 eq_refl eq_refl ltac:(change (concat (pieces net cksum raw)) with (record raw); rewrite Hlr; lia) E) as (Ho & Hap & Hre).
      change (concat (pieces net cksum raw)) with (record raw) in Ho, Hap, Hre.
      exists ds0, d. split; [now rewrite Ho|]. split; [reflexivity|]. split; [lia|]. split; [apply N.le_add_r|]. split; [apply fext_grow|].
      assert (Hd : forall y, len y <= len raw + 12 -> dext (active ds0 d) (map Some (ds0 ++ [d ++ y]))).
      { intros y Hy. right. exists ds0, d, y, []. split; [reflexivity|]. split; [reflexivity|].
        apply small1. rewrite len_app. lia. }
      split; [apply Hd; rewrite Hlr; lia|].
      assert (He : ensure_file (map Some (ds0 ++ [d])) (N.of_nat (length ds0)) = map Some (ds0 ++ [d])).
      { unfold ensure_file. now rewrite get_file_active. }
      split.
      * cbn [app]. rewrite !apply_steps_cons, !apply_mark, apply_ensure, He. exact Hap.
      * intros Dx H. cbn [app] in H.
        destruct (reach_cons _ _ _ _ H) as [[_ ->]|[(f & o & dd & m & Hs & _)|H1]]; [|discriminate|].
        { split; [reflexivity|]. pose proof (Hd [] ltac:(cbn; lia)) as Hd0. rewrite app_nil_r in Hd0. exact Hd0. }
        cbn [apply_step du_files du_kv] in H1. rewrite He in H1.
        destruct (reach_cons _ _ _ _ H1) as [[_ ->]|[(f & o & dd & m & Hs & _)|H2]]; [|discriminate|].
        { split; [reflexivity|]. pose proof (Hd [] ltac:(cbn; lia)) as Hd0. rewrite app_nil_r in Hd0. exact Hd0. }
        cbn [apply_step] in H2. destruct (Hre _ H2) as (y & -> & Hy). split; [reflexivity|]. apply Hd. rewrite <- Hlr. exact Hy.
Qed.

(* ------------------------------------------------------------ consistency *)

(* the key-value store [s] describes logical contents [L] laid out in store [st] *)
Definition kv_ok (s : kv) (L : logical) (st : store) : Prop :=
  s KCursor = Some (ser_wrow cksum (s_file st) (s_off st)) /\
  (forall i raw, nth_error (lg_blocks L) i = Some raw ->
     exists l, s (KBlock (N.of_nat i)) = Some (ser_loc l) /\ placed (s_files st) l raw) /\
  (forall i, N.of_nat (length (lg_blocks L)) <= i -> s (KBlock i) = None) /\
  (forall k, s (KMeta k) = lg_meta L k) /\
  s_file st <= N.of_nat (length (lg_blocks L)) /\
  N.of_nat (length (lg_blocks L)) < 4294967296.

(* a durable state showing exactly [L]: files end at the cursor recorded in the store *)
Definition consistent (D : durable) (L : logical) : Prop :=
  exists st, good_store st /\ du_files D = s_files st /\ kv_ok (du_kv D) L st.
(* the same with possibly more data in the files beyond the recorded cursor *)
Definition pre_ok (D : durable) (L : logical) : Prop :=
  exists st, good_store st /\ kv_ok (du_kv D) L st /\ dext st (du_files D).

Lemma kv_ok_fext s L st st' :
  kv_ok s L st -> fext (s_files st) (s_files st') -> s_file st' = s_file st -> s_off st' = s_off st ->
  kv_ok s L st'.
Proof.
  intros (H1 & H2 & H3 & H4 & H5 & H6) Hx Hf Ho. unfold kv_ok. rewrite Hf, Ho.
  split; [exact H1|]. split; [|auto].
  intros i raw Hn. destruct (H2 i raw Hn) as (l & Hl & Hp). exists l. split; auto.
  eapply placed_ext; eauto.
Qed.

Lemma recover_pre_ok D L : pre_ok D L ->
  exists D' c, recover cksum D = Ok (D', c) /\ consistent D' L /\ du_kv D' = du_kv D.
Proof.
  intros (st & Hg & Hk & Hd). pose proof Hk as (H1 & _ & _ & _ & H5 & H6).
  destruct (reconcile_dext st (du_files D) Hg Hd) as (st' & Hr & Hg' & Hf & Ho & Hx).
  unfold recover. rewrite H1.
  rewrite (deser_ser_wrow max net cksum Hck Hmax Hnet) by (destruct Hg; lia).
  rewrite Hr. eexists; eexists. split; [reflexivity|]. split; [|reflexivity].
  exists st'. split; [exact Hg'|]. split; [reflexivity|]. cbn [du_kv]. eapply kv_ok_fext; eauto.
Qed.

Lemma consistent_fetch D L i : consistent D L ->
  d_fetch net cksum D (N.of_nat i) =
  match nth_error (lg_blocks L) i with Some raw => Ok raw | None => Err ENotFound end.
Proof.
  intros (st & Hg & Hf & (H1 & H2 & H3 & H4 & H5 & H6)). unfold d_fetch.
  destruct (nth_error (lg_blocks L) i) as [raw|] eqn:E.
  - destruct (H2 i raw E) as (l & -> & Hp).
    pose proof Hp as (dd & pre & post & _ & _ & _ & Hll & Hfl & Hm).
    rewrite deser_ser_loc by lia. rewrite Hf.
    exact (read_block_placed max net cksum Hck Hmax Hnet _ _ _ Hp).
  - apply nth_error_None in E. rewrite H3 by lia. reflexivity.
Qed.
Lemma consistent_meta D L k : consistent D L -> d_meta D k = lg_meta L k.
Proof. intros (st & _ & _ & (_ & _ & _ & H4 & _)). apply H4. Qed.

(* ------------------------------------------------------------ all blocks of a commit *)

Lemma blocks_spec blocks : forall stv next kvv s c rows,
  good_store stv -> Forall (fits max) blocks ->
  s_file stv + N.of_nat (length blocks) < 4294967296 ->
  blocks_steps max net cksum (s_file stv) (s_off stv) next blocks = (s, c, rows) ->
  exists stv', good_store stv' /\ c = (s_file stv', s_off stv') /\
    s_file stv' <= s_file stv + N.of_nat (length blocks) /\
    fext (s_files stv) (s_files stv') /\ dext stv (s_files stv') /\
    apply_steps s (mkdur (s_files stv) kvv) = mkdur (s_files stv') kvv /\
    (forall Dx, reach s (mkdur (s_files stv) kvv) Dx -> du_kv Dx = kvv /\ dext stv (du_files Dx)) /\
    (forall i raw, nth_error blocks i = Some raw ->
       exists l, lookup rows (KBlock (next + N.of_nat i)) = Some (Some (ser_loc l)) /\ placed (s_files stv') l raw) /\
    (forall k, (forall i, (i < length blocks)%nat -> k <> KBlock (next + N.of_nat i)) -> lookup rows k = None).
Proof.
  induction blocks as [|raw t IH]; intros stv next kvv s c rows Hg Hfits Hfile Hb.
  - cbn in Hb. injection Hb as <- <- <-. exists stv. split; [exact Hg|]. split; [reflexivity|].
    split; [cbn; lia|]. split; [apply fext_refl|]. split; [now apply dext_refl|]. split; [reflexivity|].
    split; [|split].
    + intros Dx H. apply reach_nil in H. subst. split; [reflexivity|now apply dext_refl].
    + intros i r Hn. destruct i; discriminate.
    + reflexivity.
  - inversion Hfits as [|? ? Hf Hft]; subst. cbn [length] in Hfile.
    cbn [blocks_steps] in Hb.
    destruct (block_steps max net cksum (s_file stv) (s_off stv) raw) as [[s1 [f1 o1]] l] eqn:E1.
    destruct (block_steps_spec stv raw kvv s1 (f1, o1) l Hg Hf ltac:(lia) E1)
      as (ds0 & d & Hc & Hl & Hlen & Hfn & Hx & Hdx & Hap & Hre).
    injection Hc as -> ->.
    set (st1 := active ds0 (d ++ record raw)) in *.
    assert (Hg1 : good_store st1).
    { apply good_active. rewrite len_app, (len_record max net cksum Hck Hmax Hnet). lia. }
    change (N.of_nat (length ds0)) with (s_file st1) in Hb. change (len (d ++ record raw)) with (s_off st1) in Hb.
    destruct (blocks_steps max net cksum (s_file st1) (s_off st1) (next + 1) t) as [[s2 c2] rows2] eqn:E2.
    injection Hb as <- <- <-.
    destruct (IH st1 (next + 1) kvv s2 c2 rows2 Hg1 Hft ltac:(unfold st1; cbn [active s_file]; blia) E2)
      as (stv' & Hg' & Hc2 & Hfn2 & Hx2 & Hdx2 & Hap2 & Hre2 & Hrows & Hnone).
    change (map Some (ds0 ++ [d ++ record raw])) with (s_files st1) in *.
    exists stv'. split; [exact Hg'|]. split; [exact Hc2|].
    split; [unfold st1 in Hfn2; cbn [active s_file] in Hfn2; cbn [length]; blia|].
    split; [eapply fext_trans; eauto|].
    split; [exact (dext_trans stv st1 _ Hg1 Hdx Hdx2)|].
    split; [rewrite apply_steps_app, Hap; exact Hap2|].
    split; [|split].
    + intros Dx H. destruct (reach_app _ _ _ _ H) as [H1|H2].
      * now apply Hre.
      * rewrite Hap in H2. destruct (Hre2 _ H2) as [Hk Hd2]. split; [exact Hk|]. exact (dext_trans stv st1 _ Hg1 Hdx Hd2).
    + intros i r Hn. rewrite lookup_app. destruct i as [|i].
      * cbn in Hn. injection Hn as <-. rewrite Hnone.
        -- cbn [lookup]. rewrite N.add_0_r, key_eqb_refl. exists l. split; [reflexivity|].
           eapply placed_ext; [exact Hx2|]. rewrite Hl.
           exists (d ++ record raw), d, []. cbn [l_file l_off l_len st1 active s_files].
           split; [apply get_file_active|]. split; [now rewrite app_nil_r|]. split; [reflexivity|]. split; [reflexivity|]. split; [blia|lia].
        -- intros j _ Hk. injection Hk. lia.
      * cbn in Hn. destruct (Hrows i r Hn) as (l' & Hl' & Hp').
        replace (next + N.of_nat (S i)) with (next + 1 + N.of_nat i) by lia. rewrite Hl'. now exists l'.
    + intros k Hk. rewrite lookup_app, Hnone.
      * cbn [lookup]. destruct (key_eqb (KBlock next) k) eqn:Ek; [|reflexivity].
        apply key_eqb_eq in Ek. exfalso. apply (Hk 0%nat); [cbn; lia|]. now rewrite N.add_0_r.
      * intros j Hj Hkk. apply (Hk (S j)); [cbn; lia|]. rewrite Hkk. f_equal. lia.
Qed.

(* ------------------------------------------------------------ one item of a session *)

Definition item_fits (it : item) : Prop :=
  match it with ICommit c => Forall (fits max) (c_blocks c) | IClose => True end.
Definition flushes (it : item) : bool :=
  match it with ICommit c => c_flush c | IClose => true end.

(* state of a freshly opened (recovered) database: consistent, cursor known *)
Definition start_ok (D : durable) (c : N * N) (L : logical) : Prop :=
  exists st, good_store st /\ du_files D = s_files st /\ kv_ok (du_kv D) L st /\ c = (s_file st, s_off st).

Lemma start_consistent D c L : start_ok D c L -> consistent D L.
Proof. intros (st & ? & ? & ? & _). now exists st. Qed.

Lemma recover_start D L : pre_ok D L ->
  exists D' c, recover cksum D = Ok (D', c) /\ start_ok D' c L /\ du_kv D' = du_kv D.
Proof.
  intros (st & Hg & Hk & Hd). pose proof Hk as (H1 & _ & _ & _ & H5 & H6).
  destruct (reconcile_dext st (du_files D) Hg Hd) as (st' & Hr & Hg' & Hf & Ho & Hx).
  unfold recover. rewrite H1.
  rewrite (deser_ser_wrow max net cksum Hck Hmax Hnet) by (destruct Hg; lia).
  rewrite Hr. eexists; eexists. split; [reflexivity|]. split; [|reflexivity].
  exists st'. split; [exact Hg'|]. split; [reflexivity|]. split; [|reflexivity].
  cbn [du_kv]. eapply kv_ok_fext; eauto.
Qed.

(* between two items of a running session: [Ld] is durable, [Lv] is what the
   process sees through its cache *)
Definition boundary (D : durable) (m : mem) (Ld Lv : logical) : Prop :=
  exists std stv,
    good_store std /\ kv_ok (du_kv D) Ld std /\ dext std (du_files D) /\
    good_store stv /\ du_files D = s_files stv /\ m_file m = s_file stv /\ m_off m = s_off stv /\
    kv_ok (apply_batch (m_cache m) (du_kv D)) Lv stv /\
    m_next m = N.of_nat (length (lg_blocks Lv)).

Lemma kv_ok_ext s s' L st : (forall k, s k = s' k) -> kv_ok s L st -> kv_ok s' L st.
Proof.
  intros He (H1 & H2 & H3 & H4 & H5). unfold kv_ok. rewrite <- !He. split; [exact H1|]. split; [|split; [|split]].
  - intros i raw Hn. destruct (H2 i raw Hn) as (l & Hl & Hp). exists l. now rewrite <- He.
  - intros i Hi. rewrite <- He. auto.
  - intros k. rewrite <- He. auto.
  - exact H5.
Qed.

Lemma meta_apply_ext f g ops : (forall k, f k = g k) -> forall k, meta_apply f ops k = meta_apply g ops k.
Proof.
  unfold meta_apply. revert f g. induction ops as [|op ops IH]; intros f g H k; cbn [fold_left]; auto.
  apply IH. intros k'. destruct (k' =? fst op); auto.
Qed.

Lemma kv_ok_tx vis Lv stv stv' rows c :
  kv_ok vis Lv stv -> fext (s_files stv) (s_files stv') ->
  s_file stv' <= s_file stv + N.of_nat (length (c_blocks c)) ->
  N.of_nat (length (lg_blocks Lv ++ c_blocks c)) < 4294967296 ->
  (forall i raw, nth_error (c_blocks c) i = Some raw ->
     exists l, lookup rows (KBlock (N.of_nat (length (lg_blocks Lv)) + N.of_nat i)) = Some (Some (ser_loc l)) /\
               placed (s_files stv') l raw) ->
  (forall k, (forall i, (i < length (c_blocks c))%nat -> k <> KBlock (N.of_nat (length (lg_blocks Lv)) + N.of_nat i)) ->
     lookup rows k = None) ->
  kv_ok (apply_batch ((KCursor, Some (ser_wrow cksum (s_file stv') (s_off stv'))) :: rows ++ ops_batch (c_ops c)) vis)
        (log_item Lv (ICommit c)) stv'.
Proof.
  intros (H1 & H2 & H3 & H4 & H5 & H6) Hx Hfn Hcnt Hrows Hnone.
  unfold kv_ok, apply_batch. cbn [log_item lg_blocks lg_meta lookup].
  split; [reflexivity|]. split; [|split; [|split; [|split]]].
  - intros i raw Hn. cbn [key_eqb]. rewrite lookup_app.
    destruct (Nat.lt_ge_cases i (length (lg_blocks Lv))) as [Hlt|Hge].
    + rewrite nth_error_app1 in Hn by exact Hlt.
      rewrite Hnone by (intros j _ Hk; injection Hk; blia).
      rewrite lookup_ops_other by (intros x; discriminate).
      destruct (H2 i raw Hn) as (l & Hl & Hp). exists l. split; [exact Hl|]. eapply placed_ext; eauto.
    + rewrite nth_error_app2 in Hn by exact Hge.
      destruct (Hrows _ _ Hn) as (l & Hl & Hp).
      replace (N.of_nat i) with (N.of_nat (length (lg_blocks Lv)) + N.of_nat (i - length (lg_blocks Lv))) by blia.
      rewrite Hl. now exists l.
  - intros i Hi. cbn [key_eqb]. rewrite lookup_app. rewrite app_length in Hi.
    rewrite Hnone by (intros j Hj Hk; injection Hk; blia).
    rewrite lookup_ops_other by (intros x; discriminate). apply H3. blia.
  - intros k. cbn [key_eqb]. rewrite lookup_app.
    rewrite Hnone by (intros j _ Hk; discriminate).
    rewrite (lookup_ops_meta (c_ops c) (fun x => vis (KMeta x)) k). apply meta_apply_ext. exact H4.
  - rewrite app_length. blia.
  - exact Hcnt.
Qed.

Lemma marks_reach tr D Dx :
  Forall (fun s => exists p, s = SMark p \/ exists f, s = SSync f) tr -> reach tr D Dx -> Dx = D.
Proof. apply reach_marks_only. Qed.

Ltac marks := repeat (constructor; [first [eexists; left; reflexivity | exists 0; right; eexists; reflexivity]|]); constructor.

Lemma blocks_len_mono its : forall L, (length (lg_blocks L) <= length (lg_blocks (log_items L its)))%nat.
Proof.
  induction its as [|it t IH]; intros L; cbn [log_items fold_left]; [lia|].
  etransitivity; [|apply IH]. destruct it; cbn [log_item lg_blocks]; [rewrite app_length|]; lia.
Qed.

Lemma item_spec D m Ld Lv it s m' :
  boundary D m Ld Lv -> item_fits it ->
  N.of_nat (length (lg_blocks (log_item Lv it))) < 4294967296 ->
  item_steps max net cksum m it = (s, m') ->
  (forall Dx, reach s D Dx -> pre_ok Dx Ld \/ pre_ok Dx Lv \/ pre_ok Dx (log_item Lv it)) /\
  boundary (apply_steps s D) m' (if flushes it then log_item Lv it else Ld) (log_item Lv it).
Proof.
  intros (std & stv & Hgd & Hkd & Hdd & Hgv & Hfv & Hmf & Hmo & Hkv & Hnx) Hfit Hcnt Hit.
  destruct D as [fs kvv]. cbn [du_files du_kv] in *. subst fs.
  destruct it as [c|]; cbn [item_steps] in Hit.
  - (* commit *)
    unfold commit_steps in Hit. rewrite Hmf, Hmo, Hnx in Hit.
    destruct (blocks_steps max net cksum (s_file stv) (s_off stv) (N.of_nat (length (lg_blocks Lv))) (c_blocks c))
      as [[sb [f o]] rows] eqn:Eb.
    cbn [log_item lg_blocks] in Hcnt.
    assert (Hfile : s_file stv + N.of_nat (length (c_blocks c)) < 4294967296).
    { destruct Hkv as (_ & _ & _ & _ & H5 & _). rewrite app_length in Hcnt. blia. }
    destruct (blocks_spec (c_blocks c) stv _ kvv sb (f, o) rows Hgv Hfit Hfile Eb)
      as (stv' & Hg' & Hc & Hfn & Hx & Hdx & Hap & Hre & Hrows & Hnone).
    injection Hc as -> ->.
    set (txb := (KCursor, Some (ser_wrow cksum (s_file stv') (s_off stv'))) :: rows ++ ops_batch (c_ops c)) in *.
    set (vis := apply_batch (m_cache m) kvv) in *.
    assert (Hktx : kv_ok (apply_batch txb vis) (log_item Lv (ICommit c)) stv')
      by (apply (kv_ok_tx vis Lv stv stv' rows c); auto).
    assert (Hdd' : dext std (s_files stv')) by exact (dext_trans std stv _ Hgv Hdd Hdx).
    assert (P1 : pre_ok (mkdur (s_files stv') kvv) Ld) by (exists std; auto).
    assert (P2 : pre_ok (mkdur (s_files stv') vis) Lv) by (exists stv; auto).
    assert (P3 : pre_ok (mkdur (s_files stv') (apply_batch txb vis)) (log_item Lv (ICommit c)))
      by (exists stv'; split; [auto|split; [auto|now apply dext_refl]]).
    assert (Rb : forall Dx, reach sb (mkdur (s_files stv) kvv) Dx -> pre_ok Dx Ld).
    { intros Dx H. destruct (Hre _ H) as [Hk Hd]. exists std. split; [auto|]. split; [now rewrite Hk|].
      exact (dext_trans std stv _ Hgv Hdd Hd). }
    destruct (c_flush c) eqn:Efl; apply pair_equal_spec in Hit; destruct Hit as [<- <-]; cbn [flushes]; rewrite Efl.
    + (* flushing commit *)
      split.
      * intros Dx H.
        destruct (reach_app _ _ _ _ H) as [H1|H1]; [left; now apply Rb|]. rewrite Hap in H1.
        destruct (reach_app _ _ _ _ H1) as [H2|H2].
        { left. apply marks_reach in H2; [now subst|marks]. }
        rewrite apply_marks_only in H2 by marks.
        destruct (reach_app _ _ _ _ H2) as [H3|H3].
        { (* inside flush *)
          unfold flush_steps in H3. cbn [m_file m_cache m_done] in H3.
          destruct (reach_app _ _ _ _ H3) as [H4|H4].
          { left. apply marks_reach in H4; [now subst|marks]. }
          rewrite apply_marks_only in H4 by marks.
          destruct (m_cache m) as [|e cache] eqn:Ec.
          { apply reach_nil in H4. left. now subst. }
          destruct (reach_cons _ _ _ _ H4) as [[_ ->]|[(?&?&?&?&Hs&_)|H5]]; [now left|discriminate|].
          rewrite apply_mark in H5.
          destruct (reach_cons _ _ _ _ H5) as [[_ ->]|[(?&?&?&?&Hs&_)|H6]]; [now left|discriminate|].
          cbn [apply_step du_files du_kv] in H6.
          right; left. apply marks_reach in H6; [now subst|marks]. }
        (* after flush: the transaction's own batch *)
        assert (Ef : apply_steps (flush_steps (mkmem (s_file stv') (s_off stv') (m_cache m) (N.of_nat (length (lg_blocks Lv)) + N.of_nat (length (c_blocks c))) (m_done m)))
                       (mkdur (s_files stv') kvv) = mkdur (s_files stv') vis).
        { unfold flush_steps. cbn [m_file m_cache m_done]. rewrite apply_steps_app, (apply_marks_only [SMark 10; SSync (s_file stv'); SMark 11]) by marks.
          unfold vis. destruct (m_cache m) as [|e cache]; [reflexivity|].
          rewrite !apply_steps_cons, !apply_mark. reflexivity. }
        rewrite Ef in H3.
        destruct (reach_cons _ _ _ _ H3) as [[_ ->]|[(?&?&?&?&Hs&_)|H5]]; [now (right; left)|discriminate|].
        rewrite apply_mark in H5.
        destruct (reach_cons _ _ _ _ H5) as [[_ ->]|[(?&?&?&?&Hs&_)|H6]]; [now (right; left)|discriminate|].
        cbn [apply_step du_files du_kv] in H6. fold txb in H6.
        right; right. apply marks_reach in H6; [now subst|marks].
      * (* boundary after a flushing commit *)
        assert (Efin : apply_steps (sb ++ [SMark 8; SMark 9] ++
                          flush_steps (mkmem (s_file stv') (s_off stv') (m_cache m) (N.of_nat (length (lg_blocks Lv)) + N.of_nat (length (c_blocks c))) (m_done m)) ++
                          [SMark 14; SKV (S (m_done m)) txb; SMark 15]) (mkdur (s_files stv) kvv)
                       = mkdur (s_files stv') (apply_batch txb vis)).
        { rewrite apply_steps_app, Hap, apply_steps_app, (apply_marks_only [SMark 8; SMark 9]) by marks.
          rewrite apply_steps_app.
          assert (Ef : apply_steps (flush_steps (mkmem (s_file stv') (s_off stv') (m_cache m) (N.of_nat (length (lg_blocks Lv)) + N.of_nat (length (c_blocks c))) (m_done m)))
                         (mkdur (s_files stv') kvv) = mkdur (s_files stv') vis).
          { unfold flush_steps. cbn [m_file m_cache m_done]. rewrite apply_steps_app, (apply_marks_only [SMark 10; SSync (s_file stv'); SMark 11]) by marks.
            unfold vis. destruct (m_cache m) as [|e cache]; [reflexivity|].
            rewrite !apply_steps_cons, !apply_mark. reflexivity. }
          rewrite Ef, !apply_steps_cons, !apply_mark. reflexivity. }
        fold txb. rewrite Efin.
        exists stv', stv'. cbn [du_files du_kv m_file m_off m_cache m_next].
        split; [exact Hg'|]. split; [exact Hktx|]. split; [now apply dext_refl|]. split; [exact Hg'|]. split; [reflexivity|].
        split; [reflexivity|]. split; [reflexivity|]. split; [exact Hktx|].
        cbn [log_item lg_blocks]. rewrite app_length. blia.
    + (* cached commit: no durable step beyond the block data *)
      split.
      * intros Dx H.
        destruct (reach_app _ _ _ _ H) as [H1|H1]; [left; now apply Rb|]. rewrite Hap in H1.
        left. apply marks_reach in H1; [now subst|marks].
      * rewrite apply_steps_app, Hap, (apply_marks_only [SMark 8; SMark 9]) by marks.
        exists std, stv'. cbn [du_files du_kv m_file m_off m_cache m_next].
        split; [exact Hgd|]. split; [exact Hkd|]. split; [exact Hdd'|]. split; [exact Hg'|]. split; [reflexivity|].
        split; [reflexivity|]. split; [reflexivity|]. split.
        -- fold txb. eapply kv_ok_ext; [|exact Hktx]. intros k. unfold vis. now rewrite apply_batch_app.
        -- cbn [log_item lg_blocks]. rewrite app_length. blia.
  - (* Close *)
    apply pair_equal_spec in Hit. destruct Hit as [<- <-]. cbn [flushes log_item].
    assert (P1 : pre_ok (mkdur (s_files stv) kvv) Ld) by (exists std; auto).
    assert (P2 : pre_ok (mkdur (s_files stv) (apply_batch (m_cache m) kvv)) Lv)
      by (exists stv; split; [auto|split; [auto|now apply dext_refl]]).
    assert (Ef : apply_steps (flush_steps m) (mkdur (s_files stv) kvv) = mkdur (s_files stv) (apply_batch (m_cache m) kvv)).
    { unfold flush_steps. rewrite apply_steps_app, (apply_marks_only [SMark 10; SSync (m_file m); SMark 11]) by marks.
      destruct (m_cache m) as [|e cache]; [reflexivity|].
      rewrite !apply_steps_cons, !apply_mark. reflexivity. }
    split.
    + intros Dx H. unfold flush_steps in H.
      destruct (reach_app _ _ _ _ H) as [H4|H4].
      { left. apply marks_reach in H4; [now subst|marks]. }
      rewrite apply_marks_only in H4 by marks.
      destruct (m_cache m) as [|e cache] eqn:Ec.
      { apply reach_nil in H4. left. now subst. }
      destruct (reach_cons _ _ _ _ H4) as [[_ ->]|[(?&?&?&?&Hs&_)|H5]]; [now left|discriminate|].
      rewrite apply_mark in H5.
      destruct (reach_cons _ _ _ _ H5) as [[_ ->]|[(?&?&?&?&Hs&_)|H6]]; [now left|discriminate|].
      cbn [apply_step du_files du_kv] in H6.
      right; left. apply marks_reach in H6; [now subst|marks].
    + rewrite Ef. exists stv, stv. cbn [du_files du_kv m_file m_off m_cache m_next].
      split; [exact Hgv|]. split; [exact Hkv|]. split; [now apply dext_refl|]. split; [exact Hgv|]. split; [reflexivity|].
      split; [exact Hmf|]. split; [exact Hmo|]. split; [exact Hkv|exact Hnx].
Qed.

(* ------------------------------------------------------------ sessions *)

(* logical state that is durable after the items have completed: the state
   after the last item that flushed *)
Fixpoint durable_log (Ld Lv : logical) (its : list item) : logical :=
  match its with
  | [] => Ld
  | it :: t => let Lv' := log_item Lv it in durable_log (if flushes it then Lv' else Ld) Lv' t
  end.

Definition session_ok (L : logical) (its : list item) : Prop :=
  Forall item_fits its /\ N.of_nat (length (lg_blocks (log_items L its))) < 4294967296.

Lemma session_reach its : forall D m Ld Lv,
  boundary D m Ld Lv -> session_ok Lv its ->
  forall Dx, reach (session_steps max net cksum m its) D Dx ->
  exists L, pre_ok Dx L /\
    ((exists done it rest, its = done ++ it :: rest /\
        (L = durable_log Ld Lv done \/ L = log_items Lv done \/ L = log_items Lv (done ++ [it]))) \/
     L = durable_log Ld Lv its).
Proof.
  induction its as [|it t IH]; intros D m Ld Lv Hb [Hfit Hcnt] Dx H.
  - cbn in H. apply reach_nil in H. subst. exists Ld. split; [|now right].
    destruct Hb as (std & stv & Hgd & Hkd & Hdd & _). now exists std.
  - inversion Hfit as [|? ? Hf1 Hft]; subst. cbn [session_steps] in H.
    destruct (item_steps max net cksum m it) as [s m'] eqn:Ei.
    assert (Hc1 : N.of_nat (length (lg_blocks (log_item Lv it))) < 4294967296).
    { cbn [log_items fold_left] in Hcnt. pose proof (blocks_len_mono t (log_item Lv it)). unfold log_items in *. lia. }
    destruct (item_spec D m Ld Lv it s m' Hb Hf1 Hc1 Ei) as [Hre Hbd].
    destruct (reach_app _ _ _ _ H) as [H1|H1].
    + destruct (Hre _ H1) as [P|[P|P]]; [exists Ld|exists Lv|exists (log_item Lv it)]; (split; [exact P|]);
        left; exists [], it, t; (split; [reflexivity|]); cbn; auto.
    + destruct (IH _ _ _ _ Hbd (conj Hft Hcnt) _ H1) as (L & P & HL). exists L. split; [exact P|].
      destruct HL as [(done & it' & rest & -> & HL)|HL].
      * left. exists (it :: done), it', rest. split; [reflexivity|]. cbn [durable_log log_items fold_left app]. exact HL.
      * right. exact HL.
Qed.

Lemma start_boundary D c L : start_ok D c L ->
  boundary D (mem_of c (N.of_nat (length (lg_blocks L)))) L L.
Proof.
  intros (st & Hg & Hf & Hk & ->). exists st, st. cbn [mem_of m_file m_off m_cache m_next fst snd].
  split; [exact Hg|]. split; [exact Hk|]. split; [rewrite Hf; now apply dext_refl|]. split; [exact Hg|].
  split; [exact Hf|]. split; [reflexivity|]. split; [reflexivity|]. split; [exact Hk|reflexivity].
Qed.

(* crash_atomic: a session running on a freshly opened consistent database is
   cut anywhere (torn write included); reopening succeeds and shows exactly the
   state after the last completed flush, after the last completed commit made
   durable by the interrupted flush, or after the interrupted commit *)
Theorem crash_atomic D c L its Dx :
  start_ok D c L -> session_ok L its ->
  reach (session_steps max net cksum (mem_of c (N.of_nat (length (lg_blocks L)))) its) D Dx ->
  exists L' D' c', recover cksum Dx = Ok (D', c') /\ start_ok D' c' L' /\
    ((exists done it rest, its = done ++ it :: rest /\
        (L' = durable_log L L done \/ L' = log_items L done \/ L' = log_items L (done ++ [it]))) \/
     L' = durable_log L L its).
Proof.
  intros Hs Hok H.
  destruct (session_reach its D _ L L (start_boundary D c L Hs) Hok Dx H) as (L' & P & HL).
  destruct (recover_start Dx L' P) as (D' & c' & Hr & Hs' & _).
  exists L', D', c'. auto.
Qed.

(* with a policy that flushes on every commit the durable state is the last
   completed commit *)
Lemma durable_all_flush its : forall Ld Lv,
  Forall (fun it => flushes it = true) its -> its <> [] -> durable_log Ld Lv its = log_items Lv its.
Proof.
  induction its as [|it t IH]; intros Ld Lv Hall Hne; [congruence|].
  inversion Hall as [|? ? Hf Ht]; subst. cbn [durable_log log_items fold_left]. rewrite Hf.
  destruct t as [|it2 t2]; [reflexivity|]. apply IH; [exact Ht|discriminate].
Qed.
Lemma durable_all_flush' its L :
  Forall (fun it => flushes it = true) its -> durable_log L L its = log_items L its.
Proof. intros H. destruct its; [reflexivity|]. apply durable_all_flush; [exact H|discriminate]. Qed.

Theorem crash_atomic_every_commit_flushes D c L its Dx :
  start_ok D c L -> session_ok L its -> Forall (fun it => flushes it = true) its ->
  reach (session_steps max net cksum (mem_of c (N.of_nat (length (lg_blocks L)))) its) D Dx ->
  exists L' D' c', recover cksum Dx = Ok (D', c') /\ start_ok D' c' L' /\
    ((exists done it rest, its = done ++ it :: rest /\
        (L' = log_items L done \/ L' = log_items L (done ++ [it]))) \/
     L' = log_items L its).
Proof.
  intros Hs Hok Hall H.
  destruct (crash_atomic D c L its Dx Hs Hok H) as (L' & D' & c' & Hr & Hs' & HL).
  exists L', D', c'. split; [exact Hr|]. split; [exact Hs'|].
  destruct HL as [(done & it & rest & -> & HL)|HL].
  - left. exists done, it, rest. split; [reflexivity|].
    apply Forall_app in Hall. destruct Hall as [Hd _].
    rewrite durable_all_flush' in HL by exact Hd. destruct HL as [HL|[HL|HL]]; auto.
  - right. now rewrite durable_all_flush' in HL.
Qed.

(* readable_blocks_complete: what a recovered database serves is exactly the
   blocks of that logical state, each complete; nothing else is readable *)
Theorem readable_blocks_complete D c L i :
  start_ok D c L ->
  d_fetch net cksum D (N.of_nat i) =
    match nth_error (lg_blocks L) i with Some raw => Ok raw | None => Err ENotFound end.
Proof. intros H. apply consistent_fetch. eapply start_consistent; eauto. Qed.
Theorem recovered_metadata D c L k : start_ok D c L -> d_meta D k = lg_meta L k.
Proof. intros H. apply consistent_meta. eapply start_consistent; eauto. Qed.

Lemma session_full its : forall D m Ld Lv,
  boundary D m Ld Lv -> session_ok Lv its ->
  boundary (apply_steps (session_steps max net cksum m its) D) (session_mem max net cksum m its)
           (durable_log Ld Lv its) (log_items Lv its).
Proof.
  induction its as [|it t IH]; intros D m Ld Lv Hb [Hfit Hcnt]; [exact Hb|].
  inversion Hfit as [|? ? Hf1 Hft]; subst. cbn [session_steps session_mem durable_log log_items fold_left].
  destruct (item_steps max net cksum m it) as [s m'] eqn:Ei. cbn [snd].
  assert (Hc1 : N.of_nat (length (lg_blocks (log_item Lv it))) < 4294967296).
  { cbn [log_items fold_left] in Hcnt. pose proof (blocks_len_mono t (log_item Lv it)). unfold log_items in *. lia. }
  destruct (item_spec D m Ld Lv it s m' Hb Hf1 Hc1 Ei) as [_ Hbd].
  rewrite apply_steps_app. apply IH; [exact Hbd|]. split; [exact Hft|exact Hcnt].
Qed.

Lemma durable_log_close its : forall Ld Lv, durable_log Ld Lv (its ++ [IClose]) = log_items Lv its.
Proof. induction its as [|it t IH]; intros Ld Lv; cbn; [reflexivity|apply IH]. Qed.
Lemma log_items_close its L : log_items L (its ++ [IClose]) = log_items L its.
Proof. unfold log_items. now rewrite fold_left_app. Qed.

(* continues_after_recovery: a whole session ending with Close, run on a
   recovered database, leaves a database that reopens to the old contents plus
   all the new commits *)
Theorem continues_after_recovery D c L its :
  start_ok D c L -> session_ok L (its ++ [IClose]) ->
  exists D' c',
    recover cksum (apply_steps (session_steps max net cksum (mem_of c (N.of_nat (length (lg_blocks L)))) (its ++ [IClose])) D)
    = Ok (D', c') /\ start_ok D' c' (log_items L its).
Proof.
  intros Hs Hok.
  pose proof (session_full (its ++ [IClose]) D _ L L (start_boundary D c L Hs) Hok) as Hb.
  rewrite durable_log_close in Hb.
  destruct Hb as (std & stv & Hgd & Hkd & Hdd & _).
  destruct (recover_start _ (log_items L its) (ex_intro _ std (conj Hgd (conj Hkd Hdd)))) as (D' & c' & Hr & Hs' & _).
  now exists D', c'.
Qed.

(* the database made by Create is a valid starting point *)
Lemma start_dur0 : start_ok (dur0 cksum) (0, 0) log0.
Proof.
  exists (mkstore [] 0 0). split; [split; [cbn; lia|now left]|]. split; [reflexivity|]. split; [|reflexivity].
  unfold kv_ok, dur0, kv0, log0. cbn [du_kv lg_blocks lg_meta s_file s_off length].
  split; [reflexivity|]. split; [intros i raw Hn; destruct i; discriminate|].
  split; [reflexivity|]. split; [reflexivity|]. split; cbn; lia.
Qed.
End Crash.
