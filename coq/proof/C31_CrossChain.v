(* C31 proofs about model/C31_CrossChain.v: case analysis on the decision table *)
From Coq Require Import ZArith Bool Lia List.
From ELA Require Import model.C31_CrossChain.
Import ListNotations.
Local Open Scope Z_scope.

Ltac cases :=
  repeat match goal with
  | |- context [?a <? ?b] => destruct (Z.ltb_spec a b)
  | |- context [?a =? ?b] => destruct (Z.eqb_spec a b)
  | H : context [?a <? ?b] |- _ => destruct (Z.ltb_spec a b)
  | H : context [?a =? ?b] |- _ => destruct (Z.eqb_spec a b)
  end.

Theorem freeze_window_rejects tt pv px h fh rh :
  fh <= h < rh -> has_cc px = true ->
  check_crosschain tt pv px h fh rh = false.
Proof.
  intros [H1 H2] Hc. unfold check_crosschain. rewrite Hc.
  destruct (Z.ltb_spec h fh); [lia|]. cbn [orb negb].
  destruct (Z.ltb_spec h rh); [reflexivity|lia].
Qed.

Definition allowed_after (tt pv : Z) (px : list Z) : Prop :=
  (tt = tx_withdraw /\ (pv = 0 \/ pv = 1 \/ pv = 2)) \/
  (tt = tx_return_deposit /\ pv = 0 /\ forallb is_cc px = true).

Theorem check_crosschain_spec tt pv px h fh rh :
  check_crosschain tt pv px h fh rh = true <->
  (h < fh \/ has_cc px = false \/ (rh <= h /\ allowed_after tt pv px)).
Proof.
  unfold check_crosschain, allowed_after, tx_withdraw, tx_return_deposit.
  destruct (has_cc px) eqn:Hc; cbn [negb orb].
  2:{ rewrite orb_true_r. split; auto. }
  rewrite orb_false_r.
  destruct (Z.ltb_spec h fh); [split; auto|].
  destruct (Z.ltb_spec h rh).
  { split; [discriminate|]. intros [?|[?|[? _]]]; [lia|discriminate|lia]. }
  destruct (Z.eqb_spec tt 7) as [->|Ht].
  { rewrite !orb_true_iff, !Z.eqb_eq. split.
    - intros Hv. right; right. split; [lia|]. left. split; [reflexivity|tauto].
    - intros [?|[?|[_ [[_ Hv]|[Ht _]]]]]; [lia|discriminate|tauto|discriminate]. }
  destruct (Z.eqb_spec tt 81) as [->|Ht'].
  2:{ cbn [negb]. split; [discriminate|].
      intros [?|[?|[_ [[? _]|[? _]]]]]; [lia|discriminate|congruence|congruence]. }
  cbn [negb]. destruct (Z.eqb_spec pv 0) as [->|Hv]; cbn [negb].
  - split.
    + intros Hall. right; right. split; [lia|]. right. auto.
    + intros [?|[?|[_ [[? _]|[_ [_ Hall]]]]]]; [lia|discriminate|discriminate|exact Hall].
  - split; [discriminate|].
    intros [?|[?|[_ [[? _]|[_ [? _]]]]]]; [lia|discriminate|discriminate|contradiction].
Qed.

(* from the restriction height on, an accepted spender of a cross-chain UTXO is
   a supported side-chain withdrawal or a legacy deposit return spending only
   cross-chain UTXOs *)
Theorem restriction_allows_only tt pv px h fh rh :
  fh <= h -> rh <= h -> has_cc px = true ->
  check_crosschain tt pv px h fh rh = true -> allowed_after tt pv px.
Proof.
  intros H1 H2 Hc Hk. apply check_crosschain_spec in Hk.
  destruct Hk as [?|[?|[_ Ha]]]; [lia|congruence|exact Ha].
Qed.

(* outside the policy nothing is rejected *)
Theorem policy_inactive_accepts tt pv px h fh rh :
  h < fh \/ has_cc px = false -> check_crosschain tt pv px h fh rh = true.
Proof. intros Hi. apply check_crosschain_spec. tauto. Qed.

(* ---------- configuration ---------- *)

Lemma eq_cps_eq a b : eq_cps a b = true <-> a = b.
Proof.
  revert b. induction a as [|x a IH]; intros [|y b]; cbn [eq_cps]; try (split; [discriminate|discriminate]).
  - tauto.
  - rewrite andb_true_iff, Z.eqb_eq, IH. split; [intros [-> ->]; reflexivity|intros [= -> ->]; auto].
Qed.

Theorem is_mainnet_spec name :
  is_mainnet name = true <->
  (map lower_cp name = [] \/ map lower_cp name = s_mainnet \/ map lower_cp name = s_main).
Proof. unfold is_mainnet. rewrite !orb_true_iff, !eq_cps_eq. tauto. Qed.

Theorem mainnet_constants_forced name cfg_fh cfg_rh :
  is_mainnet name = true ->
  enforce_heights name cfg_fh cfg_rh = (mainnet_freeze, mainnet_restriction) /\
  mainnet_freeze < mainnet_restriction.
Proof. intros Hm. unfold enforce_heights. rewrite Hm. split; [reflexivity|reflexivity]. Qed.

Theorem others_disabled name cfg_fh cfg_rh :
  is_mainnet name = false ->
  enforce_heights name cfg_fh cfg_rh = (disabled_height, disabled_height) /\
  forall tt pv px h, h < disabled_height ->
    node_policy name cfg_fh cfg_rh tt pv px h = true.
Proof.
  intros Hm. unfold node_policy, enforce_heights. rewrite Hm. split; [reflexivity|].
  intros tt pv px h Hh. apply policy_inactive_accepts. left. exact Hh.
Qed.

(* what a mainnet node enforces, whatever its local configuration says *)
Theorem mainnet_policy name cfg_fh cfg_rh tt pv px h :
  is_mainnet name = true -> has_cc px = true ->
  (mainnet_freeze <= h < mainnet_restriction ->
     node_policy name cfg_fh cfg_rh tt pv px h = false) /\
  (mainnet_restriction <= h ->
     node_policy name cfg_fh cfg_rh tt pv px h = true -> allowed_after tt pv px).
Proof.
  intros Hm Hc. unfold node_policy, enforce_heights. rewrite Hm. split.
  - intros Hh. apply freeze_window_rejects; assumption.
  - intros Hh. apply restriction_allows_only; try assumption.
    unfold mainnet_freeze, mainnet_restriction in *. lia.
Qed.
