(* C39 proofs about model/C39_Bloom.v: generic in the 32-bit hash [mm]. *)
From Coq Require Import NArith PeanoNat List Bool Lia.
From ELA Require Import model.C39_Bloom.
Import ListNotations.
Local Open Scope N_scope.

(* ------------------------------------------------------------------ bytes and bits *)

Lemma upd_length bs k g : length (upd bs k g) = length bs.
Proof. revert k; induction bs as [|b r IH]; intros [|k]; simpl; auto. Qed.

Lemma nth_upd_same bs k g :
  nth_error (upd bs k g) k = option_map g (nth_error bs k).
Proof. revert k; induction bs as [|b r IH]; intros [|k]; simpl; auto. Qed.

Lemma nth_upd_other bs k j g : j <> k -> nth_error (upd bs k g) j = nth_error bs j.
Proof.
  revert k j; induction bs as [|b r IH]; intros [|k] [|j] H; simpl; auto; try congruence.
Qed.

Lemma set_bit_length bs idx : length (set_bit bs idx) = length bs.
Proof. apply upd_length. Qed.

Lemma test_set_same bs idx :
  (N.to_nat (idx / 8) < length bs)%nat -> test_bit (set_bit bs idx) idx = true.
Proof.
  intros H. unfold test_bit, set_bit. rewrite nth_upd_same.
  destruct (nth_error bs (N.to_nat (idx / 8))) as [b|] eqn:E.
  - cbn [option_map]. rewrite N.lor_spec, N.shiftl_spec_high' by lia.
    rewrite N.sub_diag. apply orb_true_r.
  - apply nth_error_None in E. lia.
Qed.

Lemma test_set_mono bs idx j :
  test_bit bs j = true -> test_bit (set_bit bs idx) j = true.
Proof.
  unfold test_bit, set_bit. intros H.
  destruct (Nat.eq_dec (N.to_nat (j / 8)) (N.to_nat (idx / 8))) as [e|ne].
  - rewrite e in *. rewrite nth_upd_same.
    destruct (nth_error bs (N.to_nat (idx / 8))); cbn [option_map] in *; [|discriminate].
    rewrite N.lor_spec, H. reflexivity.
  - rewrite nth_upd_other by exact ne. exact H.
Qed.

Section Generic.
Variable mm : N -> list N -> N.

Notation hash_idx := (hash_idx mm).
Notation add_bits := (add_bits mm).
Notation matches_bits := (matches_bits mm).
Notation matches := (matches mm).
Notation add := (add mm).
Notation panics := panics.
Notation match_tx_and_update := (match_tx_and_update mm).
Notation outs_loop := (outs_loop mm).

Lemma nbits_le bs : nbits bs <= blen bs * 8.
Proof. unfold nbits. apply N.mod_le. discriminate. Qed.

Lemma nbits_len a b : length a = length b -> nbits a = nbits b.
Proof. intros H. unfold nbits, blen. rewrite H. reflexivity. Qed.

Lemma hash_idx_in_range bs tw i d :
  nbits bs <> 0 -> (N.to_nat (hash_idx (nbits bs) tw i d / 8) < length bs)%nat.
Proof.
  intros Hn. unfold C39_Bloom.hash_idx.
  pose proof (N.mod_lt (mm (hash_seed tw i) d) (nbits bs) Hn) as Hlt.
  pose proof (nbits_le bs) as Hle. unfold blen in Hle.
  set (x := mm (hash_seed tw i) d mod nbits bs) in *.
  assert (x / 8 < N.of_nat (length bs)).
  { apply N.div_lt_upper_bound; lia. }
  lia.
Qed.

(* the loop of add(), over any list of hash-function numbers *)
Definition add_loop (n : N) (l : list N) (bs : list N) tw d : list N :=
  fold_left (fun acc i => set_bit acc (hash_idx n tw i d)) l bs.

Lemma add_loop_length n l bs tw d : length (add_loop n l bs tw d) = length bs.
Proof.
  revert bs; induction l as [|i l IH]; intros bs; simpl; auto.
  unfold add_loop in *. simpl. rewrite IH. apply set_bit_length.
Qed.

Lemma add_loop_mono n l bs tw d j :
  test_bit bs j = true -> test_bit (add_loop n l bs tw d) j = true.
Proof.
  revert bs; induction l as [|i l IH]; intros bs H; simpl; auto.
  apply IH. apply test_set_mono. exact H.
Qed.

Lemma add_loop_sets l bs0 bs tw d i :
  nbits bs0 <> 0 -> length bs = length bs0 -> In i l ->
  test_bit (add_loop (nbits bs0) l bs tw d) (hash_idx (nbits bs0) tw i d) = true.
Proof.
  intros Hn. revert bs; induction l as [|k l IH]; intros bs Hl Hin; simpl in *; [contradiction|].
  destruct Hin as [->|Hin].
  - apply add_loop_mono. apply test_set_same. rewrite Hl. apply hash_idx_in_range. exact Hn.
  - apply IH; [|exact Hin]. rewrite set_bit_length. exact Hl.
Qed.

Lemma add_bits_length bs hf tw d : length (add_bits bs hf tw d) = length bs.
Proof. apply add_loop_length. Qed.

Lemma add_bits_mono bs hf tw d j :
  test_bit bs j = true -> test_bit (add_bits bs hf tw d) j = true.
Proof. apply add_loop_mono. Qed.

Lemma idxs_pos hf : idxs hf <> [] -> 0 < hf.
Proof.
  unfold idxs. destruct (N.to_nat hf) eqn:E; simpl; [congruence|]. intros _. lia.
Qed.

Lemma matches_bits_after_add bs hf tw d :
  (0 <? hf) && (nbits bs =? 0) = false ->
  matches_bits (add_bits bs hf tw d) hf tw d = true.
Proof.
  intros Hp. unfold C39_Bloom.matches_bits. apply forallb_forall. intros i Hi.
  assert (Hn : nbits bs <> 0).
  { assert (0 < hf) by (apply idxs_pos; intros E; rewrite E in Hi; exact Hi).
    apply andb_false_iff in Hp as [Hp|Hp].
    - apply N.ltb_ge in Hp. lia.
    - apply N.eqb_neq in Hp. exact Hp. }
  rewrite (nbits_len _ bs) by apply add_bits_length.
  apply add_loop_sets; auto.
Qed.

Lemma matches_bits_mono bs bs' hf tw d :
  length bs' = length bs ->
  (forall j, test_bit bs j = true -> test_bit bs' j = true) ->
  matches_bits bs hf tw d = true -> matches_bits bs' hf tw d = true.
Proof.
  intros Hl Hm. unfold C39_Bloom.matches_bits. rewrite !forallb_forall.
  intros H i Hi. rewrite (nbits_len bs' bs) by exact Hl. apply Hm, H, Hi.
Qed.

(* ------------------------------------------------------------------ filters *)

(* [f'] has every bit of [f] and the same parameters *)
Definition extends (f f' : filter) : Prop :=
  length (fbytes f') = length (fbytes f) /\
  hash_funcs f' = hash_funcs f /\ tweak f' = tweak f /\ tx_types f' = tx_types f /\
  forall j, test_bit (fbytes f) j = true -> test_bit (fbytes f') j = true.

Lemma extends_refl f : extends f f.
Proof. unfold extends; auto. Qed.

Lemma extends_trans f g h : extends f g -> extends g h -> extends f h.
Proof.
  intros (a1 & a2 & a3 & a4 & a5) (b1 & b2 & b3 & b4 & b5).
  unfold extends. repeat split; try congruence. auto.
Qed.

Lemma is_empty_length bs bs' : length bs' = length bs -> is_empty bs' = is_empty bs.
Proof. destruct bs, bs'; simpl; congruence. Qed.

Lemma extends_panics f f' : extends f f' -> panics f' = panics f.
Proof.
  intros (a1 & a2 & a3 & a4 & a5). unfold C39_Bloom.panics, nbits, blen.
  rewrite (is_empty_length _ _ a1), a1, a2. reflexivity.
Qed.

Lemma add_extends f d : extends f (add f d).
Proof.
  unfold C39_Bloom.add. destruct (is_empty (fbytes f)); [apply extends_refl|].
  unfold extends, with_bytes; simpl. repeat split; auto.
  - apply add_bits_length.
  - intros j. apply add_bits_mono.
Qed.

Lemma matches_extends f f' x : extends f f' -> matches f x = true -> matches f' x = true.
Proof.
  intros (a1 & a2 & a3 & a4 & a5). unfold C39_Bloom.matches.
  rewrite (is_empty_length _ _ a1). destruct (is_empty (fbytes f)); auto.
  rewrite a2, a3. apply matches_bits_mono; assumption.
Qed.

Lemma matches_after_add f d : panics f = false -> matches (add f d) d = true.
Proof.
  unfold C39_Bloom.panics, C39_Bloom.matches, C39_Bloom.add. intros Hp.
  destruct (is_empty (fbytes f)) eqn:E; [rewrite E; reflexivity|].
  unfold with_bytes; cbn [fbytes hash_funcs tweak negb andb] in *.
  rewrite (is_empty_length (fbytes f)) by apply add_bits_length.
  rewrite E. apply matches_bits_after_add. exact Hp.
Qed.

Lemma add_monotone f d x : matches f x = true -> matches (add f d) x = true.
Proof. apply matches_extends, add_extends. Qed.

Definition add_all (f : filter) (ds : list (list N)) : filter := fold_left add ds f.

Lemma add_all_extends ds f : extends f (add_all f ds).
Proof.
  revert f; induction ds as [|d ds IH]; intros f; simpl; [apply extends_refl|].
  eapply extends_trans; [apply add_extends|apply IH].
Qed.

Lemma matches_after_add_all ds f d :
  panics f = false -> In d ds -> matches (add_all f ds) d = true.
Proof.
  revert f; induction ds as [|e ds IH]; intros f Hp Hin; simpl in *; [contradiction|].
  destruct Hin as [->|Hin].
  - eapply matches_extends; [apply add_all_extends|]. apply matches_after_add, Hp.
  - apply IH; [|exact Hin]. rewrite (extends_panics f); [exact Hp|apply add_extends].
Qed.

(* ------------------------------------------------------------------ transactions *)

Lemma outs_loop_extends outs f h i m : extends f (fst (outs_loop f h i outs m)).
Proof.
  revert f i m; induction outs as [|ph r IH]; intros f i m; simpl; [apply extends_refl|].
  destruct (matches f ph).
  - eapply extends_trans; [apply add_extends|apply IH].
  - apply IH.
Qed.

Lemma outs_loop_matched_mono outs f h i :
  snd (outs_loop f h i outs true) = true.
Proof.
  revert f i; induction outs as [|ph r IH]; intros f i; simpl; auto.
  destruct (matches f ph); apply IH.
Qed.

Lemma outs_loop_hit outs f h i m ph :
  In ph outs -> matches f ph = true -> snd (outs_loop f h i outs m) = true.
Proof.
  revert f i m; induction outs as [|q r IH]; intros f i m Hin Hm; simpl in *; [contradiction|].
  destruct Hin as [->|Hin].
  - rewrite Hm. apply outs_loop_matched_mono.
  - destruct (matches f q) eqn:E.
    + apply IH; [exact Hin|]. apply add_monotone, Hm.
    + apply IH; assumption.
Qed.

(* every output whose program hash matched the incoming filter has its
   outpoint (tx hash, position) in the outgoing filter *)
Lemma outs_loop_adds outs f h i m k ph :
  panics f = false ->
  nth_error outs k = Some ph -> matches f ph = true ->
  matches (fst (outs_loop f h i outs m)) (outpoint_bytes h (i + N.of_nat k)) = true.
Proof.
  revert f i m k; induction outs as [|q r IH]; intros f i m k Hp Hn Hm; [destruct k; discriminate|].
  destruct k as [|k]; simpl in *.
  - injection Hn as ->. rewrite Hm. rewrite N.add_0_r.
    eapply matches_extends; [apply outs_loop_extends|]. apply matches_after_add, Hp.
  - replace (i + N.pos (Pos.of_succ_nat k)) with (i + 1 + N.of_nat k) by lia.
    destruct (matches f q).
    + apply IH; [|exact Hn|apply add_monotone, Hm].
      rewrite (extends_panics f); [exact Hp|apply add_extends].
    + apply IH; assumption.
Qed.

Definition ordinary (f : filter) : Prop := tweak f <> max_u32.

Lemma mtu_ordinary f t :
  ordinary f ->
  match_tx_and_update f t =
    (let '(f', m) := outs_loop f (tx_hash t) 0 (tx_outs t) (matches f (tx_hash t)) in
     if m then (f', true) else (f', existsb (matches f') (tx_ins t))).
Proof.
  intros H. unfold C39_Bloom.match_tx_and_update.
  destruct (N.eqb_spec (tweak f) max_u32); [contradiction|reflexivity].
Qed.

Lemma mtu_extends f t : extends f (fst (match_tx_and_update f t)).
Proof.
  unfold C39_Bloom.match_tx_and_update.
  destruct (tweak f =? max_u32).
  - destruct (_ && _); [apply extends_refl|]. destruct (_ && _); apply extends_refl.
  - pose proof (outs_loop_extends (tx_outs t) f (tx_hash t) 0 (matches f (tx_hash t))) as H.
    destruct (outs_loop _ _ _ _ _) as [f' m]. simpl in H. destruct m; exact H.
Qed.

(* the data a transaction is matched on *)
Definition relevant (t : tx) (d : list N) : Prop :=
  d = tx_hash t \/ In d (tx_outs t) \/ In d (tx_ins t).

Lemma mtu_complete f t d :
  ordinary f -> relevant t d -> matches f d = true ->
  snd (match_tx_and_update f t) = true.
Proof.
  intros Ho Hr Hm. rewrite mtu_ordinary by exact Ho.
  pose proof (outs_loop_extends (tx_outs t) f (tx_hash t) 0 (matches f (tx_hash t))) as Hext.
  destruct Hr as [->|[Hin|Hin]].
  - clear Hext. rewrite Hm.
    pose proof (outs_loop_matched_mono (tx_outs t) f (tx_hash t) 0) as H.
    destruct (outs_loop _ _ _ _ _) as [f' m]. simpl in H. subst m. reflexivity.
  - pose proof (outs_loop_hit (tx_outs t) f (tx_hash t) 0 (matches f (tx_hash t)) d Hin Hm) as H.
    destruct (outs_loop _ _ _ _ _) as [f' m]. simpl in H. subst m. reflexivity.
  - destruct (outs_loop _ _ _ _ _) as [f' m]. simpl in Hext. destruct m; [reflexivity|].
    simpl. apply existsb_exists. exists d. split; [exact Hin|].
    eapply matches_extends; eassumption.
Qed.

Lemma mtu_updates f t k ph :
  ordinary f -> panics f = false ->
  nth_error (tx_outs t) k = Some ph -> matches f ph = true ->
  matches (fst (match_tx_and_update f t)) (outpoint_bytes (tx_hash t) (N.of_nat k)) = true.
Proof.
  intros Ho Hp Hn Hm. rewrite mtu_ordinary by exact Ho.
  pose proof (outs_loop_adds (tx_outs t) f (tx_hash t) 0 (matches f (tx_hash t)) k ph Hp Hn Hm) as H.
  destruct (outs_loop _ _ _ _ _) as [f' m]. simpl in H. destruct m; exact H.
Qed.

(* a match is never reported without a datum of the transaction matching
   (the filter the datum matches may already hold outpoints added for
   earlier outputs of the same transaction, hence [f'']) *)
Lemma outs_loop_only_if outs f h i m :
  snd (outs_loop f h i outs m) = true ->
  m = true \/ exists f'' ph, extends f f'' /\ In ph outs /\ matches f'' ph = true.
Proof.
  revert f i m; induction outs as [|q r IH]; intros f i m H; simpl in *; [auto|].
  destruct (matches f q) eqn:E.
  - right. exists f, q. split; [apply extends_refl|auto].
  - apply IH in H as [H|(f'' & ph & H1 & H2 & H3)]; [auto|].
    right. exists f'', ph. auto.
Qed.

Lemma mtu_only_if f t :
  ordinary f -> snd (match_tx_and_update f t) = true ->
  exists f'' d, extends f f'' /\ relevant t d /\ matches f'' d = true.
Proof.
  intros Ho. rewrite mtu_ordinary by exact Ho.
  pose proof (outs_loop_extends (tx_outs t) f (tx_hash t) 0 (matches f (tx_hash t))) as Hext.
  pose proof (outs_loop_only_if (tx_outs t) f (tx_hash t) 0 (matches f (tx_hash t))) as Hoi.
  destruct (outs_loop _ _ _ _ _) as [f' m]. simpl in *. destruct m; simpl.
  - intros _. destruct (Hoi eq_refl) as [H|(f'' & ph & H1 & H2 & H3)].
    + exists f, (tx_hash t). split; [apply extends_refl|]. split; [left; reflexivity|exact H].
    + exists f'', ph. split; [exact H1|]. split; [right; left; exact H2|exact H3].
  - intros H. apply existsb_exists in H as (d & H1 & H2).
    exists f', d. split; [exact Hext|]. split; [right; right; exact H1|exact H2].
Qed.

(* side chain SPV mode (Tweak = MaxUint32) *)
Lemma mtu_sidechain_type f t :
  tweak f = max_u32 -> In (tx_type t) (tx_types f) ->
  match_tx_and_update f t = (f, true).
Proof.
  intros Ht Hin. unfold C39_Bloom.match_tx_and_update. rewrite Ht, N.eqb_refl.
  assert (mem_N (tx_type t) (tx_types f) = true) as ->.
  { apply existsb_exists. exists (tx_type t). split; [exact Hin|apply N.eqb_refl]. }
  destruct (tx_types f); [contradiction|reflexivity].
Qed.

Lemma mtu_sidechain_output f t ph :
  tweak f = max_u32 -> fbytes f <> [] -> In ph (tx_outs t) -> matches f ph = true ->
  match_tx_and_update f t = (f, true).
Proof.
  intros Ht Hne Hin Hm. unfold C39_Bloom.match_tx_and_update. rewrite Ht, N.eqb_refl.
  destruct (_ && _); [reflexivity|].
  assert (existsb (matches f) (tx_outs t) = true) as ->.
  { apply existsb_exists. exists ph. auto. }
  destruct (fbytes f); [contradiction|reflexivity].
Qed.

End Generic.

(* ------------------------------------------------------------------ statements used by props/C39.v *)

Lemma add_monotone_full mm f d :
  extends f (add mm f d) /\
  forall x, matches mm f x = true -> matches mm (add mm f d) x = true.
Proof. split; [apply add_extends|intros x; apply add_monotone]. Qed.

Lemma tx_match_complete_partial mm f t :
  tweak f <> max_u32 ->
  (forall d, relevant t d -> matches mm f d = true ->
     snd (match_tx_and_update mm f t) = true) /\
  extends f (fst (match_tx_and_update mm f t)) /\
  (panics f = false -> forall k ph,
     nth_error (tx_outs t) k = Some ph -> matches mm f ph = true ->
     matches mm (fst (match_tx_and_update mm f t))
             (outpoint_bytes (tx_hash t) (N.of_nat k)) = true).
Proof.
  intros Ho. split; [|split].
  - intros d. apply mtu_complete. exact Ho.
  - apply mtu_extends.
  - intros Hp k ph. apply mtu_updates; assumption.
Qed.

Lemma tx_watched_matches mm f0 items t d :
  panics f0 = false -> tweak f0 <> max_u32 -> In d items -> relevant t d ->
  snd (match_tx_and_update mm (add_all mm f0 items) t) = true.
Proof.
  intros Hp Ho Hin Hr.
  apply (mtu_complete mm _ t d).
  - unfold ordinary. destruct (add_all_extends mm items f0) as (_ & _ & -> & _). exact Ho.
  - exact Hr.
  - apply matches_after_add_all; assumption.
Qed.

Lemma tx_match_sidechain mm f t :
  tweak f = max_u32 ->
  (In (tx_type t) (tx_types f) -> match_tx_and_update mm f t = (f, true)) /\
  (forall ph, fbytes f <> [] -> In ph (tx_outs t) -> matches mm f ph = true ->
     match_tx_and_update mm f t = (f, true)).
Proof.
  intros Ht. split.
  - apply mtu_sidechain_type. exact Ht.
  - intros ph. apply mtu_sidechain_output. exact Ht.
Qed.

(* ------------------------------------------------------------------ the refuted full statement *)

(* witness = a real transaction (TransferAsset, TxVersion09, no outputs, one
   input spending the outpoint 01 02 .. 22, lock time 0); its hash is the one
   the Go code computes (harness corpus case "fixed", stats.extra) *)
Definition sc_op : list N :=
  [1;2;3;4;5;6;7;8;9;10;11;12;13;14;15;16;17;18;19;20;21;22;23;24;25;26;27;28;29;30;31;32;33;34].
Definition sc_hash : list N :=
  [119;190;160;18;175;56;111;19;98;49;205;112;103;163;141;194;122;94;74;55;39;217;38;61;34;10;136;237;82;200;253;228].
Definition sc_f : filter :=
  add murmur3 (add murmur3 (mkFilter (repeat 0 8%nat) 3 max_u32 []) sc_op) sc_hash.
Definition sc_t : tx := mkTx sc_hash 2 [] [sc_op].

Lemma sidechain_refutes : exists f t d,
  panics f = false /\ In d (tx_ins t) /\ matches murmur3 f d = true /\
  matches murmur3 f (tx_hash t) = true /\
  snd (match_tx_and_update murmur3 f t) = false.
Proof.
  exists sc_f, sc_t, sc_op. vm_compute. repeat split. left; reflexivity.
Qed.
