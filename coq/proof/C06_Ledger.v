(* C06: the unspent index is exactly "created minus spent" of the active chain
   after every history of connects and disconnects; hence no outpoint is spent
   twice on the active chain; double spends are rejected; the mempool input
   slot keeps the pool free of shared outpoints. *)
From Coq Require Import List ZArith NArith Bool Lia Permutation.
From ELA Require Import model.Ledger proof.Ledger_base proof.Ledger_unspent.
Import ListNotations.
Local Open Scope N_scope.

(* ---------------------------------------------------------------- booleans to Prop *)
Lemma op_eqb_eq a b : op_eqb a b = true <-> a = b.
Proof.
  unfold op_eqb. destruct a as [a1 a2], b as [b1 b2]. simpl. rewrite andb_true_iff, !N.eqb_eq.
  split; [intros [-> ->]; reflexivity|intros E; inversion E; auto].
Qed.
Lemma op_eq_dec (a b : outpoint) : {a = b} + {a <> b}.
Proof. decide equality; apply N.eq_dec. Qed.

Lemma existsb_op_in op l : existsb (op_eqb op) l = true <-> In op l.
Proof.
  rewrite existsb_exists. split.
  - intros [x [Hin E]]. apply op_eqb_eq in E. now subst.
  - intros H. exists op. split; [exact H|now apply op_eqb_eq].
Qed.

Lemma dup_free_NoDup {A} (eqb : A -> A -> bool) (Heq : forall a b, eqb a b = true <-> a = b) l :
  dup_free eqb l = true -> NoDup l.
Proof.
  induction l as [|x r IH]; simpl; intros H; [constructor|].
  apply andb_true_iff in H. destruct H as [H1 H2]. constructor; [|now apply IH].
  intros Hin. apply negb_true_iff in H1. assert (E : existsb (eqb x) r = true).
  { apply existsb_exists. exists x. split; [exact Hin|now apply Heq]. }
  congruence.
Qed.

Lemma no_elements_nil {A} (l : list A) : (forall x, ~ In x l) -> l = [].
Proof. destruct l; [reflexivity|]. intros H. exfalso. apply (H a). now left. Qed.

(* ---------------------------------------------------------------- chain facts *)
Definition cids (c : chain) : list N := ids (chain_txs c).
Definition chain_tip (c : chain) : N := match rev c with b :: _ => b_id b | [] => 0 end.

Lemma chain_txs_snoc c b : chain_txs (c ++ [b]) = chain_txs c ++ b_txs b.
Proof. unfold chain_txs. rewrite flat_map_app. simpl. now rewrite app_nil_r. Qed.
Lemma all_spent_snoc c b : all_spent (c ++ [b]) = all_spent c ++ block_spends b.
Proof. unfold all_spent. rewrite chain_txs_snoc, flat_map_app. reflexivity. Qed.
Lemma cids_snoc c b : cids (c ++ [b]) = cids c ++ ids (b_txs b).
Proof. unfold cids, ids. now rewrite chain_txs_snoc, map_app. Qed.
Lemma chain_tip_snoc c b : chain_tip (c ++ [b]) = b_id b.
Proof. unfold chain_tip. now rewrite rev_unit. Qed.

Definition Created (c : chain) (t i : N) : Prop :=
  exists x, In x (chain_txs c) /\ t_id x = t /\ (N.to_nat i < length (t_outs x))%nat.

Lemma created_iff c t i : created c (t, i) = true <-> Created c t i.
Proof.
  unfold created, Created. rewrite existsb_exists. simpl. split.
  - intros [x [Hin H]]. apply andb_true_iff in H. destruct H as [H1 H2].
    exists x. split; [exact Hin|]. split; [now apply N.eqb_eq|now apply Nat.ltb_lt].
  - intros [x [Hin [H1 H2]]]. exists x. split; [exact Hin|]. apply andb_true_iff.
    split; [now apply N.eqb_eq|now apply Nat.ltb_lt].
Qed.

Lemma utxo_set_iff c t i : utxo_set c (t, i) = true <-> Created c t i /\ ~ In (t, i) (all_spent c).
Proof.
  unfold utxo_set. rewrite andb_true_iff, created_iff, negb_true_iff.
  rewrite <- existsb_op_in. destruct (existsb (op_eqb (t, i)) (all_spent c)); intuition congruence.
Qed.

Lemma created_cids c t i : Created c t i -> In t (cids c).
Proof. intros [x [Hin [<- _]]]. unfold cids, ids. now apply in_map. Qed.

Lemma ids_unique txs x y : NoDup (ids txs) -> In x txs -> In y txs -> t_id x = t_id y -> x = y.
Proof.
  induction txs as [|a r IH]; simpl; intros Hnd Hx Hy E; [contradiction|].
  inversion Hnd as [|? ? Hn Hr]; subst.
  destruct Hx as [->|Hx], Hy as [->|Hy]; auto.
  - exfalso. apply Hn. rewrite E. now apply in_map.
  - exfalso. apply Hn. rewrite <- E. now apply in_map.
Qed.

(* ---------------------------------------------------------------- well-formed active chains *)
Inductive wf : chain -> Prop :=
| wf_nil : wf []
| wf_snoc c b : wf c ->
    NoDup (ids (b_txs b)) ->
    (forall t, In t (b_txs b) -> ~ In (t_id t) (cids c)) ->
    NoDup (block_spends b) ->
    (forall op, In op (block_spends b) -> utxo_set c op = true) ->
    (c <> [] -> b_prev b = chain_tip c) ->
    wf (c ++ [b]).

Lemma wf_snoc_inv c b : wf (c ++ [b]) ->
  wf c /\ NoDup (ids (b_txs b)) /\ (forall t, In t (b_txs b) -> ~ In (t_id t) (cids c)) /\
  NoDup (block_spends b) /\ (forall op, In op (block_spends b) -> utxo_set c op = true) /\
  (c <> [] -> b_prev b = chain_tip c).
Proof.
  intros H. inversion H as [E|c0 b0 H0 H1 H2 H3 H4 H5 E].
  - destruct c; discriminate.
  - apply app_inj_tail in E. destruct E as [-> ->]. auto 10.
Qed.

Lemma wf_spent_created c : wf c -> forall op, In op (all_spent c) -> In (fst op) (cids c).
Proof.
  induction 1 as [|c b Hwf IH Hids Hfresh Hnd Hsp Htip]; intros op Hin; [contradiction|].
  rewrite all_spent_snoc in Hin. rewrite cids_snoc. apply in_or_app. left.
  apply in_app_or in Hin. destruct Hin as [Hin|Hin]; [now apply IH|].
  specialize (Hsp op Hin). destruct op as [t i]. apply utxo_set_iff in Hsp. destruct Hsp as [Hc _].
  now apply created_cids in Hc.
Qed.

Lemma NoDup_app_intro {A} (a b : list A) : NoDup a -> NoDup b -> (forall x, In x a -> ~ In x b) -> NoDup (a ++ b).
Proof.
  induction a as [|x r IH]; simpl; intros Ha Hb Hd; [exact Hb|].
  inversion Ha as [|? ? Hn Hr]; subst. constructor.
  - rewrite in_app_iff. intros [H|H]; [contradiction|]. exact (Hd x (or_introl eq_refl) H).
  - apply IH; [assumption|assumption|]. intros y Hy. apply Hd. now right.
Qed.

Lemma wf_ids_nodup c : wf c -> NoDup (cids c).
Proof.
  induction 1 as [|c b Hwf IH Hids Hfresh Hnd Hsp Htip]; [constructor|].
  rewrite cids_snoc. apply NoDup_app_intro; auto.
  intros x Hx Hb. unfold ids in Hb. apply in_map_iff in Hb. destruct Hb as [t [<- Ht]]. now apply (Hfresh t Ht).
Qed.

(* each outpoint is consumed at most once on a well-formed chain *)
Lemma wf_spent_once c : wf c -> NoDup (all_spent c).
Proof.
  induction 1 as [|c b Hwf IH Hids Hfresh Hnd Hsp Htip]; [constructor|].
  rewrite all_spent_snoc. apply NoDup_app_intro; auto.
  intros op Hin Hb. specialize (Hsp op Hb). destruct op as [t i]. apply utxo_set_iff in Hsp. tauto.
Qed.

(* ---------------------------------------------------------------- the invariant *)
Record inv (s : state) (c : chain) : Prop := mkInv {
  inv_wf : wf c;
  inv_tip : c <> [] -> s_tip s = chain_tip c;
  inv_unspent : forall t i, In i (s_unspent s t) <-> utxo_set c (t, i) = true;
  inv_nodup : forall t, NoDup (s_unspent s t);
  inv_txidx : forall t, s_txidx s t = None <-> ~ In t (cids c) }.

Lemma inv_fresh_empty s c t : inv s c -> ~ In t (cids c) -> s_unspent s t = [].
Proof.
  intros I H. apply no_elements_nil. intros i Hi. apply (inv_unspent _ _ I) in Hi.
  apply utxo_set_iff in Hi. destruct Hi as [Hc _]. apply created_cids in Hc. contradiction.
Qed.

(* ---------------------------------------------------------------- projections of save / rollback *)
Definition same5 (s1 s : state) : Prop :=
  s_tip s1 = s_tip s /\ s_txidx s1 = s_txidx s /\ s_unspent s1 = s_unspent s /\ s_addr s1 = s_addr s /\ s_retdep s1 = s_retdep s.

Lemma fold_same5 (f : state -> tx -> state) (Hf : forall s t, same5 (f s t) s) txs : forall s, same5 (fold_left f txs s) s.
Proof.
  induction txs as [|t r IH]; intros s; simpl; [repeat split|].
  destruct (IH (f s t)) as [A1 [A2 [A3 [A4 A5]]]]. destruct (Hf s t) as [B1 [B2 [B3 [B4 B5]]]].
  repeat split; congruence.
Qed.

Lemma save_processors_fields s b : same5 (save_processors s b) s.
Proof. unfold save_processors. apply fold_same5. intros s0 t. repeat split. Qed.
Lemma rollback_processors_fields cf s b : same5 (rollback_processors cf s b) s.
Proof. unfold rollback_processors. apply fold_same5. intros s0 t. repeat split. Qed.

Lemma save_block_fields s b s' : save_block s b = Ok s' ->
  b_prev b = s_tip s /\ s_tip s' = b_id b /\ s_txidx s' = txidx_connect (s_txidx s) b /\
  unspent_connect (s_unspent s) b = Ok (s_unspent s') /\
  utxo_connect (txidx_connect (s_txidx s) b) (s_addr s) b = Ok (s_addr s').
Proof.
  unfold save_block. destruct (N.eqb_spec (b_prev b) (s_tip s)) as [E|]; simpl; [|discriminate].
  destruct (save_processors_fields s b) as [F1 [F2 [F3 [F4 F5]]]]. rewrite F2, F3, F4.
  destruct (unspent_connect (s_unspent s) b) as [un| |]; simpl; try discriminate.
  destruct (utxo_connect (txidx_connect (s_txidx s) b) (s_addr s) b) as [ad| |]; simpl; try discriminate.
  intros H. inversion H; subst. simpl. auto.
Qed.

Lemma rollback_block_fields cf s b s' : rollback_block cf s b = Ok s' ->
  b_id b = s_tip s /\ s_tip s' = b_prev b /\ txidx_disconnect (s_txidx s) b = Ok (s_txidx s') /\
  unspent_disconnect (s_unspent s) b = Ok (s_unspent s') /\
  utxo_disconnect (s_txidx s') (s_addr s) b = Ok (s_addr s').
Proof.
  unfold rollback_block. destruct (N.eqb_spec (b_id b) (s_tip s)) as [E|]; simpl; [|discriminate].
  destruct (rollback_processors_fields cf s b) as [F1 [F2 [F3 [F4 F5]]]]. rewrite F2, F3, F4.
  destruct (txidx_disconnect (s_txidx s) b) as [tix| |]; simpl; try discriminate.
  destruct (unspent_disconnect (s_unspent s) b) as [un| |]; simpl; try discriminate.
  destruct (utxo_disconnect tix (s_addr s) b) as [ad| |] eqn:Ead; simpl; try discriminate.
  intros H. inversion H; subst. simpl. auto.
Qed.

(* ---- tx index *)
Lemma txidx_connect_spec txs (h : N) : forall (m : N -> option (N * tx)) t,
  fold_left (fun m x => upd m (t_id x) (Some (h, x))) txs m t = None <-> (m t = None /\ ~ In t (ids txs)).
Proof.
  induction txs as [|x r IH]; intros m t; simpl; [tauto|].
  rewrite IH. unfold upd. destruct (N.eqb_spec t (t_id x)) as [->|Hne].
  - split; [intros [H _]; discriminate|intros [_ H]; exfalso; apply H; now left].
  - split; [intros [H1 H2]; split; [exact H1|intros [E|E]; [congruence|contradiction]]|intros [H1 H2]; split; [exact H1|tauto]].
Qed.

Lemma txidx_disconnect_spec txs : forall (m m' : N -> option (N * tx)),
  fold_left (fun r x => bind r (fun m : N -> option (N * tx) => match m (t_id x) with None => Err | Some _ => Ok (upd m (t_id x) None) end)) txs (Ok m) = Ok m' ->
  forall t, m' t = None <-> (m t = None \/ In t (ids txs)).
Proof.
  induction txs as [|x r IH]; intros m m' H t; simpl in *.
  - inversion H; subst. tauto.
  - destruct (m (t_id x)) eqn:E.
    + rewrite (IH _ _ H t). unfold upd. destruct (N.eqb_spec t (t_id x)) as [->|Hne].
      * split; [intros _; right; now left|intros _; now left].
      * split; [intros [H1|H1]; auto|intros [H1|[H1|H1]]; auto; congruence].
    + exfalso. clear -H. induction r; simpl in H; [discriminate|auto].
Qed.

(* ---------------------------------------------------------------- what the checks give *)
Lemma sanity_facts b : block_sanity_ok b = true ->
  NoDup (ids (b_txs b)) /\ NoDup (block_spends b) /\
  exists cb rest, b_txs b = cb :: rest /\ t_cb cb = true /\ forall t, In t rest -> t_cb t = false.
Proof.
  unfold block_sanity_ok. destruct (b_txs b) as [|cb rest] eqn:E; [discriminate|].
  rewrite !andb_true_iff. intros [[[H1 H2] H3] H4]. split; [|split].
  - apply (dup_free_NoDup N.eqb N.eqb_eq). exact H3.
  - apply (dup_free_NoDup op_eqb op_eqb_eq). exact H4.
  - exists cb, rest. split; [reflexivity|]. split; [exact H1|].
    intros t Ht. rewrite forallb_forall in H2. specialize (H2 t Ht). unfold tx_sanity_ok in H2.
    rewrite !andb_true_iff in H2. destruct H2 as [[[H _] _] _]. now apply negb_true_iff in H.
Qed.

Lemma context_facts mat cur s b : block_sanity_ok b = true -> block_context_ok cfg_fixed mat cur s b = true ->
  (forall t, In t (b_txs b) -> s_txidx s (t_id t) = None) /\
  (forall op, In op (block_spends b) -> In (snd op) (s_unspent s (fst op))).
Proof.
  intros Hs Hc. destruct (sanity_facts b Hs) as [_ [_ [cb [rest [E [Hcb Hrest]]]]]].
  unfold block_context_ok in Hc. rewrite E in Hc. simpl in Hc. apply andb_true_iff in Hc. destruct Hc as [C1 C2].
  rewrite forallb_forall in C2.
  assert (Hctx : forall t, In t rest -> s_txidx s (t_id t) = None /\ is_double_spend s t = false).
  { intros t Ht. specialize (C2 t Ht). unfold tx_context_ok in C2. rewrite !andb_true_iff in C2.
    destruct C2 as [[[D1 _] D3] _]. split; [destruct (s_txidx s (t_id t)); [discriminate|reflexivity]|now apply negb_true_iff]. }
  split.
  - intros t Ht. rewrite E in Ht. destruct Ht as [<-|Ht]; [destruct (s_txidx s (t_id cb)); [discriminate|reflexivity]|apply Hctx; exact Ht].
  - intros op Hop. unfold block_spends in Hop. rewrite E in Hop. simpl in Hop. unfold spends at 1 in Hop. rewrite Hcb in Hop. simpl in Hop.
    apply in_flat_map in Hop. destruct Hop as [t [Ht Hop]]. unfold spends in Hop. rewrite (Hrest t Ht) in Hop.
    destruct (Hctx t Ht) as [_ Hd]. unfold is_double_spend in Hd.
    assert (Hx : existsb (N.eqb (snd op)) (s_unspent s (fst op)) = true).
    { destruct (existsb (N.eqb (snd op)) (s_unspent s (fst op))) eqn:Ex; [reflexivity|].
      exfalso. assert (existsb (fun op0 : outpoint => negb (existsb (N.eqb (snd op0)) (s_unspent s (fst op0)))) (t_ins t) = true).
      { apply existsb_exists. exists op. split; [exact Hop|]. now rewrite Ex. } congruence. }
    apply existsb_exists in Hx. destruct Hx as [x [Hx E']]. apply N.eqb_eq in E'. now subst.
Qed.

(* ---------------------------------------------------------------- connect preserves the invariant *)
Theorem save_inv s c b s' :
  inv s c -> save_block s b = Ok s' ->
  NoDup (ids (b_txs b)) -> NoDup (block_spends b) ->
  (forall t, In t (b_txs b) -> s_txidx s (t_id t) = None) ->
  (forall op, In op (block_spends b) -> In (snd op) (s_unspent s (fst op))) ->
  inv s' (c ++ [b]).
Proof.
  intros I Hsave Hids Hsp Hfresh0 Hunsp.
  destruct (save_block_fields _ _ _ Hsave) as [Hprev [Ftip [Ftx [Fun _]]]].
  assert (Hfresh : forall t, In t (b_txs b) -> ~ In (t_id t) (cids c)).
  { intros t Ht. apply (inv_txidx _ _ I). now apply Hfresh0. }
  assert (Hutxo : forall op, In op (block_spends b) -> utxo_set c op = true).
  { intros [t i] Hop. apply (inv_unspent _ _ I). now apply (Hunsp (t, i)). }
  assert (Hwf : wf (c ++ [b])).
  { constructor; auto using (inv_wf _ _ I). intros Hne. rewrite Hprev. now apply (inv_tip _ _ I). }
  assert (Hnoref : forall op, In op (block_spends b) -> ~ In (fst op) (ids (b_txs b))).
  { intros [t i] Hop Hin. unfold ids in Hin. apply in_map_iff in Hin. destruct Hin as [x [E Hx]].
    specialize (Hutxo _ Hop). apply utxo_set_iff in Hutxo. destruct Hutxo as [Hcr _]. apply created_cids in Hcr.
    simpl in E. rewrite <- E in Hcr. now apply (Hfresh x Hx). }
  assert (Hkey : forall k, s_unspent s' k = kf_txs k (b_txs b) (s_unspent s k)).
  { intros k. apply (unspent_connect_key _ _ _ _ Fun). intros t Ht. eapply inv_fresh_empty; eauto. }
  (* per key description of the new index *)
  assert (Hnew : forall k, (NoDup (s_unspent s' k)) /\ forall i, In i (s_unspent s' k) <-> utxo_set (c ++ [b]) (k, i) = true).
  { intros k. rewrite Hkey. destruct (in_dec N.eq_dec k (ids (b_txs b))) as [Hin|Hnin].
    - (* a transaction of the block *)
      unfold ids in Hin. apply in_map_iff in Hin. destruct Hin as [x [E Hx]]. subst k.
      rewrite kf_txs_noref.
      2:{ intros op Hop Eo. apply (Hnoref op Hop). rewrite Eo. unfold ids. now apply in_map. }
      rewrite (inv_fresh_empty _ _ _ I (Hfresh x Hx)). simpl. rewrite flat_pick_unique by assumption.
      split; [apply idxs_nodup|]. intros i. rewrite idxs_in, utxo_set_iff. split.
      + intros Hlt. split.
        * exists x. split; [rewrite chain_txs_snoc; apply in_or_app; now right|auto].
        * rewrite all_spent_snoc, in_app_iff. intros [Hsp'|Hsp'].
          -- apply (wf_spent_created _ (inv_wf _ _ I)) in Hsp'. now apply (Hfresh x Hx).
          -- apply (Hnoref _ Hsp'). simpl. unfold ids. now apply in_map.
      + intros [[y [Hy [E Hlt]]] _]. rewrite chain_txs_snoc in Hy. apply in_app_or in Hy. destruct Hy as [Hy|Hy].
        * exfalso. apply (Hfresh x Hx). rewrite <- E. unfold cids, ids. now apply in_map.
        * rewrite (ids_unique _ x y Hids Hx Hy (eq_sym E)). exact Hlt.
    - rewrite kf_txs_notid by assumption.
      destruct (kf_ins_spec k (flat_map spends (b_txs b)) _ (inv_nodup _ _ I k)) as [K1 K2].
      split; [exact K1|]. intros i. rewrite K2, (inv_unspent _ _ I), !utxo_set_iff, all_spent_snoc, in_app_iff.
      fold (block_spends b). split.
      + intros [[Hcr Hns] Hnb]. split; [|tauto].
        destruct Hcr as [x [Hx [E Hlt]]]. exists x. split; [rewrite chain_txs_snoc; apply in_or_app; now left|auto].
      + intros [[x [Hx [E Hlt]]] Hns]. split; [split|]; [|tauto|tauto].
        rewrite chain_txs_snoc in Hx. apply in_app_or in Hx. destruct Hx as [Hx|Hx]; [exists x; auto|].
        exfalso. apply Hnin. rewrite <- E. unfold ids. now apply in_map. }
  constructor.
  - exact Hwf.
  - intros _. rewrite chain_tip_snoc. exact Ftip.
  - intros t i. apply (Hnew t).
  - intros t. apply (Hnew t).
  - intros t. rewrite Ftx. unfold txidx_connect. rewrite txidx_connect_spec, cids_snoc, in_app_iff, (inv_txidx _ _ I). tauto.
Qed.

Theorem connect_inv mat cur s c b s' :
  inv s c -> connect cfg_fixed mat cur s b = Accepted s' -> inv s' (c ++ [b]).
Proof.
  intros I H. unfold connect in H.
  destruct (block_sanity_ok b) eqn:Hs; simpl in H; [|discriminate].
  destruct (block_context_ok cfg_fixed mat cur s b) eqn:Hc; simpl in H; [|discriminate].
  destruct (N.eqb_spec (b_prev b) (s_tip s)) as [Hprev|]; [|discriminate]. simpl in H.
  destruct (b_height b =? cur + 1); [|discriminate].
  destruct (save_block s b) as [s1| |] eqn:Hsave; try discriminate. inversion H; subst s1. clear H.
  destruct (sanity_facts b Hs) as [Hids [Hsp _]].
  destruct (context_facts _ _ _ _ Hs Hc) as [Hfresh0 Hunsp].
  eapply save_inv; eauto.
Qed.

Lemma inv_empty tip : inv (empty_state tip) [].
Proof.
  constructor; simpl.
  - constructor.
  - intros H. now elim H.
  - intros t i. split; [intros []|]. unfold utxo_set, created. simpl. discriminate.
  - intros t. constructor.
  - intros t. split; [intros _ []|reflexivity].
Qed.

(* the index catch-up of a genesis block that spends nothing *)
Theorem init_inv g s0 :
  init_state g = Ok s0 -> NoDup (ids (b_txs g)) -> block_spends g = [] -> inv s0 [g].
Proof.
  intros H Hids Hsp. change [g] with ([] ++ [g]). eapply save_inv; [apply (inv_empty (b_prev g))|exact H|exact Hids| | |].
  - rewrite Hsp. constructor.
  - intros t _. reflexivity.
  - rewrite Hsp. intros op [].
Qed.


(* ---------------------------------------------------------------- disconnect preserves the invariant *)
Lemma dk_txs_noref_tid k txs : forall l, (forall op, In op (flat_map spends txs) -> fst op <> k) ->
  dk_txs k txs l = [] \/ dk_txs k txs l = l.
Proof.
  induction txs as [|t r IH]; intros l Href; simpl; [now right|].
  assert (Ht : dk_tx k t l = [] \/ dk_tx k t l = l).
  { unfold dk_tx. assert (Hs : forall op, In op (spends t) -> fst op <> k) by (intros; apply Href; simpl; apply in_or_app; now left).
    unfold spends in Hs. destruct ((t_id t =? k) && _); destruct (t_cb t); auto; rewrite dk_ins_untouched by exact Hs; auto. }
  assert (Href' : forall op, In op (flat_map spends r) -> fst op <> k) by (intros; apply Href; simpl; apply in_or_app; now right).
  destruct Ht as [-> | ->].
  - destruct (IH [] Href') as [E|E]; left; exact E.
  - apply IH. exact Href'.
Qed.

Theorem rollback_inv cf s c b s' :
  inv s (c ++ [b]) -> c <> [] -> rollback_block cf s b = Ok s' -> inv s' c.
Proof.
  intros I Hne H.
  destruct (rollback_block_fields _ _ _ _ H) as [_ [Ftip [Ftx [Fun _]]]].
  destruct (wf_snoc_inv _ _ (inv_wf _ _ I)) as [Hwf [Hids [Hfresh [Hsp [Hutxo Hlink]]]]].
  assert (Hnoref : forall op, In op (block_spends b) -> ~ In (fst op) (ids (b_txs b))).
  { intros [t i] Hop Hin. unfold ids in Hin. apply in_map_iff in Hin. destruct Hin as [x [E Hx]].
    specialize (Hutxo _ Hop). apply utxo_set_iff in Hutxo. destruct Hutxo as [Hcr _]. apply created_cids in Hcr.
    simpl in E. rewrite <- E in Hcr. now apply (Hfresh x Hx). }
  assert (Hkey : forall k, s_unspent s' k = dk_txs k (b_txs b) (s_unspent s k)).
  { intros k. apply (unspent_disconnect_key _ _ _ _ Fun). exact Hnoref. }
  assert (Hnew : forall k, NoDup (s_unspent s' k) /\ forall i, In i (s_unspent s' k) <-> utxo_set c (k, i) = true).
  { intros k. rewrite Hkey. destruct (in_dec N.eq_dec k (ids (b_txs b))) as [Hin|Hnin].
    - (* entries of the block's own transactions disappear *)
      assert (Hnc : ~ In k (cids c)).
      { unfold ids in Hin. apply in_map_iff in Hin. destruct Hin as [x [E Hx]]. subst k. now apply Hfresh. }
      assert (Hempty : dk_txs k (b_txs b) (s_unspent s k) = []).
      { destruct (dk_txs_noref_tid k (b_txs b) (s_unspent s k)) as [E|E].
        - intros op Hop Eo. apply (Hnoref op Hop). now rewrite Eo.
        - exact E.
        - (* nothing was deleted: then the entry was empty already or the deletion hit it *)
          unfold ids in Hin. apply in_map_iff in Hin. destruct Hin as [x [Ex Hx]]. subst k.
          destruct (t_outs x) eqn:Eo.
          + rewrite E. apply no_elements_nil. intros i Hi. apply (inv_unspent _ _ I) in Hi. apply utxo_set_iff in Hi.
            destruct Hi as [[y [Hy [Ey Hlt]]] _]. rewrite chain_txs_snoc in Hy. apply in_app_or in Hy. destruct Hy as [Hy|Hy].
            * apply Hnc. rewrite <- Ey. unfold cids, ids. now apply in_map.
            * rewrite <- (ids_unique _ x y Hids Hx Hy (eq_sym Ey)) in Hlt. rewrite Eo in Hlt. simpl in Hlt. lia.
          + (* outputs non-empty: the deletion emptied it *)
            apply dk_txs_tid.
            * intros op Hop Eop. apply (Hnoref op Hop). rewrite Eop. unfold ids. now apply in_map.
            * exists x. split; [exact Hx|]. split; [reflexivity|]. rewrite Eo. discriminate. }
      rewrite Hempty. split; [constructor|]. intros i. split; [intros []|].
      intros Hu. apply utxo_set_iff in Hu. destruct Hu as [Hc _]. apply created_cids in Hc. contradiction.
    - rewrite dk_txs_notid by assumption. fold (block_spends b). split.
      + apply dk_ins_nodup; [apply (inv_nodup _ _ I)|exact Hsp|].
        intros i Hi Hb. apply (inv_unspent _ _ I) in Hi. apply utxo_set_iff in Hi. destruct Hi as [_ Hns].
        apply Hns. rewrite all_spent_snoc. apply in_or_app. now right.
      + intros i. rewrite dk_ins_spec, (inv_unspent _ _ I). split.
        * intros [Hu|Hb]; [|now apply Hutxo]. apply utxo_set_iff in Hu. apply utxo_set_iff.
          destruct Hu as [[x [Hx [E Hlt]]] Hns]. rewrite all_spent_snoc, in_app_iff in Hns. split; [|tauto].
          rewrite chain_txs_snoc in Hx. apply in_app_or in Hx. destruct Hx as [Hx|Hx]; [exists x; auto|].
          exfalso. apply Hnin. rewrite <- E. unfold ids. now apply in_map.
        * intros Hu. destruct (in_dec op_eq_dec (k, i) (block_spends b)) as [Hb|Hnb]; [now right|left].
          apply utxo_set_iff in Hu. apply utxo_set_iff. destruct Hu as [[x [Hx [E Hlt]]] Hns]. split.
          -- exists x. split; [rewrite chain_txs_snoc; apply in_or_app; now left|auto].
          -- rewrite all_spent_snoc, in_app_iff. tauto. }
  constructor.
  - exact Hwf.
  - intros _. rewrite Ftip. now apply Hlink.
  - intros t i. apply (Hnew t).
  - intros t. apply (Hnew t).
  - intros t. unfold txidx_disconnect in Ftx. rewrite (txidx_disconnect_spec _ _ _ Ftx t), (inv_txidx _ _ I), cids_snoc, in_app_iff.
    split.
    + intros [H1|H1]; [tauto|].
      unfold ids in H1. apply in_map_iff in H1. destruct H1 as [x [<- Hx]]. now apply Hfresh.
    + intros Hn. destruct (in_dec N.eq_dec t (ids (b_txs b))) as [Hb|Hb]; [now right|left; tauto].
Qed.

(* ---------------------------------------------------------------- all histories *)
Definition Inv (st : state * chain) : Prop := inv (fst st) (snd st) /\ snd st <> [].

Lemma hstep_inv mat st e : Inv st -> Inv (hstep_run cfg_fixed mat st e).
Proof.
  destruct st as [s c]. intros [I Hne]. simpl in *. destruct e as [b|]; simpl.
  - destruct (connect cfg_fixed mat (chain_height c) s b) as [s'| |] eqn:E; try (split; assumption).
    split; simpl; [eapply connect_inv; eauto|]. destruct c; discriminate.
  - destruct (rev c) as [|b [|b2 r]] eqn:Er; try (split; assumption).
    assert (Ec : c = rev (b2 :: r) ++ [b]).
    { rewrite <- (rev_involutive c), Er. reflexivity. }
    destruct (rollback_block cfg_fixed s b) as [s'| |] eqn:E; try (split; assumption).
    assert (Erl : removelast c = rev (b2 :: r)).
    { rewrite Ec. apply removelast_last. }
    rewrite Erl. assert (Hne' : rev (b2 :: r) <> []).
    { simpl. destruct (rev r); discriminate. }
    split; [|exact Hne']. cbn [fst snd]. eapply rollback_inv; [|exact Hne'|exact E]. rewrite <- Ec. exact I.
Qed.

Theorem history_inv mat h : forall st, Inv st -> Inv (history_run cfg_fixed mat st h).
Proof.
  induction h as [|e r IH]; intros st H; simpl; [exact H|]. apply IH. now apply hstep_inv.
Qed.

Theorem spent_once mat st h : Inv st -> NoDup (all_spent (snd (history_run cfg_fixed mat st h))).
Proof. intros H. apply wf_spent_once. apply (inv_wf _ _ (proj1 (history_inv mat h st H))). Qed.

Theorem unspent_exact mat st h : Inv st ->
  let '(s, c) := history_run cfg_fixed mat st h in
  forall t i, In i (s_unspent s t) <-> utxo_set c (t, i) = true.
Proof.
  intros H. pose proof (history_inv mat h st H) as [I _].
  destruct (history_run cfg_fixed mat st h) as [s c]. exact (inv_unspent _ _ I).
Qed.

(* ---------------------------------------------------------------- rejections *)
Lemma NoDup_dup_free {A} (eqb : A -> A -> bool) (Heq : forall a b, eqb a b = true <-> a = b) l :
  NoDup l -> dup_free eqb l = true.
Proof.
  induction 1 as [|x r Hn Hr IH]; simpl; [reflexivity|]. rewrite IH, andb_true_r. apply negb_true_iff.
  destruct (existsb (eqb x) r) eqn:E; [|reflexivity]. apply existsb_exists in E. destruct E as [y [Hy E]].
  apply Heq in E. subst. contradiction.
Qed.

Theorem reject_double cf mat cur s c b :
  inv s c ->
  (~ NoDup (block_spends b) \/ exists op, In op (block_spends b) /\ utxo_set c op = false) ->
  connect cf mat cur s b = Rejected.
Proof.
  intros I H. unfold connect.
  destruct (block_sanity_ok b) eqn:Hs; simpl; [|reflexivity].
  destruct (block_context_ok cf mat cur s b) eqn:Hc; simpl; [|reflexivity]. exfalso.
  destruct (sanity_facts b Hs) as [_ [Hnd [cb [rest [E [Hcb Hrest]]]]]].
  destruct H as [H|[op [Hop Hu]]]; [contradiction|].
  unfold block_context_ok in Hc. rewrite E in Hc. apply andb_true_iff in Hc. destruct Hc as [_ C2].
  rewrite forallb_forall in C2.
  unfold block_spends in Hop. rewrite E in Hop. simpl in Hop. unfold spends at 1 in Hop. rewrite Hcb in Hop. simpl in Hop.
  apply in_flat_map in Hop. destruct Hop as [t [Ht Hop]]. unfold spends in Hop. rewrite (Hrest t Ht) in Hop.
  specialize (C2 t Ht). unfold tx_context_ok in C2. rewrite !andb_true_iff in C2. destruct C2 as [[_ D] _].
  apply negb_true_iff in D. unfold is_double_spend in D.
  assert (Hx : existsb (fun op0 : outpoint => negb (existsb (N.eqb (snd op0)) (s_unspent s (fst op0)))) (t_ins t) = true).
  { apply existsb_exists. exists op. split; [exact Hop|]. apply negb_true_iff.
    destruct (existsb (N.eqb (snd op)) (s_unspent s (fst op))) eqn:Ex; [|reflexivity].
    apply existsb_exists in Ex. destruct Ex as [x [Hx E']]. apply N.eqb_eq in E'. subst x.
    destruct op as [t0 i0]. apply (inv_unspent _ _ I) in Hx. simpl in *. congruence. }
  congruence.
Qed.

(* a rejected or failed step leaves the ledger as it was *)
Theorem rejected_unchanged cf mat st b :
  (forall s', connect cf mat (chain_height (snd st)) (fst st) b <> Accepted s') ->
  hstep_run cf mat st (HConnect b) = st.
Proof.
  destruct st as [s c]. simpl. intros H. destruct (connect cf mat (chain_height c) s b) eqn:E; try reflexivity.
  exfalso. now apply (H s0).
Qed.
