(* VarInt: the Bitcoin-style canonical variable-length integer of
   common/serialize.go (WriteVarUint / ReadVarUint).  Executable part only. *)
From Coq Require Import NArith List.
From ELA Require Import lib.Bytes.
Import ListNotations.
Local Open Scope N_scope.

Definition varint_enc (n : N) : bytes :=
  if n <? 253 then [n]
  else if n <=? 65535 then 253 :: le_enc 2 n
  else if n <=? 4294967295 then 254 :: le_enc 4 n
  else 255 :: le_enc 8 n.

(* ReadVarUint: None = error (short read or non-canonical encoding) *)
Definition varint_dec (bs : bytes) : option (N * bytes) :=
  match bs with
  | [] => None
  | d :: r =>
    if d =? 255 then
      match take 8 r with
      | Some (h, t) => let v := le_val h in if v <? 4294967296 then None else Some (v, t)
      | None => None
      end
    else if d =? 254 then
      match take 4 r with
      | Some (h, t) => let v := le_val h in if v <? 65536 then None else Some (v, t)
      | None => None
      end
    else if d =? 253 then
      match take 2 r with
      | Some (h, t) => let v := le_val h in if v <? 253 then None else Some (v, t)
      | None => None
      end
    else Some (d, r)
  end.

(* number of bytes a failing ReadVarUint has consumed from the reader (the
   discriminant and whatever io.ReadFull got of the rest) *)
Definition varint_fail_consumed (bs : bytes) : nat :=
  match bs with
  | [] => O
  | d :: r =>
    let w := if d =? 255 then 8%nat else if d =? 254 then 4%nat else if d =? 253 then 2%nat else O in
    S (Nat.min w (length r))
  end.
