(* C23_codec2: further combinators on top of lib/C23_codec.v (that file is left
   untouched):

   - [c_bind]   a field whose layout depends on a value read earlier
                (wallet.Coin: the Output layout depends on TxVersion);
   - [c_listn], [c_mapn]  "count, then entries" with an arbitrary count codec
                (the wallet checkpoint writes counts as uint32, not varint);
   - [c_tagged3] a one-byte tag followed by one of three bodies
                (dpos/state ArbiterMember);
   - receivers: [rcodec] = a codec together with the decoder AS A METHOD ON A
                RECEIVER, [deci old wire]: Go's Deserialize is called on a value
                that may already hold data (Manager.Restore deserialises into
                the registered checkpoint, ProposalKeyFrame.Snapshot into
                NewProposalKeyFrame()).  [replaces r] says the result never
                depends on what the receiver held. *)
From Coq Require Import List NArith Bool Lia Permutation Sorted.
From ELA Require Import lib.Bytes lib.VarInt lib.C23_codec.
Import ListNotations.
Local Open Scope N_scope.

(* ---------------------------------------------------------------- dependent pair *)

Definition c_bind {A B} (ca : codec A) (cb : A -> codec B) : codec (A * B) := {|
  wf := fun p => wf ca (fst p) /\ wf (cb (fst p)) (snd p);
  encs := fun p bs => exists b1 b2, encs ca (fst p) b1 /\ encs (cb (fst p)) (snd p) b2 /\ bs = b1 ++ b2;
  enc := fun p => enc ca (fst p) ++ enc (cb (fst p)) (snd p);
  dec := fun bs => match dec ca bs with
                   | Some (a, t) => match dec (cb a) t with
                                    | Some (b, t') => Some ((a, b), t')
                                    | None => None end
                   | None => None end;
  eqb := fun p q => eqb ca (fst p) (fst q) && eqb (cb (fst p)) (snd p) (snd q) |}.

Lemma c_bind_ok {A B} (ca : codec A) (cb : A -> codec B) :
  codec_ok ca -> (forall a, codec_ok (cb a)) -> codec_ok (c_bind ca cb).
Proof.
  intros Ha Hb. split; simpl.
  - intros [a b] [W1 W2]; simpl in *. exists (enc ca a), (enc (cb a) b).
    repeat split; [apply (enc_encs ca Ha) | apply (enc_encs _ (Hb a))]; auto.
  - intros [a b] bs rest [W1 W2] (b1 & b2 & E1 & E2 & ->); simpl in *.
    rewrite <- app_assoc. rewrite (dec_encs ca Ha a b1 _ W1 E1).
    rewrite (dec_encs _ (Hb a) b b2 _ W2 E2). reflexivity.
Qed.

(* a codec nothing belongs to (unknown tag / unknown output type) *)
Definition c_fail (A : Type) : codec A := {|
  wf := fun _ => False;
  encs := fun _ _ => False;
  enc := fun _ => [];
  dec := fun _ => None;
  eqb := fun _ _ => false |}.

Lemma c_fail_ok A : codec_ok (c_fail A).
Proof. split; simpl; intros; contradiction. Qed.

(* optional trailer: absent (no bytes) or present *)
Definition c_none (A : Type) : codec (option A) := {|
  wf := fun o => o = None;
  encs := fun _ bs => bs = [];
  enc := fun _ => [];
  dec := fun bs => Some (None, bs);
  eqb := fun x y => match x, y with None, None => true | _, _ => false end |}.

Lemma c_none_ok A : codec_ok (c_none A).
Proof.
  split; simpl.
  - intros a W. reflexivity.
  - intros a bs rest W E. subst. reflexivity.
Qed.

Definition c_some {A} (c : codec A) : codec (option A) := {|
  wf := fun o => match o with Some a => wf c a | None => False end;
  encs := fun o bs => match o with Some a => encs c a bs | None => False end;
  enc := fun o => match o with Some a => enc c a | None => [] end;
  dec := fun bs => match dec c bs with Some (a, t) => Some (Some a, t) | None => None end;
  eqb := fun x y => match x, y with Some a, Some b => eqb c a b | _, _ => false end |}.

Lemma c_some_ok {A} (c : codec A) : codec_ok c -> codec_ok (c_some c).
Proof.
  intros H. split; simpl.
  - intros [a|] W; [apply (enc_encs c H); auto | contradiction].
  - intros [a|] bs rest W E; [|contradiction]. rewrite (dec_encs c H _ _ _ W E). reflexivity.
Qed.

(* ---------------------------------------------------------------- counts of any width *)

Definition c_listn {A} (cn : codec N) (c : codec A) : codec (list A) := {|
  wf := fun l => Forall (wf c) l /\ wf cn (N.of_nat (length l));
  encs := fun l bs => exists bn bss, encs cn (N.of_nat (length l)) bn /\ Forall2 (encs c) l bss /\
                                     bs = bn ++ concat bss;
  enc := fun l => enc cn (N.of_nat (length l)) ++ concat (map (enc c) l);
  dec := fun bs => match dec cn bs with
                   | Some (n, t) => dec_n (dec c) (N.to_nat n) t
                   | None => None end;
  eqb := list_eqb (eqb c) |}.

Lemma c_listn_ok {A} (cn : codec N) (c : codec A) :
  codec_ok cn -> codec_ok c -> codec_ok (c_listn cn c).
Proof.
  intros Hn H. split; simpl.
  - intros l [W L]. exists (enc cn (N.of_nat (length l))), (map (enc c) l).
    repeat split; [apply (enc_encs cn Hn); auto | apply Forall2_enc; auto].
  - intros l bs rest [W L] (bn & bss & En & F & ->).
    rewrite <- app_assoc. rewrite (dec_encs cn Hn _ bn _ L En).
    rewrite Nnat.Nat2N.id. apply dec_n_encs; auto.
Qed.

Definition c_mapn {K V} (cn : codec N) (o : ord K) (ck : codec K) (cv : codec V) : codec (list (K * V)) := {|
  wf := fun m => wf (c_listn cn (c_pair ck cv)) m /\ StronglySorted (klt o) m;
  encs := fun m bs => exists l, Permutation l m /\ encs (c_listn cn (c_pair ck cv)) l bs;
  enc := enc (c_listn cn (c_pair ck cv));
  dec := fun bs => match dec (c_listn cn (c_pair ck cv)) bs with
                   | Some (l, t) => Some (of_list o l, t)
                   | None => None end;
  eqb := eqb (c_listn cn (c_pair ck cv)) |}.

Lemma c_mapn_ok {K V} (cn : codec N) (o : ord K) (ck : codec K) (cv : codec V) :
  codec_ok cn -> codec_ok ck -> codec_ok cv -> codec_ok (c_mapn cn o ck cv).
Proof.
  intros Hn Hk Hv. pose proof (c_listn_ok cn _ Hn (c_pair_ok _ _ Hk Hv)) as HL.
  split; cbn [wf encs enc dec c_mapn].
  - intros m [W S]. exists m. split; auto. apply (enc_encs _ HL); auto.
  - intros m bs rest [W S] (l & P & E).
    assert (Wl : wf (c_listn cn (c_pair ck cv)) l).
    { destruct W as [W1 W2]. split.
      - rewrite Forall_forall in *. intros e I. apply W1. apply (Permutation_in _ P); auto.
      - rewrite (Permutation_length P). auto. }
    rewrite (dec_encs _ HL l bs rest Wl E). rewrite (of_list_perm o l m S P). reflexivity.
Qed.

(* lexicographic order on pairs of keys (wallet: (owner, outpoint)) *)
Definition ord_pair {A B} (oa : ord A) (ob : ord B) : ord (A * B).
Proof.
  refine {| ltb := fun p q => ltb oa (fst p) (fst q) ||
                              (negb (ltb oa (fst q) (fst p)) && ltb ob (snd p) (snd q)) |}.
  - intros [a b]. simpl. rewrite (ltb_irrefl oa), (ltb_irrefl ob). reflexivity.
  - intros [a1 b1] [a2 b2] [a3 b3]; simpl. intros H1 H2.
    apply orb_true_iff in H1, H2. apply orb_true_iff.
    destruct H1 as [H1|H1], H2 as [H2|H2].
    + left. eapply (ltb_trans oa); eauto.
    + apply andb_true_iff in H2. destruct H2 as [N2 L2]. apply negb_true_iff in N2.
      destruct (ltb oa a2 a3) eqn:E.
      * left. eapply (ltb_trans oa); eauto.
      * assert (a2 = a3) by (apply (ltb_total oa); auto). subst. auto.
    + apply andb_true_iff in H1. destruct H1 as [N1 L1]. apply negb_true_iff in N1.
      destruct (ltb oa a1 a2) eqn:E.
      * left. eapply (ltb_trans oa); eauto.
      * assert (a1 = a2) by (apply (ltb_total oa); auto). subst. auto.
    + apply andb_true_iff in H1, H2. destruct H1 as [N1 L1], H2 as [N2 L2].
      apply negb_true_iff in N1, N2.
      destruct (ltb oa a1 a2) eqn:E1.
      * destruct (ltb oa a2 a3) eqn:E2; [left; eapply (ltb_trans oa); eauto|].
        assert (a2 = a3) by (apply (ltb_total oa); auto). subst. auto.
      * assert (a1 = a2) by (apply (ltb_total oa); auto). subst.
        destruct (ltb oa a2 a3) eqn:E2; auto.
        right. rewrite N2. simpl. eapply (ltb_trans ob); eauto.
  - intros [a1 b1] [a2 b2]; simpl. intros H1 H2.
    apply orb_false_iff in H1, H2. destruct H1 as [A1 B1], H2 as [A2 B2].
    assert (a1 = a2) by (apply (ltb_total oa); auto). subst.
    rewrite (ltb_irrefl oa) in B1, B2. simpl in *. f_equal. apply (ltb_total ob); auto.
Defined.

(* ---------------------------------------------------------------- tagged union of three *)

Inductive sum3 (A B C : Type) : Type := In1 (a : A) | In2 (b : B) | In3 (c : C).
Arguments In1 {A B C}. Arguments In2 {A B C}. Arguments In3 {A B C}.

(* [t1 t2 t3] are the tag bytes written; [alias2] is a second tag that is read
   like t2 (dpos/state: CROrigin is read as a dposArbiter, which writes DPoS) *)
Definition c_tagged3 {A B C} (t1 t2 t3 alias2 : N) (c1 : codec A) (c2 : codec B) (c3 : codec C)
  : codec (sum3 A B C) := {|
  wf := fun x => match x with In1 a => wf c1 a | In2 b => wf c2 b | In3 c => wf c3 c end;
  encs := fun x bs => match x with
                      | In1 a => exists b, encs c1 a b /\ bs = t1 :: b
                      | In2 v => exists b, encs c2 v b /\ bs = t2 :: b
                      | In3 v => exists b, encs c3 v b /\ bs = t3 :: b end;
  enc := fun x => match x with In1 a => t1 :: enc c1 a | In2 v => t2 :: enc c2 v | In3 v => t3 :: enc c3 v end;
  dec := fun bs => match bs with
                   | [] => None
                   | t :: r =>
                     if t =? t1 then match dec c1 r with Some (a, r') => Some (In1 a, r') | None => None end
                     else if (t =? t2) || (t =? alias2) then
                       match dec c2 r with Some (a, r') => Some (In2 a, r') | None => None end
                     else if t =? t3 then match dec c3 r with Some (a, r') => Some (In3 a, r') | None => None end
                     else None
                   end;
  eqb := fun x y => match x, y with
                    | In1 a, In1 b => eqb c1 a b | In2 a, In2 b => eqb c2 a b | In3 a, In3 b => eqb c3 a b
                    | _, _ => false end |}.

Lemma c_tagged3_ok {A B C} t1 t2 t3 alias2 (c1 : codec A) (c2 : codec B) (c3 : codec C) :
  t1 <> t2 -> t1 <> t3 -> t2 <> t3 -> t1 <> alias2 -> t3 <> alias2 ->
  codec_ok c1 -> codec_ok c2 -> codec_ok c3 -> codec_ok (c_tagged3 t1 t2 t3 alias2 c1 c2 c3).
Proof.
  intros N12 N13 N23 N1a N3a H1 H2 H3. split; cbn [wf encs enc dec c_tagged3].
  - intros [a|b|c] W; eexists; split; try reflexivity;
      [apply (enc_encs c1 H1) | apply (enc_encs c2 H2) | apply (enc_encs c3 H3)]; auto.
  - intros [a|b|c] bs rest W (b0 & E & ->); rewrite <- app_comm_cons.
    + rewrite N.eqb_refl. rewrite (dec_encs c1 H1 _ _ _ W E). reflexivity.
    + assert (E1 : (t2 =? t1) = false) by (apply N.eqb_neq; auto).
      rewrite E1, N.eqb_refl. simpl. rewrite (dec_encs c2 H2 _ _ _ W E). reflexivity.
    + assert (E1 : (t3 =? t1) = false) by (apply N.eqb_neq; auto).
      assert (E2 : (t3 =? t2) = false) by (apply N.eqb_neq; auto).
      assert (E3 : (t3 =? alias2) = false) by (apply N.eqb_neq; auto).
      rewrite E1, E2, E3, N.eqb_refl. simpl. rewrite (dec_encs c3 H3 _ _ _ W E). reflexivity.
Qed.

(* ---------------------------------------------------------------- receivers *)

Record rcodec (A : Type) : Type := {
  rc : codec A;
  deci : A -> bytes -> option (A * bytes);   (* receiver's old value -> new value *)
}.
Arguments rc {A}. Arguments deci {A}.

(* the decoded value never depends on what the receiver held *)
Definition replaces {A} (r : rcodec A) : Prop := forall old bs, deci r old bs = dec (rc r) bs.

(* "recv.F, err = readF(r)", "ReadElements(r, &recv.F)", "recv.F = make(..); fill":
   the field is overwritten by a value built from the wire alone *)
Definition r_assign {A} (c : codec A) : rcodec A := {| rc := c; deci := fun _ => dec c |}.

(* a struct whose Deserialize handles field after field *)
Definition r_pair {A B} (ra : rcodec A) (rb : rcodec B) : rcodec (A * B) := {|
  rc := c_pair (rc ra) (rc rb);
  deci := fun old bs => match deci ra (fst old) bs with
                        | Some (a, t) => match deci rb (snd old) t with
                                         | Some (b, t') => Some ((a, b), t')
                                         | None => None end
                        | None => None end |}.

(* "recv.L = append(recv.L, x)" without a reset: the list read from the wire is
   appended to what the receiver already holds *)
Definition r_list_append {A} (c : codec A) : rcodec (list A) := {|
  rc := c_list c;
  deci := fun old bs => match dec (c_list c) bs with
                        | Some (l, t) => Some (old ++ l, t)
                        | None => None end |}.

(* "recv.M[k] = v" for every wire entry without a reset: the receiver's map is
   updated, entries it held under other keys stay *)
Definition r_map_merge {K V} (cn : codec N) (o : ord K) (ck : codec K) (cv : codec V) : rcodec (list (K * V)) := {|
  rc := c_mapn cn o ck cv;
  deci := fun old bs => match dec (c_listn cn (c_pair ck cv)) bs with
                        | Some (l, t) => Some (fold_left (fun m e => insert o (fst e) (snd e) m) l old, t)
                        | None => None end |}.

Lemma r_assign_replaces {A} (c : codec A) : replaces (r_assign c).
Proof. intros old bs. reflexivity. Qed.

Lemma r_pair_replaces {A B} (ra : rcodec A) (rb : rcodec B) :
  replaces ra -> replaces rb -> replaces (r_pair ra rb).
Proof.
  intros Ha Hb [oa ob] bs. cbn [deci r_pair rc dec c_pair fst snd].
  rewrite Ha. destruct (dec (rc ra) bs) as [[a t]|]; auto. rewrite Hb. reflexivity.
Qed.

(* a struct all of whose fields are assigned is itself "assigned": handling the
   fields one by one is the same function as decoding the struct afresh *)
Lemma r_pair_assign {A B} (ca : codec A) (cb : codec B) :
  forall old bs, deci (r_pair (r_assign ca) (r_assign cb)) old bs = deci (r_assign (c_pair ca cb)) old bs.
Proof. intros old bs. reflexivity. Qed.

(* restore into ANY receiver *)
Lemma restore_into {A} (r : rcodec A) : replaces r -> codec_ok (rc r) ->
  forall old x wire rest, wf (rc r) x -> encs (rc r) x wire ->
  deci r old (wire ++ rest) = Some (x, rest).
Proof. intros R H old x wire rest W E. rewrite R. apply (dec_encs _ H); auto. Qed.

(* the merging map decoder is exact when the receiver is empty *)
Lemma r_map_merge_empty {K V} (cn : codec N) (o : ord K) (ck : codec K) (cv : codec V) :
  forall bs, deci (r_map_merge cn o ck cv) [] bs = dec (c_mapn cn o ck cv) bs.
Proof. intros bs. reflexivity. Qed.
