(* C23_codec: codec combinators for the key-frame / checkpoint wire format of
   Elastos.ELA (common/serialize.go primitives + the "count, then entries"
   layout every Serialize in dpos/state, cr/state, mempool and wallet uses).

   A codec for A packages
     wf    : which values are in the domain (lengths/counts fit their prefix,
             maps are given in canonical form: strictly sorted by key),
     encs  : the RELATION "Serialize may write these bytes for this value".
             It is a relation, not a function, because Go iterates maps in an
             unspecified order: the bytes of a key frame are not canonical.
     enc   : one particular encoding (maps written in key order),
     dec   : the decoder (a function; Go maps are rebuilt by insertion, which
             is modelled by [of_list], insertion into a sorted association
             list with later entries overwriting earlier ones),
     eqb   : executable equality used by the correspondence only.

   [codec_ok] is the round-trip law
       wf a -> encs a bs -> dec (bs ++ rest) = Some (a, rest)
   for EVERY bytes the relation allows, i.e. for every iteration order, and
   [enc a] is one such bytes.  Each combinator preserves [codec_ok]. *)
From Coq Require Import List NArith Bool Lia Permutation Sorted.
From ELA Require Import lib.Bytes lib.VarInt.
Import ListNotations.
Local Open Scope N_scope.

(* ---------------------------------------------------------------- facts about
   lib/Bytes.v and lib/VarInt.v needed below (kept local: this file imports
   only the definitions of those libraries) *)

Lemma c23_take_app : forall h t, take (length h) (h ++ t) = Some (h, t).
Proof. induction h; intros; simpl; auto. rewrite IHh. reflexivity. Qed.

Lemma c23_take_N_app : forall h t, take_N (N.of_nat (length h)) (h ++ t) = Some (h, t).
Proof.
  unfold take_N. induction h as [|b h IH]; intros t.
  - destruct t; reflexivity.
  - cbn [length app take_Nf].
    destruct (N.eqb_spec (N.of_nat (S (length h))) 0) as [E|_]; [lia|].
    replace (N.pred (N.of_nat (S (length h)))) with (N.of_nat (length h)) by lia.
    rewrite IH. reflexivity.
Qed.

Lemma c23_le_enc_length : forall w n, length (le_enc w n) = w.
Proof. induction w; intros; simpl; auto. Qed.

Lemma c23_pow256_S : forall w, pow256 (S w) = 256 * pow256 w.
Proof.
  intros. unfold pow256. rewrite Nnat.Nat2N.inj_succ.
  replace (8 * N.succ (N.of_nat w)) with (8 + 8 * N.of_nat w) by lia.
  rewrite N.pow_add_r. reflexivity.
Qed.

Lemma c23_le_val_enc : forall w n, n < pow256 w -> le_val (le_enc w n) = n.
Proof.
  induction w; intros n H.
  - change (pow256 0) with 1 in H. simpl. lia.
  - rewrite c23_pow256_S in H. cbn [le_enc le_val]. rewrite IHw.
    + pose proof (N.div_mod n 256). lia.
    + apply N.div_lt_upper_bound; lia.
Qed.

Lemma c23_le_dec_enc : forall w n t, n < pow256 w ->
  match take w (le_enc w n ++ t) with Some (h, t') => Some (le_val h, t') | None => None end = Some (n, t).
Proof.
  intros. rewrite <- (c23_le_enc_length w n) at 1. rewrite c23_take_app.
  rewrite c23_le_val_enc; auto.
Qed.

Lemma c23_varint_dec_enc : forall n t, n < 18446744073709551616 ->
  varint_dec (varint_enc n ++ t) = Some (n, t).
Proof.
  intros n t H. unfold varint_enc.
  destruct (n <? 253) eqn:E1.
  - apply N.ltb_lt in E1. cbn [app varint_dec].
    assert (A : (n =? 255) = false) by (apply N.eqb_neq; lia).
    assert (B : (n =? 254) = false) by (apply N.eqb_neq; lia).
    assert (C : (n =? 253) = false) by (apply N.eqb_neq; lia).
    rewrite A, B, C. reflexivity.
  - apply N.ltb_ge in E1. destruct (n <=? 65535) eqn:E2.
    + apply N.leb_le in E2. rewrite <- app_comm_cons. unfold varint_dec.
      change (253 =? 255) with false. change (253 =? 254) with false. change (253 =? 253) with true.
      cbv iota. rewrite <- (c23_le_enc_length 2 n) at 1. rewrite c23_take_app.
      rewrite c23_le_val_enc by (change (pow256 2) with 65536; lia).
      assert (A : (n <? 253) = false) by (apply N.ltb_ge; lia). rewrite A. reflexivity.
    + apply N.leb_gt in E2. destruct (n <=? 4294967295) eqn:E3.
      * apply N.leb_le in E3. rewrite <- app_comm_cons. unfold varint_dec.
        change (254 =? 255) with false. change (254 =? 254) with true.
        cbv iota. rewrite <- (c23_le_enc_length 4 n) at 1. rewrite c23_take_app.
        rewrite c23_le_val_enc by (change (pow256 4) with 4294967296; lia).
        assert (A : (n <? 65536) = false) by (apply N.ltb_ge; lia). rewrite A. reflexivity.
      * apply N.leb_gt in E3. rewrite <- app_comm_cons. unfold varint_dec.
        change (255 =? 255) with true.
        cbv iota. rewrite <- (c23_le_enc_length 8 n) at 1. rewrite c23_take_app.
        rewrite c23_le_val_enc by (change (pow256 8) with 18446744073709551616; lia).
        assert (A : (n <? 4294967296) = false) by (apply N.ltb_ge; lia). rewrite A. reflexivity.
Qed.

Record codec (A : Type) : Type := {
  wf : A -> Prop;
  encs : A -> bytes -> Prop;
  enc : A -> bytes;
  dec : bytes -> option (A * bytes);
  eqb : A -> A -> bool;
}.
Arguments wf {A}. Arguments encs {A}. Arguments enc {A}. Arguments dec {A}. Arguments eqb {A}.

Record codec_ok {A} (c : codec A) : Prop := {
  enc_encs : forall a, wf c a -> encs c a (enc c a);
  dec_encs : forall a bs rest, wf c a -> encs c a bs -> dec c (bs ++ rest) = Some (a, rest);
}.

Lemma dec_enc {A} (c : codec A) : codec_ok c ->
  forall a rest, wf c a -> dec c (enc c a ++ rest) = Some (a, rest).
Proof. intros H a rest W. apply (dec_encs c H); auto. apply (enc_encs c H); auto. Qed.

(* ---------------------------------------------------------------- scalars *)

(* WriteUint8/16/32/64, Fixed64 (two's complement bits as an unsigned number) *)
Definition c_uint (w : nat) : codec N := {|
  wf := fun x => x < pow256 w;
  encs := fun x bs => bs = le_enc w x;
  enc := fun x => le_enc w x;
  dec := fun bs => match take w bs with Some (h, t) => Some (le_val h, t) | None => None end;
  eqb := N.eqb |}.

Lemma c_uint_ok w : codec_ok (c_uint w).
Proof.
  split; simpl.
  - intros a W. reflexivity.
  - intros a bs rest W E. subst. apply c23_le_dec_enc; auto.
Qed.

(* WriteElement of a bool / ReadElement into a bool: one byte, any non-zero reads as true *)
Definition c_bool : codec bool := {|
  wf := fun _ => True;
  encs := fun (b : bool) bs => bs = [if b then 1 else 0];
  enc := fun (b : bool) => [if b then 1 else 0];
  dec := fun bs => match bs with [] => None | x :: t => Some (negb (x =? 0), t) end;
  eqb := Bool.eqb |}.

Lemma c_bool_ok : codec_ok c_bool.
Proof.
  split; simpl.
  - intros a W. reflexivity.
  - intros a bs rest W E. subst. destruct a; reflexivity.
Qed.

(* WriteVarUint / ReadVarUint (canonical) *)
Definition c_varuint : codec N := {|
  wf := fun x => x < 18446744073709551616;
  encs := fun x bs => bs = varint_enc x;
  enc := varint_enc;
  dec := varint_dec;
  eqb := N.eqb |}.

Lemma c_varuint_ok : codec_ok c_varuint.
Proof.
  split; simpl.
  - intros a W. reflexivity.
  - intros a bs rest W E. subst. apply c23_varint_dec_enc; auto.
Qed.

(* Uint168 / Uint256 / OutPoint.TxID: n raw bytes *)
Definition c_fixed (n : nat) : codec bytes := {|
  wf := fun a => length a = n;
  encs := fun a bs => bs = a;
  enc := fun a => a;
  dec := take n;
  eqb := bytes_eqb |}.

Lemma c_fixed_ok n : codec_ok (c_fixed n).
Proof.
  split; simpl.
  - intros a W. reflexivity.
  - intros a bs rest W E. subst. apply c23_take_app.
Qed.

(* WriteVarBytes / ReadVarBytes(max), WriteVarString / ReadVarString *)
Definition c_varbytes (max : N) : codec bytes := {|
  wf := fun a => N.of_nat (length a) <= max /\ max < 18446744073709551616;
  encs := fun a bs => bs = varint_enc (N.of_nat (length a)) ++ a;
  enc := fun a => varint_enc (N.of_nat (length a)) ++ a;
  dec := fun bs => match varint_dec bs with
                   | Some (n, t) => if max <? n then None else take_N n t
                   | None => None end;
  eqb := bytes_eqb |}.

Lemma c_varbytes_ok max : codec_ok (c_varbytes max).
Proof.
  split; simpl; [intros a W; reflexivity|].
  intros a bs rest [H1 H2] E. subst.
  rewrite <- app_assoc. rewrite c23_varint_dec_enc by lia.
  assert (E : (max <? N.of_nat (length a)) = false) by (apply N.ltb_ge; lia).
  rewrite E. apply c23_take_N_app.
Qed.

Definition max_var_string : N := 16777216.
Definition c_string : codec bytes := c_varbytes max_var_string.

(* a value that occupies no bytes (sets are maps to unit) *)
Definition c_unit : codec unit := {|
  wf := fun _ => True;
  encs := fun _ bs => bs = [];
  enc := fun _ => [];
  dec := fun bs => Some (tt, bs);
  eqb := fun _ _ => true |}.

Lemma c_unit_ok : codec_ok c_unit.
Proof.
  split; simpl.
  - intros a W. reflexivity.
  - intros a bs rest W E. subst. destruct a. reflexivity.
Qed.

(* ---------------------------------------------------------------- sequencing *)

Definition c_pair {A B} (ca : codec A) (cb : codec B) : codec (A * B) := {|
  wf := fun p => wf ca (fst p) /\ wf cb (snd p);
  encs := fun p bs => exists b1 b2, encs ca (fst p) b1 /\ encs cb (snd p) b2 /\ bs = b1 ++ b2;
  enc := fun p => enc ca (fst p) ++ enc cb (snd p);
  dec := fun bs => match dec ca bs with
                   | Some (a, t) => match dec cb t with
                                    | Some (b, t') => Some ((a, b), t')
                                    | None => None end
                   | None => None end;
  eqb := fun p q => eqb ca (fst p) (fst q) && eqb cb (snd p) (snd q) |}.

Lemma c_pair_ok {A B} (ca : codec A) (cb : codec B) :
  codec_ok ca -> codec_ok cb -> codec_ok (c_pair ca cb).
Proof.
  intros Ha Hb. split; simpl.
  - intros [a b] [W1 W2]; simpl in *. exists (enc ca a), (enc cb b).
    repeat split; [apply (enc_encs ca Ha) | apply (enc_encs cb Hb)]; auto.
  - intros [a b] bs rest [W1 W2] (b1 & b2 & E1 & E2 & ->); simpl in *.
    rewrite <- app_assoc. rewrite (dec_encs ca Ha a b1 _ W1 E1).
    rewrite (dec_encs cb Hb b b2 _ W2 E2). reflexivity.
Qed.

(* change of representation (records, enumerations) *)
Definition c_iso {A B} (f : A -> B) (g : B -> A) (c : codec A) : codec B := {|
  wf := fun b => wf c (g b) /\ f (g b) = b;
  encs := fun b bs => encs c (g b) bs;
  enc := fun b => enc c (g b);
  dec := fun bs => match dec c bs with Some (a, t) => Some (f a, t) | None => None end;
  eqb := fun x y => eqb c (g x) (g y) |}.

Lemma c_iso_ok {A B} (f : A -> B) (g : B -> A) (c : codec A) :
  codec_ok c -> codec_ok (c_iso f g c).
Proof.
  intros H. split; simpl.
  - intros b [W _]. apply (enc_encs c H); auto.
  - intros b bs rest [W E] En. rewrite (dec_encs c H _ _ _ W En). rewrite E. reflexivity.
Qed.

(* ---------------------------------------------------------------- slices *)

Fixpoint dec_n {A} (d : bytes -> option (A * bytes)) (n : nat) (bs : bytes) : option (list A * bytes) :=
  match n with
  | O => Some ([], bs)
  | S n' => match d bs with
            | Some (a, t) => match dec_n d n' t with
                             | Some (l, t') => Some (a :: l, t')
                             | None => None end
            | None => None end
  end.

Fixpoint list_eqb {A} (e : A -> A -> bool) (l1 l2 : list A) : bool :=
  match l1, l2 with
  | [], [] => true
  | x :: r1, y :: r2 => e x y && list_eqb e r1 r2
  | _, _ => false
  end.

(* the wire-supplied count is compared with the number of remaining bytes
   before it is turned into a nat (every element of the formats below takes
   at least one byte unless it is [c_unit], which is never a list element) *)
Definition dec_count {A} (d : bytes -> option (A * bytes)) (bs : bytes) : option (list A * bytes) :=
  match varint_dec bs with
  | Some (n, t) => dec_n d (N.to_nat n) t
  | None => None
  end.

(* "count, then the elements in order": Go slices *)
Definition c_list {A} (c : codec A) : codec (list A) := {|
  wf := fun l => Forall (wf c) l /\ N.of_nat (length l) < 18446744073709551616;
  encs := fun l bs => exists bss, Forall2 (encs c) l bss /\
                                  bs = varint_enc (N.of_nat (length l)) ++ concat bss;
  enc := fun l => varint_enc (N.of_nat (length l)) ++ concat (map (enc c) l);
  dec := dec_count (dec c);
  eqb := list_eqb (eqb c) |}.

Lemma dec_n_encs {A} (c : codec A) : codec_ok c ->
  forall l bss rest, Forall (wf c) l -> Forall2 (encs c) l bss ->
  dec_n (dec c) (length l) (concat bss ++ rest) = Some (l, rest).
Proof.
  intros H l. induction l as [|a l IH]; intros bss rest W F.
  - inversion F; subst. reflexivity.
  - inversion F as [|? y ? l' Ea El]; subst. inversion W as [|? ? Wa Wl]; subst.
    simpl. rewrite <- app_assoc.
    rewrite (dec_encs c H a y _ Wa Ea). rewrite IH; auto.
Qed.

Lemma Forall2_enc {A} (c : codec A) : codec_ok c ->
  forall l, Forall (wf c) l -> Forall2 (encs c) l (map (enc c) l).
Proof.
  intros H l W. induction W; simpl; constructor; auto. apply (enc_encs c H); auto.
Qed.

Lemma c_list_ok {A} (c : codec A) : codec_ok c -> codec_ok (c_list c).
Proof.
  intros H. split; simpl.
  - intros l [W _]. exists (map (enc c) l). split; auto. apply Forall2_enc; auto.
  - intros l bs rest [W L] (bss & F & ->). unfold dec_count.
    rewrite <- app_assoc. rewrite c23_varint_dec_enc by auto.
    rewrite Nnat.Nat2N.id. apply dec_n_encs; auto.
Qed.

(* ---------------------------------------------------------------- maps *)

(* strict total order on keys, as a boolean *)
Record ord (K : Type) : Type := {
  ltb : K -> K -> bool;
  ltb_irrefl : forall a, ltb a a = false;
  ltb_trans : forall a b c, ltb a b = true -> ltb b c = true -> ltb a c = true;
  ltb_total : forall a b, ltb a b = false -> ltb b a = false -> a = b;
}.
Arguments ltb {K}. Arguments ltb_irrefl {K}. Arguments ltb_trans {K}. Arguments ltb_total {K}.

Section Maps.
  Context {K V : Type} (o : ord K).

  Definition klt (e1 e2 : K * V) : Prop := ltb o (fst e1) (fst e2) = true.

  (* m[k] = v on a sorted association list *)
  Fixpoint insert (k : K) (v : V) (m : list (K * V)) : list (K * V) :=
    match m with
    | [] => [(k, v)]
    | (k', v') :: r =>
      if ltb o k k' then (k, v) :: m
      else if ltb o k' k then (k', v') :: insert k v r
      else (k, v) :: r
    end.

  (* a Go map rebuilt from the entries in wire order (later entries win) *)
  Definition of_list (l : list (K * V)) : list (K * V) :=
    fold_left (fun m e => insert (fst e) (snd e) m) l [].

  Lemma klt_trans e1 e2 e3 : klt e1 e2 -> klt e2 e3 -> klt e1 e3.
  Proof. unfold klt. apply ltb_trans. Qed.

  Lemma klt_irrefl e : ~ klt e e.
  Proof. unfold klt. rewrite ltb_irrefl. discriminate. Qed.

  Lemma sorted_not_in k v m :
    StronglySorted klt ((k, v) :: m) -> ~ In k (map fst m).
  Proof.
    intros S I. inversion S; subst. apply in_map_iff in I. destruct I as [[k' v'] [E I]].
    simpl in E. subst. rewrite Forall_forall in H2. specialize (H2 _ I).
    unfold klt in H2. simpl in H2. rewrite ltb_irrefl in H2. discriminate.
  Qed.

  Lemma sorted_nodup m : StronglySorted klt m -> NoDup (map fst m).
  Proof.
    induction m as [|[k v] m IH]; intros S; simpl; constructor.
    - apply (sorted_not_in k v m S).
    - apply IH. inversion S; auto.
  Qed.

  Lemma insert_perm k v m : ~ In k (map fst m) -> Permutation (insert k v m) ((k, v) :: m).
  Proof.
    induction m as [|[k' v'] m IH]; intros N; simpl; auto.
    destruct (ltb o k k') eqn:E1; auto.
    destruct (ltb o k' k) eqn:E2.
    - rewrite perm_swap. constructor. apply IH. intros I. apply N. simpl. auto.
    - exfalso. apply N. simpl. left. symmetry. apply (ltb_total o); auto.
  Qed.

  Lemma insert_sorted k v m : StronglySorted klt m -> ~ In k (map fst m) ->
    StronglySorted klt (insert k v m).
  Proof.
    induction m as [|[k' v'] m IH]; intros S N; simpl.
    - constructor; constructor.
    - destruct (ltb o k k') eqn:E1.
      + constructor; auto. constructor; [exact E1|].
        inversion S; subst. rewrite Forall_forall in *. intros e I.
        apply (klt_trans _ (k', v')); [exact E1 | auto].
      + destruct (ltb o k' k) eqn:E2.
        * inversion S; subst. constructor.
          -- apply IH; auto. intros I. apply N. simpl. auto.
          -- rewrite Forall_forall in *. intros e I.
             assert (P : Permutation (insert k v m) ((k, v) :: m))
               by (apply insert_perm; intros I'; apply N; simpl; auto).
             apply (Permutation_in _ P) in I. destruct I as [<- | I]; [exact E2 | auto].
        * exfalso. apply N. simpl. left. symmetry. apply (ltb_total o); auto.
  Qed.

  Lemma fold_insert l : forall acc,
    StronglySorted klt acc -> NoDup (map fst (l ++ acc)) ->
    StronglySorted klt (fold_left (fun m e => insert (fst e) (snd e) m) l acc) /\
    Permutation (fold_left (fun m e => insert (fst e) (snd e) m) l acc) (l ++ acc).
  Proof.
    induction l as [|[k v] l IH]; intros acc S N; simpl; auto.
    simpl in N. inversion N; subst.
    assert (Nk : ~ In k (map fst acc)).
    { intros I. apply H1. rewrite map_app. apply in_or_app. auto. }
    destruct (IH (insert k v acc)) as [S' P'].
    - apply insert_sorted; auto.
    - apply (Permutation_NoDup (l := map fst ((k, v) :: l ++ acc))); [|exact N].
      apply Permutation_map. transitivity (l ++ (k, v) :: acc).
      + apply Permutation_middle.
      + apply Permutation_app_head. symmetry. apply insert_perm; auto.
    - split; auto. transitivity (l ++ insert k v acc); [exact P'|].
      transitivity (l ++ (k, v) :: acc).
      + apply Permutation_app_head. apply insert_perm; auto.
      + symmetry. apply Permutation_middle.
  Qed.

  Lemma sorted_perm_eq : forall m1 m2,
    StronglySorted klt m1 -> StronglySorted klt m2 -> Permutation m1 m2 -> m1 = m2.
  Proof.
    induction m1 as [|a m1 IH]; intros m2 S1 S2 P.
    - apply Permutation_nil in P. auto.
    - destruct m2 as [|b m2]; [symmetry in P; apply Permutation_nil in P; discriminate|].
      assert (E : a = b).
      { assert (Ia : In a (b :: m2)) by (apply (Permutation_in _ P); simpl; auto).
        assert (Ib : In b (a :: m1)) by (apply (Permutation_in _ (Permutation_sym P)); simpl; auto).
        destruct Ia as [<-|Ia]; auto. destruct Ib as [->|Ib]; auto.
        inversion S1; subst. inversion S2; subst. rewrite Forall_forall in *.
        exfalso. apply (klt_irrefl a). apply (klt_trans _ b); auto. }
      subst. f_equal. apply IH.
      + inversion S1; auto.
      + inversion S2; auto.
      + apply Permutation_cons_inv in P; auto.
  Qed.

  (* the Go decoder rebuilds the same map whatever the order the entries were written in *)
  Lemma of_list_perm l m : StronglySorted klt m -> Permutation l m -> of_list l = m.
  Proof.
    intros S P. unfold of_list.
    destruct (fold_insert l []) as [S' P'].
    - constructor.
    - rewrite app_nil_r. eapply Permutation_NoDup; [|apply (sorted_nodup m S)].
      apply Permutation_map. symmetry. exact P.
    - apply sorted_perm_eq; auto. rewrite P'. rewrite app_nil_r. exact P.
  Qed.
End Maps.

(* "count, then (key, value) pairs in map-iteration order": Go maps.
   The value is the canonical (strictly key-sorted) association list. *)
Definition c_map {K V} (o : ord K) (ck : codec K) (cv : codec V) : codec (list (K * V)) := {|
  wf := fun m => wf (c_list (c_pair ck cv)) m /\ StronglySorted (klt o) m;
  encs := fun m bs => exists l, Permutation l m /\ encs (c_list (c_pair ck cv)) l bs;
  enc := enc (c_list (c_pair ck cv));
  dec := fun bs => match dec (c_list (c_pair ck cv)) bs with
                   | Some (l, t) => Some (of_list o l, t)
                   | None => None end;
  eqb := eqb (c_list (c_pair ck cv)) |}.

Lemma c_map_ok {K V} (o : ord K) (ck : codec K) (cv : codec V) :
  codec_ok ck -> codec_ok cv -> codec_ok (c_map o ck cv).
Proof.
  intros Hk Hv. pose proof (c_list_ok _ (c_pair_ok _ _ Hk Hv)) as HL.
  split; cbn [wf encs enc dec c_map].
  - intros m [W S]. exists m. split; auto. apply (enc_encs _ HL); auto.
  - intros m bs rest [W S] (l & P & E).
    assert (Wl : wf (c_list (c_pair ck cv)) l).
    { destruct W as [W1 W2]. split.
      - rewrite Forall_forall in *. intros e I. apply W1. apply (Permutation_in _ P); auto.
      - rewrite (Permutation_length P). auto. }
    rewrite (dec_encs _ HL l bs rest Wl E). rewrite (of_list_perm o l m S P). reflexivity.
Qed.

(* sets: map[K]struct{} *)
Definition c_set {K} (o : ord K) (ck : codec K) : codec (list (K * unit)) := c_map o ck c_unit.
Lemma c_set_ok {K} (o : ord K) (ck : codec K) : codec_ok ck -> codec_ok (c_set o ck).
Proof. intros. apply c_map_ok; auto. apply c_unit_ok. Qed.

(* ---------------------------------------------------------------- key orders *)

Definition ord_N : ord N.
Proof.
  refine {| ltb := N.ltb |}.
  - intros. apply N.ltb_irrefl.
  - intros a b c H1 H2. apply N.ltb_lt in H1, H2. apply N.ltb_lt. lia.
  - intros a b H1 H2. apply N.ltb_ge in H1, H2. lia.
Defined.

(* bytes.Compare *)
Fixpoint bytes_ltb (a b : bytes) : bool :=
  match a, b with
  | _, [] => false
  | [], _ :: _ => true
  | x :: a', y :: b' => (x <? y) || ((x =? y) && bytes_ltb a' b')
  end.

Lemma bytes_ltb_irrefl a : bytes_ltb a a = false.
Proof. induction a; simpl; auto. rewrite N.ltb_irrefl, N.eqb_refl, IHa. reflexivity. Qed.

Lemma bytes_ltb_trans a : forall b c, bytes_ltb a b = true -> bytes_ltb b c = true -> bytes_ltb a c = true.
Proof.
  induction a as [|x a IH]; intros [|y b] [|z c] H1 H2; simpl in *; try discriminate; auto.
  apply orb_true_iff in H1, H2. apply orb_true_iff.
  destruct H1 as [H1|H1], H2 as [H2|H2].
  - left. apply N.ltb_lt in H1, H2. apply N.ltb_lt. lia.
  - apply andb_true_iff in H2. destruct H2 as [E _]. apply N.eqb_eq in E. subst. auto.
  - apply andb_true_iff in H1. destruct H1 as [E _]. apply N.eqb_eq in E. subst. auto.
  - apply andb_true_iff in H1, H2. destruct H1 as [E1 L1], H2 as [E2 L2].
    apply N.eqb_eq in E1, E2. subst. right. rewrite N.eqb_refl. simpl. eapply IH; eauto.
Qed.

Lemma bytes_ltb_total a : forall b, bytes_ltb a b = false -> bytes_ltb b a = false -> a = b.
Proof.
  induction a as [|x a IH]; intros [|y b] H1 H2; simpl in *; try discriminate; auto.
  apply orb_false_iff in H1, H2. destruct H1 as [L1 R1], H2 as [L2 R2].
  apply N.ltb_ge in L1, L2. assert (x = y) by lia. subst.
  rewrite N.eqb_refl in R1, R2. simpl in *. f_equal. apply IH; auto.
Qed.

Definition ord_bytes : ord bytes :=
  {| ltb := bytes_ltb; ltb_irrefl := bytes_ltb_irrefl; ltb_trans := bytes_ltb_trans;
     ltb_total := bytes_ltb_total |}.

(* ---------------------------------------------------------------- automation *)

Create HintDb codec.
#[export] Hint Resolve c_uint_ok c_bool_ok c_varuint_ok c_fixed_ok c_varbytes_ok c_unit_ok
  c_pair_ok c_iso_ok c_list_ok c_map_ok c_set_ok : codec.

Notation "a ** b" := (c_pair a b) (at level 61, right associativity).
