(* GoFloat: Go's float64 operations used by the consensus code, on Coq's
   primitive binary64 floats.  Executable under vm_compute, proof-free.

     of_int64  z      float64(int64(z))        round to nearest even
     to_int64  f      int64(f)                 truncation; on amd64 (CVTTSD2SQ)
                                               NaN / +-Inf / |f| >= 2^63 give
                                               MinInt64 ("integer indefinite")
     floor, ceil      math.Floor, math.Ceil    (NaN, +-Inf, +-0 returned as is;
                                               Ceil x = -Floor(-x) as in Go)
     mul div add sub  * / + -                  IEEE binary64, round to nearest even
     pow2 k           math.Pow(2, float64(k))  k an integer: exact 2^k, +Inf from
                                               k = 1024 on, 0 below 2^-1074
     c025 c030 c035   the literals 0.25 0.3 0.35 as Go's compiler rounds them
     bits f           math.Float64bits(f)      (NaN canonicalised)

   Everything here reduces to Coq's own primitive float / int63 operations
   (PrimFloat.mul, div, add, sub, of_uint63, frshiftexp, normfr_mantissa,
   ldshiftexp, ltb, eqb, ... and Uint63 arithmetic); [Print Assumptions] of a
   theorem that mentions these definitions lists those primitives.  They are
   part of Coq, not axioms of this development. *)
From Coq Require Import ZArith Bool Floats Uint63.
Local Open Scope Z_scope.

Definition min_int64 : Z := -9223372036854775808.
Definition max_int64 : Z := 9223372036854775807.
Definition two63 : Z := 9223372036854775808.
Definition two64 : Z := 18446744073709551616.

(* two's-complement reinterpretation of any integer as an int64 *)
Definition wrap64 (z : Z) : Z := (z + two63) mod two64 - two63.
Definition in_int64 (z : Z) : bool := (min_int64 <=? z) && (z <=? max_int64).

(* int64 arithmetic as Go performs it (silent wrap-around) *)
Definition add64 (a b : Z) : Z := wrap64 (a + b).
Definition sub64 (a b : Z) : Z := wrap64 (a - b).

(* ---------------------------------------------------------------- int -> float *)

(* float64(x) for 0 <= x < 2^63: Coq's of_uint63 rounds to nearest even. *)
Definition of_nonneg63 (z : Z) : float := PrimFloat.of_uint63 (Uint63.of_Z z).

(* float64(int64): the argument is first reinterpreted as an int64, so the
   function is total on Z and agrees with Go on every int64. *)
Definition of_int64 (z : Z) : float :=
  let z := wrap64 z in
  if z =? min_int64 then PrimFloat.opp (Z.ldexp PrimFloat.one 63)
  else if z <? 0 then PrimFloat.opp (of_nonneg63 (- z))
  else of_nonneg63 z.

(* ---------------------------------------------------------------- float -> int *)

(* exact integer part (towards zero) of a finite float; None for NaN / Inf *)
Definition trunc_Z (f : float) : option Z :=
  match Prim2SF f with
  | S754_zero _ => Some 0
  | S754_finite s m e =>
      let v := if 0 <=? e then Z.pos m * 2 ^ e else Z.pos m / 2 ^ (- e) in
      Some (if s then - v else v)
  | S754_infinity _ | S754_nan => None
  end.

(* largest integer <= f, for finite f *)
Definition floor_Z (f : float) : option Z :=
  match Prim2SF f with
  | S754_zero _ => Some 0
  | S754_finite s m e =>
      if 0 <=? e then let v := Z.pos m * 2 ^ e in Some (if s then - v else v)
      else Some (if s then - ((Z.pos m + 2 ^ (- e) - 1) / 2 ^ (- e)) else Z.pos m / 2 ^ (- e))
  | S754_infinity _ | S754_nan => None
  end.

(* int64(f) as compiled for amd64 *)
Definition to_int64 (f : float) : Z :=
  match trunc_Z f with
  | Some v => if in_int64 v then v else min_int64
  | None => min_int64
  end.

(* ---------------------------------------------------------------- Floor / Ceil *)

(* float value of an integer of magnitude < 2^63 (used below 2^53: exact) *)
Definition of_Z_small (z : Z) : float :=
  if z <? 0 then PrimFloat.opp (of_nonneg63 (- z)) else of_nonneg63 z.

Definition floor (f : float) : float :=
  match Prim2SF f with
  | S754_zero _ | S754_infinity _ | S754_nan => f
  | S754_finite s m e =>
      if 0 <=? e then f                         (* already an integer *)
      else match floor_Z f with
           | Some v => of_Z_small v             (* |v| <= 2^53: exact; 0 gives +0 *)
           | None => f
           end
  end.

Definition ceil (f : float) : float := PrimFloat.opp (floor (PrimFloat.opp f)).

(* ---------------------------------------------------------------- arithmetic *)

Definition mul := PrimFloat.mul.
Definition div := PrimFloat.div.
Definition add := PrimFloat.add.
Definition sub := PrimFloat.sub.

(* math.Pow(2, float64(k)) for an integer k: Go's Pow multiplies powers of two
   exactly and finishes with Ldexp. *)
Definition pow2 (k : Z) : float :=
  if 1024 <=? k then PrimFloat.infinity
  else if k <? -1075 then PrimFloat.zero
  else Z.ldexp PrimFloat.one k.

(* decimal literals as the Go compiler rounds them (nearest binary64) *)
Definition c025 : float := Z.ldexp PrimFloat.one (-2).
Definition c030 : float := Z.ldexp (of_nonneg63 5404319552844595) (-54).   (* 0x3FD3333333333333 *)
Definition c035 : float := Z.ldexp (of_nonneg63 6305039478318694) (-54).   (* 0x3FD6666666666666 *)

(* math.Float64bits, NaN canonicalised to Go's 0x7FF8000000000001 *)
Definition bits (f : float) : Z :=
  match Prim2SF f with
  | S754_zero s => if s then two63 else 0
  | S754_infinity s => (if s then two63 else 0) + 9218868437227405312
  | S754_nan => 9221120237041090561
  | S754_finite s m e =>
      (if s then two63 else 0) +
      (if Z.pos m <? 4503599627370496 then Z.pos m                      (* subnormal: e = -1074 *)
       else (e + 1075) * 4503599627370496 + (Z.pos m - 4503599627370496))
  end.

(* ---------------------------------------------------------------- checks *)

Local Open Scope float_scope.
Set Warnings "-inexact-float".

Example lit_030 : PrimFloat.eqb c030 0.3 = true.  Proof. vm_compute. reflexivity. Qed.
Example lit_035 : PrimFloat.eqb c035 0.35 = true. Proof. vm_compute. reflexivity. Qed.
Example lit_025 : PrimFloat.eqb c025 0.25 = true. Proof. vm_compute. reflexivity. Qed.
Example bits_030 : bits c030 = 0x3FD3333333333333%Z. Proof. vm_compute. reflexivity. Qed.
Example bits_035 : bits c035 = 0x3FD6666666666666%Z. Proof. vm_compute. reflexivity. Qed.
Example bits_one : bits PrimFloat.one = 0x3FF0000000000000%Z. Proof. vm_compute. reflexivity. Qed.
Example bits_m2 : bits (-2) = 0xC000000000000000%Z. Proof. vm_compute. reflexivity. Qed.
Example bits_den : bits (Z.ldexp PrimFloat.one (-1074)) = 1%Z. Proof. vm_compute. reflexivity. Qed.

(* float64(int64): ties to even above 2^53; MinInt64 and MaxInt64 *)
Example of_2p53p1 : to_int64 (of_int64 9007199254740993) = 9007199254740992%Z.
Proof. vm_compute. reflexivity. Qed.
Example of_2p53p3 : to_int64 (of_int64 9007199254740995) = 9007199254740996%Z.
Proof. vm_compute. reflexivity. Qed.
Example of_max : bits (of_int64 max_int64) = 0x43E0000000000000%Z.      (* 2^63 *)
Proof. vm_compute. reflexivity. Qed.
Example of_min : bits (of_int64 min_int64) = 0xC3E0000000000000%Z.      (* -2^63 *)
Proof. vm_compute. reflexivity. Qed.
Example of_neg : bits (of_int64 (-3)) = 0xC008000000000000%Z.
Proof. vm_compute. reflexivity. Qed.

(* int64(float64): truncation and the amd64 indefinite value *)
Example to_trunc : (to_int64 (-1.5), to_int64 (-0.5), to_int64 2.9, to_int64 neg_zero) = (-1, 0, 2, 0)%Z.
Proof. vm_compute. reflexivity. Qed.
Example to_nan : to_int64 nan = min_int64. Proof. vm_compute. reflexivity. Qed.
Example to_inf : (to_int64 infinity, to_int64 neg_infinity) = (min_int64, min_int64).
Proof. vm_compute. reflexivity. Qed.
Example to_2p63 : to_int64 (of_int64 max_int64) = min_int64.             (* float64(MaxInt64) = 2^63 *)
Proof. vm_compute. reflexivity. Qed.
Example to_m2p63 : to_int64 (of_int64 min_int64) = min_int64. Proof. vm_compute. reflexivity. Qed.
Example to_big : to_int64 (Z.ldexp 1 62) = 4611686018427387904%Z. Proof. vm_compute. reflexivity. Qed.
Example zero_votes : (to_int64 (floor (0 * (1 / 0))), to_int64 (floor (5 * (1 / 0)))) = (min_int64, min_int64).
Proof. vm_compute. reflexivity. Qed.

(* Floor / Ceil *)
Example fl1 : (bits (floor (-0.5)), bits (floor 0.5), bits (floor 2.5), bits (floor (-2.5))) =
              (bits (-1), bits 0, bits 2, bits (-3)).
Proof. vm_compute. reflexivity. Qed.
Example ce1 : (bits (ceil (-0.5)), bits (ceil 0.5), bits (ceil 2.0), bits (ceil (-2.5))) =
              (bits neg_zero, bits 1, bits 2, bits (-2)).
Proof. vm_compute. reflexivity. Qed.
Example fl_big : bits (floor 4503599627370497.0) = bits 4503599627370497.0.
Proof. vm_compute. reflexivity. Qed.
Example fl_special : (bits (floor nan), bits (floor infinity), bits (ceil neg_infinity), bits (floor neg_zero)) =
                     (bits nan, bits infinity, bits neg_infinity, bits neg_zero).
Proof. vm_compute. reflexivity. Qed.

(* Pow(2, k) *)
Example pow_a : (bits (pow2 0), bits (pow2 1), bits (pow2 10)) = (bits 1, bits 2, bits 1024).
Proof. vm_compute. reflexivity. Qed.
Example pow_b : (bits (pow2 1023), bits (pow2 1024), bits (pow2 4294967295)) =
                (0x7FE0000000000000%Z, bits infinity, bits infinity).
Proof. vm_compute. reflexivity. Qed.

(* the two mainnet subsidies: int64(float64(inflationPerYear) / float64(262800)) *)
Example subsidy_old : to_int64 (of_int64 132000000000000 / of_int64 262800) = 502283105%Z.
Proof. vm_compute. reflexivity. Qed.
Example subsidy_new : to_int64 (of_int64 80000000000000 / of_int64 262800) = 304414003%Z.
Proof. vm_compute. reflexivity. Qed.
Example share_ceil : to_int64 (ceil (of_int64 3044140030 * c035)) = 1065449011%Z.
Proof. vm_compute. reflexivity. Qed.
