(* Ordered association lists over byte-string keys with the lexicographic order
   of Go's bytes.Compare: the abstract ordered-map specification used by C19
   (treaps) and C16 (ffldb).  Keys and values are lists of Z (bytes 0..255 in
   the correspondence runs; nothing here depends on that range). *)
From Coq Require Import ZArith List Bool Lia.
Import ListNotations.

Definition key := list Z.
Definition val := list Z.

(* bytes.Compare *)
Fixpoint kcmp (a b : key) : comparison :=
  match a, b with
  | [], [] => Eq
  | [], _ :: _ => Lt
  | _ :: _, [] => Gt
  | x :: a', y :: b' => match Z.compare x y with Eq => kcmp a' b' | c => c end
  end.

Definition klt (a b : key) : Prop := kcmp a b = Lt.
Definition keqb (a b : key) : bool := match kcmp a b with Eq => true | _ => false end.
Definition kltb (a b : key) : bool := match kcmp a b with Lt => true | _ => false end.
Definition kleb (a b : key) : bool := match kcmp a b with Gt => false | _ => true end.

Lemma kcmp_refl a : kcmp a a = Eq.
Proof. induction a; simpl; auto. rewrite Z.compare_refl; auto. Qed.

Lemma kcmp_eq a : forall b, kcmp a b = Eq -> a = b.
Proof.
  induction a; destruct b; simpl; try discriminate; auto.
  destruct (Z.compare a z) eqn:E; try discriminate.
  intros H. apply Z.compare_eq in E. f_equal; auto.
Qed.

Lemma kcmp_antisym a : forall b, kcmp b a = CompOpp (kcmp a b).
Proof.
  induction a; destruct b; simpl; auto.
  rewrite (Z.compare_antisym a z). destruct (Z.compare a z); simpl; auto.
Qed.

Lemma kcmp_lt_trans a : forall b c, kcmp a b = Lt -> kcmp b c = Lt -> kcmp a c = Lt.
Proof.
  induction a; destruct b; destruct c; simpl; try discriminate; auto.
  destruct (Z.compare a z) eqn:E1; destruct (Z.compare z z0) eqn:E2; try discriminate; intros.
  - apply Z.compare_eq in E1, E2. subst. rewrite Z.compare_refl. eauto.
  - apply Z.compare_eq in E1. subst. rewrite E2. auto.
  - apply Z.compare_eq in E2. subst. rewrite E1. auto.
  - assert (Z.compare a z0 = Lt) as ->; auto.
    rewrite Z.compare_lt_iff in *. lia.
Qed.

Lemma kcmp_gt_lt a b : kcmp a b = Gt <-> kcmp b a = Lt.
Proof. rewrite (kcmp_antisym a b). destruct (kcmp a b); simpl; split; congruence. Qed.

Lemma klt_irrefl a : ~ klt a a.
Proof. unfold klt. rewrite kcmp_refl. discriminate. Qed.

Lemma klt_trans a b c : klt a b -> klt b c -> klt a c.
Proof. apply kcmp_lt_trans. Qed.

Lemma keqb_eq a b : keqb a b = true <-> a = b.
Proof.
  unfold keqb. split.
  - destruct (kcmp a b) eqn:E; try discriminate. intros _. apply kcmp_eq; auto.
  - intros ->. rewrite kcmp_refl. auto.
Qed.

Lemma keqb_refl a : keqb a a = true.
Proof. apply keqb_eq; auto. Qed.

Lemma keqb_sym a b : keqb a b = keqb b a.
Proof. unfold keqb. rewrite (kcmp_antisym a b). destruct (kcmp a b); auto. Qed.

Lemma kltb_lt a b : kltb a b = true <-> klt a b.
Proof. unfold kltb, klt. destruct (kcmp a b); split; congruence. Qed.

Lemma kleb_gt a b : kleb a b = false <-> klt b a.
Proof. unfold kleb, klt. rewrite <- kcmp_gt_lt. destruct (kcmp a b); split; congruence. Qed.

Lemma kleb_le a b : kleb a b = true <-> ~ klt b a.
Proof. rewrite <- kleb_gt. destruct (kleb a b); split; congruence. Qed.

Lemma kleb_negb_kltb a b : kleb a b = negb (kltb b a).
Proof. unfold kleb, kltb. rewrite (kcmp_antisym a b). destruct (kcmp a b); auto. Qed.

Lemma klt_keqb_false a b : klt a b -> keqb a b = false.
Proof. unfold klt, keqb. intros ->. auto. Qed.

Lemma klt_keqb_false' a b : klt a b -> keqb b a = false.
Proof. intros. rewrite keqb_sym. apply klt_keqb_false; auto. Qed.

Lemma klt_not_gt a b : klt a b -> klt b a -> False.
Proof. intros H1 H2. apply (klt_irrefl a). eapply klt_trans; eauto. Qed.

Lemma kcmp_cases a b : (klt a b /\ kcmp a b = Lt) \/ (a = b /\ kcmp a b = Eq) \/ (klt b a /\ kcmp a b = Gt).
Proof.
  destruct (kcmp a b) eqn:E.
  - right; left; split; auto. apply kcmp_eq; auto.
  - left; split; auto.
  - right; right; split; auto. apply kcmp_gt_lt; auto.
Qed.

(* Range limits of iterators and cursors: start inclusive, limit exclusive,
   either may be absent. *)
Definition in_range (start limit : option key) (k : key) : bool :=
  match start with Some s => kleb s k | None => true end &&
  match limit with Some l => kltb k l | None => true end.

Section Map.
  Context {V : Type}.
  Definition omap := list (key * V).

  Fixpoint get (m : omap) (k : key) : option V :=
    match m with
    | [] => None
    | (k', v) :: m' => if keqb k k' then Some v else get m' k
    end.

  Definition has (m : omap) (k : key) : bool :=
    match get m k with Some _ => true | None => false end.

  Fixpoint put (m : omap) (k : key) (v : V) : omap :=
    match m with
    | [] => [(k, v)]
    | (k', v') :: m' =>
      match kcmp k k' with
      | Lt => (k, v) :: m
      | Eq => (k, v) :: m'
      | Gt => (k', v') :: put m' k v
      end
    end.

  Fixpoint del (m : omap) (k : key) : omap :=
    match m with
    | [] => []
    | (k', v') :: m' => if keqb k k' then del m' k else (k', v') :: del m' k
    end.

  Definition len (m : omap) : Z := Z.of_nat (length m).

  (* every key of m is above k *)
  Definition lb (k : key) (m : omap) : Prop := Forall (fun e => klt k (fst e)) m.
  (* every key of m is below k *)
  Definition ub (m : omap) (k : key) : Prop := Forall (fun e => klt (fst e) k) m.

  Fixpoint sorted (m : omap) : Prop :=
    match m with
    | [] => True
    | e :: m' => lb (fst e) m' /\ sorted m'
    end.

  (* cursor primitives *)
  Definition seek_ge (m : omap) (k : key) : option (key * V) := find (fun e => kleb k (fst e)) m.
  Definition seek_gt (m : omap) (k : key) : option (key * V) := find (fun e => kltb k (fst e)) m.
  Definition seek_le (m : omap) (k : key) : option (key * V) := find (fun e => kleb (fst e) k) (rev m).
  Definition seek_lt (m : omap) (k : key) : option (key * V) := find (fun e => kltb (fst e) k) (rev m).
  Definition first (m : omap) : option (key * V) := hd_error m.
  Definition last (m : omap) : option (key * V) := hd_error (rev m).

  Definition range (m : omap) (start limit : option key) : omap :=
    filter (fun e => in_range start limit (fst e)) m.

  (* ---------------------------------------------------------------- lemmas *)

  Lemma lb_app k a b : lb k (a ++ b) <-> lb k a /\ lb k b.
  Proof. unfold lb. apply Forall_app. Qed.
  Lemma ub_app a b k : ub (a ++ b) k <-> ub a k /\ ub b k.
  Proof. unfold ub. apply Forall_app. Qed.

  Lemma lb_weaken k k' m : klt k k' -> lb k' m -> lb k m.
  Proof. unfold lb. intros H. apply Forall_impl. intros e. apply klt_trans; auto. Qed.
  Lemma ub_weaken k k' m : klt k k' -> ub m k -> ub m k'.
  Proof. unfold ub. intros H. apply Forall_impl. intros e He. eapply klt_trans; eauto. Qed.

  Lemma sorted_app a b :
    sorted (a ++ b) <-> sorted a /\ sorted b /\ (forall x, In x a -> lb (fst x) b).
  Proof.
    induction a as [|e a IH]; simpl.
    - split; [intros; repeat split; auto; intros ? []|tauto].
    - rewrite IH, lb_app. split.
      + intros [[H1 H2] [H3 [H4 H5]]]. repeat split; auto. intros x [<-|Hx]; auto.
      + intros [[H1 H2] [H3 H4]]. repeat split; auto.
  Qed.

  Lemma sorted_mid a e b :
    sorted (a ++ e :: b) <-> sorted a /\ sorted b /\ ub a (fst e) /\ lb (fst e) b /\
                             (forall x, In x a -> lb (fst x) b).
  Proof.
    rewrite sorted_app. simpl. split.
    - intros [Ha [[Hb1 Hb2] H]]. repeat split; auto.
      + apply Forall_forall. intros x Hx. specialize (H x Hx). inversion H; auto.
      + intros x Hx. specialize (H x Hx). inversion H; auto.
    - intros [Ha [Hb [Hu [Hl H]]]]. repeat split; auto.
      intros x Hx. constructor; [|apply H; auto]. unfold ub in Hu. rewrite Forall_forall in Hu. auto.
  Qed.

  Lemma get_none_lb k m : lb k m -> get m k = None.
  Proof.
    induction m as [|[k' v] m IH]; simpl; auto. intros H. inversion H; subst. simpl in *.
    rewrite klt_keqb_false; auto.
  Qed.

  Lemma get_none_ub k m : ub m k -> get m k = None.
  Proof.
    induction m as [|[k' v] m IH]; simpl; auto. intros H. inversion H; subst. simpl in *.
    rewrite klt_keqb_false'; auto.
  Qed.

  Lemma get_app a b k : get (a ++ b) k = match get a k with Some v => Some v | None => get b k end.
  Proof. induction a as [|[k' v] a IH]; simpl; auto. destruct (keqb k k'); auto. Qed.

  Lemma put_lb k v m : lb k m -> put m k v = (k, v) :: m.
  Proof. destruct m as [|[k' v'] m]; simpl; auto. intros H. inversion H; subst. simpl in *. rewrite H2. auto. Qed.

  Lemma put_app_ub a b k v : ub a k -> put (a ++ b) k v = a ++ put b k v.
  Proof.
    induction a as [|[k' v'] a IH]; simpl; auto. intros H. inversion H; subst. simpl in *.
    apply kcmp_gt_lt in H2. rewrite H2. f_equal; auto.
  Qed.

  (* insertion relative to a pivot entry *)
  Lemma put_mid_lt a k' v' b k v :
    klt k k' -> put (a ++ (k', v') :: b) k v = put a k v ++ (k', v') :: b.
  Proof.
    intros Hk. induction a as [|[k1 v1] a IH]; simpl.
    - rewrite Hk. auto.
    - destruct (kcmp k k1); simpl; auto. f_equal; auto.
  Qed.

  Lemma put_mid_eq a k' v' b v :
    ub a k' -> put (a ++ (k', v') :: b) k' v = a ++ (k', v) :: b.
  Proof. intros. rewrite put_app_ub; auto. simpl. rewrite kcmp_refl. auto. Qed.

  Lemma put_mid_gt a k' v' b k v :
    ub a k' -> klt k' k -> put (a ++ (k', v') :: b) k v = a ++ (k', v') :: put b k v.
  Proof.
    intros Hu Hk. rewrite put_app_ub.
    - simpl. apply kcmp_gt_lt in Hk. rewrite Hk. auto.
    - eapply ub_weaken; eauto.
  Qed.

  Lemma del_app a b k : del (a ++ b) k = del a k ++ del b k.
  Proof. induction a as [|[k' v'] a IH]; simpl; auto. destruct (keqb k k'); simpl; f_equal; auto. Qed.

  Lemma del_lb k m : lb k m -> del m k = m.
  Proof.
    induction m as [|[k' v] m IH]; simpl; auto. intros H. inversion H; subst. simpl in *.
    rewrite klt_keqb_false; auto. f_equal; auto.
  Qed.

  Lemma del_ub k m : ub m k -> del m k = m.
  Proof.
    induction m as [|[k' v] m IH]; simpl; auto. intros H. inversion H; subst. simpl in *.
    rewrite klt_keqb_false'; auto. f_equal; auto.
  Qed.

  Lemma lb_put k0 m k v : lb k0 m -> klt k0 k -> lb k0 (put m k v).
  Proof.
    unfold lb. induction m as [|[k' v'] m IH]; simpl; intros H Hk.
    - constructor; auto.
    - inversion H; subst. destruct (kcmp k k'); constructor; auto.
  Qed.

  Lemma put_sorted m k v : sorted m -> sorted (put m k v).
  Proof.
    induction m as [|[k' v'] m IH]; simpl; auto.
    - intros _. split; auto. constructor.
    - intros [Hl Hs]. destruct (kcmp_cases k k') as [[Hk E]|[[-> E]|[Hk E]]]; rewrite E; simpl.
      + split; [|split; auto]. constructor; auto. eapply lb_weaken; eauto.
      + split; auto.
      + split; auto. apply lb_put; auto.
  Qed.

  Lemma lb_del k0 m k : lb k0 m -> lb k0 (del m k).
  Proof.
    unfold lb. induction m as [|[k' v'] m IH]; simpl; intros H; auto.
    inversion H; subst. destruct (keqb k k'); auto.
  Qed.

  Lemma del_sorted m k : sorted m -> sorted (del m k).
  Proof.
    induction m as [|[k' v'] m IH]; simpl; auto.
    intros [Hl Hs]. destruct (keqb k k'); simpl; auto. split; auto. apply lb_del; auto.
  Qed.

  (* the ordered-map laws *)
  Lemma get_put_same m k v : get (put m k v) k = Some v.
  Proof.
    induction m as [|[k' v'] m IH]; simpl.
    - rewrite keqb_refl; auto.
    - destruct (kcmp_cases k k') as [[Hk E]|[[-> E]|[Hk E]]]; rewrite E; simpl.
      + rewrite keqb_refl; auto.
      + rewrite keqb_refl; auto.
      + rewrite klt_keqb_false'; auto.
  Qed.

  Lemma get_put_other m k v k2 : k2 <> k -> get (put m k v) k2 = get m k2.
  Proof.
    intros Hne. assert (keqb k2 k = false) as Hf.
    { destruct (keqb k2 k) eqn:E; auto. apply keqb_eq in E. contradiction. }
    induction m as [|[k' v'] m IH]; simpl.
    - rewrite Hf; auto.
    - destruct (kcmp_cases k k') as [[Hk E]|[[-> E]|[Hk E]]]; rewrite E; simpl.
      + rewrite Hf. auto.
      + rewrite Hf. auto.
      + destruct (keqb k2 k'); auto.
  Qed.

  Lemma get_del_same m k : get (del m k) k = None.
  Proof.
    induction m as [|[k' v'] m IH]; simpl; auto.
    destruct (keqb k k') eqn:E; simpl; auto. rewrite E. auto.
  Qed.

  Lemma get_del_other m k k2 : k2 <> k -> get (del m k) k2 = get m k2.
  Proof.
    intros Hne. induction m as [|[k' v'] m IH]; simpl; auto.
    destruct (keqb k k') eqn:E; simpl.
    - apply keqb_eq in E. subst k'. destruct (keqb k2 k) eqn:E2; auto.
      apply keqb_eq in E2. contradiction.
    - rewrite IH. auto.
  Qed.

  Lemma in_get m k v : sorted m -> In (k, v) m -> get m k = Some v.
  Proof.
    induction m as [|[k' v'] m IH]; simpl; [tauto|].
    intros [Hl Hs] [E|Hin].
    - inversion E; subst. rewrite keqb_refl. auto.
    - unfold lb in Hl. rewrite Forall_forall in Hl. specialize (Hl _ Hin). simpl in Hl.
      rewrite klt_keqb_false'; auto.
  Qed.

  Lemma get_in m k v : get m k = Some v -> In (k, v) m.
  Proof.
    induction m as [|[k' v'] m IH]; simpl; [discriminate|].
    destruct (keqb k k') eqn:E.
    - apply keqb_eq in E. subst. intros [= ->]. auto.
    - auto.
  Qed.

  (* two sorted maps with the same lookups are equal *)
  Lemma sorted_ext m1 : forall m2, sorted m1 -> sorted m2 ->
    (forall k, get m1 k = get m2 k) -> m1 = m2.
  Proof.
    induction m1 as [|[k1 v1] m1 IH]; intros [|[k2 v2] m2] S1 S2 H; auto.
    - specialize (H k2). simpl in H. rewrite keqb_refl in H. discriminate.
    - specialize (H k1). simpl in H. rewrite keqb_refl in H. discriminate.
    - simpl in S1, S2. destruct S1 as [L1 S1], S2 as [L2 S2].
      assert (k1 = k2) as ->.
      { destruct (kcmp_cases k1 k2) as [[Hk _]|[[E _]|[Hk _]]]; auto; exfalso.
        - pose proof (H k1) as H1. simpl in H1. rewrite keqb_refl, klt_keqb_false in H1 by auto.
          rewrite get_none_lb in H1; [discriminate|]. eapply lb_weaken; eauto.
        - pose proof (H k2) as H1. simpl in H1. rewrite keqb_refl, klt_keqb_false in H1 by auto.
          rewrite get_none_lb in H1; [discriminate|]. eapply lb_weaken; eauto. }
      pose proof (H k2) as H2. simpl in H2. rewrite keqb_refl in H2. inversion H2; subst.
      f_equal. apply IH; auto. intros k. specialize (H k). simpl in H.
      destruct (keqb k k2) eqn:E; auto. apply keqb_eq in E. subst.
      rewrite !get_none_lb; auto.
  Qed.

  Lemma len_put m k v : sorted m -> len (put m k v) = (len m + if has m k then 0 else 1)%Z.
  Proof.
    unfold len, has. induction m as [|[k' v'] m IH]; simpl length; intros S.
    - simpl. lia.
    - simpl put. simpl get. destruct S as [L S].
      destruct (kcmp_cases k k') as [[Hk E]|[[-> E]|[Hk E]]]; rewrite E.
      + rewrite klt_keqb_false by auto.
        rewrite get_none_lb by (eapply lb_weaken; eauto). simpl length. lia.
      + rewrite keqb_refl. simpl length. lia.
      + rewrite klt_keqb_false' by auto. simpl length. specialize (IH S).
        destruct (get m k); lia.
  Qed.

  Lemma len_del m k : sorted m -> len (del m k) = (len m - if has m k then 1 else 0)%Z.
  Proof.
    unfold len, has. induction m as [|[k' v'] m IH]; simpl length; intros S.
    - simpl. lia.
    - simpl del. simpl get. destruct S as [L S]. specialize (IH S).
      destruct (keqb k k') eqn:E.
      + apply keqb_eq in E. subst k'. rewrite del_lb in * by auto.
        rewrite get_none_lb in IH by auto. lia.
      + simpl length. destruct (get m k); lia.
  Qed.

End Map.

Arguments omap V : clear implicits.
