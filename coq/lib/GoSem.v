(* GoSem: outcomes of Go code as explicit data.  Executable part only, no
   proofs (facts live in lib/*Facts.v / proof/).  Shared by C02/C04 (codecs);
   other properties may reuse it.

   [res A]   result of a Go function that may return a value, return an error,
             or panic (index out of range, makeslice: len out of range, ...).
   meter     number of bytes requested from the allocator, threaded explicitly
             as an [N] next to the result: [mres A := res A * N]. *)
From Coq Require Import NArith List.
Import ListNotations.
Local Open Scope N_scope.

Inductive res (A : Type) : Type :=
| Ok (a : A)
| Err          (* the function returned a non-nil error *)
| Panic.       (* the goroutine panicked *)
Arguments Ok {A} a.
Arguments Err {A}.
Arguments Panic {A}.

Definition mres (A : Type) : Type := (res A * N)%type.

Definition is_panic {A} (r : res A) : bool := match r with Panic => true | _ => false end.
Definition is_ok {A} (r : res A) : bool := match r with Ok _ => true | _ => false end.

(* outcome enum used by correspondences: 0 = ok, 1 = error, 2 = panic *)
Definition outcome {A} (r : res A) : N := match r with Ok _ => 0 | Err => 1 | Panic => 2 end.

(* Go's runtime.makeslice: panics when len*elemsize exceeds maxAlloc (2^48 on
   linux/amd64) or len does not fit an int; otherwise allocates len*elemsize
   bytes (charged to the meter by the caller). *)
Definition max_alloc : N := 281474976710656. (* 2^48 *)
Definition max_int : N := 9223372036854775807. (* 2^63-1 *)
Definition makeslice_ok (len esz : N) : bool :=
  (len <=? max_int) && (len * esz <=? max_alloc).
