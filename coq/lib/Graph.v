(* Reachability checker for the translated properties (C24, C38, C36).
   Executable part only; the proofs are in proof/Graph.v.

   A graph is what a translator emits: adjacency lists [(node, successors)]
   over positive node numbers (a node may have several entries; their
   successor lists are merged).  [reach_set] is a worklist search with fuel;
   it answers [None] when the fuel runs out, and every checker built on it
   then answers [false] (fail closed). *)
From Coq Require Import List PArith Bool FMapPositive MSetPositive.
Import ListNotations.

Definition node := positive.
Definition graph := list (node * list node).
Definition adj := PositiveMap.t (list node).

Definition succs (m : adj) (x : node) : list node :=
  match PositiveMap.find x m with Some l => l | None => [] end.

Definition mk (g : graph) : adj :=
  fold_left (fun m e => PositiveMap.add (fst e) (snd e ++ succs m (fst e)) m) g (PositiveMap.empty _).

Fixpoint go (fuel : nat) (m : adj) (work : list node) (seen : PositiveSet.t) : option PositiveSet.t :=
  match fuel with
  | O => None
  | S k =>
    match work with
    | [] => Some seen
    | x :: w =>
      if PositiveSet.mem x seen then go k m w seen
      else go k m (succs m x ++ w) (PositiveSet.add x seen)
    end
  end.

(* every step pops one work item; items come from the sources or from the
   expansion of a node (once per node), so |sources| + |edges| + 1 suffices *)
Definition fuel_for (g : graph) (srcs : list node) : nat :=
  S (S (length srcs + fold_left (fun n e => n + length (snd e)) g 0)).

Definition reach_set (g : graph) (srcs : list node) : option PositiveSet.t :=
  go (fuel_for g srcs) (mk g) srcs PositiveSet.empty.

Definition set_of (l : list node) : PositiveSet.t :=
  fold_right PositiveSet.add PositiveSet.empty l.

(* does some node of [bads] lie on a path from a node of [srcs]? *)
Definition reach (g : graph) (srcs bads : list node) : bool :=
  match reach_set g srcs with
  | None => true
  | Some R => existsb (fun b => PositiveSet.mem b R) bads
  end.

(* definitely reachable: the search completed and found a node of [bads] *)
Definition reach_ok (g : graph) (srcs bads : list node) : bool :=
  match reach_set g srcs with
  | None => false
  | Some R => existsb (fun b => PositiveSet.mem b R) bads
  end.

(* the graph with the out-edges of the nodes in [B] removed (barriers) *)
Definition cut (g : graph) (B : list node) : graph :=
  filter (fun e => negb (existsb (Pos.eqb (fst e)) B)) g.

Definition mem_edge (a b : node) (l : list (node * node)) : bool :=
  existsb (fun e => Pos.eqb (fst e) a && Pos.eqb (snd e) b) l.

(* no function reachable from a source has an edge to a bad node, except the
   edges listed in [allowed] *)
Definition no_bad_reference_b (g : graph) (srcs bad : list node) (allowed : list (node * node)) : bool :=
  match reach_set g srcs with
  | None => false
  | Some R =>
    let B := set_of bad in
    forallb (fun e =>
      if PositiveSet.mem (fst e) R
      then forallb (fun b => negb (PositiveSet.mem b B) || mem_edge (fst e) b allowed) (snd e)
      else true) g
  end.

(* the offending edges (evaluated, not proved: used to print a witness) *)
Definition bad_references (g : graph) (srcs bad : list node) (allowed : list (node * node)) : list (node * node) :=
  match reach_set g srcs with
  | None => []
  | Some R =>
    let B := set_of bad in
    flat_map (fun e =>
      if PositiveSet.mem (fst e) R
      then flat_map (fun b => if negb (PositiveSet.mem b B) || mem_edge (fst e) b allowed then [] else [(fst e, b)]) (snd e)
      else []) g
  end.
