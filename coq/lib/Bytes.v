(* Bytes: byte strings as [list N] (each element meant to be < 256) and
   little-endian fixed-width codecs.  Executable part only. *)
From Coq Require Import NArith List.
Import ListNotations.
Local Open Scope N_scope.

Definition bytes := list N.

(* little-endian value of a byte string *)
Fixpoint le_val (bs : bytes) : N :=
  match bs with
  | [] => 0
  | b :: r => b + 256 * le_val r
  end.

(* little-endian encoding of n on w bytes (n mod 2^(8w)) *)
Fixpoint le_enc (w : nat) (n : N) : bytes :=
  match w with
  | O => []
  | S w' => (n mod 256) :: le_enc w' (n / 256)
  end.

Definition pow256 (w : nat) : N := 2 ^ (8 * N.of_nat w).

(* split off the first n bytes; None when fewer are available (io.ReadFull
   returning io.EOF / io.ErrUnexpectedEOF) *)
Fixpoint take (n : nat) (bs : bytes) : option (bytes * bytes) :=
  match n with
  | O => Some ([], bs)
  | S n' => match bs with
            | [] => None
            | b :: r => match take n' r with
                        | Some (h, t) => Some (b :: h, t)
                        | None => None
                        end
            end
  end.

(* the same with the length given as an N (wire-supplied lengths); never
   converts a large N to nat and never walks further than min(n, available) *)
Fixpoint take_Nf (bs : bytes) (n : N) {struct bs} : option (bytes * bytes) :=
  if n =? 0 then Some ([], bs) else
  match bs with
  | [] => None
  | b :: r => match take_Nf r (N.pred n) with
              | Some (h, t) => Some (b :: h, t)
              | None => None
              end
  end.
Definition take_N (n : N) (bs : bytes) : option (bytes * bytes) := take_Nf bs n.

(* the first min(n, available) bytes (a read loop that stops silently at EOF) *)
Fixpoint take_upto (bs : bytes) (n : N) {struct bs} : bytes * bytes :=
  if n =? 0 then ([], bs) else
  match bs with
  | [] => ([], [])
  | b :: r => let (h, t) := take_upto r (N.pred n) in (b :: h, t)
  end.

Definition bytes_ok (bs : bytes) : bool := forallb (fun b => b <? 256) bs.

Fixpoint bytes_eqb (a b : bytes) : bool :=
  match a, b with
  | [], [] => true
  | x :: a', y :: b' => (x =? y) && bytes_eqb a' b'
  | _, _ => false
  end.
