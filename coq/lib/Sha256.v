(* Executable SHA-256 and SHA-256d (FIPS 180-4) over byte lists.

   Bytes are [N] in 0..255 and 32-bit words are [N] kept below 2^32 by an
   explicit [N.land _ 0xffffffff].  The file is proof-free apart from
   known-answer [Example]s checked by [vm_compute]; no theorem of this
   development depends on a property of SHA-256 (theorems are stated over an
   arbitrary hash and conclude "property or explicit hash anomaly").  The
   function is validated against Go's crypto/sha256 by the correspondence
   runs that use it (C07, C08, C10, C35).

   Speed under vm_compute: a few milliseconds per 64-byte block. *)
From Coq Require Import NArith List.
Import ListNotations.
Local Open Scope N_scope.

Definition mask32 : N := 4294967295.
Definition w32 (x : N) : N := N.land x mask32.
Definition rotr (x n : N) : N := N.lor (N.shiftr x n) (w32 (N.shiftl x (32 - n))).
Definition not32 (x : N) : N := N.lxor x mask32.

Definition ch (x y z : N) : N := N.lxor (N.land x y) (N.land (not32 x) z).
Definition maj (x y z : N) : N := N.lxor (N.lxor (N.land x y) (N.land x z)) (N.land y z).
Definition bsig0 (x : N) : N := N.lxor (N.lxor (rotr x 2) (rotr x 13)) (rotr x 22).
Definition bsig1 (x : N) : N := N.lxor (N.lxor (rotr x 6) (rotr x 11)) (rotr x 25).
Definition ssig0 (x : N) : N := N.lxor (N.lxor (rotr x 7) (rotr x 18)) (N.shiftr x 3).
Definition ssig1 (x : N) : N := N.lxor (N.lxor (rotr x 17) (rotr x 19)) (N.shiftr x 10).

Definition K256 : list N := [1116352408; 1899447441; 3049323471; 3921009573; 961987163; 1508970993; 2453635748; 2870763221; 3624381080; 310598401; 607225278; 1426881987; 1925078388; 2162078206; 2614888103; 3248222580; 3835390401; 4022224774; 264347078; 604807628; 770255983; 1249150122; 1555081692; 1996064986; 2554220882; 2821834349; 2952996808; 3210313671; 3336571891; 3584528711; 113926993; 338241895; 666307205; 773529912; 1294757372; 1396182291; 1695183700; 1986661051; 2177026350; 2456956037; 2730485921; 2820302411; 3259730800; 3345764771; 3516065817; 3600352804; 4094571909; 275423344; 430227734; 506948616; 659060556; 883997877; 958139571; 1322822218; 1537002063; 1747873779; 1955562222; 2024104815; 2227730452; 2361852424; 2428436474; 2756734187; 3204031479; 3329325298].

Definition state := (N * N * N * N * N * N * N * N)%type.

Definition H256_init : state :=
  (1779033703, 3144134277, 1013904242, 2773480762, 1359893119, 2600822924, 528734635, 1541459225).

(* Message schedule: [rev_w] holds W_(t-1), W_(t-2), ... (most recent first);
   [n] more words are appended. *)
Fixpoint sched (n : nat) (rev_w : list N) : list N :=
  match n with
  | O => rev_w
  | S n' =>
    match rev_w with
    | _ :: w2 :: _ :: _ :: _ :: _ :: w7 :: _ :: _ :: _ :: _ :: _ :: _ :: _ :: w15 :: w16 :: _ =>
        sched n' (w32 (ssig1 w2 + w7 + ssig0 w15 + w16) :: rev_w)
    | _ => rev_w
    end
  end.

Definition round (st : state) (k w : N) : state :=
  let '(a, b, c, d, e, f, g, h) := st in
  let t1 := h + bsig1 e + ch e f g + k + w in
  let t2 := bsig0 a + maj a b c in
  (w32 (t1 + t2), a, b, c, w32 (d + t1), e, f, g).

Fixpoint rounds (st : state) (ks ws : list N) : state :=
  match ks, ws with
  | k :: ks', w :: ws' => rounds (round st k w) ks' ws'
  | _, _ => st
  end.

(* One compression: [ws] are the 16 big-endian words of the block. *)
Definition compress (st : state) (ws : list N) : state :=
  let w64 := rev (sched 48 (rev ws)) in
  let '(a, b, c, d, e, f, g, h) := st in
  let '(a', b', c', d', e', f', g', h') := rounds st K256 w64 in
  (w32 (a + a'), w32 (b + b'), w32 (c + c'), w32 (d + d'),
   w32 (e + e'), w32 (f + f'), w32 (g + g'), w32 (h + h')).

(* bytes -> big-endian 32-bit words (length must be a multiple of 4) *)
Fixpoint words_of_bytes (bs : list N) : list N :=
  match bs with
  | b0 :: b1 :: b2 :: b3 :: r =>
      (N.shiftl b0 24 + N.shiftl b1 16 + N.shiftl b2 8 + b3) :: words_of_bytes r
  | _ => []
  end.

Definition bytes_of_word (w : N) : list N :=
  [N.shiftr w 24; N.land (N.shiftr w 16) 255; N.land (N.shiftr w 8) 255; N.land w 255].

Definition bytes_of_state (st : state) : list N :=
  let '(a, b, c, d, e, f, g, h) := st in
  bytes_of_word a ++ bytes_of_word b ++ bytes_of_word c ++ bytes_of_word d ++
  bytes_of_word e ++ bytes_of_word f ++ bytes_of_word g ++ bytes_of_word h.

(* Padding: 0x80, zeros up to 56 mod 64, then the bit length as 8 big-endian bytes. *)
Definition pad (msg : list N) : list N :=
  let len := N.of_nat (length msg) in
  let zeros := N.to_nat ((55 + 64 - (len mod 64)) mod 64) in
  let bits := len * 8 in
  msg ++ 128 :: repeat 0 zeros ++
  [N.land (N.shiftr bits 56) 255; N.land (N.shiftr bits 48) 255;
   N.land (N.shiftr bits 40) 255; N.land (N.shiftr bits 32) 255;
   N.land (N.shiftr bits 24) 255; N.land (N.shiftr bits 16) 255;
   N.land (N.shiftr bits 8) 255; N.land bits 255].

(* Fold [compress] over consecutive 16-word blocks; [fuel] >= number of blocks. *)
Fixpoint blocks (fuel : nat) (st : state) (ws : list N) : state :=
  match fuel with
  | O => st
  | S f =>
    match ws with
    | [] => st
    | _ => blocks f (compress st (firstn 16 ws)) (skipn 16 ws)
    end
  end.

Definition sha256_words (ws : list N) : state :=
  blocks (S (Nat.div (length ws) 16)) H256_init ws.

Definition sha256 (msg : list N) : list N :=
  bytes_of_state (sha256_words (words_of_bytes (pad msg))).

Definition sha256d (msg : list N) : list N := sha256 (sha256 msg).

(* ---- 256-bit values as one number (big-endian), for compact case files ---- *)

Definition words_of_u256 (x : N) : list N :=
  [N.shiftr x 224; w32 (N.shiftr x 192); w32 (N.shiftr x 160); w32 (N.shiftr x 128);
   w32 (N.shiftr x 96); w32 (N.shiftr x 64); w32 (N.shiftr x 32); w32 x].

Definition u256_of_state (st : state) : N :=
  let '(a, b, c, d, e, f, g, h) := st in
  N.shiftl a 224 + N.shiftl b 192 + N.shiftl c 160 + N.shiftl d 128 +
  N.shiftl e 96 + N.shiftl f 64 + N.shiftl g 32 + h.

Definition pad_words_64 : list N := [2147483648; 0; 0; 0; 0; 0; 0; 0; 0; 0; 0; 0; 0; 0; 0; 512].
Definition pad_words_32 : list N := [2147483648; 0; 0; 0; 0; 0; 0; 256].

(* SHA-256d of the 64-byte concatenation of two 32-byte strings given as
   big-endian numbers below 2^256; result as a big-endian number. This is the
   merkle parent function (common.Hash(left || right)). *)
Definition sha256d_pair (l r : N) : N :=
  let st1 := compress (compress H256_init (words_of_u256 l ++ words_of_u256 r)) pad_words_64 in
  let '(a, b, c, d, e, f, g, h) := st1 in
  u256_of_state (compress H256_init ([a; b; c; d; e; f; g; h] ++ pad_words_32)).

Fixpoint n_of_bytes_be (acc : N) (bs : list N) : N :=
  match bs with [] => acc | b :: r => n_of_bytes_be (acc * 256 + b) r end.

Fixpoint bytes_of_n_be (len : nat) (x : N) (acc : list N) : list N :=
  match len with O => acc | S l => bytes_of_n_be l (N.shiftr x 8) (N.land x 255 :: acc) end.

(* ---- known-answer tests (FIPS 180-4 / NIST vectors and hashlib) ---- *)
Example sha256_empty : sha256 [] = [227; 176; 196; 66; 152; 252; 28; 20; 154; 251; 244; 200; 153; 111; 185; 36; 39; 174; 65; 228; 100; 155; 147; 76; 164; 149; 153; 27; 120; 82; 184; 85].
Proof. vm_compute. reflexivity. Qed.

Example sha256_abc : sha256 [97; 98; 99] = [186; 120; 22; 191; 143; 1; 207; 234; 65; 65; 64; 222; 93; 174; 34; 35; 176; 3; 97; 163; 150; 23; 122; 156; 180; 16; 255; 97; 242; 0; 21; 173].
Proof. vm_compute. reflexivity. Qed.

Example sha256_55 : sha256 [97; 97; 97; 97; 97; 97; 97; 97; 97; 97; 97; 97; 97; 97; 97; 97; 97; 97; 97; 97; 97; 97; 97; 97; 97; 97; 97; 97; 97; 97; 97; 97; 97; 97; 97; 97; 97; 97; 97; 97; 97; 97; 97; 97; 97; 97; 97; 97; 97; 97; 97; 97; 97; 97; 97] = [159; 67; 144; 248; 211; 12; 45; 217; 46; 201; 240; 149; 182; 94; 43; 154; 233; 176; 169; 37; 165; 37; 142; 36; 28; 159; 30; 145; 15; 115; 67; 24].
Proof. vm_compute. reflexivity. Qed.

Example sha256_56 : sha256 [97; 98; 99; 100; 98; 99; 100; 101; 99; 100; 101; 102; 100; 101; 102; 103; 101; 102; 103; 104; 102; 103; 104; 105; 103; 104; 105; 106; 104; 105; 106; 107; 105; 106; 107; 108; 106; 107; 108; 109; 107; 108; 109; 110; 108; 109; 110; 111; 109; 110; 111; 112; 110; 111; 112; 113] = [36; 141; 106; 97; 210; 6; 56; 184; 229; 192; 38; 147; 12; 62; 96; 57; 163; 60; 228; 89; 100; 255; 33; 103; 246; 236; 237; 212; 25; 219; 6; 193].
Proof. vm_compute. reflexivity. Qed.

Example sha256_64 : sha256 [0; 1; 2; 3; 4; 5; 6; 7; 8; 9; 10; 11; 12; 13; 14; 15; 16; 17; 18; 19; 20; 21; 22; 23; 24; 25; 26; 27; 28; 29; 30; 31; 32; 33; 34; 35; 36; 37; 38; 39; 40; 41; 42; 43; 44; 45; 46; 47; 48; 49; 50; 51; 52; 53; 54; 55; 56; 57; 58; 59; 60; 61; 62; 63] = [253; 234; 185; 172; 243; 113; 3; 98; 189; 38; 88; 205; 201; 162; 158; 143; 156; 117; 127; 207; 152; 17; 96; 58; 140; 68; 124; 209; 217; 21; 17; 8].
Proof. vm_compute. reflexivity. Qed.

Example sha256_119 : sha256 [3; 10; 17; 24; 31; 38; 45; 52; 59; 66; 73; 80; 87; 94; 101; 108; 115; 122; 129; 136; 143; 150; 157; 164; 171; 178; 185; 192; 199; 206; 213; 220; 227; 234; 241; 248; 255; 6; 13; 20; 27; 34; 41; 48; 55; 62; 69; 76; 83; 90; 97; 104; 111; 118; 125; 132; 139; 146; 153; 160; 167; 174; 181; 188; 195; 202; 209; 216; 223; 230; 237; 244; 251; 2; 9; 16; 23; 30; 37; 44; 51; 58; 65; 72; 79; 86; 93; 100; 107; 114; 121; 128; 135; 142; 149; 156; 163; 170; 177; 184; 191; 198; 205; 212; 219; 226; 233; 240; 247; 254; 5; 12; 19; 26; 33; 40; 47; 54; 61] = [156; 231; 54; 142; 77; 175; 50; 52; 22; 49; 180; 146; 232; 3; 89; 220; 159; 89; 75; 72; 69; 60; 208; 221; 91; 240; 177; 146; 121; 204; 23; 126].
Proof. vm_compute. reflexivity. Qed.

Example sha256d_abc : sha256d [97; 98; 99] = [79; 139; 66; 194; 45; 211; 114; 155; 81; 155; 166; 246; 141; 45; 167; 204; 91; 45; 96; 109; 5; 218; 237; 90; 213; 18; 140; 192; 62; 108; 99; 88].
Proof. vm_compute. reflexivity. Qed.

Example sha256d_pair_ok :
  sha256d_pair 1780731860627700044960722568376592200742329637303199754547598369979440671 14532552714582660066924456880521368950258152170031413196862950297402215317055 =
  n_of_bytes_be 0 (sha256d [0; 1; 2; 3; 4; 5; 6; 7; 8; 9; 10; 11; 12; 13; 14; 15; 16; 17; 18; 19; 20; 21; 22; 23; 24; 25; 26; 27; 28; 29; 30; 31; 32; 33; 34; 35; 36; 37; 38; 39; 40; 41; 42; 43; 44; 45; 46; 47; 48; 49; 50; 51; 52; 53; 54; 55; 56; 57; 58; 59; 60; 61; 62; 63]).
Proof. vm_compute. reflexivity. Qed.
