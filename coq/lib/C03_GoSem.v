(* C03_GoSem: Go's run-time checks as explicit outcomes, with the panic kind.
   Executable part only, no proofs (facts are in proof/C03_Validate.v).
   lib/GoSem.v (codecs, C02) has a kind-less [Panic] and an allocation
   meter; C03 needs the kind (index / slice bounds / integer divide) and
   bounds-checked indexing and slicing over [list Z], so it has its own. *)
From Coq Require Import ZArith List Bool.
Import ListNotations.
Local Open Scope Z_scope.

Inductive panic_kind := IndexOOR | SliceOOR | DivZero.

Inductive res (A : Type) : Type :=
| Ok (a : A)
| Panic (k : panic_kind).
Arguments Ok {A} a.
Arguments Panic {A} k.

Definition bind {A B} (r : res A) (f : A -> res B) : res B :=
  match r with Ok a => f a | Panic k => Panic k end.

Notation "x <- e ;; f" := (bind e (fun x => f))
  (at level 61, e at next level, right associativity).

Definition is_panic {A} (r : res A) : bool :=
  match r with Panic _ => true | Ok _ => false end.

Definition len {A} (l : list A) : Z := Z.of_nat (length l).

(* l[i] *)
Definition idx {A} (l : list A) (i : Z) : res A :=
  if i <? 0 then Panic IndexOOR else
  match nth_error l (Z.to_nat i) with
  | Some a => Ok a
  | None => Panic IndexOOR
  end.

(* l[lo:hi] for a slice whose capacity equals its length (what
   ReadVarBytes / make([]byte, n) produce) and for strings *)
Definition slice {A} (l : list A) (lo hi : Z) : res (list A) :=
  if (0 <=? lo) && (lo <=? hi) && (hi <=? len l)
  then Ok (firstn (Z.to_nat (hi - lo)) (skipn (Z.to_nat lo) l))
  else Panic SliceOOR.

Definition slice_from {A} (l : list A) (lo : Z) : res (list A) := slice l lo (len l).
Definition slice_to {A} (l : list A) (hi : Z) : res (list A) := slice l 0 hi.

(* unsigned a % b *)
Definition gomod (a b : Z) : res Z :=
  if b =? 0 then Panic DivZero else Ok (a mod b).

(* outcome enum shared with the harness:
   0 accept / true, 1 reject / false / error,
   2 index out of range, 3 slice bounds out of range, 4 integer divide by zero *)
Definition outcome (r : res bool) : Z :=
  match r with
  | Ok true => 0
  | Ok false => 1
  | Panic IndexOOR => 2
  | Panic SliceOOR => 3
  | Panic DivZero => 4
  end.
