(* History.v — executable model of utils.History (/repo/utils/history.go).

   Shared library (C20, C21, C22, C28, C29).  NO PROOFS in this file; the
   theorems are in proof/C20_History.v.

   The model mirrors the Go code as it is:
   - a change is a pair of closures (execute, rollback); here functions
     S -> S over an abstract state S (the Go closures mutate the enclosing
     state record; S is that record);
   - [Append] only records; nothing is executed before [Commit];
   - height 0 means "temporary change": kept in [h_temp], executed by the next
     [Commit] (which then returns WITHOUT committing a height and WITHOUT
     clearing them), rolled back by the next non-temporary [Append] or by
     [RollbackTo];
   - [HeightChanges.rollback] undoes the changes of one height in the order
     given by [undo_order] (see below), entries (heights) are undone last first;
   - [Commit] re-executes the entries above the seek height by *index*
     ([length - (height - seekHeight)], uint32 subtraction), evicts all entries
     carrying the oldest height when the number of distinct heights has reached
     the capacity, executes the cached changes and appends them as one entry
     (so committing one height twice yields two entries with equal heights);
   - [SeekTo] checks the limit [height - #distinct heights] (uint32) and then
     moves by *index difference* [seekHeight - height];  an index below 0 is a
     Go panic (explicit outcome [RPanic]);
   - [RollbackSeekTo] drops entries without undoing them, [RollbackTo] undoes
     every entry whose height is above the target (scanning from the end) and
     keeps the prefix before the first such entry;
   - both rollbacks reset the seek height to the new best height
     (repair 'fix: History rollback resets seek height', see notes/C20.md).

   Heights are uint32 in Go; here N, callers pass values < 2^32 (the only
   arithmetic on them, the two subtractions above, is done modulo 2^32). *)
From Coq Require Import ZArith NArith List Bool.
Import ListNotations.

Set Implicit Arguments.

Definition sub32 (a b : N) : N := ((a + 4294967296 - b mod 4294967296) mod 4294967296)%N.

Section History.
  Variable S : Type.

  Record change := Change { c_do : S -> S; c_undo : S -> S }.

  (* utils.HeightChanges *)
  Record hchanges := HC { hc_height : N; hc_changes : list change }.

  (* utils.History *)
  Record history := Hist {
    h_cap : Z;                      (* capacity (Go int) *)
    h_height : N;                   (* height *)
    h_changes : list hchanges;      (* changes, oldest first *)
    h_cached : option hchanges;     (* cachedChanges *)
    h_temp : list change;           (* tempChanges *)
    h_seek : N                      (* seekHeight *)
  }.

  Definition new_history (cap : Z) : history := Hist cap 0 [] None [] 0.

  Definition do_all (cs : list change) (s : S) : S := fold_left (fun s c => c_do c s) cs s.
  Definition undo_fwd (cs : list change) (s : S) : S := fold_left (fun s c => c_undo c s) cs s.
  Definition undo_rev (cs : list change) (s : S) : S := fold_right (fun c s => c_undo c s) s cs.

  (* The order in which HeightChanges.rollback undoes the changes of one
     height.  utils/history.go: `for _, change := range hc.changes` = forward. *)
  Definition undo_order : list change -> S -> S := undo_fwd.

  Definition hc_commit (hc : hchanges) (s : S) : S := do_all (hc_changes hc) s.
  Definition hc_rollback (hc : hchanges) (s : S) : S := undo_order (hc_changes hc) s.

  (* execute entries oldest first / undo entries newest first *)
  Definition commit_entries (l : list hchanges) (s : S) : S := fold_left (fun s hc => hc_commit hc s) l s.
  Definition rollback_entries (l : list hchanges) (s : S) : S := fold_right (fun hc s => hc_rollback hc s) s l.

  Definition heights (l : list hchanges) : list N := map hc_height l.
  (* len(holdHeight): number of distinct heights *)
  Definition distinct_heights (l : list hchanges) : nat := length (nodup N.eq_dec (heights l)).
  (* lastHeightChangesCount: entries carrying the height of the first entry *)
  Definition first_height_count (l : list hchanges) : nat :=
    match l with
    | [] => 0%nat
    | e :: _ => length (filter (fun x => N.eqb (hc_height x) (hc_height e)) l)
    end.
  (* the prefix before the first entry whose height is above k *)
  Fixpoint keep_prefix (k : N) (l : list hchanges) : list hchanges :=
    match l with
    | [] => []
    | e :: r => if N.ltb k (hc_height e) then [] else e :: keep_prefix k r
    end.

  Inductive res :=
  | ROk (st : history * S)      (* returned normally (nil error) *)
  | RErr (st : history * S)     (* returned an error *)
  | RPanic.                     (* Go panic *)

  (* History.Append *)
  Definition append (height : N) (c : change) (st : history * S) : res :=
    let (h, s) := st in
    if N.eqb height 0 then
      ROk (Hist (h_cap h) (h_height h) (h_changes h) (h_cached h) (h_temp h ++ [c]) (h_seek h), s)
    else
      let s1 := match h_temp h with [] => s | _ :: _ => undo_fwd (h_temp h) s end in
      match h_cached h with
      | None =>
          if negb (N.eqb (h_height h) 0) && N.ltb height (h_height h) then RPanic
          else ROk (Hist (h_cap h) (h_height h) (h_changes h) (Some (HC height [c])) [] (h_seek h), s1)
      | Some hc =>
          if negb (N.eqb height (hc_height hc)) then RPanic
          else ROk (Hist (h_cap h) (h_height h) (h_changes h)
                         (Some (HC (hc_height hc) (hc_changes hc ++ [c]))) [] (h_seek h), s1)
      end.

  (* the loop `for i := length - int(seek); i >= 0 && i < length; i++ { changes[i].commit() }` *)
  Definition commit_from (start : Z) (l : list hchanges) (s : S) : S :=
    if (0 <=? start)%Z then commit_entries (skipn (Z.to_nat start) l) s else s.

  (* History.Commit *)
  Definition commit (height : N) (st : history * S) : res :=
    let (h, s) := st in
    match h_temp h with
    | _ :: _ => ROk (h, do_all (h_temp h) s)
    | [] =>
        let seek := sub32 (h_height h) (h_seek h) in
        let len := Z.of_nat (length (h_changes h)) in
        let s1 := commit_from (len - Z.of_N seek) (h_changes h) s in
        let ch := if (h_cap h <=? Z.of_nat (distinct_heights (h_changes h)))%Z
                  then skipn (first_height_count (h_changes h)) (h_changes h)
                  else h_changes h in
        let hc := match h_cached h with Some hc => hc | None => HC height [] end in
        ROk (Hist (h_cap h) height (ch ++ [hc]) None [] height, hc_commit hc s1)
    end.

  (* History.SeekTo *)
  Definition seek_to (height : N) (st : history * S) : res :=
    let (h, s) := st in
    let limit := sub32 (h_height h) (N.of_nat (distinct_heights (h_changes h))) in
    if N.ltb height limit then RErr st
    else
      let seek := (Z.of_N (h_seek h) - Z.of_N height)%Z in
      let len := Z.of_nat (length (h_changes h)) in
      let h' := Hist (h_cap h) (h_height h) (h_changes h) (h_cached h) (h_temp h) height in
      if (0 <=? seek)%Z then
        if (len <? seek)%Z then RPanic   (* changes[-1] after undoing everything *)
        else ROk (h', rollback_entries (skipn (Z.to_nat (len - seek)) (h_changes h)) s)
      else ROk (h', commit_from (len + seek) (h_changes h) s).

  (* History.RollbackSeekTo *)
  Definition rollback_seek_to (height : N) (st : history * S) : res :=
    let (h, s) := st in
    if N.leb (h_height h) height then ROk st
    else ROk (Hist (h_cap h) height (keep_prefix height (h_changes h)) (h_cached h) [] height, s).

  (* History.RollbackTo *)
  Definition rollback_to (height : N) (st : history * S) : res :=
    let (h, s) := st in
    if N.leb (h_height h) height then ROk st
    else
      let s1 := match h_temp h with [] => s | _ :: _ => undo_fwd (h_temp h) s end in
      let s2 := fold_right (fun hc s => if N.ltb height (hc_height hc) then hc_rollback hc s else s)
                           s1 (h_changes h) in
      ROk (Hist (h_cap h) height (keep_prefix height (h_changes h)) (h_cached h) [] height, s2).

  (* ---- op sequences ---- *)
  Inductive op :=
  | OAppend (height : N) (c : change)
  | OCommit (height : N)
  | OSeekTo (height : N)
  | ORollbackSeekTo (height : N)
  | ORollbackTo (height : N).

  Definition step (o : op) (st : history * S) : res :=
    match o with
    | OAppend k c => append k c st
    | OCommit k => commit k st
    | OSeekTo k => seek_to k st
    | ORollbackSeekTo k => rollback_seek_to k st
    | ORollbackTo k => rollback_to k st
    end.

  (* run a sequence; an error return leaves the state as it is and the
     sequence continues (as a Go caller that logs the error would), a panic
     stops it. *)
  Fixpoint run (ops : list op) (st : history * S) : option (history * S) :=
    match ops with
    | [] => Some st
    | o :: r =>
        match step o st with
        | ROk st' => run r st'
        | RErr st' => run r st'
        | RPanic => None
        end
    end.

End History.

Arguments Change {S} _ _.
Arguments HC {S} _ _.
Arguments new_history {S} _.
Arguments RPanic {S}.
Arguments OCommit {S} _.
Arguments OSeekTo {S} _.
Arguments ORollbackSeekTo {S} _.
Arguments ORollbackTo {S} _.
