(* C09 — Proof-of-work target encoding and retargeting are well-behaved.
   Property theorems only; each is closed by [exact] of a lemma from
   proof/C09_Compact.v and followed by Print Assumptions. *)
From Coq Require Import ZArith Bool.
From ELA Require Import model.C09_Compact proof.C09_Compact.
Local Open Scope Z_scope.

(* Decoding a compact difficulty and re-encoding it is the identity on
   canonical encodings: all 2^32 compact values. *)
Theorem C09_compact_roundtrip : forall c,
  0 <= c < 2^32 -> canonical c = true -> big_to_compact (compact_to_big c) = c.
Proof. exact compact_roundtrip. Qed.
Print Assumptions C09_compact_roundtrip.

(* Encoding a target never yields a larger target (all positive targets below
   2^2032, which includes every target up to 2^256). *)
Theorem C09_encode_never_larger : forall t,
  0 < t -> t < 2 ^ 2032 -> compact_to_big (big_to_compact t) <= t.
Proof. exact encode_never_larger. Qed.
Print Assumptions C09_encode_never_larger.

(* A header passes the proof-of-work check only if (indeed: iff) its
   parent-chain hash is at most its target and the target is positive and at
   most the network limit. *)
Theorem C09_pow_accepts_iff : forall bits hashnum limit,
  check_pow bits hashnum limit = true <->
  0 < compact_to_big bits /\ compact_to_big bits <= limit /\ hashnum <= compact_to_big bits.
Proof. exact check_pow_iff. Qed.
Print Assumptions C09_pow_accepts_iff.

(* Each retarget moves the target by at most the adjustment factor and never
   above the limit: for every previous target, all timestamps (uint32
   wrap-around included), every timespan T divisible by the factor k. *)
Theorem C09_retarget_bounds : forall ob p f T k limit,
  0 < T -> 0 < k -> T mod k = 0 -> 0 <= compact_to_big ob -> 0 <= limit ->
  Z.min limit (compact_to_big ob / k) <= retarget_raw ob p f T k limit
    <= Z.min limit (compact_to_big ob * k).
Proof. exact retarget_bounds. Qed.
Print Assumptions C09_retarget_bounds.

(* ... and the compact value actually stored in the header decodes to at most
   that target (so it is also within factor and limit from above). *)
Theorem C09_retarget_encoded_le : forall ob p f T k limit,
  0 < T -> 0 < k -> 0 <= compact_to_big ob -> 0 <= limit -> limit < 2 ^ 2032 ->
  compact_to_big (retarget ob p f T k limit) <= retarget_raw ob p f T k limit.
Proof. exact retarget_encoded_le. Qed.
Print Assumptions C09_retarget_encoded_le.

(* A smaller target never counts for less work (chain selection, C12). *)
Theorem C09_calc_work_antitone : forall b1 b2,
  0 < compact_to_big b1 <= compact_to_big b2 -> calc_work b2 <= calc_work b1.
Proof. exact calc_work_antitone. Qed.
Print Assumptions C09_calc_work_antitone.

(* Non-vacuity: 0x1d00ffff is canonical and round-trips; non-canonical
   encodings (0x03000001, and mainnet's own limit 0x1f0008ff, which re-encodes
   to 0x1e08ff00) do not; a retarget instance with the mainnet parameters
   satisfies the hypotheses. *)
Example C09_nonvacuous :
  canonical 486604799 = true /\ compact_to_big 486604799 > 0 /\
  canonical 520095999 = false /\ big_to_compact (compact_to_big 520095999) = 503906048 /\
  canonical 50331649 = false /\ big_to_compact (compact_to_big 50331649) = 16842752 /\
  (86400 mod 4 = 0 /\ 0 <= compact_to_big 520095999 /\
   retarget_raw 520095999 1000 0 86400 4 (compact_to_big 520095999) = compact_to_big 520095999 / 4).
Proof. vm_compute. repeat split; discriminate || reflexivity. Qed.
