(* C08 — SPV merkle proofs are sound and complete.
   Property theorems only.  Stated for an arbitrary hash type with decidable
   equality and an arbitrary parent function H2; nothing is assumed about H2:
   conclusions are "the property, or an explicit collision of H2".
   [merkle_root] is the model of crypto.ComputeRoot from C07: the root the
   header commits to.  [parse_top] is the recursive reference verifier;
   [check_merkle_block] is the iterative stack machine that CheckMerkleBlock
   really is, proved equal to it (C08_check_merkle_block_eq_parse_top). *)
From Coq Require Import List Bool NArith.
From ELA Require Import model.C07_Merkle model.C08_PMT proof.C08_PMT proof.C08_Iter.
(* the correspondence checker is required (not imported) only so that building this
   file also rebuilds it when the model changes; no theorem below uses it *)
From ELA Require corr.C08_corr.
Import ListNotations.

Section C08.
  Variable hash : Type.
  Variable hash_eq_dec : forall a b : hash, {a = b} + {a <> b}.
  Variable H2 : hash -> hash -> hash.
  Variable h0 : hash.

  (* The top of the partial merkle tree (CalcHash at the tree height) is the
     merkle root of the block: all non-empty transaction lists. *)
  Theorem C08_pmt_root_is_block_root : forall txs : list hash, txs <> [] ->
    merkle_root hash H2 txs = Some (calc_hash hash H2 h0 txs (tree_height hash txs) 0).
  Proof. exact (calc_root_merkle hash H2 h0). Qed.

  (* Complete and exact: for every duplicate-free block and every match
     pattern, the merkle block the node builds (bits packed into flag bytes)
     verifies against the block's merkle root and yields exactly the matched
     transaction ids, in block order. *)
  Theorem C08_parse_build : forall (txs : list hash) (mt : list bool) r,
    NoDup txs -> length mt = length txs -> merkle_root hash H2 txs = Some r ->
    let bh := build hash H2 h0 txs mt (tree_height hash txs) 0 in
    parse_top hash hash_eq_dec H2 (length txs) r (pack_flags (fst bh)) (snd bh)
      = Some (matched hash txs mt) \/ collision hash H2.
  Proof. exact (parse_build hash hash_eq_dec H2 h0). Qed.

  (* Sound: any message (flags and hashes chosen by anyone) that verifies
     against the block's merkle root yields only transaction ids of the block. *)
  Theorem C08_parse_sound : forall (txs : list hash) r flags hs ms,
    merkle_root hash H2 txs = Some r ->
    parse_top hash hash_eq_dec H2 (length txs) r flags hs = Some ms ->
    Forall (fun m => In m txs) ms \/ collision hash H2.
  Proof. exact (parse_sound hash hash_eq_dec H2 h0). Qed.

  (* Sound for any claimed transaction count (the header does not commit to
     it): if a message with count n', any flags and any hashes verifies against
     the merkle root of a duplicate-free block, every id it yields is an id of
     the block or an interior-node hash H2 a b, or an anomaly is exhibited
     (collision, or a transaction id of the block that is itself H2 a b). *)
  Theorem C08_parse_sound_any_count : forall (txs : list hash) n' r flags hs ms,
    NoDup txs -> merkle_root hash H2 txs = Some r ->
    parse_top hash hash_eq_dec H2 n' r flags hs = Some ms ->
    Forall (fun m => In m txs \/ exists a b, m = H2 a b) ms
    \/ collision hash H2 \/ leaf_is_node hash H2 txs.
  Proof. exact (parse_sound_any_count hash hash_eq_dec H2 h0). Qed.

  (* The single-transaction merkle branch recomputes the block's merkle root. *)
  Theorem C08_branch_eval : forall (txs : list hash) i r, i < length txs ->
    merkle_root hash H2 txs = Some r ->
    let b := branch hash H2 h0 txs (tree_height hash txs) 0 i in
    eval_branch hash H2 (nth i txs h0) (fst b) (snd b) = r.
  Proof. exact (branch_eval hash H2 h0). Qed.
End C08.

(* The iterative stack machine of CheckMerkleBlock (code position numbering,
   dead-zone test, explicit stack, fuel 16*len(flags)+8) computes exactly what
   the recursive reference verifier computes: every transaction count up to
   pact.MaxTxPerBlock, every root, every flag string, every hash list; it never
   panics and never runs out of fuel. *)
Theorem C08_check_merkle_block_eq_parse_top : forall (hash : Type)
  (hash_eq_dec : forall a b : hash, {a = b} + {a <> b}) (H2 : hash -> hash -> hash)
  (n : nat) root flags hs, (N.of_nat n <= max_tx_per_block)%N ->
  check_merkle_block hash hash_eq_dec H2 (N.of_nat n) root flags hs =
  match parse_top hash hash_eq_dec H2 n root flags hs with
  | Some ms => OkMatches hash ms
  | None => Reject hash
  end.
Proof. exact check_merkle_block_eq_parse_top. Qed.

(* Hence, for CheckMerkleBlock itself: complete and exact on the message the node builds ... *)
Theorem C08_check_build : forall (hash : Type)
  (hash_eq_dec : forall a b : hash, {a = b} + {a <> b}) (H2 : hash -> hash -> hash) (h0 : hash)
  (txs : list hash) (mt : list bool) r, NoDup txs -> length mt = length txs ->
  merkle_root hash H2 txs = Some r -> (N.of_nat (length txs) <= max_tx_per_block)%N ->
  let bh := build hash H2 h0 txs mt (tree_height hash txs) 0 in
  check_merkle_block hash hash_eq_dec H2 (N.of_nat (length txs)) r (pack_flags (fst bh)) (snd bh)
    = OkMatches hash (matched hash txs mt) \/ collision hash H2.
Proof. exact check_build. Qed.

(* ... and sound for any message with any claimed count (counts above
   MaxTxPerBlock are rejected outright). *)
Theorem C08_check_sound_any_count : forall (hash : Type)
  (hash_eq_dec : forall a b : hash, {a = b} + {a <> b}) (H2 : hash -> hash -> hash) (h0 : hash)
  (txs : list hash) (n' : N) r flags hs ms, NoDup txs ->
  merkle_root hash H2 txs = Some r ->
  check_merkle_block hash hash_eq_dec H2 n' r flags hs = OkMatches hash ms ->
  Forall (fun m => In m txs \/ exists a b, m = H2 a b) ms
  \/ collision hash H2 \/ leaf_is_node hash H2 txs.
Proof. exact check_sound_any_count. Qed.

Print Assumptions C08_pmt_root_is_block_root.
Print Assumptions C08_parse_build.
Print Assumptions C08_parse_sound.
Print Assumptions C08_parse_sound_any_count.
Print Assumptions C08_branch_eval.
Print Assumptions C08_check_merkle_block_eq_parse_top.
Print Assumptions C08_check_build.
Print Assumptions C08_check_sound_any_count.

(* Non-vacuity: a 5-transaction block, pattern {1, 4}: the built message
   verifies (recursive parser and iterative checker) to exactly [2; 5]; the
   branch of transaction 4 (the unpaired last one) evaluates to the root; a
   flipped flag bit is rejected by both verifiers. *)
Local Open Scope N_scope.
Definition ex_h2 (a b : N) : N := 1000 + 37 * a * a + 11 * b + a * b.
Example C08_nonvacuous :
  let txs := [1; 2; 3; 4; 5] in
  let mt := [false; true; false; false; true] in
  let bh := build N ex_h2 0 txs mt (tree_height N txs) 0 in
  let fl := pack_flags (fst bh) in
  exists r, merkle_root N ex_h2 txs = Some r /\
    parse_top N N.eq_dec ex_h2 5 r fl (snd bh) = Some [2; 5] /\
    check_merkle_block N N.eq_dec ex_h2 5 r fl (snd bh) = OkMatches N [2; 5] /\
    (let b := branch N ex_h2 0 txs (tree_height N txs) 0 4 in eval_branch N ex_h2 5 (fst b) (snd b) = r) /\
    parse_top N N.eq_dec ex_h2 5 r (map (fun x => N.lxor x 2) fl) (snd bh) = None /\
    check_merkle_block N N.eq_dec ex_h2 5 r (map (fun x => N.lxor x 2) fl) (snd bh) = Reject N.
Proof. eexists. vm_compute. repeat split. Qed.
