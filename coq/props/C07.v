(* C07 — Block contents are bound to the header.
   Property theorems only.  Everything is stated for an arbitrary hash type
   with decidable equality and an arbitrary parent function H2 (the code uses
   SHA-256d of the 64-byte concatenation); nothing is assumed about H2: the
   conclusions are "the property, or an explicit hash anomaly" where an anomaly
   is a collision pair of H2 or a transaction id that is also an interior node. *)
From Coq Require Import List Bool NArith.
From ELA Require Import model.C07_Merkle proof.C07_Merkle.
(* the correspondence checker is required (not imported) only so that building this
   file also rebuilds it when the model changes; no theorem below uses it *)
From ELA Require corr.C07_corr.
Import ListNotations.

Section C07.
  Variable hash : Type.
  Variable hash_eq_dec : forall a b : hash, {a = b} + {a <> b}.
  Variable H2 : hash -> hash -> hash.

  (* A block is accepted only if (indeed iff) its first transaction is its only
     coinbase, no transaction id occurs twice, and the header's merkle root is
     the merkle root of the transaction ids. *)
  Theorem C07_accepted_iff : forall r (l : list (tx hash)),
    accepted hash hash_eq_dec H2 r l <->
    exists t0 rest, l = t0 :: rest /\ tx_cb hash t0 = true /\
      (forall t, In t rest -> tx_cb hash t = false) /\
      NoDup (map (tx_id hash) l) /\ merkle_root hash H2 (map (tx_id hash) l) = Some r.
  Proof. exact (accepted_iff hash hash_eq_dec H2). Qed.

  (* Equal-length hash lists with equal roots are equal, or a collision of H2
     is exhibited (all lengths; no duplicate-freeness needed). *)
  Theorem C07_root_inj_same_length : forall l l' : list hash,
    length l = length l' -> merkle_root hash H2 l = merkle_root hash H2 l' ->
    l = l' \/ collision hash H2.
  Proof. exact (root_inj_same_length hash hash_eq_dec H2). Qed.

  (* Duplicate-free lists of any lengths with the same root are equal, or an
     anomaly is exhibited (collision, or a leaf that is an interior node). *)
  Theorem C07_root_inj_nodup : forall (l l' : list hash) r, NoDup l -> NoDup l' ->
    merkle_root hash H2 l = Some r -> merkle_root hash H2 l' = Some r ->
    l = l' \/ collision hash H2 \/ leaf_is_node hash H2 l \/ leaf_is_node hash H2 l'.
  Proof. exact (root_inj_nodup hash hash_eq_dec H2). Qed.

  (* Under one header at most one transaction list is accepted. *)
  Theorem C07_accepted_unique : forall r (l l' : list (tx hash)),
    accepted hash hash_eq_dec H2 r l -> accepted hash hash_eq_dec H2 r l' ->
    l = l' \/ anomaly hash H2 l l'.
  Proof. exact (accepted_unique hash hash_eq_dec H2). Qed.

  (* Changing, removing, exchanging, duplicating or inserting a transaction of
     an accepted block makes it rejected (or exhibits an anomaly). *)
  Theorem C07_mutation_rejected : forall r (l l' : list (tx hash)),
    accepted hash hash_eq_dec H2 r l -> single_mutation hash l l' ->
    ~ accepted hash hash_eq_dec H2 r l' \/ anomaly hash H2 l l'.
  Proof. exact (mutation_rejected hash hash_eq_dec H2). Qed.

  (* CVE-2012-2459: a list with a repeated transaction is never accepted,
     whatever the header says (the duplicated-tail lists that share a root with
     the original are excluded by the duplicate check, not by the root). *)
  Theorem C07_duplicated_tail_rejected : forall r (l : list (tx hash)) t,
    In t l -> check_block_sanity_core hash hash_eq_dec H2 r (l ++ [t]) <> Accept.
  Proof. exact (duplicated_tail_rejected hash hash_eq_dec H2). Qed.

  (* Why the duplicate check is part of the binding: the root alone does not
     distinguish a list from its duplicated-tail twin (no property of H2 used). *)
  Theorem C07_duplicated_tail_same_root : forall a b c d e f : hash,
    merkle_root hash H2 [a; b; c] = merkle_root hash H2 [a; b; c; c] /\
    merkle_root hash H2 [a; b; c; d; e; f] = merkle_root hash H2 [a; b; c; d; e; f; e; f].
  Proof. intros. split; reflexivity. Qed.
End C07.

Print Assumptions C07_accepted_iff.
Print Assumptions C07_root_inj_same_length.
Print Assumptions C07_root_inj_nodup.
Print Assumptions C07_accepted_unique.
Print Assumptions C07_mutation_rejected.
Print Assumptions C07_duplicated_tail_rejected.
Print Assumptions C07_duplicated_tail_same_root.

(* Non-vacuity with a concrete H2 on N: an accepted 3-transaction block exists;
   its duplicated-tail twin has the same merkle root and is rejected by the
   duplicate check; an exchange is rejected by the root; a second coinbase and
   a missing first coinbase are rejected as such. *)
Local Open Scope N_scope.
Definition ex_h2 (a b : N) : N := 1000 + 100 * a + b.
Example C07_nonvacuous :
  let l := [(1, true); (2, false); (3, false)] in
  let r := ex_h2 (ex_h2 1 2) (ex_h2 3 3) in
  check_block_sanity_core N N.eq_dec ex_h2 r l = Accept /\
  merkle_root N ex_h2 (map fst (l ++ [(3, false)])) = Some r /\
  check_block_sanity_core N N.eq_dec ex_h2 r (l ++ [(3, false)]) = RejDuplicateTx /\
  check_block_sanity_core N N.eq_dec ex_h2 r [(1, true); (3, false); (2, false)] = RejMerkleRoot /\
  check_block_sanity_core N N.eq_dec ex_h2 r [(1, true); (2, true); (3, false)] = RejSecondCoinbase /\
  check_block_sanity_core N N.eq_dec ex_h2 r [(1, false); (2, false); (3, false)] = RejFirstNotCoinbase.
Proof. vm_compute. repeat split. Qed.
