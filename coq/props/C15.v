(* C15 - Caches are transparent.
   Property theorems only; each is closed by [exact] of a lemma from
   proof/C15_Caches.v (or by evaluation of a witness) and followed by Print
   Assumptions.  The models are in model/C15_Caches.v. *)
From Coq Require Import NArith ZArith List Bool String.
From ELA Require Import model.C15_Caches proof.C15_Caches gen.C15_facts.
Import ListNotations.
Local Open Scope N_scope.

(* ---------------------------------------------------------------- UTXOCache *)

(* Reference list + map + transaction map in front of the transaction store:
   for EVERY operation sequence (lookups, CleanCache, CleanTxCache, store
   additions and removals), every eviction schedule of the transaction map
   (the victims are inputs) and every MaxReferenceSize, each GetTxReference /
   GetTransaction answers exactly what the store alone answers - provided the
   sequence is disciplined: an id is added to the store only when absent, and
   no lookup happens between a removal from the store and the next CleanCache. *)
Theorem C15_utxo_transparent : forall max ops db,
  udisc db false ops = true ->
  Forall2 (fun r spec => r = RBadSchedule \/ r = spec)
          (map fst (urun max (db, uempty) ops)) (uspec_run db ops).
Proof. exact utxo_transparent. Qed.
Print Assumptions C15_utxo_transparent.

(* The schedule of the repaired reorganizeChain / disconnectBlock (CleanCache
   after every RollbackBlock, before the disconnect event is delivered) is
   disciplined for every list of detached blocks and whatever lookups the
   event handlers perform. *)
Theorem C15_utxo_reorg_schedule_disciplined : forall detach db rest,
  forallb (fun b : dblock => forallb is_lookup (snd b)) detach = true ->
  exists db', udisc db false (reorg_fixed detach ++ rest) = udisc db' false rest.
Proof. exact reorg_fixed_disciplined. Qed.
Print Assumptions C15_utxo_reorg_schedule_disciplined.

(* The schedule before the repair (one CleanCache before the first disconnect)
   is not: detaching block N (tx 2, spending tx 1) and N-1 (tx 1), with the
   handler re-validating tx 2 after the first disconnect, leaves a reference
   to the vanished tx 1 that a later GetTxReference still answers. *)
Theorem C15_utxo_prefix_schedule_not_transparent :
  exists db detach after,
    map fst (urun 3 (db, uempty) (reorg_asis detach ++ after)) <> uspec_run db (reorg_asis detach ++ after).
Proof.
  exists [(1, [10]); (2, [20])], [([2], [UGetRef [(1, 0, 0)] []]); ([1], [])], [UGetRef [(1, 0, 0)] []].
  vm_compute. discriminate.
Qed.
Print Assumptions C15_utxo_prefix_schedule_not_transparent.

(* Bounds, for every operation sequence and schedule: at most MaxReferenceSize
   references (list and map), at most MaxReferenceSize + 1 cached transactions
   (insertTransaction evicts only when len > Max). *)
Theorem C15_utxo_bounds : forall max ops db,
  1 <= max ->
  Forall (fun rs : ures * ustate =>
            len (u_inputs (snd rs)) <= max /\ len (u_ref (snd rs)) <= max /\ len (u_txc (snd rs)) <= max + 1)
         (urun max (db, uempty) ops).
Proof. exact utxo_bounds. Qed.
Print Assumptions C15_utxo_bounds.

(* ---------------------------------------------------------------- TxCache *)

(* UnspentIndex.FetchTx through the TxCache = FetchTx on the index alone, for
   every sequence of ConnectBlock / DisconnectBlock / FetchTx, every trim
   victim schedule, every TxCacheVolume (uint32 wrap of the trigger included)
   and MemoryFirst on or off - provided connected transaction ids are new to
   the index and "is a RegisterAsset transaction" is a function of the id. *)
Theorem C15_txcache_transparent : forall regf p ops,
  tdisc regf [] ops = true ->
  ~ In TBadSchedule (map fst (trun p ([], []) ops)) ->
  map fst (trun p ([], []) ops) = tspec_run [] ops.
Proof. exact txc_transparent. Qed.
Print Assumptions C15_txcache_transparent.

(* Bound: with blocks of at most B transactions the cache never holds more
   than TxCacheVolume + TrimmingInterval + B entries (configuration without
   uint32 wrap, cache enabled). *)
Theorem C15_txcache_bounds : forall p B,
  t_memfirst p = false -> t_volume p + t_interval p < 4294967296 ->
  forall ops db c, forallb (block_small B) ops = true -> len c <= t_volume p + t_interval p + B ->
  Forall (fun rs : tres * list (N * N) => len (snd rs) <= t_volume p + t_interval p + B) (trun p (db, c) ops).
Proof. exact txc_bounds. Qed.
Print Assumptions C15_txcache_bounds.

(* ---------------------------------------------------------------- GetBlock *)

(* Decoded block cache (repaired pushBlockMsg): every GetBlock returns what
   the block store holds, for every sequence of GetBlock / dbStoreBlock /
   pushBlockMsg; at most BlocksCacheSize = 2 entries. *)
Theorem C15_blockcache_transparent : forall ops,
  map fst (brun push_fixed ([], bempty) ops) = bspec_run [] ops.
Proof. exact blk_transparent. Qed.
Print Assumptions C15_blockcache_transparent.

Theorem C15_blockcache_bounds : forall ops db,
  Forall (fun rs : bres * bstate => len (b_order (snd rs)) <= 2 /\ len (b_cache (snd rs)) <= 2)
         (brun push_fixed (db, bempty) ops).
Proof. intros ops db. apply blk_bounds. exact bshape_empty. Qed.
Print Assumptions C15_blockcache_bounds.

(* Before the repair pushBlockMsg stripped the confirm of the cached entry:
   store a confirmed block, GetBlock, pushBlockMsg, GetBlock. *)
Theorem C15_blockcache_prefix_not_transparent :
  exists ops, map fst (brun false ([], bempty) ops) <> bspec_run [] ops.
Proof. exists [BStore 1 (1, 7); BGet 1; BPush 1; BGet 1]. vm_compute. discriminate. Qed.
Print Assumptions C15_blockcache_prefix_not_transparent.

(* ---------------------------------------------------------------- WriteMessage *)

(* The full statement "the bytes written are the message's serialization" is
   false of the send cache: its key is (block hash, HaveConfirm), the payload
   also depends on the confirm.  Witness: block 1 sent with confirm A (bytes
   1), then with confirm B (bytes 2): bytes 1 are written again. *)
Theorem C15_sendcache_transparent_refuted :
  exists ops, map fst (srun send_fixed sempty ops) <> map sop_out ops.
Proof. exists [SSend 1 true 1; SSend 1 true 2]. vm_compute. discriminate. Qed.
Print Assumptions C15_sendcache_transparent_refuted.

(* Strongest true restriction: in every history in which the serialization of
   a block message is determined by (hash, HaveConfirm) - one confirm per
   block - the bytes written are the message's serialization, for every
   interleaving of blocks, variants and other messages (both code variants). *)
Theorem C15_sendcache_transparent_partial : forall fixed ops,
  sconsistent [] ops = true -> map fst (srun fixed sempty ops) = map sop_out ops.
Proof. exact send_transparent. Qed.
Print Assumptions C15_sendcache_transparent_partial.

(* Bounds of the repaired code: at most BlocksCacheSize = 2 hashes, map
   entries and payloads after every message. *)
Theorem C15_sendcache_bounds : forall ops,
  Forall (fun os : N * sstate => len (s_hashes (snd os)) <= 2 /\ len (s_outer (snd os)) <= 2 /\ payloads (snd os) <= 2)
         (srun send_fixed sempty ops).
Proof. intros ops. apply send_bounds. constructor. Qed.
Print Assumptions C15_sendcache_bounds.

(* Before the repair the outer map kept one entry per block ever sent. *)
Theorem C15_sendcache_prefix_outer_growth :
  len (s_outer (sfinal false sempty (map (fun i => SSend (N.of_nat i) false (N.of_nat i)) (seq 1 40)))) = 40.
Proof. vm_compute. reflexivity. Qed.
Print Assumptions C15_sendcache_prefix_outer_growth.

(* ---------------------------------------------------------------- source facts *)

(* The hypotheses above that concern call sites, re-read from /repo on every
   run (gen/C15_facts.v): every BlockChain method that calls RollbackBlock
   calls UTXOCache.CleanCache() after it and before events.Notify; nobody
   assigns to a field of a block obtained from GetBlock/GetDposBlockByHash. *)
Theorem C15_source_discipline :
  rollback_sites <> [] /\ forallb snd rollback_sites = true /\ alias_mutation_sites = [].
Proof. split; [discriminate|split; reflexivity]. Qed.
Print Assumptions C15_source_discipline.

(* ---------------------------------------------------------------- non-vacuity *)
(* A disciplined UTXO trace with eviction of the oldest reference (max 2), a
   rollback followed by CleanCache, hits and misses: cached = uncached. *)
Example C15_utxo_nonvacuous :
  let ops := [UStoreAdd 1 [10]; UStoreAdd 2 [20; 21]; UStoreAdd 3 [30];
              UGetRef [(1, 0, 0); (2, 1, 0); (3, 0, 0)] []; UGetRef [(1, 0, 0)] []; UGetTx 2 [];
              UStoreDel 3; UClean; UGetRef [(3, 0, 0)] []; UGetRef [(2, 1, 0); (2, 5, 0)] []] in
  udisc [] false ops = true /\
  map fst (urun 2 ([], uempty) ops) = uspec_run [] ops /\
  nth 4 (uspec_run [] ops) RUnit = RRefs [10] /\ nth 8 (uspec_run [] ops) RUnit = RNotFound.
Proof. vm_compute. repeat split; reflexivity. Qed.

(* A chain trace for the TxCache with the uint32-wrapped trigger (trim fires),
   a disconnect and fetches. *)
Example C15_txcache_nonvacuous :
  let p := mkT 4294957297 10000 false in
  let ops := [TConnect 0 [(1, false, true); (2, true, true)] [] [];
              TConnect 1 [(3, false, true); (4, false, false)] [] [];
              TConnect 2 [(5, false, true)] [3] [1]; TFetch 5; TFetch 1; TFetch 2;
              TDisconnect [(5, false, true)]; TFetch 5] in
  tdisc (fun t => t =? 2) [] ops = true /\
  ~ In TBadSchedule (map fst (trun p ([], []) ops)) /\
  map fst (trun p ([], []) ops) = [TUnit; TUnit; TUnit; TFound 2; TFound 0; TFound 0; TUnit; TMissing].
Proof. vm_compute. repeat split; try reflexivity. intuition discriminate. Qed.

Example C15_sendcache_nonvacuous :
  let ops := [SSend 1 true 11; SSend 1 false 10; SSend 2 true 21; SSend 3 false 30; SSend 1 true 11; SOther 5] in
  sconsistent [] ops = true /\ map fst (srun send_fixed sempty ops) = [11; 10; 21; 30; 11; 5].
Proof. vm_compute. split; reflexivity. Qed.
