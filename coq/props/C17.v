(* C17 — The block database survives a crash at any point.  Property theorems
   only; each is closed by [exact] of a lemma from proof/C17_Crash.v.

   Reading guide (model/C17_Crash.v).  A durable state is (flat files, atomic
   key-value store).  [start_ok max net cksum D c L]: D is what Open returns on
   a database whose logical contents are L (stored blocks in order + metadata
   map): the files end exactly at the write cursor c recorded in the store,
   every block of L is indexed and laid out completely in one file, no other
   block is indexed, the metadata is L's.  A session is a list of items
   ([ICommit c] with blocks, metadata puts/deletes and an arbitrary flush
   decision, or [IClose]); [session_steps] is its trace of durable steps in the
   code's order (four file writes per block, fsync, one key-value batch for the
   cached earlier commits, one for the flushing commit).  [reach tr D Dx]: Dx is
   the durable state after a crash somewhere in tr: any number k of complete
   steps, plus any prefix (m bytes) of the file write in progress (torn write).
   [session_ok]: every block fits one file and fewer than 2^32 blocks exist.
   [durable_log L L done] is the state after the last item of [done] that
   flushed ("last completed flush").  The checksum function is arbitrary
   (4 bytes).  Process-crash semantics: completed writes persist, fsync adds
   nothing (OS / power-loss behaviour is not modelled). *)
From Coq Require Import NArith List Bool.
From ELA Require Import model.C18_Flat proof.C18_Flat model.C17_Crash proof.C17_Base proof.C17_Crash.
Import ListNotations.
Local Open Scope N_scope.

(* crash_atomic: wherever the session is cut, Open succeeds and shows exactly:
   the state after the last completed flush, or the state after the last
   completed commit (made durable by the first batch of the interrupted
   flush), or the state after the interrupted commit; never a mixture. *)
Theorem C17_crash_atomic : forall max net cksum,
  (forall x, length (cksum x) = 4%nat) -> max < 4294967296 -> net < 4294967296 ->
  forall D c L its Dx,
  start_ok max net cksum D c L -> session_ok max L its ->
  reach (session_steps max net cksum (mem_of c (N.of_nat (length (lg_blocks L)))) its) D Dx ->
  exists L' D' c', recover cksum Dx = Ok (D', c') /\ start_ok max net cksum D' c' L' /\
    ((exists done it rest, its = done ++ it :: rest /\
        (L' = durable_log L L done \/ L' = log_items L done \/ L' = log_items L (done ++ [it]))) \/
     L' = durable_log L L its).
Proof. exact crash_atomic. Qed.
Print Assumptions C17_crash_atomic.

(* the literal reading when every commit flushes (cache policy that never
   defers): last completed commit or the interrupted one *)
Theorem C17_crash_atomic_every_commit_flushes : forall max net cksum,
  (forall x, length (cksum x) = 4%nat) -> max < 4294967296 -> net < 4294967296 ->
  forall D c L its Dx,
  start_ok max net cksum D c L -> session_ok max L its -> Forall (fun it => flushes it = true) its ->
  reach (session_steps max net cksum (mem_of c (N.of_nat (length (lg_blocks L)))) its) D Dx ->
  exists L' D' c', recover cksum Dx = Ok (D', c') /\ start_ok max net cksum D' c' L' /\
    ((exists done it rest, its = done ++ it :: rest /\
        (L' = log_items L done \/ L' = log_items L (done ++ [it]))) \/
     L' = log_items L its).
Proof. exact crash_atomic_every_commit_flushes. Qed.
Print Assumptions C17_crash_atomic_every_commit_flushes.

(* readable_blocks_complete: the recovered database serves exactly the blocks
   of its logical state, each byte-for-byte; every other block is "not found"
   (no partially written block is readable) *)
Theorem C17_readable_blocks_complete : forall max net cksum,
  (forall x, length (cksum x) = 4%nat) -> max < 4294967296 -> net < 4294967296 ->
  forall D c L i, start_ok max net cksum D c L ->
  d_fetch net cksum D (N.of_nat i) =
    match nth_error (lg_blocks L) i with Some raw => Ok raw | None => Err ENotFound end.
Proof. exact readable_blocks_complete. Qed.
Print Assumptions C17_readable_blocks_complete.

Theorem C17_recovered_metadata : forall max net cksum D c L k,
  start_ok max net cksum D c L -> d_meta D k = lg_meta L k.
Proof. exact recovered_metadata. Qed.
Print Assumptions C17_recovered_metadata.

(* continues_after_recovery: any further session ending with Close, run on a
   recovered database, reopens to the recovered contents plus the new commits
   (and crash_atomic applies again to that session: start_ok is its premise) *)
Theorem C17_continues_after_recovery : forall max net cksum,
  (forall x, length (cksum x) = 4%nat) -> max < 4294967296 -> net < 4294967296 ->
  forall D c L its,
  start_ok max net cksum D c L -> session_ok max L (its ++ [IClose]) ->
  exists D' c',
    recover cksum (apply_steps (session_steps max net cksum (mem_of c (N.of_nat (length (lg_blocks L)))) (its ++ [IClose])) D)
    = Ok (D', c') /\ start_ok max net cksum D' c' (log_items L its).
Proof. exact continues_after_recovery. Qed.
Print Assumptions C17_continues_after_recovery.

(* Recovery after a crash inside a commit that rolled over (once or several
   times): the metadata cursor is (file N, offset |d|) and the disk ends in a
   later file whose length is unrelated to that offset (typically much smaller).
   The comparison in reconcileDB is lexicographic on (file, offset): the later
   files are deleted, file N is cut back to the cursor, never "corruption". *)
Theorem C17_reconcile_after_rollover : forall max net : N,
  max < 4294967296 -> net < 4294967296 ->
  forall ds0 d suf more z,
  len d <= max -> small ((d ++ suf) :: more ++ [z]) ->
  reconcile (map Some (ds0 ++ (d ++ suf) :: more ++ [z])) (N.of_nat (length ds0), len d)
  = Ok (active ds0 d).
Proof. exact reconcile_after_rollover. Qed.
Print Assumptions C17_reconcile_after_rollover.

(* the database made by Create satisfies the premise *)
Theorem C17_created_database_start_ok : forall max net cksum,
  max < 4294967296 -> net < 4294967296 ->
  start_ok max net cksum (dur0 cksum) (0, 0) log0.
Proof. exact start_dur0. Qed.
Print Assumptions C17_created_database_start_ok.

(* ---- non-vacuity: a concrete session on a created database (file size 64):
   a flushing commit, a cached commit that rolls over, a flushing commit; cut
   inside the torn length-field write of the third commit's block, and between
   the two key-value batches of the third commit's flush *)
Definition ck0 (x : bytes) : bytes := [1; 2; 3; 4].
Definition sess0 : list item :=
  [ICommit (mkcommit [[1; 2; 3]] [(0, Some [7])] true);
   ICommit (mkcommit [repeat 5 45%nat] [(0, None); (1, Some [8])] false);
   ICommit (mkcommit [[9; 9]] [] true); IClose].
Example C17_sess0_ok : session_ok 64 log0 sess0.
Proof.
  split; [|vm_compute; reflexivity].
  repeat constructor; unfold fits; vm_compute; discriminate.
Qed.
Definition tr0 := session_steps 64 7 ck0 (mem_of (0, 0) 0) sess0.
Example C17_sess0_cut_in_third_commit :
  exists D' c', recover ck0 (apply_steps (crash_at 46 2 tr0) (dur0 ck0)) = Ok (D', c') /\
    c' = (0, 15) /\ d_fetch 7 ck0 D' 0 = Ok [1; 2; 3] /\ d_fetch 7 ck0 D' 1 = Err ENotFound /\
    d_meta D' 0 = Some [7] /\ durable_index (firstn 46 tr0) 0 = 1%nat.
Proof. vm_compute. eexists; eexists; repeat split; reflexivity. Qed.
Example C17_sess0_cut_between_batches :
  exists D' c', recover ck0 (apply_steps (crash_at 61 0 tr0) (dur0 ck0)) = Ok (D', c') /\
    c' = (1, 57) /\ d_fetch 7 ck0 D' 1 = Ok (repeat 5 45%nat) /\ d_fetch 7 ck0 D' 2 = Err ENotFound /\
    d_meta D' 0 = None /\ durable_index (firstn 61 tr0) 0 = 2%nat.
Proof. vm_compute. eexists; eexists; repeat split; reflexivity. Qed.

(* disk at (file 2, offset 3) against metadata (file 0, offset 40): "after", not "before" *)
Example C17_cursor_order_is_lexicographic :
  cursor_lt (0, 40) (2, 3) = true /\ cursor_lt (2, 3) (0, 40) = false /\
  reconcile [Some (repeat 1 50%nat); Some (repeat 2 20%nat); Some [3; 3; 3]] (0, 40)
  = Ok (mkstore [Some (repeat 1 40%nat)] 0 40).
Proof. vm_compute. repeat split; reflexivity. Qed.
