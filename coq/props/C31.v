(* C31 - Cross-chain UTXO spending follows the emergency policy.
   Property theorems only; each is closed by [exact] of a lemma from
   proof/C31_CrossChain.v and followed by Print Assumptions. *)
From Coq Require Import ZArith Bool List.
From ELA Require Import model.C31_CrossChain proof.C31_CrossChain corr.C31_corr.
Import ListNotations.
Local Open Scope Z_scope.

(* At heights in the freeze window no transaction that spends a cross-chain
   UTXO is accepted: every type, payload version, reference mix, thresholds. *)
Theorem C31_freeze_window_rejects : forall tt pv px h fh rh,
  fh <= h < rh -> has_cc px = true ->
  check_crosschain tt pv px h fh rh = false.
Proof. exact freeze_window_rejects. Qed.
Print Assumptions C31_freeze_window_rejects.

(* From the restriction height on, only WithdrawFromSideChain with payload
   version 0/1/2 and legacy (version 0) ReturnSideChainDepositCoin spending only
   cross-chain UTXOs may spend them. *)
Theorem C31_restriction_allows_only : forall tt pv px h fh rh,
  fh <= h -> rh <= h -> has_cc px = true ->
  check_crosschain tt pv px h fh rh = true ->
  (tt = tx_withdraw /\ (pv = 0 \/ pv = 1 \/ pv = 2)) \/
  (tt = tx_return_deposit /\ pv = 0 /\ forallb is_cc px = true).
Proof. exact restriction_allows_only. Qed.
Print Assumptions C31_restriction_allows_only.

(* Complete characterisation of the verdict (so the policy also rejects
   nothing else: before the freeze height and for transactions that spend no
   cross-chain UTXO it is inactive). *)
Theorem C31_check_crosschain_spec : forall tt pv px h fh rh,
  check_crosschain tt pv px h fh rh = true <->
  (h < fh \/ has_cc px = false \/ (rh <= h /\ allowed_after tt pv px)).
Proof. exact check_crosschain_spec. Qed.
Print Assumptions C31_check_crosschain_spec.

(* On mainnet ("", "mainnet", "main" in any letter case) both heights are the
   coordinated constants whatever the local configuration says. *)
Theorem C31_mainnet_constants_forced : forall name cfg_fh cfg_rh,
  is_mainnet name = true ->
  enforce_heights name cfg_fh cfg_rh = (mainnet_freeze, mainnet_restriction) /\
  mainnet_freeze < mainnet_restriction.
Proof. exact mainnet_constants_forced. Qed.
Print Assumptions C31_mainnet_constants_forced.

(* ... so a mainnet node freezes cross-chain spends in [2256110, 2256724) and
   restricts them afterwards, for every local configuration. *)
Theorem C31_mainnet_policy : forall name cfg_fh cfg_rh tt pv px h,
  is_mainnet name = true -> has_cc px = true ->
  (mainnet_freeze <= h < mainnet_restriction ->
     node_policy name cfg_fh cfg_rh tt pv px h = false) /\
  (mainnet_restriction <= h ->
     node_policy name cfg_fh cfg_rh tt pv px h = true -> allowed_after tt pv px).
Proof. exact mainnet_policy. Qed.
Print Assumptions C31_mainnet_policy.

(* Every other network keeps the policy disabled: both heights MaxUint32, and
   no transaction is rejected by it at any height below 2^32-1. *)
Theorem C31_others_disabled : forall name cfg_fh cfg_rh,
  is_mainnet name = false ->
  enforce_heights name cfg_fh cfg_rh = (disabled_height, disabled_height) /\
  forall tt pv px h, h < disabled_height ->
    node_policy name cfg_fh cfg_rh tt pv px h = true.
Proof. exact others_disabled. Qed.
Print Assumptions C31_others_disabled.

(* which names are mainnet *)
Theorem C31_is_mainnet_spec : forall name,
  is_mainnet name = true <->
  (map lower_cp name = [] \/ map lower_cp name = s_mainnet \/ map lower_cp name = s_main).
Proof. exact is_mainnet_spec. Qed.
Print Assumptions C31_is_mainnet_spec.

(* Non-vacuity: the exploit shape (TransferAsset spending a cross-chain UTXO)
   passes before the freeze, is rejected in the window and after it; a V2
   withdrawal and a legacy deposit return pass after the restriction height, a
   mixed-input deposit return does not; "MainNet" is mainnet, "testnet" is not. *)
Example C31_nonvacuous :
  check_crosschain 2 0 [75] 2256109 2256110 2256724 = true /\
  check_crosschain 2 0 [75] 2256110 2256110 2256724 = false /\
  check_crosschain 2 0 [33; 75] 2256724 2256110 2256724 = false /\
  check_crosschain 7 2 [75; 33] 2256724 2256110 2256724 = true /\
  check_crosschain 7 3 [75] 2256724 2256110 2256724 = false /\
  check_crosschain 81 0 [75; 75] 2256724 2256110 2256724 = true /\
  check_crosschain 81 0 [75; 33] 2256724 2256110 2256724 = false /\
  is_mainnet [77; 97; 105; 110; 78; 101; 116] = true /\
  is_mainnet [116; 101; 115; 116; 110; 101; 116] = false /\
  enforce_heights [] 0 0 = (2256110, 2256724).
Proof. vm_compute. repeat split; reflexivity. Qed.

(* the correspondence checker flags a wrong observation, accepts a right one *)
Example C31_corr_sane :
  mismatches [CCheck 1 2 0 [75] 2256110 2256110 2256724 false;
              CCheck 2 2 0 [75] 2256110 2256110 2256724 true;
              CSweep 3 7 200 100 200 [75; 33] 1%N [(0, 2, 7); (3, 255, 5)];
              CSweep 4 7 200 100 200 [75; 33] 1%N [(0, 3, 7); (4, 255, 5)];
              CEnforce 5 [77; 65; 73; 78] 0 0 2256110 2256724;
              CEnforce 6 [114; 101; 103] 0 0 0 0] = [2%N; 4%N; 6%N].
Proof. vm_compute. reflexivity. Qed.
