(* C27 — DPoS reward distribution never pays out more than the pool.
   Property theorems only; each is closed by [exact] of a lemma from
   proof/C27_Reward.v and followed by Print Assumptions.

   What is proof and what is testing.  The theorems about [distribute_v]
   (Go's float expressions, lib/GoFloat.v) carry the explicit computable side
   condition [go_sane]: 0 <= reward, no arbiter on a panicking path, the
   block-confirm reward and every per-vote share used are non-negative, and the
   exact sum of all credits fits an int64.  Under it everything is proved for
   all arbiter/candidate sets, vote maps, rewards and all four eras.  That
   [go_sane] follows from "0 <= reward <= 2^55, total votes >= 0, every vote
   between 0 and the total, at most 200 members" is float rounding behaviour
   that is TESTED, not proved: evaluated by vm_compute on every correspondence
   case (corr/C27_corr.v) and on the grid of C27_sane_sweep below.
   C27_any_rounding states the same conclusions for ANY pair of rounding
   functions (ibcr, share) and is closed under the global context. *)
From Coq Require Import ZArith Bool List.
From Coq Require Import QArith Lqa.
From ELA Require Import lib.GoFloat model.C27_Reward proof.C27_Reward proof.C27_Rounding.
From ELA Require corr.C27_corr.
Import ListNotations.
Local Open Scope Z_scope.

(* distributeDPOSReward(height, reward) is distribute_v in the era selected by
   the height test; the theorems below hold for every era v. *)
Example C27_entry_point : forall s h reward, distribute s h reward = distribute_v s (version_of s h) reward.
Proof. reflexivity. Qed.

(* Whenever the distribution succeeds the remainder is non-negative (the final
   guard), with no side condition at all. *)
Theorem C27_change_nonneg : forall s v reward m change,
  distribute_v s v reward = ROk m change -> 0 <= change.
Proof. exact change_nonneg_always. Qed.
Print Assumptions C27_change_nonneg.

(* The amount attributed as paid (exact integer sum of what the loops count,
   no wrap-around) is reward - change, between 0 and the reward. *)
Theorem C27_paid_le_reward : forall s v reward m change,
  distribute_v s v reward = ROk m change -> go_sane s v reward = true ->
  0 <= change /\ go_paid s v reward = reward - change /\ 0 <= go_paid s v reward.
Proof. exact paid_le_reward. Qed.
Print Assumptions C27_paid_le_reward.

(* No individual payout in the round reward map is negative. *)
Theorem C27_no_negative_entry : forall s v reward m change,
  distribute_v s v reward = ROk m change -> go_sane s v reward = true ->
  forall k x, In (k, x) m -> 0 <= x.
Proof. exact no_negative_entry. Qed.
Print Assumptions C27_no_negative_entry.

(* Relation between the map and the amount counted as paid: the map holds at
   most paid + the abnormal-CR credits, which V2/V3 add to the destroy address
   without counting them (arbitersCount - len(CurrentArbitrators) times the
   block-confirm reward); candidate entries are assigned, not added, so the
   map total can be smaller (C27_candidate_overwrites). *)
Theorem C27_map_sum_relation : forall s v reward m change,
  distribute_v s v reward = ROk m change -> go_sane s v reward = true ->
  sum_map m <= go_credited s v reward /\ go_paid s v reward <= go_credited s v reward /\
  go_credited s v reward - go_paid s v reward =
    (if is_early s v then 0 else Z.of_nat (n_extra s v) * go_ibcr reward (count_of s v)).
Proof. exact map_sum_relation. Qed.
Print Assumptions C27_map_sum_relation.

(* The same four conclusions for any rounding functions: the loops and the
   final guard of the model with arbitrary ibcr / share. *)
Theorem C27_any_rounding : forall (ibcr : Z) (share : Z -> Z) s v reward m change,
  guard reward (dist_version ibcr share s v reward) = ROk m change ->
  sane ibcr share s v reward = true ->
  0 <= change /\
  paid ibcr share s v reward = reward - change /\
  0 <= paid ibcr share s v reward /\
  (forall k x, In (k, x) m -> 0 <= x) /\
  sum_map m <= credited ibcr share s v reward /\
  paid ibcr share s v reward <= credited ibcr share s v reward.
Proof. exact guard_ok. Qed.
Print Assumptions C27_any_rounding.

(* Structural form: instead of the computed side condition, hypotheses on the
   inputs (reward, vote range, no panic path, sizes) and three facts about the
   two rounding functions: 0 <= ibcr <= B1, 0 <= share x <= B2 on [0, T]. *)
Theorem C27_structural_any_rounding : forall (ibcr : Z) (share : Z -> Z) s v reward T B1 B2 m change,
  0 <= reward <= max_int64 -> 0 <= T -> 0 <= ibcr <= B1 ->
  (forall x, 0 <= x <= T -> 0 <= share x <= B2) ->
  (forall k x, In (k, x) (s_votes s) -> 0 <= x <= T) ->
  (forall a, In a (s_arbs s) -> exact_of ibcr share s v a <> None) ->
  (Z.of_nat (length (s_arbs s)) + Z.of_nat (n_extra s v)) * B1 +
  (Z.of_nat (length (s_arbs s)) + Z.of_nat (length (s_cands s))) * B2 <= max_int64 ->
  guard reward (dist_version ibcr share s v reward) = ROk m change ->
  0 <= change /\
  paid ibcr share s v reward = reward - change /\
  0 <= paid ibcr share s v reward /\
  (forall k x, In (k, x) m -> 0 <= x) /\
  sum_map m <= credited ibcr share s v reward.
Proof. exact structural_ok. Qed.
Print Assumptions C27_structural_any_rounding.

(* ... and those three facts are PROVED for the expressions the code
   evaluates, Floor(R(R(R r * 1/4) / R n)) and Floor(R(R x * R(R(R r - R(R r * 1/4)) / R T))),
   for every rounding function R on the rationals that is monotone, fixes 0
   and stays within a factor 2 of its argument (binary64 round-to-nearest below
   overflow is such an R).  So: reward >= 0, total votes > 0, every vote in
   [0, total], arbiter count > 0, no panic path, sizes fit  ==>  paid = reward -
   change >= 0, change >= 0, no negative payout.  What is left untested-vs-proved:
   that Coq's primitive float operations are "exact operation, then such an R". *)
Theorem C27_abstract_rounding : forall (R : Q -> Q),
  (forall a b, (a <= b)%Q -> (R a <= R b)%Q) -> (R 0 == 0)%Q ->
  (forall a, (0 <= a)%Q -> (R a <= 2 * a)%Q) -> (forall a, (0 <= a)%Q -> (a <= 2 * R a)%Q) ->
  forall s v reward m change,
  0 <= reward <= max_int64 -> 0 < s_total s -> 0 < count_of s v ->
  (forall k x, In (k, x) (s_votes s) -> 0 <= x <= s_total s) ->
  (forall a, In a (s_arbs s) -> exact_of 0 (fun _ => 0) s v a <> None) ->
  (Z.of_nat (length (s_arbs s)) + Z.of_nat (n_extra s v)) * (4 * reward) +
  (Z.of_nat (length (s_arbs s)) + Z.of_nat (length (s_cands s))) * (64 * reward) <= max_int64 ->
  guard reward (dist_version (ibcr_abs R reward (count_of s v)) (share_abs R reward (s_total s)) s v reward)
    = ROk m change ->
  0 <= change /\
  paid (ibcr_abs R reward (count_of s v)) (share_abs R reward (s_total s)) s v reward = reward - change /\
  0 <= paid (ibcr_abs R reward (count_of s v)) (share_abs R reward (s_total s)) s v reward /\
  (forall k x, In (k, x) m -> 0 <= x) /\
  sum_map m <= credited (ibcr_abs R reward (count_of s v)) (share_abs R reward (s_total s)) s v reward.
Proof. exact abs_rounding_ok. Qed.
Print Assumptions C27_abstract_rounding.

(* ---- non-vacuity and witnesses (vm_compute) *)

Definition plain (owner : Z) : arb :=
  {| a_owner := owner; a_in_map := false; a_crc := false; a_elected := false; a_nodpk := false;
     a_pkhash := Some owner; a_prodhash := Some owner |}.

Definition round (arbs : list arb) (cands : list Z) (votes : list (Z * Z)) (total normal : Z) : st :=
  {| s_arbs := arbs; s_cands := cands; s_votes := votes; s_total := total; s_crc_count := 0;
     s_normal_count := normal; s_pow := false; s_destroy := 1; s_crc_hash := 2;
     s_h_v1 := 1000; s_h_v2 := 2000; s_h_v3 := 3000 |}.

Definition ex_round : st :=
  round [plain 3; plain 4; plain 5] [6; 7] [(3, 50); (4, 30); (5, 10); (6, 7); (7, 3)] 100 3.

(* three arbiters, two candidates, votes 50/30/10/7/3 of 100, reward 0.01 ELA *)
Example C27_nonvacuous :
  go_sane ex_round V3 1000000 = true /\
  distribute ex_round 3500 1000000 = ROk [(3, 458333); (4, 308333); (5, 158333); (6, 52500); (7, 22500)] 1 /\
  go_paid ex_round V3 1000000 = 999999.
Proof. vm_compute. repeat split; reflexivity. Qed.

(* A round without votes (fixed by /repo commit e94ecf06): the expression
   before the fix turned 0 * (x/0) = NaN into MinInt64; the repaired code pays
   the block-confirm rewards only and carries the rest forward. *)
Example C27_zero_vote_round :
  to_int64 (floor (mul (of_int64 0) (go_rpv_unguarded 1000000 0))) = min_int64 /\
  (let s := round [plain 3; plain 4] [] [(3, 0); (4, 0)] 0 2 in
   go_sane s V3 1000000 = true /\
   distribute s 3500 1000000 = ROk [(3, 125000); (4, 125000)] 750000).
Proof. vm_compute. repeat split; reflexivity. Qed.

(* a candidate that repeats an arbiter's owner hash overwrites the arbiter's
   entry: the map then holds less than what was counted as paid *)
Example C27_candidate_overwrites :
  let s := round [plain 3; plain 4] [3] [(3, 10); (4, 40)] 100 2 in
  distribute s 3500 1000000 = ROk [(3, 75000); (4, 425000)] 300000 /\ go_sane s V3 1000000 = true /\
  go_paid s V3 1000000 = 700000 /\ sum_map [(3, 75000); (4, 425000)] = 500000.
Proof. vm_compute. repeat split; reflexivity. Qed.

(* abnormal CR members: 12 CRC + 24 normal configured, 3 arbiters present; the
   33 uncounted block-confirm credits go to the destroy address on top of
   paid + change = reward *)
Example C27_abnormal_cr_credits :
  let s := {| s_arbs := [plain 3; plain 4; plain 5]; s_cands := []; s_votes := [(3, 50); (4, 30); (5, 20)];
              s_total := 100; s_crc_count := 12; s_normal_count := 24; s_pow := false; s_destroy := 1;
              s_crc_hash := 2; s_h_v1 := 1000; s_h_v2 := 2000; s_h_v3 := 3000 |} in
  distribute s 3500 3600000 = ROk [(1, 825000); (3, 1375000); (4, 835000); (5, 565000)] 825000 /\
  go_sane s V3 3600000 = true /\ go_paid s V3 3600000 = 2775000 /\
  sum_map [(1, 825000); (3, 1375000); (4, 835000); (5, 565000)] = 2775000 + 33 * 25000.
Proof. vm_compute. repeat split; reflexivity. Qed.

(* TEST (not a proof of the general statement): the side condition holds on a
   grid of rewards x vote totals x vote splits for the round shape above, in
   all four eras. *)
Definition grid_rewards : list Z :=
  [0; 1; 2; 3; 4; 5; 7; 99; 1000000; 106544901; 3835615668; 9007199254740991; 9007199254740993; 36028797018963968].
Definition grid_totals : list Z := [0; 1; 2; 3; 100; 12345678; 1000000007; 4503599627370497; 4611686018427387904].

Example C27_sane_sweep :
  forallb (fun r => forallb (fun t => forallb (fun v =>
     go_sane (round [plain 3; plain 4; plain 5] [6; 7]
                    [(3, t); (4, t / 2); (5, t / 3); (6, Z.min t 1); (7, 0)] t 3) v r)
     [V0; V1; V2; V3]) grid_totals) grid_rewards = true.
Proof. vm_compute. reflexivity. Qed.

(* non-vacuity of C27_abstract_rounding: exact arithmetic (R = identity) is an
   admissible rounding; on the example round the hypotheses hold and the
   distribution succeeds. *)
Example C27_abstract_rounding_nonvacuous :
  let R := fun q : Q => q in
  ((forall a b, (a <= b)%Q -> (R a <= R b)%Q) /\ (R 0 == 0)%Q /\
   (forall a, (0 <= a)%Q -> (R a <= 2 * a)%Q) /\ (forall a, (0 <= a)%Q -> (a <= 2 * R a)%Q)) /\
  (Z.of_nat (length (s_arbs ex_round)) + Z.of_nat (n_extra ex_round V3)) * (4 * 1000000) +
  (Z.of_nat (length (s_arbs ex_round)) + Z.of_nat (length (s_cands ex_round))) * (64 * 1000000) <= max_int64 /\
  guard 1000000 (dist_version (ibcr_abs R 1000000 (count_of ex_round V3)) (share_abs R 1000000 (s_total ex_round))
                              ex_round V3 1000000)
    = ROk [(3, 458333); (4, 308333); (5, 158333); (6, 52500); (7, 22500)] 1.
Proof.
  cbv zeta. split; [| split].
  - repeat split; intros; lra.
  - vm_compute. discriminate.
  - vm_compute. reflexivity.
Qed.
